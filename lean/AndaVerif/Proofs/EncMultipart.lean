/-
C09: a multipart upload commits exactly what a single `put_opts` of the concatenated parts commits.
-/
import AndaVerif.Proofs.EncRanges
import AndaVerif.Proofs.EncWriter

namespace AndaVerif.Enc

theorem chunksAux_nil (c f : Nat) : chunksAux c f [] = [] := by cases f <;> rfl

theorem chunksAux_fuel (c : Nat) (hc : 1 ≤ c) : ∀ (f f' : Nat) (d : Bytes), d.length ≤ f → d.length ≤ f' →
    chunksAux c f d = chunksAux c f' d
  | 0, f', d, h, _ => by
    have : d = [] := List.eq_nil_of_length_eq_zero (by omega)
    subst this; rw [chunksAux_nil, chunksAux_nil]
  | f + 1, 0, d, _, h' => by
    have : d = [] := List.eq_nil_of_length_eq_zero (by omega)
    subst this; rw [chunksAux_nil, chunksAux_nil]
  | f + 1, f' + 1, [], _, _ => rfl
  | f + 1, f' + 1, b :: d, h, h' => by
    simp only [chunksAux]
    congr 1
    apply chunksAux_fuel c hc
    · simp only [List.length_drop, List.length_cons] at *; omega
    · simp only [List.length_drop, List.length_cons] at *; omega

/-- One step of `data.chunks(c)`. -/
theorem chunks_step (c : Nat) (hc : 1 ≤ c) (X : Bytes) (hX : X ≠ []) :
    chunks c X = X.take c :: chunks c (X.drop c) := by
  cases X with
  | nil => exact absurd rfl hX
  | cons b d =>
    unfold chunks
    simp only [List.length_cons, chunksAux]
    congr 1
    apply chunksAux_fuel c hc
    · simp only [List.length_drop, List.length_cons]; omega
    · exact Nat.le_refl _

theorem chunks_append (c : Nat) (hc : 1 ≤ c) : ∀ (q : Nat) (X Y : Bytes), X.length = q * c →
    chunks c (X ++ Y) = chunks c X ++ chunks c Y
  | 0, X, Y, h => by
    have : X = [] := List.eq_nil_of_length_eq_zero (by simpa using h)
    subst this; simp [chunks, chunksAux_nil]
  | q + 1, X, Y, h => by
    have hlen : c ≤ X.length := by rw [h, Nat.add_mul]; omega
    have hX : X ≠ [] := by intro e; rw [e] at hlen; simp at hlen; omega
    have hXY : X ++ Y ≠ [] := by simp [hX]
    rw [chunks_step c hc (X ++ Y) hXY, chunks_step c hc X hX]
    rw [List.take_append_of_le_length hlen, List.drop_append_of_le_length hlen]
    have hd : (X.drop c).length = q * c := by
      rw [List.length_drop, h, Nat.add_mul]; omega
    rw [chunks_append c hc q (X.drop c) Y hd]
    rfl

theorem chunks_length_of_mul (c : Nat) (hc : 1 ≤ c) (q : Nat) (X : Bytes) (h : X.length = q * c) :
    (chunks c X).length = q := by
  obtain ⟨l1, l2⟩ := chunksAux_length c hc X.length X (Nat.le_refl _)
  unfold chunks
  generalize (chunksAux c X.length X).length = n at l1 l2
  rw [h] at l1 l2
  have a2 : n * c < (q + 1) * c := by rw [Nat.add_mul]; omega
  have := Nat.le_of_mul_le_mul_right l1 (by omega)
  have := Nat.lt_of_mul_lt_mul_right a2
  omega

theorem sealChunks_append (A : AEAD) (base : Bytes) (c : Nat) : ∀ (i : Nat) (l1 l2 : List Bytes),
    sealChunks A base c i (l1 ++ l2) = sealChunks A base c i l1 ++ sealChunks A base c (i + l1.length) l2
  | i, [], l2 => by simp [sealChunks]
  | i, x :: l1, l2 => by
    simp only [List.cons_append, sealChunks, List.length_cons]
    rw [sealChunks_append A base c (i + 1) l1 l2]
    congr 3
    omega

/-- Invariant of the uploader after the parts seen so far concatenate to `Q`. -/
structure MpInv (A : AEAD) (c : Nat) (base : Bytes) (s : MpState) (Q : Bytes) : Prop where
  consumed : ∃ X, Q = X ++ s.buf ∧ X.length = s.chunkIndex * c ∧
    s.tags = (sealChunks A base c 0 (chunks c X)).map (·.2) ∧
    s.out = ((sealChunks A base c 0 (chunks c X)).map (·.1)).flatten
  short : s.buf.length < c
  size : s.size = Q.length

theorem mpInv_init (A : AEAD) (c : Nat) (hc : 1 ≤ c) (base : Bytes) : MpInv A c base MpState.init [] :=
  ⟨⟨[], by simp [MpState.init, chunks, chunksAux_nil, sealChunks]⟩, by simp [MpState.init]; omega, rfl⟩

theorem mpInv_step (A : AEAD) (c : Nat) (hc : 1 ≤ c) (base : Bytes) (s : MpState) (Q part : Bytes)
    (h : MpInv A c base s Q) : MpInv A c base (mpPutPart A c base s part) (Q ++ part) := by
  obtain ⟨⟨X, hQ, hX, htags, hout⟩, hshort, hsize⟩ := h
  unfold mpPutPart
  simp only
  by_cases hb : (s.buf ++ part).length < c
  · simp only [hb, if_true]
    exact ⟨⟨X, by rw [hQ, List.append_assoc], hX, htags, hout⟩, hb, by simp [hsize]⟩
  · simp only [hb, if_false]
    have hdm := Nat.div_add_mod (s.buf ++ part).length c
    have hml := Nat.mod_lt (s.buf ++ part).length (show c > 0 by omega)
    have hsplit : (s.buf ++ part).length / c * c ≤ (s.buf ++ part).length := Nat.div_mul_le_self _ _
    have htl : ((s.buf ++ part).take ((s.buf ++ part).length / c * c)).length =
        (s.buf ++ part).length / c * c := by
      rw [List.length_take]; omega
    have hcl := chunks_length_of_mul c hc _ _ htl
    refine ⟨⟨X ++ (s.buf ++ part).take ((s.buf ++ part).length / c * c), ?_, ?_, ?_, ?_⟩, ?_, ?_⟩
    · rw [hQ, List.append_assoc, List.append_assoc, List.take_append_drop]
    · show (X ++ _).length = (s.chunkIndex + (sealChunks A base c s.chunkIndex (chunks c _)).length) * c
      rw [List.length_append, htl, hX, sealChunks_length, hcl, Nat.add_mul]
    · rw [chunks_append c hc s.chunkIndex X _ hX, sealChunks_append, List.map_append, htags,
        chunks_length_of_mul c hc _ X hX]
      simp
    · rw [chunks_append c hc s.chunkIndex X _ hX, sealChunks_append, List.map_append, List.flatten_append,
        hout, chunks_length_of_mul c hc _ X hX]
      simp
    · rw [List.length_drop]
      have e : (s.buf ++ part).length / c * c = c * ((s.buf ++ part).length / c) := Nat.mul_comm _ _
      omega
    · simp [hsize, hQ]; omega

theorem mpInv_foldl (A : AEAD) (c : Nat) (hc : 1 ≤ c) (base : Bytes) : ∀ (parts : List Bytes) (s : MpState)
    (Q : Bytes), MpInv A c base s Q →
      MpInv A c base (parts.foldl (mpPutPart A c base) s) (Q ++ parts.flatten)
  | [], s, Q, h => by simpa using h
  | p :: rest, s, Q, h => by
    simp only [List.foldl_cons, List.flatten_cons]
    rw [← List.append_assoc]
    exact mpInv_foldl A c hc base rest _ _ (mpInv_step A c hc base s Q p h)

theorem multipart_eq_put' (A : AEAD) (c : Nat) (loc : Bytes) (parts : List Bytes) (f : Fresh) (hc : 1 ≤ c) :
    mpComplete A c loc f (parts.foldl (mpPutPart A c f.baseNonce) MpState.init) =
      writeObject A c loc parts.flatten f := by
  have h := mpInv_foldl A c hc f.baseNonce parts MpState.init [] (mpInv_init A c hc f.baseNonce)
  simp only [List.nil_append] at h
  obtain ⟨⟨X, hQ, hX, htags, hout⟩, hshort, hsize⟩ := h
  generalize parts.foldl (mpPutPart A c f.baseNonce) MpState.init = s at *
  have hch : chunks c parts.flatten = chunks c X ++ chunks c s.buf := by
    rw [hQ]; exact chunks_append c hc s.chunkIndex X s.buf hX
  have hseal : sealChunks A f.baseNonce c 0 (chunks c parts.flatten) =
      sealChunks A f.baseNonce c 0 (chunks c X) ++ sealChunks A f.baseNonce c s.chunkIndex (chunks c s.buf) := by
    rw [hch, sealChunks_append, chunks_length_of_mul c hc _ X hX]; simp
  unfold mpComplete writeObject
  simp only [hseal, List.map_append, List.flatten_append, htags, hout, hsize]

end AndaVerif.Enc
