/-
C15 — lemmas about the budget pre-scan model (`Model/KipLex.lean`).
-/
import AndaVerif.Model.KipLex

namespace AndaVerif.Proofs.KipLex
open AndaVerif.Model.KipLex

/-! ### unfolding the reference lexer (defined by well-founded recursion) -/

theorem refLex_nil : refLex [] = [] := by rw [refLex.eq_def]
theorem refString_nil : refString [] = [] := by rw [refString.eq_def]
theorem refComment_nil : refComment [] = [] := by rw [refComment.eq_def]

theorem refLex_cons (c : Char) (rest : List Char) :
    refLex (c :: rest) =
      if c == '"' then (c, .str) :: refString rest
      else if c == '/' then
        match rest with
        | c2 :: rest2 =>
          if c2 == '/' then (c, .comment) :: (c2, .comment) :: refComment rest2
          else (c, .code) :: refLex (c2 :: rest2)
        | [] => [(c, .code)]
      else (c, .code) :: refLex rest := by
  rw [refLex.eq_def]; rfl

theorem refString_cons (c : Char) (rest : List Char) :
    refString (c :: rest) =
      if c == '\\' then
        match rest with
        | c2 :: rest2 => (c, .str) :: (c2, .str) :: refString rest2
        | [] => [(c, .str)]
      else if c == '"' then (c, .str) :: refLex rest
      else (c, .str) :: refString rest := by
  rw [refString.eq_def]; rfl

theorem refComment_cons (c : Char) (rest : List Char) :
    refComment (c :: rest) =
      if c == '\n' then (c, .comment) :: refLex rest else (c, .comment) :: refComment rest := by
  rw [refComment.eq_def]

/-! ### the automaton and the reference lexer agree on every character -/

/-- The five lexical states the automaton can be in, each with the reference-lexer function that
continues from there. -/
theorem sync_all (s : List Char) :
    scanTagged {} s = refLex s ∧
    scanTagged { prevSlash := true } s = refLex ('/' :: s) ∧
    scanTagged { inString := true } s = refString s ∧
    scanTagged { inString := true, escaped := true } s =
      (match s with | [] => [] | c :: r => (c, Cls.str) :: refString r) ∧
    scanTagged { inLineComment := true } s = refComment s := by
  induction s with
  | nil =>
    simp [scanTagged, flush, refLex_nil, refLex_cons, refString_nil, refComment_nil]
  | cons c cs ih =>
    obtain ⟨h0, h1, h2, h3, h4⟩ := ih
    refine ⟨?_, ?_, ?_, ?_, ?_⟩
    · by_cases hq : c = '"'
      · subst hq; simp [scanTagged, emit, lexStep, refLex_cons, h2]
      · by_cases hs : c = '/'
        · subst hs; simp [scanTagged, emit, lexStep, h1]
        · simp [scanTagged, emit, lexStep, refLex_cons, hq, hs, h0]
    · by_cases hs : c = '/'
      · subst hs; simp [scanTagged, emit, lexStep, refLex_cons, h4]
      · by_cases hq : c = '"'
        · subst hq; simp [scanTagged, emit, lexStep, refLex_cons, h2]
        · simp [scanTagged, emit, lexStep, refLex_cons, hq, hs, h0]
    · by_cases hb : c = '\\'
      · subst hb
        simp [scanTagged, emit, lexStep, refString_cons, h3]
        cases cs <;> simp
      · by_cases hq : c = '"'
        · subst hq; simp [scanTagged, emit, lexStep, refString_cons, h0]
        · simp [scanTagged, emit, lexStep, refString_cons, hq, hb, h2]
    · simp [scanTagged, emit, lexStep, h2]
    · by_cases hn : c = '\n'
      · subst hn; simp [scanTagged, emit, lexStep, refComment_cons, h0]
      · simp [scanTagged, emit, lexStep, refComment_cons, hn, h4]


/-- The classification is a classification of the input: nothing dropped, nothing added. -/
theorem covers_all (s : List Char) :
    (scanTagged {} s).map (·.1) = s ∧
    (scanTagged { prevSlash := true } s).map (·.1) = '/' :: s ∧
    (scanTagged { inString := true } s).map (·.1) = s ∧
    (scanTagged { inString := true, escaped := true } s).map (·.1) = s ∧
    (scanTagged { inLineComment := true } s).map (·.1) = s := by
  induction s with
  | nil => simp [scanTagged, flush]
  | cons c cs ih =>
    obtain ⟨h0, h1, h2, h3, h4⟩ := ih
    refine ⟨?_, ?_, ?_, ?_, ?_⟩
    · by_cases hq : c = '"'
      · subst hq; simp [scanTagged, emit, lexStep, h2]
      · by_cases hs : c = '/'
        · subst hs; simp [scanTagged, emit, lexStep, h1]
        · simp [scanTagged, emit, lexStep, hq, hs, h0]
    · by_cases hs : c = '/'
      · subst hs; simp [scanTagged, emit, lexStep, h4]
      · by_cases hq : c = '"'
        · subst hq; simp [scanTagged, emit, lexStep, h2]
        · simp [scanTagged, emit, lexStep, hq, hs, h0]
    · by_cases hb : c = '\\'
      · subst hb; simp [scanTagged, emit, lexStep, h3]
      · by_cases hq : c = '"'
        · subst hq; simp [scanTagged, emit, lexStep, h0]
        · simp [scanTagged, emit, lexStep, hq, hb, h2]
    · simp [scanTagged, emit, lexStep, h2]
    · by_cases hn : c = '\n'
      · subst hn; simp [scanTagged, emit, lexStep, h0]
      · simp [scanTagged, emit, lexStep, hn, h4]

/-! ### the stack of `step` is `stackRun` over the code brackets the automaton sees -/

/-- One step of `stackRun`. -/
def stackStep (d : Nat) (stk : List Char) (c : Char) : Except BudgetErr (List Char) :=
  if isOpener c then
    if (c :: stk).length > d then .error .tooDeep else .ok (c :: stk)
  else
    match closerOf c, stk with
    | some o, top :: rest => if top == o then .ok rest else .ok stk
    | _, _ => .ok stk

theorem stackRun_cons (d : Nat) (stk : List Char) (c : Char) (cs : List Char) :
    stackRun d stk (c :: cs) =
      match stackStep d stk c with
      | .ok stk' => stackRun d stk' cs
      | .error e => .error e := by
  by_cases ho : isOpener c = true
  · by_cases hl : d < stk.length + 1 <;> simp [stackRun, stackStep, ho, hl]
  · cases hc : closerOf c with
    | none => simp [stackRun, stackStep, ho, hc]
    | some o =>
      cases stk with
      | nil => simp [stackRun, stackStep, ho, hc]
      | cons top rest => by_cases ht : top == o <;> simp [stackRun, stackStep, ho, hc, ht]

/-- Does the automaton hand this character to the bracket logic? -/
def feeds (l : LState) (ch : Char) : Bool := !l.inLineComment && !l.inString && isBracket ch

theorem isBracket_slash : isBracket '/' = false := by decide
theorem isBracket_quote : isBracket '"' = false := by decide

/-- `step` = the lexical automaton, plus one stack step on code brackets. -/
theorem step_eq (d : Nat) (st : BState) (ch : Char) :
    step d st ch =
      match (if feeds st.lex ch then stackStep d st.stack ch else .ok st.stack) with
      | .ok stk => .ok { stack := stk, lex := lexStep st.lex ch }
      | .error e => .error e := by
  obtain ⟨stk, ⟨a, b, c, e⟩⟩ := st
  by_cases h1 : c = true
  · subst h1
    by_cases hn : ch = '\n' <;> simp [step, lexStep, feeds, hn]
  · have h1 : c = false := by simpa using h1
    subst h1
    by_cases h2 : a = true
    · subst h2
      by_cases h3 : b = true
      · simp [step, lexStep, feeds, h3]
      · by_cases hb : ch = '\\'
        · simp [step, lexStep, feeds, h3, hb]
        · by_cases hq : ch = '"' <;> simp [step, lexStep, feeds, h3, hb, hq]
    · have h2 : a = false := by simpa using h2
      subst h2
      by_cases hs : ch = '/'
      · subst hs
        by_cases h4 : e = true <;> simp [step, lexStep, feeds, h4, isBracket_slash]
      · by_cases hq : ch = '"'
        · subst hq
          simp [step, lexStep, feeds, isBracket_quote]
        · by_cases ho : isOpener ch = true
          · by_cases hl : d < stk.length + 1 <;>
              simp [step, lexStep, feeds, hs, hq, ho, hl, isBracket, stackStep]
          · cases hc : closerOf ch with
            | none => simp [step, lexStep, feeds, hs, hq, ho, hc, isBracket]
            | some o =>
              cases stk with
              | nil => simp [step, lexStep, feeds, hs, hq, ho, hc, isBracket, stackStep]
              | cons top rest =>
                by_cases ht : top == o <;>
                  simp [step, lexStep, feeds, hs, hq, ho, hc, isBracket, stackStep, ht]

theorem step_lex {d : Nat} {st st' : BState} {ch : Char} (h : step d st ch = .ok st') :
    st'.lex = lexStep st.lex ch := by
  rw [step_eq] at h
  split at h
  · injection h with h; subst h; rfl
  · cases h

theorem codeBracketsOf_append (a b : List (Char × Cls)) :
    codeBracketsOf (a ++ b) = codeBracketsOf a ++ codeBracketsOf b := by
  simp [codeBracketsOf]

theorem codeBracketsOf_flush (l : LState) : codeBracketsOf (flush l) = [] := by
  unfold flush codeBracketsOf
  split <;> simp [isBracket_slash]

/-- What one step feeds to the bracket logic. -/
theorem codeBracketsOf_emit (l : LState) (ch : Char) :
    codeBracketsOf (emit l ch) = if feeds l ch then [ch] else [] := by
  unfold emit codeBracketsOf feeds
  by_cases h1 : l.inLineComment = true
  · simp [h1]
  · by_cases h2 : l.inString = true
    · simp [h1, h2]
    · by_cases h3 : ch = '/'
      · subst h3
        by_cases h4 : l.prevSlash = true <;> simp [h1, h2, h4, isBracket_slash]
      · by_cases h5 : ch = '"'
        · subst h5
          by_cases h4 : l.prevSlash = true <;> simp [h1, h2, h4, isBracket_quote, isBracket_slash]
        · by_cases h4 : l.prevSlash = true <;>
            by_cases h6 : isBracket ch = true <;>
              simp [h1, h2, h3, h4, h5, h6, isBracket_slash]

/-- Projection of a scan result on the stack. -/
def stackOf : Except BudgetErr BState → Except BudgetErr (List Char)
  | .ok st => .ok st.stack
  | .error e => .error e

theorem scan_stack (d : Nat) : ∀ (s : List Char) (st : BState),
    stackOf (scan d st s) = stackRun d st.stack (codeBracketsOf (scanTagged st.lex s)) := by
  intro s
  induction s with
  | nil =>
    intro st
    simp [scan, stackOf, scanTagged, codeBracketsOf_flush, stackRun]
  | cons c cs ih =>
    intro st
    rw [scan, scanTagged, codeBracketsOf_append, codeBracketsOf_emit, step_eq]
    by_cases hf : feeds st.lex c = true
    · simp only [hf, if_true, List.singleton_append, stackRun_cons]
      cases hs : stackStep d st.stack c with
      | error e => simp [stackOf]
      | ok stk => simp only []; rw [ih]
    · simp only [hf, Bool.false_eq_true, if_false, List.nil_append]
      rw [ih]


/-! ### what an accepted bracket sequence looks like -/

theorem stackRun_error_is_tooDeep {d : Nat} : ∀ {bs stk : List Char} {e : BudgetErr},
    stackRun d stk bs = .error e → e = .tooDeep := by
  intro bs
  induction bs with
  | nil => intro stk e h; simp [stackRun] at h
  | cons c cs ih =>
    intro stk e h
    rw [stackRun_cons] at h
    unfold stackStep at h
    by_cases ho : isOpener c = true
    · by_cases hl : d < stk.length + 1
      · simp [ho, hl] at h; exact h.symm
      · simp [ho, hl] at h; exact ih h
    · simp only [ho] at h
      cases hc : closerOf c with
      | none => simp [hc] at h; exact ih h
      | some o =>
        cases stk with
        | nil => simp [hc] at h; exact ih h
        | cons top rest =>
          by_cases ht : top == o <;> simp [hc, ht] at h <;> exact ih h

/-- The stack over-approximates the net nesting: after every prefix of an accepted bracket
sequence, (initial depth) + (openers − closers) is still within the limit. -/
theorem stackRun_ok_netDepth {d : Nat} : ∀ {bs stk stk' : List Char},
    stackRun d stk bs = .ok stk' → stk.length ≤ d →
    ∀ p, p <+: bs → (stk.length : Int) + netDepth p ≤ d := by
  intro bs
  induction bs with
  | nil =>
    intro stk stk' _ hlen p hp
    have : p = [] := by simpa using hp
    subst this
    simp [netDepth]; exact hlen
  | cons c cs ih =>
    intro stk stk' h hlen p hp
    cases p with
    | nil => simp [netDepth]; exact hlen
    | cons c' p' =>
      have hcp : c' = c ∧ p' <+: cs := by simpa [List.cons_prefix_cons] using hp
      obtain ⟨rfl, hp'⟩ := hcp
      rw [stackRun_cons] at h
      unfold stackStep at h
      by_cases ho : isOpener c' = true
      · by_cases hl : d < stk.length + 1
        · simp [ho, hl] at h
        · simp [ho, hl] at h
          have := ih h (by simp; omega) p' hp'
          simp [netDepth, ho] at this ⊢
          omega
      · simp only [ho] at h
        cases hc : closerOf c' with
        | none =>
          simp [hc] at h
          have := ih h hlen p' hp'
          simp [netDepth, ho, hc]
          exact this
        | some o =>
          cases stk with
          | nil =>
            simp [hc] at h
            have := ih h hlen p' hp'
            simp [netDepth, ho, hc] at this ⊢
            omega
          | cons top rest =>
            by_cases ht : top == o
            · simp [hc, ht] at h
              have := ih h (by simp at hlen; omega) p' hp'
              simp [netDepth, ho, hc] at this ⊢
              omega
            · simp [hc, ht] at h
              have := ih h hlen p' hp'
              simp [netDepth, ho, hc] at this ⊢
              omega

theorem strictDepth_ge : ∀ (bs stk : List Char) (best : Nat), best ≤ strictDepth stk bs best := by
  intro bs
  induction bs with
  | nil => intro stk best; simp [strictDepth]
  | cons c cs ih =>
    intro stk best
    by_cases ho : isOpener c = true
    · simp only [strictDepth, ho, if_true]
      exact Nat.le_trans (Nat.le_max_left _ _) (ih _ _)
    · cases hc : closerOf c with
      | none => simp only [strictDepth, ho, hc]; exact ih _ _
      | some o =>
        cases stk with
        | nil => simp [strictDepth, ho, hc]
        | cons top rest =>
          by_cases ht : top == o
          · simp only [strictDepth, ho, hc, ht, if_true]; exact ih _ _
          · simp [strictDepth, ho, hc, ht]

/-- The depth a strict (recursive-descent) matcher reaches is within the limit. -/
theorem stackRun_ok_strictDepth {d : Nat} : ∀ {bs stk stk' : List Char} {best : Nat},
    stackRun d stk bs = .ok stk' → best ≤ d → strictDepth stk bs best ≤ d := by
  intro bs
  induction bs with
  | nil => intro stk stk' best _ hb; simpa [strictDepth] using hb
  | cons c cs ih =>
    intro stk stk' best h hb
    rw [stackRun_cons] at h
    unfold stackStep at h
    by_cases ho : isOpener c = true
    · by_cases hl : d < stk.length + 1
      · simp [ho, hl] at h
      · simp [ho, hl] at h
        simp only [strictDepth, ho, if_true]
        exact ih h (by omega)
    · simp only [ho] at h
      cases hc : closerOf c with
      | none =>
        simp [hc] at h
        simp only [strictDepth, ho, hc]
        exact ih h hb
      | some o =>
        cases stk with
        | nil => simp [strictDepth, ho, hc]; exact hb
        | cons top rest =>
          by_cases ht : top == o
          · simp [hc, ht] at h
            simp only [strictDepth, ho, hc, ht, if_true]
            exact ih h hb
          · simp [strictDepth, ho, hc, ht]; exact hb

/-- On a sequence the strict matcher reads to the end, the stack is exact: the pre-scan accepts
precisely when the real nesting stays within the limit. -/
theorem stackRun_exact_on_matched {d : Nat} : ∀ {bs stk : List Char} {best : Nat},
    strictReads stk bs = true → stk.length ≤ best → best ≤ d →
    ((∃ stk', stackRun d stk bs = .ok stk') ↔ strictDepth stk bs best ≤ d) := by
  intro bs
  induction bs with
  | nil => intro stk best _ _ hb; simp [stackRun, strictDepth, hb]
  | cons c cs ih =>
    intro stk best hr hsb hb
    rw [stackRun_cons]
    unfold stackStep
    by_cases ho : isOpener c = true
    · simp only [strictReads, ho, if_true] at hr
      simp only [strictDepth, ho, if_true]
      by_cases hl : d < stk.length + 1
      · simp only [List.length_cons, gt_iff_lt, hl, if_true]
        constructor
        · rintro ⟨_, h⟩; cases h
        · intro h
          exfalso
          have := strictDepth_ge cs (c :: stk) (max best (stk.length + 1))
          omega
      · simp only [List.length_cons, gt_iff_lt, hl, if_false]
        exact ih hr (by simp; omega) (by omega)
    · cases hc : closerOf c with
      | none =>
        simp only [strictReads, ho, hc] at hr
        simp only [strictDepth, ho, hc]
        exact ih hr hsb hb
      | some o =>
        cases stk with
        | nil => simp [strictReads, ho, hc] at hr
        | cons top rest =>
          by_cases ht : top == o
          · simp only [strictReads, ho, hc, ht, if_true] at hr
            simp only [strictDepth, ho, hc, ht, if_true]
            exact ih hr (by simp at hsb; omega) hb
          · simp [strictReads, ho, hc, ht] at hr

/-! ### one pass, left to right -/

theorem scan_append (d : Nat) : ∀ (a b : List Char) (st : BState),
    scan d st (a ++ b) =
      match scan d st a with
      | .ok st' => scan d st' b
      | .error e => .error e := by
  intro a
  induction a with
  | nil => intro b st; simp [scan]
  | cons c cs ih =>
    intro b st
    simp only [List.cons_append, scan]
    cases step d st c with
    | ok st' => simp only []; exact ih b st'
    | error e => rfl

/-! ### byte length -/

theorem utf8LenAux_acc : ∀ (s : List Char) (acc : Nat), utf8LenAux acc s = acc + utf8LenAux 0 s := by
  intro s
  induction s with
  | nil => intro acc; simp [utf8LenAux]
  | cons c cs ih =>
    intro acc
    rw [utf8LenAux, utf8LenAux, ih (acc + utf8Size c), ih (0 + utf8Size c)]
    omega

theorem utf8Len_nil : utf8Len [] = 0 := rfl

theorem utf8Len_cons (c : Char) (cs : List Char) : utf8Len (c :: cs) = utf8Size c + utf8Len cs := by
  unfold utf8Len
  rw [utf8LenAux, utf8LenAux_acc]
  omega

theorem utf8Len_append (a b : List Char) : utf8Len (a ++ b) = utf8Len a + utf8Len b := by
  induction a with
  | nil => simp [utf8Len_nil]
  | cons c cs ih => simp only [List.cons_append, utf8Len_cons, ih]; omega

theorem utf8Size_bounds (c : Char) : 1 ≤ utf8Size c ∧ utf8Size c ≤ 4 := by
  unfold utf8Size
  split
  · omega
  · split
    · omega
    · split <;> omega

theorem utf8Len_bounds (s : List Char) : s.length ≤ utf8Len s ∧ utf8Len s ≤ 4 * s.length := by
  induction s with
  | nil => simp [utf8Len_nil]
  | cons c cs ih =>
    have := utf8Size_bounds c
    simp only [utf8Len_cons, List.length_cons]
    omega

end AndaVerif.Proofs.KipLex
