import AndaVerif.Proofs.ConcBasic
/-
The operation gate: `readers` is exactly the set of mutation calls in flight, `writer` the one
flush in flight, and they exclude each other.
-/
namespace AndaVerif.ConcColl

structure GateInv (c : Cfg) : Prop where
  readers : ∀ x, x ∈ c.sh.readers ↔ ∃ th, c.th[x]? = some th ∧ th.isMut = true ∧ th.pc.active = true
  writer : ∀ x, c.sh.writer = some x ↔ ∃ th, c.th[x]? = some th ∧ th.isFlush = true ∧ th.pc.active = true
  excl : c.sh.writer ≠ none → c.sh.readers = []

theorem Pc.active_iff (pc : Pc) : pc.active = true ↔ pc ≠ .idle ∧ pc ≠ .done := by
  cases pc <;> simp [Pc.active]

theorem isMut_of_op {a b : Thread} (h : a.op = b.op) : a.isMut = b.isMut := by
  simp [Thread.isMut, h]
theorem isFlush_of_op {a b : Thread} (h : a.op = b.op) : a.isFlush = b.isFlush := by
  simp [Thread.isFlush, h]
theorem isAdd_of_op {a b : Thread} (h : a.op = b.op) : a.isAdd = b.isAdd := by
  simp [Thread.isAdd, h]

theorem mut_not_flush (th : Thread) (h : th.isMut = true) : th.isFlush = false := by
  unfold Thread.isMut at h; unfold Thread.isFlush; split at h <;> simp_all

theorem GateInv.step {t : Nat} {c c' : Cfg} (inv : GateInv c) (h : step t c = some c') : GateInv c' := by
  obtain ⟨th, sh', th', hth, hst, rfl⟩ := step_elim h
  obtain ⟨hop, hnd, hni, _, hmut, hfl, hoth⟩ := stepThread_gate _ _ _ _ _ hst
  have hself : (c.th.set t th')[t]? = some th' := getElem?_set_self' _ _ _ _ hth
  have hact' : th'.pc.active = true ↔ th'.pc ≠ .done := by
    rw [Pc.active_iff]; exact ⟨fun h => h.2, fun h => ⟨hni, h⟩⟩
  have hact : th.pc.active = true ↔ th.pc ≠ .idle := by
    rw [Pc.active_iff]; exact ⟨fun h => h.1, fun h => ⟨h, hnd⟩⟩
  have hm' : th'.isMut = th.isMut := isMut_of_op hop
  have hf' : th'.isFlush = th.isFlush := isFlush_of_op hop
  -- the three kinds of thread
  rcases hk : th.isMut with _ | _
  · rcases hk2 : th.isFlush with _ | _
    · -- neither: gate untouched
      obtain ⟨hr, hw⟩ := hoth hk hk2
      refine ⟨fun x => ?_, fun x => ?_, ?_⟩
      · simp only [hr]
        by_cases hx : x = t
        · subst hx
          rw [hself, inv.readers]
          simp [hth, hm', hk]
        · rw [getElem?_set_ne' _ _ _ _ hx]; exact inv.readers x
      · simp only [hw]
        by_cases hx : x = t
        · subst hx
          rw [hself, inv.writer]
          simp [hth, hf', hk2]
        · rw [getElem?_set_ne' _ _ _ _ hx]; exact inv.writer x
      · simp only [hr, hw]; exact inv.excl
    · -- flush
      obtain ⟨hr, hen, hw⟩ := hfl hk2
      have hwt : c.sh.writer = some t ↔ th.pc ≠ .idle := by
        rw [inv.writer]; simp [hth, hk2, hact]
      refine ⟨fun x => ?_, fun x => ?_, ?_⟩
      · simp only [hr]
        by_cases hx : x = t
        · subst hx
          rw [hself, inv.readers]
          simp [hth, hm', hk]
        · rw [getElem?_set_ne' _ _ _ _ hx]; exact inv.readers x
      · simp only [hw]
        by_cases hx : x = t
        · subst hx
          rw [hself]
          simp only [Option.some.injEq, exists_eq_left', hf', hk2, hact', true_and]
          by_cases hd : th'.pc = .done
          · simp [hd]
          · by_cases hi : th.pc = .idle
            · simp [hd, hi]
            · simp [hd, hi, hwt]
        · rw [getElem?_set_ne' _ _ _ _ hx]
          by_cases hd : th'.pc = .done
          · simp only [hd, if_true, reduceCtorEq, false_iff]
            intro hex
            have hwx := (inv.writer x).mpr hex
            by_cases hi : th.pc = .idle
            · simp [(hen hi).1] at hwx
            · have := hwt.mpr hi
              rw [this] at hwx
              exact hx (Option.some.inj hwx).symm
          · by_cases hi : th.pc = .idle
            · simp only [hd, hi, if_false, if_true, Option.some.injEq]
              constructor
              · intro hh; exact absurd hh.symm hx
              · intro hex
                have hwx := (inv.writer x).mpr hex
                simp [(hen hi).1] at hwx
            · simp only [hd, hi, if_false]; exact inv.writer x
      · simp only [hr, hw]
        by_cases hd : th'.pc = .done
        · simp [hd]
        · by_cases hi : th.pc = .idle
          · intro _; exact (hen hi).2
          · simp only [hd, hi, if_false]; exact inv.excl
  · -- mutation
    have hk2 : th.isFlush = false := mut_not_flush th hk
    obtain ⟨hw, hen, hr⟩ := hmut hk
    have hrt : t ∈ c.sh.readers ↔ th.pc ≠ .idle := by
      rw [inv.readers]; simp [hth, hk, hact]
    refine ⟨fun x => ?_, fun x => ?_, ?_⟩
    · simp only [hr]
      by_cases hx : x = t
      · subst hx
        rw [hself]
        simp only [Option.some.injEq, exists_eq_left', hm', hk, hact', true_and]
        by_cases hd : th'.pc = .done
        · simp [hd]
        · by_cases hi : th.pc = .idle
          · simp [hd, hi]
          · simp [hd, hi, hrt]
      · rw [getElem?_set_ne' _ _ _ _ hx, ← inv.readers x]
        by_cases hd : th'.pc = .done <;> by_cases hi : th.pc = .idle <;> simp [hd, hi, hx]
    · simp only [hw]
      by_cases hx : x = t
      · subst hx
        rw [hself, inv.writer]
        simp [hth, hf', hk2]
      · rw [getElem?_set_ne' _ _ _ _ hx]; exact inv.writer x
    · simp only [hw, hr]
      intro hne
      have hre := inv.excl hne
      by_cases hi : th.pc = .idle
      · exact absurd (hen hi) hne
      · by_cases hd : th'.pc = .done <;> simp [hd, hi, hre]

end AndaVerif.ConcColl
