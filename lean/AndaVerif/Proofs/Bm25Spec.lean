import AndaVerif.Proofs.Bm25History
import AndaVerif.Proofs.Bm25Conc
/-
`Bm25Spec`: the full-text index as a plain map "live id ↦ token set of its current text" — the
interface other properties (C02) reason against.
-/
namespace AndaVerif
namespace Bm25

/-- the specification state: live documents with the tokens of the text they were inserted with -/
structure Bm25Spec where
  docs : List (Nat × List Nat)

def Bm25Spec.empty : Bm25Spec := ⟨[]⟩

def Bm25Spec.step (s : Bm25Spec) : Op → Bm25Spec
  | .insert id tf => if tf.isEmpty || hasKey s.docs id then s else ⟨s.docs ++ [(id, tf.map (·.1))]⟩
  | .remove id _ => ⟨eraseKey s.docs id⟩
  | .purge ids => ⟨s.docs.filter (fun p => !ids.contains p.1)⟩

def Bm25Spec.run (s : Bm25Spec) : List Op → Bm25Spec
  | [] => s
  | op :: ops => Bm25Spec.run (s.step op) ops

/-- a term query on the specification: the documents whose text has one of the tokens -/
def Bm25Spec.search (s : Bm25Spec) (toks : List Nat) : List Nat :=
  (s.docs.filter (fun p => toks.any (fun t => p.2.contains t))).map (·.1)

/-- the specification and the ghost state of `term_general` describe the same map -/
def SpecRel (s : Bm25Spec) (g : Ghost) : Prop := ∀ i, get? s.docs i = g.cur i

theorem SpecRel.step {s : Bm25Spec} {g : Ghost} (h : SpecRel s g) (op : Op) : SpecRel (s.step op) (gstep g op) := by
  intro i
  cases op with
  | insert id tf =>
    have hk : hasKey s.docs id = (g.cur id).isSome := by unfold hasKey; rw [h id]
    show get? (if tf.isEmpty || hasKey s.docs id then s else ⟨s.docs ++ [(id, tf.map (·.1))]⟩ : Bm25Spec).docs i
      = (gstep g (.insert id tf)).cur i
    rw [hk]
    by_cases hc : (tf.isEmpty || (g.cur id).isSome) = true
    · rw [gstep_insert_fail g id tf (by simpa [Bool.or_eq_true] using hc)]
      simp only [hc, if_true]; exact h i
    · have hemp : tf.isEmpty = false := by
        cases he : tf.isEmpty with
        | true => simp [he] at hc
        | false => rfl
      have hnone : g.cur id = none := by
        cases hg : g.cur id with
        | none => rfl
        | some T => simp [hg] at hc
      rw [gstep_insert_ok g id tf hemp hnone]
      simp only [hc, Bool.false_eq_true, if_false]
      rw [Bm25Conc.get?_append_single]
      by_cases hi : id = i
      · subst hi
        rw [h id, hnone]
      · rw [h i]; cases g.cur i <;> simp [hi]
  | remove id tf =>
    show get? (eraseKey s.docs id) i = (gstep g (.remove id tf)).cur i
    rw [Bm25Conc.get?_eraseKey]
    unfold gstep
    by_cases hi : id = i
    · simp [hi]
    · simp [hi, h i]
  | purge ids =>
    show get? (s.docs.filter (fun p => !ids.contains p.1)) i = (gstep g (.purge ids)).cur i
    unfold gstep
    have : ∀ (m : List (Nat × List Nat)), get? (m.filter (fun p => !ids.contains p.1)) i
        = if ids.contains i then none else get? m i := by
      intro m
      induction m with
      | nil => simp [get?]
      | cons p m ih =>
        obtain ⟨k, v⟩ := p
        by_cases hk : ids.contains k = true
        · simp only [List.filter_cons, hk, Bool.not_true, Bool.false_eq_true, if_false, ih, get?]
          by_cases hki : k = i
          · subst hki; simp only [hk, if_true]
          · simp [hki]
        · have hk' : ids.contains k = false := by simpa using hk
          simp only [List.filter_cons, hk', Bool.not_false, if_true, get?, ih]
          by_cases hki : k = i
          · subst hki; simp only [hk', if_true, Bool.false_eq_true, if_false]
          · simp [hki]
    rw [this, h i]

theorem SpecRel.run {s : Bm25Spec} {g : Ghost} (h : SpecRel s g) (ops : List Op) :
    SpecRel (s.run ops) (grun g ops) := by
  induction ops generalizing s g with
  | nil => exact h
  | cons op ops ih => exact ih (h.step op)

theorem specKeys_nodup_step {s : Bm25Spec} (hn : (s.docs.map (·.1)).Nodup) (op : Op) :
    ((s.step op).docs.map (·.1)).Nodup := by
  cases op with
  | insert id tf =>
    show ((if tf.isEmpty || hasKey s.docs id then s else ⟨s.docs ++ [(id, tf.map (·.1))]⟩ : Bm25Spec).docs.map (·.1)).Nodup
    split
    · exact hn
    · rename_i hc
      simp only [Bool.or_eq_true, not_or, Bool.not_eq_true] at hc
      simp only [List.map_append, List.map_cons, List.map_nil]
      refine List.nodup_append.2 ⟨hn, by simp, ?_⟩
      intro a ha b hb hab
      simp at hb; subst hb; subst hab
      have := hasKey_iff.2 ha
      rw [hc.2] at this; cases this
  | remove id tf => exact hn.sublist (List.Sublist.map _ List.filter_sublist)
  | purge ids => exact hn.sublist (List.Sublist.map _ List.filter_sublist)

theorem specKeys_nodup_run : ∀ (ops : List Op) (s : Bm25Spec), (s.docs.map (·.1)).Nodup →
    ((s.run ops).docs.map (·.1)).Nodup
  | [], _, h => h
  | op :: ops, s, h => specKeys_nodup_run ops _ (specKeys_nodup_step h op)

theorem mem_specSearch {s : Bm25Spec} (hn : (s.docs.map (·.1)).Nodup) (toks : List Nat) (i : Nat) :
    i ∈ s.search toks ↔ ∃ T, get? s.docs i = some T ∧ ∃ t ∈ toks, t ∈ T := by
  unfold Bm25Spec.search
  simp only [List.mem_map, List.mem_filter, List.any_eq_true, List.contains_iff_mem]
  constructor
  · rintro ⟨⟨k, T⟩, ⟨hm, t, ht, htT⟩, rfl⟩
    exact ⟨T, get?_of_mem_nodup hn hm, t, ht, htT⟩
  · rintro ⟨T, hg, t, ht, htT⟩
    exact ⟨(i, T), ⟨get?_mem hg, t, ht, htT⟩, rfl⟩

end Bm25
end AndaVerif
