import AndaVerif.Proofs.ConcRemove
/-
What a flush persists: while the flush holds the exclusive gate nothing but reads runs, the shared
state is frozen, and the metadata / ids objects it writes are snapshots of that frozen state.
-/
namespace AndaVerif.ConcColl

theorem stepThread_reader (sh : Shared) (t : Nat) (th : Thread) (sh' : Shared) (th' : Thread)
    (h : stepThread sh t th = some (sh', th')) (hm : th.isMut = false) (hf : th.isFlush = false) :
    sh' = sh := by
  step_cases h
  all_goals simp_all [Thread.isMut, Thread.isFlush]

theorem stepThread_flush (sh : Shared) (t : Nat) (th : Thread) (sh' : Shared) (th' : Thread)
    (h : stepThread sh t th = some (sh', th')) (hop : th.op = .flush) :
    snapshot sh' = snapshot sh ∧ sh'.ids = sh.ids ∧
    (th.pc = .idle ∨ th.pc = .fIdx ∨ th.pc = .fMeta ∨ th.pc = .fIds ∨ th.pc = .fSto ∨ th.pc = .fClr) ∧
    (th'.pc = .fMeta → th.pc ≠ .fMeta ∧ th'.snap = snapshot sh ∧ th'.f3 = th.f3) ∧
    (th.pc = .fMeta → th'.pc ≠ .done → th'.pc = .fIds ∧ th'.f3 = true ∧ th'.pids = some sh.ids ∧
      sh'.pMeta = some th.snap ∧ th'.snap = th.snap) ∧
    (th.pc = .fIds → th'.pc = .fSto ∧ sh'.pIds = th.pids ∧ th'.pids = th.pids ∧ th'.f3 = th.f3 ∧
      sh'.pMeta = sh.pMeta ∧ th'.snap = th.snap) ∧
    (th.pc = .fSto ∨ th.pc = .fClr → sh'.pIds = sh.pIds ∧ sh'.pMeta = sh.pMeta ∧ th'.pids = th.pids ∧
      th'.f3 = th.f3 ∧ th'.snap = th.snap ∧ (th'.pc = .fClr ∨ th'.pc = .done)) ∧
    (th.pc = .idle ∨ th.pc = .fIdx → th'.f3 = th.f3 ∧
      (th'.pc = .fIdx ∨ th'.pc = .fMeta ∨ th'.pc = .fClr ∨ th'.pc = .done)) := by
  step_cases h
  all_goals simp_all [snapshot]

/-- the flush's view is a snapshot of the (frozen) current state -/
def Thread.FS (sh : Shared) (th : Thread) : Prop :=
  th.op = .flush →
    (th.pc = .idle ∨ th.pc = .fIdx ∨ th.pc = .fMeta → th.f3 = false) ∧
    (th.pc = .fMeta → th.snap = snapshot sh) ∧
    (th.f3 = true → th.pc = .fIds ∨ th.pc = .fSto ∨ th.pc = .fClr →
      th.pids = some sh.ids ∧ sh.pMeta = some (snapshot sh)) ∧
    (th.f3 = true → th.pc = .fSto ∨ th.pc = .fClr → sh.pIds = some sh.ids)

def FlushInv (c : Cfg) : Prop := ∀ (x : Nat) (th : Thread), c.th[x]? = some th → th.FS c.sh

theorem FlushInv.init (c : Cfg)
    (hidle : ∀ (x : Nat) (th : Thread), c.th[x]? = some th → th.pc = .idle ∧ th.f3 = false) : FlushInv c := by
  intro x th hx _
  obtain ⟨hpc, hf⟩ := hidle x th hx
  simp [hpc, hf]

/-- While a flush is in flight only reads take steps, and they leave the shared state alone. -/
theorem frozen_by_flush {t x : Nat} {c c' : Cfg} (g : GateInv c) (thx : Thread)
    (hx : c.th[x]? = some thx) (hfx : thx.isFlush = true) (hax : thx.pc.active = true) (hxt : x ≠ t)
    (h : step t c = some c') : c'.sh = c.sh := by
  obtain ⟨th, sh', th', hth, hst, rfl⟩ := step_elim h
  obtain ⟨_, hnd, _, _, hmut, hfl, _⟩ := stepThread_gate _ _ _ _ _ hst
  have hw := (g.writer x).mpr ⟨thx, hx, hfx, hax⟩
  have hr := g.excl (by simp [hw])
  have hm : th.isMut = false := by
    rcases hk : th.isMut with _ | _
    · rfl
    · exfalso
      obtain ⟨_, hen, _⟩ := hmut hk
      by_cases hi : th.pc = .idle
      · rw [hen hi] at hw; cases hw
      · have := (g.readers t).mpr ⟨th, hth, hk, by rw [Pc.active_iff]; exact ⟨hi, hnd⟩⟩
        simp [hr] at this
  have hf : th.isFlush = false := by
    rcases hk : th.isFlush with _ | _
    · rfl
    · exfalso
      obtain ⟨_, hen, _⟩ := hfl hk
      by_cases hi : th.pc = .idle
      · rw [(hen hi).1] at hw; cases hw
      · have := (g.writer t).mpr ⟨th, hth, hk, by rw [Pc.active_iff]; exact ⟨hi, hnd⟩⟩
        rw [hw] at this
        exact hxt (Option.some.inj this)
  exact stepThread_reader _ _ _ _ _ hst hm hf

theorem FlushInv.step {t : Nat} {c c' : Cfg} (inv : FlushInv c) (g : GateInv c)
    (h : step t c = some c') : FlushInv c' := by
  have hstep := h
  obtain ⟨th, sh', th', hth, hst, rfl⟩ := step_elim h
  obtain ⟨hop, hnd, hni, _, _, _, _⟩ := stepThread_gate _ _ _ _ _ hst
  have hself : (c.th.set t th')[t]? = some th' := getElem?_set_self' _ _ _ _ hth
  intro x thx hx
  by_cases hxt : x = t
  · subst hxt
    rw [hself] at hx; cases hx
    intro hop'
    have hop0 : th.op = .flush := hop ▸ hop'
    obtain ⟨hsnap, hids, hpcs, hfm, hmeta, hfi, hlate, hearly⟩ := stepThread_flush _ _ _ _ _ hst hop0
    obtain ⟨i0, i1, i2, i3⟩ := inv x th hth hop0
    show (_ ∧ _ ∧ _ ∧ _)
    simp only [hsnap, hids]
    rcases hpcs with hp | hp | hp | hp | hp | hp
    · obtain ⟨hf3, hnext⟩ := hearly (Or.inl hp)
      have hf3' : th'.f3 = false := by rw [hf3]; exact i0 (Or.inl hp)
      refine ⟨fun _ => hf3', fun hpm => (hfm hpm).2.1, ?_, ?_⟩ <;> (intro hh; rw [hf3'] at hh; cases hh)
    · obtain ⟨hf3, hnext⟩ := hearly (Or.inr hp)
      have hf3' : th'.f3 = false := by rw [hf3]; exact i0 (Or.inr (Or.inl hp))
      refine ⟨fun _ => hf3', fun hpm => (hfm hpm).2.1, ?_, ?_⟩ <;> (intro hh; rw [hf3'] at hh; cases hh)
    · by_cases hdone : th'.pc = .done
      · refine ⟨?_, ?_, ?_, ?_⟩ <;> simp [hdone]
      · obtain ⟨hpc', hf3', hpids, hpm, hsn⟩ := hmeta hp hdone
        refine ⟨?_, ?_, ?_, ?_⟩
        · simp [hpc']
        · simp [hpc']
        · intro _ _; exact ⟨hpids, by rw [hpm, i1 hp]⟩
        · simp [hpc']
    · obtain ⟨hpc', hpi, hpids, hf3, hpm, hsn⟩ := hfi hp
      refine ⟨?_, ?_, ?_, ?_⟩
      · simp [hpc']
      · simp [hpc']
      · intro hf _; rw [hf3] at hf
        have := i2 hf (Or.inl hp)
        exact ⟨by rw [hpids]; exact this.1, by rw [hpm]; exact this.2⟩
      · intro hf _; rw [hf3] at hf
        rw [hpi]; exact (i2 hf (Or.inl hp)).1
    · obtain ⟨hpi, hpm, hpids, hf3, hsn, hnext⟩ := hlate (Or.inl hp)
      refine ⟨?_, ?_, ?_, ?_⟩
      · rcases hnext with hn | hn <;> simp [hn]
      · rcases hnext with hn | hn <;> simp [hn]
      · intro hf _; rw [hf3] at hf
        have := i2 hf (Or.inr (Or.inl hp))
        exact ⟨by rw [hpids]; exact this.1, by rw [hpm]; exact this.2⟩
      · intro hf _; rw [hf3] at hf
        rw [hpi]; exact i3 hf (Or.inl hp)
    · obtain ⟨hpi, hpm, hpids, hf3, hsn, hnext⟩ := hlate (Or.inr hp)
      refine ⟨?_, ?_, ?_, ?_⟩
      · rcases hnext with hn | hn <;> simp [hn]
      · rcases hnext with hn | hn <;> simp [hn]
      · intro hf _; rw [hf3] at hf
        have := i2 hf (Or.inr (Or.inr hp))
        exact ⟨by rw [hpids]; exact this.1, by rw [hpm]; exact this.2⟩
      · intro hf _; rw [hf3] at hf
        rw [hpi]; exact i3 hf (Or.inr hp)
  · rw [getElem?_set_ne' _ _ _ _ hxt] at hx
    have hfs := inv x thx hx
    intro hopx
    by_cases hax : thx.pc.active = true
    · have : sh' = c.sh := frozen_by_flush g thx hx (by simp [Thread.isFlush, hopx]) hax hxt hstep
      rw [this]; exact hfs hopx
    · -- not in flight: only the `f3 = false` clause can apply
      rw [Pc.active_iff] at hax
      obtain ⟨i0, _, _, _⟩ := hfs hopx
      have hpc : thx.pc = .idle ∨ thx.pc = .done := by
        by_cases h1 : thx.pc = .idle
        · exact Or.inl h1
        · by_cases h2 : thx.pc = .done
          · exact Or.inr h2
          · exact absurd ⟨h1, h2⟩ hax
      rcases hpc with hp | hp <;> simp [hp] <;> (try exact i0 (Or.inl hp))

end AndaVerif.ConcColl
