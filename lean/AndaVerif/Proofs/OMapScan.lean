import AndaVerif.Proofs.OMapRange
import AndaVerif.Model.BTree
/-
`range_query_inner` (the `walk!` macro) = a walk over the matching entries of the map, in either
direction, cut where the callback says stop; and the closed form for the counting callback.
-/
namespace AndaVerif
namespace OMap

variable {σ ρ : Type}

/-- the walk over explicit entries (no lookups) -/
def walkEntries (f : Callback σ ρ) : List (Int × List Nat) → σ → List (List ρ)
  | [], _ => []
  | (k, p) :: es, s =>
    match f s k p with
    | (s', conti, rt) => if conti then rt :: walkEntries f es s' else [rt]

/-- the entries a key list resolves to (`postings.get(k)` may miss) -/
def entriesOf (m : OMap) (ks : List Int) : List (Int × List Nat) :=
  ks.filterMap (fun k => (m.lookup k).map (fun p => (k, p)))

/-- the entries whose key satisfies the query -/
def matching (m : OMap) (q : RQ Int) : OMap := m.filter (fun e => q.matches e.1)

/-- what a range scan must return: walk the matching entries from the requested end, stop where the
callback says so, hand the groups back in ascending key order -/
def scanSpec (m : OMap) (q : RQ Int) (desc : Bool) (f : Callback σ ρ) (s : σ) : List ρ :=
  if desc then ((walkEntries f (matching m q).reverse s).reverse).flatten
  else (walkEntries f (matching m q) s).flatten

theorem walkGroups_eq (m : OMap) (f : Callback σ ρ) : ∀ (ks : List Int) (s : σ),
    walkGroups m f ks s = walkEntries f (entriesOf m ks) s
  | [], s => by simp [walkGroups, entriesOf, walkEntries]
  | k :: ks, s => by
    simp only [walkGroups, entriesOf, List.filterMap_cons]
    cases h : m.lookup k with
    | none => simp only [Option.map_none]; exact walkGroups_eq m f ks s
    | some p =>
      simp only [Option.map_some, walkEntries]
      split
      · congr 1; exact walkGroups_eq m f ks _
      · rfl

theorem entriesOf_reverse (m : OMap) (ks : List Int) : entriesOf m ks.reverse = (entriesOf m ks).reverse := by
  simp [entriesOf, List.filterMap_reverse]

theorem flatten_filter_nonempty : ∀ (L : List (List ρ)), (L.filter (fun g => !g.isEmpty)).flatten = L.flatten
  | [] => rfl
  | g :: L => by
    simp only [List.filter_cons]
    cases g with
    | nil => simp [flatten_filter_nonempty L]
    | cons a t => simp [flatten_filter_nonempty L]

theorem walk_eq (m : OMap) (f : Callback σ ρ) (ks : List Int) (desc : Bool) (s : σ) :
    walk m f ks desc s =
      if desc then ((walkEntries f (entriesOf m ks).reverse s).reverse).flatten
      else (walkEntries f (entriesOf m ks) s).flatten := by
  unfold walk
  split
  · rw [walkGroups_eq, entriesOf_reverse, ← List.filter_reverse, flatten_filter_nonempty]
  · rw [walkGroups_eq]

theorem entriesOf_map_fst (m : OMap) : ∀ (l : List (Int × List Nat)), (∀ e ∈ l, m.lookup e.1 = some e.2) →
    entriesOf m (l.map (·.1)) = l
  | [], _ => rfl
  | e :: l, h => by
    have he := h e (by simp)
    have ih := entriesOf_map_fst m l (fun e' he' => h e' (List.mem_cons_of_mem _ he'))
    simp only [entriesOf, List.map_cons, List.filterMap_cons, he, Option.map_some] at ih ⊢
    rw [ih]

theorem entriesOf_filter_keys (m : OMap) (hs : m.keys.Pairwise (· < ·)) (p : Int → Bool) :
    entriesOf m (m.keys.filter p) = m.filter (fun e => p e.1) := by
  have : m.keys.filter p = (m.filter (fun e => p e.1)).map (·.1) := by
    simp only [keys, List.filter_map]; rfl
  rw [this]
  apply entriesOf_map_fst
  intro e he
  exact lookup_of_mem m hs e.1 e.2 (List.mem_filter.1 he).1

theorem entriesOf_restrict (m : OMap) : ∀ (L : List Int),
    entriesOf m L = entriesOf m (L.filter (fun k => m.keys.contains k))
  | [] => rfl
  | k :: L => by
    have ih := entriesOf_restrict m L
    by_cases hk : k ∈ m.keys
    · have : m.keys.contains k = true := by simpa using hk
      simp only [entriesOf, List.filterMap_cons, List.filter_cons, this, if_true] at ih ⊢
      rw [ih]
    · have hc : m.keys.contains k = false := by simpa using hk
      have hn := lookup_eq_none_of_not_mem_keys m k hk
      simp only [entriesOf, List.filterMap_cons, List.filter_cons, hc, hn, Option.map_none] at ih ⊢
      simpa using ih

/-- the counting callback: the first `max n 1` groups (all of them without a bound) -/
theorem walkEntries_cbStop_some (g : Int → List Nat → List ρ) (n : Nat) :
    ∀ (es : List (Int × List Nat)) (c : Nat),
      walkEntries (BTree.cbStop (some n) g) es c = (es.take (max (n - c) 1)).map (fun e => g e.1 e.2)
  | [], c => by simp [walkEntries]
  | (k, p) :: es, c => by
    simp only [walkEntries, BTree.cbStop]
    by_cases h : c + 1 < n
    · simp only [h, decide_true, if_true]
      rw [walkEntries_cbStop_some g n es (c + 1)]
      have h1 : max (n - c) 1 = (max (n - (c + 1)) 1) + 1 := by omega
      rw [h1, List.take_succ_cons, List.map_cons]
    · simp only [h, decide_false]
      have h1 : max (n - c) 1 = 1 := by omega
      rw [h1]; simp

theorem walkEntries_cbStop_none (g : Int → List Nat → List ρ) :
    ∀ (es : List (Int × List Nat)) (c : Nat),
      walkEntries (BTree.cbStop none g) es c = es.map (fun e => g e.1 e.2)
  | [], c => by simp [walkEntries]
  | (k, p) :: es, c => by
    simp only [walkEntries, BTree.cbStop, if_true, List.map_cons]
    rw [walkEntries_cbStop_none g es (c + 1)]

theorem scan_eq_walk (m : OMap) (h : WF m) (q : RQ Int) (hq : q.depth ≤ RQ.maxDepth) (desc : Bool)
    (f : Callback σ ρ) (s : σ) : scan m q desc f s = scanSpec m q desc f s := by
  have key : ∀ ks : List Int, entriesOf m ks = matching m q →
      walk m f ks desc s = scanSpec m q desc f s := by
    intro ks hk
    rw [walk_eq, hk]; rfl
  have viaRange : entriesOf m (rangeKeys m q) = matching m q := by
    rw [rangeKeys_eq_filter m h q, entriesOf_filter_keys m h.1]; rfl
  unfold scan
  split
  · rename_i he
    have : m = [] := by simpa using he
    subst this
    simp [scanSpec, matching, walkEntries]
  · have hd : ¬ q.depth > RQ.maxDepth := by omega
    simp only [hd, if_false]
    cases q with
    | eq v =>
      simp only
      rw [← key (rangeKeys m (.eq v)) viaRange]
      cases hl : m.lookup v with
      | none =>
        have : ¬ v ∈ m.keys := fun hm => by
          obtain ⟨p, hp⟩ := lookup_isSome_of_mem_keys m v hm
          rw [hl] at hp; cases hp
        have hlist : rangeKeys m (.eq v) = [] := by simp [rangeKeys, this]
        rw [hlist]
        simp [walk, walkGroups]
      | some p =>
        have hm : v ∈ m.keys := mem_keys_of_lookup m v p hl
        have hlist : rangeKeys m (.eq v) = [v] := by simp [rangeKeys, hm]
        rw [hlist]
        simp only [walk, walkGroups, hl, List.reverse_cons, List.reverse_nil, List.nil_append]
        cases desc <;> cases hc : (f s v p).2.1 <;> cases hr : (f s v p).2.2 <;> simp
    | gt v => exact key _ (by rw [← viaRange]; simp only [rangeKeys])
    | ge v => exact key _ (by rw [← viaRange]; simp only [rangeKeys])
    | lt v => exact key _ (by rw [← viaRange]; simp only [rangeKeys])
    | le v => exact key _ (by rw [← viaRange]; simp only [rangeKeys])
    | between a b =>
      simp only
      split
      · rename_i hba
        rw [← key (rangeKeys m (.between a b)) viaRange]
        have : ¬ a ≤ b := by omega
        simp [rangeKeys, this, walk, walkGroups]
      · rename_i hba
        have : a ≤ b := by omega
        exact key _ (by rw [← viaRange]; simp only [rangeKeys, this, if_true])
    | incl ks =>
      refine key _ ?_
      rw [← viaRange, entriesOf_restrict m (sortDedup ks)]
      simp only [rangeKeys]
    | and qs => exact key _ viaRange
    | or qs => exact key _ viaRange
    | not q' => exact key _ (by rw [← viaRange]; simp only [rangeKeys])

end OMap
end AndaVerif
