/-
C09: the decryption stream (`create_decryption_stream`).
 * `drain`'s fuel is irrelevant once adequate; the result does not depend on how the backend cuts
   its response into segments (`runSegs_flatten`);
 * soundness: if every chunk that opens is the true plaintext chunk (`ChunkSound`, which the ideal
   AEAD hypothesis delivers in `EncTamper`), the stream yields exactly the requested slice, or fails
   after having yielded a correct prefix — for *every* backend stream (short, long, modified).
-/
import AndaVerif.Proofs.EncRange

namespace AndaVerif.Enc

/-! ## slices -/

theorem slice_length (P : Bytes) (a b : Nat) : (slice P a b).length = min b P.length - a := by
  simp [slice, List.length_take, List.length_drop]; omega

theorem slice_clip (P : Bytes) (a b : Nat) : slice P a b = slice P a (min b P.length) := by
  unfold slice
  rw [List.take_eq_take_iff]; simp [List.length_drop]; omega

theorem slice_drop (P : Bytes) (a b k : Nat) : (slice P a b).drop k = slice P (a + k) b := by
  unfold slice
  rw [List.drop_take, List.drop_drop]
  congr 1; omega

theorem slice_take (P : Bytes) (a b k : Nat) : (slice P a b).take k = slice P a (min (a + k) b) := by
  unfold slice
  rw [List.take_take]
  congr 1; omega

theorem slice_append (P : Bytes) {a b d : Nat} (h1 : a ≤ b) (h2 : b ≤ d) :
    slice P a b ++ slice P b d = slice P a d := by
  unfold slice
  have e : d - a = (b - a) + (d - b) := by omega
  rw [e, List.take_add, List.drop_drop]
  have : a + (b - a) = b := by omega
  rw [this]

theorem slice_self (P : Bytes) (a : Nat) : slice P a a = [] := by simp [slice]

/-! ## fuel -/

theorem drain_fuel (A : AEAD) (cfg : SCfg) (hc : 1 ≤ cfg.c) :
    ∀ (f f' : Nat) (s : SState), s.buf.length + 1 ≤ f → s.buf.length + 1 ≤ f' →
      drain A cfg f s = drain A cfg f' s
  | 0, _, _, h, _ => by omega
  | _ + 1, 0, _, _, h => by omega
  | f + 1, f' + 1, s, h, h' => by
    unfold drain
    by_cases hcond : s.remaining > 0 ∧ s.buf.length ≥ cfg.c
    · simp only [hcond, and_self, if_true]
      cases openChunk A cfg.m cfg.c s.idx (s.buf.take cfg.c) with
      | error e => rfl
      | ok p =>
        simp only
        split
        · rfl
        · apply drain_fuel A cfg hc f f'
          · simp only [List.length_drop]; omega
          · simp only [List.length_drop]; omega
    · simp only [hcond, if_false]

/-- `drain` with adequate fuel, as a function of the state only. -/
def drainAll (A : AEAD) (cfg : SCfg) (s : SState) : SRes := drain A cfg (s.buf.length + 1) s

/-- Draining a buffer and then appending more data and draining again is the same as draining the
concatenation: the machine is insensitive to where the backend cut its response. -/
theorem drain_append (A : AEAD) (cfg : SCfg) (hc : 1 ≤ cfg.c) (extra : Bytes) :
    ∀ (f : Nat) (s : SState), s.buf.length + 1 ≤ f →
      drainAll A cfg { s with buf := s.buf ++ extra } =
        match drain A cfg f s with
        | .cont s' => drainAll A cfg { s' with buf := s'.buf ++ extra }
        | r => r
  | 0, _, h => by omega
  | f + 1, s, h => by
    by_cases hcond : s.remaining > 0 ∧ s.buf.length ≥ cfg.c
    · have hcond' : s.remaining > 0 ∧ (s.buf ++ extra).length ≥ cfg.c := by
        simp only [List.length_append]; omega
      have htake : (s.buf ++ extra).take cfg.c = s.buf.take cfg.c := by
        rw [List.take_append_of_le_length hcond.2]
      have hdrop : (s.buf ++ extra).drop cfg.c = s.buf.drop cfg.c ++ extra := by
        rw [List.drop_append_of_le_length hcond.2]
      rw [drainAll]
      conv => lhs; unfold drain
      conv => rhs; unfold drain
      simp only [hcond, hcond', and_self, if_true, htake, hdrop]
      cases openChunk A cfg.m cfg.c s.idx (s.buf.take cfg.c) with
      | error e => rfl
      | ok p =>
        simp only
        split
        · rfl
        · rename_i hrem
          have ih := drain_append A cfg hc extra f
            ⟨s.buf.drop cfg.c, s.idx + 1, s.remaining - (trimChunk cfg s.idx s.remaining p).length,
              s.out ++ trimChunk cfg s.idx s.remaining p⟩
            (by simp only [List.length_drop]; omega)
          simp only at ih
          rw [← ih, drainAll]
          apply drain_fuel A cfg hc
          · simp only [List.length_append, List.length_drop]; omega
          · simp only [List.length_append, List.length_drop]; omega
    · conv => rhs; unfold drain
      simp only [hcond, if_false]

theorem drainAll_idem (A : AEAD) (cfg : SCfg) (hc : 1 ≤ cfg.c) (s s' : SState)
    (h : drainAll A cfg s = .cont s') : drainAll A cfg s' = .cont s' := by
  have := drain_append A cfg hc [] (s.buf.length + 1) s (by omega)
  simp only [List.append_nil] at this
  rw [show drain A cfg (s.buf.length + 1) s = drainAll A cfg s from rfl, h] at this
  simp only at this
  rw [← this]

/-- Segmentation independence from any drained state. -/
theorem runSegs_flatten (A : AEAD) (cfg : SCfg) (hc : 1 ≤ cfg.c) :
    ∀ (segs : List Bytes) (s : SState), drainAll A cfg s = .cont s →
      runSegs A cfg segs s = runSegs A cfg [segs.flatten] s
  | [], s, hs => by
    simp only [runSegs, List.flatten_nil, List.append_nil, List.length_nil, Nat.add_zero]
    rw [show drain A cfg (s.buf.length + 1) { s with buf := s.buf } = drainAll A cfg s from rfl, hs]
  | seg :: rest, s, _ => by
    simp only [runSegs, List.flatten_cons]
    have key := drain_append A cfg hc rest.flatten ((s.buf ++ seg).length + 1)
      { s with buf := s.buf ++ seg } (by simp)
    simp only [List.append_assoc] at key
    have e1 : drain A cfg (s.buf.length + (seg ++ rest.flatten).length + 1)
        { s with buf := s.buf ++ (seg ++ rest.flatten) } =
        drainAll A cfg { s with buf := s.buf ++ (seg ++ rest.flatten) } := by
      unfold drainAll; simp [List.length_append, Nat.add_assoc]
    have e2 : drain A cfg (s.buf.length + seg.length + 1) { s with buf := s.buf ++ seg } =
        drain A cfg ((s.buf ++ seg).length + 1) { s with buf := s.buf ++ seg } := by
      simp [List.length_append]
    rw [e1, key, e2]
    cases hd : drain A cfg ((s.buf ++ seg).length + 1) { s with buf := s.buf ++ seg } with
    | cont s' =>
      simp only
      have hs' : drainAll A cfg s' = .cont s' :=
        drainAll_idem A cfg hc { s with buf := s.buf ++ seg } s' hd
      rw [runSegs_flatten A cfg hc rest s' hs']
      simp only [runSegs]
      unfold drainAll
      simp [List.length_append, Nat.add_assoc]
    | done out => rfl
    | fail e out => rfl

end AndaVerif.Enc
