import AndaVerif.Proofs.TxTuples
/-
If planning succeeded (and the pre-commit checks passed), no `put` of the write loop is refused.
-/
namespace AndaVerif.Tx
open AndaVerif.Gen.NexusOrder

/-! ## The planning invariants together -/

structure PlanInv (D : List Nat) (p : PS) : Prop where
  s : SInv p
  u : UInv [] p
  n : NInv [] D p

theorem declareClause_uinv (c : Clause) (s : Store) (tx : Tx) (e : Option Err) (h : UInv [] { s := s, tx := tx, err := e }) :
    UInv [] (declareClause c s tx) := by
  have hd : ∀ n k, UInv [] (declare s tx n k) := by
    intro n k
    cases hg : hGet tx.handles n with
    | some i => rw [declare_fail hg]; exact h.same rfl
    | none => rw [declare_ok hg]; exact (h.mint k).same rfl
  cases c with
  | createConcept a b c' d e' => exact hd a .concept
  | createRec k a c' d e' => exact hd a k
  | upsert => exact h.same rfl
  | ensure => exact h.same rfl
  | update => exact h.same rfl
  | setState => exact h.same rfl
  | retract => exact h.same rfl
  | purge => exact h.same rfl
  | supersede => exact h.same rfl
  | correct => exact h.same rfl
  | transition => exact h.same rfl
  | setRetention => exact h.same rfl
  | merge => exact h.same rfl

theorem PlanInv.declare {p : PS} (h : PlanInv [] p) (c : Clause) : PlanInv [] (p.andThen (declareClause c)) := by
  unfold PS.andThen
  split
  · exact h
  · have hp : p = { s := p.s, tx := p.tx, err := p.err } := by cases p; rfl
    exact { s := declareClause_spres c p.s p.tx p.err (hp ▸ h.s),
            u := declareClause_uinv c p.s p.tx p.err (hp ▸ h.u),
            n := declareClause_ninv c (e := p.err) (hp ▸ h.n) }

theorem PlanInv.declareAll (cs : List Clause) {p : PS} (h : PlanInv [] p) : PlanInv [] (declareAll cs p) := by
  unfold Tx.declareAll
  induction cs generalizing p with
  | nil => exact h
  | cons c r ih => exact ih (h.declare c)

theorem PlanInv.apply {D : List Nat} {p : PS} (h : PlanInv D p) (c : Clause) (hD : ∀ n, declares c = some n → n ∈ D) :
    PlanInv D (p.andThen (applyClause c)) := by
  unfold PS.andThen
  split
  · exact h
  · have hp : p = { s := p.s, tx := p.tx, err := p.err } := by cases p; rfl
    exact { s := applyClause_spres c p.s p.tx p.err (hp ▸ h.s),
            u := applyClause_uinv c p.s p.tx p.err h.s.wf (hp ▸ h.u),
            n := applyClause_ninv c D hD p.s p.tx p.err (hp ▸ h.n) }

theorem PlanInv.applyPass {D : List Nat} (pass : Nat) (cs : List Clause) (hD : ∀ c ∈ cs, ∀ n, declares c = some n → n ∈ D)
    {p : PS} (h : PlanInv D p) : PlanInv D (applyPass pass cs p) := by
  unfold Tx.applyPass
  induction cs generalizing p with
  | nil => exact h
  | cons c r ih =>
      simp only [List.foldl_cons]
      have hr : ∀ c' ∈ r, ∀ n, declares c' = some n → n ∈ D := fun c' hc' => hD c' (List.mem_cons_of_mem _ hc')
      split
      · exact ih hr (h.apply c (hD c List.mem_cons_self))
      · exact ih hr h

/-- the handle names the `CREATE` clauses of a statement declare -/
def declaredNames (cs : List Clause) : List Nat := cs.filterMap declares

theorem planned_planinv {s : Store} (hwf : WF s) (st : Stmt) (he : (planned s st).err = none) :
    PlanInv (declaredNames st.clauses) (planned s st) := by
  have h0 : PlanInv [] (begin s st.dry) :=
    { s := SInv.begin hwf st.dry,
      u := { absent := (by intro q hq; cases hq), distinct := (by intro q r hq; cases hq), free := (by intro t ht; cases ht) },
      n := { newShell := (by intro q hq; cases hq), known := (by intro i hi; cases hi), decl := (by intro n hn; cases hn),
             names := (by intro n hn; cases hn) } }
  have h1 := h0.declareAll st.clauses
  -- phase 1 succeeded, or the whole plan failed
  have he1 : (declareAll st.clauses (begin s st.dry)).err = none := by
    cases hd : (declareAll st.clauses (begin s st.dry)).err with
    | none => rfl
    | some e' =>
        have hne : (declareAll st.clauses (begin s st.dry)).err ≠ none := by rw [hd]; intro hh; cases hh
        have : planned s st = declareAll st.clauses (begin s st.dry) := by
          unfold planned plan
          rw [applyPass_err 0 _ hne, applyPass_err 1 _ hne, applyPass_err 2 _ hne]
        rw [this, hd] at he; cases he
  have hnames := declareAll_declared st.clauses (begin s st.dry) he1
  have hD : ∀ c ∈ st.clauses, ∀ n, declares c = some n → n ∈ declaredNames st.clauses := by
    intro c hc n hn
    exact List.mem_filterMap.mpr ⟨c, hc, hn⟩
  have h2 : PlanInv (declaredNames st.clauses) (declareAll st.clauses (begin s st.dry)) :=
    { s := h1.s, u := h1.u,
      n := { newShell := h1.n.newShell, known := h1.n.known, decl := h1.n.decl,
             names := by
               intro n hn
               obtain ⟨c, hc, hcn⟩ := List.mem_filterMap.mp hn
               exact hnames c hc n hcn } }
  exact ((h2.applyPass 0 _ hD).applyPass 1 _ hD).applyPass 2 _ hD

/-! ## The loop -/

/-- every Proposition tuple in the store the loop has reached comes from a row planning saw or from
a staged row -/
def Origin (s0 : Store) (staged : List (Id × Staged)) (s : Store) : Prop :=
  ∀ j e t, j.kind = .proposition → s.elems j = some e → e.row.tup = some t →
    s0.elems j = some e ∨ ∃ y, (j, y) ∈ staged ∧ y.row.tup = some t

theorem writeLoop_ok (q : Nat) (s0 : Store) (staged : List (Id × Staged)) (hwf0 : WF s0) (ht0 : TInv s0)
    (hent : ∀ p ∈ staged, EntryOK s0 p)
    (hexist : ∀ p ∈ staged, (s0.elems p.1).isSome = true)
    (habs : ∀ p ∈ staged, p.1.kind = .proposition → p.2.isNew = true → ∀ t, p.2.row.tup = some t → StoreFree s0 t)
    (hdis : ∀ p r, p ∈ staged → r ∈ staged → p.1.kind = .proposition → r.1.kind = .proposition → p.2.isNew = true →
        r.2.isNew = true → ∀ t, p.2.row.tup = some t → r.2.row.tup = some t → p.1 = r.1) :
    ∀ (m : List (Id × Staged)), (m.map (·.1)).Nodup → (∀ p ∈ m, p ∈ staged) →
      ∀ (s : Store) (acc : List Change), WF s → s.next = s0.next → (∀ p ∈ m, s.elems p.1 = s0.elems p.1) → Origin s0 staged s →
        (writeLoop q s m acc).2.2 = none := by
  intro m
  induction m with
  | nil => intro _ _ s acc _ _ _ _; rfl
  | cons p r ih =>
      obtain ⟨i, x⟩ := p
      intro hn hsub s acc hwf hnext hsame horig
      simp only [List.map_cons, List.nodup_cons] at hn
      simp only [writeLoop]
      have hix : (i, x) ∈ staged := hsub _ List.mem_cons_self
      have hrest : ∀ p ∈ r, p ∈ staged := fun p hp => hsub p (List.mem_cons_of_mem _ hp)
      split
      · -- a changed row: the put succeeds
        have hcur : s.elems i = s0.elems i := hsame (i, x) List.mem_cons_self
        have hsome : (s.elems i).isSome = true := by rw [hcur]; exact hexist _ hix
        have hnot : ¬ (i.kind = .proposition ∧ tupleTaken s i x.row = true) := by
          rintro ⟨hik, htk⟩
          unfold tupleTaken at htk
          split at htk
          · cases htk
          · rename_i t hxt
            simp only [List.any_eq_true] at htk
            obtain ⟨j, hjm, hjp⟩ := htk
            have hjk : j.kind = .proposition := by
              simp only [idsOf, List.mem_map] at hjm
              obtain ⟨n, _, hn'⟩ := hjm
              rw [← hn']
            have hji : j ≠ i := by
              intro heq; simp [heq] at hjp
            have hjt : ∃ ej, s.elems j = some ej ∧ ej.row.tup = some t := by
              simp only [Bool.and_eq_true, propHasTuple] at hjp
              have := hjp.2
              split at this
              · cases this
              · rename_i ej hej; exact ⟨ej, hej, by simpa using this⟩
            obtain ⟨ej, hej, hejt⟩ := hjt
            -- the stored row of `i` carries `t` when `x` was loaded
            have hi0 : x.isNew = false → ∃ ei, s0.elems i = some ei ∧ ei.row.tup = some t := by
              intro hnew
              obtain ⟨_, ei, h1, _, himm⟩ := (hent _ hix).2.1 hnew
              rcases himm with ⟨_, _, h5, _⟩ | ⟨_, _, h5, _⟩
              · exact ⟨ei, h1, by rw [h5]; exact hxt⟩
              · rw [h5] at hxt; cases hxt
            rcases horig j ej t hjk hej hejt with h0 | ⟨y, hy, hyt⟩
            · -- a row planning saw
              cases hnew : x.isNew with
              | true => exact habs _ hix hik hnew t hxt j ej hjk h0 hejt
              | false =>
                  obtain ⟨ei, hei, heit⟩ := hi0 hnew
                  exact hji (ht0 j i ej ei t hjk hik h0 hei hejt heit)
            · -- a row this loop wrote
              cases hnew : x.isNew with
              | true =>
                  cases hynew : y.isNew with
                  | true => exact hji (hdis (j, y) (i, x) hy hix hjk hik hynew hnew t hyt hxt)
                  | false =>
                      obtain ⟨_, ej0, h1, _, himm⟩ := (hent _ hy).2.1 hynew
                      rcases himm with ⟨_, _, h5, _⟩ | ⟨_, _, h5, _⟩
                      · exact habs _ hix hik hnew t hxt j ej0 hjk h1 (by rw [h5]; exact hyt)
                      · rw [h5] at hyt; cases hyt
              | false =>
                  obtain ⟨ei, hei, heit⟩ := hi0 hnew
                  cases hynew : y.isNew with
                  | true => exact habs _ hy hjk hynew t hyt i ei hik hei heit
                  | false =>
                      obtain ⟨_, ej0, h1, _, himm⟩ := (hent _ hy).2.1 hynew
                      rcases himm with ⟨_, _, h5, _⟩ | ⟨_, _, h5, _⟩
                      · exact hji (ht0 j i ej0 ei t hjk hik h1 hei (by rw [h5]; exact hyt) heit)
                      · rw [h5] at hyt; cases hyt
        have hw : ∃ s1, writeOne s q i x = .ok s1 := by
          unfold writeOne
          cases hel : s.elems i with
          | none => rw [hel] at hsome; cases hsome
          | some el => simp only [hnot, if_false]; exact ⟨_, rfl⟩
        obtain ⟨s1, hw1⟩ := hw
        rw [hw1]
        obtain ⟨_, hel, _, hnx, _, _⟩ := writeOne_ok hw1
        apply ih hn.2 hrest s1 _ (writeOne_WF hwf hw1) (hnx.trans hnext)
        · intro p hp
          rw [hel]
          have hne : p.1 ≠ i := fun heq => hn.1 (heq ▸ List.mem_map.mpr ⟨p, hp, rfl⟩)
          simp only [setElem, hne, if_false]
          exact hsame p (List.mem_cons_of_mem _ hp)
        · intro j e t hjk hje hjt
          rw [hel] at hje
          simp only [setElem] at hje
          split at hje
          · rename_i hji
            cases hje
            exact .inr ⟨x, hji ▸ hix, hjt⟩
          · exact horig j e t hjk hje hjt
      · exact ih hn.2 hrest s acc hwf hnext (fun p hp => hsame p (List.mem_cons_of_mem _ hp)) horig

/-- If planning succeeded, the write loop is never refused — on a store in which a tuple names one
Proposition. -/
theorem exec_no_refusedWrite {s : Store} (hwf : WF s) (ht : TInv s) (st : Stmt) (e : Err) (w : List Change) :
    (exec s st).2 ≠ .refusedWrite e w := by
  intro h
  have hinv := planned_inv hwf st
  rcases exec_cases s st with ⟨e', he, hr⟩ | ⟨he, hc⟩
  · rw [hr] at h; cases h
  · have hp := planned_planinv hwf st he
    have hpt : TInv (planned s st).s := hinv.tinv (fun i j ei ej t => ht i j ei ej t)
    cases hc with
    | dry hd hr => rw [hr] at h; cases h
    | check hd e' hk hr => rw [hr] at h; cases h
    | done hd u hk s' w' hw hr => rw [hr] at h; cases h
    | write hd u hk s' w' e' hw hr =>
        have hexist : ∀ p ∈ (planned s st).tx.staged, ((planned s st).s.elems p.1).isSome = true := by
          intro p hpm
          cases hnew : p.2.isNew with
          | true =>
              have hsh := hp.n.newShell p hpm hnew
              rw [hinv.raw p.1]; simp [hsh]
          | false =>
              obtain ⟨_, el, h1, _⟩ := (hp.s.entries p hpm).2.1 hnew
              rw [h1]; rfl
        have := writeLoop_ok (planned s st).tx.seq (planned s st).s (planned s st).tx.staged hinv.wf hpt hp.s.entries hexist
          hp.u.absent hp.u.distinct (planned s st).tx.staged hp.s.keys (fun _ hp' => hp') (planned s st).s [] hinv.wf rfl
          (fun _ _ => rfl) (fun j el t _ hj _ => .inl hj)
        rw [hw] at this
        cases this

end AndaVerif.Tx
