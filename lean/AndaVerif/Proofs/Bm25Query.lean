import AndaVerif.Proofs.Bm25Basic
/-
`eval` (the model of `execute_query` at the level of key sets) against `denote` (set algebra).
-/
namespace AndaVerif
namespace Bm25

theorem mem_docIds {s : Index} {i : Nat} : i ∈ s.docIds ↔ s.live i = true := by
  unfold Index.docIds Index.live; exact hasKey_iff.symm

/-! ### term -/

theorem mem_validIds {s : Index} {es : Entries} {i : Nat} :
    i ∈ validIds s es ↔ s.live i = true ∧ ∃ e ∈ es, e.1 = i := by
  unfold validIds
  rw [mem_dedup, List.mem_filter, List.mem_map]
  constructor
  · rintro ⟨⟨e, he, rfl⟩, hl⟩; exact ⟨hl, e, he, rfl⟩
  · rintro ⟨hl, e, he, rfl⟩; exact ⟨⟨e, he, rfl⟩, hl⟩

theorem hasEntry_iff {s : Index} {t i : Nat} :
    hasEntry s t i = true ↔ ∃ es, get? s.postings t = some es ∧ ∃ e ∈ es, e.1 = i := by
  unfold hasEntry
  cases h : get? s.postings t with
  | none => simp
  | some es => simp [List.any_eq_true]

theorem mem_termLoop {s : Index} {i : Nat} : ∀ {ts acc : List Nat},
    i ∈ termLoop s ts acc ↔ i ∈ acc ∨ (s.live i = true ∧ ∃ t ∈ ts, hasEntry s t i = true)
  | [], acc => by simp [termLoop]
  | t :: ts, acc => by
    unfold termLoop
    cases h : get? s.postings t with
    | some es =>
      simp only []
      rw [mem_termLoop, mem_union, mem_validIds]
      have ht : hasEntry s t i = true ↔ ∃ e ∈ es, e.1 = i := by
        rw [hasEntry_iff]; simp [h]
      constructor
      · rintro ((h1 | ⟨hl, he⟩) | ⟨hl, t', ht', he⟩)
        · exact Or.inl h1
        · exact Or.inr ⟨hl, t, List.mem_cons_self, ht.2 he⟩
        · exact Or.inr ⟨hl, t', List.mem_cons_of_mem _ ht', he⟩
      · rintro (h1 | ⟨hl, t', ht', he⟩)
        · exact Or.inl (Or.inl h1)
        · rcases List.mem_cons.1 ht' with rfl | ht'
          · exact Or.inl (Or.inr ⟨hl, ht.1 he⟩)
          · exact Or.inr ⟨hl, t', ht', he⟩
    | none =>
      simp only []
      rw [mem_termLoop]
      have ht : hasEntry s t i = false := by unfold hasEntry; simp [h]
      constructor
      · rintro (h1 | ⟨hl, t', ht', he⟩)
        · exact Or.inl h1
        · exact Or.inr ⟨hl, t', List.mem_cons_of_mem _ ht', he⟩
      · rintro (h1 | ⟨hl, t', ht', he⟩)
        · exact Or.inl h1
        · rcases List.mem_cons.1 ht' with rfl | ht'
          · rw [ht] at he; cases he
          · exact Or.inr ⟨hl, t', ht', he⟩

theorem nodup_termLoop {s : Index} : ∀ {ts acc : List Nat}, acc.Nodup → (termLoop s ts acc).Nodup
  | [], acc, h => by simpa [termLoop] using h
  | t :: ts, acc, h => by
    unfold termLoop
    cases get? s.postings t with
    | some es => exact nodup_termLoop (nodup_union h (nodup_dedup _))
    | none => exact nodup_termLoop h

theorem mem_termIds {s : Index} {toks : List Nat} {i : Nat} :
    i ∈ termIds s toks ↔ s.live i = true ∧ ∃ t ∈ toks, hasEntry s t i = true := by
  unfold termIds
  split
  · rename_i h
    have hp : s.postings = [] := by simpa using h
    simp only [List.not_mem_nil, false_iff]
    rintro ⟨_, t, _, he⟩
    unfold hasEntry at he; rw [hp] at he; simp [get?] at he
  · split
    · rename_i h
      have : toks = [] := by simpa using h
      subst this; simp
    · split
      · rename_i h
        have hd : s.docTokens = [] := by simpa using h
        simp only [List.not_mem_nil, false_iff]
        rintro ⟨hl, _⟩
        unfold Index.live hasKey at hl; rw [hd] at hl; simp [get?] at hl
      · rw [mem_termLoop]; simp

theorem nodup_termIds (s : Index) (toks : List Nat) : (termIds s toks).Nodup := by
  unfold termIds
  split
  · simp
  · split
    · simp
    · split
      · simp
      · exact nodup_termLoop (by simp)

/-! ### combinators -/

theorem mem_unionAll {i : Nat} : ∀ {rs : List (List Nat)} {acc : List Nat},
    i ∈ unionAll rs acc ↔ i ∈ acc ∨ ∃ r ∈ rs, i ∈ r
  | [], acc => by simp [unionAll]
  | r :: rs, acc => by
    unfold unionAll
    rw [mem_unionAll, mem_union]
    simp only [List.mem_cons, exists_eq_or_imp]
    constructor
    · rintro ((h | h) | h) <;> simp [h]
    · rintro (h | h | h) <;> simp [h]

theorem mem_interAll {i : Nat} : ∀ {rs : List (List Nat)} {acc : List Nat},
    i ∈ interAll rs acc ↔ i ∈ acc ∧ ∀ r ∈ rs, i ∈ r
  | [], acc => by simp [interAll]
  | r :: rs, acc => by
    unfold interAll
    rw [mem_interAll, mem_inter]
    simp only [List.mem_cons, forall_eq_or_imp]
    constructor
    · rintro ⟨⟨h1, h2⟩, h3⟩; exact ⟨h1, h2, h3⟩
    · rintro ⟨h1, h2, h3⟩; exact ⟨⟨h1, h2⟩, h3⟩

theorem mem_diffAll {i : Nat} : ∀ {rs : List (List Nat)} {acc : List Nat},
    i ∈ diffAll rs acc ↔ i ∈ acc ∧ ∀ r ∈ rs, i ∉ r
  | [], acc => by simp [diffAll]
  | r :: rs, acc => by
    unfold diffAll
    rw [mem_diffAll, mem_diff]
    simp only [List.mem_cons, forall_eq_or_imp]
    constructor
    · rintro ⟨⟨h1, h2⟩, h3⟩; exact ⟨h1, h2, h3⟩
    · rintro ⟨h1, h2, h3⟩; exact ⟨⟨h1, h2⟩, h3⟩

theorem nodup_unionAll : ∀ {rs : List (List Nat)} {acc : List Nat},
    acc.Nodup → (∀ r ∈ rs, r.Nodup) → (unionAll rs acc).Nodup
  | [], acc, h, _ => by simpa [unionAll] using h
  | r :: rs, acc, h, hr => by
    unfold unionAll
    exact nodup_unionAll (nodup_union h (hr r List.mem_cons_self)) (fun r' h' => hr r' (List.mem_cons_of_mem _ h'))

theorem nodup_interAll : ∀ {rs : List (List Nat)} {acc : List Nat}, acc.Nodup → (interAll rs acc).Nodup
  | [], acc, h => by simpa [interAll] using h
  | r :: rs, acc, h => by unfold interAll; exact nodup_interAll (nodup_inter h)

theorem nodup_diffAll : ∀ {rs : List (List Nat)} {acc : List Nat}, acc.Nodup → (diffAll rs acc).Nodup
  | [], acc, h => by simpa [diffAll] using h
  | r :: rs, acc, h => by unfold diffAll; exact nodup_diffAll (nodup_diff h)

/-! ### kids -/

def negDenote (s : Index) : Query → Nat → Bool
  | .not x, i => denote s x i
  | _, _ => false

structure KidOK (s : Index) (q : Query) (k : Kid) : Prop where
  isNot : k.isNot = q.isNot
  pos : ∀ i, i ∈ k.pos ↔ denote s q i = true
  neg : ∀ i, i ∈ k.neg ↔ negDenote s q i = true
  live : ∀ i, i ∈ k.pos → s.live i = true
  nodup : s.docIds.Nodup → k.pos.Nodup

def KidsOK (s : Index) : List Query → List Kid → Prop
  | [], [] => True
  | q :: qs, k :: ks => KidOK s q k ∧ KidsOK s qs ks
  | _, _ => False

/-- what a sub-query contributes to a conjunction, read off its `Kid` -/
def kidHolds (s : Index) (k : Kid) (i : Nat) : Prop :=
  if k.isNot then s.live i = true ∧ i ∉ k.neg else i ∈ k.pos

theorem kid_denote {s : Index} {q : Query} {k : Kid} (h : KidOK s q k) (i : Nat) :
    denote s q i = true ↔ kidHolds s k i := by
  unfold kidHolds
  cases q with
  | not x =>
    have hn : k.isNot = true := by rw [h.isNot]; rfl
    simp only [hn, if_true]
    rw [h.neg i]
    simp [denote, negDenote]
  | term t => have hn : k.isNot = false := by rw [h.isNot]; rfl
              simp only [hn]; exact (h.pos i).symm
  | and qs => have hn : k.isNot = false := by rw [h.isNot]; rfl
              simp only [hn]; exact (h.pos i).symm
  | or qs => have hn : k.isNot = false := by rw [h.isNot]; rfl
             simp only [hn]; exact (h.pos i).symm

theorem kids_nil_iff {s : Index} {qs : List Query} {ks : List Kid} (h : KidsOK s qs ks) : qs = [] ↔ ks = [] := by
  cases qs <;> cases ks <;> simp_all [KidsOK]

theorem kids_each {s : Index} : ∀ {qs : List Query} {ks : List Kid}, KidsOK s qs ks →
    ∀ k ∈ ks, ∃ q, KidOK s q k
  | [], [], _, k, hk => by cases hk
  | [], _ :: _, h, _, _ => by cases h
  | _ :: _, [], h, _, _ => by cases h
  | q :: qs, k' :: ks, h, k, hk => by
    rcases List.mem_cons.1 hk with rfl | hk
    · exact ⟨q, h.1⟩
    · exact kids_each h.2 k hk

theorem kids_all {s : Index} {i : Nat} : ∀ {qs : List Query} {ks : List Kid}, KidsOK s qs ks →
    (denoteAll s qs i = true ↔ ∀ k ∈ ks, kidHolds s k i)
  | [], [], _ => by simp [denoteAll]
  | [], _ :: _, h => by cases h
  | _ :: _, [], h => by cases h
  | q :: qs, k :: ks, h => by
    simp only [denoteAll, Bool.and_eq_true, List.mem_cons, forall_eq_or_imp]
    rw [kid_denote h.1 i, kids_all h.2]

theorem kids_any {s : Index} {i : Nat} : ∀ {qs : List Query} {ks : List Kid}, KidsOK s qs ks →
    (denoteAny s qs i = true ↔ ∃ r ∈ ks.map (·.pos), i ∈ r)
  | [], [], _ => by simp [denoteAny]
  | [], _ :: _, h => by cases h
  | _ :: _, [], h => by cases h
  | q :: qs, k :: ks, h => by
    simp only [denoteAny, Bool.or_eq_true, List.map_cons, List.mem_cons, exists_eq_or_imp]
    rw [← h.1.pos i, kids_any h.2]

/-! ### score_or -/

theorem mem_orCombine {s : Index} {qs : List Query} {ks : List Kid} (h : KidsOK s qs ks) (i : Nat) :
    i ∈ orCombine ks ↔ denoteAny s qs i = true := by
  rw [kids_any h]
  match ks with
  | [] => simp [orCombine]
  | [k] => simp [orCombine]
  | k1 :: k2 :: ks => simp only [orCombine]; rw [mem_unionAll]; simp

theorem live_orCombine {s : Index} {qs : List Query} {ks : List Kid} (h : KidsOK s qs ks) (i : Nat)
    (hi : i ∈ orCombine ks) : s.live i = true := by
  have : ∃ r ∈ ks.map (·.pos), i ∈ r := by
    match ks, hi with
    | [], hi => simp [orCombine] at hi
    | [k], hi => simpa [orCombine] using hi
    | k1 :: k2 :: ks, hi => simp only [orCombine] at hi; rw [mem_unionAll] at hi; simpa using hi
  obtain ⟨r, hr, hir⟩ := this
  obtain ⟨k, hk, rfl⟩ := List.mem_map.1 hr
  obtain ⟨q, hq⟩ := kids_each h k hk
  exact hq.live i hir

theorem nodup_orCombine {s : Index} {qs : List Query} {ks : List Kid} (h : KidsOK s qs ks)
    (hd : s.docIds.Nodup) : (orCombine ks).Nodup := by
  have hall : ∀ r ∈ ks.map (·.pos), r.Nodup := by
    intro r hr
    obtain ⟨k, hk, rfl⟩ := List.mem_map.1 hr
    obtain ⟨q, hq⟩ := kids_each h k hk
    exact hq.nodup hd
  match ks, hall with
  | [], _ => simp [orCombine]
  | [k], hall => simpa [orCombine] using hall
  | k1 :: k2 :: ks, hall => simp only [orCombine]; exact nodup_unionAll (by simp) hall

/-! ### score_and -/

theorem mem_andMany {s : Index} {ks : List Kid} (hk : ∀ k ∈ ks, ∃ q, KidOK s q k) (hne : ks ≠ []) (i : Nat) :
    i ∈ (match ks.filter (fun k : Kid => !k.isNot) with
        | p :: ps => diffAll ((ks.filter (fun k : Kid => k.isNot)).map (fun k : Kid => k.neg))
            (interAll (ps.map (fun k : Kid => k.pos)) p.pos)
        | [] =>
          match ks.filter (fun k : Kid => k.isNot) with
          | n :: ns => diffAll (ns.map (fun k : Kid => k.neg)) n.pos
          | [] => ([] : List Nat))
      ↔ ∀ k ∈ ks, kidHolds s k i := by
  have split : (∀ k ∈ ks, kidHolds s k i) ↔
      (∀ k ∈ ks.filter (fun k => !k.isNot), i ∈ k.pos) ∧
      (∀ k ∈ ks.filter (fun k => k.isNot), s.live i = true ∧ i ∉ k.neg) := by
    constructor
    · intro h
      refine ⟨fun k hk' => ?_, fun k hk' => ?_⟩
      · have ⟨hm, hn⟩ := List.mem_filter.1 hk'
        have := h k hm
        unfold kidHolds at this
        simp only [Bool.not_eq_eq_eq_not, Bool.not_true] at hn
        simpa [hn] using this
      · have ⟨hm, hn⟩ := List.mem_filter.1 hk'
        have := h k hm
        unfold kidHolds at this
        simpa [hn] using this
    · rintro ⟨h1, h2⟩ k hk'
      unfold kidHolds
      cases hn : k.isNot with
      | true => simpa using h2 k (List.mem_filter.2 ⟨hk', hn⟩)
      | false => simpa using h1 k (List.mem_filter.2 ⟨hk', by simp [hn]⟩)
  rw [split]
  cases hP : ks.filter (fun k => !k.isNot) with
  | cons p ps =>
    simp only []
    rw [mem_diffAll, mem_interAll]
    have hp : p ∈ ks := (List.mem_filter.1 (by rw [hP]; exact List.mem_cons_self)).1
    obtain ⟨qp, hqp⟩ := hk p hp
    constructor
    · rintro ⟨⟨h1, h2⟩, h3⟩
      refine ⟨?_, ?_⟩
      · intro k hk'
        rcases List.mem_cons.1 hk' with rfl | hk'
        · exact h1
        · exact h2 _ (List.mem_map.2 ⟨k, hk', rfl⟩)
      · intro k hk'
        exact ⟨hqp.live i h1, h3 _ (List.mem_map.2 ⟨k, hk', rfl⟩)⟩
    · rintro ⟨h1, h2⟩
      refine ⟨⟨h1 p List.mem_cons_self, ?_⟩, ?_⟩
      · intro r hr
        obtain ⟨k, hk', rfl⟩ := List.mem_map.1 hr
        exact h1 k (List.mem_cons_of_mem _ hk')
      · intro r hr
        obtain ⟨k, hk', rfl⟩ := List.mem_map.1 hr
        exact (h2 k hk').2
  | nil =>
    simp only []
    cases hN : ks.filter (fun k => k.isNot) with
    | nil =>
      exfalso
      cases ks with
      | nil => exact hne rfl
      | cons k ks =>
        cases hn : k.isNot with
        | true => simp [List.filter_cons, hn] at hN
        | false => simp [List.filter_cons, hn] at hP
    | cons n ns =>
      simp only []
      rw [mem_diffAll]
      have hn : n ∈ ks.filter (fun k => k.isNot) := by rw [hN]; exact List.mem_cons_self
      have ⟨hnm, hnn⟩ := List.mem_filter.1 hn
      obtain ⟨qn, hqn⟩ := hk n hnm
      have hpos : i ∈ n.pos ↔ s.live i = true ∧ i ∉ n.neg := by
        rw [hqn.pos i, kid_denote hqn i]; unfold kidHolds; simp [hnn]
      constructor
      · rintro ⟨h1, h2⟩
        refine ⟨by simp, ?_⟩
        intro k hk'
        rcases List.mem_cons.1 hk' with rfl | hk'
        · exact hpos.1 h1
        · exact ⟨(hpos.1 h1).1, h2 _ (List.mem_map.2 ⟨k, hk', rfl⟩)⟩
      · rintro ⟨_, h2⟩
        refine ⟨hpos.2 (h2 n List.mem_cons_self), ?_⟩
        intro r hr
        obtain ⟨k, hk', rfl⟩ := List.mem_map.1 hr
        exact (h2 k (List.mem_cons_of_mem _ hk')).2

theorem mem_andCombine {s : Index} {qs : List Query} {ks : List Kid} (h : KidsOK s qs ks) (i : Nat) :
    i ∈ andCombine ks ↔ (!qs.isEmpty && denoteAll s qs i) = true := by
  have hnil := kids_nil_iff h
  rw [Bool.and_eq_true, kids_all h]
  match ks, h, hnil with
  | [], _, hnil => simp [andCombine, hnil.2 rfl]
  | [k], h, hnil =>
    have : qs ≠ [] := fun e => by have := hnil.1 e; cases this
    have hq : (!qs.isEmpty) = true := by cases qs <;> simp_all
    obtain ⟨q, hq'⟩ := kids_each h k List.mem_cons_self
    simp only [andCombine, hq, true_and, List.mem_singleton, forall_eq]
    rw [hq'.pos i, kid_denote hq' i]
  | k1 :: k2 :: ks, h, hnil =>
    have : qs ≠ [] := fun e => by have := hnil.1 e; cases this
    have hq : (!qs.isEmpty) = true := by cases qs <;> simp_all
    simp only [andCombine, hq, true_and]
    exact mem_andMany (kids_each h) (by simp) i

theorem live_andCombine {s : Index} {qs : List Query} {ks : List Kid} (h : KidsOK s qs ks) (i : Nat)
    (hi : i ∈ andCombine ks) : s.live i = true := by
  have h1 := (mem_andCombine h i).1 hi
  rw [Bool.and_eq_true, kids_all h] at h1
  match ks, h, h1 with
  | [], h, h1 =>
    have : qs = [] := (kids_nil_iff h).2 rfl
    subst this; simp at h1
  | k :: ks, h, h1 =>
    have hk := h1.2 k List.mem_cons_self
    obtain ⟨q, hq⟩ := kids_each h k List.mem_cons_self
    unfold kidHolds at hk
    cases hn : k.isNot with
    | true => simp [hn] at hk; exact hk.1
    | false => simp [hn] at hk; exact hq.live i hk

theorem nodup_andCombine {s : Index} {qs : List Query} {ks : List Kid} (h : KidsOK s qs ks)
    (hd : s.docIds.Nodup) : (andCombine ks).Nodup := by
  have hall : ∀ k ∈ ks, k.pos.Nodup := by
    intro k hk
    obtain ⟨q, hq⟩ := kids_each h k hk
    exact hq.nodup hd
  match ks, hall with
  | [], _ => simp [andCombine]
  | [k], hall => simpa [andCombine] using hall
  | k1 :: k2 :: ks, hall =>
    simp only [andCombine]
    cases hP : (k1 :: k2 :: ks).filter (fun k => !k.isNot) with
    | cons p ps =>
      simp only []
      have hp : p ∈ k1 :: k2 :: ks := (List.mem_filter.1 (by rw [hP]; exact List.mem_cons_self)).1
      exact nodup_diffAll (nodup_interAll (hall p hp))
    | nil =>
      simp only []
      cases hN : (k1 :: k2 :: ks).filter (fun k => k.isNot) with
      | nil => simp
      | cons n ns =>
        simp only []
        have hn : n ∈ k1 :: k2 :: ks := (List.mem_filter.1 (by rw [hN]; exact List.mem_cons_self)).1
        exact nodup_diffAll (hall n hn)

/-! ### the whole evaluator -/

mutual
theorem kid_ok (s : Index) : ∀ q : Query, KidOK s q (kid s q)
  | .term toks => by
    unfold kid
    refine ⟨rfl, fun i => ?_, fun i => by simp [negDenote], fun i hi => (mem_termIds.1 hi).1, fun _ => nodup_termIds s toks⟩
    rw [mem_termIds]
    simp [denote, List.any_eq_true]
  | .and qs => by
    have h := kids_ok s qs
    unfold kid
    exact ⟨rfl, fun i => by rw [mem_andCombine h i]; simp [denote], fun i => by simp [negDenote],
      fun i hi => live_andCombine h i hi, fun hd => nodup_andCombine h hd⟩
  | .or qs => by
    have h := kids_ok s qs
    unfold kid
    exact ⟨rfl, fun i => by rw [mem_orCombine h i]; simp [denote], fun i => by simp [negDenote],
      fun i hi => live_orCombine h i hi, fun hd => nodup_orCombine h hd⟩
  | .not q => by
    have h := kid_ok s q
    unfold kid
    refine ⟨rfl, fun i => ?_, fun i => ?_, fun i hi => ?_, fun hd => nodup_diff hd⟩
    · simp only [mem_diff, mem_docIds, h.pos i]
      simp [denote]
    · simp only [h.pos i]; simp [negDenote]
    · exact mem_docIds.1 (mem_diff.1 hi).1
theorem kids_ok (s : Index) : ∀ qs : List Query, KidsOK s qs (kids s qs)
  | [] => by simp [kids, KidsOK]
  | q :: qs => by
    unfold kids
    exact ⟨kid_ok s q, kids_ok s qs⟩
end

end Bm25
end AndaVerif
