/-
Helper lemmas about `resolve`, `resolveDelegation` and the control-plane operations — property C19.
-/
import AndaVerif.Proofs.Authz

namespace AndaVerif.Authz

open AndaVerif.Gen.GateTables (maxDelegationDepth)

theorem collectCandidates_mem (f : DelegationRow → Except Err (Option Candidate)) :
    ∀ (l : List DelegationRow) (cs : List Candidate), collectCandidates f l = .ok cs →
      ∀ c ∈ cs, ∃ d ∈ l, f d = .ok (some c)
  | [], cs, h, c, hc => by
    simp [collectCandidates] at h; subst h; simp at hc
  | d :: ds, cs, h, c, hc => by
    simp only [collectCandidates] at h
    cases hf : f d with
    | error e => simp [hf] at h
    | ok r =>
      simp only [hf] at h
      cases hr : collectCandidates f ds with
      | error e => simp [hr] at h
      | ok rs =>
        simp only [hr] at h
        have ih := collectCandidates_mem f ds rs hr
        cases r with
        | none =>
          simp at h; subst h
          obtain ⟨d', hd', hfd'⟩ := ih c hc
          exact ⟨d', List.mem_cons_of_mem _ hd', hfd'⟩
        | some c0 =>
          simp at h; subst h
          rcases List.mem_cons.mp hc with rfl | hc'
          · exact ⟨d, List.mem_cons_self, hf⟩
          · obtain ⟨d', hd', hfd'⟩ := ih c hc'
            exact ⟨d', List.mem_cons_of_mem _ hd', hfd'⟩

/-- Whatever a Delegation resolves to is that row's own bounds under attenuated actions. -/
theorem resolveDelegation_shape (w : World) (sp : SpaceRow) :
    ∀ (fuel : Nat) (d : DelegationRow) (c : Candidate), resolveDelegation w sp fuel d = .ok (some c) →
      ∃ actions, c = delegatedCandidate d actions ∧ ∀ x ∈ actions, x ∈ d.actions
  | 0, d, c, h => by simp [resolveDelegation] at h
  | fuel + 1, d, c, h => by
    unfold resolveDelegation at h
    split at h
    · -- re-delegation
      split at h
      · simp at h
      · split at h
        · simp at h
        · split at h
          · simp at h
          · split at h
            · simp at h
            · split at h
              · simp at h
              · split at h
                · simp at h
                · simp at h
                · split at h
                  · simp at h
                  · try dsimp only at h
                    split at h
                    · simp at h
                    · simp at h
                      exact ⟨_, h.symm, fun x hx => (List.mem_filter.mp hx).1⟩
    · -- direct delegation
      split at h
      · simp at h
      · split at h
        · simp at h
        · try dsimp only at h
          split at h
          · simp at h
          · simp at h
            exact ⟨_, h.symm, fun x hx => (List.mem_filter.mp hx).1⟩

theorem delegatedCandidate_id (d : DelegationRow) (acts : List String) :
    (delegatedCandidate d acts).id = .delegation d.rowId := rfl

/-- The direct branch: the delegated actions are exactly those the delegator can confer right now. -/
theorem resolveDelegation_direct (w : World) (sp : SpaceRow) (fuel : Nat) (d : DelegationRow) (c : Candidate)
    (hp : d.parent = "") (h : resolveDelegation w sp (fuel + 1) d = .ok (some c)) :
    ∃ p cands, w.findPrincipal d.delegator = some p ∧
      candidatesOf w sp (resolveDelegation w sp fuel) d.delegator (p.status = "active") = .ok cands ∧
      c = delegatedCandidate d (d.actions.filter
            (conferrable { isOwner := decide (p.status = "active") && isOwnerOf sp d.delegator, candidates := cands }
              d.scope d.conditions d.constraints)) ∧
      (d.actions.filter
            (conferrable { isOwner := decide (p.status = "active") && isOwnerOf sp d.delegator, candidates := cands }
              d.scope d.conditions d.constraints)).isEmpty = false := by
  unfold resolveDelegation at h
  simp only [hp, ne_eq, not_true_eq_false, if_false] at h
  split at h
  · simp at h
  · rename_i p hfp
    split at h
    · simp at h
    · rename_i cands hc
      try dsimp only at h
      split at h
      · simp at h
      · rename_i hne
        simp at h
        exact ⟨p, cands, hfp, hc, h.symm, by simpa using hne⟩

/-- The re-delegation branch: the linked parent is live, hands on to this delegator, may be re-delegated,
resolves, and contains the child's bounds; the child's actions are among the inherited ones. -/
theorem resolveDelegation_linked (w : World) (sp : SpaceRow) (fuel : Nat) (d : DelegationRow) (c : Candidate)
    (hp : d.parent ≠ "") (h : resolveDelegation w sp (fuel + 1) d = .ok (some c)) :
    ∃ row linked inherited, d.parentRow = some row ∧ w.delegation row = some linked ∧
      linked.status = "active" ∧ linked.spaceId = sp.id ∧ linked.delegate = d.delegator ∧
      linked.mayRedelegate = true ∧
      (∃ rp, w.findPrincipal d.delegator = some rp ∧ rp.status = "active") ∧
      resolveDelegation w sp fuel linked = .ok (some inherited) ∧
      inherited.scope.contains d.scope = true ∧ inherited.conditions.contains d.conditions = true ∧
      inherited.constraints.contains d.constraints = true ∧
      c = delegatedCandidate d (d.actions.filter (fun a => inherited.actions.contains a)) := by
  unfold resolveDelegation at h
  simp only [hp, ne_eq, not_false_eq_true, if_true] at h
  split at h
  · simp at h
  · rename_i row hrow
    split at h
    · simp at h
    · rename_i linked hl
      split at h
      · simp at h
      · rename_i hchk
        split at h
        · simp at h
        · rename_i rp hrp
          split at h
          · simp at h
          · rename_i hrpa
            split at h
            · simp at h
            · simp at h
            · rename_i inherited hin
              split at h
              · simp at h
              · rename_i hcont
                try dsimp only at h
                split at h
                · simp at h
                · simp at h
                  simp only [not_or, Decidable.not_not] at hchk
                  obtain ⟨h1, h2, h3, h4⟩ := hchk
                  simp only [Bool.or_eq_true, Bool.not_eq_true', not_or, Bool.not_eq_false] at hcont
                  obtain ⟨⟨c1, c2⟩, c3⟩ := hcont
                  refine ⟨row, linked, inherited, hrow, hl, h1, h2, h3, ?_, ⟨rp, hrp, by simpa using hrpa⟩, hin, c1, c2, c3,
                    by simpa using h.symm⟩
                  cases hm : linked.mayRedelegate with
                  | true => rfl
                  | false => exact absurd hm h4

/-! ## what `resolve` puts into `candidates` -/

theorem mem_grantsFor (w : World) (space pid : String) (groups : List String) (g : GrantRow)
    (h : g ∈ w.grantsFor space pid groups) :
    g ∈ w.grants ∧ g.status = "active" ∧ g.spaceId = space ∧ (g.granteePrincipal = pid ∨ g.granteeGroup ∈ groups) := by
  unfold World.grantsFor at h
  rcases List.mem_append.mp h with h | h
  · simp [List.mem_filter] at h
    exact ⟨h.1, h.2.2, h.2.1.1, Or.inl h.2.1.2⟩
  · simp only [List.mem_flatMap, List.mem_filter] at h
    obtain ⟨grp, hgrp, hg, hcond⟩ := h
    simp at hcond
    exact ⟨hg, hcond.2, hcond.1.1, Or.inr (hcond.1.2 ▸ hgrp)⟩

theorem mem_delegationsTo (w : World) (space pid : String) (d : DelegationRow)
    (h : d ∈ w.delegationsTo space pid) :
    d ∈ w.delegations ∧ d.status = "active" ∧ d.spaceId = space ∧ d.delegate = pid := by
  simp [World.delegationsTo, List.mem_filter] at h
  exact ⟨h.1, h.2.2, h.2.1.1, h.2.1.2⟩

/-- Every candidate of a resolved Principal is a live Grant to it (or to one of its groups) in this Space,
or a live Delegation to it in this Space. -/
theorem mem_candidatesOf (w : World) (sp : SpaceRow) (fuel : Nat) (pid : String) (live : Bool)
    (cs : List Candidate) (h : candidatesOf w sp (resolveDelegation w sp fuel) pid live = .ok cs) (c : Candidate)
    (hc : c ∈ cs) :
    live = true ∧
    ((∃ g ∈ w.grants, g.status = "active" ∧ g.spaceId = sp.id ∧
        (g.granteePrincipal = pid ∨ g.granteeGroup ∈ w.groupsOf pid) ∧ c = candidateOfGrant g) ∨
     (∃ d ∈ w.delegations, d.status = "active" ∧ d.spaceId = sp.id ∧ d.delegate = pid ∧
        resolveDelegation w sp fuel d = .ok (some c))) := by
  unfold candidatesOf at h
  cases live with
  | false => simp at h; subst h; simp at hc
  | true =>
    simp only [if_true] at h
    split at h
    · simp at h
    · rename_i ds hds
      simp at h; subst h
      refine ⟨rfl, ?_⟩
      rcases List.mem_append.mp hc with hc | hc
      · left
        obtain ⟨g, hg, rfl⟩ := List.mem_map.mp hc
        obtain ⟨h1, h2, h3, h4⟩ := mem_grantsFor w sp.id pid _ g hg
        exact ⟨g, h1, h2, h3, h4, rfl⟩
      · right
        obtain ⟨d, hd, hfd⟩ := collectCandidates_mem _ _ _ hds c hc
        obtain ⟨h1, h2, h3, h4⟩ := mem_delegationsTo w sp.id pid d hd
        exact ⟨d, h1, h2, h3, h4, hfd⟩

theorem walkChain_mem (w : World) (space : String) :
    ∀ (chain : List String) (prev last : Option DelegationRow), walkChain w space prev chain = .ok last →
      ∀ l, last = some l → (l ∈ w.delegations ∧ l.status = "active") ∨ prev = some l
  | [], prev, last, h, l, hl => by
    simp [walkChain] at h; subst h; exact Or.inr hl
  | id :: rest, prev, last, h, l, hl => by
    unfold walkChain at h
    split at h
    · simp at h
    · split at h
      · simp at h
      · rename_i row hrow
        have hmem : row ∈ w.delegations := List.mem_of_find?_eq_some hrow
        split at h
        · simp at h
        · rename_i hst
          have hact : row.status = "active" := by
            simp only [not_or, Decidable.not_not] at hst; exact hst.1
          split at h
          · split at h
            · simp at h
            · split at h
              · simp at h
              · rcases walkChain_mem w space rest (some row) last h l hl with hm | hm
                · exact Or.inl hm
                · cases hm; exact Or.inl ⟨hmem, hact⟩
          · rcases walkChain_mem w space rest (some row) last h l hl with hm | hm
            · exact Or.inl hm
            · cases hm; exact Or.inl ⟨hmem, hact⟩

/-- A named chain contributes Delegation candidates only, each resolved from a row of the collection. -/
theorem mem_resolveNamedChain (w : World) (sp : SpaceRow) (pid : String) (chain : List String) (fuel : Nat)
    (cs : List Candidate) (h : resolveNamedChain w sp pid chain fuel = .ok cs) (c : Candidate) (hc : c ∈ cs) :
    ∃ d ∈ w.delegations, d.status = "active" ∧ resolveDelegation w sp fuel d = .ok (some c) := by
  unfold resolveNamedChain at h
  split at h
  · simp at h
  · simp at h; subst h; simp at hc
  · rename_i last hwalk
    have hmem : last ∈ w.delegations ∧ last.status = "active" := by
      rcases walkChain_mem w sp.id chain none (some last) hwalk last rfl with hm | hm
      · exact hm
      · cases hm
    split at h
    · simp at h
    · split at h
      · simp at h
      · simp at h; subst h; simp at hc
      · rename_i c0 hr
        simp at h; subst h
        simp at hc; subst hc
        exact ⟨last, hmem.1, hmem.2, hr⟩

/-- Whoever made a Delegation that resolves to a candidate is a registered, active Principal: for a direct
Delegation because a Principal that is not live holds no candidate and owns nothing, for a re-delegation
because the branch checks it. -/
theorem resolveDelegation_delegator_active (w : World) (sp : SpaceRow) :
    ∀ (fuel : Nat) (d : DelegationRow) (c : Candidate), resolveDelegation w sp fuel d = .ok (some c) →
      ∃ p, w.findPrincipal d.delegator = some p ∧ p.status = "active"
  | 0, d, c, h => by simp [resolveDelegation] at h
  | fuel + 1, d, c, h => by
    by_cases hp : d.parent = ""
    · obtain ⟨p, cands, hfp, hheld, _, hne⟩ := resolveDelegation_direct w sp fuel d c hp h
      refine ⟨p, hfp, ?_⟩
      by_cases hact : p.status = "active"
      · exact hact
      · exfalso
        have hc : cands = [] := by
          simp [candidatesOf, hact] at hheld
          exact hheld
        subst hc
        have : (d.actions.filter (conferrable { isOwner := decide (p.status = "active") && isOwnerOf sp d.delegator, candidates := [] }
            d.scope d.conditions d.constraints)) = [] := by
          apply List.filter_eq_nil_iff.mpr
          intro x _
          simp [conferrable, hact]
        rw [this] at hne
        simp at hne
    · obtain ⟨_, _, _, _, _, _, _, _, _, hrp, _⟩ := resolveDelegation_linked w sp fuel d c hp h
      exact hrp

/-- What `resolve` returns, member by member. -/
theorem resolve_ok (w : World) (space : String) (a : Auth) (ea : EA) (h : resolve w space a = .ok ea) :
    ∃ sp p, w.findSpace space = some sp ∧ w.findPrincipal a.principalId = some p ∧
      ea.principalStatus = p.status ∧ ea.principalId = p.id ∧ ea.spaceStatus = sp.status ∧
      ea.isOwner = (decide (p.status = "active") && isOwnerOf sp a.principalId) ∧
      (a.delegationChain = [] →
        candidatesOf w sp (resolveDelegation w sp maxDelegationDepth) a.principalId (p.status = "active") = .ok ea.candidates) ∧
      (a.delegationChain ≠ [] → p.status = "active" →
        resolveNamedChain w sp a.principalId a.delegationChain maxDelegationDepth = .ok ea.candidates) ∧
      (p.status ≠ "active" → ea.candidates = []) := by
  unfold resolve at h
  split at h
  · simp at h
  · rename_i sp hsp
    split at h
    · simp at h
    · rename_i p hp
      try dsimp only at h
      split at h
      · simp at h
      · rename_i cs hcs
        simp at h
        subst h
        refine ⟨sp, p, hsp, hp, rfl, rfl, rfl, rfl, ?_, ?_, ?_⟩
        · intro hch
          simpa [hch] using hcs
        · intro hch hact
          have : a.delegationChain.isEmpty = false := by simpa using hch
          simpa [this, hact] using hcs
        · intro hna
          by_cases hch : a.delegationChain.isEmpty = true
          · simp [hch, candidatesOf, hna] at hcs
            simpa using hcs
          · simp [hch, hna] at hcs
            simpa using hcs

/-! ## the control-plane operations -/

theorem revokeGrant_grants (w : World) (row : Nat) (g : GrantRow) (h : g ∈ (w.revokeGrant row).grants)
    (hact : g.status = "active") : g.rowId ≠ row := by
  simp only [World.revokeGrant, List.mem_map] at h
  obtain ⟨g0, _, hg⟩ := h
  intro heq
  by_cases hr : g0.rowId = row
  · simp [hr] at hg; subst hg; simp at hact
  · simp [hr] at hg; subst hg; exact hr heq

theorem revokeDelegation_delegations (w : World) (row : Nat) (d : DelegationRow)
    (h : d ∈ (w.revokeDelegation row).delegations) (hact : d.status = "active") : d.rowId ≠ row := by
  simp only [World.revokeDelegation, List.mem_map] at h
  obtain ⟨d0, _, hd⟩ := h
  intro heq
  by_cases hr : d0.rowId = row
  · simp [hr] at hd; subst hd; simp at hact
  · simp [hr] at hd; subst hd; exact hr heq

theorem find?_map_status (ps : List PrincipalRow) (id st : String) (p : PrincipalRow)
    (h : (ps.map (fun p => if p.id = id then { p with status := st } else p)).find? (fun p => p.id = id) = some p) :
    p.status = st := by
  have hid : p.id = id := by simpa using List.find?_some h
  have hmem := List.mem_of_find?_eq_some h
  obtain ⟨p0, _, hp0⟩ := List.mem_map.mp hmem
  by_cases hp : p0.id = id
  · simp [hp] at hp0; subst hp0; rfl
  · simp [hp] at hp0; subst hp0; exact absurd hid hp

/-! ## the policy in force -/

def pickLatest (best : Option PolicyRow) (p : PolicyRow) : Option PolicyRow :=
  match best with
  | none => some p
  | some b => if b.version ≤ p.version then some p else some b

theorem activePolicy_eq (w : World) (pid : String) :
    w.activePolicy pid = (w.policies.filter (fun p => p.policyId = pid)).foldl pickLatest none := rfl

theorem foldl_pickLatest_ge (l : List PolicyRow) :
    ∀ (init : Option PolicyRow) (b : PolicyRow), l.foldl pickLatest init = some b →
      (∀ i, init = some i → i.version ≤ b.version) ∧ ∀ p ∈ l, p.version ≤ b.version := by
  induction l with
  | nil => intro init b h; simp at h; subst h; exact ⟨fun i hi => by cases hi; exact Nat.le_refl _, by simp⟩
  | cons x xs ih =>
    intro init b h
    simp only [List.foldl_cons] at h
    obtain ⟨h1, h2⟩ := ih _ b h
    refine ⟨?_, ?_⟩
    · intro i hi
      subst hi
      simp only [pickLatest] at h1
      by_cases hv : i.version ≤ x.version
      · simp [hv] at h1; omega
      · simp [hv] at h1; exact h1
    · intro p hp
      rcases List.mem_cons.mp hp with rfl | hp'
      · cases init with
        | none => simp [pickLatest] at h1; exact h1
        | some i =>
          simp only [pickLatest] at h1
          by_cases hv : i.version ≤ p.version
          · simp [hv] at h1; exact h1
          · simp [hv] at h1; omega
      · exact h2 p hp'

/-- Publishing appends the next version, and the version in force is the one just published. -/
theorem activePolicy_publish (w : World) (pid : String) (sts : List Statement) :
    ∃ v, (w.publishPolicy pid sts).activePolicy pid = some { policyId := pid, version := v, statements := sts } := by
  unfold World.publishPolicy
  simp only [activePolicy_eq, List.filter_append, List.foldl_append]
  cases hb : w.activePolicy pid with
  | none =>
    rw [activePolicy_eq] at hb
    simp [hb, pickLatest]
  | some b =>
    rw [activePolicy_eq] at hb
    simp [hb, pickLatest]

theorem resolve_statements (w : World) (space : String) (a : Auth) (ea : EA) (h : resolve w space a = .ok ea) :
    ∃ sp, w.findSpace space = some sp ∧
      ea.statements = (((if sp.defaultPolicyId = "" then none else w.activePolicy sp.defaultPolicyId)).map (·.statements)).getD [] := by
  unfold resolve at h
  split at h
  · simp at h
  · rename_i sp hsp
    split at h
    · simp at h
    · try dsimp only at h
      split at h
      · simp at h
      · simp at h
        subst h
        exact ⟨sp, hsp, rfl⟩

end AndaVerif.Authz
