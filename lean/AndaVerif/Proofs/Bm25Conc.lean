import AndaVerif.Model.Bm25Conc
import AndaVerif.Proofs.Bm25History
/-
L3 of C11: invariants of the interleaving model `Model/Bm25Conc` that hold under **every** schedule.
-/
namespace AndaVerif
namespace Bm25Conc

open Bm25

/-! ### maps -/

theorem get?_setKey {α : Type} (m : List (Nat × α)) (k : Nat) (v : α) (k' : Nat) :
    get? (setKey m k v) k' = if k = k' then some v else get? m k' := by
  induction m with
  | nil => simp only [setKey, get?]
  | cons p m ih =>
    obtain ⟨a, b⟩ := p
    unfold setKey
    by_cases ha : a = k
    · subst ha
      simp only [if_true, get?]
      by_cases h : a = k' <;> simp [h]
    · simp only [ha, if_false, get?]
      by_cases h : a = k'
      · subst h
        have : ¬ k = a := fun e => ha e.symm
        simp [this]
      · simp [h, ih]

theorem get?_eraseKey {α : Type} (m : List (Nat × α)) (k k' : Nat) :
    get? (eraseKey m k) k' = if k = k' then none else get? m k' := by
  induction m with
  | nil => simp [eraseKey, get?]
  | cons p m ih =>
    obtain ⟨a, b⟩ := p
    unfold eraseKey at ih ⊢
    by_cases ha : a = k
    · subst ha
      simp only [List.filter_cons, bne_self_eq_false, Bool.false_eq_true, if_false, ih, get?]
      by_cases h : a = k' <;> simp [h]
    · have hb : (a != k) = true := by simp [ha]
      simp only [List.filter_cons, hb, if_true, get?, ih]
      by_cases h : a = k'
      · subst h
        have : ¬ k = a := fun e => ha e.symm
        simp [this]
      · simp [h]

theorem get?_append_single {α : Type} (m : List (Nat × α)) (k : Nat) (v : α) (k' : Nat) :
    get? (m ++ [(k, v)]) k' = match get? m k' with
      | some x => some x
      | none => if k = k' then some v else none := by
  induction m with
  | nil => simp [get?]
  | cons p m ih =>
    obtain ⟨a, b⟩ := p
    simp only [List.cons_append, get?]
    by_cases h : a = k'
    · simp [h]
    · simp [h, ih]

/-! ### what a posting holds for one document -/

/-- the entries listed under token `t` -/
def ent (ps : List (Nat × PostC)) (t : Nat) : Entries :=
  match get? ps t with
  | some p => p.entries
  | none => []

/-- the entries of document `i` under token `t` -/
def slice (ps : List (Nat × PostC)) (t i : Nat) : Entries := (ent ps t).filter (fun e => e.1 == i)

theorem ent_setKey_entries (ps : List (Nat × PostC)) (t : Nat) (p : PostC) (t' : Nat) :
    ent (setKey ps t p) t' = if t = t' then p.entries else ent ps t' := by
  unfold ent; rw [get?_setKey]; by_cases h : t = t' <;> simp [h]

theorem ent_setKey_bucket (ps : List (Nat × PostC)) (t : Nat) (p : PostC) (b : Nat) (hp : get? ps t = some p) (t' : Nat) :
    ent (setKey ps t { p with bucket := b }) t' = ent ps t' := by
  rw [ent_setKey_entries]
  by_cases h : t = t'
  · subst h; simp [ent, hp]
  · simp [h]

theorem ent_eraseKey_empty (ps : List (Nat × PostC)) (t : Nat) (p : PostC) (hp : get? ps t = some p)
    (he : p.entries = []) (t' : Nat) : ent (eraseKey ps t) t' = ent ps t' := by
  unfold ent; rw [get?_eraseKey]
  by_cases h : t = t'
  · subst h; simp [hp, he]
  · simp [h]

theorem ent_append_new (ps : List (Nat × PostC)) (t : Nat) (p : PostC) (hn : get? ps t = none) (t' : Nat) :
    ent (ps ++ [(t, p)]) t' = if t = t' then p.entries else ent ps t' := by
  unfold ent; rw [get?_append_single]
  by_cases h : t = t'
  · subst h; simp [hn]
  · cases get? ps t' <;> simp [h]

/-! ### frame: what an action leaves alone -/

/-- document `i` is untouched between `s` and `s'`: same length entry, same entries under every token -/
def Frame (i : Nat) (s s' : Shared) : Prop :=
  get? s'.docTokens i = get? s.docTokens i ∧ ∀ t, slice s'.postings t i = slice s.postings t i

theorem Frame.refl (i : Nat) (s : Shared) : Frame i s s := ⟨rfl, fun _ => rfl⟩

theorem Frame.trans {i : Nat} {a b c : Shared} (h1 : Frame i a b) (h2 : Frame i b c) : Frame i a c :=
  ⟨h2.1.trans h1.1, fun t => (h2.2 t).trans (h1.2 t)⟩

theorem Frame.of_eq {i : Nat} {s s' : Shared} (hd : s'.docTokens = s.docTokens) (hp : s'.postings = s.postings) :
    Frame i s s' := ⟨by rw [hd], fun t => by rw [hp]⟩

theorem Frame.of_ent {i : Nat} {s s' : Shared} (hd : s'.docTokens = s.docTokens)
    (hp : ∀ t, ent s'.postings t = ent s.postings t) : Frame i s s' :=
  ⟨by rw [hd], fun t => by unfold slice; rw [hp t]⟩

def ownIds : Kind → List Nat
  | .insert id _ => [id]
  | .remove id _ => [id]
  | .purge ids => ids
  | .compact => []

theorem ent_insertPosting (s : Shared) (snap id t f : Nat) (t' : Nat) :
    ent (insertPosting s snap id t f).1.postings t'
      = if t = t' then (if (ent s.postings t).contains (id, f) then ent s.postings t else ent s.postings t ++ [(id, f)])
        else ent s.postings t' := by
  unfold insertPosting
  cases hp : get? s.postings t with
  | some p =>
    simp only []
    rw [ent_setKey_entries]
    by_cases h : t = t'
    · subst h; simp [ent, hp]
    · simp [h]
  | none =>
    simp only []
    rw [ent_append_new _ _ _ hp]
    by_cases h : t = t'
    · subst h; simp [ent, hp]
    · simp [h]

theorem docs_insertPosting (s : Shared) (snap id t f : Nat) :
    (insertPosting s snap id t f).1.docTokens = s.docTokens := by
  unfold insertPosting; cases get? s.postings t <;> rfl

theorem frame_insertPosting (s : Shared) (snap id t f i : Nat) (hi : i ≠ id) :
    Frame i s (insertPosting s snap id t f).1 := by
  refine ⟨by rw [docs_insertPosting], fun t' => ?_⟩
  unfold slice
  rw [ent_insertPosting]
  by_cases h : t = t'
  · subst h
    simp only [if_true]
    split
    · rfl
    · have : ((id, f).1 == i) = false := by simp [Ne.symm hi]
      simp [List.filter_append, List.filter_cons, this]
  · simp [h]

theorem stepInsert_kind {s s' : Shared} {th th' : Thread} {id : Nat} {tf : List (Nat × Nat)}
    (h : stepInsert s th id tf = some (s', th')) : th'.kind = th.kind := by
  unfold stepInsert at h
  split at h
  all_goals (try (simp only [enterShared] at h))
  all_goals (repeat' (split at h))
  all_goals (first | (cases h; done) | (simp only [Option.some.injEq, Prod.mk.injEq] at h; obtain ⟨_, rfl⟩ := h; rfl) | skip)

theorem get?_append_other {α : Type} (m : List (Nat × α)) (k : Nat) (v : α) (k' : Nat) (h : k' ≠ k) :
    get? (m ++ [(k, v)]) k' = get? m k' := by
  rw [get?_append_single]
  have : ¬ k = k' := fun e => h e.symm
  cases get? m k' <;> simp [this]

theorem frame_docs_append (s : Shared) (id n i : Nat) (hi : i ≠ id) (s' : Shared)
    (hd : s'.docTokens = s.docTokens ++ [(id, n)]) (hp : s'.postings = s.postings) : Frame i s s' :=
  ⟨by rw [hd, get?_append_other _ _ _ _ hi], fun t => by rw [hp]⟩

theorem frame_setBucket (s : Shared) (t b i : Nat) (s' : Shared) (hd : s'.docTokens = s.docTokens)
    (hp : s'.postings = match get? s.postings t with
      | some p => setKey s.postings t { p with bucket := b }
      | none => s.postings) : Frame i s s' := by
  refine Frame.of_ent hd (fun t' => ?_)
  rw [hp]
  cases hg : get? s.postings t with
  | some p => exact ent_setKey_bucket _ _ _ _ hg t'
  | none => rfl

theorem stepInsert_frame {s s' : Shared} {th th' : Thread} {id : Nat} {tf : List (Nat × Nat)}
    (h : stepInsert s th id tf = some (s', th')) (i : Nat) (hi : i ≠ id) : Frame i s s' := by
  unfold stepInsert at h
  split at h
  · -- gate
    cases hw : s.writer with
    | true => simp [enterShared, hw] at h
    | false =>
      simp only [enterShared, hw, Bool.false_eq_true, if_false] at h
      split at h
      · cases h; exact Frame.of_eq rfl rfl
      · split at h
        · cases h; exact Frame.of_eq rfl rfl
        · cases h; exact frame_docs_append _ id _ i hi _ rfl rfl
  · -- posting
    split at h
    · cases h
    · cases h; exact frame_insertPosting _ _ _ _ _ i hi
  · -- bucket
    split at h
    · cases h
    · cases h; exact Frame.of_eq rfl rfl
  · cases h; exact Frame.of_eq rfl rfl
  · -- migrateToken
    split at h
    · cases h
    · cases h; exact frame_setBucket _ _ _ i _ rfl rfl
  · -- migratePlace
    split at h
    · cases h
    · by_cases hacc : accepts s.zero (bucketOr s th.n1) = true
      · simp only [hacc, if_true] at h
        cases h; exact Frame.of_eq rfl rfl
      · simp only [hacc] at h
        cases h; exact frame_setBucket _ _ _ i _ rfl rfl
  · cases h; exact Frame.of_eq rfl rfl
  · cases h

theorem frame_docs_erase (s : Shared) (id i : Nat) (hi : i ≠ id) (s' : Shared)
    (hd : s'.docTokens = eraseKey s.docTokens id) (hp : s'.postings = s.postings) : Frame i s s' := by
  refine ⟨?_, fun t => by rw [hp]⟩
  rw [hd, get?_eraseKey]
  have : ¬ id = i := fun e => hi e.symm
  simp [this]

theorem frame_setEntries (s : Shared) (t : Nat) (p : PostC) (es : Entries) (i : Nat) (s' : Shared)
    (hg : get? s.postings t = some p) (hd : s'.docTokens = s.docTokens)
    (hp : s'.postings = setKey s.postings t { p with entries := es })
    (hs : es.filter (fun e => e.1 == i) = p.entries.filter (fun e => e.1 == i)) : Frame i s s' := by
  refine ⟨by rw [hd], fun t' => ?_⟩
  unfold slice
  rw [hp, ent_setKey_entries]
  by_cases h : t = t'
  · subst h; simp [ent, hg, hs]
  · simp [h]

theorem filter_dropDoc_other (es : Entries) (id i : Nat) (hi : i ≠ id) :
    (dropDoc es id).filter (fun e => e.1 == i) = es.filter (fun e => e.1 == i) := by
  unfold dropDoc
  induction es with
  | nil => rfl
  | cons e es ih =>
    by_cases h : e.1 = id
    · have h2 : (id == i) = false := by
        have : id ≠ i := fun e' => hi e'.symm
        simp [this]
      simp only [List.filter_cons, h, bne_self_eq_false, Bool.false_eq_true, if_false, h2]
      exact ih
    · have h1 : (e.1 != id) = true := by simp [h]
      simp only [List.filter_cons, h1, if_true]
      rw [ih]

theorem frame_dropEmpty (s : Shared) (t i : Nat) (p : PostC) (s' : Shared) (hg : get? s.postings t = some p)
    (he : p.entries.isEmpty = true) (hd : s'.docTokens = s.docTokens) (hp : s'.postings = eraseKey s.postings t) :
    Frame i s s' := by
  refine Frame.of_ent hd (fun t' => ?_)
  rw [hp]
  exact ent_eraseKey_empty _ _ _ hg (by simpa using he) t'

theorem stepRemove_frame {s s' : Shared} {th th' : Thread} {id : Nat} {tf : List (Nat × Nat)}
    (h : stepRemove s th id tf = some (s', th')) (i : Nat) (hi : i ≠ id) : Frame i s s' := by
  unfold stepRemove at h
  split at h
  · -- gate
    cases hw : s.writer with
    | true => simp [enterShared, hw] at h
    | false =>
      simp only [enterShared, hw, Bool.false_eq_true, if_false] at h
      cases hg : get? s.docTokens id with
      | none => simp only [hg] at h; cases h; exact Frame.of_eq rfl rfl
      | some n => simp only [hg] at h; cases h; exact frame_docs_erase _ id i hi _ rfl rfl
  · -- posting
    split at h
    · cases h
    · simp only [] at h
      split at h
      · cases h; exact Frame.refl _ _
      · rename_i p hg
        split at h
        · cases h; exact Frame.refl _ _
        · cases h
          exact frame_setEntries _ _ p _ i _ hg rfl rfl (filter_dropDoc_other _ _ _ hi)
  · -- dropEmpty
    split at h
    · cases h
    · simp only [] at h
      split at h
      · rename_i p hg
        split at h
        · rename_i he
          cases h; exact frame_dropEmpty _ _ i p _ hg he rfl rfl
        · cases h; exact Frame.refl _ _
      · cases h; exact Frame.refl _ _
  · -- bucket
    split at h
    · cases h
    · simp only [] at h
      split at h
      · cases h; exact Frame.refl _ _
      · cases h; exact Frame.of_eq rfl rfl
  · cases h; exact Frame.refl _ _
  · -- staleBucket
    split at h
    · cases h
    · simp only [] at h
      split at h
      · split at h
        · cases h; exact Frame.of_eq rfl rfl
        · cases h; exact Frame.refl _ _
      · cases h; exact Frame.refl _ _
  · -- mstep
    cases h
    split <;> exact Frame.of_eq rfl rfl
  · cases h

/-! ### purge -/

theorem get?_sweepAll (ids : List Nat) : ∀ (ps : List (Nat × PostC)) (t : Nat),
    ent (sweepAll ids ps).1 t = (ent ps t).filter (fun e => !ids.contains e.1)
  | [], t => by simp [sweepAll, ent, get?]
  | (k, p) :: r, t => by
    have ih := get?_sweepAll ids r t
    unfold sweepAll
    simp only []
    by_cases hl : (p.entries.filter (fun e => !ids.contains e.1)).length = p.entries.length
    · simp only [hl, if_true]
      unfold ent at ih ⊢
      simp only [get?]
      by_cases hk : k = t
      · simp only [hk, if_true]
        exact (filter_length_eq hl).symm
      · simp only [hk, if_false]; exact ih
    · simp only [hl, if_false]
      unfold ent at ih ⊢
      simp only [get?]
      by_cases hk : k = t
      · simp [hk]
      · simp only [hk, if_false]; exact ih

theorem frame_sweep (s : Shared) (ids : List Nat) (i : Nat) (hi : i ∉ ids) (s' : Shared)
    (hd : s'.docTokens = s.docTokens) (hp : s'.postings = (sweepAll ids s.postings).1) : Frame i s s' := by
  refine ⟨by rw [hd], fun t => ?_⟩
  unfold slice
  rw [hp, get?_sweepAll, List.filter_filter]
  apply List.filter_congr
  intro e _
  by_cases h : e.1 = i
  · have : e.1 ∉ ids := h ▸ hi
    simp [h, this]
    exact h ▸ hi
  · simp [h]

theorem mem_of_getElem? {l : List Nat} {j x : Nat} (h : l[j]? = some x) : x ∈ l :=
  List.mem_of_getElem? h

theorem stepPurge_frame {s s' : Shared} {th th' : Thread} {ids : List Nat}
    (h : stepPurge s th ids = some (s', th')) (i : Nat) (hi : i ∉ ids) : Frame i s s' := by
  unfold stepPurge at h
  split at h
  · -- gate
    cases hw : s.writer with
    | true => simp [enterShared, hw] at h
    | false =>
      simp only [enterShared, hw, Bool.false_eq_true, if_false] at h
      cases h; exact Frame.of_eq rfl rfl
  · -- doc
    split at h
    · cases h
    · rename_i id hid
      have hne : i ≠ id := fun e => hi (e ▸ mem_of_getElem? hid)
      cases hg : get? s.docTokens id with
      | none =>
        simp only [hg] at h
        split at h
        · cases h; exact Frame.refl _ _
        · cases h; exact Frame.of_eq rfl rfl
      | some n =>
        simp only [hg] at h
        split at h
        · cases h; exact frame_docs_erase _ id i hne _ rfl rfl
        · cases h; exact frame_docs_erase _ id i hne _ rfl rfl
  · -- sweep
    simp only [] at h
    cases h
    exact frame_sweep _ ids i hi _ rfl rfl
  · -- dropEmpty
    split at h
    · cases h
    · simp only [] at h
      split at h
      · rename_i p hg
        split at h
        · rename_i he
          cases h; exact frame_dropEmpty _ _ i p _ hg he rfl rfl
        · cases h; exact Frame.refl _ _
      · cases h; exact Frame.refl _ _
  · -- bucket
    split at h
    · cases h
    · simp only [] at h
      split at h
      · cases h; exact Frame.of_eq rfl rfl
      · cases h; exact Frame.refl _ _
  · -- unlist
    split at h
    · cases h
    · simp only [] at h
      split at h
      · split at h
        · cases h; exact Frame.of_eq rfl rfl
        · cases h; exact Frame.refl _ _
      · cases h; exact Frame.refl _ _
  · cases h; exact Frame.refl _ _
  · -- staleBucket
    split at h
    · cases h
    · simp only [] at h
      split at h
      · cases h; exact Frame.of_eq rfl rfl
      · cases h; exact Frame.refl _ _
  · -- mstep
    cases h
    split <;> exact Frame.of_eq rfl rfl
  · cases h

/-! ### compaction -/

theorem ent_setBucketOf (b : Nat) : ∀ (toks : List Nat) (ps : List (Nat × PostC)) (t : Nat),
    ent (setBucketOf ps b toks) t = ent ps t
  | [], _, _ => rfl
  | x :: xs, ps, t => by
    unfold setBucketOf
    cases hg : get? ps x with
    | some p =>
      simp only []
      rw [ent_setBucketOf b xs, ent_setKey_bucket _ _ _ _ hg]
    | none => simp only []; exact ent_setBucketOf b xs ps t

theorem stepCompact_frame {s s' : Shared} {th th' : Thread}
    (h : stepCompact s th = some (s', th')) (i : Nat) : Frame i s s' := by
  unfold stepCompact at h
  split at h
  · -- gate
    simp only [enterExcl] at h
    cases hw : (s.writer || s.readers != 0) with
    | true => simp [hw] at h
    | false =>
      simp only [hw, Bool.false_eq_true, if_false] at h
      by_cases h1 : s.buckets.length ≤ 1
      · simp only [h1, if_true] at h
        cases h; exact Frame.of_eq rfl rfl
      · simp only [h1, if_false] at h
        by_cases h2 : s.postings.isEmpty = true
        · simp only [h2, if_true] at h
          cases h; exact Frame.of_eq rfl rfl
        · simp only [h2] at h
          cases h; exact Frame.of_eq rfl rfl
  · cases h; exact Frame.of_eq rfl rfl
  · -- cbucket
    split at h
    · cases h
    · simp only [] at h
      split at h
      · cases h; exact Frame.of_ent rfl (fun t => ent_setBucketOf _ _ _ t)
      · cases h; exact Frame.of_ent rfl (fun t => ent_setBucketOf _ _ _ t)
  · cases h

/-- **Frame**: an atomic action of a thread leaves every document that is not its own exactly as it
was — its length entry and its entries under every token. -/
theorem stepThread_frame {s s' : Shared} {th th' : Thread} (h : stepThread s th = some (s', th'))
    (i : Nat) (hi : i ∉ ownIds th.kind) : Frame i s s' := by
  unfold stepThread at h
  cases hk : th.kind with
  | insert id tf => rw [hk] at h hi; exact stepInsert_frame h i (by simpa [ownIds] using hi)
  | remove id tf => rw [hk] at h hi; exact stepRemove_frame h i (by simpa [ownIds] using hi)
  | purge ids => rw [hk] at h hi; exact stepPurge_frame h i (by simpa [ownIds] using hi)
  | compact => rw [hk] at h; exact stepCompact_frame h i

/-! ### threads keep their operation -/

theorem stepRemove_kind {s s' : Shared} {th th' : Thread} {id : Nat} {tf : List (Nat × Nat)}
    (h : stepRemove s th id tf = some (s', th')) : th'.kind = th.kind := by
  unfold stepRemove at h
  split at h
  all_goals (try (simp only [enterShared] at h))
  all_goals (repeat' (split at h))
  all_goals (first | (cases h; done) | (simp only [Option.some.injEq, Prod.mk.injEq] at h; obtain ⟨_, rfl⟩ := h; rfl) | skip)

theorem stepPurge_kind {s s' : Shared} {th th' : Thread} {ids : List Nat}
    (h : stepPurge s th ids = some (s', th')) : th'.kind = th.kind := by
  unfold stepPurge at h
  split at h
  all_goals (try (simp only [enterShared] at h))
  all_goals (repeat' (split at h))
  all_goals (first | (cases h; done) | (simp only [Option.some.injEq, Prod.mk.injEq] at h; obtain ⟨_, rfl⟩ := h; rfl) | skip)

theorem stepCompact_kind {s s' : Shared} {th th' : Thread}
    (h : stepCompact s th = some (s', th')) : th'.kind = th.kind := by
  unfold stepCompact at h
  split at h
  all_goals (try (simp only [enterExcl] at h))
  all_goals (repeat' (split at h))
  all_goals (first | (cases h; done) | (simp only [Option.some.injEq, Prod.mk.injEq] at h; obtain ⟨_, rfl⟩ := h; rfl) | skip)

theorem stepThread_kind {s s' : Shared} {th th' : Thread} (h : stepThread s th = some (s', th')) :
    th'.kind = th.kind := by
  unfold stepThread at h
  cases hk : th.kind with
  | insert id tf => rw [hk] at h; rw [← hk]; exact stepInsert_kind h
  | remove id tf => rw [hk] at h; rw [← hk]; exact stepRemove_kind h
  | purge ids => rw [hk] at h; rw [← hk]; exact stepPurge_kind h
  | compact => rw [hk] at h; rw [← hk]; exact stepCompact_kind h

/-! ### the system -/

theorem step_inv {t : Nat} {c c' : Cfg} (h : step t c = some c') :
    ∃ th th', c.threads[t]? = some th ∧ stepThread c.sh th = some (c'.sh, th') ∧ c'.threads = c.threads.set t th' := by
  unfold step at h
  cases hth : c.threads[t]? with
  | none => simp [hth] at h
  | some th =>
    simp only [hth] at h
    cases hs : stepThread c.sh th with
    | none => simp [hs] at h
    | some r =>
      obtain ⟨s', th'⟩ := r
      simp only [hs, Option.some.injEq] at h
      subst h
      exact ⟨th, th', rfl, hs, rfl⟩

def kinds (c : Cfg) : List Kind := c.threads.map (·.kind)

theorem set_self {α : Type} : ∀ (l : List α) (i : Nat) (a : α), l[i]? = some a → l.set i a = l
  | [], _, _, h => by simp at h
  | x :: xs, 0, a, h => by simp at h; simp [h]
  | x :: xs, i + 1, a, h => by
    simp only [List.getElem?_cons_succ] at h
    simp [set_self xs i a h]

theorem step_kinds {t : Nat} {c c' : Cfg} (h : step t c = some c') : kinds c' = kinds c := by
  obtain ⟨th, th', hth, hs, hset⟩ := step_inv h
  unfold kinds
  rw [hset, List.map_set, stepThread_kind hs]
  have : (c.threads.map (·.kind))[t]? = some th.kind := by simp [hth]
  exact set_self _ _ _ this

/-- no thread of the configuration works on document `i` -/
def Unowned (i : Nat) (ks : List Kind) : Prop := ∀ k ∈ ks, i ∉ ownIds k

theorem step_frame_unowned {t : Nat} {c c' : Cfg} (h : step t c = some c') (i : Nat)
    (hu : Unowned i (kinds c)) : Frame i c.sh c'.sh := by
  obtain ⟨th, th', hth, hs, _⟩ := step_inv h
  apply stepThread_frame hs i
  apply hu
  unfold kinds
  exact List.mem_map.2 ⟨th, List.mem_of_getElem? hth, rfl⟩

/-- the threads' documents are pairwise different (what the collection's per-id locks guarantee) -/
def DisjointIds (ks : List Kind) : Prop :=
  ∀ (a b : Nat) (ka kb : Kind), a ≠ b → ks[a]? = some ka → ks[b]? = some kb → ∀ i, i ∈ ownIds ka → i ∉ ownIds kb

theorem step_frame_other {t : Nat} {c c' : Cfg} (h : step t c = some c') (hd : DisjointIds (kinds c))
    (k : Nat) (hk : k ≠ t) (thk : Thread) (hthk : c.threads[k]? = some thk) (i : Nat) (hi : i ∈ ownIds thk.kind) :
    Frame i c.sh c'.sh ∧ c'.threads[k]? = some thk := by
  obtain ⟨th, th', hth, hs, hset⟩ := step_inv h
  refine ⟨stepThread_frame hs i ?_, ?_⟩
  · have h1 : (kinds c)[k]? = some thk.kind := by simp [kinds, hthk]
    have h2 : (kinds c)[t]? = some th.kind := by simp [kinds, hth]
    exact hd k t _ _ hk h1 h2 i hi
  · rw [hset, List.getElem?_set_ne (Ne.symm hk)]; exact hthk

/-! ### documents nobody works on -/

theorem run_kinds (sched : List Nat) (c : Cfg) : kinds (run sched c) = kinds c := by
  have := Sched.sched_inv step (fun c' => kinds c' = kinds c)
    (fun t a b ha hs => (step_kinds hs).trans ha) sched c rfl
  exact this

theorem run_untouched (sched : List Nat) (c0 : Cfg) (i : Nat) (hu : Unowned i (kinds c0)) :
    Frame i c0.sh (run sched c0).sh := by
  have := Sched.sched_inv step (fun c => kinds c = kinds c0 ∧ Frame i c0.sh c.sh)
    (fun t a b ha hs => ⟨(step_kinds hs).trans ha.1, ha.2.trans (step_frame_unowned hs i (ha.1 ▸ hu))⟩)
    sched c0 ⟨rfl, Frame.refl _ _⟩
  exact this.2

/-! ### an insert is not lost -/

theorem mem_ent_iff_slice (ps : List (Nat × PostC)) (t i f : Nat) : (i, f) ∈ ent ps t ↔ (i, f) ∈ slice ps t i := by
  unfold slice; simp [List.mem_filter]

/-- the length entry is published and the first `j` tokens have their posting entry -/
def InsUpTo (s : Shared) (id : Nat) (tf : List (Nat × Nat)) (j : Nat) : Prop :=
  get? s.docTokens id = some (sumSnd tf) ∧
    ∀ (j' : Nat) (p : Nat × Nat), j' < j → tf[j']? = some p → (id, p.2) ∈ ent s.postings p.1

/-- the document is there with its length and an entry under every token of its text -/
def InsAll (s : Shared) (id : Nat) (tf : List (Nat × Nat)) : Prop :=
  get? s.docTokens id = some (sumSnd tf) ∧ ∀ p ∈ tf, (id, p.2) ∈ ent s.postings p.1

def InsProg (th : Thread) (id : Nat) (tf : List (Nat × Nat)) (s : Shared) : Prop :=
  match th.pc with
  | .gate => True
  | .posting j => InsUpTo s id tf j
  | .done => th.res = .ok → InsAll s id tf
  | _ => InsAll s id tf

theorem InsUpTo.frame {s s' : Shared} {id : Nat} {tf : List (Nat × Nat)} {j : Nat} (h : InsUpTo s id tf j)
    (hf : Frame id s s') : InsUpTo s' id tf j :=
  ⟨hf.1.trans h.1, fun j' p hj hp => by
    rw [mem_ent_iff_slice, hf.2, ← mem_ent_iff_slice]; exact h.2 j' p hj hp⟩

theorem InsAll.frame {s s' : Shared} {id : Nat} {tf : List (Nat × Nat)} (h : InsAll s id tf)
    (hf : Frame id s s') : InsAll s' id tf :=
  ⟨hf.1.trans h.1, fun p hp => by
    rw [mem_ent_iff_slice, hf.2, ← mem_ent_iff_slice]; exact h.2 p hp⟩

theorem InsProg.frame {th : Thread} {s s' : Shared} {id : Nat} {tf : List (Nat × Nat)} (h : InsProg th id tf s)
    (hf : Frame id s s') : InsProg th id tf s' := by
  unfold InsProg at *
  split
  · trivial
  · rename_i j hpc; rw [hpc] at h; exact InsUpTo.frame h hf
  · rename_i hpc; rw [hpc] at h; exact fun hr => InsAll.frame (h hr) hf
  · rename_i h1 h2 h3
    have : InsAll s id tf := by
      revert h
      split
      · rename_i hpc; exact absurd hpc h1
      · rename_i j hpc; exact absurd hpc (h2 j)
      · rename_i hpc; exact absurd hpc h3
      · exact fun x => x
    exact InsAll.frame this hf

/-- a same-entries step (only buckets, counters or the gate change) -/
theorem InsAll.of_ent {s s' : Shared} {id : Nat} {tf : List (Nat × Nat)} (h : InsAll s id tf)
    (hd : s'.docTokens = s.docTokens) (hp : ∀ t, ent s'.postings t = ent s.postings t) : InsAll s' id tf :=
  ⟨by rw [hd]; exact h.1, fun p hp' => by rw [hp]; exact h.2 p hp'⟩

theorem ent_setBucket_match (s : Shared) (t b : Nat) (t' : Nat) :
    ent (match get? s.postings t with
      | some p => setKey s.postings t { p with bucket := b }
      | none => s.postings) t' = ent s.postings t' := by
  cases hg : get? s.postings t with
  | some p => exact ent_setKey_bucket _ _ _ _ hg t'
  | none => rfl

theorem InsProg.of_all {th : Thread} {s : Shared} {id : Nat} {tf : List (Nat × Nat)} (h : InsAll s id tf)
    (h1 : th.pc ≠ .gate) (h2 : ∀ j, th.pc ≠ .posting j) : InsProg th id tf s := by
  unfold InsProg
  split
  · rename_i hpc; exact absurd hpc h1
  · rename_i j hpc; exact absurd hpc (h2 j)
  · exact fun _ => h
  · exact h

theorem InsProg.to_all {th : Thread} {s : Shared} {id : Nat} {tf : List (Nat × Nat)} (h : InsProg th id tf s)
    (h1 : th.pc ≠ .gate) (h2 : ∀ j, th.pc ≠ .posting j) (h3 : th.pc ≠ .done) : InsAll s id tf := by
  unfold InsProg at h
  revert h
  split
  · rename_i hpc; exact absurd hpc h1
  · rename_i j hpc; exact absurd hpc (h2 j)
  · rename_i hpc; exact absurd hpc h3
  · exact fun x => x

theorem stepInsert_prog {s s' : Shared} {th th' : Thread} {id : Nat} {tf : List (Nat × Nat)}
    (h : stepInsert s th id tf = some (s', th')) (hp : InsProg th id tf s) : InsProg th' id tf s' := by
  unfold stepInsert at h
  split at h
  · -- gate
    cases hw : s.writer with
    | true => simp [enterShared, hw] at h
    | false =>
      simp only [enterShared, hw, Bool.false_eq_true, if_false] at h
      split at h
      · cases h; simp [InsProg]
      · split at h
        · cases h; simp [InsProg]
        · rename_i hlive
          cases h
          simp only [InsProg, InsUpTo]
          refine ⟨?_, fun j' p hj => absurd hj (Nat.not_lt_zero _)⟩
          rw [get?_append_single]
          have : get? s.docTokens id = none := by
            simp only [hasKey, Bool.not_eq_true, Option.isSome_eq_false_iff, Option.isNone_iff_eq_none] at hlive
            exact hlive
          simp [this]
  · -- posting j
    rename_i j hpc
    split at h
    · cases h
    · rename_i t f htf
      simp only [] at h
      cases h
      have hu : InsUpTo s id tf j := by simpa [InsProg, hpc] using hp
      have hd := docs_insertPosting s th.snapBucket id t f
      have hnew : ∀ (j' : Nat) (p : Nat × Nat), j' < j + 1 → tf[j']? = some p →
          (id, p.2) ∈ ent (insertPosting s th.snapBucket id t f).1.postings p.1 := by
        intro j' p hj hp'
        rw [ent_insertPosting]
        by_cases hjj : j' < j
        · have := hu.2 j' p hjj hp'
          by_cases ht : t = p.1
          · subst ht; simp only [if_true]; split
            · exact this
            · exact List.mem_append_left _ this
          · simp [ht, this]
        · have : j' = j := by omega
          subst this
          rw [htf] at hp'
          cases hp'
          simp only [if_true]
          split
          · rename_i hc; simpa using hc
          · simp
      by_cases hlast : j + 1 < tf.length
      · simp only [hlast, if_true, InsProg, InsUpTo]
        exact ⟨by rw [hd]; exact hu.1, hnew⟩
      · simp only [hlast, if_false, InsProg, InsAll]
        refine ⟨by rw [hd]; exact hu.1, fun p hp' => ?_⟩
        obtain ⟨j', hj', hget⟩ := List.mem_iff_getElem.1 hp'
        exact hnew j' p (by omega) (by rw [List.getElem?_eq_getElem hj', hget])
  · -- bucket
    rename_i j hpc
    have ha : InsAll s id tf := hp.to_all (by simp [hpc]) (by simp [hpc]) (by simp [hpc])
    split at h
    · cases h
    · simp only [] at h
      cases h
      refine InsProg.of_all (ha.of_ent rfl (fun _ => rfl)) ?_ ?_
      · simp only []; split <;> (try unfold afterBuckets) <;> (try split) <;> simp
      · intro j'; simp only []; split <;> (try unfold afterBuckets) <;> (try split) <;> simp
  · -- migrate
    rename_i hpc
    have ha : InsAll s id tf := hp.to_all (by simp [hpc]) (by simp [hpc]) (by simp [hpc])
    cases h
    exact InsProg.of_all (ha.of_ent rfl (fun _ => rfl)) (by simp) (by simp)
  · -- migrateToken
    rename_i j hpc
    have ha : InsAll s id tf := hp.to_all (by simp [hpc]) (by simp [hpc]) (by simp [hpc])
    split at h
    · cases h
    · simp only [] at h
      cases h
      exact InsProg.of_all (ha.of_ent rfl (fun t' => ent_setBucket_match _ _ _ t')) (by simp) (by simp)
  · -- migratePlace
    rename_i j hpc
    have ha : InsAll s id tf := hp.to_all (by simp [hpc]) (by simp [hpc]) (by simp [hpc])
    split at h
    · cases h
    · by_cases hacc : accepts s.zero (bucketOr s th.n1) = true
      · simp only [hacc, if_true] at h
        cases h
        refine InsProg.of_all (ha.of_ent rfl (fun _ => rfl)) ?_ ?_
        · simp only []; split <;> simp
        · intro j'; simp only []; split <;> simp
      · simp only [hacc] at h
        cases h
        refine InsProg.of_all (ha.of_ent rfl (fun t' => ent_setBucket_match _ _ _ t')) ?_ ?_
        · simp only []; split <;> simp
        · intro j'; simp only []; split <;> simp
  · -- mstep
    rename_i hpc
    have ha : InsAll s id tf := hp.to_all (by simp [hpc]) (by simp [hpc]) (by simp [hpc])
    cases h
    exact InsProg.of_all (ha.of_ent rfl (fun _ => rfl)) (by simp) (by simp)
  · cases h

/-- every insert thread has got as far as its program counter says -/
def AllIns (c : Cfg) : Prop :=
  ∀ (k : Nat) (th : Thread) (id : Nat) (tf : List (Nat × Nat)),
    c.threads[k]? = some th → th.kind = .insert id tf → InsProg th id tf c.sh

theorem AllIns.step {t : Nat} {c c' : Cfg} (h : step t c = some c') (hd : DisjointIds (kinds c))
    (ha : AllIns c) : AllIns c' := by
  intro k thk id tf hk hkind
  obtain ⟨th, th', hth, hs, hset⟩ := step_inv h
  by_cases hkt : k = t
  · subst hkt
    have hlen : k < c.threads.length := by
      have := List.getElem?_eq_some_iff.1 hth; exact this.1
    rw [hset, List.getElem?_set_self hlen] at hk
    cases hk
    have hkind0 : th.kind = .insert id tf := (stepThread_kind hs) ▸ hkind
    have hp := ha k th id tf hth hkind0
    unfold stepThread at hs
    rw [hkind0] at hs
    exact stepInsert_prog hs hp
  · have hk0 : c.threads[k]? = some thk := by
      rw [hset, List.getElem?_set_ne (Ne.symm hkt)] at hk; exact hk
    have hf := (step_frame_other h hd k hkt thk hk0 id (by rw [hkind]; simp [ownIds])).1
    exact (ha k thk id tf hk0 hkind).frame hf

theorem run_allIns (sched : List Nat) (c0 : Cfg) (hd : DisjointIds (kinds c0)) (h0 : AllIns c0) :
    AllIns (run sched c0) := by
  have := Sched.sched_inv step (fun c => kinds c = kinds c0 ∧ AllIns c)
    (fun t a b ha hs => ⟨(step_kinds hs).trans ha.1, AllIns.step hs (ha.1 ▸ hd) ha.2⟩) sched c0 ⟨rfl, h0⟩
  exact this.2

/-- all threads stand at their `.gate` point -/
def Fresh (c : Cfg) : Prop := ∀ th ∈ c.threads, th.pc = .gate

theorem AllIns.of_fresh {c : Cfg} (h : Fresh c) : AllIns c := by
  intro k th id tf hk _
  have := h th (List.mem_of_getElem? hk)
  simp [InsProg, this]

/-! ### what a query sees -/

theorem get?_map_entries (ps : List (Nat × PostC)) (t : Nat) :
    get? (ps.map (fun p => (p.1, p.2.entries))) t = (get? ps t).map (·.entries) := by
  induction ps with
  | nil => rfl
  | cons p ps ih =>
    obtain ⟨k, v⟩ := p
    simp only [List.map_cons, get?]
    by_cases h : k = t <;> simp [h, ih]

theorem hasEntry_toIndex (s : Shared) (t i : Nat) :
    hasEntry s.toIndex t i = (ent s.postings t).any (fun e => e.1 == i) := by
  unfold hasEntry Shared.toIndex ent
  simp only [get?_map_entries]
  cases get? s.postings t <;> simp

/-- a document with its length entry and an entry under `t` is returned by a term query for `t` -/
theorem mem_termIds_of_ins {s : Shared} {id : Nat} {tf : List (Nat × Nat)} (h : InsAll s id tf)
    (p : Nat × Nat) (hp : p ∈ tf) : id ∈ termIds s.toIndex [p.1] := by
  rw [mem_termIds]
  refine ⟨?_, p.1, by simp, ?_⟩
  · show hasKey s.docTokens id = true
    unfold hasKey; rw [h.1]; rfl
  · rw [hasEntry_toIndex, List.any_eq_true]
    exact ⟨(id, p.2), h.2 p hp, by simp⟩

/-! ### counters -/

/-- what a `purge_ids` thread has taken out of `doc_tokens` but not yet out of `total_tokens` -/
def owedP (th : Thread) : Nat :=
  match th.pc with
  | .doc _ => th.n2
  | _ => 0

def owedT (th : Thread) : Nat :=
  match th.kind with
  | .purge _ => owedP th
  | _ => 0

def owedL : List Thread → Nat
  | [] => 0
  | th :: r => owedT th + owedL r

/-- the shared counters agree up to what purge threads still owe; ids are listed once -/
structure CountInv (c : Cfg) : Prop where
  nodup : (c.sh.docTokens.map (·.1)).Nodup
  total : c.sh.totalTokens = sumSnd c.sh.docTokens + owedL c.threads
  gate0 : ∀ th ∈ c.threads, th.pc = .gate → th.n2 = 0

theorem total_insertPosting (s : Shared) (snap id t f : Nat) :
    (insertPosting s snap id t f).1.totalTokens = s.totalTokens := by
  unfold insertPosting; split <;> rfl

theorem nodup_erase {m : List (Nat × Nat)} (x : Nat) (h : (m.map (·.1)).Nodup) : ((eraseKey m x).map (·.1)).Nodup :=
  h.sublist (List.Sublist.map _ List.filter_sublist)

theorem stepInsert_count {s s' : Shared} {th th' : Thread} {id : Nat} {tf : List (Nat × Nat)}
    (h : stepInsert s th id tf = some (s', th')) (hn : (s.docTokens.map (·.1)).Nodup) :
    (s'.docTokens.map (·.1)).Nodup ∧ th'.pc ≠ .gate ∧
      s'.totalTokens + sumSnd s.docTokens = s.totalTokens + sumSnd s'.docTokens := by
  unfold stepInsert at h
  split at h
  · cases hw : s.writer with
    | true => simp [enterShared, hw] at h
    | false =>
      simp only [enterShared, hw, Bool.false_eq_true, if_false] at h
      split at h
      · cases h; exact ⟨hn, by simp, rfl⟩
      · split at h
        · cases h; exact ⟨hn, by simp, rfl⟩
        · rename_i hlive
          cases h
          refine ⟨?_, by simp, ?_⟩
          · simp only [List.map_append, List.map_cons, List.map_nil]
            refine List.nodup_append.2 ⟨hn, by simp, ?_⟩
            intro a ha b hb hab
            simp at hb; subst hb; subst hab
            exact hlive (hasKey_iff.2 ha)
          · simp only [sumSnd_append, sumSnd]; omega
  · split at h
    · cases h
    · simp only [] at h
      cases h
      refine ⟨by rw [docs_insertPosting]; exact hn, by split <;> simp, ?_⟩
      rw [docs_insertPosting, total_insertPosting]
  · split at h
    · cases h
    · simp only [] at h
      cases h
      refine ⟨hn, ?_, rfl⟩
      simp only []; split <;> (try unfold afterBuckets) <;> (try split) <;> simp
  · cases h; exact ⟨hn, by simp, rfl⟩
  · split at h
    · cases h
    · simp only [] at h; cases h; exact ⟨hn, by simp, rfl⟩
  · split at h
    · cases h
    · by_cases hacc : accepts s.zero (bucketOr s th.n1) = true
      · simp only [hacc, if_true] at h
        cases h; exact ⟨hn, by simp only []; split <;> simp, rfl⟩
      · simp only [hacc] at h
        cases h; exact ⟨hn, by simp only []; split <;> simp, rfl⟩
  · cases h; exact ⟨hn, by simp, rfl⟩
  · cases h

theorem stepRemove_count {s s' : Shared} {th th' : Thread} {id : Nat} {tf : List (Nat × Nat)}
    (h : stepRemove s th id tf = some (s', th')) (hn : (s.docTokens.map (·.1)).Nodup)
    (hge : sumSnd s.docTokens ≤ s.totalTokens) :
    (s'.docTokens.map (·.1)).Nodup ∧ th'.pc ≠ .gate ∧
      s'.totalTokens + sumSnd s.docTokens = s.totalTokens + sumSnd s'.docTokens := by
  unfold stepRemove at h
  split at h
  · cases hw : s.writer with
    | true => simp [enterShared, hw] at h
    | false =>
      simp only [enterShared, hw, Bool.false_eq_true, if_false] at h
      cases hg : get? s.docTokens id with
      | none =>
        simp only [hg] at h; cases h
        exact ⟨hn, by simp only []; split <;> simp, rfl⟩
      | some n =>
        simp only [hg] at h; cases h
        have := sumSnd_eraseKey hn hg
        refine ⟨nodup_erase id hn, by simp only []; split <;> simp, ?_⟩
        simp only []; omega
  · split at h
    · cases h
    · simp only [] at h
      split at h
      · cases h; exact ⟨hn, by simp only []; split <;> (try unfold afterRemovePostings) <;> (repeat' split) <;> simp, rfl⟩
      · split at h
        · cases h; exact ⟨hn, by simp only []; split <;> (try unfold afterRemovePostings) <;> (repeat' split) <;> simp, rfl⟩
        · cases h; exact ⟨hn, by simp only []; split <;> (try unfold afterRemovePostings) <;> (repeat' split) <;> simp, rfl⟩
  · split at h
    · cases h
    · simp only [] at h
      split at h
      · split at h
        · cases h; exact ⟨hn, by simp only []; repeat' split <;> simp, rfl⟩
        · cases h; exact ⟨hn, by simp only []; repeat' split <;> simp, rfl⟩
      · cases h; exact ⟨hn, by simp only []; repeat' split <;> simp, rfl⟩
  · split at h
    · cases h
    · simp only [] at h
      split at h
      · cases h; exact ⟨hn, by simp only []; split <;> simp, rfl⟩
      · cases h; exact ⟨hn, by simp only []; split <;> simp, rfl⟩
  · cases h; exact ⟨hn, by simp only []; split <;> simp, rfl⟩
  · split at h
    · cases h
    · simp only [] at h
      split at h
      · split at h
        · cases h; exact ⟨hn, by simp only []; split <;> simp, rfl⟩
        · cases h; exact ⟨hn, by simp only []; split <;> simp, rfl⟩
      · cases h; exact ⟨hn, by simp only []; split <;> simp, rfl⟩
  · cases h
    refine ⟨?_, by simp, ?_⟩ <;> split <;> first | exact hn | rfl
  · cases h

theorem owedP_of_ne_doc {th : Thread} (h : ∀ j, th.pc ≠ .doc j) : owedP th = 0 := by
  unfold owedP
  split
  · rename_i j hpc; exact absurd hpc (h j)
  · rfl

theorem stepPurge_count {s s' : Shared} {th th' : Thread} {ids : List Nat}
    (h : stepPurge s th ids = some (s', th')) (hn : (s.docTokens.map (·.1)).Nodup)
    (hg : th.pc = .gate → th.n2 = 0) (hge : sumSnd s.docTokens + owedP th ≤ s.totalTokens) :
    (s'.docTokens.map (·.1)).Nodup ∧ th'.pc ≠ .gate ∧
      s'.totalTokens + owedP th + sumSnd s.docTokens = s.totalTokens + owedP th' + sumSnd s'.docTokens := by
  unfold stepPurge at h
  split at h
  · -- gate
    rename_i hpc
    have h0 := hg hpc
    cases hw : s.writer with
    | true => simp [enterShared, hw] at h
    | false =>
      simp only [enterShared, hw, Bool.false_eq_true, if_false] at h
      cases h
      refine ⟨hn, by simp only []; split <;> simp, ?_⟩
      simp only [owedP, hpc]
      split <;> simp [h0]
  · -- doc
    rename_i j hpc
    simp only [owedP, hpc] at hge
    split at h
    · cases h
    · rename_i id hid
      cases hg' : get? s.docTokens id with
      | none =>
        simp only [hg'] at h
        split at h
        · cases h; exact ⟨hn, by simp, by simp [owedP, hpc]⟩
        · cases h
          refine ⟨hn, by simp, ?_⟩
          simp only [owedP, hpc]; omega
      | some n =>
        simp only [hg'] at h
        have hsum := sumSnd_eraseKey hn hg'
        split at h
        · cases h
          refine ⟨nodup_erase id hn, by simp, ?_⟩
          simp only [owedP, hpc]; omega
        · cases h
          refine ⟨nodup_erase id hn, by simp, ?_⟩
          simp only [owedP, hpc]; omega
  · -- sweep
    rename_i hpc
    simp only [] at h
    cases h
    refine ⟨hn, by simp only []; repeat' split <;> simp, ?_⟩
    rw [owedP_of_ne_doc (th := th) (by simp [hpc]), owedP_of_ne_doc (by intro j'; simp only []; repeat' split <;> simp)]
  · -- dropEmpty
    rename_i j hpc
    split at h
    · cases h
    · simp only [] at h
      split at h
      · split at h
        · cases h
          refine ⟨hn, by simp only []; repeat' split <;> simp, ?_⟩
          rw [owedP_of_ne_doc (th := th) (by simp [hpc]), owedP_of_ne_doc (by intro j'; simp only []; repeat' split <;> simp)]
        · cases h
          refine ⟨hn, by simp only []; repeat' split <;> simp, ?_⟩
          rw [owedP_of_ne_doc (th := th) (by simp [hpc]), owedP_of_ne_doc (by intro j'; simp only []; repeat' split <;> simp)]
      · cases h
        refine ⟨hn, by simp only []; repeat' split <;> simp, ?_⟩
        rw [owedP_of_ne_doc (th := th) (by simp [hpc]), owedP_of_ne_doc (by intro j'; simp only []; repeat' split <;> simp)]
  · -- bucket
    rename_i j hpc
    split at h
    · cases h
    · simp only [] at h
      split at h
      · cases h
        refine ⟨hn, by simp only []; repeat' split <;> simp, ?_⟩
        rw [owedP_of_ne_doc (th := th) (by simp [hpc]), owedP_of_ne_doc (by intro j'; simp only []; repeat' split <;> simp)]
      · cases h
        refine ⟨hn, by simp only []; repeat' split <;> simp, ?_⟩
        rw [owedP_of_ne_doc (th := th) (by simp [hpc]), owedP_of_ne_doc (by intro j'; simp only []; repeat' split <;> simp)]
  · -- unlist
    rename_i j hpc
    split at h
    · cases h
    · simp only [] at h
      split at h
      · split at h
        · cases h
          refine ⟨hn, by simp only []; repeat' split <;> simp, ?_⟩
          rw [owedP_of_ne_doc (th := th) (by simp [hpc]), owedP_of_ne_doc (by intro j'; simp only []; repeat' split <;> simp)]
        · cases h
          refine ⟨hn, by simp only []; repeat' split <;> simp, ?_⟩
          rw [owedP_of_ne_doc (th := th) (by simp [hpc]), owedP_of_ne_doc (by intro j'; simp only []; repeat' split <;> simp)]
      · cases h
        refine ⟨hn, by simp only []; repeat' split <;> simp, ?_⟩
        rw [owedP_of_ne_doc (th := th) (by simp [hpc]), owedP_of_ne_doc (by intro j'; simp only []; repeat' split <;> simp)]
  · -- stale
    rename_i hpc
    cases h
    refine ⟨hn, by simp only []; repeat' split <;> simp, ?_⟩
    rw [owedP_of_ne_doc (th := th) (by simp [hpc]), owedP_of_ne_doc (by intro j'; simp only []; repeat' split <;> simp)]
  · -- staleBucket
    rename_i j hpc
    split at h
    · cases h
    · simp only [] at h
      split at h
      · cases h
        refine ⟨hn, by simp only []; repeat' split <;> simp, ?_⟩
        rw [owedP_of_ne_doc (th := th) (by simp [hpc]), owedP_of_ne_doc (by intro j'; simp only []; repeat' split <;> simp)]
      · cases h
        refine ⟨hn, by simp only []; repeat' split <;> simp, ?_⟩
        rw [owedP_of_ne_doc (th := th) (by simp [hpc]), owedP_of_ne_doc (by intro j'; simp only []; repeat' split <;> simp)]
  · -- mstep
    rename_i hpc
    cases h
    refine ⟨by split <;> exact hn, by simp, ?_⟩
    rw [owedP_of_ne_doc (th := th) (by simp [hpc]), owedP_of_ne_doc (by intro j'; simp)]
    split <;> rfl
  · cases h

theorem stepCompact_count {s s' : Shared} {th th' : Thread}
    (h : stepCompact s th = some (s', th')) (hn : (s.docTokens.map (·.1)).Nodup) :
    (s'.docTokens.map (·.1)).Nodup ∧ th'.pc ≠ .gate ∧
      s'.totalTokens + sumSnd s.docTokens = s.totalTokens + sumSnd s'.docTokens := by
  unfold stepCompact at h
  split at h
  · simp only [enterExcl] at h
    cases hw : (s.writer || s.readers != 0) with
    | true => simp [hw] at h
    | false =>
      simp only [hw, Bool.false_eq_true, if_false] at h
      by_cases h1 : s.buckets.length ≤ 1
      · simp only [h1, if_true] at h
        cases h; exact ⟨hn, by simp, rfl⟩
      · simp only [h1, if_false] at h
        by_cases h2 : s.postings.isEmpty = true
        · simp only [h2, if_true] at h
          cases h; exact ⟨hn, by simp, rfl⟩
        · simp only [h2] at h
          cases h; exact ⟨hn, by simp, rfl⟩
  · cases h; exact ⟨hn, by simp, rfl⟩
  · split at h
    · cases h
    · simp only [] at h
      split at h
      · cases h; exact ⟨hn, by simp, rfl⟩
      · cases h; exact ⟨hn, by simp, rfl⟩
  · cases h

theorem owedL_set : ∀ (l : List Thread) (t : Nat) (th th' : Thread), l[t]? = some th →
    owedL (l.set t th') + owedT th = owedL l + owedT th'
  | [], _, _, _, h => by simp at h
  | x :: xs, 0, th, th', h => by
    simp at h; subst h
    simp only [List.set_cons_zero, owedL]; omega
  | x :: xs, t + 1, th, th', h => by
    simp only [List.getElem?_cons_succ] at h
    have := owedL_set xs t th th' h
    simp only [List.set_cons_succ, owedL]; omega

theorem owedT_le_owedL : ∀ (l : List Thread) (t : Nat) (th : Thread), l[t]? = some th → owedT th ≤ owedL l
  | [], _, _, h => by simp at h
  | x :: xs, 0, th, h => by simp at h; subst h; simp only [owedL]; omega
  | x :: xs, t + 1, th, h => by
    simp only [List.getElem?_cons_succ] at h
    have := owedT_le_owedL xs t th h
    simp only [owedL]; omega

theorem stepThread_count {s s' : Shared} {th th' : Thread} (h : stepThread s th = some (s', th'))
    (hn : (s.docTokens.map (·.1)).Nodup) (hg : th.pc = .gate → th.n2 = 0)
    (hge : sumSnd s.docTokens + owedT th ≤ s.totalTokens) :
    (s'.docTokens.map (·.1)).Nodup ∧ th'.pc ≠ .gate ∧
      s'.totalTokens + owedT th + sumSnd s.docTokens = s.totalTokens + owedT th' + sumSnd s'.docTokens := by
  have hk := stepThread_kind h
  unfold stepThread at h
  cases hkind : th.kind with
  | insert id tf =>
    rw [hkind] at h
    have := stepInsert_count h hn
    have e1 : owedT th = 0 := by simp [owedT, hkind]
    have e2 : owedT th' = 0 := by simp [owedT, hk, hkind]
    rw [e1, e2]; exact ⟨this.1, this.2.1, by omega⟩
  | remove id tf =>
    rw [hkind] at h
    have e1 : owedT th = 0 := by simp [owedT, hkind]
    have e2 : owedT th' = 0 := by simp [owedT, hk, hkind]
    have := stepRemove_count h hn (by omega)
    rw [e1, e2]; exact ⟨this.1, this.2.1, by omega⟩
  | purge ids =>
    rw [hkind] at h
    have e1 : owedT th = owedP th := by simp [owedT, hkind]
    have e2 : owedT th' = owedP th' := by simp [owedT, hk, hkind]
    rw [e1] at hge ⊢
    rw [e2]
    exact stepPurge_count h hn hg hge
  | compact =>
    rw [hkind] at h
    have := stepCompact_count h hn
    have e1 : owedT th = 0 := by simp [owedT, hkind]
    have e2 : owedT th' = 0 := by simp [owedT, hk, hkind]
    rw [e1, e2]; exact ⟨this.1, this.2.1, by omega⟩

theorem CountInv.step {t : Nat} {c c' : Cfg} (h : step t c = some c') (hi : CountInv c) : CountInv c' := by
  obtain ⟨th, th', hth, hs, hset⟩ := step_inv h
  have hmem : th ∈ c.threads := List.mem_of_getElem? hth
  have hle := owedT_le_owedL c.threads t th hth
  have htot := hi.total
  obtain ⟨hn', hpc', heq⟩ := stepThread_count hs hi.nodup (hi.gate0 th hmem) (by omega)
  have hset' := owedL_set c.threads t th th' hth
  refine ⟨hn', ?_, ?_⟩
  · rw [hset]; omega
  · intro x hx hxpc
    rw [hset] at hx
    rcases List.mem_or_eq_of_mem_set hx with hx | hx
    · exact hi.gate0 x hx hxpc
    · subst hx; exact absurd hxpc hpc'

theorem run_countInv (sched : List Nat) (c0 : Cfg) (h0 : CountInv c0) : CountInv (run sched c0) :=
  Sched.sched_inv step CountInv (fun _ _ _ ha hs => CountInv.step hs ha) sched c0 h0

theorem owedL_of_quiescent : ∀ (l : List Thread), l.all Thread.finished = true → owedL l = 0
  | [], _ => rfl
  | th :: r, h => by
    simp only [List.all_cons, Bool.and_eq_true] at h
    have hpc : th.pc = .done := by simpa [Thread.finished] using h.1
    have : owedT th = 0 := by
      unfold owedT; split
      · exact owedP_of_ne_doc (by simp [hpc])
      · rfl
    simp only [owedL, this, owedL_of_quiescent r h.2]

theorem owedL_of_fresh : ∀ (l : List Thread), (∀ th ∈ l, th.pc = .gate) → owedL l = 0
  | [], _ => rfl
  | th :: r, h => by
    have hpc := h th List.mem_cons_self
    have : owedT th = 0 := by
      unfold owedT; split
      · exact owedP_of_ne_doc (by simp [hpc])
      · rfl
    simp only [owedL, this, owedL_of_fresh r (fun x hx => h x (List.mem_cons_of_mem _ hx))]

/-- consistent shared counters and threads that have not started -/
theorem CountInv.of_fresh {c : Cfg} (hn : (c.sh.docTokens.map (·.1)).Nodup)
    (ht : c.sh.totalTokens = sumSnd c.sh.docTokens) (hf : ∀ th ∈ c.threads, th.pc = .gate ∧ th.n2 = 0) : CountInv c :=
  ⟨hn, by rw [owedL_of_fresh _ (fun th h => (hf th h).1)]; omega, fun th h _ => (hf th h).2⟩

end Bm25Conc
end AndaVerif
