import AndaVerif.Proofs.ConcLinC
/-
Linearization, part D: the invariant that ties the ghost specification state to the concrete
state (pending views, indexes, id bitmap, log) and its preservation by every action.
-/
namespace AndaVerif.ConcColl

def opTarget : Op → Option Nat
  | .upd id _ _ _ => some id
  | .rm id => some id
  | _ => none

theorem target_eq (th : Thread) : th.target = opTarget th.op := by
  unfold Thread.target opTarget; split <;> simp_all

/-- the static restrictions of `linearizable_partial` on the set of calls -/
structure OpsOK (M0 : Nat) (ops : List Op) : Prop where
  /-- updates / removes name documents that existed when the calls were issued -/
  target : ∀ op, op ∈ ops → ∀ id, opTarget op = some id → id ≤ M0
  /-- no update with an empty field map -/
  noEmpty : ∀ id, Op.upd id none none none ∉ ops

structure LinInv (conf : Config) (ops : List Op) (a0 : SpecState) (c : Cfg) : Prop where
  opsOf : ∀ (x : Nat) (th : Thread), c.th[x]? = some th → ops[x]? = some th.op
  confEq : c.sh.conf = conf
  noU : ∀ (x : Nat) (th : Thread), c.th[x]? = some th → th.pc ≠ .idxU
  idsAbs : ∀ i, i ∈ c.sh.ids ↔ c.sh.store i ≠ none
  idx : IdxAbs c.sh
  view : ∀ (x : Nat) (th : Thread) (id : Nat) (v : Option Doc), c.th[x]? = some th →
    th.view = some (id, v) → c.sh.gdocs id = v
  noview : ∀ (id : Nat), (∀ (x : Nat) (th : Thread) (v : Option Doc), c.th[x]? = some th → th.view ≠ some (id, v)) →
    c.sh.gdocs id = (c.sh.store id).map (·.1)
  explains : Explains conf ops c.sh.glog a0 (gstate c.sh)
  mem : ∀ (x : Nat) (r : Res), (x, r) ∈ c.sh.glog ↔ ∃ th, c.th[x]? = some th ∧ th.pred = some r
  nodup : (c.sh.glog.map (·.1)).Nodup
  expected : ∀ (x : Nat) (th : Thread), c.th[x]? = some th → th.pc ≠ .done → th.pred = th.expected
  done : ∀ (x : Nat) (th : Thread), c.th[x]? = some th → th.pc = .done →
    (th.isMut = true ∨ th.isFlush = true) → th.pred = th.res
  doneRes : ∀ (x : Nat) (th : Thread), c.th[x]? = some th → th.pc = .done → th.res ≠ none
  readPred : ∀ (x : Nat) (th : Thread), c.th[x]? = some th → th.isMut = false → th.isFlush = false → th.pred = none
  pidsF3 : ∀ (x : Nat) (th : Thread), c.th[x]? = some th → th.op = .flush → th.pids ≠ none → th.f3 = true
  flushPc : ∀ (x : Nat) (th : Thread), c.th[x]? = some th → th.op = .flush → th.pc.isFlushPc = true

-- ------------------------------------------------------------------------------------------
-- views
-- ------------------------------------------------------------------------------------------

theorem view_add (th : Thread) (id : Nat) (v : Option Doc) (h : th.view = some (id, v)) (hk : th.isAdd = true) :
    id = th.id ∧ th.pc = .createWait := by
  unfold Thread.view at h; unfold Thread.isAdd at hk
  split at h <;> simp_all

theorem view_tgt (th : Thread) (id : Nat) (v : Option Doc) (h : th.view = some (id, v)) (hk : th.isAdd = false) :
    th.crit = some id ∧ th.target = some id ∧ (th.pc = .putWait ∨ th.pc = .delWait) := by
  unfold Thread.view at h; unfold Thread.isAdd at hk; unfold Thread.crit Thread.target
  split at h <;> simp_all

theorem view_active (th : Thread) (id : Nat) (v : Option Doc) (h : th.view = some (id, v)) :
    th.isMut = true ∧ th.pc.active = true := by
  unfold Thread.view at h; unfold Thread.isMut
  split at h <;> simp_all [Pc.active]

/-- two different calls never have pending views of the same document -/
theorem view_excl {M0 : Nat} {H0 : List (Nat × Doc)} {ops : List Op} {c : Cfg}
    (all : AllInv M0 H0 c) (hops : ∀ (x : Nat) (th : Thread), c.th[x]? = some th → ops[x]? = some th.op)
    (ok : OpsOK M0 ops)
    (x y : Nat) (thx thy : Thread) (id : Nat) (v w : Option Doc)
    (hx : c.th[x]? = some thx) (hy : c.th[y]? = some thy)
    (hvx : thx.view = some (id, v)) (hvy : thy.view = some (id, w)) : x = y := by
  have tgt_le : ∀ (z : Nat) (th : Thread), c.th[z]? = some th → th.target = some id → id ≤ M0 := by
    intro z th hz ht
    have hop := hops z th hz
    exact ok.target th.op (List.mem_of_getElem? hop) id (by rw [← target_eq]; exact ht)
  have add_gt : ∀ (z : Nat) (th : Thread) (u : Option Doc), c.th[z]? = some th → th.view = some (id, u) →
      th.isAdd = true → M0 < id := by
    intro z th u hz hv hk
    obtain ⟨hid, hpc⟩ := view_add th id u hv hk
    have hact : th.pc.active = true := by simp [hpc, Pc.active]
    rw [hid]
    exact (all.ids.range z th hz hk (all.ids.flight z th hz hk hact)).1
  by_cases hxy : x = y
  · exact hxy
  · exfalso
    rcases hkx : thx.isAdd with _ | _
    · obtain ⟨hcx, htx, _⟩ := view_tgt thx id v hvx hkx
      rcases hky : thy.isAdd with _ | _
      · obtain ⟨hcy, _, _⟩ := view_tgt thy id w hvy hky
        exact hxy (all.lock.excl x y thx thy id id hx hy hcx hcy rfl)
      · have := add_gt y thy w hy hvy hky
        have := tgt_le x thx hx htx
        omega
    · rcases hky : thy.isAdd with _ | _
      · obtain ⟨_, hty, _⟩ := view_tgt thy id w hvy hky
        have := add_gt x thx v hx hvx hkx
        have := tgt_le y thy hy hty
        omega
      · obtain ⟨hix, hpx⟩ := view_add thx id v hvx hkx
        obtain ⟨hiy, _⟩ := view_add thy id w hvy hky
        have hact : thx.pc.active = true := by simp [hpx, Pc.active]
        exact all.ids.distinct x y thx thy hx hy hxy hkx hky (all.ids.flight x thx hx hkx hact) (by rw [← hix, ← hiy])

/-- no call has a pending view of `id` -/
def NoView (c : Cfg) (id : Nat) : Prop :=
  ∀ (x : Nat) (th : Thread) (v : Option Doc), c.th[x]? = some th → th.view ≠ some (id, v)

/-- The facts `stepThread_lin` needs about the acting call follow from the invariants. -/
theorem linPre_of_inv {M0 : Nat} {H0 : List (Nat × Doc)} {conf : Config} {ops : List Op} {a0 : SpecState}
    {c : Cfg} (all : AllInv M0 H0 c) (cl : CleanInv c) (inv : LinInv conf ops a0 c) (ok : OpsOK M0 ops)
    (t : Nat) (th : Thread) (hth : c.th[t]? = some th) (hnd : th.pc ≠ .done) : LinPre c.sh th := by
  have tgt_le : ∀ (z : Nat) (thz : Thread) (id : Nat), c.th[z]? = some thz → thz.target = some id → id ≤ M0 := by
    intro z thz id hz ht
    have hop := inv.opsOf z thz hz
    exact ok.target thz.op (List.mem_of_getElem? hop) id (by rw [← target_eq]; exact ht)
  -- a pending view of `id` by a targeting call means the object is there
  have view_store : ∀ (z : Nat) (thz : Thread) (id : Nat) (v : Option Doc), c.th[z]? = some thz →
      thz.view = some (id, v) → thz.isAdd = false → c.sh.store id ≠ none := by
    intro z thz id v hz hv hk
    have hrs := all.rs z thz hz
    unfold Thread.view at hv; unfold Thread.RS at hrs; unfold Thread.isAdd at hk
    split at hv
    · simp_all
    · next id' fk fu fv hop =>
      simp only [hop] at hrs
      split at hv
      · next hpc =>
        simp only [Option.some.injEq, Prod.mk.injEq] at hv
        obtain ⟨d, _, hs, _⟩ := hrs (Or.inr (Or.inr hpc))
        rw [← hv.1, hs]; simp
      · cases hv
    · next id' hop =>
      simp only [hop] at hrs
      split at hv
      · next hpc =>
        simp only [Option.some.injEq, Prod.mk.injEq] at hv
        obtain ⟨d, v', _, hs⟩ := hrs (Or.inr hpc)
        rw [← hv.1, hs]; simp
      · cases hv
    · cases hv
  have add_view_gt : ∀ (z : Nat) (thz : Thread) (id : Nat) (v : Option Doc), c.th[z]? = some thz →
      thz.view = some (id, v) → thz.isAdd = true → M0 < id ∧ id ≤ c.sh.maxId := by
    intro z thz id v hz hv hk
    obtain ⟨hid, hpc⟩ := view_add thz id v hv hk
    have hact : thz.pc.active = true := by simp [hpc, Pc.active]
    rw [hid]
    exact all.ids.range z thz hz hk (all.ids.flight z thz hz hk hact)
  -- documents nobody touches: ghost = backend
  have miss : ∀ id, id ≤ M0 → c.sh.store id = none → c.sh.gdocs id = none := by
    intro id hle hs
    have hnv : NoView c id := by
      intro z thz v hz hv
      rcases hk : thz.isAdd with _ | _
      · exact view_store z thz id v hz hv hk hs
      · have := (add_view_gt z thz id v hz hv hk).1; omega
    rw [inv.noview id hnv, hs]; rfl
  refine
    { idx := inv.idx, clean := cl.clean, coarse := cl.coarse, noU := inv.noU t th hth,
      addFresh0 := ?_, addFresh := ?_, addFree := ?_, noEmpty := ?_, miss := ?_, ids := ?_,
      rs := all.rs t th hth, updGhost := ?_, rmGhost := ?_, flushVer := ?_, flushIds := ?_ }
  · -- the next id is unknown to the specification
    have hnv : NoView c (c.sh.maxId + 1) := by
      intro z thz v hz hv
      rcases hk : thz.isAdd with _ | _
      · obtain ⟨_, ht, _⟩ := view_tgt thz _ v hv hk
        have := tgt_le z thz _ hz ht
        have := all.ids.mono
        omega
      · have := (add_view_gt z thz _ v hz hv hk).2; omega
    rw [inv.noview _ hnv]
    rcases hs : c.sh.store (c.sh.maxId + 1) with _ | p
    · rfl
    · have := all.store.dom (c.sh.maxId + 1) (by simp [hs]); omega
  · intro hk hpc
    have hact : th.pc.active = true := by rcases hpc with h | h <;> simp [h, Pc.active]
    have hid := all.ids.flight t th hth hk hact
    refine ⟨hid, ?_⟩
    have hnv : NoView c th.id := by
      intro z thz v hz hv
      rcases hkz : thz.isAdd with _ | _
      · obtain ⟨_, ht, _⟩ := view_tgt thz _ v hv hkz
        have := tgt_le z thz _ hz ht
        have := (all.ids.range t th hth hk hid).1
        omega
      · obtain ⟨hidz, hpcz⟩ := view_add thz _ v hv hkz
        by_cases hzt : z = t
        · subst hzt
          rw [hth] at hz; cases hz
          rcases hpc with h | h <;> simp [h] at hpcz
        · exact all.ids.distinct t z th thz hth hz (Ne.symm hzt) hk hkz hid hidz
    rw [inv.noview _ hnv, all.store.free t th hth hk hact]; rfl
  · intro hk hpc
    exact all.store.free t th hth hk (by simp [hpc, Pc.active])
  · intro id hop
    have := inv.opsOf t th hth
    rw [hop] at this
    exact ok.noEmpty id (List.mem_of_getElem? this)
  · intro id ht hs
    exact miss id (tgt_le t th id hth ht) hs
  · intro id hni
    rcases hs : c.sh.store id with _ | p
    · rfl
    · exact absurd ((inv.idsAbs id).mpr (by simp [hs])) hni
  · -- an update about to linearize sees, in the specification, the document it read
    intro id fk fu fv hop hpc
    have hrs := all.rs t th hth
    unfold Thread.RS at hrs
    simp only [hop] at hrs
    obtain ⟨d, ho, hs, _⟩ := hrs (Or.inl hpc)
    have hct : th.crit = some id := by simp [Thread.crit, hop, hpc]
    have hnv : NoView c id := by
      intro z thz v hz hv
      rcases hkz : thz.isAdd with _ | _
      · obtain ⟨hcz, _, hpz⟩ := view_tgt thz id v hv hkz
        have hzt := all.lock.excl z t thz th id id hz hth hcz hct rfl
        subst hzt
        rw [hth] at hz; cases hz
        rcases hpz with h | h <;> simp [h] at hpc
      · have := (add_view_gt z thz id v hz hv hkz).1
        have := tgt_le t th id hth (by simp [Thread.target, hop])
        omega
    rw [inv.noview id hnv, hs, ho]; rfl
  · intro id hop hpc
    have hrs := all.rs t th hth
    unfold Thread.RS at hrs
    simp only [hop] at hrs
    obtain ⟨d, v', ho, hs⟩ := hrs (Or.inl hpc)
    have hct : th.crit = some id := by simp [Thread.crit, hop, hpc]
    have hnv : NoView c id := by
      intro z thz v hz hv
      rcases hkz : thz.isAdd with _ | _
      · obtain ⟨hcz, _, hpz⟩ := view_tgt thz id v hv hkz
        have hzt := all.lock.excl z t thz th id id hz hth hcz hct rfl
        subst hzt
        rw [hth] at hz; cases hz
        rcases hpz with h | h <;> simp [h] at hpc
      · have := (add_view_gt z thz id v hz hv hkz).1
        have := tgt_le t th id hth (by simp [Thread.target, hop])
        omega
    rw [inv.noview id hnv, hs, ho]; rfl
  · intro hk hpc
    exact all.mta.flv t th hth (by unfold Thread.atFMeta; unfold Thread.isFlush at hk; split at hk <;> simp_all)
  · -- what the flush reports is the frozen id set, which is the specification's
    intro hk l hp i
    have hop : th.op = .flush := by unfold Thread.isFlush at hk; split at hk <;> simp_all
    have hf3 := inv.pidsF3 t th hth hop (by simp [hp])
    obtain ⟨i0, _, i2, _⟩ := all.flush t th hth hop
    have hpcs : th.pc = .fIds ∨ th.pc = .fSto ∨ th.pc = .fClr := by
      have h1 : th.pc ≠ .idle := fun h => by have := i0 (Or.inl h); rw [hf3] at this; cases this
      have h2 : th.pc ≠ .fIdx := fun h => by have := i0 (Or.inr (Or.inl h)); rw [hf3] at this; cases this
      have h3 : th.pc ≠ .fMeta := fun h => by have := i0 (Or.inr (Or.inr h)); rw [hf3] at this; cases this
      have h4 := inv.flushPc t th hth hop
      revert h1 h2 h3 h4 hnd
      cases th.pc <;> simp [Pc.isFlushPc]
    have hl : l = c.sh.ids := by
      have := (i2 hf3 hpcs).1
      rw [hp] at this; exact Option.some.inj this
    rw [hl, inv.idsAbs i]
    have hact : th.pc.active = true := by rcases hpcs with h | h | h <;> simp [h, Pc.active]
    have hw := (all.gate.writer t).mpr ⟨th, hth, hk, hact⟩
    have hr := all.gate.excl (by simp [hw])
    have hnv : NoView c i := by
      intro z thz v hz hv
      obtain ⟨hm, ha⟩ := view_active thz i v hv
      have := (all.gate.readers z).mpr ⟨thz, hz, hm, ha⟩
      simp [hr] at this
    rw [inv.noview i hnv]
    cases c.sh.store i <;> simp

end AndaVerif.ConcColl
