import AndaVerif.Proofs.DurRecover
/-
C01 helper lemmas, part 6: the machine. `Inv` is preserved by every step of every history under
every fault schedule (`arm` may install any list of fault outcomes, `reopen` reboots with whatever
is left of it), so it holds at every cut of every operation, the recovery included.
-/
namespace AndaVerif.Durability
open AndaVerif.Gen.CollectionOrder

def Inv (s : State) : Prop :=
  DurInv s.w.D ∧ ∀ v, s.h = some v → v.dead = false → SyncV s.w.D v

theorem init_good : Good initD (loadV initD) := by
  refine ⟨⟨?_, ?_, ?_, ?_, ?_, ?_, ?_⟩, fun _ => ⟨⟨⟨?_, ?_, ?_, ?_, ?_, ?_, ?_, ?_⟩, ?_⟩, ?_⟩⟩ <;>
    simp [initD, loadV, bound, keysOf, stride]

theorem init_inv : Inv init := by
  refine ⟨init_good.1, ?_⟩
  intro v hv hd
  have : v = loadV initD := by simpa [init] using hv.symm
  subst this
  exact init_good.2 hd

theorem flushOp_good {w : World} {v : Volatile} {now : Nat} (h : Good w.D v) :
    Good (flushOp w v now).1.D (flushOp w v now).2.1 := by
  unfold flushOp
  by_cases hdead : v.dead = true
  · rw [if_pos hdead]; exact h
  have hdead : v.dead = false := by simpa using hdead
  rw [if_neg (by simp [hdead])]
  obtain ⟨hD, hS⟩ := h
  obtain ⟨g1, _, g3⟩ := flushInner_good (w := { w with preFail := false }) now hD (hS hdead)
  dsimp only
  cases hr : (flushInner { w with preFail := false } v now).2.2 with
  | some b =>
    have ok := g3 (by simp [hr])
    exact ⟨g1, fun _ => ok.sync⟩
  | none =>
    exact ⟨g1, fun hd => by simp [Volatile.dead, flush_poison] at hd⟩

theorem closeOp_good {w : World} {v : Volatile} {now : Nat} (h : Good w.D v) :
    Good (closeOp w v now).1.D (closeOp w v now).2.1 := by
  unfold closeOp
  by_cases hp : v.poisoned = true
  · rw [if_pos hp]; exact h
  rw [if_neg hp]
  have hp : v.poisoned = false := by simpa using hp
  by_cases hc : v.closed = true
  · rw [if_pos hc]; exact h
  rw [if_neg hc]
  have hc : v.closed = false := by simpa using hc
  have hdead : v.dead = false := by simp [Volatile.dead, hp, hc]
  obtain ⟨hD, hS⟩ := h
  obtain ⟨g1, _, _⟩ := flushInner_good (w := { w with preFail := false }) now hD (hS hdead)
  dsimp only
  cases hr : (flushInner { w with preFail := false } v now).2.2 with
  | some b => exact ⟨g1, fun hd => by simp [Volatile.dead] at hd⟩
  | none => exact ⟨g1, fun hd => by simp [Volatile.dead, close_poison] at hd⟩

/-- `save_extension`: a metadata-only write keeps the invariant and the handle in sync, whatever
its outcome — it never advances `last_saved_version`, so the next flush still writes the bitmap -/
theorem saveExtOp_good {w : World} {v : Volatile} (h : Good w.D v) :
    Good (saveExtOp w v).1.D (saveExtOp w v).2.1 := by
  unfold saveExtOp
  by_cases hdead : v.dead = true
  · rw [if_pos hdead]; exact h
  have hdead : v.dead = false := by simpa using hdead
  rw [if_neg (by simp [hdead])]
  obtain ⟨hD, hS⟩ := h
  have hS := hS hdead
  have hS1 : SyncV w.D { v with version := v.version + 1 } := by
    obtain ⟨⟨⟨h1, h2, h3, h4, h5, h6, h7, h8⟩, h9⟩, h10⟩ := hS
    exact ⟨⟨⟨h1, h2, h3, h4, h5, h6, h7, h8⟩, fun hle => by simp only at hle; omega⟩, by simp only; omega⟩
  have hS2 : SyncV (putMeta v.maxId (v.version + 1) w.D) { v with version := v.version + 1 } := by
    obtain ⟨⟨⟨h1, h2, h3, h4, h5, h6, h7, h8⟩, h9⟩, h10⟩ := hS1
    refine ⟨⟨⟨Nat.le_refl _, h2, ?_, h4, h5, h6, h7, h8⟩, h9⟩, h10⟩
    simp only [bound, putMeta] at h3 ⊢
    have := hS.max_ge_meta
    omega
  dsimp only
  by_cases hst : w.metaStale = true
  · rw [if_pos hst]
    simp only [reject_D]
    exact ⟨hD, fun _ => hS1⟩
  rw [if_neg hst]
  rcases attempt_cases w .metaPut (putMeta v.maxId (v.version + 1)) with ⟨hok, hDD⟩ | ⟨hno, hDD⟩
  · rw [if_pos hok, hDD]
    exact ⟨hD.putMeta hS.max_ge_meta, fun _ => hS2⟩
  · rw [if_neg (by simp [hno])]
    rcases hDD with h | h <;> simp only [h]
    · exact ⟨hD, fun _ => hS1⟩
    · exact ⟨hD.putMeta hS.max_ge_meta, fun _ => hS2⟩

/-- index compaction: its manifest commit moves the committed index toward the stored documents,
whatever the outcome; the handle stays in sync (and is never poisoned) -/
theorem compactOp_good {w : World} {v : Volatile} {ix : Nat} {commits dirtied : Bool} (h : Good w.D v) :
    Good (compactOp w v ix commits dirtied).1.D (compactOp w v ix commits dirtied).2.1 := by
  unfold compactOp
  by_cases hdead : v.dead = true
  · rw [if_pos hdead]; exact h
  have hdead : v.dead = false := by simpa using hdead
  rw [if_neg (by simp [hdead])]
  by_cases hc : commits = true
  · rw [if_neg (by simp [hc])]
    obtain ⟨hD, hS⟩ := h
    have hS := hS hdead
    dsimp only
    split
    · simp only [reject_D]; exact ⟨hD, fun _ => hS⟩
    · have hx : ∀ id k, v.idx id k = keysOf (w.D.docs id) k := hS.idx_eq
      -- the committed state
      have hDc : DurInv (commitIdx ix v.idx w.D) :=
        hD.idx_toward ⟨rfl, rfl, rfl, rfl, rfl, rfl⟩ (by
          intro id k
          by_cases hk : k.1 = ix
          · right; simp [commitIdx, hk, hx]
          · left; simp [commitIdx, hk])
      have hSc : ∀ dirty' : List Nat, (∀ j, j ∉ dirty' → j = ix ∨ j ∉ v.dirty) →
          SyncV (commitIdx ix v.idx w.D) { v with dirty := dirty' } := by
        intro dirty' hd
        obtain ⟨⟨⟨h1, h2, h3, h4, h5, h6, h7, h8⟩, h9⟩, h10⟩ := hS
        refine ⟨⟨⟨h1, h2, h3, h4, h5, h6, ?_, h8⟩, h9⟩, h10⟩
        intro j hj id k hk
        by_cases hji : k.1 = ix
        · simp [commitIdx, hji]
        · simp only [commitIdx, hji, if_false]
          rcases hd j hj with h | h
          · exact absurd (hk.trans h) hji
          · exact h7 j h id k hk
      rcases attempt_cases ({ w with preFail := false } : World) (.ixc ix) (commitIdx ix v.idx) with ⟨hok, hDD⟩ | ⟨hno, hDD⟩
      · rw [if_pos hok, hDD]
        refine ⟨hDc, fun _ => hSc _ ?_⟩
        intro j hj
        by_cases hji : j = ix
        · exact Or.inl hji
        · right; intro hm; exact hj (by simp [List.mem_filter, hm, hji])
      · rw [if_neg (by simp [hno])]
        rcases hDD with h | h <;> simp only [h]
        · exact ⟨hD, fun _ => hS⟩
        · refine ⟨hDc, fun _ => ?_⟩
          have := hSc v.dirty (fun j hj => Or.inr hj)
          cases v; exact this
  · have hc : commits = false := by simpa using hc
    rw [if_pos (by simp [hc])]
    split
    · -- only marked dirty: a larger dirty set weakens nothing
      refine ⟨h.1, fun _ => ?_⟩
      obtain ⟨⟨⟨h1, h2, h3, h4, h5, h6, h7, h8⟩, h9⟩, h10⟩ := h.2 hdead
      exact ⟨⟨⟨h1, h2, h3, h4, h5, h6, fun j hj => h7 j (fun hm => hj (by simp [hm])), h8⟩, h9⟩, h10⟩
    · exact h

theorem reopenOp_good {w : World} {now : Nat} (hD : DurInv w.D) :
    DurInv (reopenOp w now).1.D ∧
      ∀ v, (reopenOp w now).2.1 = some v → v.dead = false ∧ SyncV (reopenOp w now).1.D v := by
  unfold reopenOp
  dsimp only
  have hr := recoverV_good hD
  obtain ⟨g1, _, g3⟩ := flushInner_good (w := { w with off := false, metaStale := false, preFail := false, ixStale := [] }) now hD hr.sync
  cases hf : (flushInner { w with off := false, metaStale := false, preFail := false, ixStale := [] } (recoverV w.D) now).2.2 with
  | some b =>
    simp only [hf]
    refine ⟨g1, ?_⟩
    intro v hv
    have hv : (flushInner { w with off := false, metaStale := false, preFail := false, ixStale := [] } (recoverV w.D) now).2.1 = v := by simpa using hv
    subst hv
    have ok := g3 (by simp [hf])
    have ha := hr.alive
    simp only [Volatile.dead, Bool.or_eq_false_iff] at ha
    exact ⟨by simp [Volatile.dead, ok.poisoned, ok.closed, ha.1, ha.2], ok.sync⟩
  | none =>
    simp only [hf]
    exact ⟨g1, fun v hv => by simp at hv⟩

theorem lift_inv {s : State} (f : World → Volatile → World × Volatile × Out)
    (hf : ∀ w v, Good w.D v → Good (f w v).1.D (f w v).2.1) (h : Inv s) : Inv (lift s f).1 := by
  unfold lift
  cases hh : s.h with
  | none => simpa [Inv, hh] using h
  | some v =>
    simp only
    have hg : Good s.w.D v := ⟨h.1, fun hd => h.2 v hh hd⟩
    have := hf s.w v hg
    refine ⟨this.1, ?_⟩
    intro v' hv' hd
    have : v' = (f s.w v).2.1 := by simpa using hv'.symm
    subst this
    exact this.2 hd

theorem step_inv {s : State} (op : Op) (h : Inv s) : Inv (step s op).1 := by
  cases op with
  | add d => exact lift_inv _ (fun _ _ hg => addOp_good hg) h
  | update id p => exact lift_inv _ (fun _ _ hg => updateOp_good hg) h
  | remove id => exact lift_inv _ (fun _ _ hg => removeOp_good hg) h
  | flush now => exact lift_inv _ (fun _ _ hg => flushOp_good hg) h
  | close now => exact lift_inv _ (fun _ _ hg => closeOp_good hg) h
  | saveExt => exact lift_inv _ (fun _ _ hg => saveExtOp_good hg) h
  | compact ix c d => exact lift_inv _ (fun _ _ hg => compactOp_good hg) h
  | reopen now =>
    simp only [step]
    obtain ⟨g1, g2⟩ := reopenOp_good (w := s.w) (now := now) h.1
    exact ⟨g1, fun v hv _ => (g2 v hv).2⟩
  | arm l =>
    simp only [step]
    exact ⟨h.1, h.2⟩

theorem run_inv {s : State} (ops : List Op) (h : Inv s) : Inv (run s ops) := by
  induction ops generalizing s with
  | nil => exact h
  | cons op r ih => exact ih (step_inv op h)

theorem run_append (s : State) (a b : List Op) : run s (a ++ b) = run (run s a) b := by
  induction a generalizing s with
  | nil => rfl
  | cons op r ih => simp only [List.cons_append, run]; exact ih _

/-! ### a world without faults -/

def Quiet (w : World) : Prop := w.off = false ∧ w.sched = [] ∧ w.metaStale = false ∧ w.ixStale = []

theorem attempt_quiet {w : World} (h : Quiet w) (e : Ev) (f : Durable → Durable) :
    (w.attempt e f).2 = true ∧ Quiet (w.attempt e f).1 ∧ (w.attempt e f).1.D = f w.D := by
  obtain ⟨h1, h2, h3, h4⟩ := h
  simp [World.attempt, h1, h2, h3, h4, Quiet]

theorem attemptAll_quiet : ∀ (fs : List (Ev × (Durable → Durable))) {w : World}, Quiet w →
    (w.attemptAll fs).2 = true ∧ Quiet (w.attemptAll fs).1 := by
  intro fs
  induction fs with
  | nil => intro w h; exact ⟨rfl, h⟩
  | cons ef r ih =>
    intro w h
    obtain ⟨e, f⟩ := ef
    obtain ⟨a, b, _⟩ := attempt_quiet h e f
    simp only [World.attemptAll, a, if_true]
    exact ih b

theorem flushStep_quiet (now : Nat) (pm pi pu : Bool) (c : FlushCtx) (s : FlushStep)
    (hq : Quiet c.w) (hf : c.failed = false) :
    Quiet (flushStep now pm pi pu c s).w ∧ (flushStep now pm pi pu c s).failed = false := by
  unfold flushStep
  simp only [hf, Bool.false_eq_true, if_false]
  cases s with
  | indexes =>
    simp only
    split
    · have hpre : ∀ l : List Nat, l.takeWhile (fun ix => !c.w.ixStale.contains ix) = l := by
        intro l
        induction l with
        | nil => rfl
        | cons a r ih =>
          have hs : c.w.ixStale = [] := hq.2.2.2
          rw [hs] at ih ⊢
          simp only [List.takeWhile, List.contains_nil, Bool.not_false]
          exact congrArg _ ih
      rw [hpre]
      obtain ⟨a, b⟩ := attemptAll_quiet ((dirtyIxs c.v).map (fun ix => (Ev.ixc ix, commitIdx ix c.v.idx))) hq
      simp only [a, if_true, beq_self_eq_true]; exact ⟨b, by triv⟩
    · exact ⟨hq, hf⟩
  | metaPut =>
    simp only
    split
    · obtain ⟨a, b, _⟩ := attempt_quiet hq .metaPut (putMeta c.v.maxId c.v.version)
      rw [if_neg (by simp [hq.2.2.1])]
      simp only [a, if_true]; exact ⟨b, by triv⟩
    · exact ⟨hq, hf⟩
  | idsPut =>
    simp only
    split
    · obtain ⟨a, b, _⟩ := attempt_quiet hq .idsPut (putIds c.v.ids)
      simp only [a, if_true]; exact ⟨b, by first | exact hf | trivial⟩
    · exact ⟨hq, hf⟩
  | checkpoint =>
    simp only
    split
    · rcases storeCp_cases c c.v.maxId now with h | ⟨ncp, nsv, _, ⟨_, h⟩ | ⟨hno, _⟩⟩
      · rw [h]; exact ⟨hq, hf⟩
      · rw [h]; exact ⟨(attempt_quiet hq .cp (putCp ncp nsv)).2.1, hf⟩
      · rw [(attempt_quiet hq .cp (putCp ncp nsv)).1] at hno; cases hno
    · exact ⟨hq, hf⟩
  | retire =>
    simp only
    split
    · obtain ⟨a, b⟩ := attemptAll_quiet (c.v.pending.map (fun s => (Ev.intentDel, delIntent s))) hq
      simp only [a, if_true]; exact ⟨b, by first | exact hf | trivial⟩
    · exact ⟨hq, hf⟩

/-- without faults a flush always reports success -/
theorem flushInner_quiet {w : World} (v : Volatile) (now : Nat) (hq : Quiet w) :
    (flushInner w v now).2.2.isSome = true ∧ Quiet (flushInner w v now).1 := by
  unfold flushInner
  simp only
  split
  · exact ⟨rfl, hq⟩
  · have key : ∀ (l : List FlushStep) (c : FlushCtx), Quiet c.w → c.failed = false →
        Quiet (l.foldl (flushStep now (decide (v.savedVer < v.version)) (!v.dirty.isEmpty) (!v.pending.isEmpty)) c).w ∧
          (l.foldl (flushStep now (decide (v.savedVer < v.version)) (!v.dirty.isEmpty) (!v.pending.isEmpty)) c).failed = false := by
      intro l
      induction l with
      | nil => intro c a b; exact ⟨a, b⟩
      | cons s r ih =>
        intro c a b
        obtain ⟨a', b'⟩ := flushStep_quiet now _ _ _ c s a b
        exact ih _ a' b'
    obtain ⟨a, b⟩ := key flushOrder ⟨w, v, false, false, false⟩ hq rfl
    simp only [b, Bool.false_eq_true, if_false]
    exact ⟨rfl, a⟩

end AndaVerif.Durability
