import AndaVerif.Model.ConcCache
/-
The generation-stripe argument: a cache entry that can be served (its generation equals the
stripe's) is at least as new as every write that has bumped the generation; so is everything a
reader fetches while its generation snapshot is still current.
-/
namespace AndaVerif.ConcCache

/-- an entry / fetched pair is a value the backend held, and is fresh while `s` is current -/
def Fresh (sh : Shared) (v ver s : Nat) : Prop :=
  s ≤ sh.seq ∧ (v, ver) ∈ sh.hist ∧ (s = sh.seq → sh.completed ≤ ver)

structure SInv (sh : Shared) : Prop where
  completed : sh.completed < sh.nextVer
  backend : ∀ v ver, sh.backend = some (v, ver) → ver + 1 = sh.nextVer ∧ (v, ver) ∈ sh.hist
  cache : ∀ e, sh.cache = some e → Fresh sh e.val e.ver e.seq

def TInv (sh : Shared) (th : Thread) : Prop :=
  match th.op with
  | .get =>
    (th.pc = .hitCheck → ∀ e, th.e = some e → Fresh sh e.val e.ver e.seq) ∧
    (th.pc ≠ .start → th.c0 ≤ sh.completed) ∧
    (th.pc = .recheck ∨ th.pc = .insert → ∀ v ver, th.got = some (v, ver) → Fresh sh v ver th.s0) ∧
    (th.pc = .recheck ∨ th.pc = .insert ∨ th.pc = .ret → ∀ v ver, th.got = some (v, ver) →
      (v, ver) ∈ sh.hist ∧ th.c0 ≤ ver) ∧
    (th.pc = .recheck ∨ th.pc = .insert ∨ th.pc = .ret → th.got ≠ none) ∧
    (th.pc = .fetch → th.s0 ≤ sh.seq) ∧
    (∀ v ver, th.res = some (some (v, ver)) → (v, ver) ∈ sh.hist ∧ th.c0 ≤ ver) ∧
    (th.pc ≠ .done → th.res = none)
  | _ =>
    (th.pc = .wBump → ∃ v ver, th.got = some (v, ver) ∧ ver < sh.nextVer)

/-- how one action moves the shared monotone quantities -/
theorem stepThread_mono (sh : Shared) (th : Thread) (sh' : Shared) (th' : Thread)
    (h : stepThread sh th = some (sh', th')) :
    sh.nextVer ≤ sh'.nextVer ∧ (∀ p, p ∈ sh.hist → p ∈ sh'.hist) ∧ sh.completed ≤ sh'.completed ∧
    ((sh'.seq = sh.seq ∧ sh'.completed = sh.completed) ∨ sh'.seq = sh.seq + 1) := by
  unfold stepThread at h
  split at h <;> (try (repeat' split at h)) <;> simp_all <;>
    (obtain ⟨rfl, rfl⟩ := h) <;> simp_all <;> omega

theorem Fresh.mono {sh sh' : Shared} {v ver s : Nat} (hf : Fresh sh v ver s)
    (hh : ∀ p, p ∈ sh.hist → p ∈ sh'.hist)
    (hs : (sh'.seq = sh.seq ∧ sh'.completed = sh.completed) ∨ sh'.seq = sh.seq + 1) : Fresh sh' v ver s := by
  obtain ⟨h1, h2, h3⟩ := hf
  rcases hs with ⟨hs, hc⟩ | hs
  · exact ⟨by omega, hh _ h2, fun he => by rw [hc]; exact h3 (by omega)⟩
  · exact ⟨by omega, hh _ h2, fun he => by omega⟩

theorem TInv.mono {sh sh' : Shared} {th : Thread} (ht : TInv sh th)
    (hn : sh.nextVer ≤ sh'.nextVer) (hh : ∀ p, p ∈ sh.hist → p ∈ sh'.hist)
    (hc : sh.completed ≤ sh'.completed)
    (hs : (sh'.seq = sh.seq ∧ sh'.completed = sh.completed) ∨ sh'.seq = sh.seq + 1) : TInv sh' th := by
  unfold TInv at ht ⊢
  split
  · next hop =>
    simp only [hop] at ht
    obtain ⟨h1, h2, h3, h4, h5, h6, h7, h8⟩ := ht
    refine ⟨fun hp e he => (h1 hp e he).mono hh hs, fun hp => Nat.le_trans (h2 hp) hc,
      fun hp v ver hg => (h3 hp v ver hg).mono hh hs,
      fun hp v ver hg => ⟨hh _ (h4 hp v ver hg).1, (h4 hp v ver hg).2⟩, h5,
      fun hp => by have := h6 hp; rcases hs with ⟨hs, _⟩ | hs <;> omega,
      fun v ver hr => ⟨hh _ (h7 v ver hr).1, (h7 v ver hr).2⟩, h8⟩
  · next hop =>
    have : ∀ (P : Prop), (match th.op with | .get => P | _ => (th.pc = .wBump → ∃ v ver, th.got = some (v, ver) ∧ ver < sh.nextVer)) →
        (th.pc = .wBump → ∃ v ver, th.got = some (v, ver) ∧ ver < sh.nextVer) := by
      intro P hm
      split at hm
      · next hg => exact absurd hg (hop)
      · exact hm
    intro hp
    obtain ⟨v, ver, hg, hv⟩ := this _ ht hp
    exact ⟨v, ver, hg, by omega⟩

theorem bump_inv (sh : Shared) (th : Thread) (sh' : Shared) (th' : Thread)
    (h : bump sh th = (sh', th')) (hs : SInv sh) (hnotget : th.op ≠ .get)
    (hw : ∃ v ver, th.got = some (v, ver) ∧ ver < sh.nextVer) : SInv sh' ∧ TInv sh' th' := by
  obtain ⟨hc, hb, hca⟩ := hs
  obtain ⟨v, ver, hg, hv⟩ := hw
  unfold bump at h
  simp only [Prod.mk.injEq] at h
  obtain ⟨rfl, rfl⟩ := h
  refine ⟨⟨?_, hb, ?_⟩, ?_⟩
  · show max sh.completed ((th.got.map (·.2)).getD 0) < sh.nextVer
    simp [hg]; omega
  · intro e he
    obtain ⟨a, b, _⟩ := hca e he
    exact ⟨by show e.seq ≤ sh.seq + 1; omega, b, fun heq => by have : e.seq = sh.seq + 1 := heq; omega⟩
  · unfold TInv
    split
    · next hg' => exact absurd hg' hnotget
    · simp

theorem evict_inv (sh : Shared) (th : Thread) (sh' : Shared) (th' : Thread)
    (h : evict sh th = (sh', th')) (hs : SInv sh) (hnotget : th.op ≠ .get) : SInv sh' ∧ TInv sh' th' := by
  obtain ⟨hc, hb, hca⟩ := hs
  unfold evict at h
  simp only [Prod.mk.injEq] at h
  obtain ⟨rfl, rfl⟩ := h
  refine ⟨⟨hc, hb, by intro e he; cases he⟩, ?_⟩
  unfold TInv
  split
  · next hg' => exact absurd hg' hnotget
  · simp

/-- the acting thread: shared and own invariant after its action -/
theorem stepThread_inv (sh : Shared) (th : Thread) (sh' : Shared) (th' : Thread)
    (h : stepThread sh th = some (sh', th')) (hs : SInv sh) (ht : TInv sh th) :
    SInv sh' ∧ TInv sh' th' := by
  obtain ⟨hc, hb, hca⟩ := hs
  unfold stepThread at h
  unfold TInv at ht
  split at h
  · -- get, start
    next hop hpc =>
    simp only [hop] at ht
    obtain ⟨h1, h2, h3, h4, h5, h6, h7, h8⟩ := ht
    have hres : th.res = none := h8 (by simp [hpc])
    split at h
    · next e he =>
      simp only [Option.some.injEq, Prod.mk.injEq] at h
      obtain ⟨rfl, rfl⟩ := h
      refine ⟨⟨hc, hb, hca⟩, ?_⟩
      simp only [TInv, hop]
      refine ⟨fun _ e' he' => ?_, fun _ => Nat.le_refl _, by simp, by simp, by simp, by simp, by simp [hres], by simp [hres]⟩
      simp only [Option.some.injEq] at he'
      subst he'
      exact hca e he
    · simp only [Option.some.injEq, Prod.mk.injEq] at h
      obtain ⟨rfl, rfl⟩ := h
      refine ⟨⟨hc, hb, hca⟩, ?_⟩
      simp only [TInv, hop]
      exact ⟨by simp, fun _ => Nat.le_refl _, by simp, by simp, by simp, by simp, by simp [hres], by simp [hres]⟩
  · -- hitCheck
    next hop hpc =>
    simp only [hop] at ht
    obtain ⟨h1, h2, h3, h4, h5, h6, h7, h8⟩ := ht
    have hres : th.res = none := h8 (by simp [hpc])
    have hc0 := h2 (by simp [hpc])
    split at h
    · next e he =>
      split at h
      · next heq =>
        simp only [Option.some.injEq, Prod.mk.injEq] at h
        obtain ⟨rfl, rfl⟩ := h
        refine ⟨⟨hc, hb, hca⟩, ?_⟩
        obtain ⟨_, hm, hf⟩ := h1 hpc e he
        simp only [TInv, hop]
        refine ⟨by simp, fun _ => hc0, by simp, by simp, by simp, by simp, ?_, by simp⟩
        intro v ver hr
        simp only [Option.some.injEq, Prod.mk.injEq] at hr
        obtain ⟨rfl, rfl⟩ := hr
        exact ⟨hm, Nat.le_trans hc0 (hf heq)⟩
      · simp only [Option.some.injEq, Prod.mk.injEq] at h
        obtain ⟨rfl, rfl⟩ := h
        refine ⟨⟨hc, hb, hca⟩, ?_⟩
        simp only [TInv, hop]
        exact ⟨by simp, fun _ => hc0, by simp, by simp, by simp, by simp, by simp [hres], by simp [hres]⟩
    · simp only [Option.some.injEq, Prod.mk.injEq] at h
      obtain ⟨rfl, rfl⟩ := h
      refine ⟨⟨hc, hb, hca⟩, ?_⟩
      simp only [TInv, hop]
      exact ⟨by simp, fun _ => hc0, by simp, by simp, by simp, by simp, by simp [hres], by simp [hres]⟩
  · -- readSeq
    next hop hpc =>
    simp only [hop] at ht
    obtain ⟨h1, h2, h3, h4, h5, h6, h7, h8⟩ := ht
    have hres : th.res = none := h8 (by simp [hpc])
    simp only [Option.some.injEq, Prod.mk.injEq] at h
    obtain ⟨rfl, rfl⟩ := h
    refine ⟨⟨hc, hb, hca⟩, ?_⟩
    simp only [TInv, hop]
    exact ⟨by simp, fun _ => h2 (by simp [hpc]), by simp, by simp, by simp, by simp, by simp [hres], by simp [hres]⟩
  · -- fetch
    next hop hpc =>
    simp only [hop] at ht
    obtain ⟨h1, h2, h3, h4, h5, h6, h7, h8⟩ := ht
    have hres : th.res = none := h8 (by simp [hpc])
    have hc0 := h2 (by simp [hpc])
    split at h
    · simp only [Option.some.injEq, Prod.mk.injEq] at h
      obtain ⟨rfl, rfl⟩ := h
      refine ⟨⟨hc, hb, hca⟩, ?_⟩
      simp only [TInv, hop]
      exact ⟨by simp, fun _ => hc0, by simp, by simp, by simp, by simp, by simp, by simp⟩
    · next p hp =>
      simp only [Option.some.injEq, Prod.mk.injEq] at h
      obtain ⟨rfl, rfl⟩ := h
      refine ⟨⟨hc, hb, hca⟩, ?_⟩
      obtain ⟨v, ver⟩ := p
      obtain ⟨hv, hm⟩ := hb v ver hp
      simp only [TInv, hop]
      refine ⟨by simp, fun _ => hc0, ?_, ?_, by simp, by simp, by simp [hres], by simp [hres]⟩
      · intro _ v' ver' hg
        simp only [Option.some.injEq, Prod.mk.injEq] at hg
        obtain ⟨rfl, rfl⟩ := hg
        exact ⟨h6 hpc, hm, fun _ => by omega⟩
      · intro _ v' ver' hg
        simp only [Option.some.injEq, Prod.mk.injEq] at hg
        obtain ⟨rfl, rfl⟩ := hg
        exact ⟨hm, by omega⟩
  · -- recheck
    next hop hpc =>
    simp only [hop] at ht
    obtain ⟨h1, h2, h3, h4, h5, h6, h7, h8⟩ := ht
    have hres : th.res = none := h8 (by simp [hpc])
    split at h
    · simp only [Option.some.injEq, Prod.mk.injEq] at h
      obtain ⟨rfl, rfl⟩ := h
      refine ⟨⟨hc, hb, hca⟩, ?_⟩
      simp only [TInv, hop]
      exact ⟨by simp, fun _ => h2 (by simp [hpc]), fun _ => h3 (Or.inl hpc), fun _ => h4 (Or.inl hpc),
        fun _ => h5 (Or.inl hpc), by simp, by simp [hres], by simp [hres]⟩
    · simp only [Option.some.injEq, Prod.mk.injEq] at h
      obtain ⟨rfl, rfl⟩ := h
      refine ⟨⟨hc, hb, hca⟩, ?_⟩
      simp only [TInv, hop]
      exact ⟨by simp, fun _ => h2 (by simp [hpc]), by simp, fun _ => h4 (Or.inl hpc),
        fun _ => h5 (Or.inl hpc), by simp, by simp [hres], by simp [hres]⟩
  · -- insert
    next hop hpc =>
    simp only [hop] at ht
    obtain ⟨h1, h2, h3, h4, h5, h6, h7, h8⟩ := ht
    have hres : th.res = none := h8 (by simp [hpc])
    split at h
    · next v ver hg =>
      simp only [Option.some.injEq, Prod.mk.injEq] at h
      obtain ⟨rfl, rfl⟩ := h
      refine ⟨⟨hc, hb, ?_⟩, ?_⟩
      · intro e he
        simp only [Option.some.injEq] at he
        subst he
        exact h3 (Or.inr hpc) v ver hg
      · simp only [TInv, hop]
        exact ⟨by simp, fun _ => h2 (by simp [hpc]), by simp, fun _ => h4 (Or.inr (Or.inl hpc)),
          fun _ => h5 (Or.inr (Or.inl hpc)), by simp, by simp [hres], by simp [hres]⟩
    · next hg => exact absurd hg (h5 (Or.inr (Or.inl hpc)))
  · -- ret
    next hop hpc =>
    simp only [hop] at ht
    obtain ⟨h1, h2, h3, h4, h5, h6, h7, h8⟩ := ht
    simp only [Option.some.injEq, Prod.mk.injEq] at h
    obtain ⟨rfl, rfl⟩ := h
    refine ⟨⟨hc, hb, hca⟩, ?_⟩
    simp only [TInv, hop]
    refine ⟨by simp, fun _ => h2 (by simp [hpc]), by simp, by simp, by simp, by simp, ?_, by simp⟩
    intro v ver hr
    simp only [Option.some.injEq] at hr
    exact h4 (Or.inr (Or.inr hpc)) v ver hr
  · -- put, wApply
    next v hop hpc =>
    simp only [Option.some.injEq, Prod.mk.injEq] at h
    obtain ⟨rfl, rfl⟩ := h
    refine ⟨⟨by show sh.completed < sh.nextVer + 1; omega, ?_, ?_⟩, ?_⟩
    · intro v' ver' hbk
      simp only [Option.some.injEq, Prod.mk.injEq] at hbk
      obtain ⟨rfl, rfl⟩ := hbk
      exact ⟨rfl, List.mem_cons_self⟩
    · intro e he
      obtain ⟨a, b, c⟩ := hca e he
      exact ⟨a, List.mem_cons_of_mem _ b, c⟩
    · simp only [TInv, hop]
      intro _; exact ⟨v, sh.nextVer, rfl, by show sh.nextVer < sh.nextVer + 1; omega⟩
  · -- del, wApply
    next hop hpc =>
    simp only [Option.some.injEq, Prod.mk.injEq] at h
    obtain ⟨rfl, rfl⟩ := h
    refine ⟨⟨by show sh.completed < sh.nextVer + 1; omega, (by intro v ver hbk; cases hbk), hca⟩, ?_⟩
    simp only [TInv, hop]
    intro _; exact ⟨0, sh.nextVer, rfl, by show sh.nextVer < sh.nextVer + 1; omega⟩
  · next v hop hpc => exact bump_inv sh th sh' th' (by simpa using h) ⟨hc, hb, hca⟩ (by rw [hop]; simp) (by
      simp only [hop] at ht; exact ht hpc)
  · next hop hpc => exact bump_inv sh th sh' th' (by simpa using h) ⟨hc, hb, hca⟩ (by rw [hop]; simp) (by
      simp only [hop] at ht; exact ht hpc)
  · next v hop hpc => exact evict_inv sh th sh' th' (by simpa using h) ⟨hc, hb, hca⟩ (by rw [hop]; simp)
  · next hop hpc => exact evict_inv sh th sh' th' (by simpa using h) ⟨hc, hb, hca⟩ (by rw [hop]; simp)
  · cases h

structure Inv (c : Cfg) : Prop where
  sh : SInv c.sh
  th : ∀ (x : Nat) (th : Thread), c.th[x]? = some th → TInv c.sh th

theorem step_elim {t : Nat} {c c' : Cfg} (h : step t c = some c') :
    ∃ th sh' th', c.th[t]? = some th ∧ stepThread c.sh th = some (sh', th') ∧
      c' = { sh := sh', th := c.th.set t th' } := by
  unfold step at h
  split at h
  · simp at h
  · next th hth =>
    split at h
    · simp at h
    · next sh' th' hst =>
      simp only [Option.some.injEq] at h
      exact ⟨th, sh', th', hth, hst, h.symm⟩

theorem Inv.step {t : Nat} {c c' : Cfg} (inv : Inv c) (h : step t c = some c') : Inv c' := by
  obtain ⟨th, sh', th', hth, hst, rfl⟩ := step_elim h
  obtain ⟨hs', ht'⟩ := stepThread_inv _ _ _ _ hst inv.sh (inv.th t th hth)
  obtain ⟨hn, hh, hc, hsq⟩ := stepThread_mono _ _ _ _ hst
  refine ⟨hs', ?_⟩
  intro x thx hx
  by_cases hxt : x = t
  · subst hxt
    have hlt : x < c.th.length := by
      rcases Nat.lt_or_ge x c.th.length with hlt | hge
      · exact hlt
      · simp [List.getElem?_eq_none hge] at hth
    simp only [List.getElem?_set, hlt, if_true] at hx
    cases hx
    exact ht'
  · simp only [List.getElem?_set, Ne.symm hxt, if_false] at hx
    exact (inv.th x thx hx).mono hn hh hc hsq

theorem Inv.init (sh : Shared) (hs : SInv sh) (ops : List Op) : Inv (start sh ops) := by
  refine ⟨hs, ?_⟩
  intro x th hx
  simp only [start, List.getElem?_map, Option.map_eq_some_iff] at hx
  obtain ⟨op, _, rfl⟩ := hx
  unfold TInv mkThread
  cases op <;> simp

theorem inv_run (sh : Shared) (hs : SInv sh) (ops : List Op) (s : List Nat) : Inv (run s (start sh ops)) :=
  Sched.sched_inv step Inv (fun _ _ _ inv h => inv.step h) s _ (Inv.init sh hs ops)

theorem SInv.empty : SInv {} :=
  ⟨by decide, (by intro v ver h; cases h), (by intro e h; cases h)⟩

end AndaVerif.ConcCache
