import AndaVerif.Proofs.ConcLinE
import AndaVerif.Proofs.ConcSaved
/-
Concrete handles and call sets used by the non-vacuity examples and the counterexamples of
`Props/C05.lean`, with the proofs that they satisfy the theorems' hypotheses.
-/
namespace AndaVerif.ConcColl

/-- The default handle: empty collection, one unique index. -/
def sh0 : Shared := initShared { idxK := true, idxU := false, stripes := 128, stride := 64, fine := false }

example : WF sh0 := initShared_WF _

/-- a handle holding document 1 = (5, 0, 0) -/
def sh1 : Shared := (run [0, 0, 0, 0] (start sh0 [.add ⟨5, 0, 0⟩])).sh

/-- two unique indexes, index closure of `add` split per index (what two worker threads can do);
one document (k = 1, u = 9) -/
def shF : Shared :=
  { conf := { idxK := true, idxU := true, stripes := 128, stride := 64, fine := true },
    maxId := 1, watermark := 65, ids := [1],
    store := fun i => if i = 1 then some (⟨1, 9, 0⟩, 1) else none, nextVer := 2,
    idxK := [(1, 1)], idxU := [(9, 1)], statVer := 1, savedVer := 1, inserts := 1,
    hist := [(1, ⟨1, 9, 0⟩)], gdocs := fun i => if i = 1 then some ⟨1, 9, 0⟩ else none }

theorem shF_WF : WF shF := by
  refine ⟨rfl, rfl, fun _ => rfl, rfl, rfl, rfl, rfl, ?_, ?_⟩
  · intro i h
    simp only [shF] at h ⊢
    split at h
    · omega
    · exact absurd rfl h
  · intro i d v h
    simp only [shF] at h ⊢
    split at h
    · next hi => simp at h; simp [hi, h.1]
    · cases h

theorem shF_Agree : Agree shF := by
  refine ⟨?_, ?_, ?_⟩
  · intro i; simp only [shF]; by_cases hi : i = 1 <;> simp [hi]
  · intro _ k i
    simp only [shF, List.mem_singleton, Prod.mk.injEq]
    by_cases hi : i = 1
    · subst hi; simp; exact eq_comm
    · simp [hi]
  · intro _ u i
    simp only [shF, List.mem_singleton, Prod.mk.injEq]
    by_cases hi : i = 1
    · subst hi; simp; exact eq_comm
    · simp [hi]

theorem shF_Ghost : GhostInit shF := by
  refine ⟨?_, rfl⟩
  funext i
  simp only [shF]
  by_cases hi : i = 1 <;> simp [hi]

/-- a log in which every call is an `add` that returned `AlreadyExists` never changes the state,
and each of its entries is a legal step in that state -/
theorem explains_all_dup (conf : Config) (ops : List Op) (log : List (Nat × Res)) (a a' : SpecState)
    (h : Explains conf ops log a a')
    (hall : ∀ x r, (x, r) ∈ log → r = .err .exists ∧ ∃ d, ops[x]? = some (.add d)) :
    a' = a ∧ ∀ x r, (x, r) ∈ log → ∃ op, ops[x]? = some op ∧ SpecF conf op r a a := by
  induction h with
  | nil a => exact ⟨rfl, fun x r hm => by cases hm⟩
  | cons log t r op a a1 a2 _ hop hspec ih =>
    obtain ⟨h1, h2⟩ := ih (fun x r' hm => hall x r' (List.mem_cons_of_mem _ hm))
    obtain ⟨hr, d, hd⟩ := hall t r List.mem_cons_self
    rw [hop] at hd
    have hop' : op = .add d := Option.some.inj hd
    subst hop'; subst hr; subst h1
    have h12 : a2 = a1 := by cases hspec; rfl
    subst h12
    refine ⟨rfl, fun x r' hm => ?_⟩
    rcases List.mem_cons.mp hm with he | hm'
    · simp only [Prod.mk.injEq] at he
      obtain ⟨rfl, rfl⟩ := he
      exact ⟨_, hop, hspec⟩
    · exact h2 x r' hm'

/-- two unique indexes, fine granularity; documents 1 = (k=1, u=2), 2 = (k=3, u=9) -/
def shG : Shared :=
  { conf := { idxK := true, idxU := true, stripes := 128, stride := 64, fine := true },
    maxId := 2, watermark := 65, ids := [1, 2],
    store := fun i => if i = 1 then some (⟨1, 2, 0⟩, 1) else if i = 2 then some (⟨3, 9, 0⟩, 2) else none,
    nextVer := 3, idxK := [(1, 1), (3, 2)], idxU := [(2, 1), (9, 2)], statVer := 2, savedVer := 2,
    inserts := 2, hist := [(1, ⟨1, 2, 0⟩), (2, ⟨3, 9, 0⟩)] }


/-- coarse granularity, unique index on `k`; document 1 = (k=5, u=0, v=0) -/
def shW : Shared :=
  { conf := { idxK := true, idxU := false, stripes := 128, stride := 64, fine := false },
    maxId := 1, watermark := 65, ids := [1],
    store := fun i => if i = 1 then some (⟨5, 0, 0⟩, 1) else none, nextVer := 2,
    idxK := [(5, 1)], statVer := 1, savedVer := 1, inserts := 1,
    pIds := some [1],
    pMeta := some { maxId := 1, numDocs := 1, statVer := 1, inserts := 1, updates := 0, deletes := 0, ext := [] },
    hist := [(1, ⟨5, 0, 0⟩)], gdocs := fun i => if i = 1 then some ⟨5, 0, 0⟩ else none }

/-- an update and a remove of document 1, an add of the key it holds, an add of a free key -/
def opsW : List Op := [.upd 1 none none (some 9), .rm 1, .add ⟨5, 1, 1⟩, .add ⟨6, 2, 2⟩]

theorem shW_WF : WF shW := by
  refine ⟨rfl, rfl, fun _ => rfl, rfl, rfl, rfl, rfl, ?_, ?_⟩
  · intro i h
    simp only [shW] at h ⊢
    split at h
    · omega
    · exact absurd rfl h
  · intro i d v h
    simp only [shW] at h ⊢
    split at h
    · next hi => simp at h; simp [hi, h.1]
    · cases h

theorem shW_Agree : Agree shW := by
  refine ⟨?_, ?_, ?_⟩
  · intro i; simp only [shW]; by_cases hi : i = 1 <;> simp [hi]
  · intro _ k i
    simp only [shW, List.mem_singleton, Prod.mk.injEq]
    by_cases hi : i = 1
    · subst hi; simp; exact eq_comm
    · simp [hi]
  · intro h; simp [shW] at h

theorem shW_Ghost : GhostInit shW := by
  refine ⟨?_, rfl⟩
  funext i
  simp only [shW]
  by_cases hi : i = 1 <;> simp [hi]

theorem shW_Saved : SavedInit shW := by
  refine ⟨by decide, fun _ => ⟨rfl, rfl⟩⟩

theorem opsW_OK : OpsOK shW.maxId opsW := by
  refine ⟨?_, ?_⟩
  · intro op hop id ht
    simp only [opsW, List.mem_cons, List.not_mem_nil, or_false] at hop
    rcases hop with rfl | rfl | rfl | rfl <;> simp [opTarget] at ht <;> simp [shW, ← ht]
  · intro id hm
    simp [opsW] at hm

end AndaVerif.ConcColl
