import AndaVerif.Proofs.ObjStoreInv
import AndaVerif.Gen.SidecarOrderFacts
/-
Every prefix of the step list of a commit (write / copy) and of a delete: the backend invariant
holds and cold reads are known exactly.  Consumed by the refinement (full list) and by the crash
theorems (every cut).
-/
namespace AndaVerif.ObjStore

open Gen.SidecarOrder

theorem commitSteps_std (payload : List Step) (pointer : Step) (reclaim : List Step) :
    commitSteps [.payload, .pointer, .reclaim] payload pointer reclaim = payload ++ pointer :: reclaim := by
  simp [commitSteps]

theorem curOf_doc (be : Backend) (k : Path) : (curOf be k).doc? = docAt be k := by
  unfold curOf docAt Cur.doc?
  cases h : aget be (.mt k) with
  | none => rfl
  | some e =>
      obtain ⟨o, t⟩ := e
      cases o <;> rfl

theorem curOf_absent_iff (be : Backend) (k : Path) : curOf be k = .absent ↔ aget be (.mt k) = none := by
  unfold curOf
  cases h : aget be (.mt k) with
  | none => simp
  | some e =>
      obtain ⟨o, t⟩ := e
      cases o <;> simp

/-- what a key reads once a commit point `d` over payload bytes `b` written at `now` is published -/
def committed (d : Doc) (b : Bytes) (now : Nat) : REnt := ⟨b, d.etag.getD .empty, (logicalLM d).getD now⟩

/-- the reclaim step list removes at most the replaced payload of the same key, never the new one -/
theorem reclaimOf_cases (replaced : Option BPath) (k : Path) (d : Doc) :
    reclaimOf replaced k d = [] ∨ ∃ old, replaced = some old ∧ old ≠ payloadPath k d.gen ∧ reclaimOf replaced k d = [.del old] := by
  unfold reclaimOf
  cases replaced with
  | none => exact Or.inl rfl
  | some old =>
      by_cases h : old ≠ payloadPath k d.gen
      · exact Or.inr ⟨old, rfl, h, by simp [h]⟩
      · exact Or.inl (by simp [h])

/-- generic tail: after the pointer switch of `k` to `d`, reclaiming the replaced payload of `k`
changes neither the invariant nor any read -/
theorem reclaim_tail {be : Backend} {n : Nat} (now : Nat) (k : Path) (d : Doc) (t : Nat) (be1 : Backend)
    (hbe : be = aset be1 (.mt k) ⟨.doc d, t⟩) (h : BInv be n) (c : Option Doc) (m : Nat) :
    BInv (applySteps now be ((reclaimOf (c.map (fun c => payloadPath k c.gen)) k d).take m)) n ∧
    ∀ x, readCold (applySteps now be ((reclaimOf (c.map (fun c => payloadPath k c.gen)) k d).take m)) x = readCold be x := by
  rcases reclaimOf_cases (c.map (fun c => payloadPath k c.gen)) k d with h0 | ⟨old, hold, hne, h1⟩
  · rw [h0]; simp [applySteps, h]
  · rw [h1]
    cases m with
    | zero => simp [applySteps, h]
    | succ m =>
        simp only [List.take_succ_cons, List.take_nil, applySteps, List.foldl_cons, List.foldl_nil, applyStep]
        cases c with
        | none => simp at hold
        | some c0 =>
            simp only [Option.map_some, Option.some.injEq] at hold
            subst hold
            have hu : Unreferenced be (payloadPath k c0.gen) := by
              rw [hbe]; exact unreferenced_after_putDoc be1 k d t c0.gen hne
            exact ⟨h.delUnref _ (fun x => payloadPath_ne_mt _ _ _) hu,
                   readCold_adel_unref _ _ (fun x => payloadPath_ne_mt _ _ _) hu⟩

/-- **write commit** (put / multipart complete): every prefix. -/
theorem write_prefix {be : Backend} {nid : Nat} (h : BInv be nid) (now : Nat) (k : Path) (g : Gen) (hg : g.id = nid)
    (data : Bytes) (d : Doc) (hd : d.gen = some g) (hs : d.size = data.length) (n : Nat) :
    let steps := [Step.putBlob (.gen k g) data] ++ Step.putDoc k d :: reclaimOf ((docAt be k).map (fun c => payloadPath k c.gen)) k d
    BInv (applyPrefix now be steps n) (nid + 1) ∧
    ∀ x, readCold (applyPrefix now be steps n) x =
      if x = k ∧ 2 ≤ n then some (committed d data now) else readCold be x := by
  intro steps
  have hu : Unreferenced be (.gen k g) := unreferenced_of_fresh h k g (by omega)
  have h1 : BInv (aset be (.gen k g) ⟨.blob data, now⟩) (nid + 1) := by
    have := h.putBlob k g data now hu
    rw [hg] at this
    simpa [Nat.max_eq_right (Nat.le_succ nid)] using this
  have r1 : ∀ x, readCold (aset be (.gen k g) ⟨.blob data, now⟩) x = readCold be x :=
    readCold_aset_unref be _ _ (by simp) hu
  have hpay : aget (aset be (.gen k g) ⟨.blob data, now⟩) (payloadPath k d.gen) = some ⟨.blob data, now⟩ := by
    rw [hd]; simp [payloadPath, aget_aset_eq]
  have h2 := h1.putDoc k d now data now hpay hs
  have r2 : ∀ x, readCold (aset (aset be (.gen k g) ⟨.blob data, now⟩) (.mt k) ⟨.doc d, now⟩) x =
      if x = k then some (committed d data now) else readCold be x := by
    intro x
    rw [readCold_putDoc]
    by_cases hx : x = k
    · simp [hx, resolveDoc, hpay, committed]
    · simp [hx, r1]
  rcases n with _ | _ | n
  · simp [steps, applyPrefix, applySteps, h.mono (Nat.le_succ nid)]
  · simp [steps, applyPrefix, applySteps, applyStep, h1, r1]
  · have ht := reclaim_tail now k d now _ rfl h2 (docAt be k) n
    simp only [steps, applyPrefix, List.cons_append, List.nil_append, List.take_succ_cons, applySteps, List.foldl_cons,
      applyStep] at ht ⊢
    refine ⟨ht.1, ?_⟩
    intro x
    rw [ht.2 x, r2 x]
    by_cases hx : x = k <;> simp [hx]

end AndaVerif.ObjStore

namespace AndaVerif.ObjStore
open Gen.SidecarOrder

theorem applyPrefix_cons_congr (now : Nat) (be : Backend) (s s' : Step) (rest : List Step) (n : Nat)
    (h : applyStep now be s = applyStep now be s') :
    applyPrefix now be (s :: rest) n = applyPrefix now be (s' :: rest) n := by
  cases n with
  | zero => rfl
  | succ n => simp [applyPrefix, applySteps, h]

theorem applyStep_copyBlob {be : Backend} {src : BPath} {b : Bytes} {bt : Nat} (now : Nat) (dst : BPath)
    (h : aget be src = some ⟨.blob b, bt⟩) :
    applyStep now be (.copyBlob src dst) = applyStep now be (.putBlob dst b) := by
  simp [applyStep, h]

/-- **copy commit**: every prefix (the payload copy lands on a fresh generation of `dst`). -/
theorem copy_prefix {be : Backend} {nid : Nat} (h : BInv be nid) (now : Nat) (dst : Path) (g : Gen) (hg : g.id = nid)
    (srcPath : BPath) (b : Bytes) (bt : Nat) (hsrc : aget be srcPath = some ⟨.blob b, bt⟩)
    (d : Doc) (hd : d.gen = some g) (hs : d.size = b.length) (n : Nat) :
    let steps := [Step.copyBlob srcPath (.gen dst g)] ++ Step.putDoc dst d :: reclaimOf ((docAt be dst).map (fun c => payloadPath dst c.gen)) dst d
    BInv (applyPrefix now be steps n) (nid + 1) ∧
    ∀ x, readCold (applyPrefix now be steps n) x =
      if x = dst ∧ 2 ≤ n then some (committed d b now) else readCold be x := by
  intro steps
  have := write_prefix h now dst g hg b d hd hs n
  simp only [steps, List.cons_append, List.nil_append] at this ⊢
  rw [applyPrefix_cons_congr now be _ _ _ n (applyStep_copyBlob now _ hsrc)]
  exact this

/-- a refused copy (`Create` onto an existing key) leaves one unreferenced generation behind -/
theorem copy_garbage_prefix {be : Backend} {nid : Nat} (h : BInv be nid) (now : Nat) (dst : Path) (g : Gen) (hg : g.id = nid)
    (srcPath : BPath) (b : Bytes) (bt : Nat) (hsrc : aget be srcPath = some ⟨.blob b, bt⟩) (n : Nat) :
    BInv (applyPrefix now be [Step.copyBlob srcPath (.gen dst g)] n) (nid + 1) ∧
    ∀ x, readCold (applyPrefix now be [Step.copyBlob srcPath (.gen dst g)] n) x = readCold be x := by
  have hu : Unreferenced be (.gen dst g) := unreferenced_of_fresh h dst g (by omega)
  rw [applyPrefix_cons_congr now be _ _ _ n (applyStep_copyBlob now _ hsrc)]
  cases n with
  | zero => simp [applyPrefix, applySteps, h.mono (Nat.le_succ nid)]
  | succ n =>
      have h1 := h.putBlob dst g b now hu
      rw [hg] at h1
      simp only [applyPrefix, List.take_succ_cons, List.take_nil, applySteps, List.foldl_cons, List.foldl_nil, applyStep]
      exact ⟨by simpa [Nat.max_eq_right (Nat.le_succ nid)] using h1, readCold_aset_unref be _ _ (by simp) hu⟩

theorem deleteSteps_std (k : Path) (payload : List Step) :
    ([DeletePhase.pointer, DeletePhase.payload].flatMap (fun ph =>
        match ph with
        | .pointer => [Step.del (.mt k)]
        | .payload => payload)) = Step.del (.mt k) :: payload := by
  simp

/-- the steps of a delete of `k` whose commit point currently decodes to `c` -/
def deleteSteps (k : Path) : Option Doc → List Step
  | some d => [Step.del (.mt k), Step.del (payloadPath k d.gen)]
  | none => []

/-- **delete**: every prefix (commit point first, payload second). -/
theorem delete_prefix {be : Backend} {nid : Nat} (h : BInv be nid) (now : Nat) (k : Path) (n : Nat) :
    let payload : List Step := match docAt be k with | some d => [Step.del (payloadPath k d.gen)] | none => []
    BInv (applyPrefix now be (Step.del (.mt k) :: payload) n) nid ∧
    ∀ x, readCold (applyPrefix now be (Step.del (.mt k) :: payload) n) x =
      if x = k ∧ 1 ≤ n then none else readCold be x := by
  intro payload
  have h1 := h.delDoc k
  have r1 := readCold_delDoc be k
  rcases n with _ | n
  · simp [applyPrefix, applySteps, h]
  · simp only [applyPrefix, List.take_succ_cons, applySteps, List.foldl_cons, applyStep]
    cases hd : docAt be k with
    | none =>
        simp only [payload, hd, List.take_nil, List.foldl_nil]
        refine ⟨h1, fun x => ?_⟩
        rw [r1]; by_cases hx : x = k <;> simp [hx]
    | some d =>
        simp only [payload, hd]
        cases n with
        | zero =>
            simp only [List.take_zero, List.foldl_nil]
            refine ⟨h1, fun x => ?_⟩
            rw [r1]; by_cases hx : x = k <;> simp [hx]
        | succ n =>
            simp only [List.take_succ_cons, List.take_nil, List.foldl_cons, List.foldl_nil, applyStep]
            have hu := unreferenced_after_delDoc be k d.gen
            refine ⟨h1.delUnref _ (fun x => payloadPath_ne_mt _ _ _) hu, fun x => ?_⟩
            rw [readCold_adel_unref _ _ (fun x => payloadPath_ne_mt _ _ _) hu, r1]
            by_cases hx : x = k <;> simp [hx]

end AndaVerif.ObjStore
