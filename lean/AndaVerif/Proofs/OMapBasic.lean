import AndaVerif.Model.OMap
/-
Helper lemmas about the ordered multimap model: `sortDedup`, strictly ascending lists, `lookup`,
`ins`, `del`, `swapRemove`, well-formedness preservation.
-/
namespace AndaVerif

-- ------------------------------------------------------------------------------------------
-- strictly ascending lists
-- ------------------------------------------------------------------------------------------

abbrev SSorted (l : List Int) : Prop := l.Pairwise (· < ·)

theorem ssorted_ext : ∀ (l₁ l₂ : List Int), SSorted l₁ → SSorted l₂ → (∀ a, a ∈ l₁ ↔ a ∈ l₂) → l₁ = l₂
  | [], [], _, _, _ => rfl
  | [], y :: ys, _, _, h => by have := (h y).2 (by simp); simp at this
  | x :: xs, [], _, _, h => by have := (h x).1 (by simp); simp at this
  | x :: xs, y :: ys, h₁, h₂, h => by
    simp only [SSorted, List.pairwise_cons] at h₁ h₂
    have hx := (h x).1 (by simp)
    have hy := (h y).2 (by simp)
    have hxy : x = y := by
      rcases List.mem_cons.1 hx with e | hx'
      · exact e
      · rcases List.mem_cons.1 hy with e | hy'
        · exact e.symm
        · have := h₁.1 y hy'; have := h₂.1 x hx'; omega
    subst hxy
    have : xs = ys := by
      apply ssorted_ext xs ys h₁.2 h₂.2
      intro a
      constructor
      · intro ha
        have := (h a).1 (List.mem_cons_of_mem _ ha)
        rcases List.mem_cons.1 this with e | h'
        · have := h₁.1 a ha; omega
        · exact h'
      · intro ha
        have := (h a).2 (List.mem_cons_of_mem _ ha)
        rcases List.mem_cons.1 this with e | h'
        · have := h₂.1 a ha; omega
        · exact h'
    rw [this]

theorem mem_insertSorted (x a : Int) : ∀ l, a ∈ insertSorted x l ↔ a = x ∨ a ∈ l
  | [] => by simp [insertSorted]
  | y :: ys => by
    have ih := mem_insertSorted x a ys
    simp only [insertSorted]
    split
    · simp
    · split
      · rename_i h; subst h; simp
      · simp [ih]; constructor <;> (intro h; rcases h with h | h | h <;> simp [h])

theorem ssorted_insertSorted (x : Int) : ∀ l, SSorted l → SSorted (insertSorted x l)
  | [], _ => by simp [insertSorted]
  | y :: ys, h => by
    have ih := ssorted_insertSorted x ys
    simp only [SSorted, List.pairwise_cons] at h
    simp only [insertSorted, SSorted]
    split
    · rename_i hxy
      rw [List.pairwise_cons]
      refine ⟨?_, List.pairwise_cons.2 h⟩
      intro a ha
      rcases List.mem_cons.1 ha with e | h'
      · omega
      · have := h.1 a h'; omega
    · split
      · exact List.pairwise_cons.2 h
      · rw [List.pairwise_cons]
        refine ⟨?_, ih h.2⟩
        intro a ha
        rcases (mem_insertSorted x a ys).1 ha with e | h'
        · omega
        · exact h.1 a h'

theorem mem_sortDedup (a : Int) : ∀ l, a ∈ sortDedup l ↔ a ∈ l
  | [] => by simp [sortDedup]
  | x :: xs => by
    have ih := mem_sortDedup a xs
    simp only [sortDedup, List.foldr_cons] at ih ⊢
    rw [mem_insertSorted, ih]; simp

theorem ssorted_sortDedup : ∀ l, SSorted (sortDedup l)
  | [] => by simp [sortDedup]
  | x :: xs => by
    have ih := ssorted_sortDedup xs
    simp only [sortDedup, List.foldr_cons] at ih ⊢
    exact ssorted_insertSorted x _ ih

theorem sortDedup_of_ssorted (l : List Int) (h : SSorted l) : sortDedup l = l :=
  ssorted_ext _ _ (ssorted_sortDedup l) h (fun a => mem_sortDedup a l)

theorem ssorted_filter (p : Int → Bool) (l : List Int) (h : SSorted l) : SSorted (l.filter p) :=
  List.Pairwise.filter p h

/-- two filters of one ascending list / an ascending list described by membership -/
theorem ssorted_eq_filter (l ks : List Int) (p : Int → Bool) (hl : SSorted l) (hk : SSorted ks)
    (h : ∀ a, a ∈ l ↔ a ∈ ks ∧ p a = true) : l = ks.filter p :=
  ssorted_ext _ _ hl (ssorted_filter p ks hk) (fun a => by rw [h a, List.mem_filter])

-- ------------------------------------------------------------------------------------------
-- swapRemove
-- ------------------------------------------------------------------------------------------

theorem swapRemove_perm {α : Type} (l : List α) (i : Nat) (hi : i < l.length) :
    (l[i] :: swapRemove l i).Perm l := by
  have hsplit : l = l.take i ++ l[i] :: l.drop (i + 1) := by
    rw [List.getElem_cons_drop, List.take_append_drop]
  unfold swapRemove
  cases hlast : (l.drop (i + 1)).getLast? with
  | none =>
    have hnil : l.drop (i + 1) = [] := List.getLast?_eq_none_iff.1 hlast
    simp only
    conv => rhs; rw [hsplit, hnil]
    exact (List.perm_append_singleton _ _).symm
  | some z =>
    obtain ⟨ys, hys⟩ := List.getLast?_eq_some_iff.1 hlast
    simp only
    conv => rhs; rw [hsplit]
    rw [hys, List.dropLast_concat]
    refine List.Perm.trans ?_ (List.perm_middle (l₁ := l.take i)).symm
    refine List.Perm.cons _ ?_
    refine List.Perm.append_left _ ?_
    exact (List.perm_append_singleton z _).symm

theorem mem_swapRemove {α : Type} (l : List α) (i : Nat) (hi : i < l.length) (x : α) :
    x ∈ l ↔ x = l[i] ∨ x ∈ swapRemove l i := by
  rw [← (swapRemove_perm l i hi).mem_iff, List.mem_cons]

end AndaVerif
