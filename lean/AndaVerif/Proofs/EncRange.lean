/-
C09: chunk-span arithmetic of `get_opts` and `get_ranges` (all sizes, chunk sizes, ranges).
-/
import AndaVerif.Proofs.EncBasic

namespace AndaVerif.Enc

/-- The overflow fall-backs of `rr_end` never change the result for objects below `2^64` bytes. -/
theorem rrEnd_eq {size c e : Nat} (hc : 1 ≤ c) (hsz : size < U64) :
    rrEnd size c e = min (((e - 1) / c + 1) * c) size := by
  unfold rrEnd
  have hc0 : c ≠ 0 := by omega
  simp only [hc0, if_false, Option.bind_some]
  unfold U64 at hsz
  by_cases h1 : (e - 1) / c + 1 > U64MAX
  · simp only [h1, if_true, Option.bind_none, Option.getD_none]
    have : U64MAX < ((e - 1) / c + 1) * c := Nat.lt_of_lt_of_le h1 (Nat.le_mul_of_pos_right _ (by omega))
    unfold U64MAX at *; omega
  · simp only [h1, if_false, Option.bind_some]
    by_cases h2 : ((e - 1) / c + 1) * c > U64MAX
    · simp only [h2, if_true, Option.getD_none]
      unfold U64MAX at *; omega
    · simp only [h2, if_false, Option.getD_some]

/-- Facts about the chunk-aligned cover `[a, b)` of `[s, e)`. -/
structure Cover (size c s e a b : Nat) : Prop where
  aligned : a % c = 0
  a_eq : a = s / c * c
  below : a ≤ s
  offset : s - a < c
  above : e ≤ b
  within : b ≤ size
  endAligned : b % c = 0 ∨ b = size
  tight : b - e < c
  idx : a / c = s / c

theorem cover_of {size c s e : Nat} (hc : 1 ≤ c) (hse : s < e) (he : e ≤ size) :
    Cover size c s e (s / c * c) (min (((e - 1) / c + 1) * c) size) := by
  have h1 := Nat.div_add_mod s c
  have h2 := Nat.mod_lt s (show c > 0 by omega)
  have h3 := Nat.div_add_mod (e - 1) c
  have h4 := Nat.mod_lt (e - 1) (show c > 0 by omega)
  have e1 : s / c * c = c * (s / c) := Nat.mul_comm _ _
  have e2 : ((e - 1) / c + 1) * c = c * ((e - 1) / c) + c := by rw [Nat.add_mul, Nat.mul_comm]; simp
  refine ⟨Nat.mul_mod_left _ _, rfl, ?_, ?_, ?_, ?_, ?_, ?_, ?_⟩
  · rw [e1]; omega
  · rw [e1]; omega
  · rw [e2]; omega
  · exact Nat.min_le_right _ _
  · by_cases h : ((e - 1) / c + 1) * c ≤ size
    · left; rw [Nat.min_eq_left h]; exact Nat.mul_mod_left _ _
    · right; exact Nat.min_eq_right (by omega)
  · rw [e2]; omega
  · exact Nat.mul_div_cancel _ (by omega)

/-- Trimming the decrypted cover gives exactly the requested slice. -/
theorem trim_cover (P : Bytes) {a b s e : Nat} (h1 : a ≤ s) (h2 : s ≤ e) (h3 : e ≤ b) :
    ((slice P a b).drop (s - a)).take (e - s) = slice P s e := by
  unfold slice
  rw [List.drop_take, List.drop_drop, List.take_take]
  have : a + (s - a) = s := by omega
  rw [this]
  congr 1
  omega

/-- `get_ranges`: the saturating span equals the same cover. -/
theorem spanOf_eq {size c s e : Nat} (hc : 1 ≤ c) (hsz : size < U64) :
    spanOf size c s e = (s / c * c, min (((e - 1) / c + 1) * c) size) := by
  unfold spanOf
  congr 1
  unfold U64 at hsz
  by_cases h1 : (e - 1) / c + 1 ≤ U64MAX
  · rw [Nat.min_eq_left h1]
    generalize ((e - 1) / c + 1) * c = B
    unfold U64MAX; omega
  · have h1' : U64MAX ≤ (e - 1) / c + 1 := by omega
    rw [Nat.min_eq_right h1']
    have hm : U64MAX ≤ U64MAX * c := Nat.le_mul_of_pos_right _ (by omega)
    have hb : U64MAX < ((e - 1) / c + 1) * c :=
      Nat.lt_of_lt_of_le (by omega) (Nat.le_mul_of_pos_right _ (by omega))
    generalize ((e - 1) / c + 1) * c = B at hb
    generalize U64MAX * c = B' at hm
    unfold U64MAX at *; omega

end AndaVerif.Enc

namespace AndaVerif.Enc

theorem asRange_ok {len : Nat} {r : GetRange} {s e : Nat} (h : asRange len r = .ok (s, e)) :
    s ≤ e ∧ e ≤ len := by
  cases r with
  | bounded a b =>
    simp only [asRange] at h
    repeat (split at h <;> try cases h)
    all_goals omega
  | offset o =>
    simp only [asRange] at h
    split at h <;> cases h
    omega
  | suffix n =>
    simp only [asRange] at h
    cases h
    omega

/-- Every plan `get_opts` computes: the reported range lies inside the object, the stream parameters
address its start. -/
theorem getPlan_ok {size c : Nat} (hc : 1 ≤ c) {range : Option GetRange} {head : Bool} {plan : GetPlan}
    (h : getPlan size c range head = .ok plan) :
    plan.rStart ≤ plan.rEnd ∧ plan.rEnd ≤ size ∧ plan.len = plan.rEnd - plan.rStart ∧
    (plan.rStart < plan.rEnd →
      plan.startIdx = plan.rStart / c ∧ plan.startOffset = plan.rStart - plan.rStart / c * c) := by
  unfold getPlan at h
  have key : ∀ s0 e0, s0 ≤ e0 → e0 ≤ size →
      (let (s, e) := if head then (s0, s0) else (s0, e0)
       if s = e then
         (.ok { rStart := s, rEnd := e, rr := none, startIdx := s / c, startOffset := 0, len := 0 } : Except RErr GetPlan)
       else
         let rrS := s / c * c
         let rrE := rrEnd size c e
         .ok { rStart := s, rEnd := e, rr := if rrE > rrS then some (rrS, rrE) else none,
               startIdx := rrS / c, startOffset := s - rrS, len := e - s }) = .ok plan →
      plan.rStart ≤ plan.rEnd ∧ plan.rEnd ≤ size ∧ plan.len = plan.rEnd - plan.rStart ∧
      (plan.rStart < plan.rEnd →
        plan.startIdx = plan.rStart / c ∧ plan.startOffset = plan.rStart - plan.rStart / c * c) := by
    intro s0 e0 h1 h2 hp
    cases head
    · simp only [Bool.false_eq_true, if_false] at hp
      split at hp
      · injection hp with hp; subst hp; simp only; omega
      · injection hp with hp; subst hp; simp only
        refine ⟨h1, h2, trivial, fun _ => ⟨Nat.mul_div_cancel _ (by omega), trivial⟩⟩
    · simp only [if_true] at hp
      injection hp with hp; subst hp; simp only; omega
  cases range with
  | none =>
    simp only at h
    exact key 0 size (Nat.zero_le _) (Nat.le_refl _) h
  | some r =>
    simp only at h
    cases hr : asRange size r with
    | error e => simp [hr] at h
    | ok se =>
      obtain ⟨s0, e0⟩ := se
      simp only [hr] at h
      obtain ⟨h1, h2⟩ := asRange_ok hr
      exact key s0 e0 h1 h2 h

end AndaVerif.Enc
