import AndaVerif.Model.HnswStore
import AndaVerif.Proofs.HnswSearch
/-
Helper lemmas for C12, state side: `remove` (the id leaves the node map, the entry point stays
inside it), `load` (`LoadedInv` on every durable state), and the flush write sequence.
-/
namespace AndaVerif.Hnsw

/-! ### node map surgery -/

theorem keys_eraseKey (m : NodeMap) (i : Nat) : i ∉ keys (eraseKey m i) := by
  simp only [keys, eraseKey, List.mem_map, List.mem_filter, not_exists, not_and]
  intro p hp hpi
  simp [hpi] at hp

theorem mem_keys_eraseKey {m : NodeMap} {i j : Nat} : j ∈ keys (eraseKey m i) ↔ j ∈ keys m ∧ j ≠ i := by
  simp only [keys, eraseKey, List.mem_map, List.mem_filter]
  constructor
  · rintro ⟨p, ⟨hp, hne⟩, rfl⟩
    exact ⟨⟨p, hp, rfl⟩, by simpa using hne⟩
  · rintro ⟨⟨p, hp, rfl⟩, hne⟩
    exact ⟨p, ⟨hp, by simpa using hne⟩, rfl⟩

theorem getNode_none_iff {m : NodeMap} {i : Nat} : getNode m i = none ↔ i ∉ keys m := by
  rw [← getNode_isSome_iff]
  cases getNode m i <;> simp

/-! ### the `max_by_key` scan -/

theorem exists_top (m : NodeMap) (h : m ≠ []) : ∃ p ∈ m, p.2.layer = topLayer m := by
  induction m with
  | nil => exact absurd rfl h
  | cons p r ih =>
    by_cases hr : r = []
    · subst hr
      exact ⟨p, List.mem_cons_self .., by simp [topLayer]⟩
    · obtain ⟨q, hq, hql⟩ := ih hr
      by_cases hle : topLayer r ≤ p.2.layer
      · exact ⟨p, List.mem_cons_self .., by simp only [topLayer]; omega⟩
      · exact ⟨q, List.mem_cons_of_mem _ hq, by simp only [topLayer]; omega⟩

theorem defaultPick_isSome (m : NodeMap) (h : m ≠ []) : ∃ p, defaultPick m = some p := by
  obtain ⟨q, hq, hql⟩ := exists_top m h
  unfold defaultPick
  cases hf : m.find? (fun p => p.2.layer == topLayer m) with
  | some p => exact ⟨_, rfl⟩
  | none =>
    rw [List.find?_eq_none] at hf
    have := hf q hq
    simp [hql] at this

theorem defaultPick_mem {m : NodeMap} {p : Nat × Nat} (h : defaultPick m = some p) : p.1 ∈ keys m := by
  unfold defaultPick at h
  cases hf : m.find? (fun p => p.2.layer == topLayer m) with
  | none => simp [hf] at h
  | some q =>
    simp only [hf, Option.some.injEq] at h
    subst h
    have := List.mem_of_find?_eq_some hf
    exact List.mem_map.mpr ⟨q, this, rfl⟩

theorem choose_mem {m : NodeMap} {pick p : Nat × Nat} (h : choose m pick = some p) : p.1 ∈ keys m := by
  unfold choose at h
  split at h
  · simp at h
  · split at h
    · rename_i hok
      simp only [Option.some.injEq] at h
      subst h
      unfold pickOk at hok
      cases hg : getNode m pick.1 with
      | none => simp [hg] at hok
      | some n => exact getNode_some_mem_keys hg
    · exact defaultPick_mem h

theorem choose_none {m : NodeMap} {pick : Nat × Nat} (h : choose m pick = none) : m = [] := by
  unfold choose at h
  split at h
  · rename_i he
    simpa using he
  · rename_i he
    split at h
    · simp at h
    · obtain ⟨p, hp⟩ := defaultPick_isSome m (by simpa using he)
      rw [hp] at h
      simp at h

/-! ### remove -/

theorem keys_pruneAll (id : Nat) (relink : Nat → Nat → List Nat → List Nat) (nbs : List Nat) (m : NodeMap) :
    keys ((pruneAll id relink nbs m).map (fun t => (t.1, t.2.1))) = keys m := by
  simp only [keys, pruneAll, List.map_map]
  apply List.map_congr_left
  intro p _
  simp only [Function.comp]
  split <;> rfl

/-- the entry point is a key of the node map, or the map is empty -/
def EntryOk (s : Index) : Prop := s.nodes = [] ∨ s.entry.1 ∈ keys s.nodes

theorem remove_keys (s : Index) (id : Nat) (pick : Nat × Nat) (relink : Nat → Nat → List Nat → List Nat) :
    keys (remove s id pick relink).1.nodes = keys (eraseKey s.nodes id) := by
  unfold remove
  split
  · rename_i hnone
    have : id ∉ keys s.nodes := getNode_none_iff.mp hnone
    simp only [keys, eraseKey]
    congr 1
    symm
    rw [List.filter_eq_self]
    intro p hp
    have hne : p.1 ≠ id := by
      intro h
      exact this (List.mem_map.mpr ⟨p, hp, h⟩)
    simpa using hne
  · simp only
    exact keys_pruneAll _ _ _ _

theorem remove_not_key (s : Index) (id : Nat) (pick : Nat × Nat) (relink : Nat → Nat → List Nat → List Nat) :
    id ∉ keys (remove s id pick relink).1.nodes := by
  rw [remove_keys]
  exact keys_eraseKey _ _

theorem keys_eq_nil {m : NodeMap} : keys m = [] ↔ m = [] := by
  simp [keys]

theorem remove_entryOk (s : Index) (id : Nat) (pick : Nat × Nat) (relink : Nat → Nat → List Nat → List Nat)
    (h : EntryOk s) : EntryOk (remove s id pick relink).1 := by
  have hk := remove_keys s id pick relink
  unfold EntryOk
  by_cases hnil : keys (eraseKey s.nodes id) = []
  · left
    rw [← keys_eq_nil, hk, hnil]
  · right
    rw [hk]
    unfold remove
    split
    · rename_i hnone
      have hid : id ∉ keys s.nodes := getNode_none_iff.mp hnone
      rcases h with h | h
      · rw [h] at hnil; simp [eraseKey, keys] at hnil
      · exact mem_keys_eraseKey.mpr ⟨h, fun he => hid (he ▸ h)⟩
    · rename_i node hsome
      simp only
      by_cases hrm : s.entry.1 = id
      · simp only [hrm, beq_self_eq_true, if_true]
        cases hc : choose (eraseKey s.nodes id) pick with
        | none =>
          have := choose_none hc
          rw [this] at hnil
          simp [keys] at hnil
        | some p => exact choose_mem hc
      · have hb : (s.entry.1 == id) = false := by simpa using hrm
        simp only [hb, Bool.false_eq_true, if_false]
        rcases h with h | h
        · rw [h] at hsome; simp [getNode] at hsome
        · exact mem_keys_eraseKey.mpr ⟨h, hrm⟩

/-! ### a live entry point never yields `NotFound` -/

theorem searchLayer_notFound {m : NodeMap} {dist : Nat → Option Nat} {ep layer ef x : Nat}
    (h : searchLayer m dist ep layer ef = .error (.notFound x)) : ep ∉ keys m := by
  unfold searchLayer at h
  dsimp only at h
  split at h
  · rename_i hnone
    exact getNode_none_iff.mp hnone
  · split at h
    · simp at h
    · split at h <;> simp at h

theorem searchLayer_head_live {m : NodeMap} {dist : Nat → Option Nat} {ep layer ef : Nat} {res : List Ent}
    (h : searchLayer m dist ep layer ef = .ok res) : ∀ e ∈ res, e.2 ∈ keys m := by
  intro e he
  exact getNode_isSome_iff.mp ((searchLayer_sound h).live e he)

theorem descend_live {m : NodeMap} {dist : Nat → Option Nat} :
    ∀ (ls : List Nat) (cur cd : Nat), cur ∈ keys m →
      (∀ x, descend m dist ls cur cd ≠ .error (.notFound x)) ∧
      (∀ c d, descend m dist ls cur cd = .ok (c, d) → c ∈ keys m) := by
  intro ls
  induction ls with
  | nil =>
    intro cur cd hc
    constructor
    · intro x; simp [descend]
    · intro c d h
      simp only [descend, Except.ok.injEq, Prod.mk.injEq] at h
      rw [← h.1]; exact hc
  | cons l r ih =>
    intro cur cd hc
    unfold descend
    split
    · rename_i e he
      constructor
      · intro x hx
        simp only [Except.error.injEq] at hx
        subst hx
        exact searchLayer_notFound he hc
      · intro c d h; simp at h
    · rename_i near hnear
      split
      · rename_i d id rest
        have hid : id ∈ keys m := searchLayer_head_live hnear (d, id) (List.mem_cons_self ..)
        split
        · exact ih id d hid
        · exact ih cur cd hc
      · exact ih cur cd hc

theorem searchAttempt_no_notFound {m : NodeMap} {entry : Nat × Nat} {dist : Nat → Option Nat} {k efSearch : Nat}
    (he : entry.1 ∈ keys m) (x : Nat) : searchAttempt m entry dist k efSearch ≠ .error (.notFound x) := by
  unfold searchAttempt
  have hd := descend_live (m := m) (dist := dist) (layersDown entry.2) entry.1 f32MaxKey he
  split
  · rename_i e hde
    intro hx
    simp only [Except.error.injEq] at hx
    subst hx
    exact hd.1 x hde
  · rename_i cur cd hde
    have hc := hd.2 cur cd hde
    split
    · rename_i e hse
      intro hx
      simp only [Except.error.injEq] at hx
      subst hx
      exact searchLayer_notFound hse hc
    · simp

theorem searchTry_no_notFound {m : NodeMap} {entry : Nat × Nat} {dist : Nat → Option Nat} {k efSearch : Nat}
    (he : m = [] ∨ entry.1 ∈ keys m) (x : Nat) :
    ∀ more, searchTry m entry dist k efSearch more ≠ .error (.notFound x) := by
  intro more
  induction more with
  | zero =>
    unfold searchTry
    split
    · simp
    · rename_i hne
      rcases he with he | he
      · simp [he] at hne
      · exact searchAttempt_no_notFound he x
  | succ n ih =>
    unfold searchTry
    split
    · simp
    · rename_i hne
      rcases he with he | he
      · simp [he] at hne
      · split
        · exact ih
        · exact searchAttempt_no_notFound he x

end AndaVerif.Hnsw
