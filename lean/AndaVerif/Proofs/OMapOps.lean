import AndaVerif.Proofs.OMapBasic
/-
`lookup` / `ins` / `del` on the ordered multimap: characterisations and `WF` preservation.
-/
namespace AndaVerif
namespace OMap

theorem keys_cons (e : Int × List Nat) (m : OMap) : keys (e :: m) = e.1 :: keys m := rfl

theorem wf_nil : WF [] := by simp [WF, keys]

theorem wf_cons (k : Int) (p : List Nat) (m : OMap) :
    WF ((k, p) :: m) ↔ (∀ a ∈ keys m, k < a) ∧ p ≠ [] ∧ p.Nodup ∧ WF m := by
  simp only [WF, keys_cons, List.pairwise_cons, List.mem_cons, forall_eq_or_imp]
  constructor
  · rintro ⟨⟨h1, h2⟩, ⟨h3, h4⟩, h5⟩; exact ⟨h1, h3, h4, h2, h5⟩
  · rintro ⟨h1, h3, h4, h2, h5⟩; exact ⟨⟨h1, h2⟩, ⟨h3, h4⟩, h5⟩

theorem lookup_eq_none_of_not_mem_keys : ∀ (m : OMap) (k : Int), k ∉ keys m → lookup m k = none
  | [], _, _ => rfl
  | (k', p) :: m, k, h => by
    simp only [keys_cons, List.mem_cons, not_or] at h
    simp only [lookup, h.1, if_false]
    exact lookup_eq_none_of_not_mem_keys m k h.2

theorem mem_of_lookup : ∀ (m : OMap) (k : Int) (p : List Nat), lookup m k = some p → (k, p) ∈ m
  | [], _, _, h => by simp [lookup] at h
  | (k', p') :: m, k, p, h => by
    simp only [lookup] at h
    split at h
    · rename_i e; subst e; simp at h; subst h; simp
    · exact List.mem_cons_of_mem _ (mem_of_lookup m k p h)

theorem mem_keys_of_lookup (m : OMap) (k : Int) (p : List Nat) (h : lookup m k = some p) : k ∈ keys m :=
  List.mem_map.2 ⟨(k, p), mem_of_lookup m k p h, rfl⟩

theorem lookup_isSome_of_mem_keys : ∀ (m : OMap) (k : Int), k ∈ keys m → ∃ p, lookup m k = some p
  | [], _, h => by simp [keys] at h
  | (k', p') :: m, k, h => by
    simp only [lookup]
    split
    · exact ⟨p', rfl⟩
    · rename_i hne
      simp only [keys_cons, List.mem_cons] at h
      rcases h with e | h
      · exact absurd e hne
      · exact lookup_isSome_of_mem_keys m k h

theorem lookup_of_mem : ∀ (m : OMap), m.keys.Pairwise (· < ·) → ∀ (k : Int) (p : List Nat),
    (k, p) ∈ m → lookup m k = some p
  | [], _, _, _, h => by simp at h
  | (k', p') :: m, hs, k, p, h => by
    simp only [keys_cons, List.pairwise_cons] at hs
    simp only [lookup]
    rcases List.mem_cons.1 h with e | h'
    · simp at e; simp [e.1, e.2]
    · have hk : k ∈ keys m := List.mem_map.2 ⟨(k, p), h', rfl⟩
      have := hs.1 k hk
      have hne : ¬ k = k' := by omega
      simp only [hne, if_false]
      exact lookup_of_mem m hs.2 k p h'

theorem wf_lookup {m : OMap} (h : WF m) {k : Int} {p : List Nat} (hl : lookup m k = some p) :
    p ≠ [] ∧ p.Nodup :=
  h.2 (k, p) (mem_of_lookup m k p hl)

-- pushUnique / swapRemoveVal ---------------------------------------------------------------

theorem mem_pushUnique (p : List Nat) (d x : Nat) : x ∈ pushUnique p d ↔ x ∈ p ∨ x = d := by
  unfold pushUnique
  split
  · rename_i h; simp at h; constructor
    · exact Or.inl
    · rintro (h' | h'); exact h'; subst h'; exact h
  · simp

theorem pushUnique_ne_nil (p : List Nat) (d : Nat) : pushUnique p d ≠ [] := by
  unfold pushUnique
  split
  · rename_i h; intro e; subst e; simp at h
  · simp

theorem nodup_pushUnique (p : List Nat) (d : Nat) (h : p.Nodup) : (pushUnique p d).Nodup := by
  unfold pushUnique
  split
  · exact h
  · rename_i hc
    simp at hc
    rw [List.nodup_append]
    refine ⟨h, by simp, ?_⟩
    intro a ha b hb
    simp at hb; subst hb
    intro e; subst e; exact hc ha

theorem swapRemoveVal_perm (p : List Nat) (d : Nat) (h : d ∈ p) : (d :: swapRemoveVal p d).Perm p := by
  unfold swapRemoveVal
  have hc : p.contains d = true := by simpa using h
  simp only [hc, if_true]
  have hi : p.idxOf d < p.length := List.idxOf_lt_length_iff.2 h
  have := swapRemove_perm p (p.idxOf d) hi
  rwa [List.getElem_idxOf hi] at this

theorem nodup_swapRemoveVal (p : List Nat) (d : Nat) (h : p.Nodup) : (swapRemoveVal p d).Nodup := by
  by_cases hd : d ∈ p
  · have hp := swapRemoveVal_perm p d hd
    have := hp.nodup_iff.2 h
    exact (List.nodup_cons.1 this).2
  · unfold swapRemoveVal
    simp [hd, h]

theorem mem_swapRemoveVal (p : List Nat) (d x : Nat) (h : p.Nodup) :
    x ∈ swapRemoveVal p d ↔ x ∈ p ∧ x ≠ d := by
  by_cases hd : d ∈ p
  · have hp := swapRemoveVal_perm p d hd
    have hn := hp.nodup_iff.2 h
    have hnot : d ∉ swapRemoveVal p d := (List.nodup_cons.1 hn).1
    have hm := hp.mem_iff (a := x)
    simp only [List.mem_cons] at hm
    constructor
    · intro hx; exact ⟨hm.1 (Or.inr hx), fun e => hnot (e ▸ hx)⟩
    · rintro ⟨hx, hne⟩
      rcases hm.2 hx with e | h'
      · exact absurd e hne
      · exact h'
  · unfold swapRemoveVal
    have hc : p.contains d = false := by simpa using hd
    simp only [hc]
    constructor
    · intro hx; exact ⟨hx, fun e => hd (e ▸ hx)⟩
    · exact fun hx => hx.1

-- ins ----------------------------------------------------------------------------------------

theorem keys_ins (k : Int) (d : Nat) : ∀ m : OMap, keys (ins k d m) = insertSorted k (keys m)
  | [] => rfl
  | (k', p) :: m => by
    simp only [ins, keys_cons, insertSorted]
    split
    · rfl
    · split
      · rfl
      · simp only [keys_cons, keys_ins k d m]

theorem mem_keys_ins (k : Int) (d : Nat) (m : OMap) (a : Int) : a ∈ keys (ins k d m) ↔ a = k ∨ a ∈ keys m := by
  rw [keys_ins, mem_insertSorted]

/-- the posting `ins` leaves under `k` -/
def insPosting (m : OMap) (k : Int) (d : Nat) : List Nat :=
  match lookup m k with
  | some p => pushUnique p d
  | none => [d]

theorem lookup_ins (k : Int) (d : Nat) : ∀ m : OMap, m.keys.Pairwise (· < ·) → ∀ k',
    lookup (ins k d m) k' = if k' = k then some (insPosting m k d) else lookup m k'
  | [], _, k' => by
    by_cases e : k' = k <;> simp [ins, lookup, insPosting, e]
  | (k₀, p) :: m, hs, k' => by
    simp only [keys_cons, List.pairwise_cons] at hs
    simp only [ins]
    split
    · rename_i hlt
      -- new smallest key
      have hk : k ∉ keys ((k₀, p) :: m) := by
        simp only [keys_cons, List.mem_cons, not_or]
        refine ⟨by omega, fun hm => ?_⟩
        have := hs.1 k hm; omega
      have hnone := lookup_eq_none_of_not_mem_keys _ k hk
      simp only [insPosting, hnone]
      by_cases e : k' = k
      · simp [e, lookup]
      · simp [e, lookup]
    · split
      · rename_i _ he
        subst he
        simp only [lookup, insPosting, if_true]
        by_cases e : k' = k
        · simp [e]
        · simp [e]
      · rename_i hnlt hne
        have ih := lookup_ins k d m hs.2 k'
        simp only [lookup, insPosting, hne, if_false] at ih ⊢
        by_cases e : k' = k₀
        · subst e
          have : ¬ k' = k := fun e' => hne e'.symm
          simp [this]
        · simp only [e, if_false]; exact ih

theorem wf_ins (k : Int) (d : Nat) : ∀ m : OMap, WF m → WF (ins k d m)
  | [], _ => by simp [ins, WF, keys]
  | (k₀, p) :: m, h => by
    have h' := (wf_cons k₀ p m).1 h
    simp only [ins]
    split
    · rename_i hlt
      rw [wf_cons]
      refine ⟨?_, by simp, by simp, h⟩
      intro a ha
      simp only [keys_cons, List.mem_cons] at ha
      rcases ha with e | ha
      · omega
      · have := h'.1 a ha; omega
    · split
      · rw [wf_cons]
        exact ⟨h'.1, pushUnique_ne_nil p d, nodup_pushUnique p d h'.2.2.1, h'.2.2.2⟩
      · rename_i hnlt hne
        rw [wf_cons]
        refine ⟨?_, h'.2.1, h'.2.2.1, wf_ins k d m h'.2.2.2⟩
        intro a ha
        rcases (mem_keys_ins k d m a).1 ha with e | ha
        · omega
        · exact h'.1 a ha

-- del ----------------------------------------------------------------------------------------

theorem keys_del_sub (k : Int) (d : Nat) : ∀ (m : OMap) (a : Int), a ∈ keys (del k d m) → a ∈ keys m
  | [], _, h => by simp [del, keys] at h
  | (k₀, p) :: m, a, h => by
    simp only [del] at h
    split at h
    · split at h
      · split at h
        · exact List.mem_cons_of_mem _ h
        · simpa [keys_cons] using h
      · exact h
    · simp only [keys_cons, List.mem_cons] at h ⊢
      rcases h with e | h
      · exact Or.inl e
      · exact Or.inr (keys_del_sub k d m a h)

/-- the posting `del` leaves under `k` (none = key dropped) -/
def delPosting (m : OMap) (k : Int) (d : Nat) : Option (List Nat) :=
  match lookup m k with
  | some p => if p.contains d then (if (swapRemoveVal p d).isEmpty then none else some (swapRemoveVal p d)) else some p
  | none => none

theorem lookup_del (k : Int) (d : Nat) : ∀ m : OMap, m.keys.Pairwise (· < ·) → ∀ k',
    lookup (del k d m) k' = if k' = k then delPosting m k d else lookup m k'
  | [], _, k' => by simp [del, lookup, delPosting]
  | (k₀, p) :: m, hs, k' => by
    simp only [keys_cons, List.pairwise_cons] at hs
    simp only [del]
    split
    · rename_i he
      subst he
      have hk : k ∉ keys m := fun hm => by have := hs.1 k hm; omega
      have hnone := lookup_eq_none_of_not_mem_keys m k hk
      simp only [delPosting, lookup, if_true]
      split
      · split
        · by_cases e : k' = k
          · simp [e, hnone]
          · simp [e]
        · by_cases e : k' = k
          · simp [e, lookup]
          · simp [e, lookup]
      · by_cases e : k' = k
        · simp [e, lookup]
        · simp [e, lookup]
    · rename_i hne
      have ih := lookup_del k d m hs.2 k'
      simp only [lookup, delPosting, hne, if_false] at ih ⊢
      by_cases e : k' = k₀
      · subst e
        have : ¬ k' = k := fun e' => hne e'.symm
        simp [this]
      · simp only [e, if_false]; exact ih

theorem wf_del (k : Int) (d : Nat) : ∀ m : OMap, WF m → WF (del k d m)
  | [], _ => by simp [del, WF, keys]
  | (k₀, p) :: m, h => by
    have h' := (wf_cons k₀ p m).1 h
    simp only [del]
    split
    · split
      · split
        · exact h'.2.2.2
        · rename_i hne
          rw [wf_cons]
          refine ⟨h'.1, ?_, nodup_swapRemoveVal p d h'.2.2.1, h'.2.2.2⟩
          intro e; rw [e] at hne; simp at hne
      · exact h
    · rw [wf_cons]
      refine ⟨?_, h'.2.1, h'.2.2.1, wf_del k d m h'.2.2.2⟩
      intro a ha
      exact h'.1 a (keys_del_sub k d m a ha)

end OMap
end AndaVerif
