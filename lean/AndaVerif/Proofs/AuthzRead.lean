/-
Helper lemmas about the read choke point (`admit`, `redact`, `queryUniverse`) — property C19.
-/
import AndaVerif.Proofs.Authz

namespace AndaVerif.Authz

/-- The part of a view a constraint set lets through (before the origin rewrite). -/
def visiblePart {Val : Type} (cons : Constraints) (v : View Val) : View Val :=
  if cons.fields.isEmpty then v
  else v.filter (fun kv => alwaysVisible.contains kv.1 || cons.fields.contains kv.1)

/-- The origin rewrite of `redact::apply`. -/
def originFix {Val : Type} (originRedacted : Val → Val) (mayReadOrigin : Bool) (v : View Val) : View Val :=
  if mayReadOrigin then v
  else v.map (fun kv => if kv.1 = "_system" then (kv.1, originRedacted kv.2) else kv)

theorem filter_key_map {Val : Type} (f : Val → Val) (q : String → Bool) (v : View Val) :
    (v.map (fun kv => if kv.1 = "_system" then (kv.1, f kv.2) else kv)).filter (fun kv => q kv.1) =
    (v.filter (fun kv => q kv.1)).map (fun kv => if kv.1 = "_system" then (kv.1, f kv.2) else kv) := by
  induction v with
  | nil => rfl
  | cons x xs ih =>
    simp only [List.map_cons, List.filter_cons]
    by_cases hk : x.1 = "_system"
    · simp only [hk, if_true]
      by_cases hq : q "_system" = true
      · simp [hq, hk, ih]
      · simp [hq, ih]
    · simp only [hk, if_false]
      by_cases hq : q x.1 = true
      · simp [hq, hk, ih]
      · simp [hq, ih]

/-- `redact` only ever looks at the visible part of a view. -/
theorem redact_eq_fix_visible {Val : Type} (oR : Val → Val) (cons : Constraints) (pro : Bool) (v : View Val) :
    redact oR cons pro v = originFix oR pro (visiblePart cons v) := by
  unfold redact originFix visiblePart
  cases pro with
  | true => simp
  | false =>
    simp only [Bool.false_eq_true, if_false]
    cases hf : cons.fields.isEmpty with
    | true => simp
    | false =>
      simp only [Bool.false_eq_true, if_false]
      exact filter_key_map oR (fun k => alwaysVisible.contains k || cons.fields.contains k) v

theorem redact_congr {Val : Type} (oR : Val → Val) (cons : Constraints) (pro : Bool) (v v' : View Val)
    (h : visiblePart cons v = visiblePart cons v') : redact oR cons pro v = redact oR cons pro v' := by
  rw [redact_eq_fix_visible, redact_eq_fix_visible, h]

/-- An unmasked decision with origin permission returns the view unchanged. -/
theorem redact_identity {Val : Type} (oR : Val → Val) (cons : Constraints) (v : View Val)
    (h : cons.fields = []) : redact oR cons true v = v := by
  simp [redact, h]

/-- The store a restricted caller's view of `S` amounts to: the admitted elements, carrying the redacted
views. This is what the harness rebuilds by replaying only the readable creations. -/
def restrictTo {Val : Type} (oR : Val → Val) (ea : EA) (a : Auth) (now : Nat) (pro : Bool)
    (s : List (Elem Val)) : List (Elem Val) :=
  s.filterMap (fun e => (admit oR ea a now pro e).map (fun iv => { id := iv.1, res := e.res, view := iv.2 }))

theorem universe_restrict {Val : Type} (oR : Val → Val) (p : EA) (pa : Auth) (o : EA) (oa : Auth)
    (now : Nat) (pro : Bool)
    (hfull : ∀ e : Elem Val, admit oR o oa now true e = some (e.id, e.view)) :
    ∀ S : List (Elem Val),
      queryUniverse oR o oa now true (restrictTo oR p pa now pro S) = queryUniverse oR p pa now pro S
  | [] => rfl
  | e :: s => by
    have ih := universe_restrict oR p pa o oa now pro hfull s
    unfold queryUniverse restrictTo at *
    simp only [List.filterMap_cons]
    cases hp : admit oR p pa now pro e with
    | none => simpa using ih
    | some iv =>
      simp only [Option.map_some, List.filterMap_cons]
      rw [hfull]
      simp only [ih]

/-- The owner's synthetic candidate is least restrictive: it is what `minByKey` keeps. -/
theorem minByKey_head_zero {α : Type} (key : α → Nat) (x : α) (xs : List α) (h : key x = 0) :
    minByKey key (x :: xs) = some x := by
  simp only [minByKey]
  cases minByKey key xs with
  | none => rfl
  | some y => simp [h]

theorem owner_restrictiveness (p : String) : (ownerCandidate p).restrictiveness = 0 := by
  simp [ownerCandidate, Candidate.restrictiveness]

/-- An active owner of a non-suspended Space bound to no policy statement reads every element, unmasked. -/
theorem owner_mayRead (o : EA) (oa : Auth) (now : Nat) (res : Resource)
    (hact : o.principalStatus = "active") (hsp : o.spaceStatus ≠ "suspended") (hown : o.isOwner = true)
    (hst : o.statements = []) :
    mayRead o res oa now = some { mayExport := true } := by
  unfold mayRead authorize
  have hallow : o.allows "read" (o.effectiveResource res) oa now =
      ownerCandidate o.principalId :: (o.candidates.filter (fun c => candidateMatches c "read" (o.effectiveResource res) oa now)) := by
    simp [EA.allows, hown, EA.allowStatements, hst]
  simp only [hact, hsp, EA.denyMatches, hst, List.any_nil, EA.allowStatements, List.filter_nil, List.foldl_nil,
    ne_eq, not_true_eq_false, if_false, Bool.false_eq_true]
  rw [hallow, minByKey_head_zero _ _ _ (owner_restrictiveness _)]
  simp [EA.baselineObligations, ownerCandidate, Decision.isPermitted]

theorem owner_full_reader {Val : Type} (oR : Val → Val) (o : EA) (oa : Auth) (now : Nat)
    (hact : o.principalStatus = "active") (hsp : o.spaceStatus ≠ "suspended") (hown : o.isOwner = true)
    (hst : o.statements = []) (e : Elem Val) :
    admit oR o oa now true e = some (e.id, e.view) := by
  unfold admit
  rw [owner_mayRead o oa now e.res hact hsp hown hst]
  simp [redact]

end AndaVerif.Authz
