/-
Helper lemmas for Props/C14 (model: Model/ServerAuth).
-/
import AndaVerif.Model.ServerAuth

deriving instance DecidableEq for Except

namespace AndaVerif.ServerAuth

/-! ## `authorize` -/

theorem verify_iff (a p : String) : verify a p = true ↔ a = p := by
  simp [verify]

theorem presentedIs_iff (k : String) (p : Option String) : presentedIs k p = true ↔ p = some k := by
  cases p with
  | none => simp [presentedIs]
  | some x => simp [presentedIs, verify]; exact eq_comm

theorem authorize_error (admin bound : Option String) (scope : Scope) (presented : Option String)
    (e : ApiError) (h : authorize admin bound scope presented = .error e) : e = .unauthorized := by
  unfold authorize at h
  repeat' split at h
  all_goals (cases h <;> rfl)

theorem authorize_ok_database (admin bound : Option String) (scope : Scope) (presented : Option String)
    (h : authorize admin bound scope presented = .ok .database) :
    ∃ a n p, admin = some a ∧ scope = .database n ∧ presented = some p ∧ bound = some p ∧ p ≠ a := by
  unfold authorize at h
  split at h
  · cases h
  · rename_i a
    split at h
    · cases h
    · rename_i hadm
      split at h
      · cases h
      · rename_i n
        split at h
        · rename_i b
          split at h
          · rename_i hb
            have hp := (presentedIs_iff b presented).1 hb
            refine ⟨a, n, b, rfl, rfl, hp, rfl, ?_⟩
            intro hba
            apply hadm
            rw [(presentedIs_iff a presented)]
            rw [hp, hba]
          · cases h
        · cases h

theorem authorize_database_of (a n p : String) (hne : p ≠ a) :
    authorize (some a) (some p) (.database n) (some p) = .ok .database := by
  have h1 : presentedIs a (some p) = false := by
    cases hc : presentedIs a (some p) with
    | false => rfl
    | true =>
      have := (presentedIs_iff a (some p)).1 hc
      exact absurd (Option.some.inj this) hne
  have h2 : presentedIs p (some p) = true := (presentedIs_iff p (some p)).2 rfl
  simp [authorize, h1, h2]

theorem authorize_ok_admin (admin bound : Option String) (scope : Scope) (presented : Option String)
    (h : authorize admin bound scope presented = .ok .admin) :
    admin = none ∨ (∃ a, admin = some a ∧ presented = some a) := by
  unfold authorize at h
  split at h
  · exact .inl rfl
  · rename_i a
    split at h
    · rename_i hv
      exact .inr ⟨a, rfl, (presentedIs_iff a presented).1 hv⟩
    · repeat' split at h
      all_goals cases h

/-- the root scope never yields a `Database` principal -/
theorem authorize_root_not_database (admin bound : Option String) (presented : Option String) :
    authorize admin bound .root presented ≠ .ok .database := by
  intro h
  obtain ⟨_, _, _, _, hs, _⟩ := authorize_ok_database _ _ _ _ h
  cases hs

/-- a non-admin token that is not the bound key is rejected, whatever else is true -/
theorem authorize_rejects (a : String) (bound : Option String) (scope : Scope) (presented : Option String)
    (hadm : presented ≠ some a) (hb : bound = none ∨ presented = none ∨ bound ≠ presented) :
    authorize (some a) bound scope presented = .error .unauthorized := by
  have h1 : presentedIs a presented = false := by
    cases hc : presentedIs a presented with
    | false => rfl
    | true => exact absurd ((presentedIs_iff a presented).1 hc) hadm
  unfold authorize
  simp only [h1]
  cases scope with
  | root => simp
  | database n =>
    cases bound with
    | none => simp
    | some b =>
      have h2 : presentedIs b presented = false := by
        cases hc : presentedIs b presented with
        | false => rfl
        | true =>
          have hp := (presentedIs_iff b presented).1 hc
          rcases hb with hb | hb | hb
          · cases hb
          · rw [hb] at hp; cases hp
          · exact absurd hp.symm hb
      simp [h2]

/-! ## digest equality vs key equality -/

theorem presentedIsH_eq {D : Type} [DecidableEq D] (h : String → D) (hinj : ∀ a b, h a = h b → a = b)
    (k : String) (p : Option String) : presentedIsH h (h k) p = presentedIs k p := by
  cases p with
  | none => rfl
  | some x =>
    simp only [presentedIsH, presentedIs, verify]
    by_cases e : k = x
    · subst e; simp
    · have : ¬ h x = h k := fun he => e (hinj _ _ he).symm
      simp [this, e]

theorem authorizeH_eq_authorize {D : Type} [DecidableEq D] (h : String → D) (hinj : ∀ a b, h a = h b → a = b)
    (admin bound : Option String) (scope : Scope) (presented : Option String) :
    authorizeH h (admin.map h) (bound.map h) scope presented = authorize admin bound scope presented := by
  cases admin with
  | none => rfl
  | some a =>
    cases bound with
    | none => simp only [authorizeH, authorize, Option.map, presentedIsH_eq h hinj]
    | some b => simp only [authorizeH, authorize, Option.map, presentedIsH_eq h hinj]

/-! ## association list -/

theorem lookup_eraseKey_self (m : List (String × String)) (n : String) : lookup (eraseKey m n) n = none := by
  induction m with
  | nil => rfl
  | cons kv rest ih =>
    unfold eraseKey at ih ⊢
    rw [List.filter_cons]
    split
    · rename_i h
      have hk : (kv.1 == n) = false := by simpa using h
      simp only [lookup, hk]
      exact ih
    · exact ih

theorem lookup_eraseKey_ne (m : List (String × String)) (n x : String) (h : x ≠ n) :
    lookup (eraseKey m n) x = lookup m x := by
  induction m with
  | nil => rfl
  | cons kv rest ih =>
    unfold eraseKey at ih ⊢
    rw [List.filter_cons]
    split
    · simp only [lookup]
      rw [ih]
    · rename_i hk
      have hkn : kv.1 = n := by simpa using hk
      have hkx : (kv.1 == x) = false := by
        simp only [beq_eq_false_iff_ne, ne_eq]
        intro e
        exact h (by rw [← e, hkn])
      simp only [lookup, hkx]
      exact ih

theorem lookup_setKey_self (m : List (String × String)) (n k : String) : lookup (setKey m n k) n = some k := by
  simp [setKey, lookup]

theorem lookup_setKey_ne (m : List (String × String)) (n k x : String) (h : x ≠ n) :
    lookup (setKey m n k) x = lookup m x := by
  have hnx : (n == x) = false := by
    simp only [beq_eq_false_iff_ne, ne_eq]
    exact fun e => h e.symm
  simp only [setKey, lookup, hnx]
  exact lookup_eraseKey_ne m n x h

/-! ## the request pipeline -/

open AndaVerif.Gen.ServerMethods in
theorem dispatchIn_mem (t : List DispatchRow) (v : String) (row : DispatchRow)
    (h : dispatchIn t v = some row) : row ∈ t := by
  induction t with
  | nil => cases h
  | cons r rest ih =>
    unfold dispatchIn at h
    split at h
    · cases h; exact List.mem_cons_self
    · exact List.mem_cons_of_mem _ (ih h)

def rejected (r : Request) : Response :=
  ⟨negotiateOr r.accept r.contentType .cbor, .err .unauthorized, none⟩

theorem authorizeState_error (cfg : Cfg) (s : State) (scope : Scope) (t : Option String) (e : ApiError)
    (h : authorizeState cfg s scope t = .error e) : e = .unauthorized := by
  unfold authorizeState at h
  exact authorize_error _ _ _ _ _ h

theorem rpc_rejected (cfg : Cfg) (s : State) (scope : Scope) (r : Request) (e : ApiError)
    (h : authorizeState cfg s scope (bearerToken r.auth) = .error e) :
    rpc cfg s scope r = (s, rejected r) := by
  have he := authorizeState_error _ _ _ _ _ h
  subst he
  unfold rpc
  simp only [h, rejected]

theorem rpc_principal (cfg : Cfg) (s : State) (scope : Scope) (r : Request) (p : Principal)
    (h : authorizeState cfg s scope (bearerToken r.auth) = .ok p) :
    (rpc cfg s scope r).2.principal = some p := by
  unfold rpc
  simp only [h]
  repeat' split
  all_goals rfl

theorem rpc_principal_inv (cfg : Cfg) (s : State) (scope : Scope) (r : Request) (p : Principal)
    (h : (rpc cfg s scope r).2.principal = some p) :
    authorizeState cfg s scope (bearerToken r.auth) = .ok p := by
  cases ha : authorizeState cfg s scope (bearerToken r.auth) with
  | error e =>
    rw [rpc_rejected cfg s scope r e ha] at h
    cases h
  | ok q =>
    rw [rpc_principal cfg s scope r q ha] at h
    cases h
    rfl

theorem rpc_principal_none (cfg : Cfg) (s : State) (scope : Scope) (r : Request)
    (h : (rpc cfg s scope r).2.principal = none) :
    rpc cfg s scope r = (s, rejected r) := by
  cases ha : authorizeState cfg s scope (bearerToken r.auth) with
  | error e => exact rpc_rejected cfg s scope r e ha
  | ok q =>
    rw [rpc_principal cfg s scope r q ha] at h
    cases h

/-- `dispatch_db` leaves the server state alone, except that `db.set_read_only` *on the primary
database* switches `primaryRO` -/
theorem dispatchDb_state (cfg : Cfg) (s : State) (n : String) (p : Principal) (v : String) (e : Gen.ServerMethods.Effect)
    (ps : RootParams) :
    (dispatchDb cfg s n p v e ps).1 = s ∨
      (n = cfg.primary ∧ ∃ b, (dispatchDb cfg s n p v e ps).1 = { s with primaryRO := b }) := by
  unfold dispatchDb
  split
  · exact .inl rfl
  · split
    · exact .inl rfl
    · split
      · exact .inl rfl
      · simp only
        split
        · rename_i hc
          have hn : n = cfg.primary := by
            simp only [Bool.and_eq_true, beq_iff_eq] at hc
            exact hc.2
          split
          · rename_i b _
            exact .inr ⟨hn, b, rfl⟩
          · exact .inl rfl
        · exact .inl rfl

/-- the database scope changes nothing of the server state but (for the primary) `primaryRO` -/
theorem rpc_database_state (cfg : Cfg) (s : State) (n : String) (r : Request) :
    (rpc cfg s (.database n) r).1 = s ∨
      (n = cfg.primary ∧ ∃ b, (rpc cfg s (.database n) r).1 = { s with primaryRO := b }) := by
  cases ha : authorizeState cfg s (.database n) (bearerToken r.auth) with
  | error e => rw [rpc_rejected cfg s _ r e ha]; exact .inl rfl
  | ok p =>
    unfold rpc
    simp only [ha]
    split
    · exact .inl rfl
    · split
      · exact .inl rfl
      · split
        · exact .inl rfl
        · exact dispatchDb_state _ _ _ _ _ _ _

theorem rpc_database_state_ne (cfg : Cfg) (s : State) (n : String) (r : Request) (hn : n ≠ cfg.primary) :
    (rpc cfg s (.database n) r).1 = s := by
  rcases rpc_database_state cfg s n r with h | ⟨h, _⟩
  · exact h
  · exact absurd h hn

theorem rpc_database_bound (cfg : Cfg) (s : State) (n : String) (r : Request) :
    (rpc cfg s (.database n) r).1.bound = s.bound := by
  rcases rpc_database_state cfg s n r with h | ⟨_, b, h⟩ <;> rw [h]

/-- what the database scope can answer to an authorised caller -/
theorem rpc_database_reply (cfg : Cfg) (s : State) (n : String) (r : Request) (p : Principal)
    (h : authorizeState cfg s (.database n) (bearerToken r.auth) = .ok p) :
    (rpc cfg s (.database n) r).2.reply = .err .unsupportedMediaType ∨
    (rpc cfg s (.database n) r).2.reply = .err .badBody ∨
    (∃ m ps, r.body = .rpc m ps ∧ (rpc cfg s (.database n) r).2.reply = .err (.methodNotFound m)) ∨
    (∃ v e ps, (rpc cfg s (.database n) r).2.reply = (dispatchDb cfg s n p v e ps).2) := by
  unfold rpc
  simp only [h]
  split
  · exact .inl rfl
  · split
    · exact .inr (.inl rfl)
    · rename_i m ps hb
      split
      · exact .inr (.inr (.inl ⟨m, ps, hb, rfl⟩))
      · rename_i v e _
        exact .inr (.inr (.inr ⟨v, e, ps, rfl⟩))

/-! ## what a per-database principal can be answered -/

/-- generated-table fact: the arm that calls `state.scoped_info` is handed the principal -/
theorem scoped_info_gets_principal :
    Gen.ServerMethods.dbDispatch.all (fun r => !(r.handler == "state.scoped_info") || r.usesPrincipal) = true := by
  decide

/-- What a response may carry towards the holder of the key of database `n`: errors that mention
only `n` or the caller's own method name, handlers of `n`, and the scoped `info` view. -/
def ConfinedReply (n : String) (r : Request) : Reply → Prop
  | .err .unsupportedMediaType => True
  | .err .badBody => True
  | .err (.methodNotFound m) => ∃ ps, r.body = .rpc m ps
  | .err (.dbNotFound n') => n' = n
  | .err (.unknownHandler _) => True
  | .handler n' _ _ _ _ => n' = n
  | .root (.info none dbs) => dbs = [n]
  | _ => False

theorem dispatchDb_confined (cfg : Cfg) (s : State) (n v : String) (e : Gen.ServerMethods.Effect) (ps : RootParams) (r : Request) :
    ConfinedReply n r (dispatchDb cfg s n .database v e ps).2 := by
  unfold dispatchDb
  split
  · simp [ConfinedReply]
  · split
    · simp [ConfinedReply]
    · rename_i row hrow
      have hmem := dispatchIn_mem _ _ _ hrow
      have hr := (List.all_eq_true.1 scoped_info_gets_principal) row hmem
      split
      · rename_i hh
        have hp : row.usesPrincipal = true := by simpa [hh] using hr
        simp [hp, scopedInfo, ConfinedReply]
      · simp [ConfinedReply]

/-! ## the persistence layer -/

/-- everything but the three copies of the key map, the durable registry and the fault counter -/
def SameShape (s s' : State) : Prop :=
  s'.opened = s.opened ∧ s'.registry = s.registry ∧ s'.stored = s.stored ∧ s'.primaryRO = s.primaryRO

theorem metaPut_fields (s : State) :
    (metaPut s).1.bound = s.bound ∧ (metaPut s).1.extBound = s.extBound ∧
    (metaPut s).1.extRegistry = s.extRegistry ∧
    ((metaPut s).1.durableBound = s.durableBound ∨ (metaPut s).1.durableBound = s.extBound) ∧
    ((metaPut s).2 = true → (metaPut s).1.durableBound = s.extBound ∧ (metaPut s).1.durableRegistry = s.extRegistry) ∧
    SameShape s (metaPut s).1 ∧
    (metaPut s).1.faultLands = s.faultLands ∧
    ((metaPut s).2 = false → s.faultLands = false → (metaPut s).1.durableBound = s.durableBound) := by
  unfold metaPut SameShape
  split
  · split <;> simp_all
  · simp
  · simp

theorem persistKeys_fields (s : State) :
    (persistKeys s).1.bound = s.bound ∧
    ((persistKeys s).1.extBound = s.extBound ∨ (persistKeys s).1.extBound = s.bound) ∧
    ((persistKeys s).1.durableBound = s.durableBound ∨ (persistKeys s).1.durableBound = s.bound) ∧
    ((persistKeys s).2 = true → (persistKeys s).1.durableBound = s.bound ∧ (persistKeys s).1.extBound = s.bound) ∧
    SameShape s (persistKeys s).1 ∧
    (persistKeys s).1.faultLands = s.faultLands ∧
    ((persistKeys s).2 = false → s.faultLands = false → (persistKeys s).1.durableBound = s.durableBound) := by
  unfold persistKeys
  split
  · simp [SameShape]
  · obtain ⟨h1, h2, _, h4, h5, h6, h7, h8⟩ := metaPut_fields { s with extBound := s.bound }
    refine ⟨h1, .inr h2, ?_, ?_, h6, h7, h8⟩
    · rcases h4 with h4 | h4
      · exact .inl h4
      · exact .inr h4
    · intro hok
      exact ⟨(h5 hok).1, h2⟩

theorem persistKeys_ro (s : State) (h : s.primaryRO = true) : persistKeys s = (s, false) := by
  unfold persistKeys; simp [h]

theorem persistRegistry_ro (s : State) (h : s.primaryRO = true) : persistRegistry s = (s, false) := by
  unfold persistRegistry; simp [h]

theorem persistRegistry_fields (s : State) :
    (persistRegistry s).1.bound = s.bound ∧ (persistRegistry s).1.extBound = s.extBound ∧
    ((persistRegistry s).1.durableBound = s.durableBound ∨ (persistRegistry s).1.durableBound = s.extBound) ∧
    ((persistRegistry s).2 = true → (persistRegistry s).1.durableBound = s.extBound) ∧
    SameShape s (persistRegistry s).1 ∧
    (persistRegistry s).1.faultLands = s.faultLands := by
  unfold persistRegistry
  split
  · simp [SameShape]
  · obtain ⟨h1, h2, _, h4, h5, h6, h7, _⟩ := metaPut_fields { s with extRegistry := s.registry }
    exact ⟨h1, h2, h4, fun hok => (h5 hok).1, h6, h7⟩

theorem storeApiKey_fields (s : State) (name : String) (v : Option String) :
    ((storeApiKey s name v).2 = true →
        (storeApiKey s name v).1.bound = storeTarget s name v ∧
        (storeApiKey s name v).1.durableBound = storeTarget s name v ∧
        (storeApiKey s name v).1.extBound = storeTarget s name v) ∧
    ((storeApiKey s name v).2 = false →
        (storeApiKey s name v).1.bound = s.bound ∧ (storeApiKey s name v).1.extBound = s.bound ∧
        (s.faultLands = false → (storeApiKey s name v).1.durableBound = s.durableBound)) ∧
    ((storeApiKey s name v).1.extBound = s.bound ∨ (storeApiKey s name v).1.extBound = storeTarget s name v) ∧
    ((storeApiKey s name v).1.durableBound = s.durableBound ∨
        (storeApiKey s name v).1.durableBound = storeTarget s name v) ∧
    SameShape s (storeApiKey s name v).1 ∧
    (storeApiKey s name v).1.faultLands = s.faultLands := by
  unfold storeApiKey
  obtain ⟨h1, h2, h3, h4, h5, h6, h7⟩ := persistKeys_fields { s with bound := storeTarget s name v }
  simp only at h1 h2 h3 h4 h5 h6 h7 ⊢
  cases hr : (persistKeys { s with bound := storeTarget s name v }).2 with
  | true =>
    have := h4 hr
    simp only [if_true]
    exact ⟨fun _ => ⟨h1, this.1, this.2⟩, (fun h => by cases h), .inr this.2, h3, h5, h6⟩
  | false =>
    simp only [Bool.false_eq_true, if_false]
    refine ⟨?_, ?_, .inl (by first | rfl | trivial), h3, h5, h6⟩
    · first | trivial | (intro h; cases h)
    · first
        | exact ⟨by first | rfl | trivial, by first | rfl | trivial, h7 hr⟩
        | (intro _; exact ⟨by first | rfl | trivial, by first | rfl | trivial, h7 hr⟩)
        | exact h7 hr
        | (intro _; exact h7 hr)

theorem storeApiKey_ro (s : State) (name : String) (v : Option String) (h : s.primaryRO = true) :
    storeApiKey s name v = ({ s with extBound := s.bound }, false) := by
  unfold storeApiKey
  rw [persistKeys_ro _ (by simpa using h)]
  simp

/-! ## which root handler produced a result -/

theorem rpc_root_result (cfg : Cfg) (s : State) (r : Request) (res : RootResult)
    (h : (rpc cfg s .root r).2.reply = .root res) :
    ∃ m ps hd, r.body = .rpc m ps ∧ rootHandler cfg s hd ps r.fresh = ((rpc cfg s .root r).1, .ok res) := by
  cases ha : authorizeState cfg s .root (bearerToken r.auth) with
  | error e =>
    rw [rpc_rejected cfg s _ r e ha] at h
    cases h
  | ok p =>
    unfold rpc at h ⊢
    simp only [ha] at h ⊢
    split at h
    · cases h
    · split at h
      · cases h
      · rename_i m ps hb
        split at h
        · cases h
        · split at h
          · cases h
          · rename_i row _
            split at h
            · rename_i s' res' heq
              cases h
              exact ⟨m, ps, row.handler, hb, by rw [heq]⟩
            · cases h

theorem rpc_database_not_removed (cfg : Cfg) (s : State) (n : String) (r : Request) (b : Bool) :
    (rpc cfg s (.database n) r).2.reply ≠ .root (.removed b) := by
  intro h
  cases ha : authorizeState cfg s (.database n) (bearerToken r.auth) with
  | error e =>
    rw [rpc_rejected cfg s _ r e ha] at h
    cases h
  | ok p =>
    rcases rpc_database_reply cfg s n r p ha with h1 | h1 | ⟨m, ps, _, h1⟩ | ⟨v, e, ps, h1⟩
    · rw [h1] at h; cases h
    · rw [h1] at h; cases h
    · rw [h1] at h; cases h
    · rw [h1] at h
      unfold dispatchDb at h
      split at h
      · cases h
      · split at h
        · cases h
        · split at h
          · unfold scopedInfo at h
            split at h <;> cases h
          · cases h

theorem registerDb_not_removed (cfg : Cfg) (s : State) (mode : OpenMode) (n : String) (k : Option String) (b : Bool) :
    (registerDb cfg s mode n k).2 ≠ .ok (.removed b) := by
  cases k <;> unfold registerDb <;> dsimp only <;> repeat' split
  all_goals (intro h; cases h)

theorem closeDb_not_removed (cfg : Cfg) (s : State) (n : String) (b : Bool) :
    (closeDb cfg s n).2 ≠ .ok (.removed b) := by
  unfold closeDb
  dsimp only
  repeat' split
  all_goals (intro h; cases h)

theorem setDbApiKey_not_removed (cfg : Cfg) (s : State) (n : String) (k : Option String) (f : String) (b : Bool) :
    (setDbApiKey cfg s n k f).2 ≠ .ok (.removed b) := by
  unfold setDbApiKey
  dsimp only
  repeat' split
  all_goals (intro h; cases h)

theorem rootHandler_removed (cfg : Cfg) (s s' : State) (hd : String) (p : RootParams) (f : String) (b : Bool)
    (h : rootHandler cfg s hd p f = (s', .ok (.removed b))) :
    ∃ n, p.name = some n ∧ removeDbApiKey s n = (s', .ok (.removed b)) := by
  unfold rootHandler at h
  split at h
  · cases h
  · split at h
    · cases h
    · cases hn : p.name with
      | none =>
        simp only [hn] at h
        repeat' split at h
        all_goals cases h
      | some n =>
        simp only [hn] at h
        refine ⟨n, rfl, ?_⟩
        split at h
        · exact absurd (congrArg Prod.snd h) (registerDb_not_removed _ _ _ _ _ _)
        · split at h
          · exact absurd (congrArg Prod.snd h) (registerDb_not_removed _ _ _ _ _ _)
          · split at h
            · exact absurd (congrArg Prod.snd h) (registerDb_not_removed _ _ _ _ _ _)
            · split at h
              · exact absurd (congrArg Prod.snd h) (closeDb_not_removed _ _ _ _)
              · split at h
                · exact absurd (congrArg Prod.snd h) (setDbApiKey_not_removed _ _ _ _ _ _)
                · split at h
                  · exact h
                  · cases h

theorem removeDbApiKey_unbinds (s s' : State) (n : String) (b : Bool)
    (h : removeDbApiKey s n = (s', .ok (.removed b))) : lookup s'.bound n = none := by
  unfold removeDbApiKey at h
  split at h
  · cases h
  · dsimp only at h
    split at h
    · rename_i hok
      cases h
      rw [((storeApiKey_fields s n none).1 hok).1]
      exact lookup_eraseKey_self _ _
    · cases h

/-! ## persistence failures roll back -/

theorem rpc_root_state (cfg : Cfg) (s : State) (r : Request) :
    (rpc cfg s .root r).1 = s ∨ ∃ hd ps, (rpc cfg s .root r).1 = (rootHandler cfg s hd ps r.fresh).1 := by
  cases ha : authorizeState cfg s .root (bearerToken r.auth) with
  | error e => rw [rpc_rejected cfg s _ r e ha]; exact .inl rfl
  | ok p =>
    unfold rpc
    simp only [ha]
    split
    · exact .inl rfl
    · split
      · exact .inl rfl
      · rename_i m ps _
        split
        · exact .inl rfl
        · split
          · exact .inl rfl
          · rename_i row _
            right
            refine ⟨row.handler, ps, ?_⟩
            split
            · rename_i heq; rw [heq]
            · rename_i heq; rw [heq]

theorem registerDb_bound_of_ro (cfg : Cfg) (s : State) (mode : OpenMode) (n : String) (k : Option String)
    (hro : s.primaryRO = true) : (registerDb cfg s mode n k).1.bound = s.bound := by
  cases k <;> unfold registerDb <;> dsimp only <;> repeat' split
  all_goals simp_all [storeApiKey_ro, persistRegistry_ro]

theorem closeDb_bound_of_ro (cfg : Cfg) (s : State) (n : String) (hro : s.primaryRO = true) :
    (closeDb cfg s n).1.bound = s.bound := by
  unfold closeDb
  dsimp only
  repeat' split
  all_goals simp_all [persistRegistry_ro]

theorem setDbApiKey_bound_of_ro (cfg : Cfg) (s : State) (n : String) (k : Option String) (f : String)
    (hro : s.primaryRO = true) : (setDbApiKey cfg s n k f).1.bound = s.bound := by
  unfold setDbApiKey
  dsimp only
  repeat' split
  all_goals simp_all [storeApiKey_ro]

theorem removeDbApiKey_bound_of_ro (s : State) (n : String) (hro : s.primaryRO = true) :
    (removeDbApiKey s n).1.bound = s.bound := by
  unfold removeDbApiKey
  dsimp only
  repeat' split
  all_goals simp_all [storeApiKey_ro]

theorem rootHandler_bound_of_ro (cfg : Cfg) (s : State) (hd : String) (p : RootParams) (f : String)
    (hro : s.primaryRO = true) : (rootHandler cfg s hd p f).1.bound = s.bound := by
  unfold rootHandler
  split
  · rfl
  · split
    · rfl
    · cases hn : p.name with
      | none => simp only; repeat' split
                all_goals rfl
      | some n =>
        simp only
        repeat' split
        · exact registerDb_bound_of_ro _ _ _ _ _ hro
        · exact registerDb_bound_of_ro _ _ _ _ _ hro
        · exact registerDb_bound_of_ro _ _ _ _ _ hro
        · exact closeDb_bound_of_ro _ _ _ hro
        · exact setDbApiKey_bound_of_ro _ _ _ _ _ hro
        · exact removeDbApiKey_bound_of_ro _ _ hro
        · rfl

/-! ## invariants of the server state over histories -/

/-- Rule 1's invariant and the primary's, for one copy of the key map: without an admin key there is
no binding at all, and the primary database (which stores the registry and the key digests) is
never bound to a key. -/
def GoodMap (cfg : Cfg) (m : List (String × String)) : Prop :=
  (cfg.admin = none → m = []) ∧ lookup m cfg.primary = none

/-- … for the map enforced in memory, the engine's copy of the extension, and the durable one -/
def Inv (cfg : Cfg) (s : State) : Prop :=
  GoodMap cfg s.bound ∧ GoodMap cfg s.extBound ∧ GoodMap cfg s.durableBound

theorem init_Inv (cfg : Cfg) : Inv cfg (init cfg) := ⟨⟨fun _ => rfl, rfl⟩, ⟨fun _ => rfl, rfl⟩, ⟨fun _ => rfl, rfl⟩⟩

theorem checkApiKeyBinding_ok (cfg : Cfg) (n k : String) (h : checkApiKeyBinding cfg n k = .ok ()) :
    cfg.admin ≠ none ∧ n ≠ cfg.primary := by
  unfold checkApiKeyBinding at h
  split at h
  · cases h
  · split at h
    · cases h
    · rename_i hadm
      split at h
      · cases h
      · rename_i hp
        refine ⟨?_, ?_⟩
        · intro e; rw [e] at hadm; simp at hadm
        · simpa using hp

theorem GoodMap_setKey (cfg : Cfg) (m : List (String × String)) (n k : String) (h : GoodMap cfg m)
    (hadm : cfg.admin ≠ none) (hn : n ≠ cfg.primary) : GoodMap cfg (setKey m n k) := by
  refine ⟨fun e => absurd e hadm, ?_⟩
  rw [lookup_setKey_ne _ _ _ _ (fun e => hn e.symm)]
  exact h.2

theorem eraseKey_nil_of (m : List (String × String)) (n : String) (h : m = []) : eraseKey m n = [] := by
  subst h; rfl

theorem GoodMap_eraseKey (cfg : Cfg) (m : List (String × String)) (n : String) (h : GoodMap cfg m) :
    GoodMap cfg (eraseKey m n) := by
  refine ⟨fun e => eraseKey_nil_of _ _ (h.1 e), ?_⟩
  by_cases e : cfg.primary = n
  · rw [e]; exact lookup_eraseKey_self _ _
  · rw [lookup_eraseKey_ne _ _ _ e]; exact h.2

theorem Inv_of_maps_eq (cfg : Cfg) (s s' : State) (h : Inv cfg s) (hb : s'.bound = s.bound)
    (he : s'.extBound = s.extBound) (hd : s'.durableBound = s.durableBound) : Inv cfg s' := by
  unfold Inv at h ⊢
  rw [hb, he, hd]
  exact h

theorem Inv_of_bound_eq (cfg : Cfg) (s s' : State) (h : Inv cfg s) (hb : s'.bound = s.bound)
    (he : s'.extBound = s.extBound := by rfl) (hd : s'.durableBound = s.durableBound := by rfl) : Inv cfg s' :=
  Inv_of_maps_eq cfg s s' h hb he hd

theorem persistRegistry_Inv (cfg : Cfg) (s : State) (h : Inv cfg s) : Inv cfg (persistRegistry s).1 := by
  obtain ⟨h1, h2, h3, _, _, _⟩ := persistRegistry_fields s
  unfold Inv at h ⊢
  rw [h1, h2]
  refine ⟨h.1, h.2.1, ?_⟩
  rcases h3 with e | e <;> rw [e]
  · exact h.2.2
  · exact h.2.1

theorem storeApiKey_Inv (cfg : Cfg) (s : State) (n : String) (v : Option String) (h : Inv cfg s)
    (ht : GoodMap cfg (storeTarget s n v)) : Inv cfg (storeApiKey s n v).1 := by
  obtain ⟨h1, h2, h3, h4, _, _⟩ := storeApiKey_fields s n v
  unfold Inv at h ⊢
  refine ⟨?_, ?_, ?_⟩
  · cases hr : (storeApiKey s n v).2 with
    | true => rw [(h1 hr).1]; exact ht
    | false => rw [(h2 hr).1]; exact h.1
  · rcases h3 with e | e <;> rw [e]
    · exact h.1
    · exact ht
  · rcases h4 with e | e <;> rw [e]
    · exact h.2.2
    · exact ht

theorem storeTarget_good_some (cfg : Cfg) (s : State) (n k : String) (h : Inv cfg s)
    (hadm : cfg.admin ≠ none) (hn : n ≠ cfg.primary) : GoodMap cfg (storeTarget s n (some k)) :=
  GoodMap_setKey cfg _ n k h.1 hadm hn

theorem storeTarget_good_none (cfg : Cfg) (s : State) (n : String) (h : Inv cfg s) :
    GoodMap cfg (storeTarget s n none) :=
  GoodMap_eraseKey cfg _ n h.1

theorem registerDb_Inv (cfg : Cfg) (s : State) (mode : OpenMode) (n : String) (k : Option String)
    (h : Inv cfg s) : Inv cfg (registerDb cfg s mode n k).1 := by
  have h0 : Inv cfg { s with stored := addName s.stored n } := Inv_of_maps_eq cfg s _ h rfl rfl rfl
  cases k with
  | none =>
    unfold registerDb
    dsimp only
    repeat' split
    all_goals first
      | exact h
      | exact persistRegistry_Inv cfg _ (Inv_of_maps_eq cfg s _ h rfl rfl rfl)
      | exact Inv_of_maps_eq cfg _ _ (persistRegistry_Inv cfg _ (Inv_of_maps_eq cfg s _ h rfl rfl rfl)) rfl rfl rfl
  | some key =>
    unfold registerDb
    dsimp only
    split
    · exact h
    · split
      · exact h
      · rename_i hchk
        have hk := checkApiKeyBinding_ok cfg n key hchk
        have hb : Inv cfg (storeApiKey { s with stored := addName s.stored n } n (some key)).1 :=
          storeApiKey_Inv cfg _ n _ h0 (storeTarget_good_some cfg _ n key h0 hk.1 hk.2)
        split
        · split <;> exact h
        · split
          · exact h
          · split
            · exact h
            · exact h
            · split
              · exact hb
              · have hp := persistRegistry_Inv cfg _ (Inv_of_maps_eq cfg _
                  { (storeApiKey { s with stored := addName s.stored n } n (some key)).1 with
                    opened := addName (storeApiKey { s with stored := addName s.stored n } n (some key)).1.opened n,
                    registry := addName (storeApiKey { s with stored := addName s.stored n } n (some key)).1.registry n }
                  hb rfl rfl rfl)
                split
                · exact hp
                · exact storeApiKey_Inv cfg _ n none (Inv_of_maps_eq cfg _ _ hp rfl rfl rfl)
                    (storeTarget_good_none cfg _ n (Inv_of_maps_eq cfg _ _ hp rfl rfl rfl))

theorem closeDb_Inv (cfg : Cfg) (s : State) (n : String) (h : Inv cfg s) : Inv cfg (closeDb cfg s n).1 := by
  have hp := persistRegistry_Inv cfg { s with opened := delName s.opened n, registry := delName s.registry n }
    (Inv_of_maps_eq cfg s _ h rfl rfl rfl)
  unfold closeDb
  dsimp only
  repeat' split
  all_goals first | exact h | exact hp | exact Inv_of_maps_eq cfg _ _ hp rfl rfl rfl

theorem setDbApiKey_Inv (cfg : Cfg) (s : State) (n : String) (k : Option String) (f : String)
    (h : Inv cfg s) : Inv cfg (setDbApiKey cfg s n k f).1 := by
  unfold setDbApiKey
  dsimp only
  split
  · exact h
  · rename_i hchk
    have hk := checkApiKeyBinding_ok cfg n _ hchk
    have hs := storeApiKey_Inv cfg s n (some (k.getD f)) h (storeTarget_good_some cfg s n _ h hk.1 hk.2)
    repeat' split
    all_goals first | exact h | exact hs

theorem removeDbApiKey_Inv (cfg : Cfg) (s : State) (n : String) (h : Inv cfg s) :
    Inv cfg (removeDbApiKey s n).1 := by
  have hs := storeApiKey_Inv cfg s n none h (storeTarget_good_none cfg s n h)
  unfold removeDbApiKey
  dsimp only
  repeat' split
  all_goals first | exact h | exact hs

theorem rootHandler_Inv (cfg : Cfg) (s : State) (handler : String) (p : RootParams) (f : String)
    (h : Inv cfg s) : Inv cfg (rootHandler cfg s handler p f).1 := by
  unfold rootHandler
  split
  · exact h
  · split
    · exact h
    · cases hn : p.name with
      | none => simp only; repeat' split
                all_goals exact h
      | some n =>
        simp only
        repeat' split
        · exact registerDb_Inv _ _ _ _ _ h
        · exact registerDb_Inv _ _ _ _ _ h
        · exact registerDb_Inv _ _ _ _ _ h
        · exact closeDb_Inv _ _ _ h
        · exact setDbApiKey_Inv _ _ _ _ _ h
        · exact removeDbApiKey_Inv _ _ _ h
        · exact h

theorem rpc_Inv (cfg : Cfg) (s : State) (scope : Scope) (r : Request) (h : Inv cfg s) :
    Inv cfg (rpc cfg s scope r).1 := by
  cases ha : authorizeState cfg s scope (bearerToken r.auth) with
  | error e => rw [rpc_rejected cfg s _ r e ha]; exact h
  | ok p =>
    cases scope with
    | database n =>
      rcases rpc_database_state cfg s n r with e | ⟨_, b, e⟩ <;> rw [e]
      · exact h
      · exact Inv_of_maps_eq cfg s _ h rfl rfl rfl
    | root =>
      unfold rpc
      simp only [ha]
      split
      · exact h
      · split
        · exact h
        · split
          · exact h
          · split
            · exact h
            · rename_i row _
              have := rootHandler_Inv cfg s row.handler ‹RootParams› r.fresh h
              split
              · rename_i heq; rw [heq] at this; exact this
              · rename_i heq; rw [heq] at this; exact this

theorem handle_Inv (cfg : Cfg) (s : State) (r : Request) (h : Inv cfg s) : Inv cfg (handle cfg s r).1 := by
  unfold handle
  split
  · exact h
  · exact h
  · exact rpc_Inv _ _ _ _ h
  · exact rpc_Inv _ _ _ _ h
  · exact h
  · exact h

theorem loadDurable_Inv (cfg : Cfg) (s : State) (h : GoodMap cfg s.durableBound) : Inv cfg (loadDurable cfg s) :=
  ⟨h, h, h⟩

theorem stepEvent_Inv (cfg : Cfg) (s : State) (e : Event) (h : Inv cfg s) : Inv cfg (stepEvent cfg s e) := by
  cases e with
  | request r => exact handle_Inv cfg s r h
  | restart => exact loadDurable_Inv cfg _ h.2.1
  | crash => exact loadDurable_Inv cfg _ h.2.2
  | fault k => exact Inv_of_maps_eq cfg s _ h rfl rfl rfl
  | faultLanding k => exact Inv_of_maps_eq cfg s _ h rfl rfl rfl

theorem run_Inv (cfg : Cfg) (s : State) (es : List Event) (h : Inv cfg s) : Inv cfg (run cfg s es) := by
  induction es generalizing s with
  | nil => exact h
  | cons e es ih => exact ih _ (stepEvent_Inv cfg s e h)

/-! ## the durable key map equals the enforced one (fault model: a failed PUT did not land) -/

/-- the engine's copy and the durable key map equal the enforced one, and no "landing" fault is armed -/
def Sync (s : State) : Prop :=
  s.extBound = s.bound ∧ s.durableBound = s.bound ∧ s.faultLands = false

theorem init_Sync (cfg : Cfg) : Sync (init cfg) := ⟨rfl, rfl, rfl⟩

theorem Sync_of_eq (s s' : State) (h : Sync s) (hb : s'.bound = s.bound) (he : s'.extBound = s.extBound)
    (hd : s'.durableBound = s.durableBound) (hf : s'.faultLands = s.faultLands) : Sync s' := by
  unfold Sync at h ⊢
  rw [hb, he, hd, hf]
  exact h

theorem persistRegistry_Sync (s : State) (h : Sync s) : Sync (persistRegistry s).1 := by
  obtain ⟨h1, h2, h3, _, _, h6⟩ := persistRegistry_fields s
  unfold Sync at h ⊢
  rw [h1, h2, h6]
  refine ⟨h.1, ?_, h.2.2⟩
  rcases h3 with e | e <;> rw [e]
  · exact h.2.1
  · exact h.1

theorem storeApiKey_Sync (s : State) (n : String) (v : Option String) (h : Sync s) :
    Sync (storeApiKey s n v).1 := by
  obtain ⟨h1, h2, _, _, _, h6⟩ := storeApiKey_fields s n v
  unfold Sync at h ⊢
  rw [h6]
  cases hr : (storeApiKey s n v).2 with
  | true =>
    obtain ⟨a, b, c⟩ := h1 hr
    rw [a, b, c]
    exact ⟨rfl, rfl, h.2.2⟩
  | false =>
    obtain ⟨a, b, c⟩ := h2 hr
    rw [a, b, c h.2.2]
    exact ⟨rfl, h.2.1, h.2.2⟩

theorem registerDb_Sync (cfg : Cfg) (s : State) (mode : OpenMode) (n : String) (k : Option String)
    (h : Sync s) : Sync (registerDb cfg s mode n k).1 := by
  have h0 : Sync { s with stored := addName s.stored n } := Sync_of_eq s _ h rfl rfl rfl rfl
  cases k with
  | none =>
    unfold registerDb
    dsimp only
    repeat' split
    all_goals first
      | exact h
      | exact persistRegistry_Sync _ (Sync_of_eq s _ h rfl rfl rfl rfl)
      | exact Sync_of_eq _ _ (persistRegistry_Sync _ (Sync_of_eq s _ h rfl rfl rfl rfl)) rfl rfl rfl rfl
  | some key =>
    unfold registerDb
    dsimp only
    have hb : Sync (storeApiKey { s with stored := addName s.stored n } n (some key)).1 :=
      storeApiKey_Sync _ n _ h0
    have hp := persistRegistry_Sync _ (Sync_of_eq _
      { (storeApiKey { s with stored := addName s.stored n } n (some key)).1 with
        opened := addName (storeApiKey { s with stored := addName s.stored n } n (some key)).1.opened n,
        registry := addName (storeApiKey { s with stored := addName s.stored n } n (some key)).1.registry n }
      hb rfl rfl rfl rfl)
    repeat' split
    all_goals first
      | exact h
      | exact hb
      | exact hp
      | exact storeApiKey_Sync _ n none (Sync_of_eq _ _ hp rfl rfl rfl rfl)

theorem closeDb_Sync (cfg : Cfg) (s : State) (n : String) (h : Sync s) : Sync (closeDb cfg s n).1 := by
  have hp := persistRegistry_Sync { s with opened := delName s.opened n, registry := delName s.registry n }
    (Sync_of_eq s _ h rfl rfl rfl rfl)
  unfold closeDb
  dsimp only
  repeat' split
  all_goals first | exact h | exact hp | exact Sync_of_eq _ _ hp rfl rfl rfl rfl

theorem setDbApiKey_Sync (cfg : Cfg) (s : State) (n : String) (k : Option String) (f : String)
    (h : Sync s) : Sync (setDbApiKey cfg s n k f).1 := by
  have hs := storeApiKey_Sync s n (some (k.getD f)) h
  unfold setDbApiKey
  dsimp only
  repeat' split
  all_goals first | exact h | exact hs

theorem removeDbApiKey_Sync (s : State) (n : String) (h : Sync s) : Sync (removeDbApiKey s n).1 := by
  have hs := storeApiKey_Sync s n none h
  unfold removeDbApiKey
  dsimp only
  repeat' split
  all_goals first | exact h | exact hs

theorem rootHandler_Sync (cfg : Cfg) (s : State) (handler : String) (p : RootParams) (f : String)
    (h : Sync s) : Sync (rootHandler cfg s handler p f).1 := by
  unfold rootHandler
  split
  · exact h
  · split
    · exact h
    · cases hn : p.name with
      | none => simp only; repeat' split
                all_goals exact h
      | some n =>
        simp only
        repeat' split
        · exact registerDb_Sync _ _ _ _ _ h
        · exact registerDb_Sync _ _ _ _ _ h
        · exact registerDb_Sync _ _ _ _ _ h
        · exact closeDb_Sync _ _ _ h
        · exact setDbApiKey_Sync _ _ _ _ _ h
        · exact removeDbApiKey_Sync _ _ h
        · exact h

theorem rpc_Sync (cfg : Cfg) (s : State) (scope : Scope) (r : Request) (h : Sync s) :
    Sync (rpc cfg s scope r).1 := by
  cases ha : authorizeState cfg s scope (bearerToken r.auth) with
  | error e => rw [rpc_rejected cfg s _ r e ha]; exact h
  | ok p =>
    cases scope with
    | database n =>
      rcases rpc_database_state cfg s n r with e | ⟨_, b, e⟩ <;> rw [e]
      · exact h
      · exact Sync_of_eq s _ h rfl rfl rfl rfl
    | root =>
      unfold rpc
      simp only [ha]
      split
      · exact h
      · split
        · exact h
        · split
          · exact h
          · split
            · exact h
            · rename_i row _
              have := rootHandler_Sync cfg s row.handler ‹RootParams› r.fresh h
              split
              · rename_i heq; rw [heq] at this; exact this
              · rename_i heq; rw [heq] at this; exact this

theorem handle_Sync (cfg : Cfg) (s : State) (r : Request) (h : Sync s) : Sync (handle cfg s r).1 := by
  unfold handle
  split
  · exact h
  · exact h
  · exact rpc_Sync _ _ _ _ h
  · exact rpc_Sync _ _ _ _ h
  · exact h
  · exact h

/-- histories in which every armed fault is of the kind "the failed PUT did not land" -/
def NoLandingFault : List Event → Prop
  | [] => True
  | .faultLanding _ :: _ => False
  | _ :: es => NoLandingFault es

theorem run_Sync (cfg : Cfg) (s : State) (es : List Event) (h : Sync s) (hes : NoLandingFault es) :
    Sync (run cfg s es) := by
  induction es generalizing s with
  | nil => exact h
  | cons e es ih =>
    cases e with
    | request r => exact ih _ (handle_Sync cfg s r h) hes
    | restart => exact ih _ ⟨rfl, rfl, rfl⟩ hes
    | crash => exact ih _ ⟨rfl, rfl, rfl⟩ hes
    | fault k => exact ih _ (Sync_of_eq s _ h rfl rfl rfl (by show false = s.faultLands; rw [h.2.2])) hes
    | faultLanding k => exact absurd hes (by simp [NoLandingFault])

/-! ## acknowledged ⇒ durable -/

theorem persistKeys_no_fault (s : State) (hro : s.primaryRO = false) (hf : s.faultIn = none) :
    (persistKeys s).2 = true ∧ (persistKeys s).1.durableBound = s.bound ∧ (persistKeys s).1.bound = s.bound := by
  unfold persistKeys metaPut
  simp [hro, hf]

theorem setDbApiKey_ack (cfg : Cfg) (s s' : State) (n : String) (k : Option String) (f : String) (res : RootResult)
    (h : setDbApiKey cfg s n k f = (s', .ok res)) :
    s'.durableBound = s'.bound ∧ lookup s'.bound n = some (k.getD f) := by
  unfold setDbApiKey at h
  dsimp only at h
  split at h
  · cases h
  · split at h
    · cases h
    · split at h
      · rename_i hok
        cases h
        obtain ⟨hb, hd, _⟩ := (storeApiKey_fields s n (some (k.getD f))).1 hok
        rw [hb, hd]
        exact ⟨rfl, lookup_setKey_self _ _ _⟩
      · cases h

theorem removeDbApiKey_ack (s s' : State) (n : String) (b : Bool)
    (h : removeDbApiKey s n = (s', .ok (.removed b))) :
    s'.durableBound = s'.bound ∧ lookup s'.bound n = none := by
  unfold removeDbApiKey at h
  split at h
  · cases h
  · dsimp only at h
    split at h
    · rename_i hok
      cases h
      obtain ⟨hb, hd, _⟩ := (storeApiKey_fields s n none).1 hok
      rw [hb, hd]
      exact ⟨rfl, lookup_eraseKey_self _ _⟩
    · cases h

theorem registerDb_result (cfg : Cfg) (s : State) (mode : OpenMode) (n : String) (k : Option String) (res : RootResult)
    (h : (registerDb cfg s mode n k).2 = .ok res) : res = .metadata n := by
  cases k <;> unfold registerDb at h <;> dsimp only at h <;> repeat' split at h
  all_goals (cases h; try rfl)

theorem closeDb_result (cfg : Cfg) (s : State) (n : String) (res : RootResult)
    (h : (closeDb cfg s n).2 = .ok res) : res = .unit := by
  unfold closeDb at h
  dsimp only at h
  repeat' split at h
  all_goals (cases h; try rfl)

theorem removeDbApiKey_result (s : State) (n : String) (res : RootResult)
    (h : (removeDbApiKey s n).2 = .ok res) : ∃ b, res = .removed b := by
  unfold removeDbApiKey at h
  dsimp only at h
  repeat' split at h
  all_goals (cases h; try exact ⟨_, rfl⟩)

theorem setDbApiKey_result (cfg : Cfg) (s : State) (n : String) (k : Option String) (f : String) (res : RootResult)
    (h : (setDbApiKey cfg s n k f).2 = .ok res) : res = .keySet n k.isNone := by
  unfold setDbApiKey at h
  dsimp only at h
  repeat' split at h
  all_goals (cases h; try rfl)

/-- an acknowledged key change — `db.set_api_key` answered, or `db.remove_api_key` answered `true` —
leaves the durable key map equal to the enforced one -/
theorem rootHandler_ack (cfg : Cfg) (s s' : State) (hd : String) (p : RootParams) (f : String) (res : RootResult)
    (h : rootHandler cfg s hd p f = (s', .ok res))
    (hres : (∃ n g, res = .keySet n g) ∨ (∃ b, res = .removed b)) : s'.durableBound = s'.bound := by
  have bad_meta : ∀ n, res ≠ .metadata n := by
    intro n e; rcases hres with ⟨_, _, e'⟩ | ⟨_, e'⟩ <;> rw [e'] at e <;> cases e
  have bad_unit : res ≠ .unit := by
    intro e; rcases hres with ⟨_, _, e'⟩ | ⟨_, e'⟩ <;> rw [e'] at e <;> cases e
  unfold rootHandler at h
  split at h
  · cases h; rcases hres with ⟨_, _, e'⟩ | ⟨_, e'⟩ <;> cases e'
  · split at h
    · cases h; rcases hres with ⟨_, _, e'⟩ | ⟨_, e'⟩ <;> cases e'
    · cases hn : p.name with
      | none =>
        simp only [hn] at h
        repeat' split at h
        all_goals cases h
      | some n =>
        simp only [hn] at h
        split at h
        · exact absurd (registerDb_result _ _ _ _ _ _ (congrArg Prod.snd h)) (bad_meta n)
        · split at h
          · exact absurd (registerDb_result _ _ _ _ _ _ (congrArg Prod.snd h)) (bad_meta n)
          · split at h
            · exact absurd (registerDb_result _ _ _ _ _ _ (congrArg Prod.snd h)) (bad_meta n)
            · split at h
              · exact absurd (closeDb_result _ _ _ _ (congrArg Prod.snd h)) bad_unit
              · split at h
                · exact (setDbApiKey_ack _ _ _ _ _ _ _ h).1
                · split at h
                  · rcases hres with ⟨n', g, e'⟩ | ⟨b, e'⟩
                    · obtain ⟨b, eb⟩ := removeDbApiKey_result _ _ _ (congrArg Prod.snd h)
                      rw [e'] at eb; cases eb
                    · rw [e'] at h
                      exact (removeDbApiKey_ack _ _ _ _ h).1
                  · cases h

/-! ## routing -/

theorem pathOnly_append_query (p q : List Nat) (hp : ∀ b ∈ p, b ≠ 63) : pathOnly (p ++ 63 :: q) = p := by
  unfold pathOnly
  induction p with
  | nil => simp [List.takeWhile]
  | cons b tl ih =>
    have hb : b ≠ 63 := hp b List.mem_cons_self
    have htl : ∀ x ∈ tl, x ≠ 63 := fun x hx => hp x (List.mem_cons_of_mem _ hx)
    simp only [List.cons_append, List.takeWhile_cons]
    simp only [ne_eq, hb, not_false_eq_true, decide_true, ↓reduceIte]
    rw [ih htl]

theorem pathOnly_of_no_query (p : List Nat) (hp : ∀ b ∈ p, b ≠ 63) : pathOnly p = p := by
  unfold pathOnly
  induction p with
  | nil => rfl
  | cons b tl ih =>
    have hb : b ≠ 63 := hp b List.mem_cons_self
    have htl : ∀ x ∈ tl, x ≠ 63 := fun x hx => hp x (List.mem_cons_of_mem _ hx)
    simp only [List.takeWhile_cons, ne_eq, hb, not_false_eq_true, decide_true, ↓reduceIte]
    rw [ih htl]

/-- what `routePath` answers is decided by the path alone -/
theorem routePath_eq_of_pathOnly (t₁ t₂ : List Nat) (h : pathOnly t₁ = pathOnly t₂) :
    routePath t₁ = routePath t₂ := by
  unfold routePath
  rw [h]

theorem routePath_db (t : List Nat) (n : String) (h : routePath t = .db n) :
    ∃ seg, pathOnly t = 47 :: seg ∧ seg ≠ [] ∧ seg.contains 47 = false ∧
      utf8Decode (percentDecode seg) = some n := by
  unfold routePath at h
  split at h
  · rename_i rest heq
    split at h
    · cases h
    · rename_i hne
      split at h
      · cases h
      · rename_i hc
        split at h
        · rename_i name hd
          cases h
          refine ⟨rest, heq, ?_, by simpa using hc, hd⟩
          intro e
          apply hne
          simp [e]
        · cases h
  · cases h

theorem routePath_root (t : List Nat) : routePath t = .root ↔ pathOnly t = [47] := by
  unfold routePath
  constructor
  · intro h
    split at h
    · rename_i rest heq
      split at h
      · rename_i he
        rw [heq]
        have : rest = [] := by simpa using he
        rw [this]
      · split at h
        · cases h
        · split at h <;> cases h
    · cases h
  · intro h
    rw [h]
    simp

/-! ## storage addressing -/

theorem touchedDb_dispatchDb (cfg : Cfg) (s : State) (n n' : String) (p : Principal) (v : String)
    (e : Gen.ServerMethods.Effect) (ps : RootParams) (enc : Enc) (pr : Option Principal)
    (h : touchedDb ⟨enc, (dispatchDb cfg s n p v e ps).2, pr⟩ = some n') :
    n' = n ∧ s.opened.contains n = true := by
  unfold dispatchDb at h
  split at h
  · cases h
  · rename_i ho
    split at h
    · cases h
    · split at h
      · cases h
      · simp only [touchedDb] at h
        cases h
        exact ⟨rfl, by simpa using ho⟩

theorem touchedDb_rpc_root (cfg : Cfg) (s : State) (r : Request) : touchedDb (rpc cfg s .root r).2 = none := by
  cases ha : authorizeState cfg s .root (bearerToken r.auth) with
  | error e => rw [rpc_rejected cfg s _ r e ha]; rfl
  | ok p =>
    unfold rpc
    simp only [ha]
    repeat' split
    all_goals rfl

theorem touchedDb_rpc_database (cfg : Cfg) (s : State) (n n' : String) (r : Request)
    (h : touchedDb (rpc cfg s (.database n) r).2 = some n') : n' = n ∧ s.opened.contains n = true := by
  cases ha : authorizeState cfg s (.database n) (bearerToken r.auth) with
  | error e => rw [rpc_rejected cfg s _ r e ha] at h; cases h
  | ok p =>
    unfold rpc at h
    simp only [ha] at h
    split at h
    · cases h
    · split at h
      · cases h
      · split at h
        · cases h
        · exact touchedDb_dispatchDb _ _ _ _ _ _ _ _ _ _ h

end AndaVerif.ServerAuth
