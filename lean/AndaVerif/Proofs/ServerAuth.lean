/-
Helper lemmas for Props/C14 (model: Model/ServerAuth).
-/
import AndaVerif.Model.ServerAuth

namespace AndaVerif.ServerAuth

/-! ## `authorize` -/

theorem verify_iff (a p : String) : verify a p = true ↔ a = p := by
  simp [verify]

theorem presentedIs_iff (k : String) (p : Option String) : presentedIs k p = true ↔ p = some k := by
  cases p with
  | none => simp [presentedIs]
  | some x => simp [presentedIs, verify]; exact eq_comm

theorem authorize_error (admin bound : Option String) (scope : Scope) (presented : Option String)
    (e : ApiError) (h : authorize admin bound scope presented = .error e) : e = .unauthorized := by
  unfold authorize at h
  repeat' split at h
  all_goals (cases h <;> rfl)

theorem authorize_ok_database (admin bound : Option String) (scope : Scope) (presented : Option String)
    (h : authorize admin bound scope presented = .ok .database) :
    ∃ a n p, admin = some a ∧ scope = .database n ∧ presented = some p ∧ bound = some p ∧ p ≠ a := by
  unfold authorize at h
  split at h
  · cases h
  · rename_i a
    split at h
    · cases h
    · rename_i hadm
      split at h
      · cases h
      · rename_i n
        split at h
        · rename_i b
          split at h
          · rename_i hb
            have hp := (presentedIs_iff b presented).1 hb
            refine ⟨a, n, b, rfl, rfl, hp, rfl, ?_⟩
            intro hba
            apply hadm
            rw [(presentedIs_iff a presented)]
            rw [hp, hba]
          · cases h
        · cases h

theorem authorize_database_of (a n p : String) (hne : p ≠ a) :
    authorize (some a) (some p) (.database n) (some p) = .ok .database := by
  have h1 : presentedIs a (some p) = false := by
    cases hc : presentedIs a (some p) with
    | false => rfl
    | true =>
      have := (presentedIs_iff a (some p)).1 hc
      exact absurd (Option.some.inj this) hne
  have h2 : presentedIs p (some p) = true := (presentedIs_iff p (some p)).2 rfl
  simp [authorize, h1, h2]

theorem authorize_ok_admin (admin bound : Option String) (scope : Scope) (presented : Option String)
    (h : authorize admin bound scope presented = .ok .admin) :
    admin = none ∨ (∃ a, admin = some a ∧ presented = some a) := by
  unfold authorize at h
  split at h
  · exact .inl rfl
  · rename_i a
    split at h
    · rename_i hv
      exact .inr ⟨a, rfl, (presentedIs_iff a presented).1 hv⟩
    · repeat' split at h
      all_goals cases h

/-- the root scope never yields a `Database` principal -/
theorem authorize_root_not_database (admin bound : Option String) (presented : Option String) :
    authorize admin bound .root presented ≠ .ok .database := by
  intro h
  obtain ⟨_, _, _, _, hs, _⟩ := authorize_ok_database _ _ _ _ h
  cases hs

/-- a non-admin token that is not the bound key is rejected, whatever else is true -/
theorem authorize_rejects (a : String) (bound : Option String) (scope : Scope) (presented : Option String)
    (hadm : presented ≠ some a) (hb : bound = none ∨ presented = none ∨ bound ≠ presented) :
    authorize (some a) bound scope presented = .error .unauthorized := by
  have h1 : presentedIs a presented = false := by
    cases hc : presentedIs a presented with
    | false => rfl
    | true => exact absurd ((presentedIs_iff a presented).1 hc) hadm
  unfold authorize
  simp only [h1]
  cases scope with
  | root => simp
  | database n =>
    cases bound with
    | none => simp
    | some b =>
      have h2 : presentedIs b presented = false := by
        cases hc : presentedIs b presented with
        | false => rfl
        | true =>
          have hp := (presentedIs_iff b presented).1 hc
          rcases hb with hb | hb | hb
          · cases hb
          · rw [hb] at hp; cases hp
          · exact absurd hp.symm hb
      simp [h2]

/-! ## association list -/

theorem lookup_eraseKey_self (m : List (String × String)) (n : String) : lookup (eraseKey m n) n = none := by
  induction m with
  | nil => rfl
  | cons kv rest ih =>
    unfold eraseKey at ih ⊢
    rw [List.filter_cons]
    split
    · rename_i h
      have hk : (kv.1 == n) = false := by simpa using h
      simp only [lookup, hk]
      exact ih
    · exact ih

theorem lookup_eraseKey_ne (m : List (String × String)) (n x : String) (h : x ≠ n) :
    lookup (eraseKey m n) x = lookup m x := by
  induction m with
  | nil => rfl
  | cons kv rest ih =>
    unfold eraseKey at ih ⊢
    rw [List.filter_cons]
    split
    · simp only [lookup]
      rw [ih]
    · rename_i hk
      have hkn : kv.1 = n := by simpa using hk
      have hkx : (kv.1 == x) = false := by
        simp only [beq_eq_false_iff_ne, ne_eq]
        intro e
        exact h (by rw [← e, hkn])
      simp only [lookup, hkx]
      exact ih

theorem lookup_setKey_self (m : List (String × String)) (n k : String) : lookup (setKey m n k) n = some k := by
  simp [setKey, lookup]

theorem lookup_setKey_ne (m : List (String × String)) (n k x : String) (h : x ≠ n) :
    lookup (setKey m n k) x = lookup m x := by
  have hnx : (n == x) = false := by
    simp only [beq_eq_false_iff_ne, ne_eq]
    exact fun e => h e.symm
  simp only [setKey, lookup, hnx]
  exact lookup_eraseKey_ne m n x h

end AndaVerif.ServerAuth
