import AndaVerif.Proofs.TxHistory
/-
One Proposition per tuple; the journal's sequences along a history.
-/
namespace AndaVerif.Tx
open AndaVerif.Gen.NexusOrder

/-- two Proposition rows (whatever their state) never carry the same tuple key -/
def TInv (s : Store) : Prop :=
  ∀ (i j : Id) (ei ej : Elem) (t : Id × Nat × Id), i.kind = .proposition → j.kind = .proposition →
    s.elems i = some ei → s.elems j = some ej → ei.row.tup = some t → ej.row.tup = some t → i = j

theorem init_TInv : TInv Store.init := by intro i j ei ej t _ _ h; cases h

/-- removing rows keeps it -/
theorem TInv.remove {s s' : Store} (h : TInv s) (hsub : ∀ i e, s'.elems i = some e → s.elems i = some e) : TInv s' :=
  fun i j ei ej t hi hj h1 h2 => h i j ei ej t hi hj (hsub i ei h1) (hsub j ej h2)

theorem idsOf_mem (s : Store) (i : Id) (h : i.n < s.next i.kind) : i ∈ idsOf s i.kind := by
  simp only [idsOf, List.mem_map, List.mem_range]
  exact ⟨i.n, h, by cases i; rfl⟩

theorem writeOne_TInv {s s' : Store} {q : Nat} {i : Id} {x : Staged} (hwf : WF s) (h : TInv s)
    (hw : writeOne s q i x = .ok s') : TInv s' := by
  unfold writeOne at hw
  split at hw
  · cases hw
  · split at hw
    · cases hw
    · rename_i hnt
      cases hw
      intro a b ea eb t ha hb h1 h2 h3 h4
      simp only [setElem] at h1 h2
      -- no other Proposition row carries the tuple the write stores
      have hother : ∀ (j : Id) (ej : Elem), i.kind = .proposition → j ≠ i → j.kind = .proposition → s.elems j = some ej →
          x.row.tup = some t → ej.row.tup ≠ some t := by
        intro j ej hik hji hjk hej hxt hejt
        apply hnt
        refine ⟨hik, ?_⟩
        simp only [tupleTaken, hxt, List.any_eq_true]
        have hjn : j.n < s.next j.kind := by
          apply Nat.lt_of_not_le
          intro hle
          have := hwf j hle
          rw [hej] at this; cases this
        have hmem := idsOf_mem s j hjn
        rw [hjk] at hmem
        refine ⟨j, hmem, ?_⟩
        simp [propHasTuple, hej, hejt, hji]
      by_cases hai : a = i
      · by_cases hbi : b = i
        · rw [hai, hbi]
        · simp only [hai, if_true, Option.some.injEq] at h1
          simp only [hbi, if_false] at h2
          subst h1
          exact absurd h4 (hother b eb (hai ▸ ha) hbi hb h2 h3)
      · by_cases hbi : b = i
        · simp only [hbi, if_true, Option.some.injEq] at h2
          simp only [hai, if_false] at h1
          subst h2
          exact absurd h3 (hother a ea (hbi ▸ hb) hai ha h1 h4)
        · simp only [hai, if_false] at h1
          simp only [hbi, if_false] at h2
          exact h a b ea eb t ha hb h1 h2 h3 h4

theorem writeLoop_TInv (q : Nat) (m : List (Id × Staged)) :
    ∀ (s : Store) (acc : List Change), WF s → TInv s →
      WF (writeLoop q s m acc).1 ∧ TInv (writeLoop q s m acc).1 := by
  induction m with
  | nil => intro s acc h1 h2; exact ⟨h1, h2⟩
  | cons p r ih =>
      obtain ⟨i, x⟩ := p
      intro s acc h1 h2
      simp only [writeLoop]
      split
      · split
        · exact ⟨h1, h2⟩
        · rename_i s1 hw
          exact ih s1 _ (writeOne_WF h1 hw) (writeOne_TInv h1 h2 hw)
      · exact ih s acc h1 h2

/-- planning adds only shell rows, whose tuple key is the (unique) placeholder -/
theorem RInv.tinv {base : Store} {q : Nat} {d : Bool} {p : PS} (h : RInv base q d p) (ht : TInv base) : TInv p.s := by
  intro i j ei ej t hi hj h1 h2 h3 h4
  have r1 := h.raw i
  have r2 := h.raw j
  rw [h1] at r1
  rw [h2] at r2
  split at r1
  · cases r1; simp [shellElem, stubRow] at h3
  · split at r2
    · cases r2; simp [shellElem, stubRow] at h4
    · exact ht i j ei ej t hi hj r1.symm r2.symm h3 h4

theorem discard_sub (s : Store) (l : List Id) (i : Id) (e : Elem) (h : (discardShells s l).elems i = some e) :
    s.elems i = some e := by
  simp only [discardShells, discard_elems] at h
  split at h
  · cases h
  · exact h

/-- every statement, however it ends, keeps "one Proposition per tuple" -/
theorem exec_TInv {s : Store} (hwf : WF s) (ht : TInv s) (st : Stmt) : TInv (exec s st).1 := by
  have hinv := planned_inv hwf st
  have hp : TInv (planned s st).s := hinv.tinv (fun i j ei ej t => ht i j ei ej t)
  rcases exec_cases s st with ⟨e', he, hr⟩ | ⟨he, hc⟩
  · rw [hr]; exact hp.remove (discard_sub _ _)
  · cases hc with
    | dry hd hr => rw [hr]; exact hp.remove (discard_sub _ _)
    | check hd e' hk hr => rw [hr]; exact hp.remove (discard_sub _ _)
    | write hd u hk s' w e' hw hr =>
        have := writeLoop_TInv (planned s st).tx.seq (planned s st).tx.staged (planned s st).s [] hinv.wf hp
        rw [hw] at this
        rw [hr]; exact this.2
    | done hd u hk s' w hw hr =>
        have := writeLoop_TInv (planned s st).tx.seq (planned s st).tx.staged (planned s st).s [] hinv.wf hp
        rw [hw] at this
        rw [hr]
        refine this.2.remove ?_
        intro i e hie
        rw [committedStore_elems] at hie
        split at hie
        · cases hie
        · exact hie

theorem run_TInv {s : Store} (hwf : WF s) (ht : TInv s) (l : List Stmt) : TInv (run s l) := by
  induction l generalizing s with
  | nil => exact ht
  | cons st r ih => exact ih (exec_spec hwf st).wf (exec_TInv hwf ht st)

/-- `find_proposition` resolves a tuple to the only row that carries it -/
theorem findProposition_unique {s : Store} (ht : TInv s) (t : Id × Nat × Id) (i : Id) (h : findProposition s t = some i)
    (j : Id) (ej : Elem) (hj : j.kind = .proposition) (hej : s.elems j = some ej) (htup : ej.row.tup = some t) : j = i := by
  unfold findProposition at h
  have hmem := List.mem_of_find?_eq_some h
  have hp := List.find?_some h
  simp only [idsOf, List.mem_map] at hmem
  obtain ⟨n, _, hn⟩ := hmem
  have hik : i.kind = .proposition := by rw [← hn]
  simp only [propHasTuple] at hp
  split at hp
  · cases hp
  · rename_i ei hei
    have : ei.row.tup = some t := by simpa using hp
    exact ht j i ej ei t hj hik hej hei htup this

/-! ## The journal along a history -/

/-- journal rows carry strictly decreasing sequences (newest first), none above the Space sequence -/
def JInv (s : Store) : Prop :=
  (∀ e ∈ s.journal, e.seq ≤ s.seq) ∧ s.journal.Pairwise (fun a b => b.seq < a.seq)

theorem init_JInv : JInv Store.init := ⟨(by intro e he; cases he), List.Pairwise.nil⟩

theorem exec_JInv {s : Store} (hwf : WF s) (h : JInv s) (st : Stmt) : JInv (exec s st).1 := by
  obtain ⟨hseq, hj⟩ := exec_seq_journal hwf st
  rcases hj with hj | ⟨w, _, hj⟩
  · exact ⟨(by intro e he; rw [hj] at he; rw [hseq]; have := h.1 e he; omega), (by rw [hj]; exact h.2)⟩
  · refine ⟨?_, ?_⟩
    · intro e he
      rw [hj] at he
      rcases List.mem_cons.mp he with he | he
      · rw [he, hseq]; exact Nat.le_refl _
      · rw [hseq]; have := h.1 e he; omega
    · rw [hj]
      refine List.Pairwise.cons ?_ h.2
      intro e he
      have := h.1 e he
      show e.seq < s.seq + 1
      omega

theorem run_JInv {s : Store} (hwf : WF s) (h : JInv s) (l : List Stmt) : JInv (run s l) := by
  induction l generalizing s with
  | nil => exact h
  | cons st r ih => exact ih (exec_spec hwf st).wf (exec_JInv hwf h st)

end AndaVerif.Tx
