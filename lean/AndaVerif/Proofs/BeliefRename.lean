import AndaVerif.Proofs.BeliefRows
/-
Assertion ids are reassigned when the same Assertions are recorded in another order. Ids reach the
aggregation only through the synthetic actor key of an unattributed Assertion; an injective
renaming of ids renames those keys injectively, which the grouping cannot see.
-/
namespace AndaVerif.Belief

/-- The key renaming induced by an id renaming. -/
def renKey (ρ : Nat → Nat) : Key → Key
  | .anon i => .anon (ρ i)
  | k => k

theorem renKey_injective {ρ : Nat → Nat} (hρ : Function.Injective ρ) : Function.Injective (renKey ρ) := by
  intro a b h
  cases a <;> cases b <;> simp_all [renKey]
  exact hρ h

def renGroup (ρ : Nat → Nat) (g : Group) : Group := (g.1.map (renKey ρ), g.2)

def renCand (ρ : Nat → Nat) (c : Cand) : Cand := { c with id := ρ c.id, actor := renKey ρ c.actor }

def renRow (ρ : Nat → Nat) (r : Row) : Row := { r with id := ρ r.id }

theorem renCand_keys (ρ : Nat → Nat) (c : Cand) : (renCand ρ c).keys = c.keys.map (renKey ρ) := by
  simp [renCand, Cand.keys, List.map_map, Function.comp, renKey]

theorem hit_ren {ρ : Nat → Nat} (hρ : Function.Injective ρ) (keys : List Key) (g : Group) :
    hit (keys.map (renKey ρ)) (renGroup ρ g) = hit keys g := by
  rw [Bool.eq_iff_iff]
  simp only [hit, renGroup, overlaps_iff, List.mem_map]
  constructor
  · rintro ⟨k, ⟨a, ha, rfl⟩, ⟨b, hb, hab⟩⟩
    have := renKey_injective hρ hab
    subst this
    exact ⟨b, ha, hb⟩
  · rintro ⟨k, h1, h2⟩
    exact ⟨_, ⟨k, h1, rfl⟩, ⟨k, h2, rfl⟩⟩

theorem hitsOf_ren {ρ : Nat → Nat} (hρ : Function.Injective ρ) (keys : List Key) (gs : List Group) :
    hitsOf (keys.map (renKey ρ)) (gs.map (renGroup ρ)) = (hitsOf keys gs).map (renGroup ρ) := by
  unfold hitsOf
  rw [List.filter_map]
  congr 1; apply List.filter_congr; intro g _; exact hit_ren hρ keys g

theorem missesOf_ren {ρ : Nat → Nat} (hρ : Function.Injective ρ) (keys : List Key) (gs : List Group) :
    missesOf (keys.map (renKey ρ)) (gs.map (renGroup ρ)) = (missesOf keys gs).map (renGroup ρ) := by
  unfold missesOf
  rw [List.filter_map]
  congr 1; apply List.filter_congr; intro g _
  simp only [Function.comp, hit_ren hρ keys g]

theorem flatKeys_ren (ρ : Nat → Nat) (gs : List Group) :
    flatKeys (gs.map (renGroup ρ)) = (flatKeys gs).map (renKey ρ) := by
  induction gs with
  | nil => rfl
  | cons g gs ih =>
    simp only [flatKeys, List.map_cons, List.flatMap_cons, List.map_append] at ih ⊢
    rw [ih]; rfl

theorem maxConf_ren (ρ : Nat → Nat) (c : Int) (gs : List Group) :
    maxConf c (gs.map (renGroup ρ)) = maxConf c gs := by
  induction gs generalizing c with
  | nil => rfl
  | cons g gs ih => exact ih (max c g.2)

theorem addSpec_ren {ρ : Nat → Nat} (hρ : Function.Injective ρ) (keys : List Key) (conf : Int) (gs : List Group) :
    addSpec (keys.map (renKey ρ)) conf (gs.map (renGroup ρ)) = (addSpec keys conf gs).map (renGroup ρ) := by
  induction gs with
  | nil => rfl
  | cons g gs ih =>
    simp only [List.map_cons]
    unfold addSpec
    rw [hit_ren hρ keys g]
    split
    · simp only [List.map_cons, hitsOf_ren hρ, missesOf_ren hρ, flatKeys_ren, maxConf_ren]
      simp [renGroup, List.map_append]
    · simp only [List.map_cons, ih]

theorem groupsSpec_ren {ρ : Nat → Nat} (hρ : Function.Injective ρ) (gs : List Group) (cands : List Cand) :
    groupsSpec (gs.map (renGroup ρ)) (cands.map (renCand ρ)) = (groupsSpec gs cands).map (renGroup ρ) := by
  induction cands generalizing gs with
  | nil => rfl
  | cons c rest ih =>
    show groupsSpec (addSpec (renCand ρ c).keys (renCand ρ c).conf (gs.map (renGroup ρ))) (rest.map (renCand ρ)) = _
    rw [renCand_keys, show (renCand ρ c).conf = c.conf from rfl, addSpec_ren hρ, ih]
    rfl

theorem scoreOf_ren (den : Nat) (ρ : Nat → Nat) (gs : List Group) :
    scoreOf den (gs.map (renGroup ρ)) = scoreOf den gs := by
  have : compProd den (gs.map (renGroup ρ)) = compProd den gs := by
    induction gs with
    | nil => rfl
    | cons g gs ih => simp only [List.map_cons, compProd_cons, ih]; rfl
  simp [scoreOf, this]

/-- **`aggregate` does not see an injective renaming of Assertion ids.** -/
theorem aggregate_ren (den : Nat) {ρ : Nat → Nat} (hρ : Function.Injective ρ) (cands : List Cand) (opposing : Bool) :
    aggregate den (cands.map (renCand ρ)) opposing = aggregate den cands opposing := by
  rw [aggregate_eq, aggregate_eq]
  have hf : (cands.map (renCand ρ)).filter (onSide opposing) = (cands.filter (onSide opposing)).map (renCand ρ) := by
    rw [List.filter_map]; congr 1
  rw [hf]
  have := groupsSpec_ren hρ [] (cands.filter (onSide opposing))
  simp only [List.map_nil] at this
  rw [this, scoreOf_ren, List.length_map]
  simp

-- ------------------------------------------------------------------------------------------
-- rows
-- ------------------------------------------------------------------------------------------

theorem eligible_ren (pol : Policy) (now : Nat) (ρ : Nat → Nat) (r : Row) :
    eligible pol now (renRow ρ r) = (eligible pol now r).map (renCand ρ) := by
  rw [eligible_eq_spec, eligible_eq_spec]
  unfold eligibleSpec renRow renCand
  simp only
  repeat' split
  all_goals simp_all [Except.map, renKey]

theorem candOf_ren (pol : Policy) (now : Nat) (ρ : Nat → Nat) (r : Row) :
    candOf pol now (renRow ρ r) = (candOf pol now r).map (renCand ρ) := by
  unfold candOf; rw [eligible_ren]
  cases eligible pol now r <;> simp [Except.map]

theorem exclOf_ren (pol : Policy) (now : Nat) (ρ : Nat → Nat) (r : Row) :
    exclOf pol now (renRow ρ r) = (exclOf pol now r).map (fun x => (ρ x.1, x.2)) := by
  unfold exclOf; rw [eligible_ren]
  cases eligible pol now r <;> simp [Except.map, renRow]

theorem rowsAbout_ren (ρ : Nat → Nat) (rows : List Row) (p : Nat) :
    rowsAbout (rows.map (renRow ρ)) p = (rowsAbout rows p).map (renRow ρ) := by
  unfold rowsAbout; rw [List.filter_map]; congr 1

theorem targetCands_ren (pol : Policy) (now : Nat) (ρ : Nat → Nat) (rs : List Row) :
    targetCands pol now (rs.map (renRow ρ)) = (targetCands pol now rs).map (renCand ρ) := by
  induction rs with
  | nil => rfl
  | cons r rs ih =>
    unfold targetCands at ih ⊢
    simp only [List.map_cons, List.filterMap_cons, candOf_ren]
    cases candOf pol now r <;> simp [ih]

theorem rivalCands_ren (pol : Policy) (now : Nat) (ρ : Nat → Nat) (rs : List Row) :
    rivalCands pol now (rs.map (renRow ρ)) = (rivalCands pol now rs).map (renCand ρ) := by
  induction rs with
  | nil => rfl
  | cons r rs ih =>
    unfold rivalCands at ih ⊢
    simp only [List.map_cons, List.filterMap_cons, candOf_ren]
    cases h : candOf pol now r with
    | none => simpa using ih
    | some c =>
      simp only [Option.map_some]
      have hs : (renCand ρ c).stance = c.stance := rfl
      rw [hs]
      by_cases hst : c.stance = .support
      · simp only [hst, if_true, List.map_cons, ih]; rfl
      · simp only [hst, if_false]; exact ih

theorem allRivalCands_ren (pol : Policy) (now : Nat) (ρ : Nat → Nat) (rows : List Row) (rivals : List Nat) :
    allRivalCands pol now (rows.map (renRow ρ)) rivals = (allRivalCands pol now rows rivals).map (renCand ρ) := by
  unfold allRivalCands
  rw [List.map_flatMap]
  congr 1; funext p
  rw [rowsAbout_ren, rivalCands_ren]

theorem idsWith_ren (pol : Policy) (now : Nat) (ρ : Nat → Nat) (st : Stance) (rs : List Row) :
    idsWith pol now st (rs.map (renRow ρ)) = (idsWith pol now st rs).map ρ := by
  unfold idsWith
  rw [targetCands_ren]
  induction targetCands pol now rs with
  | nil => rfl
  | cons c cs ih =>
    simp only [List.map_cons, List.filterMap_cons]
    have hs : (renCand ρ c).stance = c.stance := rfl
    rw [hs]
    by_cases hst : c.stance = st
    · simp only [hst, if_true, List.map_cons, ih]; rfl
    · simp only [hst, if_false]; exact ih

/-- Renaming the ids of the stored rows renames the candidates and the ledger, nothing else. -/
theorem collect_ren (pol : Policy) (now : Nat) (ρ : Nat → Nat) (rows : List Row) (target : Nat) (rivals : List Nat) :
    collect pol now (rows.map (renRow ρ)) target rivals =
      ({ supporting := (collect pol now rows target rivals).1.supporting.map ρ
         opposing := (collect pol now rows target rivals).1.opposing.map ρ
         uncertain := (collect pol now rows target rivals).1.uncertain.map ρ
         excluded := (collect pol now rows target rivals).1.excluded.map (fun x => (ρ x.1, x.2)) },
       (collect pol now rows target rivals).2.map (renCand ρ)) := by
  rw [collect_eq, collect_eq]
  simp only [rowsAbout_ren, idsWith_ren, targetCands_ren, allRivalCands_ren]
  have hx : ((rowsAbout rows target).map (renRow ρ)).filterMap (exclOf pol now) =
      ((rowsAbout rows target).filterMap (exclOf pol now)).map (fun x => (ρ x.1, x.2)) := by
    induction rowsAbout rows target with
    | nil => rfl
    | cons r rs ih =>
      simp only [List.map_cons, List.filterMap_cons, exclOf_ren]
      cases exclOf pol now r <;> simp [ih]
  rw [hx]
  split
  · simp [List.map_append, List.map_map, Function.comp, renCand]
  · simp

/-- **Fresh ids do not matter**: the projection over the same rows under injectively renamed ids has
the same status, scores and group counts, and the renamed ledger. -/
theorem project_ren (pol : Policy) (now : Nat) {ρ : Nat → Nat} (hρ : Function.Injective ρ) (rows : List Row)
    (functional : Bool) (slot : List Nat) (target : Nat) :
    ∃ a b, project pol now rows functional slot target = some a ∧
      project pol now (rows.map (renRow ρ)) functional slot target = some b ∧
      a.status = b.status ∧ a.support = b.support ∧ a.supportGroups = b.supportGroups ∧
      a.opposition = b.opposition ∧ a.oppositionGroups = b.oppositionGroups ∧
      b.ledger.supporting = a.ledger.supporting.map ρ ∧ b.ledger.opposing = a.ledger.opposing.map ρ ∧
      b.ledger.uncertain = a.ledger.uncertain.map ρ ∧
      b.ledger.excluded = a.ledger.excluded.map (fun x => (ρ x.1, x.2)) := by
  rw [project_eq, project_eq, collect_ren]
  obtain ⟨s, g, h1⟩ := aggregate_total pol.den (collect pol now rows target (rivalsOf functional slot target)).2 false
  obtain ⟨o, k, h2⟩ := aggregate_total pol.den (collect pol now rows target (rivalsOf functional slot target)).2 true
  unfold projectCands
  simp only [aggregate_ren pol.den hρ, h1, h2]
  refine ⟨_, _, rfl, rfl, ?_, rfl, rfl, rfl, rfl, rfl, rfl, rfl, rfl⟩
  simp [classify]

end AndaVerif.Belief
