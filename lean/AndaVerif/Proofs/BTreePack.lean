import AndaVerif.Model.BTreePack
namespace AndaVerif
namespace BTreePack

theorem keysOf_cons (b : Bin) (bs : List Bin) : keysOf (b :: bs) = b.2 ++ keysOf bs := by
  simp [keysOf]

theorem place_perm (limit : Nat) (k : Int) (sz : Nat) : ∀ bins : List Bin,
    (keysOf (place limit k sz bins)).Perm (k :: keysOf bins)
  | [] => by simp [place, keysOf]
  | b :: bs => by
    simp only [place]
    split
    · simp only [keysOf_cons, List.append_assoc, List.singleton_append]
      exact List.perm_middle
    · simp only [keysOf_cons]
      exact ((place_perm limit k sz bs).append_left b.2).trans List.perm_middle

theorem pack_perm (limit : Nat) : ∀ (items : List (Int × Nat)) (bins : List Bin),
    (keysOf (pack limit items bins)).Perm (items.map (·.1) ++ keysOf bins)
  | [], bins => by simp [pack]
  | (k, sz) :: items, bins => by
    simp only [pack, List.map_cons, List.cons_append]
    refine (pack_perm limit items _).trans ?_
    refine ((place_perm limit k sz bins).append_left _).trans ?_
    exact List.perm_middle

/-- a bin is within the limit, or holds a single item (one that alone reaches the limit) -/
def BinOK (limit : Nat) (b : Bin) : Prop := b.2 ≠ [] ∧ (b.1 < limit ∨ b.2.length = 1)

theorem place_ok (limit : Nat) (k : Int) (sz : Nat) : ∀ bins : List Bin, (∀ b ∈ bins, BinOK limit b) →
    ∀ b ∈ place limit k sz bins, BinOK limit b
  | [], _ => by
    intro b hb
    simp only [place, List.mem_singleton] at hb
    subst hb
    exact ⟨by simp, Or.inr rfl⟩
  | b₀ :: bs, h => by
    intro b hb
    simp only [place] at hb
    split at hb
    · rename_i hfit
      rcases List.mem_cons.1 hb with e | hb'
      · subst e
        exact ⟨by simp, Or.inl hfit⟩
      · exact h b (List.mem_cons_of_mem _ hb')
    · rcases List.mem_cons.1 hb with e | hb'
      · subst e; exact h b (by simp)
      · exact place_ok limit k sz bs (fun x hx => h x (List.mem_cons_of_mem _ hx)) b hb'

theorem pack_ok (limit : Nat) : ∀ (items : List (Int × Nat)) (bins : List Bin), (∀ b ∈ bins, BinOK limit b) →
    ∀ b ∈ pack limit items bins, BinOK limit b
  | [], _, h => h
  | (k, sz) :: items, bins, h => pack_ok limit items _ (place_ok limit k sz bins h)

end BTreePack
end AndaVerif
