import AndaVerif.Gen.NexusOrderFacts
import AndaVerif.Proofs.TxNew
import AndaVerif.Proofs.TxUnique
/-
Why the write loop cannot be refused any more: the Propositions a statement stages for creation
carry pairwise distinct tuples, none of which a stored row carries (ENSURE looks in the store, then
at the staged rows, and only then mints).
-/
namespace AndaVerif.Tx
open AndaVerif.Gen.NexusOrder

abbrev Tup := Id × Nat × Id

/-- no stored Proposition row carries `t` -/
def StoreFree (s : Store) (t : Tup) : Prop :=
  ∀ j e, j.kind = .proposition → s.elems j = some e → e.row.tup ≠ some t

/-- no Proposition staged for creation carries `t` -/
def StagedFree (m : List (Id × Staged)) (t : Tup) : Prop :=
  ∀ q ∈ m, q.1.kind = .proposition → q.2.isNew = true → q.2.row.tup ≠ some t

/-- `T`: tuples known to be carried by nothing yet -/
structure UInv (T : List Tup) (p : PS) : Prop where
  absent : ∀ q ∈ p.tx.staged, q.1.kind = .proposition → q.2.isNew = true → ∀ t, q.2.row.tup = some t → StoreFree p.s t
  distinct : ∀ q r, q ∈ p.tx.staged → r ∈ p.tx.staged → q.1.kind = .proposition → r.1.kind = .proposition →
      q.2.isNew = true → r.2.isNew = true → ∀ t, q.2.row.tup = some t → r.2.row.tup = some t → q.1 = r.1
  free : ∀ t ∈ T, StoreFree p.s t ∧ StagedFree p.tx.staged t

def UStep (T T' : List Tup) (f : Store → Tx → PS) : Prop :=
  ∀ (s : Store) (tx : Tx) (e : Option Err), UInv T { s := s, tx := tx, err := e } → UInv T' (f s tx)

abbrev UPres (T : List Tup) (f : Store → Tx → PS) : Prop := UStep T T f

theorem UInv.weaken {T T' : List Tup} {p : PS} (h : UInv T p) (hT : ∀ t ∈ T', t ∈ T) : UInv T' p :=
  { absent := h.absent, distinct := h.distinct, free := fun t ht => h.free t (hT t ht) }

/-- same store, same staged map -/
theorem UInv.same {T : List Tup} {s : Store} {tx tx' : Tx} {e e' : Option Err} (h : UInv T { s := s, tx := tx, err := e })
    (hst : tx'.staged = tx.staged) : UInv T { s := s, tx := tx', err := e' } :=
  { absent := by intro q hq; exact h.absent q (hst ▸ hq),
    distinct := by intro q r hq hr; exact h.distinct q r (hst ▸ hq) (hst ▸ hr),
    free := by intro t ht; have := h.free t ht; exact ⟨this.1, by show StagedFree tx'.staged t; rw [hst]; exact this.2⟩ }

/-- staging (or replacing by) an entry that is not a new Proposition with a tuple -/
theorem UInv.setPlain {T : List Tup} {s : Store} {tx tx' : Tx} {e e' : Option Err} (h : UInv T { s := s, tx := tx, err := e })
    (i : Id) (y : Staged) (hy : y.isNew = true → y.row.tup = none ∨
        ∃ x, (i, x) ∈ tx.staged ∧ x.isNew = true ∧ x.row.tup = y.row.tup)
    (hst : tx'.staged = stSet tx.staged i y) : UInv T { s := s, tx := tx', err := e' } := by
  -- every member of the new map that is a new Proposition with tuple `t` has a witness in the old map with the same id
  have wit : ∀ q ∈ tx'.staged, q.2.isNew = true → ∀ t, q.2.row.tup = some t →
      ∃ x, (q.1, x) ∈ tx.staged ∧ x.isNew = true ∧ x.row.tup = some t := by
    intro q hq hn t ht
    have hq' : q ∈ stSet tx.staged i y := hst ▸ hq
    rcases mem_stSet hq' with h1 | h1
    · subst h1
      rcases hy hn with h2 | ⟨x, hx1, hx2, hx3⟩
      · simp only at ht; rw [h2] at ht; cases ht
      · exact ⟨x, hx1, hx2, by rw [hx3]; exact ht⟩
    · exact ⟨q.2, h1, hn, ht⟩
  refine { absent := ?_, distinct := ?_, free := ?_ }
  · intro q hq hk hn t ht
    obtain ⟨x, hx1, hx2, hx3⟩ := wit q hq hn t ht
    exact h.absent (q.1, x) hx1 hk hx2 t hx3
  · intro q r hq hr hkq hkr hnq hnr t htq htr
    obtain ⟨x, hx1, hx2, hx3⟩ := wit q hq hnq t htq
    obtain ⟨z, hz1, hz2, hz3⟩ := wit r hr hnr t htr
    exact h.distinct (q.1, x) (r.1, z) hx1 hz1 hkq hkr hx2 hz2 t hx3 hz3
  · intro t ht
    obtain ⟨f1, f2⟩ := h.free t ht
    refine ⟨f1, ?_⟩
    intro q hq hk hn heq
    obtain ⟨x, hx1, hx2, hx3⟩ := wit q hq hn t heq
    exact f2 (q.1, x) hx1 hk hx2 hx3

theorem upres_pFail (T : List Tup) (e : Err) : UPres T (fun s tx => PS.fail s tx e) := fun _ _ _ h => h.same rfl
theorem upres_pGuard (T : List Tup) (b : Bool) (e : Err) : UPres T (pGuard b e) := by
  intro s tx e' h; unfold pGuard; split <;> exact h.same rfl

theorem load_uinv {T : List Tup} {s : Store} {tx tx' : Tx} {id : Id} {x : Staged} {e : Option Err}
    (h : UInv T { s := s, tx := tx, err := e }) (hl : load s tx id = .ok (tx', x)) :
    UInv T { s := s, tx := tx', err := none } := by
  unfold load at hl
  split at hl
  · cases hl; exact h.same rfl
  · split at hl
    · cases hl
    · cases hl
      exact h.setPlain id _ (by intro hn; simp [Staged.ofElem] at hn) rfl

theorem upres_pLoad (T : List Tup) (id : Id) : UPres T (pLoad id) := by
  intro s tx e h
  unfold pLoad
  split
  · exact h.same rfl
  · rename_i hl; exact load_uinv h hl

theorem upres_pExpect (T : List Tup) (id : Id) (x : Option Nat) : UPres T (pExpect id x) := by
  intro s tx e h
  unfold pExpect
  split
  · exact h.same rfl
  · unfold expectVersion
    split
    · exact h.same rfl
    · rename_i hl
      split at hl
      · cases hl
      · rename_i tx1 y hld
        split at hl
        · cases hl; exact load_uinv h hld
        · cases hl

theorem upres_pBind (T : List Tup) (hh : Option Nat) (id : Id) : UPres T (pBind hh id) := by
  intro s tx e h
  unfold pBind
  split
  · exact h.same rfl
  · unfold bindExisting; split <;> exact h.same rfl

theorem upres_pStageNewPlain (T : List Tup) (id : Id) (row : Row) (hrow : row.tup = none) : UPres T (pStageNew id row) := by
  intro s tx e h
  exact h.setPlain id _ (fun _ => .inl hrow) rfl

theorem markChanged_uinv {T : List Tup} {s : Store} {tx1 : Tx} {e : Option Err} {id : Id} {x y : Staged} {op : Op}
    (h : UInv T { s := s, tx := tx1, err := e })
    (hx : x.isNew = true → (id, x) ∈ tx1.staged) (hnew : y.isNew = x.isNew) (htup : y.row.tup = x.row.tup) :
    UInv T { s := s, tx := markChanged tx1 id y op, err := none } := by
  refine h.setPlain id _ ?_ rfl
  intro hn
  have hxn : x.isNew = true := by simpa [hnew] using hn
  exact .inr ⟨x, hx hxn, hxn, htup.symm⟩

/-- a loaded row that is new is (still) staged after the load -/
theorem load_new' {s : Store} {tx tx' : Tx} {id : Id} {x : Staged} (hl : load s tx id = .ok (tx', x))
    (hn : x.isNew = true) : (id, x) ∈ tx'.staged := by
  obtain ⟨h1, h2⟩ := load_new hl hn
  rw [h2]; exact h1

theorem upres_pAssign (T : List Tup) (id : Id) (v : Option Nat) : UPres T (pAssign id v) := by
  intro s tx e h
  unfold pAssign
  split
  · exact h.same rfl
  · rename_i tx1 x hl
    have h1 := load_uinv h hl
    split
    · exact h1
    · split
      · exact h1
      · exact markChanged_uinv h1 (load_new' hl) rfl rfl

theorem upres_pSetState (T : List Tup) (id : Id) (to : St) (x : Option St) : UPres T (pSetState id to x) := by
  intro s tx e h
  unfold pSetState
  split
  · exact h.same rfl
  · rename_i tx1 y hl
    have h1 := load_uinv h hl
    repeat' split
    all_goals first
      | exact h1.same rfl
      | exact h1
      | exact markChanged_uinv h1 (load_new' hl) rfl rfl

theorem upres_pRetract (T : List Tup) (id : Id) (x : Option Nat) : UPres T (pRetract id x) := by
  intro s tx e h
  unfold pRetract
  split
  · exact h.same rfl
  · rename_i tx1 y hl
    have h1 := load_uinv h hl
    repeat' split
    all_goals first
      | exact h1.same rfl
      | exact h1
      | exact markChanged_uinv h1 (load_new' hl) rfl rfl

theorem upres_pMergeInto (T : List Tup) (a b : Id) : UPres T (pMergeInto a b) := by
  intro s tx e h
  unfold pMergeInto
  split
  · exact h.same rfl
  · rename_i tx1 y hl
    have h1 := load_uinv h hl
    repeat' split
    all_goals first
      | exact h1.same rfl
      | exact h1
      | exact markChanged_uinv h1 (load_new' hl) rfl rfl

theorem upres_pCheck2 (T : List Tup) (a b : Id) (pred : Staged → Staged → Option Err) : UPres T (pCheck2 a b pred) := by
  intro s tx e h
  unfold pCheck2
  split
  · exact h.same rfl
  · rename_i tx1 x hl
    have h1 := load_uinv h hl
    split
    · exact h1.same rfl
    · rename_i tx2 y hl2
      have h2 := load_uinv h1 hl2
      split <;> exact h2.same rfl

theorem upres_pExpectStatus (T : List Tup) (id : Id) (x : Option Nat) : UPres T (pExpectStatus id x) := by
  intro s tx e h
  unfold pExpectStatus
  split
  · exact h.same rfl
  · exact upres_pCheck2 _ _ _ _ _ _ _ h

theorem upres_pEdit (T : List Tup) (id : Id) (k : Option Kind) (g : Staged → Option Err) (f : Row → Row) (al : Bool)
    (op : Op) : UPres T (pEdit id k g f al op) := by
  intro s tx e h
  unfold pEdit
  split
  · exact h.same rfl
  · rename_i tx1 y hl
    have h1 := load_uinv h hl
    repeat' split
    all_goals first
      | exact h1.same rfl
      | exact h1
      | exact markChanged_uinv h1 (load_new' hl) rfl rfl

theorem upres_pAct (T : List Tup) (id : Id) (a : Act) : UPres T (pAct id a) := by
  intro s tx e h
  unfold pAct
  split
  · exact h.same rfl
  · rename_i tx1 x hl
    have h1 := load_uinv h hl
    split
    · exact h1
    · exact markChanged_uinv h1 (load_new' hl) rfl (applyAct_imm a x.row).2.2.1

theorem upres_pPurge (T : List Tup) (id : Id) (b : Bool) : UPres T (pPurge id b) := by
  intro s tx e h
  unfold pPurge
  split
  · exact h.same rfl
  · rename_i tx1 y hl
    have h1 := load_uinv h hl
    repeat' split
    all_goals first
      | exact h1.same rfl
      | exact h1
      | exact h1.setPlain id _ (fun _ => .inl rfl) rfl

/-- minting adds a row whose tuple key is the placeholder -/
theorem UInv.mint {T : List Tup} {s : Store} {tx : Tx} {e : Option Err} (h : UInv T { s := s, tx := tx, err := e }) (k : Kind) :
    UInv T { s := (mintShell s tx k).1, tx := (mintShell s tx k).2.1, err := none } := by
  have hfree : ∀ t, StoreFree s t → StoreFree (mintShell s tx k).1 t := by
    intro t hf j el hj hel
    simp only [mintShell, setElem] at hel
    split at hel
    · cases hel; simp [shellElem, stubRow]
    · exact hf j el hj hel
  exact { absent := fun q hq hk hn t ht => hfree t (h.absent q hq hk hn t ht),
          distinct := h.distinct,
          free := fun t ht => ⟨hfree t (h.free t ht).1, (h.free t ht).2⟩ }

theorem UInv.andThen {T T' : List Tup} {p : PS} (h : UInv T p) {f : Store → Tx → PS} (hf : UStep T T' f)
    (hsub : ∀ t ∈ T', t ∈ T) : UInv T' (p.andThen f) := by
  unfold PS.andThen
  split
  · exact h.weaken hsub
  · exact hf p.s p.tx p.err (by cases p; exact h)

theorem UStep.chain {T T' : List Tup} {f g : Store → Tx → PS} (hf : UPres T f) (hg : UStep T T' g) (hsub : ∀ t ∈ T', t ∈ T) :
    UStep T T' (fun s tx => (f s tx).andThen g) :=
  fun s tx e h => (hf s tx e h).andThen hg hsub

theorem UStep.pMint {T T' : List Tup} (k : Kind) {cont : Id → Store → Tx → PS}
    (hc : ∀ id, id.kind = k → UStep T T' (cont id)) : UStep T T' (pMint k cont) := by
  intro s tx e h
  unfold Tx.pMint
  exact hc _ rfl _ _ none (h.mint k)

/-- staging a new Proposition whose tuple nothing carries yet -/
theorem stageNewTup_uinv {t : Tup} {s : Store} {tx : Tx} {e : Option Err} {id : Id} (h : UInv [t] { s := s, tx := tx, err := e })
    (row : Row) (hrow : row.tup = some t) : UInv [] { s := s, tx := stageNew tx id row, err := none } := by
  obtain ⟨hsf, hgf⟩ := h.free t List.mem_cons_self
  have mem : ∀ q ∈ (stageNew tx id row).staged, (q.1 = id ∧ q.2.isNew = true ∧ q.2.row.tup = some t) ∨ q ∈ tx.staged := by
    intro q hq
    rcases mem_stSet hq with h1 | h1
    · subst h1; exact .inl ⟨rfl, rfl, hrow⟩
    · exact .inr h1
  refine { absent := ?_, distinct := ?_, free := (by intro t' ht'; cases ht') }
  · intro q hq hk hn t' ht'
    rcases mem q hq with ⟨_, _, h3⟩ | h1
    · have : t' = t := by rw [h3] at ht'; exact (Option.some.inj ht').symm
      rw [this]; exact hsf
    · exact h.absent q h1 hk hn t' ht'
  · intro q r hq hr hkq hkr hnq hnr t' htq htr
    rcases mem q hq with ⟨q1, _, q3⟩ | hq1 <;> rcases mem r hr with ⟨r1, _, r3⟩ | hr1
    · rw [q1, r1]
    · have : t' = t := by rw [q3] at htq; exact (Option.some.inj htq).symm
      exact absurd (this ▸ htr) (hgf r hr1 hkr hnr)
    · have : t' = t := by rw [r3] at htr; exact (Option.some.inj htr).symm
      exact absurd (this ▸ htq) (hgf q hq1 hkq hnq)
    · exact h.distinct q r hq1 hr1 hkq hkr hnq hnr t' htq htr

theorem UInv.pActs {T : List Tup} (id : Id) (acts : List Act) {p : PS} (h : UInv T p) : UInv T (pActs id acts p) := by
  unfold Tx.pActs
  induction acts generalizing p with
  | nil => exact h
  | cons a r ih => exact ih (h.andThen (upres_pAct T id a) (fun _ ht => ht))

macro "upres_chain" h:ident : tactic => `(tactic|
  repeat' (first
    | exact upres_pGuard _ _ _ _ _ _ $h
    | exact upres_pLoad _ _ _ _ _ $h
    | exact upres_pExpect _ _ _ _ _ _ $h
    | exact upres_pBind _ _ _ _ _ _ $h
    | exact upres_pSetState _ _ _ _ _ _ _ $h
    | exact upres_pRetract _ _ _ _ _ _ $h
    | exact upres_pPurge _ _ _ _ _ _ $h
    | exact upres_pAssign _ _ _ _ _ _ $h
    | exact upres_pEdit _ _ _ _ _ _ _ _ _ _ $h
    | exact upres_pMergeInto _ _ _ _ _ _ $h
    | exact upres_pCheck2 _ _ _ _ _ _ _ $h
    | exact upres_pExpectStatus _ _ _ _ _ _ $h
    | exact upres_pFail _ _ _ _ _ $h
    | exact upres_pStageNewPlain _ _ _ rfl _ _ _ $h
    | exact upres_pGuard _ _ _
    | exact upres_pLoad _ _
    | exact upres_pExpect _ _ _
    | exact upres_pBind _ _ _
    | exact upres_pAssign _ _ _
    | exact upres_pEdit _ _ _ _ _ _ _
    | exact upres_pMergeInto _ _ _
    | exact upres_pCheck2 _ _ _ _
    | exact upres_pExpectStatus _ _ _
    | exact upres_pStageNewPlain _ _ _ rfl
    | (intro t ht; exact ht)
    | apply UInv.andThen
    | apply UStep.pMint
    | (intro _id _hk; apply UStep.chain)
    | apply UStep.chain))

theorem find?_none_mem {α : Type} {p : α → Bool} {l : List α} (h : l.find? p = none) : ∀ x ∈ l, p x = false := by
  intro x hx
  have := List.find?_eq_none.mp h x hx
  simpa using this

/-- what the two lookups of ENSURE establish when both miss -/
theorem ensure_miss_free {s : Store} {tx : Tx} (hwf : WF s) (t : Tup) (h1 : findProposition s t = none)
    (h2 : stagedNewProposition tx t = none) : StoreFree s t ∧ StagedFree tx.staged t := by
  constructor
  · intro j e hj hel htup
    have hjn : j.n < s.next j.kind := by
      apply Nat.lt_of_not_le
      intro hle
      have := hwf j hle
      rw [hel] at this; cases this
    have hmem := idsOf_mem s j hjn
    rw [hj] at hmem
    have := find?_none_mem h1 j hmem
    simp [propHasTuple, hel, htup] at this
  · intro q hq hk hn htup
    unfold stagedNewProposition at h2
    have h2' : tx.staged.find? (fun p => p.1.kind == .proposition && p.2.isNew && p.2.row.tup == some t) = none := by
      cases hf : tx.staged.find? (fun p => p.1.kind == .proposition && p.2.isNew && p.2.row.tup == some t) with
      | none => rfl
      | some x => rw [hf] at h2; cases h2
    have := find?_none_mem h2' q hq
    simp [hk, hn, htup] at this

theorem applyClause_uinv (c : Clause) (s : Store) (tx : Tx) (e : Option Err) (hwf : WF s)
    (h : UInv [] { s := s, tx := tx, err := e }) : UInv [] (applyClause c s tx) := by
  have hcs : ensureConsultsStaged = true := gen_ensure_consults_staged
  cases c with
  | ensure hh sub p obj expect bad =>
      simp only [applyClause, hcs, if_true]
      split
      · exact h.same rfl
      · exact h.same rfl
      · rename_i a b _ _
        split
        · upres_chain h
        · rename_i hfind
          split
          · upres_chain h
          · rename_i hst
            have hst' : stagedNewProposition tx (a, p, b) = none := hst
            obtain ⟨f1, f2⟩ := ensure_miss_free hwf (a, p, b) hfind hst'
            have hT : UInv [(a, p, b)] { s := s, tx := tx, err := e } :=
              { absent := h.absent, distinct := h.distinct,
                free := by intro t ht; simp at ht; rw [ht]; exact ⟨f1, f2⟩ }
            refine UInv.andThen (T := [(a, p, b)]) ?_ ?_ (by intro t ht; cases ht)
            · exact UInv.andThen (upres_pGuard _ _ _ _ _ _ hT) (upres_pGuard _ _ _) (fun _ ht => ht)
            · apply UStep.pMint
              intro id _
              intro s1 tx1 e1 h1
              refine UInv.andThen (upres_pBind _ _ _ _ _ _ h1) ?_ (by intro t ht; cases ht)
              intro s2 tx2 e2 h2
              exact stageNewTup_uinv h2 _ rfl
  | createConcept hh ty key val bad => simp only [applyClause]; (repeat' split) <;> upres_chain h
  | createRec k hh pay refs bad => simp only [applyClause]; (repeat' split) <;> upres_chain h
  | upsert hh ty key val expect => simp only [applyClause]; (repeat' split) <;> upres_chain h
  | update t acts expect bad =>
      simp only [applyClause]
      split
      · upres_chain h
      · apply UInv.pActs
        upres_chain h
  | setState t to expect => simp only [applyClause]; (repeat' split) <;> upres_chain h
  | retract t expect => simp only [applyClause]; (repeat' split) <;> upres_chain h
  | purge t bad => simp only [applyClause]; (repeat' split) <;> upres_chain h
  | supersede t b expect => simp only [applyClause]; (repeat' split) <;> upres_chain h
  | correct t b => simp only [applyClause]; (repeat' split) <;> upres_chain h
  | transition t to expect => simp only [applyClause]; (repeat' split) <;> upres_chain h
  | setRetention t v expect => simp only [applyClause]; (repeat' split) <;> upres_chain h
  | merge a b expect => simp only [applyClause]; (repeat' split) <;> upres_chain h

end AndaVerif.Tx
