import AndaVerif.Proofs.OMapOps
/-
`range_keys` computes the filter of the key list by the denotation `RQ.matches`
(incl. the seed selection / swap_remove / retain loop of `And`).
-/
namespace AndaVerif
namespace OMap

open RQ

theorem matchesAll_iff (k : Int) : ∀ qs : List (RQ Int), matchesAll qs k = true ↔ ∀ q ∈ qs, q.matches k = true
  | [] => by simp [matchesAll]
  | q :: qs => by simp [matchesAll, matchesAll_iff k qs]

theorem matchesAny_iff (k : Int) : ∀ qs : List (RQ Int), matchesAny qs k = true ↔ ∃ q ∈ qs, q.matches k = true
  | [] => by simp [matchesAny]
  | q :: qs => by simp [matchesAny, matchesAny_iff k qs]

theorem retainPred_eq (q : RQ Int) (k : Int) : retainPred q k = q.matches k := by
  cases q <;> simp [retainPred, RQ.matches]

theorem retainAll_eq : ∀ (qs : List (RQ Int)) (ks : List Int), retainAll ks qs = ks.filter (matchesAll qs)
  | [], ks => by
    simp only [retainAll]
    exact (List.filter_eq_self.2 (by simp [matchesAll])).symm
  | q :: qs, ks => by
    simp only [retainAll]
    split
    · rename_i he
      have he' : ks.filter (retainPred q) = [] := by simpa using he
      symm
      rw [List.filter_eq_nil_iff] at he' ⊢
      intro a ha
      have := he' a ha
      rw [retainPred_eq] at this
      simp [matchesAll, this]
    · rw [retainAll_eq qs, List.filter_filter]
      congr 1
      funext a
      simp [matchesAll, retainPred_eq, Bool.and_comm]

theorem argminAux_lt : ∀ (xs : List Nat) (best bi cur : Nat), bi < cur → argminAux best bi cur xs < cur + xs.length
  | [], _, _, _, h => by simpa [argminAux] using h
  | x :: xs, best, bi, cur, h => by
    simp only [argminAux, List.length_cons]
    split
    · have := argminAux_lt xs x cur (cur + 1) (by omega); omega
    · have := argminAux_lt xs best bi (cur + 1) (by omega); omega

theorem firstMinIdx_lt (xs : List Nat) (h : xs ≠ []) : firstMinIdx xs < xs.length := by
  cases xs with
  | nil => exact absurd rfl h
  | cons x xs =>
    simp only [firstMinIdx, List.length_cons]
    have := argminAux_lt xs x 0 1 (by omega); omega

theorem mem_filter_keys_contains (m : OMap) (l : List Int) (a : Int) :
    a ∈ l.filter (fun k => m.keys.contains k) ↔ a ∈ l ∧ a ∈ m.keys := by
  simp [List.mem_filter]

mutual
theorem rangeKeys_eq_filter (m : OMap) (h : WF m) : ∀ q : RQ Int, rangeKeys m q = m.keys.filter q.matches
  | .eq v => by
    simp only [rangeKeys]
    apply ssorted_eq_filter _ _ _ (by split <;> simp) h.1
    intro a
    by_cases hv : v ∈ m.keys
    · simp [hv, RQ.matches]; intro e; subst e; exact hv
    · simp [hv, RQ.matches]; intro ha e; subst e; exact hv ha
  | .gt v => by simp only [rangeKeys]; congr 1
  | .ge v => by simp only [rangeKeys]; congr 1
  | .lt v => by simp only [rangeKeys]; congr 1
  | .le v => by simp only [rangeKeys]; congr 1
  | .between a b => by
    simp only [rangeKeys]
    split
    · rename_i hab
      congr 1; funext k; simp [RQ.matches, hab]
    · rename_i hab
      symm; rw [List.filter_eq_nil_iff]
      intro k _; simp [RQ.matches, hab]
  | .incl ks => by
    simp only [rangeKeys]
    apply ssorted_eq_filter _ _ _ (ssorted_filter _ _ (ssorted_sortDedup ks)) h.1
    intro a
    rw [mem_filter_keys_contains, mem_sortDedup]
    simp [RQ.matches, and_comm]
  | .and qs => by
    simp only [rangeKeys]
    split
    · rename_i he
      symm; rw [List.filter_eq_nil_iff]
      intro k _; simp [RQ.matches, he]
    · rename_i hne
      have hne' : qs ≠ [] := by intro e; subst e; simp at hne
      have hi : firstMinIdx (qs.map RQ.seedRank) < qs.length := by
        have := firstMinIdx_lt (qs.map RQ.seedRank) (by simpa using hne')
        simpa using this
      rw [seedKeys_eq m h qs _ hi, sortDedup_of_ssorted _ (ssorted_filter _ _ h.1), retainAll_eq,
        List.filter_filter]
      congr 1
      funext k
      have hmem := mem_swapRemove qs _ hi
      have hiff : (matchesAll (swapRemove qs (firstMinIdx (qs.map RQ.seedRank))) k
            && (qs[firstMinIdx (qs.map RQ.seedRank)]).matches k) = true
          ↔ (RQ.and qs).matches k = true := by
        simp only [RQ.matches, Bool.and_eq_true, matchesAll_iff, hne, Bool.not_false, true_and]
        constructor
        · rintro ⟨h1, h2⟩ q hq
          rcases (hmem q).1 hq with e | h'
          · rw [e]; exact h2
          · exact h1 q h'
        · intro hall
          exact ⟨fun q hq => hall q ((hmem q).2 (Or.inr hq)), hall _ ((hmem _).2 (Or.inl rfl))⟩
      exact Bool.eq_iff_iff.2 hiff
  | .or qs => by
    simp only [rangeKeys]
    apply ssorted_eq_filter _ _ _ (ssorted_sortDedup _) h.1
    intro a
    rw [mem_sortDedup, unionKeys_mem m h qs a]
    simp [RQ.matches]
  | .not q => by
    simp only [rangeKeys, rangeKeys_eq_filter m h q]
    apply List.filter_congr
    intro k hk
    simp [RQ.matches, List.mem_filter, hk]
theorem seedKeys_eq (m : OMap) (h : WF m) : ∀ (qs : List (RQ Int)) (i : Nat) (hi : i < qs.length),
    seedKeys m qs i = m.keys.filter (qs[i]).matches
  | [], _, hi => by simp at hi
  | q :: _, 0, _ => by simp only [seedKeys, List.getElem_cons_zero]; exact rangeKeys_eq_filter m h q
  | _ :: qs, i + 1, hi => by
    simp only [seedKeys, List.getElem_cons_succ]
    exact seedKeys_eq m h qs i (by simpa using hi)
theorem unionKeys_mem (m : OMap) (h : WF m) : ∀ (qs : List (RQ Int)) (a : Int),
    a ∈ unionKeys m qs ↔ a ∈ m.keys ∧ matchesAny qs a = true
  | [], a => by simp [unionKeys, matchesAny]
  | q :: qs, a => by
    simp only [unionKeys, List.mem_append, rangeKeys_eq_filter m h q, unionKeys_mem m h qs a,
      List.mem_filter, matchesAny, Bool.or_eq_true]
    constructor
    · rintro (⟨h1, h2⟩ | ⟨h1, h2⟩)
      · exact ⟨h1, Or.inl h2⟩
      · exact ⟨h1, Or.inr h2⟩
    · rintro ⟨h1, h2 | h2⟩
      · exact Or.inl ⟨h1, h2⟩
      · exact Or.inr ⟨h1, h2⟩
end

end OMap
end AndaVerif
