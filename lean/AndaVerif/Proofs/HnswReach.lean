import AndaVerif.Proofs.HnswLoad
/-
C12: the hypotheses of `load_prefix_hnsw` are an INVARIANT of every history
(create → insert / remove / complete flush / interrupted flush + load, nested arbitrarily), so the
crash theorem applies at every reachable point — including after earlier crashes.
-/
namespace AndaVerif.Hnsw

/-! ### small list / map lemmas -/

theorem mem_setInsert {l : List Nat} {x y : Nat} : y ∈ setInsert l x ↔ y = x ∨ y ∈ l := by
  unfold setInsert
  split
  · rename_i h
    constructor
    · intro hy; exact Or.inr hy
    · rintro (rfl | hy)
      · simpa using h
      · exact hy
  · simp

theorem mem_foldl_setInsert {xs l : List Nat} {y : Nat} : y ∈ xs.foldl setInsert l ↔ y ∈ xs ∨ y ∈ l := by
  induction xs generalizing l with
  | nil => simp
  | cons x r ih =>
    simp only [List.foldl_cons, ih, mem_setInsert, List.mem_cons]
    constructor
    · rintro (h | h | h)
      · exact Or.inl (Or.inr h)
      · exact Or.inl (Or.inl h)
      · exact Or.inr h
    · rintro ((h | h) | h)
      · exact Or.inr (Or.inl h)
      · exact Or.inl h
      · exact Or.inr (Or.inr h)

theorem getNode_mapVals (m : NodeMap) (f : Nat → Node → Node) (i : Nat) :
    getNode (m.map (fun p => (p.1, f p.1 p.2))) i = (getNode m i).map (f i) := by
  induction m with
  | nil => simp [getNode]
  | cons p r ih =>
    obtain ⟨j, n⟩ := p
    simp only [List.map_cons, getNode]
    by_cases hj : j = i
    · subst hj; simp
    · simp [hj, ih]

theorem getNode_eraseKey (m : NodeMap) (i j : Nat) :
    getNode (eraseKey m i) j = if j = i then none else getNode m j := by
  induction m with
  | nil => simp [eraseKey, getNode]
  | cons p r ih =>
    obtain ⟨k, n⟩ := p
    unfold eraseKey at ih ⊢
    by_cases hk : k = i
    · subst hk
      simp only [List.filter_cons, bne_self_eq_false, Bool.false_eq_true, if_false, ih, getNode]
      by_cases hj : j = k
      · simp [hj]
      · have : ¬ k = j := fun e => hj e.symm
        simp [hj, this]
    · have hne : (k != i) = true := by simpa using hk
      simp only [List.filter_cons, hne, if_true, getNode, ih]
      by_cases hj : k = j
      · subst hj; simp [hk]
      · simp [hj]

theorem length_pruneLists (id : Nat) (relink : Nat → List Nat → List Nat) (top : Nat) :
    ∀ (ls : List (List Nat)) (L : Nat), (pruneLists id relink top L ls).1.length = ls.length := by
  intro ls
  induction ls with
  | nil => intro L; simp [pruneLists]
  | cons l r ih =>
    intro L
    simp only [pruneLists]
    split
    · split <;> simp [ih]
    · simp [ih]

theorem clampLayers_idem (n : Nat) : clampLayers (clampLayers n) = clampLayers n := by
  have h := Gen.HnswOrder.gen_layers_clamp
  unfold clampLayers
  omega

/-! ### the invariant -/

def NodeOk (ml : Nat) (n : Node) : Prop := n.nbrs.length = n.layer + 1 ∧ n.layer < ml

structure Inv (ml : Nat) (D : Durable) (s : Index) : Prop where
  dwf : DurableWF ml D
  cfg : clampLayers s.maxLayers = ml
  nwf : NodesWF ml s.nodes
  cov : Cov D
  blobOrDirty : ∀ i ∈ s.ids, (getBlob D.blobs i).isSome = true ∨ (i ∈ s.dirty ∧ (getNode s.nodes i).isSome = true)
  live : ∀ i ∈ s.ids, (getNode s.nodes i).isSome = true
  synced : flushPending s = false → idsOf D = s.ids
  entry : EntryOk s
  saved : s.savedVersion ≤ s.version


theorem inv_create (mls : Nat) : Inv (clampLayers mls) (createD mls) (createS mls) := by
  refine ⟨⟨⟨_, rfl, rfl⟩, ⟨_, rfl⟩, ?_⟩, rfl, ?_, ?_, ?_, ?_, ?_, Or.inl rfl, Nat.le_refl _⟩
  · intro i b h; simp [createD, getBlob] at h
  · intro i n h; simp [createS, getNode] at h
  · intro i hi; simp [idsOf, createD] at hi
  · intro i hi; simp [createS] at hi
  · intro i hi; simp [createS] at hi
  · intro _; rfl

theorem pending_of_version_gt {s : Index} (h : s.savedVersion < s.version) : flushPending s = true := by
  simp only [flushPending, Bool.not_eq_true', Bool.and_eq_false_iff, decide_eq_false_iff_not]
  left; omega

/-! ### insert -/

theorem promote_mem (nodes' : NodeMap) (e0 : Nat × Nat) (id layer : Nat) (hid : id ∈ keys nodes') :
    (if (decide (e0.2 < layer) || (getNode nodes' e0.1).isNone) = true then (id, layer) else e0).1 ∈ keys nodes' := by
  split
  · exact hid
  · rename_i hcond
    simp only [Bool.or_eq_true, decide_eq_true_eq, not_or, Bool.not_eq_true, Option.isNone_eq_false_iff] at hcond
    exact getNode_isSome_iff.mp hcond.2

/-- everything the invariant needs to know about one `insert` -/
theorem insertAbs_fields (s : Index) (id : Nat) (node : Node) (edits : List (Nat × Node)) (pick : Nat × Nat)
    (valid : Bool) (hentry : EntryOk s) :
    (insertAbs s id node edits pick valid).1 = s ∨
    (getNode s.nodes id = none ∧
      (insertAbs s id node edits pick valid).1.ids = setInsert s.ids id ∧
      (insertAbs s id node edits pick valid).1.version = s.version + 1 ∧
      (insertAbs s id node edits pick valid).1.savedVersion = s.savedVersion ∧
      (insertAbs s id node edits pick valid).1.maxLayers = s.maxLayers ∧
      (∀ y, y ∈ s.dirty → y ∈ (insertAbs s id node edits pick valid).1.dirty) ∧
      id ∈ (insertAbs s id node edits pick valid).1.dirty ∧
      (∀ i, getNode (insertAbs s id node edits pick valid).1.nodes i =
        if id = i then some node else (getNode s.nodes i).map (applyEdit edits i)) ∧
      EntryOk (insertAbs s id node edits pick valid).1) := by
  unfold insertAbs
  split
  · left; rfl
  · split
    · left; rfl
    · rename_i hnew
      have hnone : getNode s.nodes id = none := by
        cases hg : getNode s.nodes id with
        | none => rfl
        | some n => simp [hg] at hnew
      right
      split
      · rename_i hemp
        have hnil : s.nodes = [] := by simpa using hemp
        refine ⟨hnone, rfl, rfl, rfl, rfl, ?_, ?_, ?_, ?_⟩
        · intro y hy; exact mem_setInsert.mpr (Or.inr hy)
        · exact mem_setInsert.mpr (Or.inl rfl)
        · intro i
          simp only [getNode, hnil]
          split <;> simp
        · right; simp [keys]
      · refine ⟨hnone, rfl, rfl, rfl, rfl, ?_, ?_, ?_, ?_⟩
        · intro y hy; exact mem_foldl_setInsert.mpr (Or.inr hy)
        · exact mem_foldl_setInsert.mpr (Or.inl (List.mem_cons_self ..))
        · intro i
          simp only [getNode]
          split
          · rfl
          · exact getNode_mapVals s.nodes (applyEdit edits) i
        · right
          exact promote_mem _ _ _ _ (by simp [keys])

theorem inv_insert {ml : Nat} {D : Durable} {s : Index} (h : Inv ml D s) (id : Nat) (node : Node)
    (edits : List (Nat × Node)) (pick : Nat × Nat) (valid : Bool)
    (hn : NodeOk ml node) (he : ∀ j n, getNode edits j = some n → NodeOk ml n) :
    Inv ml D (insertAbs s id node edits pick valid).1 := by
  rcases insertAbs_fields s id node edits pick valid h.entry with heq | ⟨hnone, hids, hver, hsv, hmls, hdold, hdnew, hget, hent⟩
  · rw [heq]; exact h
  · have hsome : ∀ i, (getNode (insertAbs s id node edits pick valid).1.nodes i).isSome =
        (decide (id = i) || (getNode s.nodes i).isSome) := by
      intro i
      rw [hget]
      by_cases hi : id = i
      · simp [hi]
      · cases getNode s.nodes i <;> simp [hi]
    refine ⟨h.dwf, by rw [hmls]; exact h.cfg, ?_, h.cov, ?_, ?_, ?_, hent, by rw [hver, hsv]; have := h.saved; omega⟩
    · intro i n hg
      rw [hget] at hg
      split at hg
      · simp only [Option.some.injEq] at hg; subst hg; exact hn
      · cases hgi : getNode s.nodes i with
        | none => simp [hgi] at hg
        | some n0 =>
          simp only [hgi, Option.map_some, Option.some.injEq, applyEdit] at hg
          cases hed : getNode edits i with
          | none => simp only [hed] at hg; subst hg; exact h.nwf i n0 hgi
          | some n' => simp only [hed] at hg; subst hg; exact he i n' hed
    · intro i hi
      rw [hids] at hi
      rcases mem_setInsert.mp hi with rfl | hi
      · right; exact ⟨hdnew, by rw [hsome]; simp⟩
      · rcases h.blobOrDirty i hi with hb | ⟨hd, hl⟩
        · exact Or.inl hb
        · right; exact ⟨hdold i hd, by rw [hsome, hl]; simp⟩
    · intro i hi
      rw [hids] at hi
      rcases mem_setInsert.mp hi with rfl | hi
      · rw [hsome]; simp
      · rw [hsome, h.live i hi]; simp
    · intro hp
      exfalso
      have : flushPending (insertAbs s id node edits pick valid).1 = true := by
        apply pending_of_version_gt
        rw [hver, hsv]
        have := h.saved
        omega
      rw [this] at hp
      simp at hp

/-! ### remove -/

theorem remove_getNode_isSome (s : Index) (id : Nat) (pick : Nat × Nat) (relink : Nat → Nat → List Nat → List Nat) (i : Nat) :
    (getNode (remove s id pick relink).1.nodes i).isSome = (decide (i ≠ id) && (getNode s.nodes i).isSome) := by
  have h1 : (getNode (remove s id pick relink).1.nodes i).isSome = true ↔ i ∈ keys (remove s id pick relink).1.nodes :=
    getNode_isSome_iff
  rw [remove_keys] at h1
  have h2 : i ∈ keys (eraseKey s.nodes id) ↔ i ∈ keys s.nodes ∧ i ≠ id := mem_keys_eraseKey
  have h3 : (getNode s.nodes i).isSome = true ↔ i ∈ keys s.nodes := getNode_isSome_iff
  cases hA : (getNode (remove s id pick relink).1.nodes i).isSome <;>
    cases hB : (getNode s.nodes i).isSome <;> by_cases hid : i = id <;> simp_all

def pruneNodeFn (id : Nat) (relink : Nat → Nat → List Nat → List Nat) (nbs : List Nat) (j : Nat) (nd : Node) : Node :=
  if nbs.contains j then { nd with nbrs := (pruneLists id (relink j) nd.layer 0 nd.nbrs).1 } else nd

theorem remove_nodesWF {ml : Nat} (s : Index) (id : Nat) (pick : Nat × Nat) (relink : Nat → Nat → List Nat → List Nat)
    (h : NodesWF ml s.nodes) : NodesWF ml (remove s id pick relink).1.nodes := by
  unfold remove
  split
  · exact h
  · rename_i node hsome
    simp only
    intro i n hg
    have hmap : (pruneAll id relink (neighborIds id node) (eraseKey s.nodes id)).map (fun t => (t.1, t.2.1)) =
        (eraseKey s.nodes id).map (fun p => (p.1, pruneNodeFn id relink (neighborIds id node) p.1 p.2)) := by
      simp only [pruneAll, List.map_map]
      apply List.map_congr_left
      intro p _
      simp only [Function.comp, pruneNodeFn]
      split <;> rfl
    rw [hmap, getNode_mapVals _ (pruneNodeFn id relink (neighborIds id node))] at hg
    cases hgi : getNode (eraseKey s.nodes id) i with
    | none => simp [hgi] at hg
    | some n0 =>
      simp only [hgi, Option.map_some, Option.some.injEq] at hg
      have hn0 : getNode s.nodes i = some n0 := by
        rw [getNode_eraseKey] at hgi
        split at hgi
        · simp at hgi
        · exact hgi
      have hw := h i n0 hn0
      unfold pruneNodeFn at hg
      split at hg
      · subst hg
        simp only [length_pruneLists]
        exact hw
      · subst hg; exact hw

theorem remove_fields (s : Index) (id : Nat) (pick : Nat × Nat) (relink : Nat → Nat → List Nat → List Nat) :
    (remove s id pick relink).2 = false ∧ (remove s id pick relink).1 = s ∨
    (remove s id pick relink).2 = true ∧
      (remove s id pick relink).1.ids = s.ids.filter (fun x => x != id) ∧
      (remove s id pick relink).1.version = s.version + 1 ∧
      (remove s id pick relink).1.savedVersion = s.savedVersion ∧
      (remove s id pick relink).1.maxLayers = s.maxLayers ∧
      (∀ y, y ∈ s.dirty → y ≠ id → y ∈ (remove s id pick relink).1.dirty) := by
  unfold remove
  split
  · left; exact ⟨rfl, rfl⟩
  · right
    refine ⟨rfl, rfl, rfl, rfl, rfl, ?_⟩
    intro y hy hne
    simp only
    apply mem_foldl_setInsert.mpr
    right
    simp only [List.mem_filter]
    exact ⟨hy, by simpa using hne⟩

theorem inv_remove {ml : Nat} {D : Durable} {s : Index} (h : Inv ml D s) (id : Nat) (pick : Nat × Nat)
    (relink : Nat → Nat → List Nat → List Nat) : Inv ml D (remove s id pick relink).1 := by
  rcases remove_fields s id pick relink with ⟨_, heq⟩ | ⟨_, hids, hver, hsv, hmls, hdirty⟩
  · rw [heq]; exact h
  · refine ⟨h.dwf, by rw [hmls]; exact h.cfg, remove_nodesWF s id pick relink h.nwf, h.cov, ?_, ?_, ?_,
      remove_entryOk s id pick relink h.entry, by rw [hver, hsv]; have := h.saved; omega⟩
    · intro i hi
      rw [hids] at hi
      simp only [List.mem_filter, bne_iff_ne, ne_eq] at hi
      rcases h.blobOrDirty i hi.1 with hb | ⟨hd, hl⟩
      · exact Or.inl hb
      · right
        refine ⟨hdirty i hd hi.2, ?_⟩
        rw [remove_getNode_isSome]
        simp [hi.2, hl]
    · intro i hi
      rw [hids] at hi
      simp only [List.mem_filter, bne_iff_ne, ne_eq] at hi
      rw [remove_getNode_isSome]
      simp [hi.2, h.live i hi.1]
    · intro hp
      exfalso
      have : flushPending (remove s id pick relink).1 = true := by
        apply pending_of_version_gt
        rw [hver, hsv]
        have := h.saved
        omega
      rw [this] at hp
      simp at hp

/-! ### complete flush -/

theorem flush_complete_state (D : Durable) (s : Index)
    (hS : ∀ i ∈ s.ids, (getBlob D.blobs i).isSome = true ∨ (i ∈ s.dirty ∧ (getNode s.nodes i).isSome = true))
    (hlive : ∀ i ∈ s.ids, (getNode s.nodes i).isSome = true)
    (hnp : flushPending s = false → idsOf D = s.ids) :
    AfterIds s D.metaObj (applyWrites D (wrapperWrites s)) := by
  have hP := purge_phase2 s hlive
  by_cases hpend : flushPending s = true
  · have hww : wrapperWrites s = nodeWrites s ++ (Write.ids s.ids :: Write.metaPut (metaOf s) :: purgeWrites s) := by
      simp [wrapperWrites, flushWrites_eq, hpend]
    have hA : ∀ w ∈ nodeWrites s, IsNodeWrite w := by
      intro w hw
      obtain ⟨i, n, _, _, rfl⟩ := mem_nodeWrites hw
      trivial
    obtain ⟨h1, h2, h3, h4⟩ := applyWrites_nodes (nodeWrites s) D hA
    have hfull : Full s (applyWrites D (nodeWrites s)) := by
      intro i hi
      rcases hS i hi with hb | ⟨hd, hl⟩
      · exact h3 i hb
      · cases hg : getNode s.nodes i with
        | none => simp [hg] at hl
        | some n =>
          apply h4 i (blobOf i n)
          simp only [nodeWrites, List.mem_filterMap]
          exact ⟨i, hd, by simp [hg]⟩
    rw [hww, applyWrites_append]
    have hcons : applyWrites (applyWrites D (nodeWrites s)) (Write.ids s.ids :: Write.metaPut (metaOf s) :: purgeWrites s) =
        applyWrites (applyWrite (applyWrites D (nodeWrites s)) (Write.ids s.ids)) (Write.metaPut (metaOf s) :: purgeWrites s) := by
      simp [applyWrites]
    rw [hcons]
    have h0 : AfterIds s D.metaObj (applyWrite (applyWrites D (nodeWrites s)) (Write.ids s.ids)) :=
      ⟨hfull, rfl, Or.inl h2⟩
    apply applyWrites_phase2 _ _ _ h0
    intro w hw
    rcases List.mem_cons.mp hw with hw' | hw'
    · subst hw'; simp [Phase2Ok]
    · exact hP w hw'
  · have hpf : flushPending s = false := by simpa using hpend
    have hdirty : s.dirty = [] := by
      simp only [flushPending, Bool.not_eq_false', Bool.and_eq_true, decide_eq_true_eq, List.isEmpty_iff] at hpf
      exact hpf.2
    have h0 : AfterIds s D.metaObj D := by
      refine ⟨?_, hnp hpf, Or.inl rfl⟩
      intro i hi
      rcases hS i hi with hb | ⟨hd, _⟩
      · exact hb
      · rw [hdirty] at hd; simp at hd
    have hww : wrapperWrites s = purgeWrites s := by
      simp [wrapperWrites, flushWrites_eq, hpf]
    rw [hww]
    exact applyWrites_phase2 _ _ hP h0

theorem inv_flush {ml : Nat} {D : Durable} {s : Index} (h : Inv ml D s) :
    Inv ml (applyWrites D (wrapperWrites s)) (afterFlush s) := by
  have hst := flush_complete_state D s h.blobOrDirty h.live h.synced
  have hw : ∀ w ∈ wrapperWrites s, WriteOk ml w := by
    intro w hw
    have := wrapperWrites_ok s (h.cfg ▸ h.nwf) w hw
    rw [h.cfg] at this
    exact this
  have hfields : (afterFlush s).nodes = s.nodes ∧ (afterFlush s).ids = s.ids ∧ (afterFlush s).entry = s.entry ∧
      (afterFlush s).maxLayers = s.maxLayers ∧ (afterFlush s).savedVersion ≤ (afterFlush s).version := by
    unfold afterFlush
    have := h.saved
    split
    · refine ⟨rfl, rfl, rfl, rfl, ?_⟩
      simp only
      omega
    · refine ⟨rfl, rfl, rfl, rfl, ?_⟩
      simp only
      omega
  obtain ⟨hn, hi, he, hm, hsv⟩ := hfields
  refine ⟨applyWrites_wf _ h.dwf hw, by rw [hm]; exact h.cfg, by rw [hn]; exact h.nwf, hst.cov, ?_, ?_, ?_, ?_, hsv⟩
  · intro i hi'
    rw [hi] at hi'
    exact Or.inl (hst.full i hi')
  · intro i hi'
    rw [hi] at hi'
    rw [hn]
    exact h.live i hi'
  · intro _
    rw [hi]
    exact hst.ids_new
  · unfold EntryOk
    rw [hn, he]
    exact h.entry

/-! ### interrupted flush + load -/

theorem pruneMissing_getNode (miss : List Nat) (m : NodeMap) (i : Nat) :
    getNode (pruneMissing miss m) i =
      (getNode m i).map (fun n => { n with nbrs := n.nbrs.map (fun l => l.filter (fun x => !miss.contains x)) }) := by
  unfold pruneMissing
  exact getNode_mapVals m (fun _ n => { n with nbrs := n.nbrs.map (fun l => l.filter (fun x => !miss.contains x)) }) i

theorem loadNodes_nodesWF {ml : Nat} {blobs : List (Nat × Blob)} {ids : List Nat} {ns : NodeMap} {miss : List Nat}
    (h : loadNodes ml blobs ids = .ok (ns, miss)) : NodesWF ml ns := by
  obtain ⟨_, _, hc⟩ := loadNodes_spec ids h
  intro i n hg
  obtain ⟨b, _, hv, hp⟩ := hc (i, n) (getNode_some_mem hg)
  simp only at hp
  subst hp
  simp only [validBlob, Bool.and_eq_true, beq_iff_eq, decide_eq_true_eq] at hv
  exact ⟨hv.1.2, hv.1.1.2⟩

theorem load_fields {D : Durable} {pick : Nat × Nat} {s : Index} (h : load D pick = .ok s) :
    ∃ m, D.metaObj = some m ∧ s.maxLayers = clampLayers m.maxLayers ∧ NodesWF (clampLayers m.maxLayers) s.nodes ∧
      s.savedVersion ≤ s.version := by
  unfold load at h
  split at h
  · rename_i m ids hm hi
    refine ⟨m, hm, ?_⟩
    dsimp only at h
    split at h
    · simp only [Except.ok.injEq] at h
      subst h
      refine ⟨rfl, ?_, Nat.le_refl _⟩
      intro i n hg; simp [getNode] at hg
    · split at h
      · simp at h
      · rename_i ns miss hl
        have hwf := loadNodes_nodesWF hl
        split at h
        · simp only [Except.ok.injEq] at h
          subst h
          refine ⟨rfl, ?_, by simp only; omega⟩
          intro i n hg
          simp only at hg
          rw [pruneMissing_getNode] at hg
          cases hgi : getNode ns i with
          | none => simp [hgi] at hg
          | some n0 =>
            simp only [hgi, Option.map_some, Option.some.injEq] at hg
            subst hg
            have := hwf i n0 hgi
            simpa using this
        · split at h
          · simp only [Except.ok.injEq] at h
            subst h
            exact ⟨rfl, hwf, by simp only; omega⟩
          · simp only [Except.ok.injEq] at h
            subst h
            exact ⟨rfl, hwf, Nat.le_refl _⟩
  · simp at h

theorem inv_crash {ml : Nat} {D : Durable} {s : Index} (h : Inv ml D s) (cut : Nat) (pick : Nat × Nat) (s' : Index)
    (hl : load (applyWrites D ((wrapperWrites s).take cut)) pick = .ok s') :
    Inv ml (applyWrites D ((wrapperWrites s).take cut)) s' := by
  have hw : ∀ w ∈ (wrapperWrites s).take cut, WriteOk ml w := by
    intro w hw
    have := wrapperWrites_ok s (h.cfg ▸ h.nwf) w (List.mem_of_mem_take hw)
    rw [h.cfg] at this
    exact this
  have hdwf := applyWrites_wf _ h.dwf hw
  have hinv := load_inv hl
  have hcov : Cov (applyWrites D ((wrapperWrites s).take cut)) := by
    have := flush_prefix_state D s h.cov h.blobOrDirty h.live h.synced cut
    dsimp only at this
    rcases this with ⟨_, _, hc⟩ | ha
    · exact hc
    · exact ha.cov
  obtain ⟨m, hm, hmls, hnwf, hsv⟩ := load_fields hl
  obtain ⟨m', hm', hml'⟩ := hdwf.hasMeta
  have hmm : m = m' := by
    rw [hm] at hm'
    simpa using hm'
  subst hmm
  have hids : s'.ids = idsOf (applyWrites D ((wrapperWrites s).take cut)) := by
    rw [hinv.ids_eq, presentIds_of_cov hcov]
  have hlive : ∀ i ∈ s'.ids, (getNode s'.nodes i).isSome = true := by
    intro i hi
    rw [← hinv.dom_eq] at hi
    exact getNode_isSome_iff.mpr hi
  refine ⟨hdwf, ?_, ?_, hcov, ?_, hlive, ?_, hinv.entry_ok, hsv⟩
  · rw [hmls, clampLayers_idem, hml']
  · rw [← hml']; exact hnwf
  · intro i hi
    left
    rw [hids] at hi
    exact hcov i hi
  · intro _
    exact hids.symm

/-! ### histories -/

/-- every (durable state, in-memory index) pair a history can reach: creation, then any sequence of
inserts (whatever graph edits the construction makes, as long as the nodes have the shape `insert`
builds), removes (any re-linker, any replacement entry point), complete flushes, and flushes
interrupted at ANY cut followed by `load_all` of what is durable (any repair choice). -/
inductive Reach (ml : Nat) : Durable → Index → Prop where
  | create (mls : Nat) (h : clampLayers mls = ml) : Reach ml (createD mls) (createS mls)
  | insert {D : Durable} {s : Index} (id : Nat) (node : Node) (edits : List (Nat × Node)) (pick : Nat × Nat)
      (valid : Bool) : Reach ml D s → NodeOk ml node → (∀ j n, getNode edits j = some n → NodeOk ml n) →
      Reach ml D (insertAbs s id node edits pick valid).1
  | remove {D : Durable} {s : Index} (id : Nat) (pick : Nat × Nat) (relink : Nat → Nat → List Nat → List Nat) :
      Reach ml D s → Reach ml D (remove s id pick relink).1
  | flush {D : Durable} {s : Index} : Reach ml D s → Reach ml (applyWrites D (wrapperWrites s)) (afterFlush s)
  | crash {D : Durable} {s : Index} (cut : Nat) (pick : Nat × Nat) (s' : Index) : Reach ml D s →
      load (applyWrites D ((wrapperWrites s).take cut)) pick = .ok s' →
      Reach ml (applyWrites D ((wrapperWrites s).take cut)) s'

theorem reach_inv {ml : Nat} {D : Durable} {s : Index} (h : Reach ml D s) : Inv ml D s := by
  induction h with
  | create mls h => rw [← h]; exact inv_create mls
  | insert id node edits pick valid _ hn he ih => exact inv_insert ih id node edits pick valid hn he
  | remove id pick relink _ ih => exact inv_remove ih id pick relink
  | flush _ ih => exact inv_flush ih
  | crash cut pick s' _ hl ih => exact inv_crash ih cut pick s' hl

end AndaVerif.Hnsw
