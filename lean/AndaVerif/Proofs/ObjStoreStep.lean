import AndaVerif.Proofs.ObjStoreList
/-
One call of the wrapper: the backend afterwards is the full step list applied, the invariant is kept,
commit points move exactly as the plan says.
-/
namespace AndaVerif.ObjStore
open Gen.SidecarOrder

theorem docAt_reclaim (now : Nat) (be : Backend) (c : Option Doc) (k : Path) (d : Doc) (x : Path) :
    docAt (applySteps now be (reclaimOf (c.map (fun c => payloadPath k c.gen)) k d)) x = docAt be x := by
  rcases reclaimOf_cases (c.map (fun c => payloadPath k c.gen)) k d with h0 | ⟨old, hold, _, h1⟩
  · rw [h0]; rfl
  · rw [h1]
    cases c with
    | none => simp at hold
    | some c0 =>
        simp only [Option.map_some, Option.some.injEq] at hold
        subst hold
        simp only [applySteps, List.foldl_cons, List.foldl_nil, applyStep]
        exact docAt_adel_payload _ _ (fun x => payloadPath_ne_mt _ _ _) x

theorem docAt_write_full (now : Nat) (be : Backend) (k : Path) (g : Gen) (data : Bytes) (d : Doc) (c : Option Doc) (x : Path) :
    docAt (applySteps now be ([Step.putBlob (.gen k g) data] ++ Step.putDoc k d ::
      reclaimOf (c.map (fun c => payloadPath k c.gen)) k d)) x = if x = k then some d else docAt be x := by
  simp only [List.cons_append, List.nil_append]
  rw [show ∀ (a b : Step) (r : List Step), applySteps now be (a :: b :: r) =
      applySteps now (applyStep now (applyStep now be a) b) r from fun a b r => rfl]
  rw [docAt_reclaim]
  simp only [applyStep]
  rw [docAt_aset_mt]
  by_cases hx : x = k
  · simp [hx]
  · simp only [hx, if_false]
    exact docAt_aset_payload be k (some g) _ x

theorem docAt_copy_full (now : Nat) (be : Backend) (srcPath : BPath) (k : Path) (g : Gen) (d : Doc) (c : Option Doc) (x : Path) :
    docAt (applySteps now be ([Step.copyBlob srcPath (.gen k g)] ++ Step.putDoc k d ::
      reclaimOf (c.map (fun c => payloadPath k c.gen)) k d)) x = if x = k then some d else docAt be x := by
  simp only [List.cons_append, List.nil_append]
  rw [show ∀ (a b : Step) (r : List Step), applySteps now be (a :: b :: r) =
      applySteps now (applyStep now (applyStep now be a) b) r from fun a b r => rfl]
  rw [docAt_reclaim]
  simp only [applyStep]
  rw [docAt_aset_mt]
  by_cases hx : x = k
  · simp [hx]
  · simp only [hx, if_false]
    cases aget be srcPath with
    | none => rfl
    | some e => exact docAt_aset_payload be k (some g) _ x

theorem docAt_copyBlob (now : Nat) (be : Backend) (srcPath : BPath) (k : Path) (g : Gen) (x : Path) :
    docAt (applySteps now be [Step.copyBlob srcPath (.gen k g)]) x = docAt be x := by
  simp only [applySteps, List.foldl_cons, List.foldl_nil, applyStep]
  cases aget be srcPath with
  | none => rfl
  | some e => exact docAt_aset_payload be k (some g) _ x

theorem docAt_delete_full (now : Nat) (be : Backend) (k : Path) (c : Option Doc) (x : Path) :
    docAt (applySteps now be (deleteSteps k c)) x = if (c.isSome ∧ x = k) then none else docAt be x := by
  cases c with
  | none => simp [applySteps, deleteSteps]
  | some d =>
      simp only [deleteSteps, applySteps, List.foldl_cons, List.foldl_nil, applyStep]
      rw [docAt_adel_payload _ _ (fun x => payloadPath_ne_mt _ _ _), docAt_adel_mt]
      simp

/-- the steps of `planDelete` depend on the backend and the key only -/
theorem planDelete_steps_indep (w w' : W) (cache cache' : List (Path × Doc)) (be : Backend) (k : Path) :
    (planDelete w cache be k).steps = (planDelete w' cache' be k).steps := by
  unfold planDelete
  cases curOf be k <;> rfl

end AndaVerif.ObjStore

namespace AndaVerif.ObjStore
open Gen.SidecarOrder

theorem stepOK_write {w : W} (hw : WInv w) (order : List CommitPhase) (ho : order = [.payload, .pointer, .reclaim]) (seeded : Bool)
    (now : Nat) (k : Path) (mode : PutMode) (data : Bytes) :
    WInv (runPlan w now (planWrite w order seeded now k mode data) 1).1 := by
  have hc := cutsOK_write hw order ho seeded now k mode data
  have hbe := (hc (planWrite w order seeded now k mode data).steps.length).1
  rw [← applySteps_eq_prefix] at hbe
  refine ⟨hbe, ?_⟩
  simp only [runPlan]
  rcases planWrite_steps w order seeded now k mode data with ⟨h0, h1, _⟩ | ⟨d, hg, hs, _, _, hsteps, _, hcache⟩
  · rw [h0, h1]
    exact hw.cache
  · intro k' d' hk'
    rw [hcache, aget_aset] at hk'
    rw [hsteps, ho, commitSteps_std, curOf_doc, docAt_write_full]
    split at hk'
    · rename_i heq
      simp only [Option.some.injEq] at hk'
      simp [heq, hk']
    · rename_i hne
      simp only [hne, if_false]
      exact hw.cache k' d' hk'

theorem stepOK_copyCommit {w : W} (hw : WInv w) (now : Nat) (srck : Path) (src : Doc)
    (hsrc : docAt w.be srck = some src) (dst : Path) (create : Bool) :
    WInv (runPlan w now (planCopyCommit w w.cache now src (payloadPath srck src.gen) dst create) 1).1 := by
  have hc := cutsOK_copyCommit hw w.cache now srck src hsrc dst create
  have hbe := (hc (planCopyCommit w w.cache now src (payloadPath srck src.gen) dst create).steps.length).1
  rw [← applySteps_eq_prefix] at hbe
  refine ⟨hbe, ?_⟩
  simp only [runPlan]
  rcases planCopyCommit_steps w w.cache now src (payloadPath srck src.gen) dst create with
    ⟨h0, _, h1, _⟩ | ⟨hsteps, _, hcache, _⟩
  · rw [h0, h1]
    intro k' d' hk'
    rw [docAt_copyBlob]
    exact hw.cache k' d' hk'
  · intro k' d' hk'
    rw [hcache, aget_aset] at hk'
    rw [hsteps, gen_copy_order, commitSteps_std, curOf_doc, docAt_copy_full]
    split at hk'
    · rename_i heq
      simp only [Option.some.injEq] at hk'
      simp [heq, hk']
    · rename_i hne
      simp only [hne, if_false]
      exact hw.cache k' d' hk'

theorem planDelete_cache (w : W) (cache : List (Path × Doc)) (be : Backend) (k : Path) :
    (planDelete w cache be k).cache = cache ∨ (planDelete w cache be k).cache = adel cache k := by
  unfold planDelete
  cases curOf be k <;> simp

theorem stepOK_delete {w : W} (hw : WInv w) (now : Nat) (k : Path) :
    WInv (runPlan w now (planDelete w w.cache w.be k) 0).1 := by
  have hc := cutsOK_delete w w.cache hw.be now k
  have hbe := (hc (planDelete w w.cache w.be k).steps.length).1
  rw [← applySteps_eq_prefix] at hbe
  refine ⟨hbe, ?_⟩
  simp only [runPlan]
  rw [planDelete_steps w w.cache hw.be]
  intro k' d' hk'
  rw [docAt_delete_full]
  unfold planDelete at hk'
  rw [curOf_of_inv hw.be] at hk'
  cases hd : docAt w.be k with
  | none =>
      simp only [hd] at hk'
      simp
      exact hw.cache k' d' hk'
  | some d =>
      simp only [hd] at hk'
      rw [aget_adel] at hk'
      split at hk'
      · simp at hk'
      · rename_i hne
        simp [hne]
        exact hw.cache k' d' hk'

end AndaVerif.ObjStore

namespace AndaVerif.ObjStore
open Gen.SidecarOrder

theorem refreshMeta_spec {w : W} (h : WInv w) (k : Path) :
    ∃ w', refreshMeta w k = ((match docAt w.be k with | some d => .ok d | none => .error .notFound), w') ∧
      WInv w' ∧ w'.be = w.be ∧ w'.nextId = w.nextId ∧ w'.flavor = w.flavor := by
  unfold refreshMeta
  rw [loadMeta_of_inv h.be]
  cases hd : docAt w.be k with
  | none => exact ⟨w, rfl, h, rfl, rfl, rfl⟩
  | some d =>
      refine ⟨{ w with cache := aset w.cache k d }, rfl, ⟨h.be, ?_⟩, rfl, rfl, rfl⟩
      intro k' d' hk'
      simp only at hk'
      rw [aget_aset] at hk'
      split at hk'
      · rename_i heq
        simp only [Option.some.injEq] at hk'
        subst heq; subst hk'; exact hd
      · exact h.cache k' d' hk'

/-- reads never touch the backend and keep the invariant -/
theorem readLoop_state {w : W} (hw : WInv w) (k : Path) (attempt retry : Backend → Doc → Attempt Out) :
    WInv (readLoop w k attempt retry).1 ∧ (readLoop w k attempt retry).1.be = w.be ∧
      (readLoop w k attempt retry).1.nextId = w.nextId ∧ (readLoop w k attempt retry).1.flavor = w.flavor := by
  obtain ⟨w1, hg, hw1, hbe1, hn1, hf1⟩ := getMeta_spec hw k
  unfold readLoop
  rw [hg]
  cases hd : docAt w.be k with
  | none => exact ⟨hw1, hbe1, hn1, hf1⟩
  | some d =>
      simp only []
      cases attempt w1.be d with
      | done r => exact ⟨hw1, hbe1, hn1, hf1⟩
      | stale =>
          simp only []
          obtain ⟨w2, hg2, hw2, hbe2, hn2, hf2⟩ := refreshMeta_spec hw1 k
          rw [hg2]
          cases hd2 : docAt w1.be k with
          | none => exact ⟨hw2, hbe2.trans hbe1, hn2.trans hn1, hf2.trans hf1⟩
          | some d2 =>
              simp only []
              cases retry w2.be d2 <;> exact ⟨hw2, hbe2.trans hbe1, hn2.trans hn1, hf2.trans hf1⟩

theorem applySteps_nil (now : Nat) (be : Backend) : applySteps now be [] = be := rfl

/-- the backend a call leaves is the call's full step list applied (so the crash theorems speak
about the same steps the call performs) -/
theorem wStep_backend {w : W} (hw : WInv w) (now : Nat) (c : Call) :
    (wStep w now c).1.be = applySteps now w.be (stepsOf w now c) := by
  cases c with
  | put k mode data => rfl
  | mput k parts => rfl
  | get k o => exact (readLoop_state hw k _ _).2.1
  | getRanges k rs =>
      simp only [wStep, stepsOf, applySteps_nil]
      by_cases hr : rs.isEmpty
      · simp only [hr, if_true]
      · simp only [hr, Bool.false_eq_true, if_false]
        exact (readLoop_state hw k (fun be d => rangesAttempt be k d rs) _).2.1
  | delete k => rfl
  | copy src dst create =>
      simp only [wStep, stepsOf, copySteps]
      obtain ⟨w1, hr, hw1, hbe, hn, hf⟩ := resolveSource_spec hw src
      rw [hr]
      cases hd : docAt w.be src with
      | none => simp only [applySteps_nil]; exact hbe
      | some d => simp only [runPlan, hbe]
  | rename src dst create =>
      simp only [wStep, stepsOf, rename_guard, rename_order_std, if_true]
      by_cases hsd : src = dst
      · simp only [hsd, if_true, applySteps_nil]
        obtain ⟨w1, hg, hw1, hbe, hn, hf⟩ := getMeta_spec hw dst
        rw [hg]
        cases hd : docAt w.be dst with
        | none => exact hbe
        | some d => cases create <;> exact hbe
      · simp only [hsd, if_false]
        obtain ⟨w1, hr, hw1, hbe, hn, hf⟩ := resolveSource_spec hw src
        rw [hr]
        cases hd : docAt w.be src with
        | none => simp only [applySteps_nil]; exact hbe
        | some d =>
            simp only []
            rcases planCopyCommit_steps w1 w1.cache now d (payloadPath src d.gen) dst create with
              ⟨_, hout, _⟩ | ⟨_, hout, _⟩
            · simp only [runPlan, hout, hbe]
            · simp only [runPlan, hout]
              rw [applySteps_append, hbe]
              rw [planDelete_steps_indep _ w1 _ (planCopyCommit w1 w1.cache now d (payloadPath src d.gen) dst create).cache]
              split <;> rfl
  | list pre off => rfl
  | listDelim pre => rfl

/-- **Every call keeps the wrapper invariant.** -/
theorem wStep_inv {w : W} (hw : WInv w) (now : Nat) (c : Call) : WInv (wStep w now c).1 := by
  cases c with
  | put k mode data => exact stepOK_write hw _ (gen_put_order _) _ now k mode data
  | mput k parts => exact stepOK_write hw _ (gen_complete_order _) _ now k .overwrite _
  | get k o => exact (readLoop_state hw k _ _).1
  | getRanges k rs =>
      simp only [wStep]
      by_cases hr : rs.isEmpty
      · simp only [hr, if_true]; exact hw
      · simp only [hr, Bool.false_eq_true, if_false]
        exact (readLoop_state hw k (fun be d => rangesAttempt be k d rs) _).1
  | delete k => exact stepOK_delete hw now k
  | copy src dst create =>
      simp only [wStep]
      obtain ⟨w1, hr, hw1, hbe, hn, hf⟩ := resolveSource_spec hw src
      rw [hr]
      cases hd : docAt w.be src with
      | none => exact hw1
      | some d => exact stepOK_copyCommit hw1 now src d (by rw [hbe]; exact hd) dst create
  | rename src dst create =>
      simp only [wStep, rename_guard, rename_order_std, if_true]
      by_cases hsd : src = dst
      · simp only [hsd, if_true]
        obtain ⟨w1, hg, hw1, hbe, hn, hf⟩ := getMeta_spec hw dst
        rw [hg]
        cases hd : docAt w.be dst with
        | none => exact hw1
        | some d => cases create <;> exact hw1
      · simp only [hsd, if_false]
        obtain ⟨w1, hr, hw1, hbe, hn, hf⟩ := resolveSource_spec hw src
        rw [hr]
        cases hd : docAt w.be src with
        | none => exact hw1
        | some d =>
            simp only []
            have hw2 := stepOK_copyCommit hw1 now src d (by rw [hbe]; exact hd) dst create
            rcases planCopyCommit_steps w1 w1.cache now d (payloadPath src d.gen) dst create with
              ⟨_, hout, _⟩ | ⟨_, hout, _⟩
            · simp only [runPlan, hout] at hw2 ⊢
              exact hw2
            · simp only [runPlan, hout] at hw2 ⊢
              have hw3 := stepOK_delete hw2 now src
              simp only [runPlan] at hw3
              split <;> exact hw3
  | list pre off => exact hw
  | listDelim pre => exact hw

end AndaVerif.ObjStore
