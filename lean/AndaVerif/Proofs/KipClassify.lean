/-
C15 — lemmas about trivia skipping and head-keyword classification (`Model/KipLex.lean`).
-/
import AndaVerif.Model.KipLex

namespace AndaVerif.Proofs.KipClassify
open AndaVerif.Model.KipLex

/-! ### ASCII case folding -/

def isAsciiLetter (c : Char) : Bool :=
  (0x41 ≤ c.toNat && c.toNat ≤ 0x5A) || (0x61 ≤ c.toNat && c.toNat ≤ 0x7A)

/-- Two characters fold to the same code point only if they are equal or the two cases of one
ASCII letter. -/
theorem foldNat_eq_cases {a b : Char} (h : foldNat a = foldNat b) :
    a = b ∨ (isAsciiLetter a = true ∧ isAsciiLetter b = true) := by
  unfold foldNat at h
  by_cases ha : 0x41 ≤ a.toNat ∧ a.toNat ≤ 0x5A
  · by_cases hb : 0x41 ≤ b.toNat ∧ b.toNat ≤ 0x5A
    · simp only [ha, hb, and_self, if_true] at h
      left; exact Char.toNat_inj.mp (by omega)
    · simp only [ha, hb, and_self, if_true, if_false] at h
      right
      simp only [isAsciiLetter, Bool.or_eq_true, Bool.and_eq_true, decide_eq_true_eq]
      omega
  · by_cases hb : 0x41 ≤ b.toNat ∧ b.toNat ≤ 0x5A
    · simp only [ha, hb, and_self, if_true, if_false] at h
      right
      simp only [isAsciiLetter, Bool.or_eq_true, Bool.and_eq_true, decide_eq_true_eq]
      omega
    · simp only [ha, hb, if_false] at h
      left; exact Char.toNat_inj.mp h

theorem letter_props {c : Char} (h : isAsciiLetter c = true) :
    isWhitespace c = false ∧ (c == '/') = false ∧ (c == '\n') = false ∧ (c == '_') = false ∧
    (c == '?') = false ∧ (c == '"') = false ∧ c.toNat < 0x80 ∧ isAsciiAlnum c = true := by
  simp only [isAsciiLetter, Bool.or_eq_true, Bool.and_eq_true, decide_eq_true_eq] at h
  have ne : ∀ d : Char, c.toNat ≠ d.toNat → (c == d) = false := by
    intro d hd
    simp only [beq_eq_false_iff_ne, ne_eq]
    intro he; exact hd (by rw [he])
  refine ⟨?_, ne _ ?_, ne _ ?_, ne _ ?_, ne _ ?_, ne _ ?_, ?_, ?_⟩
  · simp only [isWhitespace, Bool.or_eq_false_iff, Bool.and_eq_false_iff, decide_eq_false_iff_not,
      beq_eq_false_iff_ne, ne_eq]
    omega
  all_goals first
    | (simp only [isAsciiAlnum, Bool.or_eq_true, Bool.and_eq_true, decide_eq_true_eq]; omega)
    | (show c.toNat ≠ _; simp; omega)
    | omega

/-- Everything the classifier asks of a character is invariant under ASCII case. -/
theorem fold_props (uni : Char → Bool) {a b : Char} (h : foldNat a = foldNat b) :
    isWhitespace a = isWhitespace b ∧ (a == '/') = (b == '/') ∧ (a == '\n') = (b == '\n') ∧
    wordBoundary uni [a] = wordBoundary uni [b] := by
  rcases foldNat_eq_cases h with rfl | ⟨ha, hb⟩
  · simp
  · obtain ⟨a1, a2, a3, a4, a5, a6, a7, a8⟩ := letter_props ha
    obtain ⟨b1, b2, b3, b4, b5, b6, b7, b8⟩ := letter_props hb
    simp [a1, b1, a2, b2, a3, b3, a4, b4, a5, b5, a6, b6, wordBoundary, isAlnum, a7, b7, a8, b8]

/-! ### unfolding the trivia skipper -/

theorem skipTrivia_nil : skipTrivia [] = [] := by rw [skipTrivia.eq_def]
theorem skipLine_nil : skipLine [] = [] := by rw [skipLine.eq_def]

theorem skipTrivia_cons (c : Char) (rest : List Char) :
    skipTrivia (c :: rest) =
      if isWhitespace c then skipTrivia rest
      else if c == '/' then
        match rest with
        | c2 :: rest2 => if c2 == '/' then skipLine rest2 else c :: rest
        | [] => c :: rest
      else c :: rest := by
  rw [skipTrivia.eq_def]; rfl

theorem skipLine_cons (c : Char) (rest : List Char) :
    skipLine (c :: rest) = if c == '\n' then skipTrivia rest else skipLine rest := by
  rw [skipLine.eq_def]

/-! ### skipTrivia commutes with case changes -/

theorem skip_case (s t : List Char) (h : s.map foldNat = t.map foldNat) :
    (skipTrivia s).map foldNat = (skipTrivia t).map foldNat ∧
    (skipLine s).map foldNat = (skipLine t).map foldNat := by
  induction s generalizing t with
  | nil =>
    have : t = [] := by simpa using h.symm
    subst this; simp
  | cons a as ih =>
    cases t with
    | nil => simp at h
    | cons b bs =>
      simp only [List.map_cons, List.cons.injEq] at h
      obtain ⟨hab, hrest⟩ := h
      obtain ⟨hw, hs, hn, _⟩ := fold_props (fun _ => false) hab
      have ih' := ih bs hrest
      constructor
      · rw [skipTrivia_cons, skipTrivia_cons, hw, hs]
        by_cases hwb : isWhitespace b = true
        · simp only [hwb, if_true]; exact ih'.1
        · simp only [hwb]
          by_cases hsb : (b == '/') = true
          · simp only [hsb, if_true]
            cases as with
            | nil =>
              have : bs = [] := by simpa using hrest.symm
              subst this; simp [hab]
            | cons a2 as2 =>
              cases bs with
              | nil => simp at hrest
              | cons b2 bs2 =>
                have hrest' := hrest
                simp only [List.map_cons, List.cons.injEq] at hrest'
                obtain ⟨hab2, hrest2⟩ := hrest'
                obtain ⟨_, hs2, hn2, _⟩ := fold_props (fun _ => false) hab2
                simp only [hs2]
                by_cases hsb2 : (b2 == '/') = true
                · simp only [hsb2, if_true]
                  -- both second characters are '/', not '\n': skipLine peels them
                  have hb2 : b2 = '/' := by simpa using hsb2
                  have hnb : (b2 == '\n') = false := by subst hb2; decide
                  have e1 : skipLine (a2 :: as2) = skipLine as2 := by
                    rw [skipLine_cons, hn2, hnb]; simp
                  have e2 : skipLine (b2 :: bs2) = skipLine bs2 := by
                    rw [skipLine_cons, hnb]; simp
                  rw [← e1, ← e2]; exact ih'.2
                · simp [hsb2, hab, hab2, hrest2]
          · simp [hsb, hab, hrest]
      · rw [skipLine_cons, skipLine_cons, hn]
        by_cases hnb : (b == '\n') = true
        · simp only [hnb, if_true]; exact ih'.1
        · simp only [hnb]; exact ih'.2

/-! ### keyword matching and case -/

theorem matchKeyword_case (kw : List Char) : ∀ (s t : List Char), s.map foldNat = t.map foldNat →
    (matchKeyword kw s).map (·.map foldNat) = (matchKeyword kw t).map (·.map foldNat) := by
  induction kw with
  | nil => intro s t h; simp [matchKeyword, h]
  | cons k ks ih =>
    intro s t h
    cases s with
    | nil =>
      have : t = [] := by simpa using h.symm
      subst this; rfl
    | cons a as =>
      cases t with
      | nil => simp at h
      | cons b bs =>
        simp only [List.map_cons, List.cons.injEq] at h
        simp only [matchKeyword, h.1]
        by_cases hk : (foldNat k == foldNat b) = true
        · simp only [hk, if_true]; exact ih as bs h.2
        · simp [hk]

theorem wordBoundary_case (uni : Char → Bool) (s t : List Char) (h : s.map foldNat = t.map foldNat) :
    wordBoundary uni s = wordBoundary uni t := by
  cases s with
  | nil =>
    have : t = [] := by simpa using h.symm
    subst this; rfl
  | cons a as =>
    cases t with
    | nil => simp at h
    | cons b bs =>
      simp only [List.map_cons, List.cons.injEq] at h
      have := (fold_props uni h.1).2.2.2
      simpa [wordBoundary] using this

theorem matchWord_case (uni : Char → Bool) (kw s t : List Char) (h : s.map foldNat = t.map foldNat) :
    matchWord uni kw s = matchWord uni kw t := by
  have hm := matchKeyword_case kw s t h
  unfold matchWord
  cases h1 : matchKeyword kw s with
  | none =>
    cases h2 : matchKeyword kw t with
    | none => rfl
    | some r2 => rw [h1, h2] at hm; simp at hm
  | some r1 =>
    cases h2 : matchKeyword kw t with
    | none => rw [h1, h2] at hm; simp at hm
    | some r2 =>
      rw [h1, h2] at hm
      simp only [Option.map_some, Option.some.injEq] at hm
      exact wordBoundary_case uni r1 r2 hm

theorem classifyIn_case (uni : Char → Bool) (tbl : List (Family × List Char)) (s t : List Char)
    (h : s.map foldNat = t.map foldNat) : classifyIn uni tbl s = classifyIn uni tbl t := by
  unfold classifyIn
  have : (fun e : Family × List Char => matchWord uni e.2 s) = (fun e => matchWord uni e.2 t) := by
    funext e; exact matchWord_case uni e.2 s t h
  rw [this]

/-! ### trivia -/

/-- Text the grammar ignores between tokens: whitespace characters and complete `//` comments. -/
inductive Trivia : List Char → Prop where
  | nil : Trivia []
  | ws (c : Char) (t : List Char) : isWhitespace c = true → Trivia t → Trivia (c :: t)
  | comment (body t : List Char) : '\n' ∉ body → Trivia t → Trivia ('/' :: '/' :: (body ++ '\n' :: t))

theorem skipLine_body (body rest : List Char) (h : '\n' ∉ body) :
    skipLine (body ++ '\n' :: rest) = skipTrivia rest := by
  induction body with
  | nil => simp [skipLine_cons]
  | cons c cs ih =>
    have hc : (c == '\n') = false := by
      simp only [List.mem_cons, not_or] at h
      simp; exact fun e => h.1 e.symm
    have hcs : '\n' ∉ cs := by
      simp only [List.mem_cons, not_or] at h; exact h.2
    rw [List.cons_append, skipLine_cons, hc]
    simpa using ih hcs

theorem skipTrivia_trivia {t : List Char} (ht : Trivia t) (s : List Char) :
    skipTrivia (t ++ s) = skipTrivia s := by
  induction ht with
  | nil => rfl
  | ws c t hc _ ih => rw [List.cons_append, skipTrivia_cons, hc]; simpa using ih
  | comment body t hb _ ih =>
    have hw : isWhitespace '/' = false := by decide
    rw [List.cons_append, List.cons_append, skipTrivia_cons, hw]
    simp only [Bool.false_eq_true, if_false, beq_self_eq_true, if_true]
    rw [List.append_assoc, List.cons_append, skipLine_body _ _ hb]
    exact ih

/-! ### at most one head keyword matches -/

/-- If two keywords both match the same text (case-insensitively), one folds to a prefix of the other. -/
theorem matchKeyword_prefix : ∀ (k1 k2 s : List Char) {r1 r2 : List Char},
    matchKeyword k1 s = some r1 → matchKeyword k2 s = some r2 →
    (k1.map foldNat) <+: (k2.map foldNat) ∨ (k2.map foldNat) <+: (k1.map foldNat) := by
  intro k1
  induction k1 with
  | nil => intro k2 s r1 r2 _ _; left; simp
  | cons a as ih =>
    intro k2 s r1 r2 h1 h2
    cases k2 with
    | nil => right; simp
    | cons b bs =>
      cases s with
      | nil => simp [matchKeyword] at h1
      | cons c cs =>
        simp only [matchKeyword] at h1 h2
        by_cases ha : (foldNat a == foldNat c) = true
        · by_cases hb : (foldNat b == foldNat c) = true
          · simp only [ha, hb, if_true] at h1 h2
            have hab : foldNat a = foldNat b := by
              have := beq_iff_eq.mp ha; have := beq_iff_eq.mp hb; omega
            rcases ih bs cs h1 h2 with h | h
            · left; simp [List.cons_prefix_cons, hab, h]
            · right; simp [List.cons_prefix_cons, hab, h]
          · simp [hb] at h2
        · simp [ha] at h1

/-- Decidable form of "no head keyword folds to a prefix of a different one, and no keyword occurs
twice": checked on the generated table. -/
def prefixFree (tbl : List (Family × List Char)) : Bool :=
  tbl.all fun e1 => tbl.all fun e2 =>
    e1 == e2 || !((e1.2.map foldNat).isPrefixOf (e2.2.map foldNat))

theorem unique_match (uni : Char → Bool) (tbl : List (Family × List Char)) (hpf : prefixFree tbl = true)
    (s : List Char) {e1 e2 : Family × List Char} (m1 : e1 ∈ tbl) (m2 : e2 ∈ tbl)
    (h1 : matchWord uni e1.2 s = true) (h2 : matchWord uni e2.2 s = true) : e1 = e2 := by
  unfold matchWord at h1 h2
  cases hk1 : matchKeyword e1.2 s with
  | none => simp [hk1] at h1
  | some r1 =>
    cases hk2 : matchKeyword e2.2 s with
    | none => simp [hk2] at h2
    | some r2 =>
      simp only [prefixFree, List.all_eq_true] at hpf
      have p12 := hpf e1 m1 e2 m2
      have p21 := hpf e2 m2 e1 m1
      simp only [Bool.or_eq_true, beq_iff_eq, Bool.not_eq_true'] at p12 p21
      rcases matchKeyword_prefix e1.2 e2.2 s hk1 hk2 with h | h
      · rcases p12 with h' | h'
        · exact h'
        · have : (e1.2.map foldNat).isPrefixOf (e2.2.map foldNat) = true := List.isPrefixOf_iff_prefix.mpr h
          rw [this] at h'; cases h'
      · rcases p21 with h' | h'
        · exact h'.symm
        · have : (e2.2.map foldNat).isPrefixOf (e1.2.map foldNat) = true := List.isPrefixOf_iff_prefix.mpr h
          rw [this] at h'; cases h'

theorem find?_of_unique {α : Type} (p : α → Bool) (l : List α)
    (huniq : ∀ a b, a ∈ l → b ∈ l → p a = true → p b = true → a = b) (e : α) :
    l.find? p = some e ↔ e ∈ l ∧ p e = true := by
  constructor
  · intro h
    exact ⟨List.mem_of_find?_eq_some h, List.find?_some h⟩
  · rintro ⟨hm, hp⟩
    cases hf : l.find? p with
    | none =>
      have := List.find?_eq_none.mp hf e hm
      exact absurd hp this
    | some e' =>
      have := huniq e' e (List.mem_of_find?_eq_some hf) hm (List.find?_some hf) hp
      rw [this]

/-- With at most one matching entry the order of the table (the order of `alt`) cannot matter. -/
theorem classifyIn_perm (uni : Char → Bool) (tbl tbl' : List (Family × List Char))
    (hpf : prefixFree tbl = true) (hperm : tbl'.Perm tbl) (s : List Char) :
    classifyIn uni tbl' s = classifyIn uni tbl s := by
  have huniq : ∀ a b, a ∈ tbl → b ∈ tbl → matchWord uni a.2 s = true → matchWord uni b.2 s = true → a = b :=
    fun a b ma mb ha hb => unique_match uni tbl hpf s ma mb ha hb
  have huniq' : ∀ a b, a ∈ tbl' → b ∈ tbl' → matchWord uni a.2 s = true → matchWord uni b.2 s = true → a = b :=
    fun a b ma mb ha hb => huniq a b (hperm.mem_iff.mp ma) (hperm.mem_iff.mp mb) ha hb
  unfold classifyIn
  cases hf : tbl.find? (fun e => matchWord uni e.2 s) with
  | some e =>
    have := (find?_of_unique _ tbl huniq e).mp hf
    have : tbl'.find? (fun e => matchWord uni e.2 s) = some e :=
      (find?_of_unique _ tbl' huniq' e).mpr ⟨hperm.mem_iff.mpr this.1, this.2⟩
    rw [this]
  | none =>
    have hn := List.find?_eq_none.mp hf
    have : tbl'.find? (fun e => matchWord uni e.2 s) = none :=
      List.find?_eq_none.mpr (fun x hx => hn x (hperm.mem_iff.mp hx))
    rw [this]


/-! ### the pre-scan ignores trivia between tokens -/

theorem ws_is_plain {c : Char} (h : isWhitespace c = true) :
    (c == '/') = false ∧ (c == '"') = false ∧ isOpener c = false ∧ closerOf c = none := by
  refine ⟨?_, ?_, ?_, ?_⟩
  · simp only [beq_eq_false_iff_ne, ne_eq]; intro he; subst he; revert h; decide
  · simp only [beq_eq_false_iff_ne, ne_eq]; intro he; subst he; revert h; decide
  · simp only [isOpener, Bool.or_eq_false_iff, beq_eq_false_iff_ne, ne_eq]
    refine ⟨⟨?_, ?_⟩, ?_⟩ <;> (intro he; subst he; revert h; decide)
  · unfold closerOf
    have h1 : (c == ')') = false := by
      simp only [beq_eq_false_iff_ne, ne_eq]; intro he; subst he; revert h; decide
    have h2 : (c == ']') = false := by
      simp only [beq_eq_false_iff_ne, ne_eq]; intro he; subst he; revert h; decide
    have h3 : (c == '}') = false := by
      simp only [beq_eq_false_iff_ne, ne_eq]; intro he; subst he; revert h; decide
    simp [h1, h2, h3]

theorem scan_comment_body (d : Nat) (stk : List Char) (body rest : List Char) (h : '\n' ∉ body) :
    scan d { stack := stk, lex := { inLineComment := true } } (body ++ '\n' :: rest) =
      scan d { stack := stk, lex := {} } rest := by
  induction body with
  | nil => simp [scan, step]
  | cons c cs ih =>
    have hc : (c == '\n') = false := by
      simp only [List.mem_cons, not_or] at h
      simp; exact fun e => h.1 e.symm
    have hcs : '\n' ∉ cs := by
      simp only [List.mem_cons, not_or] at h; exact h.2
    rw [List.cons_append, scan]
    simp only [step, hc]
    simpa using ih hcs

/-- From a code position with no `/` pending, a run of trivia leaves the pre-scan where it was. -/
theorem scan_trivia (d : Nat) {t : List Char} (ht : Trivia t) (stk : List Char) (rest : List Char) :
    scan d { stack := stk, lex := {} } (t ++ rest) = scan d { stack := stk, lex := {} } rest := by
  induction ht with
  | nil => rfl
  | ws c t hc _ ih =>
    obtain ⟨h1, h2, h3, h4⟩ := ws_is_plain hc
    rw [List.cons_append, scan]
    simp only [step, h1, h2, h3, h4]
    simpa using ih
  | comment body t hb _ ih =>
    rw [List.cons_append, List.cons_append, scan]
    simp only [step]
    simp only [Bool.false_eq_true, if_false, beq_self_eq_true, if_true]
    rw [scan]
    simp only [step]
    simp only [Bool.false_eq_true, if_false, beq_self_eq_true, if_true]
    rw [List.append_assoc, List.cons_append, scan_comment_body d stk body _ hb]
    exact ih

end AndaVerif.Proofs.KipClassify
