import AndaVerif.Gen.NexusOrderFacts
import AndaVerif.Model.TxSched
/-
Under every schedule a reader sees the store only at a statement boundary.
-/
namespace AndaVerif.TxSched
open AndaVerif.Sched AndaVerif.Gen.NexusOrder

variable {σ : Type}

/-- consecutive boundaries are related by one whole statement of some writer of `c0` -/
def Chain (c0 : Cfg σ) : List σ → Prop
  | b' :: b :: r => (∃ t th, c0.threads t = some th ∧ th.role = .writer ∧ b' = applyAll th.orig b) ∧ Chain c0 (b :: r)
  | _ => True

structure Inv (c0 c : Cfg σ) : Prop where
  quiet : c.xholder = none → ∃ b r, c.bounds = b :: r ∧ c.st = b
  excl : c.holders ≠ [] → c.xholder = none
  hold : ∀ t th, c.threads t = some th → th.pc = 1 →
      (th.role = .writer → c.xholder = some t) ∧ (th.role ≠ .writer → t ∈ c.holders)
  seen : ∀ t th x, c.threads t = some th → th.seen = some x → x ∈ c.bounds
  prog : ∀ t th, c.threads t = some th → th.role = .writer → th.pc = 1 →
      ∃ b r, c.bounds = b :: r ∧ applyAll th.rem c.st = applyAll th.orig b
  fresh : ∀ t th, c.threads t = some th → th.pc = 0 → th.rem = th.orig
  same : ∀ t th, c.threads t = some th → ∃ th0, c0.threads t = some th0 ∧ th0.role = th.role ∧ th0.orig = th.orig
  chain : Chain c0 c.bounds
  last : c.bounds.getLast? = some c0.st

theorem side_writer : sideOf Role.writer = .exclusive := gen_locks.1
theorem side_reader : sideOf Role.reader = .shared := gen_locks.2.1
theorem side_meta : sideOf Role.metaCmd = .shared := gen_locks.2.2.1

theorem side_shared {r : Role} (h : r ≠ .writer) : sideOf r = .shared := by
  cases r with
  | writer => exact absurd rfl h
  | reader => exact side_reader
  | metaCmd => exact side_meta

theorem init_inv (c0 : Cfg σ) (h : Initial c0) : Inv c0 c0 := by
  obtain ⟨h1, h2, h3, h4⟩ := h
  exact { quiet := fun _ => ⟨c0.st, [], h3, rfl⟩, excl := fun hne => absurd h2 hne,
          hold := (by intro t th ht hpc; rw [(h4 t th ht).1] at hpc; cases hpc),
          seen := (by intro t th x ht hs; rw [(h4 t th ht).2.1] at hs; cases hs),
          prog := (by intro t th ht _ hpc; rw [(h4 t th ht).1] at hpc; cases hpc),
          fresh := fun t th ht _ => (h4 t th ht).2.2,
          same := fun t th ht => ⟨th, ht, rfl, rfl⟩,
          chain := by rw [h3]; trivial, last := by rw [h3]; rfl }

theorem setThread_get (f : Nat → Option (Thread σ)) (t : Nat) (x : Thread σ) (u : Nat) (th : Thread σ)
    (h : setThread f t x u = some th) : (u = t ∧ th = x) ∨ (u ≠ t ∧ f u = some th) := by
  unfold setThread at h
  split at h
  · rename_i hu; cases h; exact .inl ⟨hu, rfl⟩
  · rename_i hu; exact .inr ⟨hu, h⟩

theorem step_inv (c0 : Cfg σ) (t : Nat) (c c' : Cfg σ) (h : Inv c0 c) (hs : step t c = some c') : Inv c0 c' := by
  unfold step at hs
  split at hs
  · cases hs
  · rename_i th hth
    split at hs
    · -- acquire
      rename_i hpc
      by_cases hw : th.role = .writer
      · rw [hw, side_writer] at hs
        simp only at hs
        split at hs
        · rename_i hfree
          cases hs
          refine { quiet := (by intro hx; cases hx), excl := by intro hne; exact absurd hfree.2 hne, hold := ?_, seen := ?_,
                   prog := ?_, fresh := ?_, same := ?_, chain := h.chain, last := h.last }
          · intro u thu hu hpcu
            rcases setThread_get _ _ _ _ _ hu with ⟨hut, hx⟩ | ⟨hut, hu'⟩
            · subst hx; subst hut
              exact ⟨fun _ => rfl, fun hn => absurd rfl hn⟩
            · have := h.hold u thu hu' hpcu
              constructor
              · intro hr; have := this.1 hr; rw [hfree.1] at this; cases this
              · intro hr; have := this.2 hr; rw [hfree.2] at this; cases this
          · intro u thu x hu hsn
            rcases setThread_get _ _ _ _ _ hu with ⟨hut, hx⟩ | ⟨hut, hu'⟩
            · subst hx; exact h.seen t th x hth hsn
            · exact h.seen u thu x hu' hsn
          · intro u thu hu hr hpcu
            rcases setThread_get _ _ _ _ _ hu with ⟨hut, hx⟩ | ⟨hut, hu'⟩
            · subst hx
              obtain ⟨b, r, hb, hst⟩ := h.quiet hfree.1
              refine ⟨b, r, hb, ?_⟩
              show applyAll th.rem c.st = applyAll th.orig b
              rw [h.fresh t th hth hpc, hst]
            · have := (h.hold u thu hu' hpcu).1 hr
              rw [hfree.1] at this; cases this
          · intro u thu hu hpcu
            rcases setThread_get _ _ _ _ _ hu with ⟨hut, hx⟩ | ⟨hut, hu'⟩
            · subst hx; cases hpcu
            · exact h.fresh u thu hu' hpcu
          · intro u thu hu
            rcases setThread_get _ _ _ _ _ hu with ⟨hut, hx⟩ | ⟨hut, hu'⟩
            · subst hx; subst hut; (obtain ⟨th0, a, b, d⟩ := h.same u th hth; exact ⟨th0, a, b.trans hw, d⟩)
            · exact h.same u thu hu'
        · cases hs
      · rw [side_shared hw] at hs
        simp only at hs
        split at hs
        · rename_i hfree
          cases hs
          refine { quiet := h.quiet, excl := fun _ => hfree, hold := ?_, seen := ?_, prog := ?_, fresh := ?_, same := ?_,
                   chain := h.chain, last := h.last }
          · intro u thu hu hpcu
            rcases setThread_get _ _ _ _ _ hu with ⟨hut, hx⟩ | ⟨hut, hu'⟩
            · subst hx; subst hut
              exact ⟨fun hr => absurd hr hw, fun _ => List.mem_cons_self⟩
            · have := h.hold u thu hu' hpcu
              exact ⟨this.1, fun hr => List.mem_cons_of_mem _ (this.2 hr)⟩
          · intro u thu x hu hsn
            rcases setThread_get _ _ _ _ _ hu with ⟨hut, hx⟩ | ⟨hut, hu'⟩
            · subst hx; exact h.seen t th x hth hsn
            · exact h.seen u thu x hu' hsn
          · intro u thu hu hr hpcu
            rcases setThread_get _ _ _ _ _ hu with ⟨hut, hx⟩ | ⟨hut, hu'⟩
            · subst hx; exact absurd hr hw
            · exact h.prog u thu hu' hr hpcu
          · intro u thu hu hpcu
            rcases setThread_get _ _ _ _ _ hu with ⟨hut, hx⟩ | ⟨hut, hu'⟩
            · subst hx; cases hpcu
            · exact h.fresh u thu hu' hpcu
          · intro u thu hu
            rcases setThread_get _ _ _ _ _ hu with ⟨hut, hx⟩ | ⟨hut, hu'⟩
            · subst hx; subst hut; exact h.same u th hth
            · exact h.same u thu hu'
        · cases hs
    · split at hs
      · rename_i hpc0 hpc
        have hh := h.hold t th hth hpc
        split at hs
        · -- a writer holding the lock
          rename_i hrole
          have hx : c.xholder = some t := hh.1 hrole
          have hnoh : c.holders = [] := by
            cases hc : c.holders with
            | nil => rfl
            | cons a r => have := h.excl (by rw [hc]; simp); rw [hx] at this; cases this
          have honly : ∀ u thu, c.threads u = some thu → thu.pc = 1 → u = t := by
            intro u thu hu hpcu
            by_cases hr : thu.role = .writer
            · have := (h.hold u thu hu hpcu).1 hr; rw [hx] at this; cases this; rfl
            · have := (h.hold u thu hu hpcu).2 hr; rw [hnoh] at this; cases this
          split at hs
          · -- one more step of the statement
            rename_i f r hrem
            cases hs
            refine { quiet := (by intro hq; rw [hx] at hq; cases hq), excl := h.excl, hold := ?_, seen := ?_, prog := ?_,
                     fresh := ?_, same := ?_, chain := h.chain, last := h.last }
            · intro u thu hu hpcu
              rcases setThread_get _ _ _ _ _ hu with ⟨hut, hxx⟩ | ⟨hut, hu'⟩
              · subst hxx; subst hut; exact hh
              · exact h.hold u thu hu' hpcu
            · intro u thu x hu hsn
              rcases setThread_get _ _ _ _ _ hu with ⟨hut, hxx⟩ | ⟨hut, hu'⟩
              · subst hxx; exact h.seen t th x hth hsn
              · exact h.seen u thu x hu' hsn
            · intro u thu hu hr hpcu
              rcases setThread_get _ _ _ _ _ hu with ⟨hut, hxx⟩ | ⟨hut, hu'⟩
              · subst hxx
                obtain ⟨b, rr, hb, hp⟩ := h.prog t th hth hrole hpc
                refine ⟨b, rr, hb, ?_⟩
                rw [hrem] at hp
                exact hp
              · exact absurd (honly u thu hu' hpcu) hut
            · intro u thu hu hpcu
              rcases setThread_get _ _ _ _ _ hu with ⟨hut, hxx⟩ | ⟨hut, hu'⟩
              · subst hxx; rw [hpc] at hpcu; cases hpcu
              · exact h.fresh u thu hu' hpcu
            · intro u thu hu
              rcases setThread_get _ _ _ _ _ hu with ⟨hut, hxx⟩ | ⟨hut, hu'⟩
              · subst hxx; subst hut; exact h.same u th hth
              · exact h.same u thu hu'
          · -- the statement is complete: release
            rename_i hrem
            cases hs
            obtain ⟨b, rr, hb, hp⟩ := h.prog t th hth hrole hpc
            rw [hrem] at hp
            have hst : c.st = applyAll th.orig b := hp
            obtain ⟨th0, hth0, hr0, ho0⟩ := h.same t th hth
            refine { quiet := fun _ => ⟨c.st, c.bounds, rfl, rfl⟩, excl := by intro _; simp [hx], hold := ?_, seen := ?_,
                     prog := ?_, fresh := ?_, same := ?_, chain := ?_, last := ?_ }
            · intro u thu hu hpcu
              rcases setThread_get _ _ _ _ _ hu with ⟨hut, hxx⟩ | ⟨hut, hu'⟩
              · subst hxx; cases hpcu
              · exact absurd (honly u thu hu' hpcu) hut
            · intro u thu x hu hsn
              rcases setThread_get _ _ _ _ _ hu with ⟨hut, hxx⟩ | ⟨hut, hu'⟩
              · subst hxx; exact List.mem_cons_of_mem _ (h.seen t th x hth hsn)
              · exact List.mem_cons_of_mem _ (h.seen u thu x hu' hsn)
            · intro u thu hu hr hpcu
              rcases setThread_get _ _ _ _ _ hu with ⟨hut, hxx⟩ | ⟨hut, hu'⟩
              · subst hxx; cases hpcu
              · exact absurd (honly u thu hu' hpcu) hut
            · intro u thu hu hpcu
              rcases setThread_get _ _ _ _ _ hu with ⟨hut, hxx⟩ | ⟨hut, hu'⟩
              · subst hxx; cases hpcu
              · exact h.fresh u thu hu' hpcu
            · intro u thu hu
              rcases setThread_get _ _ _ _ _ hu with ⟨hut, hxx⟩ | ⟨hut, hu'⟩
              · subst hxx; subst hut; exact h.same u th hth
              · exact h.same u thu hu'
            · show Chain c0 (c.st :: c.bounds)
              rw [hb]
              refine ⟨⟨t, th0, hth0, hr0.trans hrole, ?_⟩, ?_⟩
              · rw [ho0]; exact hst
              · have := h.chain; rw [hb] at this; exact this
            · show (c.st :: c.bounds).getLast? = some c0.st
              have := h.last
              rw [hb] at this ⊢
              simpa [List.getLast?_cons_cons] using this
        · -- a reader holding the lock
          rename_i hrole
          have hnw : th.role ≠ .writer := by
            intro hr; exact hrole hr
          have hmem : t ∈ c.holders := hh.2 hnw
          have hxn : c.xholder = none := h.excl (by intro he; rw [he] at hmem; cases hmem)
          split at hs
          · -- the read
            cases hs
            obtain ⟨b, rr, hb, hst⟩ := h.quiet hxn
            refine { quiet := h.quiet, excl := h.excl, hold := ?_, seen := ?_, prog := ?_, fresh := ?_, same := ?_,
                     chain := h.chain, last := h.last }
            · intro u thu hu hpcu
              rcases setThread_get _ _ _ _ _ hu with ⟨hut, hxx⟩ | ⟨hut, hu'⟩
              · subst hxx; subst hut; exact hh
              · exact h.hold u thu hu' hpcu
            · intro u thu x hu hsn
              rcases setThread_get _ _ _ _ _ hu with ⟨hut, hxx⟩ | ⟨hut, hu'⟩
              · subst hxx
                simp only [Option.some.injEq] at hsn
                show x ∈ c.bounds
                rw [← hsn, hst, hb]; exact List.mem_cons_self
              · exact h.seen u thu x hu' hsn
            · intro u thu hu hr hpcu
              rcases setThread_get _ _ _ _ _ hu with ⟨hut, hxx⟩ | ⟨hut, hu'⟩
              · subst hxx; exact absurd hr hnw
              · exact h.prog u thu hu' hr hpcu
            · intro u thu hu hpcu
              rcases setThread_get _ _ _ _ _ hu with ⟨hut, hxx⟩ | ⟨hut, hu'⟩
              · subst hxx; rw [hpc] at hpcu; cases hpcu
              · exact h.fresh u thu hu' hpcu
            · intro u thu hu
              rcases setThread_get _ _ _ _ _ hu with ⟨hut, hxx⟩ | ⟨hut, hu'⟩
              · subst hxx; subst hut; exact h.same u th hth
              · exact h.same u thu hu'
          · -- release the shared side
            cases hs
            refine { quiet := ?_, excl := ?_, hold := ?_, seen := ?_, prog := ?_, fresh := ?_, same := ?_,
                     chain := h.chain, last := h.last }
            · intro _; exact h.quiet hxn
            · intro _; simp [hxn]
            · intro u thu hu hpcu
              rcases setThread_get _ _ _ _ _ hu with ⟨hut, hxx⟩ | ⟨hut, hu'⟩
              · subst hxx; cases hpcu
              · have := h.hold u thu hu' hpcu
                constructor
                · intro hr; have := this.1 hr; rw [hxn] at this; cases this
                · intro hr; exact (List.mem_erase_of_ne hut).mpr (this.2 hr)
            · intro u thu x hu hsn
              rcases setThread_get _ _ _ _ _ hu with ⟨hut, hxx⟩ | ⟨hut, hu'⟩
              · subst hxx; exact h.seen t th x hth hsn
              · exact h.seen u thu x hu' hsn
            · intro u thu hu hr hpcu
              rcases setThread_get _ _ _ _ _ hu with ⟨hut, hxx⟩ | ⟨hut, hu'⟩
              · subst hxx; cases hpcu
              · exact h.prog u thu hu' hr hpcu
            · intro u thu hu hpcu
              rcases setThread_get _ _ _ _ _ hu with ⟨hut, hxx⟩ | ⟨hut, hu'⟩
              · subst hxx; cases hpcu
              · exact h.fresh u thu hu' hpcu
            · intro u thu hu
              rcases setThread_get _ _ _ _ _ hu with ⟨hut, hxx⟩ | ⟨hut, hu'⟩
              · subst hxx; subst hut; exact h.same u th hth
              · exact h.same u thu hu'
      · cases hs

/-- the invariant holds after every schedule -/
theorem run_inv (c0 : Cfg σ) (h : Initial c0) (sched : List Nat) : Inv c0 (runSchedule step sched c0) :=
  sched_inv step (Inv c0) (fun t c c' hi hs => step_inv c0 t c c' hi hs) sched c0 (init_inv c0 h)

end AndaVerif.TxSched
