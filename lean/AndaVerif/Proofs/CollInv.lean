import AndaVerif.Proofs.CollGood
/-
The collection invariant `Inv` and its preservation by every operation of `Model/Collection.lean`
(`inv_step`), including rejected operations and their rollbacks.
-/
namespace AndaVerif.Collection

-- ------------------------------------------------------------------------------------------
-- the stored-document map
-- ------------------------------------------------------------------------------------------

theorem lookupD_append (docs : List (Nat × List (Nat × FVal))) (id : Nat) (d : List (Nat × FVal))
    (h : lookupD docs id = none) : lookupD (docs ++ [(id, d)]) = updL (lookupD docs) id (some d) := by
  funext i
  induction docs with
  | nil =>
    simp only [List.nil_append, lookupD, updL]
    by_cases hi : id = i
    · simp [hi]
    · have : ¬ i = id := fun h => hi h.symm
      simp [hi, this]
  | cons p r ih =>
    obtain ⟨j, e⟩ := p
    simp only [lookupD] at h
    split at h
    · cases h
    · rename_i hj
      simp only [List.cons_append, lookupD]
      by_cases hji : j = i
      · have : ¬ i = id := fun h => hj (by rw [hji, h])
        simp [hji, updL, this]
      · simp only [hji, if_false]
        rw [ih h]
        simp [updL, hji]

theorem lookupD_putD (docs : List (Nat × List (Nat × FVal))) (id : Nat) (d : List (Nat × FVal)) :
    lookupD (putD docs id d) = updL (lookupD docs) id (some d) := by
  funext i
  induction docs with
  | nil =>
    simp only [putD, lookupD, updL]
    by_cases hi : id = i
    · simp [hi]
    · have : ¬ i = id := fun h => hi h.symm
      simp [hi, this]
  | cons p r ih =>
    obtain ⟨j, e⟩ := p
    simp only [putD]
    split
    · rename_i hj
      subst hj
      simp only [lookupD, updL]
      by_cases hji : j = i
      · simp [hji]
      · have : ¬ i = j := fun h => hji h.symm
        simp [hji, this]
    · rename_i hj
      simp only [lookupD, updL]
      by_cases hji : j = i
      · have : ¬ i = id := fun h => hj (by rw [hji, h])
        simp [hji, this]
      · simp only [hji, if_false]
        rw [ih]
        simp [updL]

theorem lookupD_delD (docs : List (Nat × List (Nat × FVal))) (id : Nat) :
    lookupD (delD docs id) = updL (lookupD docs) id none := by
  funext i
  induction docs with
  | nil => simp [delD, lookupD, updL]
  | cons p r ih =>
    obtain ⟨j, e⟩ := p
    simp only [delD, List.filter_cons]
    by_cases hj : j = id
    · subst hj
      simp only [bne_self_eq_false, Bool.false_eq_true, if_false]
      have ih' : lookupD (delD r j) i = updL (lookupD r) j none i := ih
      simp only [delD] at ih'
      rw [ih']
      simp only [updL, lookupD]
      by_cases hi : i = j
      · simp [hi]
      · have : ¬ j = i := fun h => hi h.symm
        simp [hi, this]
    · have hne : (j != id) = true := by simpa using hj
      simp only [hne, if_true, lookupD]
      have ih' : lookupD (delD r id) i = updL (lookupD r) id none i := ih
      simp only [delD] at ih'
      rw [ih']
      simp only [updL]
      by_cases hji : j = i
      · have : ¬ i = id := fun h => hj (by rw [hji, h])
        simp [hji, this]
      · simp [hji]

-- ------------------------------------------------------------------------------------------
-- validity ⇒ the two values an index sees for one document have compatible shapes
-- ------------------------------------------------------------------------------------------

theorem lookupF_mem (d : List (Nat × FVal)) (f : Nat) (v : FVal) (h : lookupF d f = some v) : (f, v) ∈ d := by
  induction d with
  | nil => simp [lookupF] at h
  | cons p r ih =>
    obtain ⟨g, w⟩ := p
    simp only [lookupF] at h
    split at h
    · rename_i hg
      simp only [Option.some.injEq] at h
      subst hg h
      exact List.mem_cons_self ..
    · exact List.mem_cons_of_mem _ (ih h)

theorem lookupS_mem (s : List (Nat × FieldDef)) (f : Nat) (fd : FieldDef) (h : lookupS s f = some fd) : (f, fd) ∈ s := by
  induction s with
  | nil => simp [lookupS] at h
  | cons p r ih =>
    obtain ⟨g, w⟩ := p
    simp only [lookupS] at h
    split at h
    · rename_i hg
      simp only [Option.some.injEq] at h
      subst hg h
      exact List.mem_cons_self ..
    · exact List.mem_cons_of_mem _ (ih h)

theorem getF_undeclared (schema : List (Nat × FieldDef)) (d : List (Nat × FVal)) (f : Nat)
    (hv : validate schema d = true) (hs : lookupS schema f = none) : getF d f = .null := by
  unfold getF
  cases hl : lookupF d f with
  | none => rfl
  | some v =>
    exfalso
    have hm := lookupF_mem d f v hl
    simp only [validate, Bool.and_eq_true, List.all_eq_true] at hv
    have := hv.1 (f, v) hm
    simp [hs] at this

theorem kindOk_declared (schema : List (Nat × FieldDef)) (d : List (Nat × FVal)) (f : Nat) (fd : FieldDef)
    (hv : validate schema d = true) (hs : lookupS schema f = some fd) : kindOk fd (getF d f) = true := by
  simp only [validate, Bool.and_eq_true, List.all_eq_true] at hv
  exact hv.2 (f, fd) (lookupS_mem schema f fd hs)

theorem valueOf_compat (schema : List (Nat × FieldDef)) (df : BtDef) (a b : List (Nat × FVal))
    (ha : validate schema a = true) (hb : validate schema b = true) : Compat (valueOf df a) (valueOf df b) := by
  unfold valueOf
  cases hfl : df.fields with
  | nil => simp [Compat]
  | cons f rest =>
    cases rest with
    | cons g rest' => simp [Compat]
    | nil =>
      simp only
      cases hs : lookupS schema f with
      | none =>
        rw [getF_undeclared schema a f ha hs, getF_undeclared schema b f hb hs]
        simp [Compat]
      | some fd =>
        have ka := kindOk_declared schema a f fd ha hs
        have kb := kindOk_declared schema b f fd hb hs
        cases hga : getF a f <;> cases hgb : getF b f <;> simp_all [kindOk, Compat]

theorem ivalOf_compat (schema : List (Nat × FieldDef)) (df : BtDef) (oa ob : Option (List (Nat × FVal)))
    (ha : ∀ d, oa = some d → validate schema d = true) (hb : ∀ d, ob = some d → validate schema d = true) :
    Compat (ivalOf df oa) (ivalOf df ob) := by
  cases oa with
  | none => exact Compat_null_left _
  | some a =>
    cases ob with
    | none => exact Compat_null_right _
    | some b => exact valueOf_compat schema df a b (ha a rfl) (hb b rfl)

-- ------------------------------------------------------------------------------------------
-- small congruences
-- ------------------------------------------------------------------------------------------

theorem goodBt_congr (L L' : Nat → Option (List (Nat × FVal))) (x : BtDef × List (Key × Nat))
    (h : ∀ i, ivalOf x.1 (L' i) = ivalOf x.1 (L i)) (hg : GoodBt L x) : GoodBt L' x :=
  ⟨fun k i => by rw [h i]; exact hg.1 k i, hg.2⟩

theorem goodBt_mem (L : Nat → Option (List (Nat × FVal))) (df : BtDef) (r r' : List (Key × Nat))
    (h : ∀ p, p ∈ r' ↔ p ∈ r) (hg : GoodBt L (df, r)) : GoodBt L (df, r') :=
  ⟨fun k i => by rw [h (k, i)]; exact hg.1 k i,
   fun hu k i j hi hj => hg.2 hu k i j ((h (k, i)).1 hi) ((h (k, j)).1 hj)⟩

theorem goodTx_congr (L L' : Nat → Option (List (Nat × FVal))) (t : Tx)
    (h : ∀ i, oTextOf t.fields (L' i) = oTextOf t.fields (L i)) (hg : GoodTx L t) : GoodTx L' t :=
  ⟨fun i => by rw [h i]; exact hg.1 i, fun w i => by rw [h i]; exact hg.2.1 w i, hg.2.2⟩

theorem goodHn_congr (L L' : Nat → Option (List (Nat × FVal))) (x : Hn)
    (h : ∀ i, oVecOf x.field (L' i) = oVecOf x.field (L i)) (hg : GoodHn L x) : GoodHn L' x :=
  ⟨fun i => by rw [h i]; exact hg.1 i, hg.2.1, fun i n hn => hg.2.2 i n (by rw [← h i]; exact hn)⟩

theorem valueOf_congr (df : BtDef) (a b : List (Nat × FVal)) (h : ∀ f ∈ df.fields, getF b f = getF a f) :
    valueOf df b = valueOf df a := by
  unfold valueOf
  cases hfl : df.fields with
  | nil => rfl
  | cons f rest =>
    rw [hfl] at h
    cases rest with
    | nil =>
      simp only
      rw [h f (List.mem_cons_self ..)]
    | cons g rest' =>
      simp only
      have : (f :: g :: rest').map (getF b) = (f :: g :: rest').map (getF a) := List.map_congr_left (fun f hf => h f hf)
      rw [this]

theorem filterMap_congr' {α β : Type} (f g : α → Option β) (l : List α) (h : ∀ x ∈ l, f x = g x) :
    l.filterMap f = l.filterMap g := by
  induction l with
  | nil => rfl
  | cons x r ih =>
    simp only [List.filterMap_cons]
    rw [h x (List.mem_cons_self ..), ih (fun y hy => h y (List.mem_cons_of_mem _ hy))]

theorem textOf_congr (fields : List Nat) (a b : List (Nat × FVal)) (h : ∀ f ∈ fields, getF b f = getF a f) :
    textOf fields b = textOf fields a := by
  have hf : ∀ f ∈ fields, fragOf b f = fragOf a f := fun f hf => by unfold fragOf; rw [h f hf]
  have : fields.filterMap (fragOf b) = fields.filterMap (fragOf a) := filterMap_congr' _ _ _ hf
  unfold textOf
  rw [this]

theorem untouched (fields changed : List Nat) (h : touches fields changed = false) :
    ∀ f ∈ fields, f ∉ changed := by
  intro f hf hc
  simp only [touches, List.any_eq_false, List.contains_eq_mem, decide_eq_true_eq] at h
  exact h f hc hf

-- ------------------------------------------------------------------------------------------
-- add: the three families
-- ------------------------------------------------------------------------------------------

theorem hnInsertO_dim (h h' : Hn) (i : Nat) (n : Nat) (hi : hnInsertO h i (some n) = .ok h') : n = h.dim := by
  simp only [hnInsertO, hnInsert] at hi
  split at hi
  · cases hi
  · rename_i hne
    simpa using hne

section add
variable (L : Nat → Option (List (Nat × FVal))) (id : Nat) (d : List (Nat × FVal)) (hid : L id = none)
include hid

theorem updL_none_self : updL L id none = L := by
  have := updL_self L id
  rw [hid] at this
  exact this

theorem addBt_ok : PhaseOK (addBtF id d) (addBtB id d) (GoodBt L) (GoodBt (updL L id (some d))) := by
  have h0 : ∀ x : BtDef × List (Key × Nat), ivalOf x.1 (L id) = .null := fun x => by rw [hid]; rfl
  have fwdGood : ∀ (x : BtDef × List (Key × Nat)) r', GoodBt L x → btInsert x.1.unique x.2 id (valueOf x.1 d) = .ok r' →
      GoodBt (updL L id (some d)) (x.1, r') := by
    intro x r' hx hr
    rw [btInsert_eq_update] at hr
    exact good_update L x.1 x.2 r' id (some d) hx (by rw [h0]; exact Compat_null_left _) (by rw [h0]; exact hr)
  refine ⟨?_, ?_, ?_⟩
  · intro x hx he
    cases hr : btInsert x.1.unique x.2 id (valueOf x.1 d) with
    | error e' => simp [addBtF, hr] at he
    | ok r' =>
      simp only [addBtF, hr]
      exact fwdGood x r' hx hr
  · intro x hx e he
    cases hr : btInsert x.1.unique x.2 id (valueOf x.1 d) with
    | ok r' => simp [addBtF, hr] at he
    | error e' =>
      simp only [addBtF, hr]
      refine ⟨goodBt_mem L x.1 x.2 _ (fun p => ?_) hx, trivial⟩
      rw [mem_btRemove]
      constructor
      · exact fun h => h.1
      · intro hp
        refine ⟨hp, fun ⟨h1, _⟩ => ?_⟩
        have := (hx.1 p.1 p.2).1 hp
        rw [h1, hid] at this
        simp [ivalOf, IVal.keys] at this
  · intro x hx he
    cases hr : btInsert x.1.unique x.2 id (valueOf x.1 d) with
    | error e' => simp [addBtF, hr] at he
    | ok r' =>
      simp only [addBtF, hr, addBtB]
      refine ⟨?_, trivial⟩
      have hg1 := fwdGood x r' hx hr
      have hrm : btUpdate x.1.unique r' id (ivalOf x.1 (updL L id (some d) id)) (ivalOf x.1 none) = .ok (btRemove r' id (valueOf x.1 d)) := by
        rw [updL_same]
        exact (btRemove_eq_update _ _ _ _).symm
      have := good_update (updL L id (some d)) x.1 r' _ id none hg1 (Compat_null_right _) hrm
      rw [updL_updL, updL_none_self L id hid] at this
      exact this

theorem addTx_ok : PhaseOK (addTxF id d) (addTxB id d) (GoodTx L) (GoodTx (updL L id (some d))) := by
  have core : ∀ t, GoodTx L t → ∃ t', txInsertO t id (textOf t.fields d) = .ok t' ∧ GoodTx (updL L id (some d)) t' :=
    fun t ht => good_tx_insert L t id (some d) ht (by rw [hid]; rfl)
  refine ⟨?_, ?_, ?_⟩
  · intro t ht he
    obtain ⟨t', h1, h2⟩ := core t ht
    simp only [addTxF, h1]
    exact h2
  · intro t ht e he
    obtain ⟨t', h1, _⟩ := core t ht
    simp [addTxF, h1] at he
  · intro t ht he
    obtain ⟨t', h1, h2⟩ := core t ht
    simp only [addTxF, h1, addTxB]
    refine ⟨?_, trivial⟩
    have := good_tx_remove (updL L id (some d)) t' id h2
    rw [updL_updL, updL_none_self L id hid, updL_same] at this
    exact this

theorem addHn_ok : PhaseOK (addHnF id d) (addHnB id d) (GoodHn L) (GoodHn (updL L id (some d))) := by
  have fwdGood : ∀ h h', GoodHn L h → hnInsertO h id (vecOf h.field d) = .ok h' → GoodHn (updL L id (some d)) h' := by
    intro h h' hh hr
    have hd : ∀ n, oVecOf h.field (some d) = some n → n = h.dim := by
      intro n hn
      have hn' : vecOf h.field d = some n := hn
      rw [hn'] at hr
      exact hnInsertO_dim h h' id n hr
    obtain ⟨h'', h1, h2⟩ := good_hn_insert L h id (some d) hh (by rw [hid]; rfl) hd
    have h1' : hnInsertO h id (vecOf h.field d) = .ok h'' := h1
    rw [hr] at h1'
    cases h1'
    exact h2
  refine ⟨?_, ?_, ?_⟩
  · intro h hh he
    cases hr : hnInsertO h id (vecOf h.field d) with
    | error e' => simp [addHnF, hr] at he
    | ok h' =>
      simp only [addHnF, hr]
      exact fwdGood h h' hh hr
  · intro h hh e he
    cases hr : hnInsertO h id (vecOf h.field d) with
    | ok h' => simp [addHnF, hr] at he
    | error e' =>
      simp only [addHnF, hr]
      refine ⟨?_, trivial⟩
      have := good_hn_remove L h id (vecOf h.field d) hh (Or.inr (by rw [hid]; rfl))
      rw [updL_none_self L id hid] at this
      exact this
  · intro h hh he
    cases hr : hnInsertO h id (vecOf h.field d) with
    | error e' => simp [addHnF, hr] at he
    | ok h' =>
      simp only [addHnF, hr, addHnB]
      refine ⟨?_, trivial⟩
      have h2 := fwdGood h h' hh hr
      have := good_hn_remove (updL L id (some d)) h' id (vecOf h'.field d) h2 (by
        cases hv : vecOf h'.field d with
        | none => right; rw [updL_same]; simp [oVecOf, hv]
        | some n => left; rfl)
      rw [updL_updL, updL_none_self L id hid] at this
      exact this

end add

-- ------------------------------------------------------------------------------------------
-- update: the three families
-- ------------------------------------------------------------------------------------------

section update
variable (schema : List (Nat × FieldDef)) (L : Nat → Option (List (Nat × FVal))) (id : Nat)
  (o n : List (Nat × FVal)) (ch : List Nat)
  (hL : L id = some o) (hvo : validate schema o = true) (hvn : validate schema n = true)
  (hsame : ∀ f, f ∉ ch → getF n f = getF o f)

include hL in
theorem updL_some_self : updL L id (some o) = L := by
  have := updL_self L id
  rw [hL] at this
  exact this

include hL hvo hvn hsame in
theorem updBt_ok : PhaseOK (updBtF id o n ch) (updBtB id o n ch) (GoodBt L) (GoodBt (updL L id (some n))) := by
  have h0 : ∀ x : BtDef × List (Key × Nat), ivalOf x.1 (L id) = valueOf x.1 o := fun x => by rw [hL]; rfl
  have fwdGood : ∀ (x : BtDef × List (Key × Nat)) r', GoodBt L x →
      btUpdate x.1.unique x.2 id (valueOf x.1 o) (valueOf x.1 n) = .ok r' → GoodBt (updL L id (some n)) (x.1, r') := by
    intro x r' hx hr
    exact good_update L x.1 x.2 r' id (some n) hx (by rw [h0]; exact valueOf_compat schema x.1 o n hvo hvn) (by rw [h0]; exact hr)
  refine ⟨?_, ?_, ?_⟩
  · intro x hx he
    by_cases ht : touches x.1.fields ch = true
    · cases hr : btUpdate x.1.unique x.2 id (valueOf x.1 o) (valueOf x.1 n) with
      | error e' => simp [updBtF, ht, hr] at he
      | ok r' =>
        simp only [updBtF, ht, hr, if_true]
        exact fwdGood x r' hx hr
    · simp only [updBtF, ht]
      have hu := untouched x.1.fields ch (by simpa using ht)
      refine goodBt_congr L _ x (fun i => ?_) hx
      by_cases hi : i = id
      · subst hi
        rw [updL_same, hL]
        exact valueOf_congr x.1 o n (fun f hf => hsame f (hu f hf))
      · rw [updL_other _ _ _ _ hi]
  · intro x hx e he
    by_cases ht : touches x.1.fields ch = true
    · cases hr : btUpdate x.1.unique x.2 id (valueOf x.1 o) (valueOf x.1 n) with
      | ok r' => simp [updBtF, ht, hr] at he
      | error e' =>
        simp only [updBtF, ht, hr, if_true]
        exact ⟨hx, trivial⟩
    · simp [updBtF, ht] at he
  · intro x hx he
    by_cases ht : touches x.1.fields ch = true
    · cases hr : btUpdate x.1.unique x.2 id (valueOf x.1 o) (valueOf x.1 n) with
      | error e' => simp [updBtF, ht, hr] at he
      | ok r' =>
        simp only [updBtF, ht, hr, if_true, updBtB]
        have hg1 := fwdGood x r' hx hr
        obtain ⟨r2, h2, hg2⟩ := good_restore L x.1 x.2 r' id (some n) hx hg1 (by rw [h0]; exact valueOf_compat schema x.1 n o hvn hvo)
        rw [h0] at h2
        have h2' : btUpdate x.1.unique r' id (valueOf x.1 n) (valueOf x.1 o) = .ok r2 := h2
        simp only [h2']
        exact ⟨hg2, trivial⟩
    · have ht' : touches x.1.fields ch = false := by simpa using ht
      simp only [updBtF, updBtB, ht', Bool.false_eq_true, if_false]
      exact ⟨hx, trivial⟩

include hL hsame in
theorem updTx_ok : PhaseOK (updTxF id o n ch) (updTxB id o n ch) (GoodTx L) (GoodTx (updL L id (some n))) := by
  have core : ∀ t, GoodTx L t → touches t.fields ch = true →
      ∃ t2, txInsertO (txRemoveO t id (textOf t.fields o)) id (textOf t.fields n) = .ok t2 ∧
        GoodTx (updL L id (some n)) t2 ∧ t2.fields = t.fields := by
    intro t ht _
    have h1 := good_tx_remove L t id ht
    rw [hL] at h1
    have h1' : GoodTx (updL L id none) (txRemoveO t id (textOf t.fields o)) := h1
    obtain ⟨t2, h2, h3⟩ := good_tx_insert (updL L id none) _ id (some n) h1' (by rw [updL_same]; rfl)
    rw [txRemoveO_fields] at h2
    rw [updL_updL] at h3
    exact ⟨t2, h2, h3, by rw [txInsertO_fields _ _ _ _ h2, txRemoveO_fields]⟩
  have rest : ∀ t2 (tf : List Nat), GoodTx (updL L id (some n)) t2 → t2.fields = tf →
      ∃ t4, txInsertO (txRemoveO t2 id (textOf tf n)) id (textOf tf o) = .ok t4 ∧ GoodTx L t4 := by
    intro t2 tf h2 hf
    subst hf
    have h1 := good_tx_remove (updL L id (some n)) t2 id h2
    rw [updL_same, updL_updL] at h1
    have h1' : GoodTx (updL L id none) (txRemoveO t2 id (textOf t2.fields n)) := h1
    obtain ⟨t4, h4, h5⟩ := good_tx_insert (updL L id none) _ id (some o) h1' (by rw [updL_same]; rfl)
    rw [txRemoveO_fields] at h4
    rw [updL_updL, updL_some_self L id o hL] at h5
    exact ⟨t4, h4, h5⟩
  refine ⟨?_, ?_, ?_⟩
  · intro t ht he
    by_cases htc : touches t.fields ch = true
    · obtain ⟨t2, h2, h3, _⟩ := core t ht htc
      simp only [updTxF, htc, if_true, h2]
      exact h3
    · simp only [updTxF, htc]
      have hu := untouched t.fields ch (by simpa using htc)
      refine goodTx_congr L _ t (fun i => ?_) ht
      by_cases hi : i = id
      · subst hi
        rw [updL_same, hL]
        exact textOf_congr t.fields o n (fun f hf => hsame f (hu f hf))
      · rw [updL_other _ _ _ _ hi]
  · intro t ht e he
    by_cases htc : touches t.fields ch = true
    · obtain ⟨t2, h2, _, _⟩ := core t ht htc
      simp [updTxF, htc, h2] at he
    · simp [updTxF, htc] at he
  · intro t ht he
    by_cases htc : touches t.fields ch = true
    · obtain ⟨t2, h2, h3, h4⟩ := core t ht htc
      have htc2 : touches t2.fields ch = true := by rw [h4]; exact htc
      simp only [updTxF, htc, if_true, h2, updTxB, htc2, txReinsert]
      obtain ⟨t4, h5, h6⟩ := rest t2 t2.fields h3 rfl
      simp only [h5]
      exact ⟨h6, trivial⟩
    · have htc' : touches t.fields ch = false := by simpa using htc
      simp only [updTxF, updTxB, htc', Bool.false_eq_true, if_false]
      exact ⟨ht, trivial⟩

include hL hsame in
theorem updHn_ok : PhaseOK (updHnF id o n ch) (updHnB id o n ch) (GoodHn L) (GoodHn (updL L id (some n))) := by
  -- removing the old vector
  have rm : ∀ h, GoodHn L h → GoodHn (updL L id none) (hnRemoveO h id (vecOf h.field o)) := by
    intro h hh
    refine good_hn_remove L h id _ hh ?_
    cases hv : vecOf h.field o with
    | none => right; rw [hL]; simp [oVecOf, hv]
    | some k => left; rfl
  -- putting the old vector back into an index that agrees with "id absent"
  have putOld : ∀ h0 h, GoodHn L h0 → GoodHn (updL L id none) h → h.field = h0.field → h.dim = h0.dim →
      ∃ h', hnInsertO h id (vecOf h.field o) = .ok h' ∧ GoodHn L h' := by
    intro h0 h hh0 hh hf hd
    have hdim : ∀ k, oVecOf h.field (some o) = some k → k = h.dim := by
      intro k hk
      rw [hf] at hk
      rw [hd]
      exact hh0.2.2 id k (by rw [hL]; exact hk)
    obtain ⟨h', h1, h2⟩ := good_hn_insert (updL L id none) h id (some o) hh (by rw [updL_same]; rfl) hdim
    rw [updL_updL, updL_some_self L id o hL] at h2
    exact ⟨h', h1, h2⟩
  -- a successful forward step
  have fwdGood : ∀ h h2, GoodHn L h → hnInsertO (hnRemoveO h id (vecOf h.field o)) id (vecOf h.field n) = .ok h2 →
      GoodHn (updL L id (some n)) h2 := by
    intro h h2 hh hr
    have h1 := rm h hh
    have hf := hnRemoveO_field h id (vecOf h.field o)
    have hd : ∀ k, oVecOf (hnRemoveO h id (vecOf h.field o)).field (some n) = some k → k = (hnRemoveO h id (vecOf h.field o)).dim := by
      intro k hk
      rw [hf.1] at hk
      have hk' : vecOf h.field n = some k := hk
      rw [hk'] at hr
      exact hnInsertO_dim _ h2 id k hr
    obtain ⟨h', h3, h4⟩ := good_hn_insert (updL L id none) _ id (some n) h1 (by rw [updL_same]; rfl) hd
    rw [hf.1] at h3
    have h3' : hnInsertO (hnRemoveO h id (vecOf h.field o)) id (vecOf h.field n) = .ok h' := h3
    rw [hr] at h3'
    cases h3'
    rw [updL_updL] at h4
    exact h4
  refine ⟨?_, ?_, ?_⟩
  · intro h hh he
    by_cases hm : h.field ∈ ch
    · have htc : ch.contains h.field = true := by simpa using hm
      cases hr : hnInsertO (hnRemoveO h id (vecOf h.field o)) id (vecOf h.field n) with
      | error e' => simp [updHnF, hm, hr] at he
      | ok h2 =>
        simp only [updHnF, htc, if_true, hr]
        exact fwdGood h h2 hh hr
    · have htc : ch.contains h.field = false := by simpa using hm
      simp only [updHnF, htc, Bool.false_eq_true, if_false]
      have hu : h.field ∉ ch := hm
      refine goodHn_congr L _ h (fun i => ?_) hh
      by_cases hi : i = id
      · subst hi
        rw [updL_same, hL]
        simp only [oVecOf, vecOf]
        rw [hsame h.field hu]
      · rw [updL_other _ _ _ _ hi]
  · intro h hh e he
    by_cases hm : h.field ∈ ch
    · have htc : ch.contains h.field = true := by simpa using hm
      cases hr : hnInsertO (hnRemoveO h id (vecOf h.field o)) id (vecOf h.field n) with
      | ok h2 => simp [updHnF, hm, hr] at he
      | error e' =>
        simp only [updHnF, htc, if_true, hr]
        have h1 := rm h hh
        have hf := hnRemoveO_field h id (vecOf h.field o)
        have h2 := good_hn_remove (updL L id none) _ id (vecOf h.field n) h1 (Or.inr (by rw [updL_same]; rfl))
        rw [updL_updL] at h2
        have hf2 := hnRemoveO_field (hnRemoveO h id (vecOf h.field o)) id (vecOf h.field n)
        obtain ⟨h', h3, h4⟩ := putOld h _ hh h2 (by rw [hf2.1, hf.1]) (by rw [hf2.2, hf.2])
        rw [hf2.1, hf.1] at h3
        simp only [hnReinsert, h3]
        exact ⟨h4, trivial⟩
    · simp [updHnF, hm] at he
  · intro h hh he
    by_cases hm : h.field ∈ ch
    · have htc : ch.contains h.field = true := by simpa using hm
      cases hr : hnInsertO (hnRemoveO h id (vecOf h.field o)) id (vecOf h.field n) with
      | error e' => simp [updHnF, hm, hr] at he
      | ok h2 =>
        have h4 := fwdGood h h2 hh hr
        have hf := hnRemoveO_field h id (vecOf h.field o)
        have hf3 := hnInsertO_field _ h2 id _ hr
        have htc2 : ch.contains h2.field = true := by rw [hf3.1, hf.1]; exact htc
        simp only [updHnF, htc, if_true, hr, updHnB, htc2]
        have h5 := good_hn_remove (updL L id (some n)) h2 id (vecOf h2.field n) h4 (by
          cases hv : vecOf h2.field n with
          | none => right; rw [updL_same]; simp [oVecOf, hv]
          | some k => left; rfl)
        rw [updL_updL] at h5
        have hf4 := hnRemoveO_field h2 id (vecOf h2.field n)
        obtain ⟨h6, h7, h8⟩ := putOld h _ hh h5 (by rw [hf4.1, hf3.1, hf.1]) (by rw [hf4.2, hf3.2, hf.2])
        rw [hf4.1] at h7
        simp only [hnReinsert, h7]
        exact ⟨h8, trivial⟩
    · have htc' : ch.contains h.field = false := by simpa using hm
      simp only [updHnF, updHnB, htc', Bool.false_eq_true, if_false]
      exact ⟨hh, trivial⟩

end update

end AndaVerif.Collection
