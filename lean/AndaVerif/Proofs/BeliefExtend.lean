import AndaVerif.Proofs.BeliefRename
/-
The projection is a function of the multiset of eligible rows: rows that are not eligible can be
added, removed or exchanged without changing anything but the `excluded` ledger.
-/
namespace AndaVerif.Belief

/-- Equality of everything a caller can observe apart from the `excluded` ledger (and the order
inside the ledger lists). -/
structure SameBelief (a b : Answer) : Prop where
  status : a.status = b.status
  support : a.support = b.support
  supportGroups : a.supportGroups = b.supportGroups
  opposition : a.opposition = b.opposition
  oppositionGroups : a.oppositionGroups = b.oppositionGroups
  supporting : a.ledger.supporting.Perm b.ledger.supporting
  opposing : a.ledger.opposing.Perm b.ledger.opposing
  uncertain : a.ledger.uncertain.Perm b.ledger.uncertain
  policy : a.policyId = b.policyId ∧ a.policyVersion = b.policyVersion ∧ a.validAt = b.validAt

theorem SameAnswer.toBelief {a b : Answer} (h : SameAnswer a b) : SameBelief a b :=
  ⟨h.status, h.support, h.supportGroups, h.opposition, h.oppositionGroups, h.supporting, h.opposing, h.uncertain, h.policy⟩

theorem SameBelief.trans {a b c : Answer} (h₁ : SameBelief a b) (h₂ : SameBelief b c) : SameBelief a c :=
  ⟨h₁.status.trans h₂.status, h₁.support.trans h₂.support, h₁.supportGroups.trans h₂.supportGroups,
    h₁.opposition.trans h₂.opposition, h₁.oppositionGroups.trans h₂.oppositionGroups,
    h₁.supporting.trans h₂.supporting, h₁.opposing.trans h₂.opposing, h₁.uncertain.trans h₂.uncertain,
    ⟨h₁.policy.1.trans h₂.policy.1, h₁.policy.2.1.trans h₂.policy.2.1, h₁.policy.2.2.trans h₂.policy.2.2⟩⟩

theorem SameBelief.symm {a b : Answer} (h : SameBelief a b) : SameBelief b a :=
  ⟨h.status.symm, h.support.symm, h.supportGroups.symm, h.opposition.symm, h.oppositionGroups.symm,
    h.supporting.symm, h.opposing.symm, h.uncertain.symm, ⟨h.policy.1.symm, h.policy.2.1.symm, h.policy.2.2.symm⟩⟩

theorem project_filter_eq (pol : Policy) (now : Nat) (rows : List Row) (functional : Bool)
    (slot : List Nat) (target : Nat) :
    project pol now (rows.filter (isEligible pol now)) functional slot target =
      (project pol now rows functional slot target).map
        (fun a => { a with ledger := { a.ledger with excluded := [] } }) := by
  rw [project_eq, project_eq, collect_filter]
  unfold projectCands
  simp only
  split <;> simp_all

/-- Dropping the ineligible rows keeps the belief. -/
theorem project_filter_sameBelief (pol : Policy) (now : Nat) (rows : List Row) (functional : Bool)
    (slot : List Nat) (target : Nat) :
    ∃ a b, project pol now rows functional slot target = some a ∧
      project pol now (rows.filter (isEligible pol now)) functional slot target = some b ∧
      SameBelief a b ∧ b.ledger.excluded = [] := by
  obtain ⟨a, ha⟩ := project_total pol now rows functional slot target
  refine ⟨a, { a with ledger := { a.ledger with excluded := [] } }, ha, ?_, ?_, rfl⟩
  · rw [project_filter_eq, ha]; rfl
  · exact ⟨rfl, rfl, rfl, rfl, rfl, List.Perm.refl _, List.Perm.refl _, List.Perm.refl _, rfl, rfl, rfl⟩

/-- **The belief depends only on the multiset of eligible rows**: two stores whose eligible rows
are permutations of each other project the same belief (whatever else they contain, in whatever
order). -/
theorem project_eligible_only (pol : Policy) (now : Nat) {rows₁ rows₂ : List Row}
    (h : (rows₁.filter (isEligible pol now)).Perm (rows₂.filter (isEligible pol now)))
    (functional : Bool) (slot : List Nat) (target : Nat) :
    ∃ a b, project pol now rows₁ functional slot target = some a ∧
      project pol now rows₂ functional slot target = some b ∧ SameBelief a b := by
  obtain ⟨a, a', ha, ha', s₁, _⟩ := project_filter_sameBelief pol now rows₁ functional slot target
  obtain ⟨b, b', hb, hb', s₂, _⟩ := project_filter_sameBelief pol now rows₂ functional slot target
  obtain ⟨x, y, hx, hy, sxy⟩ := project_perm pol now h functional slot target
  rw [ha'] at hx; rw [hb'] at hy
  cases hx; cases hy
  exact ⟨a, b, ha, hb, s₁.trans (sxy.toBelief.trans s₂.symm)⟩

/-- **Adding an ineligible row changes nothing but the `excluded` ledger**, where it is listed
with its reason when it is about the target. -/
theorem project_add_ineligible (pol : Policy) (now : Nat) (rows : List Row) (r : Row)
    (hr : isEligible pol now r = false) {rows' : List Row} (hperm : rows'.Perm (rows ++ [r]))
    (functional : Bool) (slot : List Nat) (target : Nat) :
    ∃ a b, project pol now rows functional slot target = some a ∧
      project pol now rows' functional slot target = some b ∧ SameBelief a b ∧
      b.ledger.excluded.Perm (a.ledger.excluded ++
        (if r.prop = target then (exclOf pol now r).toList else [])) := by
  have hf : (rows.filter (isEligible pol now)).Perm (rows'.filter (isEligible pol now)) := by
    have := (hperm.filter (isEligible pol now)).symm
    simpa [List.filter_append, hr] using this
  obtain ⟨a, b, ha, hb, same⟩ := project_eligible_only pol now hf functional slot target
  refine ⟨a, b, ha, hb, same, ?_⟩
  -- the excluded ledgers, in closed form
  obtain ⟨c, hc⟩ := project_total pol now (rows ++ [r]) functional slot target
  obtain ⟨b', c', hb', hc', sbc⟩ := project_perm pol now hperm functional slot target
  rw [hb] at hb'; cases hb'
  rw [hc] at hc'; cases hc'
  refine sbc.excluded.trans ?_
  have ea : a.ledger.excluded = (rowsAbout rows target).filterMap (exclOf pol now) := by
    rw [project_eq] at ha
    obtain ⟨_, _, _, _, _, _, rfl⟩ := projectCands_some ha
    exact collect_excluded ..
  have ec : c.ledger.excluded = (rowsAbout (rows ++ [r]) target).filterMap (exclOf pol now) := by
    rw [project_eq] at hc
    obtain ⟨_, _, _, _, _, _, rfl⟩ := projectCands_some hc
    exact collect_excluded ..
  rw [ea, ec]
  unfold rowsAbout
  by_cases hp : r.prop = target
  · simp only [List.filter_append, List.filterMap_append, hp, if_true]
    have : List.filter (fun r => r.prop == target) [r] = [r] := by simp [hp]
    rw [this]
    cases h : exclOf pol now r <;> simp [h]
  · simp [List.filter_append, hp]

-- ------------------------------------------------------------------------------------------
-- an exact repetition changes nothing at all
-- ------------------------------------------------------------------------------------------

theorem filter_eq_singleton {α : Type} {R : α → α → Prop} {p : α → Bool} {a : α} :
    ∀ {l : List α}, a ∈ l → p a = true → (∀ b ∈ l, p b = true → b = a) → l.Pairwise R → ¬ R a a →
      l.filter p = [a]
  | [], h, _, _, _, _ => by cases h
  | x :: xs, hmem, hp, huniq, hpair, hirr => by
    rw [List.pairwise_cons] at hpair
    by_cases hx : x = a
    · subst hx
      have : xs.filter p = [] := by
        rw [List.filter_eq_nil_iff]
        intro b hb hpb
        have : b = x := huniq b (List.mem_cons_of_mem _ hb) (by simpa using hpb)
        subst this
        exact hirr (hpair.1 b hb)
      simp [hp, this]
    · have hpx : p x = false := by
        by_contra h
        exact hx (huniq x List.mem_cons_self (by simpa using h))
      have hmem' : a ∈ xs := by
        rcases List.mem_cons.1 hmem with h | h
        · exact absurd h.symm hx
        · exact h
      rw [List.filter_cons, hpx]
      simp only [Bool.false_eq_true, if_false]
      exact filter_eq_singleton hmem' hp (fun b hb => huniq b (List.mem_cons_of_mem _ hb)) hpair.2 hirr

/-- A candidate whose keys are all keys of one earlier candidate touches exactly the group of that
candidate, whose confidence is at least the earlier candidate's. -/
theorem hitsOf_of_subkeys {side : List Cand} {c' : Cand} (hc' : c' ∈ side) {keys : List Key}
    (hne : keys ≠ []) (hsub : ∀ k ∈ keys, k ∈ c'.keys) :
    ∃ g, hitsOf keys (groupsSpec [] side) = [g] ∧ c'.conf ≤ g.2 := by
  obtain ⟨hdisj, hcov, htog, hmax⟩ := groupsSpec_components side
  -- the group of the earlier candidate's actor key
  have hk0 : c'.actor ∈ c'.keys := by simp [Cand.keys]
  obtain ⟨g, hg, hk0g⟩ := (hcov c'.actor).2 ⟨c', hc', hk0⟩
  have hall : ∀ k ∈ c'.keys, k ∈ g.1 := by
    intro k hk
    obtain ⟨g', hg', h1, h2⟩ := (htog c'.actor k).2
      ⟨⟨c', hc', hk0⟩, Relation.ReflTransGen.single ⟨c', hc', hk0, hk⟩⟩
    by_cases hgg : g' = g
    · rw [← hgg]; exact h2
    · have : Std.Symm (fun g h : Group => ∀ k, k ∈ g.1 → k ∉ h.1) :=
        ⟨fun _ _ h k hk hk' => h k hk' hk⟩
      exact absurd hk0g (List.Pairwise.forall (R := fun g h : Group => ∀ k, k ∈ g.1 → k ∉ h.1) hdisj hg' hg hgg _ h1)
  obtain ⟨k1, hk1⟩ := List.exists_mem_of_ne_nil keys hne
  refine ⟨g, ?_, (hmax g hg).2 c' hc' ⟨c'.actor, hk0, hk0g⟩⟩
  unfold hitsOf
  refine filter_eq_singleton (R := fun g h : Group => ∀ k, k ∈ g.1 → k ∉ h.1) hg ?_ ?_ hdisj ?_
  · exact overlaps_iff.2 ⟨k1, hall k1 (hsub k1 hk1), hk1⟩
  · intro h hh hhit
    obtain ⟨k, hkh, hkk⟩ := overlaps_iff.1 hhit
    by_contra hne'
    have : Std.Symm (fun g h : Group => ∀ k, k ∈ g.1 → k ∉ h.1) :=
      ⟨fun _ _ h k hk hk' => h k hk' hk⟩
    exact (List.Pairwise.forall (R := fun g h : Group => ∀ k, k ∈ g.1 → k ∉ h.1) hdisj hh hg hne' k hkh)
      (hall k (hsub k hkk))
  · intro hirr
    exact hirr _ hk0g hk0g

/-- **An exact repetition changes nothing**: one more candidate whose keys are all keys of an
earlier candidate of its side and which is not more confident leaves both sides' (score, groups)
exactly as they were, wherever it is recorded. -/
theorem aggregate_duplicate (den : Nat) (cands : List Cand) (c : Cand) (opposing : Bool)
    (hside : onSide opposing c = true) {c' : Cand} (hc' : c' ∈ cands) (hside' : onSide opposing c' = true)
    (hsub : ∀ k ∈ c.keys, k ∈ c'.keys) (hconf : c.conf ≤ c'.conf)
    {cands' : List Cand} (hperm : cands'.Perm (cands ++ [c])) (o : Bool) :
    aggregate den cands' o = aggregate den cands o := by
  have hne : c.keys ≠ [] := by simp [Cand.keys]
  have hk : c.actor ∈ c.keys := by simp [Cand.keys]
  obtain ⟨s, g, s', g', h1, h2, h3, _, _, h6, _⟩ :=
    aggregate_repetition den cands c opposing hside ⟨c', hc', hside', c.actor, hsub _ hk, hk⟩ hperm
  obtain ⟨grp, hone, hle⟩ := hitsOf_of_subkeys (side := cands.filter (onSide opposing))
    (List.mem_filter.2 ⟨hc', hside'⟩) hne hsub
  obtain ⟨hs, hg⟩ := h6 grp hone (hconf.trans hle)
  by_cases ho : o = opposing
  · subst ho; rw [h1, h2, hs, hg]
  · have : o = !opposing := by cases o <;> cases opposing <;> simp_all
    subst this; exact h3

/-- The same on stored rows: an exact repetition about the target leaves status, scores and group
counts exactly as they were. -/
theorem project_duplicate (pol : Policy) (now : Nat) (rows : List Row) (r : Row) (functional : Bool)
    (slot : List Nat) (target : Nat) (hr : r.prop = target) {c : Cand} (hc : candOf pol now r = some c)
    (opposing : Bool) (hside : onSide opposing c = true)
    {c' : Cand} (hc' : c' ∈ (collect pol now rows target (rivalsOf functional slot target)).2)
    (hside' : onSide opposing c' = true) (hsub : ∀ k ∈ c.keys, k ∈ c'.keys) (hconf : c.conf ≤ c'.conf)
    {rows' : List Row} (hperm : rows'.Perm (rows ++ [r])) :
    ∃ a b, project pol now rows functional slot target = some a ∧
      project pol now rows' functional slot target = some b ∧
      a.status = b.status ∧ a.support = b.support ∧ a.supportGroups = b.supportGroups ∧
      a.opposition = b.opposition ∧ a.oppositionGroups = b.oppositionGroups := by
  obtain ⟨a, ha⟩ := project_total pol now rows functional slot target
  obtain ⟨b, m, hb, hm, same⟩ := project_perm pol now hperm functional slot target
  refine ⟨a, b, ha, hb, ?_⟩
  rw [same.status, same.support, same.supportGroups, same.opposition, same.oppositionGroups]
  rw [project_eq] at ha hm
  obtain ⟨hp, hu⟩ := collect_append_target pol now rows r target (rivalsOf functional slot target) hr
    (rivalsOf_not_mem functional slot target) hc
  have hnu : c.stance ≠ .uncertain := by
    intro h; cases opposing <;> simp [onSide, h] at hside
    · have := (eligible_id (pol := pol) (now := now) (r := r) (c := c) (by
        unfold candOf at hc; cases he : eligible pol now r <;> simp_all)).2.2.1
      simp_all
  rw [if_neg hnu, List.append_nil] at hu
  have hagg := fun o => aggregate_duplicate pol.den _ c opposing hside hc' hside' hsub hconf hp o
  obtain ⟨sup, sg, opp, og, h1, h2, rfl⟩ := projectCands_some ha
  obtain ⟨sup', sg', opp', og', h1', h2', rfl⟩ := projectCands_some hm
  rw [hagg false, h1] at h1'; rw [hagg true, h2] at h2'
  cases h1'; cases h2'
  simp [hu]

/-- Projection over the rows that are eligible at an evaluation point (the bridge other properties
use: a historical read supplies the rows that were current at a coordinate). -/
def projectAt (pol : Policy) (now : Nat) (snapshot : List Row) (functional : Bool) (slot : List Nat)
    (target : Nat) : Option Answer :=
  project pol now (snapshot.filter (isEligible pol now)) functional slot target

end AndaVerif.Belief
