import AndaVerif.Model.Schema
/-
Induction principles for the nested inductives of `Model/Schema.lean` and the small facts about the
"compiled" checker / rewriter lists (`validators`, `normalizers`, …) every later proof starts from.
-/
namespace AndaVerif.Schema

theorem FieldType.ind {P : FieldType → Prop}
    (hbool : P .bool) (hi64 : P .i64) (hu64 : P .u64) (hf64 : P .f64) (hf32 : P .f32)
    (hbytes : P .bytes) (htext : P .text) (hjson : P .json) (hvector : P .vector)
    (harray : ∀ ts, (∀ t ∈ ts, P t) → P (.array ts))
    (hmap : ∀ kts, (∀ kt ∈ kts, P kt.2) → P (.map kts))
    (hopt : ∀ t, P t → P (.option t)) : ∀ t, P t := by
  intro t
  refine FieldType.rec (motive_1 := P) (motive_2 := fun ts => ∀ t ∈ ts, P t)
    (motive_3 := fun kts => ∀ kt ∈ kts, P kt.2) (motive_4 := fun kt => P kt.2)
    hbool hi64 hu64 hf64 hf32 hbytes htext hjson hvector
    (fun ts ih => harray ts ih) (fun kts ih => hmap kts ih) (fun t ih => hopt t ih)
    ?_ ?_ ?_ ?_ ?_ t
  · intro t h; cases h
  · intro t ts iht ihts x hx
    cases hx with
    | head => exact iht
    | tail _ h => exact ihts x h
  · intro t h; cases h
  · intro kt kts ihkt ihkts x hx
    cases hx with
    | head => exact ihkt
    | tail _ h => exact ihkts x h
  · intro k t ih; exact ih

theorem FieldValue.ind {P : FieldValue → Prop}
    (hbool : ∀ b, P (.bool b)) (hi64 : ∀ i, P (.i64 i)) (hu64 : ∀ n, P (.u64 n))
    (hf64 : ∀ d, P (.f64 d)) (hf32 : ∀ x, P (.f32 x)) (hbytes : ∀ b, P (.bytes b))
    (htext : ∀ s, P (.text s)) (hjson : ∀ j, P (.json j)) (hvector : ∀ bs, P (.vector bs))
    (harray : ∀ vs, (∀ v ∈ vs, P v) → P (.array vs))
    (hmap : ∀ kvs, (∀ kv ∈ kvs, P kv.2) → P (.map kvs))
    (hnull : P .null) : ∀ v, P v := by
  intro v
  refine FieldValue.rec (motive_1 := P) (motive_2 := fun vs => ∀ v ∈ vs, P v)
    (motive_3 := fun kvs => ∀ kv ∈ kvs, P kv.2) (motive_4 := fun kv => P kv.2)
    hbool hi64 hu64 hf64 hf32 hbytes htext hjson hvector
    (fun vs ih => harray vs ih) (fun kvs ih => hmap kvs ih) hnull
    ?_ ?_ ?_ ?_ ?_ v
  · intro t h; cases h
  · intro t ts iht ihts x hx
    cases hx with
    | head => exact iht
    | tail _ h => exact ihts x h
  · intro t h; cases h
  · intro kt kts ihkt ihkts x hx
    cases hx with
    | head => exact ihkt
    | tail _ h => exact ihkts x h
  · intro k t ih; exact ih

theorem Json.ind {P : Json → Prop}
    (hnull : P .null) (hbool : ∀ b, P (.bool b)) (huint : ∀ n, P (.uint n)) (hnint : ∀ i, P (.nint i))
    (hfloat : ∀ d, P (.float d)) (hstr : ∀ s, P (.str s))
    (harr : ∀ xs, (∀ x ∈ xs, P x) → P (.arr xs))
    (hobj : ∀ kvs, (∀ kv ∈ kvs, P kv.2) → P (.obj kvs)) : ∀ j, P j := by
  intro j
  refine Json.rec (motive_1 := P) (motive_2 := fun xs => ∀ x ∈ xs, P x)
    (motive_3 := fun kvs => ∀ kv ∈ kvs, P kv.2) (motive_4 := fun kv => P kv.2)
    hnull hbool huint hnint hfloat hstr (fun xs ih => harr xs ih) (fun kvs ih => hobj kvs ih)
    ?_ ?_ ?_ ?_ ?_ j
  · intro t h; cases h
  · intro t ts iht ihts x hx
    cases hx with
    | head => exact iht
    | tail _ h => exact ihts x h
  · intro t h; cases h
  · intro kt kts ihkt ihkts x hx
    cases hx with
    | head => exact ihkt
    | tail _ h => exact ihkts x h
  · intro k t ih; exact ih

/-! ### the compiled lists are maps -/

theorem validators_eq (fm : FloatModel) (ts : List FieldType) :
    validators fm ts = ts.map (validateInner fm) := by
  induction ts with
  | nil => simp [validators]
  | cons t ts ih => simp [validators, ih]

theorem keyValidators_eq (fm : FloatModel) (kts : List (FieldKey × FieldType)) :
    keyValidators fm kts = kts.map (fun kt => (kt.1, validateInner fm kt.2)) := by
  induction kts with
  | nil => simp [keyValidators]
  | cons kt kts ih => obtain ⟨k, t⟩ := kt; simp [keyValidators, ih]

theorem normalizers_eq (fm : FloatModel) (ts : List FieldType) :
    normalizers fm ts = ts.map (normalize fm) := by
  induction ts with
  | nil => simp [normalizers]
  | cons t ts ih => simp [normalizers, ih]

theorem keyNormalizers_eq (fm : FloatModel) (kts : List (FieldKey × FieldType)) :
    keyNormalizers fm kts = kts.map (fun kt => (kt.1, normalize fm kt.2)) := by
  induction kts with
  | nil => simp [keyNormalizers]
  | cons kt kts ih => obtain ⟨k, t⟩ := kt; simp [keyNormalizers, ih]

theorem pruners_eq (ts : List FieldType) : pruners ts = ts.map prune := by
  induction ts with
  | nil => simp [pruners]
  | cons t ts ih => simp [pruners, ih]

theorem keyPruners_eq (kts : List (FieldKey × FieldType)) :
    keyPruners kts = kts.map (fun kt => (kt.1, prune kt.2)) := by
  induction kts with
  | nil => simp [keyPruners]
  | cons kt kts ih => obtain ⟨k, t⟩ := kt; simp [keyPruners, ih]

/-- `as_wildcard_map` only looks at the keys. -/
theorem asWildcard_map {α β : Type} (f : α → β) (kts : List (FieldKey × α)) :
    asWildcard (kts.map (fun kt => (kt.1, f kt.2))) = (asWildcard kts).map (fun kt => (kt.1, f kt.2)) := by
  match kts with
  | [] => simp [asWildcard]
  | [(k, t)] => by_cases h : isWildcardKey k <;> simp [asWildcard, h]
  | _ :: _ :: _ => simp [asWildcard]

theorem asWildcard_some {α : Type} {kts : List (FieldKey × α)} {w : FieldKey} {t : α}
    (h : asWildcard kts = some (w, t)) : kts = [(w, t)] ∧ isWildcardKey w = true := by
  match kts, h with
  | [(k, t')], h =>
    by_cases hk : isWildcardKey k
    · simp [asWildcard, hk] at h; obtain ⟨rfl, rfl⟩ := h; exact ⟨rfl, hk⟩
    · simp [asWildcard, hk] at h
  | [], h => simp [asWildcard] at h
  | _ :: _ :: _, h => simp [asWildcard] at h

theorem lookup_map_snd {α β : Type} (f : α → β) (kts : List (FieldKey × α)) (k : FieldKey) :
    (kts.map (fun kt => (kt.1, f kt.2))).lookup k = (kts.lookup k).map f := by
  induction kts with
  | nil => simp
  | cons kt kts ih =>
    obtain ⟨k', t⟩ := kt
    simp only [List.map_cons, List.lookup_cons]
    cases h : (k == k') <;> simp [ih]

end AndaVerif.Schema
