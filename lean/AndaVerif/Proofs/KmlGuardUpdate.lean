import AndaVerif.Proofs.KmlGuardBasic
/-
C16 helper lemmas, part 3: `guard_update`.
-/
namespace AndaVerif.KmlGuard

open AndaVerif.Gen

/-! `bound_kinds_of` collects every kind binding of the target -/

theorem mem_pushKind {k k' : BoundKind} {kinds : List BoundKind} :
    k ∈ pushKind k' kinds ↔ k ∈ kinds ∨ k = k' := by
  unfold pushKind
  split
  · rename_i hc
    have hc' : k' ∈ kinds := by simpa using hc
    constructor
    · intro h; exact Or.inl h
    · rintro (h | rfl)
      · exact h
      · exact hc'
  · simp

mutual
theorem WhereClause.mem_boundKinds (x : String) (k : BoundKind) :
    ∀ (w : WhereClause) (kinds : List BoundKind), k ∈ w.boundKinds x kinds ↔ k ∈ kinds ∨ k ∈ w.kindBindings x
  | .concept v _, kinds => by
    simp only [WhereClause.boundKinds, WhereClause.kindBindings]; split <;> simp [mem_pushKind]
  | .assertion v _, kinds => by
    simp only [WhereClause.boundKinds, WhereClause.kindBindings]; split <;> simp [mem_pushKind]
  | .evidence v _, kinds => by
    simp only [WhereClause.boundKinds, WhereClause.kindBindings]; split <;> simp [mem_pushKind]
  | .activity v _, kinds => by
    simp only [WhereClause.boundKinds, WhereClause.kindBindings]; split <;> simp [mem_pushKind]
  | .proposition (some v) _, kinds => by
    simp only [WhereClause.boundKinds, WhereClause.kindBindings]; split <;> simp [mem_pushKind]
  | .proposition none _, kinds => by simp [WhereClause.boundKinds, WhereClause.kindBindings]
  | .not ws, kinds => by
    simp only [WhereClause.boundKinds, WhereClause.kindBindings]; exact WhereList.mem_boundKinds x k ws kinds
  | .optional ws, kinds => by
    simp only [WhereClause.boundKinds, WhereClause.kindBindings]; exact WhereList.mem_boundKinds x k ws kinds
  | .union ws, kinds => by
    simp only [WhereClause.boundKinds, WhereClause.kindBindings]; exact WhereList.mem_boundKinds x k ws kinds
  | .structural _ _ _, kinds => by simp [WhereClause.boundKinds, WhereClause.kindBindings]
  | .belief _ _, kinds => by simp [WhereClause.boundKinds, WhereClause.kindBindings]
  | .beliefSlot _ _ _, kinds => by simp [WhereClause.boundKinds, WhereClause.kindBindings]
  | .filter, kinds => by simp [WhereClause.boundKinds, WhereClause.kindBindings]
theorem WhereList.mem_boundKinds (x : String) (k : BoundKind) :
    ∀ (ws : WhereList) (kinds : List BoundKind), k ∈ ws.boundKinds x kinds ↔ k ∈ kinds ∨ k ∈ ws.kindBindings x
  | .nil, kinds => by simp [WhereList.boundKinds, WhereList.kindBindings]
  | .cons w t, kinds => by
    simp only [WhereList.boundKinds, WhereList.kindBindings, List.mem_append]
    rw [WhereList.mem_boundKinds x k t, WhereClause.mem_boundKinds x k w]
    exact or_assoc
end

theorem guardKinds_ok (actions : List UpdateAction) : ∀ ks : List BoundKind, guardKinds actions ks = .ok () →
    ∀ k ∈ ks, guardActions (some k) actions = .ok () := by
  intro ks
  induction ks with
  | nil => intro _ k hk; cases hk
  | cons x xs ih =>
    intro h k hk
    unfold guardKinds at h
    split at h
    · cases h
    · rename_i u hx
      cases u
      rcases List.mem_cons.mp hk with rfl | hk
      · exact hx
      · exact ih h k hk

/-! the first loop of `guard_update` -/

theorem guardImmutableFields_ok (k : BoundKind) : ∀ ks : List String,
    guardImmutableFields (some k) ks = .ok () → ∀ key ∈ ks, key ∉ payloadOf k := by
  intro ks
  induction ks with
  | nil => intro _ key hk; cases hk
  | cons x xs ih =>
    intro h key hk
    unfold guardImmutableFields at h
    split at h
    · cases h
    · rename_i u hx
      cases u
      rcases List.mem_cons.mp hk with rfl | hk
      · simp only [guardImmutableField] at hx
        split at hx
        · cases hx
        · rename_i hc
          have : payloadOf k = immutableOf k := by cases k <;> rfl
          rw [this]
          simpa using hc
      · exact ih h key hk

theorem guardStructural_ok {k : BoundKind} (h : guardStructuralMutation (some k) = .ok ()) : k = .concept := by
  cases k <;> simp [guardStructuralMutation] at h ⊢

theorem guardActions_ok (k : BoundKind) : ∀ as : List UpdateAction, guardActions (some k) as = .ok () →
    (∀ a ∈ as, ∀ key ∈ a.fieldKeys, key ∉ payloadOf k) ∧ (k ≠ .concept → ∀ a ∈ as, a.isStructural = false) := by
  intro as
  induction as with
  | nil =>
    intro _
    refine ⟨?_, ?_⟩
    · intro a ha; cases ha
    · intro _ a ha; cases ha
  | cons x xs ih =>
    intro h
    unfold guardActions at h
    simp only at h
    split at h
    · cases h
    · rename_i u hx
      cases u
      obtain ⟨i1, i2⟩ := ih h
      refine ⟨?_, ?_⟩
      · intro a ha key hkey
        rcases List.mem_cons.mp ha with rfl | ha
        · cases a <;> simp [UpdateAction.fieldKeys] at hkey
          rename_i asg
          exact guardImmutableFields_ok k _ hx key (by simpa [assignKeys] using hkey)
        · exact i1 a ha key hkey
      · intro hk a ha
        rcases List.mem_cons.mp ha with rfl | ha
        · cases a <;> simp [UpdateAction.isStructural]
          · exact hk (guardStructural_ok hx)
          · exact hk (guardStructural_ok hx)
        · exact i2 hk a ha

/-! own-field reads -/

mutual
theorem BoundValue.anyLeaf_paths (pv : String → Bool) : ∀ v : BoundValue, v.anyLeaf never pv = v.paths.any pv
  | .value _ => by simp [BoundValue.anyLeaf, BoundValue.paths]
  | .param _ => by simp [BoundValue.anyLeaf, BoundValue.paths]
  | .handle _ => by simp [BoundValue.anyLeaf, BoundValue.paths, never]
  | .var _ => by simp [BoundValue.anyLeaf, BoundValue.paths]
  | .arr items => by simp only [BoundValue.anyLeaf, BoundValue.paths]; exact BoundList.anyLeaf_paths pv items
  | .obj fields => by simp only [BoundValue.anyLeaf, BoundValue.paths]; exact BoundFields.anyLeaf_paths pv fields
theorem BoundList.anyLeaf_paths (pv : String → Bool) : ∀ l : BoundList, l.anyLeaf never pv = l.paths.any pv
  | .nil => by simp [BoundList.anyLeaf, BoundList.paths]
  | .cons v t => by
    simp only [BoundList.anyLeaf, BoundList.paths, List.any_append]
    rw [BoundValue.anyLeaf_paths pv v, BoundList.anyLeaf_paths pv t]
theorem BoundFields.anyLeaf_paths (pv : String → Bool) : ∀ l : BoundFields, l.anyLeaf never pv = l.paths.any pv
  | .nil => by simp [BoundFields.anyLeaf, BoundFields.paths]
  | .cons _ v t => by
    simp only [BoundFields.anyLeaf, BoundFields.paths, List.any_append]
    rw [BoundValue.anyLeaf_paths pv v, BoundFields.anyLeaf_paths pv t]
end

mutual
theorem UpdateExpr.anyRead_paths (pv : String → Bool) : ∀ e : UpdateExpr, e.anyRead pv = e.paths.any pv
  | .var _ => by simp [UpdateExpr.anyRead, UpdateExpr.paths]
  | .num _ => by simp [UpdateExpr.anyRead, UpdateExpr.paths]
  | .param _ => by simp [UpdateExpr.anyRead, UpdateExpr.paths]
  | .func _ args => by simp only [UpdateExpr.anyRead, UpdateExpr.paths]; exact ExprList.anyRead_paths pv args
theorem ExprList.anyRead_paths (pv : String → Bool) : ∀ l : ExprList, l.anyRead pv = l.paths.any pv
  | .nil => by simp [ExprList.anyRead, ExprList.paths]
  | .cons e t => by
    simp only [ExprList.anyRead, ExprList.paths, List.any_append]
    rw [UpdateExpr.anyRead_paths pv e, ExprList.anyRead_paths pv t]
end

theorem MutationValue.anyLeaf_paths (pv : String → Bool) (v : MutationValue) : v.anyLeaf never pv = v.paths.any pv := by
  cases v with
  | value _ => simp [MutationValue.anyLeaf, MutationValue.paths]
  | param _ => simp [MutationValue.anyLeaf, MutationValue.paths]
  | handle _ => simp [MutationValue.anyLeaf, MutationValue.paths, never]
  | var _ => simp [MutationValue.anyLeaf, MutationValue.paths]
  | arr items => simp only [MutationValue.anyLeaf, MutationValue.paths]; exact BoundList.anyLeaf_paths pv items
  | obj fields => simp only [MutationValue.anyLeaf, MutationValue.paths]; exact BoundFields.anyLeaf_paths pv fields
  | expr e => simp only [MutationValue.anyLeaf, MutationValue.paths]; exact UpdateExpr.anyRead_paths pv e

theorem assignmentPaths_mem {a : Assignments} {v : MutationValue} (hv : v ∈ assignValues a) :
    ∀ p ∈ v.paths, p ∈ assignmentPaths a := by
  induction a with
  | nil => simp [assignValues] at hv
  | cons kv rest ih =>
    obtain ⟨k, w⟩ := kv
    intro p hp
    simp only [assignValues, List.map_cons, List.mem_cons] at hv
    simp only [assignmentPaths, List.mem_append]
    rcases hv with rfl | hv
    · exact Or.inl hp
    · exact Or.inr (ih (by simpa [assignValues] using hv) p hp)

theorem edgePaths_mem {es : List StructuralEdge} {e : StructuralEdge} (he : e ∈ es) :
    ∀ p ∈ e.value.paths, p ∈ edgePaths es := by
  induction es with
  | nil => cases he
  | cons x xs ih =>
    intro p hp
    simp only [edgePaths, List.mem_append]
    rcases List.mem_cons.mp he with rfl | he
    · exact Or.inl hp
    · exact Or.inr (ih he p hp)

theorem removalPaths_mem {rs : List StructuralRemoval} {r : StructuralRemoval} (hr : r ∈ rs) :
    ∀ p ∈ r.value.paths, p ∈ removalPaths rs := by
  induction rs with
  | nil => cases hr
  | cons x xs ih =>
    intro p hp
    simp only [removalPaths, List.mem_append]
    rcases List.mem_cons.mp hr with rfl | hr
    · exact Or.inl hp
    · exact Or.inr (ih hr p hp)

theorem action_paths_mem {a : UpdateAction} {v : MutationValue} (hv : v ∈ a.values) : ∀ p ∈ v.paths, p ∈ a.paths := by
  intro p hp
  cases a with
  | setFields asg => exact assignmentPaths_mem (by simpa [UpdateAction.values] using hv) p hp
  | setAttributes asg => exact assignmentPaths_mem (by simpa [UpdateAction.values] using hv) p hp
  | setFacet f => exact assignmentPaths_mem (by simpa [UpdateAction.values] using hv) p hp
  | unsetAttributes _ => simp [UpdateAction.values] at hv
  | unsetFacet _ => simp [UpdateAction.values] at hv
  | setStructural es =>
    simp only [UpdateAction.values, List.mem_map] at hv
    obtain ⟨e, he, rfl⟩ := hv
    exact edgePaths_mem he p hp
  | unsetStructural rs =>
    simp only [UpdateAction.values, List.mem_map] at hv
    obtain ⟨r, hr, rfl⟩ := hv
    exact removalPaths_mem hr p hp

theorem actionsPaths_mem {as : List UpdateAction} {a : UpdateAction} (ha : a ∈ as) : ∀ p ∈ a.paths, p ∈ actionsPaths as := by
  induction as with
  | nil => cases ha
  | cons x xs ih =>
    intro p hp
    simp only [actionsPaths, List.mem_append]
    rcases List.mem_cons.mp ha with rfl | ha
    · exact Or.inl hp
    · exact Or.inr (ih ha p hp)

theorem guardUpdate_split {u : UpdateStatement} (h : guardUpdate u = .ok ()) :
    guardKinds u.actions (updateKinds u) = .ok () ∧
      ∀ x, u.target = .handle x → (actionsPaths u.actions).any (fun p => p != x) = false := by
  unfold guardUpdate at h
  split at h
  · cases h
  · rename_i un hg
    cases un
    refine ⟨hg, ?_⟩
    intro x hx
    rw [hx] at h
    simp only [targetVar] at h
    split at h
    · cases h
    · rename_i hh
      simpa using hh

theorem validateUpdate_safe {u : UpdateStatement} (h : validateUpdate u = .ok ()) : UpdateSafe u := by
  simp only [validateUpdate, andThen_ok] at h
  obtain ⟨hacts, hrest⟩ := h
  split at hrest
  · cases hrest
  · rename_i hne
    obtain ⟨hg, hpaths⟩ := guardUpdate_split hrest
    refine ⟨?_, ?_, ?_, ?_⟩
    · intro he
      exact hne (by simp [he])
    · intro a ha hempty
      have := validateActions_all _ hacts a ha
      rw [hempty] at this
      simp [actionCheck] at this
    · intro x ws k hx hws hk
      have hkind : k ∈ updateKinds u := by
        simp only [updateKinds, hx, hws, targetVar]
        exact (WhereList.mem_boundKinds x k ws []).mpr (Or.inr hk)
      exact guardActions_ok k _ (guardKinds_ok _ _ hg k hkind)
    · intro x hx a ha v hv
      have hall := hpaths x hx
      simp only [MutationValue.readsOther, MutationValue.anyLeaf_paths]
      rw [List.any_eq_false] at hall ⊢
      intro p hp
      exact hall p (actionsPaths_mem ha p (action_paths_mem hv p hp))

end AndaVerif.KmlGuard
