import AndaVerif.Proofs.BeliefMerge
import Mathlib.Data.Finset.Basic
import Mathlib.Data.Finset.Dedup
import Mathlib.Data.List.Perm.Basic
import Mathlib.Algebra.BigOperators.Group.List.Basic
/-
Order independence of the grouping loop.

A group is abstracted to (its *set* of keys, its strongest confidence); a list of groups to that
list up to permutation. On that abstraction one loop iteration is `aadd` (merge everything the
candidate touches), `aadd` respects permutations (`aadd_congr`) and two iterations commute
(`aadd_swap`) — with no invariant needed, because "the second candidate touches the group the
first one built" is symmetric in the two candidates. Permutation invariance of the whole fold
follows by induction on `List.Perm`.
-/
namespace AndaVerif.Belief

/-- Abstract group: key set and strongest confidence. -/
abbrev AG := Finset Key × Int

def absG (g : Group) : AG := (g.1.toFinset, g.2)

def ahit (K : Finset Key) (g : AG) : Bool := decide (¬ Disjoint g.1 K)

def unionAll (L : List AG) : Finset Key := L.foldr (fun g s => g.1 ∪ s) ∅

def amax (c : Int) (L : List AG) : Int := L.foldr (fun g m => max g.2 m) c

/-- One loop iteration on the abstraction. -/
def aadd (K : Finset Key) (c : Int) (M : List AG) : List AG :=
  (K ∪ unionAll (M.filter (ahit K)), amax c (M.filter (ahit K))) :: M.filter (fun g => !ahit K g)

theorem mem_unionAll {L : List AG} {k : Key} : k ∈ unionAll L ↔ ∃ g ∈ L, k ∈ g.1 := by
  induction L with
  | nil => simp [unionAll]
  | cons g L ih =>
    have : unionAll (g :: L) = g.1 ∪ unionAll L := rfl
    rw [this, Finset.mem_union, ih]
    simp

theorem amax_le_iff {L : List AG} {c x : Int} : amax c L ≤ x ↔ c ≤ x ∧ ∀ g ∈ L, g.2 ≤ x := by
  induction L with
  | nil => simp [amax]
  | cons g L ih =>
    have : amax c (g :: L) = max g.2 (amax c L) := rfl
    rw [this, max_le_iff, ih]
    simp only [List.mem_cons, forall_eq_or_imp]
    tauto

theorem maxConf_le_iff {L : List Group} {c x : Int} : maxConf c L ≤ x ↔ c ≤ x ∧ ∀ g ∈ L, g.2 ≤ x := by
  induction L generalizing c with
  | nil => simp [maxConf]
  | cons g L ih =>
    have : maxConf c (g :: L) = maxConf (max c g.2) L := rfl
    rw [this, ih, max_le_iff]
    simp only [List.mem_cons, forall_eq_or_imp]
    tauto

theorem eq_of_le_iff {a b : Int} (h : ∀ x, a ≤ x ↔ b ≤ x) : a = b :=
  le_antisymm ((h b).2 le_rfl) ((h a).1 le_rfl)

theorem unionAll_perm {L L' : List AG} (h : L.Perm L') : unionAll L = unionAll L' := by
  ext k; rw [mem_unionAll, mem_unionAll]
  constructor <;> rintro ⟨g, hg, hk⟩
  · exact ⟨g, h.mem_iff.1 hg, hk⟩
  · exact ⟨g, h.mem_iff.2 hg, hk⟩

theorem amax_perm {L L' : List AG} (c : Int) (h : L.Perm L') : amax c L = amax c L' := by
  apply eq_of_le_iff; intro x
  rw [amax_le_iff, amax_le_iff]
  constructor <;> rintro ⟨hc, hall⟩ <;> refine ⟨hc, fun g hg => hall g ?_⟩
  · exact h.mem_iff.2 hg
  · exact h.mem_iff.1 hg

theorem overlaps_iff {g keys : List Key} : overlaps g keys = true ↔ ∃ k, k ∈ g ∧ k ∈ keys := by
  simp [overlaps, List.any_eq_true]

theorem ahit_absG (keys : List Key) (g : Group) : ahit keys.toFinset (absG g) = hit keys g := by
  rw [Bool.eq_iff_iff]
  simp only [ahit, absG, hit, decide_eq_true_eq, Finset.not_disjoint_iff, List.mem_toFinset, overlaps_iff]

theorem filter_map_absG (keys : List Key) (gs : List Group) :
    (gs.map absG).filter (ahit keys.toFinset) = (hitsOf keys gs).map absG := by
  rw [List.filter_map]; unfold hitsOf
  congr 1; apply List.filter_congr; intro g _; exact ahit_absG keys g

theorem filter_map_absG_not (keys : List Key) (gs : List Group) :
    (gs.map absG).filter (fun g => !ahit keys.toFinset g) = (missesOf keys gs).map absG := by
  rw [List.filter_map]; unfold missesOf
  congr 1; apply List.filter_congr; intro g _
  simp only [Function.comp, ahit_absG keys g]

theorem mem_flatKeys {gs : List Group} {k : Key} : k ∈ flatKeys gs ↔ ∃ g ∈ gs, k ∈ g.1 := by
  simp [flatKeys, List.mem_flatMap]

/-- One concrete iteration is one abstract iteration, up to a permutation of the groups. -/
theorem abs_addSpec (keys : List Key) (conf : Int) (gs : List Group) :
    ((addSpec keys conf gs).map absG).Perm (aadd keys.toFinset conf (gs.map absG)) := by
  induction gs with
  | nil => simp [addSpec, aadd, absG, unionAll, amax]
  | cons g gs ih =>
    unfold addSpec
    by_cases hh : hit keys g = true
    · have ha : ahit keys.toFinset (absG g) = true := by rw [ahit_absG]; exact hh
      simp only [hh, if_true, List.map_cons]
      unfold aadd
      simp only [List.filter_cons, ha, if_true, Bool.not_true, Bool.false_eq_true, if_false,
        filter_map_absG, filter_map_absG_not]
      have hkeys : (g.1 ++ keys ++ flatKeys (hitsOf keys gs)).toFinset =
          keys.toFinset ∪ unionAll (absG g :: (hitsOf keys gs).map absG) := by
        ext k
        simp only [List.toFinset_append, Finset.mem_union, List.mem_toFinset, mem_unionAll, mem_flatKeys,
          List.mem_cons, List.mem_map, absG]
        constructor
        · rintro ((h | h) | ⟨x, hx, hk⟩)
          · exact Or.inr ⟨_, Or.inl rfl, by simpa using h⟩
          · exact Or.inl h
          · exact Or.inr ⟨_, Or.inr ⟨x, hx, rfl⟩, by simpa using hk⟩
        · rintro (h | ⟨a, (rfl | ⟨x, hx, rfl⟩), hk⟩)
          · exact Or.inl (Or.inr h)
          · exact Or.inl (Or.inl (by simpa using hk))
          · exact Or.inr ⟨x, hx, by simpa using hk⟩
      have hconf : maxConf (max g.2 conf) (hitsOf keys gs) =
          amax conf (absG g :: (hitsOf keys gs).map absG) := by
        apply eq_of_le_iff; intro x
        rw [maxConf_le_iff, amax_le_iff, max_le_iff]
        simp only [List.mem_cons, List.mem_map, absG, forall_eq_or_imp]
        constructor
        · rintro ⟨⟨h1, h2⟩, h3⟩
          refine ⟨h2, h1, ?_⟩
          rintro a ⟨y, hy, rfl⟩; exact h3 y hy
        · rintro ⟨h2, h1, h3⟩
          exact ⟨⟨h1, h2⟩, fun y hy => h3 _ ⟨y, hy, rfl⟩⟩
      show List.Perm (absG _ :: _) _
      unfold absG at hkeys hconf ⊢
      simp only [hkeys, hconf]
      exact List.Perm.refl _
    · have hf : hit keys g = false := by simpa using hh
      have ha : ahit keys.toFinset (absG g) = false := by rw [ahit_absG]; exact hf
      simp only [hf, Bool.false_eq_true, if_false, List.map_cons]
      refine (List.Perm.cons _ ih).trans ?_
      unfold aadd
      simp only [List.filter_cons, ha, Bool.false_eq_true, if_false, Bool.not_false, if_true]
      exact List.Perm.swap _ _ _

theorem aadd_congr (K : Finset Key) (c : Int) {M M' : List AG} (h : M.Perm M') :
    (aadd K c M).Perm (aadd K c M') := by
  unfold aadd
  rw [unionAll_perm (h.filter _), amax_perm c (h.filter _)]
  exact List.Perm.cons _ (h.filter _)

-- ------------------------------------------------------------------------------------------
-- two iterations commute
-- ------------------------------------------------------------------------------------------

/-- The second candidate touches the group the first one built iff they share a key directly or
through a group both touch. -/
theorem ahit_merged (K1 K2 : Finset Key) (M : List AG) (m : Int) :
    ahit K2 (K1 ∪ unionAll (M.filter (ahit K1)), m) = true ↔
      (¬ Disjoint K1 K2) ∨ ∃ g ∈ M, ahit K1 g = true ∧ ahit K2 g = true := by
  simp only [ahit, decide_eq_true_eq, Finset.not_disjoint_iff, Finset.mem_union, mem_unionAll,
    List.mem_filter]
  constructor
  · rintro ⟨a, (h1 | ⟨g, ⟨hg, b, hb1, hb2⟩, hag⟩), h2⟩
    · exact Or.inl ⟨a, h1, h2⟩
    · exact Or.inr ⟨g, hg, ⟨b, hb1, hb2⟩, ⟨a, hag, h2⟩⟩
  · rintro (⟨a, h1, h2⟩ | ⟨g, hg, ⟨b, hb1, hb2⟩, ⟨a, ha1, ha2⟩⟩)
    · exact ⟨a, Or.inl h1, h2⟩
    · exact ⟨a, Or.inr ⟨g, ⟨hg, b, hb1, hb2⟩, ha1⟩, ha2⟩

theorem ahit_merged_symm (K1 K2 : Finset Key) (M : List AG) (m m' : Int) :
    ahit K2 (K1 ∪ unionAll (M.filter (ahit K1)), m) = ahit K1 (K2 ∪ unionAll (M.filter (ahit K2)), m') := by
  rw [Bool.eq_iff_iff, ahit_merged, ahit_merged, disjoint_comm]
  constructor <;> rintro (h | ⟨g, hg, h1, h2⟩)
  · exact Or.inl h
  · exact Or.inr ⟨g, hg, h2, h1⟩
  · exact Or.inl h
  · exact Or.inr ⟨g, hg, h2, h1⟩

/-- Canonical, symmetric form of two iterations when the second joins the first. -/
theorem aadd_aadd_joined (K1 K2 : Finset Key) (c1 c2 : Int) (M : List AG)
    (hj : ahit K2 (K1 ∪ unionAll (M.filter (ahit K1)), amax c1 (M.filter (ahit K1))) = true) :
    aadd K2 c2 (aadd K1 c1 M) =
      ((K1 ∪ K2) ∪ unionAll (M.filter (fun g => ahit K1 g || ahit K2 g)),
        amax (max c1 c2) (M.filter (fun g => ahit K1 g || ahit K2 g))) ::
      M.filter (fun g => !ahit K1 g && !ahit K2 g) := by
  unfold aadd
  simp only [List.filter_cons, hj, if_true, Bool.not_true, Bool.false_eq_true, if_false, List.filter_filter]
  congr 1
  · refine Prod.ext ?_ ?_
    · ext k
      simp only [Finset.mem_union, mem_unionAll, List.mem_cons, List.mem_filter, Bool.and_eq_true,
        Bool.or_eq_true, Bool.not_eq_true']
      constructor
      · rintro (h | ⟨g, (rfl | ⟨hg, h2, h1⟩), hk⟩)
        · exact Or.inl (Or.inr h)
        · simp only [Finset.mem_union, mem_unionAll, List.mem_filter] at hk
          rcases hk with hk | ⟨g, ⟨hg, h1⟩, hk⟩
          · exact Or.inl (Or.inl hk)
          · exact Or.inr ⟨g, ⟨hg, Or.inl h1⟩, hk⟩
        · exact Or.inr ⟨g, ⟨hg, Or.inr h2⟩, hk⟩
      · rintro ((h | h) | ⟨g, ⟨hg, h12⟩, hk⟩)
        · refine Or.inr ⟨_, Or.inl rfl, ?_⟩
          simp only [Finset.mem_union]; exact Or.inl h
        · exact Or.inl h
        · by_cases h1 : ahit K1 g = true
          · refine Or.inr ⟨_, Or.inl rfl, ?_⟩
            simp only [Finset.mem_union, mem_unionAll, List.mem_filter]
            exact Or.inr ⟨g, ⟨hg, h1⟩, hk⟩
          · have h2 : ahit K2 g = true := by rcases h12 with h | h; exact absurd h h1; exact h
            exact Or.inr ⟨g, Or.inr ⟨hg, h2, by simpa using h1⟩, hk⟩
    · apply eq_of_le_iff; intro x
      simp only [amax_le_iff, max_le_iff, List.mem_cons, List.mem_filter, forall_eq_or_imp, Bool.and_eq_true,
        Bool.or_eq_true, Bool.not_eq_true']
      constructor
      · rintro ⟨hc2, ⟨hc1, hH1⟩, hN⟩
        refine ⟨⟨hc1, hc2⟩, ?_⟩
        rintro g ⟨hg, h12⟩
        by_cases h1 : ahit K1 g = true
        · exact hH1 g ⟨hg, h1⟩
        · have h2 : ahit K2 g = true := by rcases h12 with h | h; exact absurd h h1; exact h
          exact hN g ⟨hg, h2, by simpa using h1⟩
      · rintro ⟨⟨hc1, hc2⟩, hB⟩
        exact ⟨hc2, ⟨hc1, fun g ⟨hg, h1⟩ => hB g ⟨hg, Or.inl h1⟩⟩,
          fun g ⟨hg, h2, _⟩ => hB g ⟨hg, Or.inr h2⟩⟩
  · apply List.filter_congr; intro g _
    cases ahit K1 g <;> cases ahit K2 g <;> rfl

/-- Two iterations when the second does not touch the group the first one built. -/
theorem aadd_aadd_apart (K1 K2 : Finset Key) (c1 c2 : Int) (M : List AG)
    (hj : ahit K2 (K1 ∪ unionAll (M.filter (ahit K1)), amax c1 (M.filter (ahit K1))) = false) :
    aadd K2 c2 (aadd K1 c1 M) =
      (K2 ∪ unionAll (M.filter (ahit K2)), amax c2 (M.filter (ahit K2))) ::
      (K1 ∪ unionAll (M.filter (ahit K1)), amax c1 (M.filter (ahit K1))) ::
      M.filter (fun g => !ahit K1 g && !ahit K2 g) := by
  have hno : ∀ g ∈ M, ahit K2 g = true → ahit K1 g = false := by
    intro g hg h2
    by_contra h1
    have h1 : ahit K1 g = true := by simpa using h1
    have := (ahit_merged K1 K2 M (amax c1 (M.filter (ahit K1)))).2 (Or.inr ⟨g, hg, h1, h2⟩)
    rw [hj] at this; exact Bool.false_ne_true this
  have hfilter : (M.filter (fun g => !ahit K1 g)).filter (ahit K2) = M.filter (ahit K2) := by
    rw [List.filter_filter]
    apply List.filter_congr; intro g hg
    by_cases h2 : ahit K2 g = true
    · simp [h2, hno g hg h2]
    · have : ahit K2 g = false := by simpa using h2
      simp [this]
  unfold aadd
  simp only [List.filter_cons, hj, Bool.false_eq_true, if_false, Bool.not_false, if_true, hfilter]
  congr 2
  rw [List.filter_filter]
  apply List.filter_congr; intro g _
  cases ahit K1 g <;> cases ahit K2 g <;> rfl

/-- **Two loop iterations commute** (on the abstraction, up to the order of the groups). -/
theorem aadd_swap (K1 K2 : Finset Key) (c1 c2 : Int) (M : List AG) :
    (aadd K2 c2 (aadd K1 c1 M)).Perm (aadd K1 c1 (aadd K2 c2 M)) := by
  have hsymm := ahit_merged_symm K1 K2 M (amax c1 (M.filter (ahit K1))) (amax c2 (M.filter (ahit K2)))
  cases hj : ahit K2 (K1 ∪ unionAll (M.filter (ahit K1)), amax c1 (M.filter (ahit K1)))
  · rw [aadd_aadd_apart K1 K2 c1 c2 M hj, aadd_aadd_apart K2 K1 c2 c1 M (by rw [← hsymm]; exact hj)]
    have : M.filter (fun g => !ahit K2 g && !ahit K1 g) = M.filter (fun g => !ahit K1 g && !ahit K2 g) := by
      apply List.filter_congr; intro g _; exact Bool.and_comm _ _
    rw [this]
    exact List.Perm.swap _ _ _
  · rw [aadd_aadd_joined K1 K2 c1 c2 M hj, aadd_aadd_joined K2 K1 c2 c1 M (by rw [← hsymm]; exact hj)]
    have h1 : M.filter (fun g => ahit K2 g || ahit K1 g) = M.filter (fun g => ahit K1 g || ahit K2 g) := by
      apply List.filter_congr; intro g _; exact Bool.or_comm _ _
    have h2 : M.filter (fun g => !ahit K2 g && !ahit K1 g) = M.filter (fun g => !ahit K1 g && !ahit K2 g) := by
      apply List.filter_congr; intro g _; exact Bool.and_comm _ _
    rw [h1, h2, Finset.union_comm K2 K1, max_comm c2 c1]

-- ------------------------------------------------------------------------------------------
-- the whole fold
-- ------------------------------------------------------------------------------------------

/-- A fold whose step respects an equivalence and commutes up to it is invariant, up to the
equivalence, under permutations of the input. -/
theorem foldl_perm_rel {α β : Type} (f : β → α → β) (R : β → β → Prop)
    (hrefl : ∀ x, R x x) (htrans : ∀ {x y z}, R x y → R y z → R x z)
    (hcongr : ∀ {x y} a, R x y → R (f x a) (f y a))
    (hswap : ∀ x a b, R (f (f x a) b) (f (f x b) a))
    {l₁ l₂ : List α} (h : l₁.Perm l₂) : ∀ {x y}, R x y → R (l₁.foldl f x) (l₂.foldl f y) := by
  have hsame : ∀ (l : List α) {x y}, R x y → R (l.foldl f x) (l.foldl f y) := by
    intro l
    induction l with
    | nil => intro x y h; exact h
    | cons a l ih => intro x y h; exact ih (hcongr a h)
  induction h with
  | nil => intro x y h; exact h
  | cons a _ ih => intro x y h; exact ih (hcongr a h)
  | swap a b l =>
    intro x y h
    simp only [List.foldl_cons]
    exact hsame l (htrans (hswap x b a) (hcongr b (hcongr a h)))
  | trans _ _ ih₁ ih₂ => intro x y h; exact htrans (ih₁ h) (ih₂ (hrefl y))

/-- The abstraction of the groups after a list of candidates. -/
def aGroups (M : List AG) (cands : List Cand) : List AG :=
  cands.foldl (fun M c => aadd c.keys.toFinset c.conf M) M

theorem aGroups_perm {c₁ c₂ : List Cand} (h : c₁.Perm c₂) {M M' : List AG} (hM : M.Perm M') :
    (aGroups M c₁).Perm (aGroups M' c₂) := by
  unfold aGroups
  exact foldl_perm_rel (α := Cand) (β := List AG) (fun M c => aadd c.keys.toFinset c.conf M)
    (fun a b => a.Perm b) (fun x => List.Perm.refl x) (fun h1 h2 => h1.trans h2)
    (fun c h => aadd_congr _ _ h) (fun M a b => aadd_swap _ _ _ _ M) h hM

theorem abs_groupsSpec (gs : List Group) (cands : List Cand) :
    ((groupsSpec gs cands).map absG).Perm (aGroups (gs.map absG) cands) := by
  induction cands generalizing gs with
  | nil => exact List.Perm.refl _
  | cons c rest ih =>
    have h1 := ih (addSpec c.keys c.conf gs)
    have h2 : (aGroups ((addSpec c.keys c.conf gs).map absG) rest).Perm
        (aGroups (aadd c.keys.toFinset c.conf (gs.map absG)) rest) :=
      aGroups_perm (List.Perm.refl rest) (abs_addSpec c.keys c.conf gs)
    exact h1.trans h2

/-- **Order independence of the grouping** on the abstraction: permuting the candidates permutes
the groups (as key sets with their maxima). -/
theorem groupsSpec_perm {c₁ c₂ : List Cand} (h : c₁.Perm c₂) :
    ((groupsSpec [] c₁).map absG).Perm ((groupsSpec [] c₂).map absG) := by
  exact (abs_groupsSpec [] c₁).trans
    ((aGroups_perm h (List.Perm.refl _)).trans (abs_groupsSpec [] c₂).symm)

/-- The complement product only depends on the multiset of group maxima. -/
theorem compProd_eq_listProd (den : Nat) (gs : List Group) :
    compProd den gs = ((gs.map (·.2)).map (factor den)).prod := by
  induction gs with
  | nil => rfl
  | cons g gs ih => rw [compProd_cons, ih]; simp

theorem scoreOf_of_perm (den : Nat) {g₁ g₂ : List Group} (h : (g₁.map absG).Perm (g₂.map absG)) :
    scoreOf den g₁ = scoreOf den g₂ ∧ g₁.length = g₂.length ∧ (g₁.map (·.2)).Perm (g₂.map (·.2)) := by
  have hlen : g₁.length = g₂.length := by simpa using h.length_eq
  have hconf : (g₁.map (·.2)).Perm (g₂.map (·.2)) := by
    have := h.map Prod.snd
    rw [List.map_map, List.map_map] at this
    exact this
  refine ⟨?_, hlen, hconf⟩
  unfold scoreOf
  rw [compProd_eq_listProd, compProd_eq_listProd, hlen, (hconf.map (factor den)).prod_eq]

/-- **`aggregate` does not depend on the order of the candidates.** -/
theorem aggregate_perm (den : Nat) {c₁ c₂ : List Cand} (h : c₁.Perm c₂) (opposing : Bool) :
    aggregate den c₁ opposing = aggregate den c₂ opposing := by
  rw [aggregate_eq, aggregate_eq]
  have hside := h.filter (onSide opposing)
  have hempty : (c₁.filter (onSide opposing)).isEmpty = (c₂.filter (onSide opposing)).isEmpty := by
    rw [Bool.eq_iff_iff, List.isEmpty_iff, List.isEmpty_iff]
    constructor <;> intro h0
    · exact List.Perm.eq_nil (h0 ▸ hside.symm)
    · exact List.Perm.eq_nil (h0 ▸ hside)
  obtain ⟨hs, hl, _⟩ := scoreOf_of_perm den (groupsSpec_perm hside)
  rw [hempty, hs, hl]

end AndaVerif.Belief
