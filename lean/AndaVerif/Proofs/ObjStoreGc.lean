import AndaVerif.Proofs.ObjStoreRun
/-
Garbage collection with no concurrent writer (at open, after a crash): nothing a commit point
references is ever deleted, every read is unchanged.
-/
namespace AndaVerif.ObjStore
open Gen.SidecarOrder

/-- the candidate loop body in the order read from the source -/
theorem gcCandidateStep_std (inflight : List (Path × Gen)) (be : Backend) (p : BPath) :
    gcCandidateStep inflight be p =
      if isInFlight inflight p then (be, 0)
      else if isReferenced be p then (be, 0)
      else (adel be p, if (aget be p).isSome then 1 else 0) := by
  unfold gcCandidateStep
  rw [gen_gc_candidate_order]
  simp only [List.foldl_cons, List.foldl_nil]
  by_cases h1 : isInFlight inflight p
  · simp [h1]
  · by_cases h2 : isReferenced be p
    · simp [h1, h2]
    · simp [h1, h2]

/-- the re-read of the commit point right before the delete: a payload that fails it is a payload
path that no commit point references -/
theorem unreferenced_of_not_isReferenced {be : Backend} {p : BPath} (h : isReferenced be p = false) :
    (∀ x, p ≠ .mt x) ∧ Unreferenced be p := by
  cases p with
  | mt k => simp [isReferenced] at h
  | gen k g =>
      refine ⟨by simp, ?_⟩
      intro x d hd heq
      obtain ⟨t, ht⟩ := docAt_eq_some hd
      cases hg : d.gen with
      | none => rw [hg] at heq; simp [payloadPath] at heq
      | some g' =>
          rw [hg] at heq
          simp only [payloadPath, BPath.gen.injEq] at heq
          obtain ⟨h1, h2⟩ := heq
          subst h1; subst h2
          simp [isReferenced, ht, hg] at h
  | data k =>
      refine ⟨by simp, ?_⟩
      intro x d hd heq
      obtain ⟨t, ht⟩ := docAt_eq_some hd
      cases hg : d.gen with
      | some g' => rw [hg] at heq; simp [payloadPath] at heq
      | none =>
          rw [hg] at heq
          simp only [payloadPath, BPath.data.injEq] at heq
          subst heq
          simp [isReferenced, ht, hg] at h

theorem gcCandidateStep_safe {be : Backend} {n : Nat} (h : BInv be n) (inflight : List (Path × Gen)) (p : BPath) :
    BInv (gcCandidateStep inflight be p).1 n ∧
    (∀ x, readCold (gcCandidateStep inflight be p).1 x = readCold be x) ∧
    (∀ x, docAt (gcCandidateStep inflight be p).1 x = docAt be x) := by
  rw [gcCandidateStep_std]
  by_cases h1 : isInFlight inflight p
  · simp [h1, h]
  · by_cases h2 : isReferenced be p
    · simp [h1, h2, h]
    · simp only [h1, h2]
      have h2' : isReferenced be p = false := by simpa using h2
      obtain ⟨hp, hu⟩ := unreferenced_of_not_isReferenced h2'
      exact ⟨h.delUnref p hp hu, readCold_adel_unref be p hp hu, docAt_adel_payload be p hp⟩

theorem gcSweep_safe {be : Backend} {n : Nat} (h : BInv be n) (inflight : List (Path × Gen)) (cands : List BPath) :
    BInv (gcSweep inflight be cands).1 n ∧
    (∀ x, readCold (gcSweep inflight be cands).1 x = readCold be x) ∧
    (∀ x, docAt (gcSweep inflight be cands).1 x = docAt be x) := by
  induction cands generalizing be with
  | nil => exact ⟨h, fun _ => rfl, fun _ => rfl⟩
  | cons p ps ih =>
      simp only [gcSweep]
      obtain ⟨h1, r1, d1⟩ := gcCandidateStep_safe h inflight p
      obtain ⟨h2, r2, d2⟩ := ih h1
      exact ⟨h2, fun x => by rw [r2 x, r1 x], fun x => by rw [d2 x, d1 x]⟩

/-- `collect_garbage` keeps the wrapper invariant (whatever the in-flight registry holds). -/
theorem gcRun_inv {w : W} (hw : WInv w) (now : Nat) : WInv (gcRun w now).1 := by
  obtain ⟨h1, _, d1⟩ := gcSweep_safe hw.be w.inflight (gcCandidates w.be now)
  refine ⟨h1, ?_⟩
  intro k d hk
  simp only [gcRun] at hk ⊢
  rw [d1 k]
  exact hw.cache k d hk

/-- ... and changes no read. -/
theorem gcRun_reads {w : W} (hw : WInv w) (now : Nat) (x : Path) :
    readCold (gcRun w now).1.be x = readCold w.be x :=
  (gcSweep_safe hw.be w.inflight (gcCandidates w.be now)).2.1 x


/-- a legacy object written behind the wrapper's back (any key, whatever it held before) -/
theorem legacyPut_inv {w : W} (hw : WInv w) (now : Nat) (k : Path) (data : Bytes) (tok : Tok) :
    WInv (legacyPut w now k data tok) := by
  refine ⟨⟨nodupKeys_aset _ _ _ (nodupKeys_aset _ _ _ hw.be.nodup), ?_, ?_, ?_⟩, by simp [legacyPut]⟩
  · intro x d hd
    simp only [legacyPut] at hd ⊢
    rw [docAt_aset_mt] at hd
    by_cases hx : x = k
    · subst hx
      simp only [if_true, Option.some.injEq] at hd
      subst hd
      refine ⟨data, now, ?_, rfl⟩
      rw [aget_aset_ne _ _ _ _ (by simp [payloadPath])]
      simp [payloadPath, aget_aset_eq]
    · simp only [hx, if_false] at hd
      have hd' : docAt w.be x = some d := by
        rw [← hd]; unfold docAt; rw [aget_aset_ne _ _ _ _ (by simp)]
      obtain ⟨b, bt, hb, hs⟩ := hw.be.ptr x d hd'
      refine ⟨b, bt, ?_, hs⟩
      rw [aget_aset_ne _ _ _ _ (by simp), aget_aset_ne _ _ _ _ (by
        cases hg : d.gen <;> simp [payloadPath, hx])]
      exact hb
  · intro x g hg
    simp only [legacyPut] at hg
    rw [aget_aset_ne _ _ _ _ (by simp), aget_aset_ne _ _ _ _ (by simp)] at hg
    exact hw.be.fresh x g hg
  · intro x e he
    simp only [legacyPut] at he
    rw [aget_aset] at he
    split at he
    · simp only [Option.some.injEq] at he; subst he; exact ⟨_, rfl⟩
    · rw [aget_aset_ne _ _ _ _ (by simp)] at he
      exact hw.be.decodes x e he

/-! ### a crash inside `collect_garbage`; aborted uploads -/

theorem gcSweepCut_safe {be : Backend} {n : Nat} (h : BInv be n) (inflight : List (Path × Gen)) (cands : List BPath)
    (budget : Nat) :
    BInv (gcSweepCut inflight be cands budget) n ∧
    (∀ x, readCold (gcSweepCut inflight be cands budget) x = readCold be x) ∧
    (∀ x, docAt (gcSweepCut inflight be cands budget) x = docAt be x) := by
  induction cands generalizing be budget with
  | nil => exact ⟨h, fun _ => rfl, fun _ => rfl⟩
  | cons p ps ih =>
      simp only [gcSweepCut]
      obtain ⟨h1, r1, d1⟩ := gcCandidateStep_safe h inflight p
      split
      · obtain ⟨h2, r2, d2⟩ := ih h1 (budget - (gcCandidateStep inflight be p).2)
        exact ⟨h2, fun x => by rw [r2 x, r1 x], fun x => by rw [d2 x, d1 x]⟩
      · exact ⟨h, fun _ => rfl, fun _ => rfl⟩

/-- with enough budget the cut sweep is the whole sweep -/
theorem gcSweepCut_full (inflight : List (Path × Gen)) (be : Backend) (cands : List BPath) (budget : Nat)
    (hb : (gcSweep inflight be cands).2 ≤ budget) :
    gcSweepCut inflight be cands budget = (gcSweep inflight be cands).1 := by
  induction cands generalizing be budget with
  | nil => rfl
  | cons p ps ih =>
      simp only [gcSweep] at hb ⊢
      simp only [gcSweepCut]
      have h1 : (gcCandidateStep inflight be p).2 ≤ budget := by omega
      rw [if_pos h1]
      exact ih _ _ (by omega)

theorem gcCrashState_inv {w : W} (hw : WInv w) (now n : Nat) : WInv (gcCrashState w now n) :=
  WInv.cold w.flavor (gcSweepCut_safe hw.be w.inflight (gcCandidates w.be now) n).1

theorem gcCrashState_reads {w : W} (hw : WInv w) (now n : Nat) (x : Path) :
    readCold (gcCrashState w now n).be x = readCold w.be x :=
  (gcSweepCut_safe hw.be w.inflight (gcCandidates w.be now) n).2.1 x

theorem abortUpload_inv {w : W} (hw : WInv w) : WInv (abortUpload w) :=
  ⟨hw.be.mono (Nat.le_succ _), hw.cache⟩

theorem runEvent_inv {w : W} (hw : WInv w) (e : Event) : WInv (runEvent w e) := by
  cases e with
  | call now c => exact wStep_inv hw now c
  | reopen => exact hw.reopen
  | crash now c n => exact crashState_inv hw now c n
  | gc now => exact gcRun_inv hw now
  | legacy now k data tok => exact legacyPut_inv hw now k data tok
  | gcCrash now n => exact gcCrashState_inv hw now n
  | abort => exact abortUpload_inv hw

theorem run_inv {w : W} (hw : WInv w) (es : List Event) : WInv (run w es) := by
  induction es generalizing w with
  | nil => exact hw
  | cons e es ih => exact ih (runEvent_inv hw e)

end AndaVerif.ObjStore
