import AndaVerif.Proofs.ConcProj
/-
Basic proof infrastructure for the concurrent collection model: the case-analysis tactic for one
thread action, the unpacking of `step`, and the *aspect lemmas* — for every group of shared
variables (gate, doc locks, allocator, store, …) one lemma that says how a single action of a
thread can change it, proved by brute-force case analysis once.  The invariants of
`Proofs/ConcInv*.lean` are then proved from the aspect lemmas without looking at the code again.
-/
namespace AndaVerif.ConcColl

def Thread.isAdd (th : Thread) : Bool := match th.op with | .add _ => true | _ => false
def Thread.isMut (th : Thread) : Bool :=
  match th.op with | .add _ => true | .upd _ _ _ _ => true | .rm _ => true | .ext _ _ => true | _ => false
def Thread.isFlush (th : Thread) : Bool := match th.op with | .flush => true | _ => false

/-- the call has been issued and has not returned -/
def Pc.active (pc : Pc) : Bool := pc != .idle && pc != .done

/-- Case analysis of one thread action: one goal per leaf of `stepThread`, with the successor
state substituted and the branch conditions as hypotheses. -/
macro "step_cases" h:ident : tactic => `(tactic| (
  unfold stepThread at $h:ident
  split at $h:ident
  all_goals
    simp only [stepAdd, stepUpd, stepRm, stepGet, stepFlush, stepExt, addPhase, addPhaseU,
      updLin, rmLin, flushAfterIdx, flushAfterIds] at $h:ident
    repeat' split at $h:ident
  all_goals try (simp only [Option.some.injEq, Prod.mk.injEq, reduceCtorEq] at $h:ident)
  all_goals try (rcases $h:ident with ⟨h1, h2⟩; subst h1; subst h2)
  all_goals try simp only [ne_eq, Decidable.not_not, not_or, Bool.not_eq_true] at *))

theorem step_elim {t : Nat} {c c' : Cfg} (h : step t c = some c') :
    ∃ th sh' th', c.th[t]? = some th ∧ stepThread c.sh t th = some (sh', th') ∧
      c' = { sh := sh', th := c.th.set t th', clock := c.clock + 1,
             stamps := c.stamps.set t (stampOf c.clock th th' (c.stamps.getD t {})) } := by
  unfold step at h
  split at h
  · simp at h
  · next th hth =>
    split at h
    · simp at h
    · next sh' th' hst =>
      simp only [Option.some.injEq] at h
      exact ⟨th, sh', th', hth, hst, h.symm⟩

theorem getElem?_set_self' {α : Type} (l : List α) (t : Nat) (a b : α) (h : l[t]? = some a) :
    (l.set t b)[t]? = some b := by
  have : t < l.length := by
    rcases Nat.lt_or_ge t l.length with hlt | hge
    · exact hlt
    · simp [List.getElem?_eq_none hge] at h
  simp [List.getElem?_set, this]

theorem getElem?_set_ne' {α : Type} (l : List α) (t x : Nat) (b : α) (h : x ≠ t) :
    (l.set t b)[x]? = l[x]? := by
  simp [List.getElem?_set, Ne.symm h]

-- ------------------------------------------------------------------------------------------
-- aspect: the operation gate
-- ------------------------------------------------------------------------------------------

theorem stepThread_gate (sh : Shared) (t : Nat) (th : Thread) (sh' : Shared) (th' : Thread)
    (h : stepThread sh t th = some (sh', th')) :
    th'.op = th.op ∧ th.pc ≠ .done ∧ th'.pc ≠ .idle ∧ sh'.conf = sh.conf ∧
    (th.isMut = true →
      sh'.writer = sh.writer ∧ (th.pc = .idle → sh.writer = none) ∧
      sh'.readers = (if th'.pc = .done then List.filter (· != t) else id)
        ((if th.pc = .idle then (t :: ·) else id) sh.readers)) ∧
    (th.isFlush = true →
      sh'.readers = sh.readers ∧ (th.pc = .idle → sh.writer = none ∧ sh.readers = []) ∧
      sh'.writer = (if th'.pc = .done then none else if th.pc = .idle then some t else sh.writer)) ∧
    (th.isMut = false → th.isFlush = false → sh'.readers = sh.readers ∧ sh'.writer = sh.writer) := by
  step_cases h
  all_goals simp [*, Thread.isMut, Thread.isFlush]

end AndaVerif.ConcColl
