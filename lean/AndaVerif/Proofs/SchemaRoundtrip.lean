import AndaVerif.Proofs.SchemaCodec
/-
Type-directed half of the round trip: for a canonical value `v` of type `ft`,
`prune ft (generic v) = generic v`, `normalize ft (generic v) = v`, `validateInner ft v`, no NaN.
-/
namespace AndaVerif.Schema

/-! ### generic values -/

theorem isGenericL_iff (fm : FloatModel) (vs : List FieldValue) :
    isGenericL fm vs = true ↔ ∀ v ∈ vs, isGeneric fm v = true := by
  induction vs with
  | nil => simp [isGenericL]
  | cons v vs ih => simp [isGenericL, ih]

theorem isGenericM_iff (fm : FloatModel) (kvs : List (FieldKey × FieldValue)) :
    isGenericM fm kvs = true ↔ ∀ kv ∈ kvs, isGeneric fm kv.2 = true := by
  induction kvs with
  | nil => simp [isGenericM]
  | cons kv kvs ih => obtain ⟨k, v⟩ := kv; simp [isGenericM, ih]

theorem map_id_of {α : Type} (f : α → α) (xs : List α) (h : ∀ x ∈ xs, f x = x) : xs.map f = xs := by
  induction xs with
  | nil => rfl
  | cons x xs ih => simp [h x (by simp), ih (fun y hy => h y (by simp [hy]))]

theorem generic_of_isGeneric (fm : FloatModel) : ∀ v, isGeneric fm v = true →
    generic fm v = v ∧ noNaN fm v = true := by
  intro v
  induction v using FieldValue.ind with
  | hi64 i =>
    intro h
    simp only [isGeneric, decide_eq_true_eq] at h
    have : ¬ (0 ≤ i) := by omega
    simp [generic, noNaN, this]
  | hf64 d => intro h; simp only [isGeneric] at h; simp [generic, noNaN, h]
  | hf32 x => intro h; simp [isGeneric] at h
  | hjson j => intro h; simp [isGeneric] at h
  | hvector bs => intro h; simp [isGeneric] at h
  | harray vs ih =>
    intro h
    simp only [isGeneric, isGenericL_iff] at h
    refine ⟨?_, ?_⟩
    · simp only [generic, genericL_eq]
      rw [map_id_of _ _ (fun v hv => (ih v hv (h v hv)).1)]
    · simp only [noNaN, noNaNL_iff]
      exact fun v hv => (ih v hv (h v hv)).2
  | hmap kvs ih =>
    intro h
    simp only [isGeneric, isGenericM_iff] at h
    refine ⟨?_, ?_⟩
    · simp only [generic, genericM_eq]
      rw [map_id_of _ _ (fun kv hkv => by rw [(ih kv hkv (h kv hkv)).1])]
    · simp only [noNaN, noNaNM_iff]
      exact fun kv hkv => (ih kv hkv (h kv hkv)).2
  | _ => intro _; simp [generic, noNaN]

/-! ### JSON payloads: `normalize` rebuilds the payload from its shape -/

theorem toCborL_eq (fm : FloatModel) (vs : List FieldValue) : toCborL fm vs = vs.map (toCbor fm) := by
  induction vs with
  | nil => simp [toCborL]
  | cons v vs ih => simp [toCborL, ih]

theorem toCborM_eq (fm : FloatModel) (kvs : List (FieldKey × FieldValue)) :
    toCborM fm kvs = kvs.map (fun kv => (keyToDM kv.1, toCbor fm kv.2)) := by
  induction kvs with
  | nil => simp [toCborM]
  | cons kv kvs ih => obtain ⟨k, v⟩ := kv; simp [toCborM, ih]

theorem toCbor_jshape (fm : FloatModel) : ∀ j : Json, toCbor fm (jshape j) = jsonToDM j := by
  intro j
  induction j using Json.ind with
  | harr xs ih =>
    simp only [jshape, toCbor, jsonToDM, jshapeL_eq, toCborL_eq, jsonToDML_eq, List.map_map]
    congr 1
    exact List.map_congr_left (fun x hx => ih x hx)
  | hobj kvs ih =>
    simp only [jshape, toCbor, jsonToDM, jshapeO_eq, toCborM_eq, jsonToDMO_eq, List.map_map]
    congr 1
    apply List.map_congr_left
    intro kv hkv
    simp [keyToDM, ih kv hkv]
  | _ => simp [jshape, toCbor, jsonToDM]

theorem jsonFromL_map (fm : FloatModel) (xs : List Json)
    (h : ∀ x ∈ xs, jsonFrom fm (jsonToDM x) = some x) : jsonFromL fm (xs.map jsonToDM) = some xs := by
  induction xs with
  | nil => simp [jsonFromL]
  | cons x xs ih => simp [jsonFromL, h x (by simp), ih (fun y hy => h y (by simp [hy]))]

theorem jsonFromO_map (fm : FloatModel) (kvs : List (String × Json))
    (hd : kvs.Pairwise (fun a b => a.1 ≠ b.1))
    (h : ∀ kv ∈ kvs, jsonFrom fm (jsonToDM kv.2) = some kv.2) :
    jsonFromO fm (kvs.map (fun kv => (DM.text kv.1, jsonToDM kv.2))) = some kvs := by
  induction kvs with
  | nil => simp [jsonFromO]
  | cons kv kvs ih =>
    obtain ⟨k, v⟩ := kv
    rw [List.pairwise_cons] at hd
    have h1 := h (k, v) (by simp)
    simp only at h1
    have hno : kvs.any (fun kv => kv.1 == k) = false := by
      rw [List.any_eq_false]
      intro x hx
      simpa using fun e => hd.1 x hx e.symm
    simp [jsonFromO, h1, ih hd.2 (fun y hy => h y (by simp [hy])), hno]

theorem jsonFrom_jsonToDM (fm : FloatModel) : ∀ j : Json, j.WF fm = true →
    jsonFrom fm (jsonToDM j) = some j := by
  intro j
  induction j using Json.ind with
  | hnull => intro _; simp [jsonToDM, jsonFrom]
  | hbool b => intro _; simp [jsonToDM, jsonFrom]
  | huint n =>
    intro h
    simp only [Json.WF, decide_eq_true_eq] at h
    have h' : (n : Int) ≤ (u64Max : Int) := by exact_mod_cast h
    simp [jsonToDM, jsonFrom, h']
  | hnint i =>
    intro h
    simp only [Json.WF, Bool.and_eq_true, decide_eq_true_eq] at h
    have : ¬ (0 ≤ i) := by omega
    simp [jsonToDM, jsonFrom, this, h.1]
  | hfloat d =>
    intro h
    simp only [Json.WF, Bool.and_eq_true, Bool.not_eq_true'] at h
    simp [jsonToDM, jsonFrom, h.1]
  | hstr s => intro _; simp [jsonToDM, jsonFrom]
  | harr xs ih =>
    intro h
    simp only [Json.WF, Json.WFL_iff] at h
    simp [jsonToDM, jsonFrom, jsonToDML_eq, jsonFromL_map fm xs (fun x hx => ih x hx (h x hx))]
  | hobj kvs ih =>
    intro h
    simp only [Json.WF, Json.WFO_iff] at h
    simp [jsonToDM, jsonFrom, jsonToDMO_eq, jsonFromO_map fm kvs h.2 (fun kv hkv => ih kv hkv (h.1 kv hkv))]

theorem normalizeJson_jshape (fm : FloatModel) (j : Json) (h : j.WF fm = true) :
    normalizeJson fm (jshape j) = .json j := by
  have h1 : jsonFrom fm (toCbor fm (jshape j)) = some j := by
    rw [toCbor_jshape]; exact jsonFrom_jsonToDM fm j h
  cases j <;> simp [normalizeJson, jshape] at * <;> simp [h1]

end AndaVerif.Schema

namespace AndaVerif.Schema

/-! ### small facts -/

theorem isF32ReadBack_widen (fm : FloatModel) (hfm : fm.Lawful) (x : Nat) (h : fm.isNaN32 x = false) :
    isF32ReadBack fm (fm.widen x) = true := by
  unfold isF32ReadBack
  simp only [hfm.widen_not_nan x h, hfm.narrow_widen x h, Bool.false_eq_true, if_false]
  by_cases hi : fm.isInf32 x = true
  · simp [hi, hfm.inf_widen x h hi]
  · simp [hi]

theorem bf16Bits_map (bs : List Nat) (h : ∀ b ∈ bs, b ≤ u16Max) :
    bf16Bits? (bs.map FieldValue.u64) = some bs := by
  induction bs with
  | nil => simp [bf16Bits?]
  | cons b bs ih =>
    simp [bf16Bits?, h b (by simp), ih (fun y hy => h y (by simp [hy]))]

theorem canonicals_eq (fm : FloatModel) (st : Bool) (ts : List FieldType) :
    canonicals fm st ts = ts.map (canonical fm st) := by
  induction ts with
  | nil => simp [canonicals]
  | cons t ts ih => simp [canonicals, ih]

theorem keyCanonicals_eq (fm : FloatModel) (st : Bool) (kts : List (FieldKey × FieldType)) :
    keyCanonicals fm st kts = kts.map (fun kt => (kt.1, canonical fm st kt.2)) := by
  induction kts with
  | nil => simp [keyCanonicals]
  | cons kt kts ih => obtain ⟨k, t⟩ := kt; simp [keyCanonicals, ih]

theorem zipAll_map_iff' (c : FieldType → FieldValue → Bool) (ts : List FieldType) (vs : List FieldValue) :
    zipAll (ts.map c) vs = true ↔
      ts.length = vs.length ∧ ∀ i (h₁ : i < ts.length) (h₂ : i < vs.length), c ts[i] vs[i] = true := by
  induction ts generalizing vs with
  | nil => cases vs <;> simp [zipAll]
  | cons t ts ih =>
    cases vs with
    | nil => simp [zipAll]
    | cons v vs =>
      simp only [List.map_cons, zipAll, Bool.and_eq_true, ih, List.length_cons, Nat.add_right_cancel_iff]
      constructor
      · rintro ⟨h0, hl, hr⟩
        refine ⟨hl, ?_⟩
        intro i h₁ h₂
        cases i with
        | zero => simpa using h0
        | succ i =>
          simp only [List.getElem_cons_succ]
          exact hr i (by simpa using h₁) (by simpa using h₂)
      · rintro ⟨hl, hr⟩
        refine ⟨by simpa using hr 0 (by simp) (by simp), hl, ?_⟩
        intro i h₁ h₂
        have := hr (i + 1) (by simpa using h₁) (by simpa using h₂)
        simpa only [List.getElem_cons_succ] using this

/-- rewriting a tuple position by position -/
theorem zipApply_map (f : FieldType → FieldValue → FieldValue) (g r : FieldValue → FieldValue)
    (ts : List FieldType) (vs : List FieldValue) (hl : ts.length = vs.length)
    (h : ∀ i (h₁ : i < ts.length) (h₂ : i < vs.length), f ts[i] (g vs[i]) = r vs[i]) :
    zipApply (ts.map (fun t => f t)) (vs.map g) = vs.map r := by
  induction ts generalizing vs with
  | nil => cases vs with
    | nil => simp [zipApply]
    | cons _ _ => simp at hl
  | cons t ts ih =>
    cases vs with
    | nil => simp at hl
    | cons v vs =>
      simp only [List.map_cons, zipApply, List.cons.injEq]
      refine ⟨?_, ih vs (by simpa using hl) ?_⟩
      · have := h 0 (by simp) (by simp)
        simpa only [List.getElem_cons_zero] using this
      · intro i h₁ h₂
        have := h (i + 1) (by simpa using h₁) (by simpa using h₂)
        simpa only [List.getElem_cons_succ] using this

theorem lookup_of_mem {β : Type} (kvs : List (FieldKey × β)) (hd : kvs.Pairwise (fun a b => a.1 ≠ b.1))
    (kv : FieldKey × β) (h : kv ∈ kvs) : kvs.lookup kv.1 = some kv.2 := by
  induction kvs with
  | nil => cases h
  | cons x xs ih =>
    rw [List.pairwise_cons] at hd
    obtain ⟨k, v⟩ := x
    cases h with
    | head => simp [List.lookup_cons]
    | tail _ hm =>
      have hne : kv.1 ≠ k := fun e => hd.1 kv hm e.symm
      have : (kv.1 == k) = false := by simpa using hne
      simp [List.lookup_cons, this, ih hd.2 hm]

theorem mem_of_lookup {β : Type} (kvs : List (FieldKey × β)) (k : FieldKey) (v : β)
    (h : kvs.lookup k = some v) : (k, v) ∈ kvs := by
  induction kvs with
  | nil => simp at h
  | cons x xs ih =>
    obtain ⟨k', v'⟩ := x
    simp only [List.lookup_cons] at h
    cases hk : (k == k') with
    | true =>
      simp only [hk, Option.some.injEq] at h
      have : k = k' := by simpa using hk
      subst this; subst h; simp
    | false =>
      simp only [hk] at h
      exact List.mem_cons_of_mem _ (ih h)

theorem lookup_some_of_any {β : Type} (kts : List (FieldKey × β)) (k : FieldKey)
    (h : kts.any (fun c => c.1 == k) = true) : ∃ t, kts.lookup k = some t ∧ (k, t) ∈ kts := by
  induction kts with
  | nil => simp at h
  | cons x xs ih =>
    obtain ⟨k', t'⟩ := x
    simp only [List.any_cons, Bool.or_eq_true, beq_iff_eq] at h
    by_cases hk : k' = k
    · subst hk; exact ⟨t', by simp [List.lookup_cons], by simp⟩
    · have hx := h.resolve_left hk
      obtain ⟨t, h1, h2⟩ := ih hx
      have : (k == k') = false := by simpa using fun e => hk e.symm
      exact ⟨t, by simp [List.lookup_cons, this, h1], List.mem_cons_of_mem _ h2⟩

theorem generic_eq_null (fm : FloatModel) (v : FieldValue) (h : generic fm v = .null) :
    v = .null ∨ v.isJsonNull = true := by
  cases v with
  | json j => cases j <;> simp [generic, jshape, FieldValue.isJsonNull] at *
  | i64 i => simp only [generic] at h; split at h <;> cases h
  | null => exact .inl rfl
  | _ => simp [generic] at h

theorem prune_option (t : FieldType) (w : FieldValue) (h : w ≠ .null) :
    prune (.option t) w = prune t w := by
  cases w <;> simp [prune] at *

theorem normalize_option (fm : FloatModel) (t : FieldType) (w : FieldValue) (h : w ≠ .null) :
    normalize fm (.option t) w = normalize fm t w := by
  cases w <;> simp [normalize] at *

theorem validateInner_option (fm : FloatModel) (t : FieldType) (w : FieldValue) (h : w ≠ .null) :
    validateInner fm (.option t) w = validateInner fm t w := by
  cases w <;> simp [validateInner] at *

/-- strictly canonical values are never `Null` unless the type is optional -/
theorem canonical_null (fm : FloatModel) (ft : FieldType) (h : canonical fm true ft .null = true) :
    ft.allowsNull = true := by
  cases ft <;> simp [canonical, FieldType.allowsNull] at *

theorem allowsNull_validate (fm : FloatModel) (t : FieldType) (h : t.allowsNull = true) :
    validateInner fm t .null = true := by
  cases t <;> simp [FieldType.allowsNull, validateInner] at *

end AndaVerif.Schema

namespace AndaVerif.Schema

/-- the four facts proved together by induction on the declared type -/
def RT (fm : FloatModel) (ft : FieldType) : Prop :=
  ∀ v, v.WF fm = true → canonical fm true ft v = true →
    prune ft (generic fm v) = generic fm v ∧ normalize fm ft (generic fm v) = v ∧
      validateInner fm ft v = true ∧ noNaN fm v = true

theorem rt_array (fm : FloatModel) (ts : List FieldType) (ih : ∀ t ∈ ts, RT fm t) : RT fm (.array ts) := by
  intro v hwf hc
  cases v <;> try (simp [canonical] at hc; done)
  rename_i vs
  simp only [FieldValue.WF, WFL_iff] at hwf
  match ts, ih, hc with
  | [], _, hc =>
    simp only [canonical, Bool.not_true, Bool.false_or, List.all_eq_true] at hc
    have hg : vs.map (generic fm) = vs := map_id_of _ _ (fun x hx => (generic_of_isGeneric fm x (hc x hx)).1)
    refine ⟨?_, ?_, ?_, ?_⟩
    · simp [generic, genericL_eq, hg, prune]
    · simp [generic, genericL_eq, hg, normalize]
    · simp [validateInner]
    · simp only [noNaN, noNaNL_iff]; exact fun x hx => (generic_of_isGeneric fm x (hc x hx)).2
  | [t], ih, hc =>
    simp only [canonical, List.all_eq_true] at hc
    have iht := fun x hx => ih t (by simp) x (hwf x hx) (hc x hx)
    refine ⟨?_, ?_, ?_, ?_⟩
    · simp only [generic, genericL_eq, prune, List.map_map, FieldValue.array.injEq]
      exact List.map_congr_left (fun x hx => (iht x hx).1)
    · simp only [generic, genericL_eq, normalize, List.map_map, FieldValue.array.injEq]
      exact map_id_of _ _ (fun x hx => (iht x hx).2.1)
    · simp only [validateInner, List.all_eq_true]; exact fun x hx => (iht x hx).2.2.1
    · simp only [noNaN, noNaNL_iff]; exact fun x hx => (iht x hx).2.2.2
  | t₁ :: t₂ :: ts, ih, hc =>
    simp only [canonical, canonicals_eq] at hc
    obtain ⟨hl, hp⟩ := (zipAll_map_iff' (canonical fm true) (t₁ :: t₂ :: ts) vs).1 hc
    have iht := fun i (h₁ : i < (t₁ :: t₂ :: ts).length) (h₂ : i < vs.length) =>
      ih _ (List.getElem_mem h₁) _ (hwf _ (List.getElem_mem h₂)) (hp i h₁ h₂)
    refine ⟨?_, ?_, ?_, ?_⟩
    · simp only [generic, genericL_eq, prune, pruners_eq, FieldValue.array.injEq]
      exact zipApply_map (fun t => prune t) (generic fm) (generic fm) _ vs hl (fun i h₁ h₂ => (iht i h₁ h₂).1)
    · simp only [generic, genericL_eq, normalize, normalizers_eq, FieldValue.array.injEq]
      have := zipApply_map (fun t => normalize fm t) (generic fm) id _ vs hl (fun i h₁ h₂ => (iht i h₁ h₂).2.1)
      simpa using this
    · simp only [validateInner, validators_eq]
      exact (zipAll_map_iff' (validateInner fm) _ vs).2 ⟨hl, fun i h₁ h₂ => (iht i h₁ h₂).2.2.1⟩
    · simp only [noNaN, noNaNL_iff]
      intro x hx
      obtain ⟨i, h₂, rfl⟩ := List.getElem_of_mem hx
      exact (iht i (by omega) h₂).2.2.2

end AndaVerif.Schema

namespace AndaVerif.Schema

theorem mapValues_generic (fm : FloatModel) (f : FieldValue → FieldValue) (r : FieldValue → FieldValue)
    (kvs : List (FieldKey × FieldValue)) (h : ∀ kv ∈ kvs, f (generic fm kv.2) = r kv.2) :
    mapValues f (kvs.map (fun kv => (kv.1, generic fm kv.2))) = kvs.map (fun kv => (kv.1, r kv.2)) := by
  simp only [mapValues, List.map_map]
  apply List.map_congr_left
  intro kv hkv
  simp [h kv hkv]

theorem filterMap_id_of {α : Type} (f : α → Option α) (xs : List α) (h : ∀ x ∈ xs, f x = some x) :
    xs.filterMap f = xs := by
  induction xs with
  | nil => rfl
  | cons x xs ih => simp [List.filterMap_cons, h x (by simp), ih (fun y hy => h y (by simp [hy]))]

theorem map_pair_id (kvs : List (FieldKey × FieldValue)) : kvs.map (fun kv => (kv.1, kv.2)) = kvs := by
  simp

theorem rt_map (fm : FloatModel) (kts : List (FieldKey × FieldType)) (ih : ∀ kt ∈ kts, RT fm kt.2) :
    RT fm (.map kts) := by
  intro v hwf hc
  cases v <;> try (simp [canonical] at hc; done)
  rename_i kvs
  simp only [FieldValue.WF, WFM_iff] at hwf
  obtain ⟨_, hwfv, hd⟩ := hwf
  simp only [canonical, keyCanonicals_eq] at hc
  by_cases hemp : kts = []
  · subst hemp
    simp only [List.map_nil, List.isEmpty_nil, if_true, Bool.not_true, Bool.false_or, List.all_eq_true] at hc
    have hg : kvs.map (fun kv => (kv.1, generic fm kv.2)) = kvs :=
      map_id_of _ _ (fun kv hkv => by rw [(generic_of_isGeneric fm kv.2 (hc kv hkv)).1])
    refine ⟨?_, ?_, ?_, ?_⟩
    · simp [generic, genericM_eq, hg, prune, keyPruners]
    · simp only [generic, genericM_eq, hg, normalize, keyNormalizers, asWildcard, mapKeyed,
        List.lookup_nil, FieldValue.map.injEq]
      exact map_id_of _ _ (fun _ _ => rfl)
    · simp [validateInner, keyValidators, validateMap]
    · simp only [noNaN, noNaNM_iff]; exact fun kv hkv => (generic_of_isGeneric fm kv.2 (hc kv hkv)).2
  · have hne : ∀ {β : Type} (f : FieldKey × FieldType → FieldKey × β), (kts.map f).isEmpty = false := by
      intro β f
      cases kts with
      | nil => exact absurd rfl hemp
      | cons _ _ => simp
    rw [hne] at hc
    simp only [Bool.false_eq_true, if_false] at hc
    rw [asWildcard_map] at hc
    cases hw : asWildcard kts with
    | some wt =>
      obtain ⟨w, t⟩ := wt
      obtain ⟨rfl, _⟩ := asWildcard_some hw
      simp only [hw, Option.map_some, List.all_eq_true, Bool.and_eq_true] at hc
      have iht := fun kv hkv => ih (w, t) (by simp) kv.2 (hwfv kv hkv) (hc kv hkv).2
      refine ⟨?_, ?_, ?_, ?_⟩
      · simp only [generic, genericM_eq, prune, keyPruners_eq, hne, Bool.false_eq_true, if_false,
          asWildcard_map, hw, Option.map_some, FieldValue.map.injEq]
        exact mapValues_generic fm _ (generic fm) kvs (fun kv hkv => (iht kv hkv).1)
      · simp only [generic, genericM_eq, normalize, keyNormalizers_eq, asWildcard_map, hw,
          Option.map_some, FieldValue.map.injEq]
        rw [mapValues_generic fm _ id kvs (fun kv hkv => (iht kv hkv).2.1)]
        simp
      · simp only [validateInner, validateMap, keyValidators_eq, hne, Bool.false_eq_true, if_false,
          asWildcard_map, hw, Option.map_some, List.all_eq_true, Bool.and_eq_true]
        exact fun kv hkv => ⟨(hc kv hkv).1, (iht kv hkv).2.2.1⟩
      · simp only [noNaN, noNaNM_iff]; exact fun kv hkv => (iht kv hkv).2.2.2
    | none =>
      simp only [hw, Option.map_none, canonicalMap, Bool.and_eq_true, List.all_eq_true] at hc
      obtain ⟨hkeys, hvals⟩ := hc
      -- every entry's key is declared, with a type its value is canonical for
      have hkv : ∀ kv ∈ kvs, ∃ t, kts.lookup kv.1 = some t ∧ (kv.1, t) ∈ kts ∧ canonical fm true t kv.2 = true := by
        intro kv hkv
        have hany : kts.any (fun c => c.1 == kv.1) = true := by
          have := hkeys kv hkv
          simpa [List.any_map] using this
        obtain ⟨t, h1, h2⟩ := lookup_some_of_any kts kv.1 hany
        refine ⟨t, h1, h2, ?_⟩
        have := hvals (kv.1, canonical fm true t) (List.mem_map.2 ⟨(kv.1, t), h2, rfl⟩)
        simpa [lookup_of_mem kvs hd kv hkv] using this
      have iht : ∀ kv ∈ kvs, ∃ t, kts.lookup kv.1 = some t ∧
          prune t (generic fm kv.2) = generic fm kv.2 ∧ normalize fm t (generic fm kv.2) = kv.2 ∧
            validateInner fm t kv.2 = true ∧ noNaN fm kv.2 = true := by
        intro kv h
        obtain ⟨t, h1, h2, h3⟩ := hkv kv h
        exact ⟨t, h1, ih (kv.1, t) h2 kv.2 (hwfv kv h) h3⟩
      refine ⟨?_, ?_, ?_, ?_⟩
      · simp only [generic, genericM_eq, prune, keyPruners_eq, hne, Bool.false_eq_true, if_false,
          asWildcard_map, hw, Option.map_none, FieldValue.map.injEq, pruneKeyed]
        apply filterMap_id_of
        intro y hy
        obtain ⟨kv, hkv, rfl⟩ := List.mem_map.1 hy
        obtain ⟨t, h1, h2⟩ := iht kv hkv
        simp [lookup_map_snd, h1, h2.1]
      · simp only [generic, genericM_eq, normalize, keyNormalizers_eq, asWildcard_map, hw,
          Option.map_none, FieldValue.map.injEq, mapKeyed, List.map_map]
        apply map_id_of
        intro kv hkv
        obtain ⟨t, h1, h2⟩ := iht kv hkv
        simp [lookup_map_snd, h1, h2.2.1]
      · simp only [validateInner, validateMap, keyValidators_eq, hne, Bool.false_eq_true, if_false,
          asWildcard_map, hw, Option.map_none, Bool.and_eq_true, List.all_eq_true]
        refine ⟨?_, ?_⟩
        · intro kv hkv
          have := hkeys kv hkv
          simpa [List.any_map] using this
        · intro c hc'
          obtain ⟨kt, hkt, rfl⟩ := List.mem_map.1 hc'
          have hv := hvals (kt.1, canonical fm true kt.2) (List.mem_map.2 ⟨kt, hkt, rfl⟩)
          simp only at hv ⊢
          cases hl : kvs.lookup kt.1 with
          | none =>
            rw [hl] at hv
            exact allowsNull_validate fm kt.2 (canonical_null fm kt.2 hv)
          | some x =>
            rw [hl] at hv
            have hm := mem_of_lookup kvs kt.1 x hl
            exact (ih kt hkt x (hwfv _ hm) hv).2.2.1
      · simp only [noNaN, noNaNM_iff]
        intro kv hkv
        obtain ⟨t, _, h2⟩ := iht kv hkv
        exact h2.2.2.2

end AndaVerif.Schema

namespace AndaVerif.Schema

theorem rt_option (fm : FloatModel) (t : FieldType) (ih : RT fm t) : RT fm (.option t) := by
  intro v hwf hc
  by_cases hn : v = .null
  · subst hn
    simp [generic, prune, normalize, validateInner, noNaN]
  · have hc' : v.isJsonNull = false ∧ canonical fm true t v = true := by
      cases v <;> simp [canonical] at hc hn ⊢ <;> exact hc
    have hg : generic fm v ≠ .null := by
      intro e
      rcases generic_eq_null fm v e with h | h
      · exact hn h
      · rw [hc'.1] at h; cases h
    obtain ⟨h1, h2, h3, h4⟩ := ih v hwf hc'.2
    exact ⟨by rw [prune_option t _ hg, h1], by rw [normalize_option fm t _ hg, h2],
      by rw [validateInner_option fm t _ hn, h3], h4⟩

theorem rt_all (fm : FloatModel) (hfm : fm.Lawful) : ∀ ft, RT fm ft := by
  intro ft
  induction ft using FieldType.ind with
  | hbool => intro v _ hc; cases v <;> simp [canonical] at hc; simp [generic, prune, normalize, validateInner, noNaN]
  | hi64 =>
    intro v hwf hc
    cases v <;> simp [canonical] at hc
    rename_i i
    simp only [FieldValue.WF, Bool.and_eq_true, decide_eq_true_eq] at hwf
    by_cases h0 : 0 ≤ i
    · have h1 : ((i.toNat : Nat) : Int) = i := Int.toNat_of_nonneg h0
      simp [generic, prune, normalize, validateInner, noNaN, h0, h1, hwf.2]
    · simp [generic, prune, normalize, validateInner, noNaN, h0]
  | hu64 => intro v _ hc; cases v <;> simp [canonical] at hc; simp [generic, prune, normalize, validateInner, noNaN]
  | hf64 =>
    intro v _ hc
    cases v <;> simp [canonical] at hc
    simp [generic, prune, normalize, validateInner, noNaN, hc]
  | hf32 =>
    intro v _ hc
    cases v <;> simp [canonical] at hc
    rename_i x _
    simp [generic, prune, normalize, validateInner, noNaN, hc, isF32ReadBack_widen fm hfm x hc,
      hfm.narrow_widen x hc]
  | hbytes => intro v _ hc; cases v <;> simp [canonical] at hc; simp [generic, prune, normalize, validateInner, noNaN]
  | htext => intro v _ hc; cases v <;> simp [canonical] at hc; simp [generic, prune, normalize, validateInner, noNaN]
  | hjson =>
    intro v hwf hc
    cases v <;> simp [canonical] at hc
    rename_i j
    simp only [FieldValue.WF] at hwf
    simp [generic, prune, normalize, validateInner, noNaN, normalizeJson_jshape fm j hwf]
  | hvector =>
    intro v hwf hc
    cases v <;> simp [canonical] at hc
    rename_i bs
    simp only [FieldValue.WF, List.all_eq_true, decide_eq_true_eq] at hwf
    simp [generic, prune, normalize, validateInner, noNaN, bf16Bits_map bs hwf]
  | harray ts ih => exact rt_array fm ts ih
  | hmap kts ih => exact rt_map fm kts ih
  | hopt t ih => exact rt_option fm t ih


/-- **Round trip.** A canonical, well-formed, in-budget value survives
`serialize → schema-less deserialize → prune → normalize → validate` unchanged. -/
theorem storeLoad_canonical (fm : FloatModel) (hfm : fm.Lawful) (ft : FieldType) (v : FieldValue)
    (hwf : v.WF fm = true) (hc : canonical fm true ft v = true)
    (hb : complexityOk Budget.default v = true) : storeLoad fm ft v = some v := by
  obtain ⟨h1, h2, h3, h4⟩ := rt_all fm hfm ft v hwf hc
  obtain ⟨dm, h5, h6⟩ := codec fm hfm v hwf h4
  have hval : fieldValidate fm ft v = true := by
    unfold fieldValidate
    by_cases hn : v.isNull = true
    · rw [if_pos hn]
      have : v = .null := by revert hn; cases v <;> simp [FieldValue.isNull]
      subst this
      exact canonical_null fm ft hc
    · rw [if_neg hn]
      simp [validate, validateWith, hb, h3]
  simp [storeLoad, h5, h6, readPath, h1, h2, hval]

end AndaVerif.Schema
