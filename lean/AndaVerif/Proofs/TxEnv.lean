import AndaVerif.Proofs.TxKeys
/-
Schema activations in the history: the environment version in force at a coordinate, and the
history theorems over statements *and* activations.
-/
namespace AndaVerif.Tx

def svaStep (c : Nat) (acc : Nat) (e : Nat × Nat) : Nat := if e.1 ≤ c ∧ e.2 > acc then e.2 else acc

theorem schemaVersionAt_eq (l : List (Nat × Nat)) (c : Nat) : schemaVersionAt l c = l.foldl (svaStep c) 0 := rfl

theorem sva_skip_newer (extra l : List (Nat × Nat)) (c acc : Nat) (h : ∀ e ∈ extra, c < e.1) :
    (extra ++ l).foldl (svaStep c) acc = l.foldl (svaStep c) acc := by
  induction extra generalizing acc with
  | nil => rfl
  | cons e r ih =>
      have he := h e List.mem_cons_self
      simp only [List.cons_append, List.foldl_cons]
      have : svaStep c acc e = acc := by unfold svaStep; rw [if_neg (by intro hh; omega)]
      rw [this]
      exact ih acc (fun x hx => h x (List.mem_cons_of_mem _ hx))

theorem sva_coord (l : List (Nat × Nat)) (a c acc : Nat) (h : ∀ e ∈ l, e.1 ≤ a) (hac : a ≤ c) :
    l.foldl (svaStep c) acc = l.foldl (svaStep a) acc := by
  induction l generalizing acc with
  | nil => rfl
  | cons e r ih =>
      have he := h e List.mem_cons_self
      simp only [List.foldl_cons]
      have : svaStep c acc e = svaStep a acc e := by
        unfold svaStep
        have : (e.1 ≤ c ∧ e.2 > acc) ↔ (e.1 ≤ a ∧ e.2 > acc) := by
          constructor <;> (intro hh; exact ⟨by omega, hh.2⟩)
        simp only [this]
      rw [this]
      exact ih _ (fun x hx => h x (List.mem_cons_of_mem _ hx))

theorem sva_bounded (l : List (Nat × Nat)) (c acc : Nat) (h : ∀ e ∈ l, e.2 ≤ acc) : l.foldl (svaStep c) acc = acc := by
  induction l with
  | nil => rfl
  | cons e r ih =>
      have he := h e List.mem_cons_self
      simp only [List.foldl_cons]
      have : svaStep c acc e = acc := by unfold svaStep; rw [if_neg (by intro hh; omega)]
      rw [this]
      exact ih (fun x hx => h x (List.mem_cons_of_mem _ hx))

/-- the activation registry reconstructs the environment version in force now -/
structure EInv (s : Store) : Prop where
  le : ∀ e ∈ s.envs, e.1 ≤ s.seq ∧ e.2 ≤ s.envVersion
  cur : schemaVersionAt s.envs s.seq = s.envVersion

theorem init_EInv : EInv Store.init := by
  refine ⟨?_, by decide⟩
  intro e he
  simp [Store.init] at he
  subst he
  exact ⟨Nat.le_refl _, Nat.le_refl _⟩

theorem exec_EInv {s : Store} (hwf : WF s) (h : EInv s) (st : Stmt) : EInv (exec s st).1 := by
  obtain ⟨h1, h2⟩ := exec_env hwf st
  have hseq := (exec_spec hwf st).seq
  refine ⟨?_, ?_⟩
  · intro e he
    rw [h1] at he
    rw [hseq, h2]
    have := h.le e he
    exact ⟨by omega, this.2⟩
  · rw [h1, h2, hseq, schemaVersionAt_eq, sva_coord s.envs s.seq (s.seq + 1) 0 (fun e he => (h.le e he).1) (by omega)]
    exact h.cur

theorem activate_EInv {s : Store} (h : EInv s) : EInv (activate s) := by
  refine ⟨?_, ?_⟩
  · intro e he
    simp only [activate, List.mem_cons] at he ⊢
    rcases he with he | he
    · subst he; exact ⟨Nat.le_refl _, Nat.le_refl _⟩
    · have := h.le e he
      exact ⟨by omega, by omega⟩
  · show ((s.seq + 1, s.envVersion + 1) :: s.envs).foldl (svaStep (s.seq + 1)) 0 = s.envVersion + 1
    simp only [List.foldl_cons]
    have : svaStep (s.seq + 1) 0 (s.seq + 1, s.envVersion + 1) = s.envVersion + 1 := by
      unfold svaStep; simp
    rw [this]
    exact sva_bounded s.envs _ _ (fun e he => by have := (h.le e he).2; omega)

/-! ## Histories of statements and activations -/

structure HInv (s : Store) : Prop where
  wf : WF s
  t : TInv s
  v : VInv s
  e : EInv s
  k : KeyInv s
  l : LInv s

theorem init_HInv : HInv Store.init := ⟨init_WF, init_TInv, init_VInv, init_EInv, init_KeyInv, init_LInv⟩

theorem activate_HInv {s : Store} (h : HInv s) : HInv (activate s) :=
  { wf := h.wf, t := h.t,
    v := h.v.of_same rfl (by show s.seq ≤ s.seq + 1; omega) (fun _ => rfl),
    e := activate_EInv h.e, k := h.k, l := h.l }

theorem stepE_HInv {s : Store} (h : HInv s) (ev : Ev) : HInv (stepE s ev) := by
  cases ev with
  | activate => exact activate_HInv h
  | stmt st =>
      exact { wf := (exec_spec h.wf st).wf, t := exec_TInv h.wf h.t st, v := (exec_spec h.wf st).vinv h.v,
              e := exec_EInv h.wf h.e st, k := exec_KeyInv h.wf h.t h.k st, l := exec_LInv h.wf h.t h.l st }

theorem runE_HInv {s : Store} (h : HInv s) (l : List Ev) : HInv (runE s l) := by
  induction l generalizing s with
  | nil => exact h
  | cons ev r ih => exact ih (stepE_HInv h ev)

/-- the elements whose recorded versions a history destroys -/
def erasedRunE : Store → List Ev → List Id
  | _, [] => []
  | s, .stmt st :: r => erasedOf s st ++ erasedRunE (exec s st).1 r
  | s, .activate :: r => erasedRunE (activate s) r

theorem stepE_seq {s : Store} (hwf : WF s) (ev : Ev) : (stepE s ev).seq = s.seq + 1 := by
  cases ev with
  | activate => rfl
  | stmt st => exact (exec_spec hwf st).seq

/-- the logs of a history: version rows and activation rows at greater sequences on top of the old ones -/
theorem runE_logs {s : Store} (h : HInv s) (l : List Ev) :
    (∃ extra, (runE s l).vlog = extra ++ eraseAll (erasedRunE s l) s.vlog ∧ ∀ v ∈ extra, s.seq < v.seq) ∧
    (∃ extra, (runE s l).envs = extra ++ s.envs ∧ ∀ e ∈ extra, s.seq < e.1) ∧ s.seq ≤ (runE s l).seq := by
  induction l generalizing s with
  | nil => exact ⟨⟨[], by simp [runE, erasedRunE, eraseAll_nil], by intro v hv; cases hv⟩, ⟨[], rfl, by intro e he; cases he⟩, Nat.le_refl _⟩
  | cons ev r ih =>
      obtain ⟨⟨ex2, h4, h5⟩, ⟨en2, g4, g5⟩, hs2⟩ := ih (stepE_HInv h ev)
      have hseq := stepE_seq h.wf ev
      cases ev with
      | activate =>
          refine ⟨⟨ex2, by simpa [runE, erasedRunE, stepE, activate] using h4, ?_⟩, ⟨en2 ++ [(s.seq + 1, s.envVersion + 1)], ?_, ?_⟩, ?_⟩
          · intro v hv; have := h5 v hv; rw [hseq] at this; omega
          · simp only [runE]; rw [g4]; simp [stepE, activate]
          · intro e he
            rcases List.mem_append.mp he with he | he
            · have := g5 e he; rw [hseq] at this; omega
            · simp only [List.mem_singleton] at he; subst he; show s.seq < s.seq + 1; omega
          · simp only [runE]; rw [hseq] at hs2; omega
      | stmt st =>
          have sp := exec_spec h.wf st
          obtain ⟨ex1, er1, h6, h7, h8⟩ := sp.vlog
          have her : er1 = erasedOf s st := h8 (fun e w => exec_no_refusedWrite h.wf h.t st e w)
          have henv := exec_env h.wf st
          refine ⟨⟨ex2 ++ eraseAll (erasedRunE (exec s st).1 r) ex1, ?_, ?_⟩, ⟨en2, ?_, ?_⟩, ?_⟩
          · simp only [runE, erasedRunE, stepE] at h4 ⊢
            rw [h4, h6, her, eraseAll_append, eraseAll_eraseAll]; simp
          · intro v hv
            rcases List.mem_append.mp hv with hv | hv
            · have := h5 v hv; rw [hseq] at this; omega
            · rw [h7 v (mem_eraseAll hv).1]; omega
          · simp only [runE, stepE] at g4 ⊢; rw [g4, henv.1]
          · intro e he; have := g5 e he; rw [hseq] at this; omega
          · simp only [runE]; rw [hseq] at hs2; omega

end AndaVerif.Tx
