import AndaVerif.Proofs.BeliefComponents
/-
The aggregate-level laws lifted to stored rows: recording one more Assertion, and rewriting the
confidence of a stored Assertion (the driver's `a` and `raise` ops).
-/
namespace AndaVerif.Belief

/-- The confidence a row counts with. -/
def effConf (pol : Policy) (c : Int) : Int := if c < 0 then pol.unstated else c

/-- `r'` is `r` with another stored confidence that counts at least as much. -/
def RowRaised (pol : Policy) (r r' : Row) : Prop :=
  r' = { r with conf := r'.conf } ∧ effConf pol r.conf ≤ effConf pol r'.conf

def RowsRaised (pol : Policy) : List Row → List Row → Prop
  | [], [] => True
  | r :: rs, r' :: rs' => RowRaised pol r r' ∧ RowsRaised pol rs rs'
  | _, _ => False

theorem eligible_conf (pol : Policy) (now : Nat) (r : Row) (c' : Int) :
    eligible pol now { r with conf := c' } =
      (eligible pol now r).map (fun c => { c with conf := effConf pol c' }) := by
  rw [eligible_eq_spec, eligible_eq_spec]
  unfold eligibleSpec effConf
  simp only
  repeat' split
  all_goals simp_all [Except.map]

theorem candOf_raised {pol : Policy} {now : Nat} {r r' : Row} (h : RowRaised pol r r') :
    candOf pol now r' = (candOf pol now r).map (fun c => { c with conf := effConf pol r'.conf }) ∧
    exclOf pol now r' = exclOf pol now r ∧
    (∀ c, candOf pol now r = some c → c.conf = effConf pol r.conf) := by
  obtain ⟨heq, _⟩ := h
  refine ⟨?_, ?_, ?_⟩
  · rw [heq]; unfold candOf; rw [eligible_conf]
    cases eligible pol now r <;> simp [Except.map]
  · rw [heq]; unfold exclOf; rw [eligible_conf]
    cases eligible pol now r <;> simp [Except.map]
  · intro c hc
    unfold candOf at hc
    cases he : eligible pol now r with
    | error e => rw [he] at hc; cases hc
    | ok c0 =>
      rw [he] at hc
      have : c0 = c := by simpa using hc
      subst this
      rw [eligible_eq_spec] at he
      unfold eligibleSpec at he
      repeat' split at he
      all_goals cases he
      all_goals simp [effConf, *]

theorem RaisedC.append : ∀ {a b c d : List Cand}, RaisedC a b → RaisedC c d → RaisedC (a ++ c) (b ++ d)
  | [], [], _, _, _, h => h
  | _ :: _, _ :: _, _, _, ⟨h1, h2, h3, h4, h5⟩, h => ⟨h1, h2, h3, h4, RaisedC.append h5 h⟩
  | [], _ :: _, _, _, h, _ => h.elim
  | _ :: _, [], _, _, h, _ => h.elim

theorem RowsRaised.about (pol : Policy) (p : Nat) : ∀ {rs rs' : List Row}, RowsRaised pol rs rs' →
    RowsRaised pol (rowsAbout rs p) (rowsAbout rs' p)
  | [], [], _ => trivial
  | r :: rs, r' :: rs', ⟨h, hr⟩ => by
    have hp : r'.prop = r.prop := by rw [h.1]
    unfold rowsAbout
    simp only [List.filter_cons, hp]
    split
    · exact ⟨h, RowsRaised.about pol p hr⟩
    · exact RowsRaised.about pol p hr
  | [], _ :: _, h => h.elim
  | _ :: _, [], h => h.elim

theorem Cand.keys_conf (c : Cand) (x : Int) : ({ c with conf := x } : Cand).keys = c.keys := rfl

theorem RowsRaised.targetCands (pol : Policy) (now : Nat) : ∀ {rs rs' : List Row}, RowsRaised pol rs rs' →
    RaisedC (targetCands pol now rs) (targetCands pol now rs') ∧
    (∀ st, idsWith pol now st rs = idsWith pol now st rs') ∧
    rs.filterMap (exclOf pol now) = rs'.filterMap (exclOf pol now)
  | [], [], _ => ⟨trivial, fun _ => rfl, rfl⟩
  | r :: rs, r' :: rs', ⟨h, hr⟩ => by
    obtain ⟨ih1, ih2, ih3⟩ := RowsRaised.targetCands pol now hr
    obtain ⟨hc, hx, hconf⟩ := candOf_raised (now := now) h
    show RaisedC ((r :: rs).filterMap (candOf pol now)) ((r' :: rs').filterMap (candOf pol now)) ∧
      (∀ st, ((r :: rs).filterMap (candOf pol now)).filterMap (fun c => if c.stance = st then some c.id else none) =
        ((r' :: rs').filterMap (candOf pol now)).filterMap (fun c => if c.stance = st then some c.id else none)) ∧
      (r :: rs).filterMap (exclOf pol now) = (r' :: rs').filterMap (exclOf pol now)
    have ih1' : RaisedC (rs.filterMap (candOf pol now)) (rs'.filterMap (candOf pol now)) := ih1
    have ih2' : ∀ st, (rs.filterMap (candOf pol now)).filterMap (fun c => if c.stance = st then some c.id else none) =
        (rs'.filterMap (candOf pol now)).filterMap (fun c => if c.stance = st then some c.id else none) := ih2
    cases hcand : candOf pol now r with
    | none =>
      rw [hcand] at hc
      simp only [List.filterMap_cons, hcand, hc, Option.map_none, hx]
      exact ⟨ih1', ih2', by rw [ih3]⟩
    | some c =>
      rw [hcand] at hc
      simp only [List.filterMap_cons, hcand, hc, Option.map_some, hx]
      refine ⟨⟨rfl, rfl, rfl, ?_, ih1'⟩, ?_, by rw [ih3]⟩
      · rw [hconf c hcand]; exact h.2
      · intro st
        rw [ih2' st]
  | [], _ :: _, h => h.elim
  | _ :: _, [], h => h.elim

theorem RowsRaised.rivalCands (pol : Policy) (now : Nat) : ∀ {rs rs' : List Row}, RowsRaised pol rs rs' →
    RaisedC (rivalCands pol now rs) (rivalCands pol now rs') ∧
    (rivalCands pol now rs).map (·.id) = (rivalCands pol now rs').map (·.id)
  | [], [], _ => ⟨trivial, rfl⟩
  | r :: rs, r' :: rs', ⟨h, hr⟩ => by
    obtain ⟨ih1, ih2⟩ := RowsRaised.rivalCands pol now hr
    obtain ⟨hc, _, hconf⟩ := candOf_raised (now := now) h
    unfold AndaVerif.Belief.rivalCands at *
    cases hcand : candOf pol now r with
    | none =>
      rw [hcand] at hc
      simp only [List.filterMap_cons, hcand, hc, Option.map_none]
      exact ⟨ih1, ih2⟩
    | some c =>
      rw [hcand] at hc
      simp only [List.filterMap_cons, hcand, hc, Option.map_some]
      by_cases hs : c.stance = .support
      · simp only [hs, if_true, List.map_cons]
        refine ⟨⟨rfl, rfl, rfl, ?_, ih1⟩, by rw [ih2]⟩
        show c.conf ≤ effConf pol r'.conf
        rw [hconf c hcand]; exact h.2
      · simp only [hs, if_false]
        exact ⟨ih1, ih2⟩
  | [], _ :: _, h => h.elim
  | _ :: _, [], h => h.elim

theorem RowsRaised.allRivalCands (pol : Policy) (now : Nat) {rs rs' : List Row} (h : RowsRaised pol rs rs') :
    ∀ rivals : List Nat, RaisedC (allRivalCands pol now rs rivals) (allRivalCands pol now rs' rivals) ∧
      (allRivalCands pol now rs rivals).map (·.id) = (allRivalCands pol now rs' rivals).map (·.id)
  | [] => ⟨trivial, rfl⟩
  | p :: ps => by
    obtain ⟨ih1, ih2⟩ := RowsRaised.allRivalCands pol now h ps
    obtain ⟨h1, h2⟩ := RowsRaised.rivalCands pol now (RowsRaised.about pol p h)
    unfold AndaVerif.Belief.allRivalCands at *
    simp only [List.flatMap_cons, List.map_append]
    exact ⟨RaisedC.append h1 ih1, by rw [h2, ih2]⟩

/-- Rewriting stored confidences upwards: same ledger, pointwise stronger candidates. -/
theorem collect_raised (pol : Policy) (now : Nat) {rs rs' : List Row} (h : RowsRaised pol rs rs')
    (target : Nat) (rivals : List Nat) :
    (collect pol now rs target rivals).1 = (collect pol now rs' target rivals).1 ∧
    RaisedC (collect pol now rs target rivals).2 (collect pol now rs' target rivals).2 := by
  rw [collect_eq, collect_eq]
  obtain ⟨t1, t2, t3⟩ := RowsRaised.targetCands pol now (RowsRaised.about pol target h)
  obtain ⟨r1, r2⟩ := RowsRaised.allRivalCands pol now h rivals
  simp only
  split
  · exact ⟨by rw [t2, t2, t2, t3, r2], RaisedC.append t1 r1⟩
  · exact ⟨by rw [t2, t2, t2, t3], RaisedC.append t1 trivial⟩

/-- **Raising stored confidences never lowers a score, never changes the grouping or the ledger.** -/
theorem project_raised (pol : Policy) (now : Nat) {rs rs' : List Row} (h : RowsRaised pol rs rs')
    (functional : Bool) (slot : List Nat) (target : Nat) :
    ∃ a b, project pol now rs functional slot target = some a ∧
      project pol now rs' functional slot target = some b ∧
      a.ledger = b.ledger ∧ a.supportGroups = b.supportGroups ∧ a.oppositionGroups = b.oppositionGroups ∧
      a.support.den = b.support.den ∧ a.support.num ≤ b.support.num ∧
      a.opposition.den = b.opposition.den ∧ a.opposition.num ≤ b.opposition.num := by
  rw [project_eq, project_eq]
  obtain ⟨hl, hc⟩ := collect_raised pol now h target (rivalsOf functional slot target)
  obtain ⟨s₁, s₂, g, h1, h2, h3, h4⟩ := aggregate_mono pol.den hc false
  obtain ⟨o₁, o₂, k, h5, h6, h7, h8⟩ := aggregate_mono pol.den hc true
  unfold projectCands
  rw [h1, h2, h5, h6, hl]
  exact ⟨_, _, rfl, rfl, rfl, rfl, rfl, h3, h4, h7, h8⟩

/-- The driver's `raise i c'` on rows. -/
def raiseRow (i : Nat) (c' : Int) (rows : List Row) : List Row :=
  rows.map (fun r => if r.id = i then { r with conf := c' } else r)

theorem rowsRaised_raiseRow (pol : Policy) (i : Nat) (c' : Int) :
    ∀ rows : List Row, (∀ r ∈ rows, r.id = i → effConf pol r.conf ≤ effConf pol c') →
      RowsRaised pol rows (raiseRow i c' rows)
  | [], _ => trivial
  | r :: rs, h => by
    show RowRaised pol r (if r.id = i then { r with conf := c' } else r) ∧ RowsRaised pol rs (raiseRow i c' rs)
    refine ⟨?_, rowsRaised_raiseRow pol i c' rs (fun r hr => h r (List.mem_cons_of_mem _ hr))⟩
    by_cases hi : r.id = i
    · rw [if_pos hi]
      exact ⟨rfl, h r List.mem_cons_self hi⟩
    · rw [if_neg hi]
      exact ⟨rfl, le_rfl⟩

-- ------------------------------------------------------------------------------------------
-- one more recorded Assertion about the target
-- ------------------------------------------------------------------------------------------

theorem rivalsOf_not_mem (functional : Bool) (slot : List Nat) (target : Nat) :
    target ∉ rivalsOf functional slot target := by
  unfold rivalsOf
  split
  · simp
  · simp

/-- Recording one more eligible `support`/`reject` Assertion about the target appends its candidate
(up to the position of the rival candidates) and its id to one ledger list. -/
theorem collect_append_target (pol : Policy) (now : Nat) (rows : List Row) (r : Row) (target : Nat)
    (rivals : List Nat) (hr : r.prop = target) (hnot : target ∉ rivals) {c : Cand}
    (hc : candOf pol now r = some c) :
    ((collect pol now (rows ++ [r]) target rivals).2).Perm ((collect pol now rows target rivals).2 ++ [c]) ∧
    (collect pol now (rows ++ [r]) target rivals).1.uncertain =
      (collect pol now rows target rivals).1.uncertain ++ (if c.stance = .uncertain then [c.id] else []) := by
  rw [collect_eq, collect_eq]
  have ht : rowsAbout (rows ++ [r]) target = rowsAbout rows target ++ [r] := by
    unfold rowsAbout; simp [List.filter_append, hr]
  have hriv : ∀ rivals : List Nat, target ∉ rivals →
      allRivalCands pol now (rows ++ [r]) rivals = allRivalCands pol now rows rivals := by
    intro rivals hnot
    unfold allRivalCands
    apply List.flatMap_congr
    intro p hp
    have : r.prop ≠ p := by rw [hr]; rintro rfl; exact hnot hp
    unfold rowsAbout
    simp [List.filter_append, this]
  simp only [ht, hriv rivals hnot]
  have htc : targetCands pol now (rowsAbout rows target ++ [r]) = targetCands pol now (rowsAbout rows target) ++ [c] := by
    unfold targetCands; simp [List.filterMap_append, hc]
  constructor
  · rw [htc]
    simp only [List.append_assoc]
    exact List.Perm.append_left _ List.perm_append_comm
  · simp only [idsWith, htc, List.filterMap_append]
    split <;> simp_all

/-- One side of an answer: its score and its number of independent groups. -/
def Answer.side (a : Answer) (opposing : Bool) : Frac × Nat :=
  if opposing then (a.opposition, a.oppositionGroups) else (a.support, a.supportGroups)

theorem projectCands_side {pol : Policy} {now : Nat} {ledger : Ledger} {cands : List Cand} {a : Answer}
    (h : projectCands pol now ledger cands = some a) (opposing : Bool) :
    aggregate pol.den cands opposing = some (a.side opposing) := by
  obtain ⟨sup, sg, opp, og, h1, h2, rfl⟩ := projectCands_some h
  cases opposing
  · simpa [Answer.side] using h1
  · simpa [Answer.side] using h2

/-- **Repetition is not support, on stored rows**: record (anywhere in the order) one more eligible
Assertion about the target whose candidate `c` lands on side `opposing` and shares an actor or an
Evidence id with a candidate already on that side. -/
theorem project_repetition (pol : Policy) (now : Nat) (rows : List Row) (r : Row) (functional : Bool)
    (slot : List Nat) (target : Nat) (hr : r.prop = target) {c : Cand} (hc : candOf pol now r = some c)
    (opposing : Bool) (hside : onSide opposing c = true)
    (hshare : ∃ c' ∈ (collect pol now rows target (rivalsOf functional slot target)).2,
      onSide opposing c' = true ∧ ∃ k ∈ c'.keys, k ∈ c.keys)
    {rows' : List Row} (hperm : rows'.Perm (rows ++ [r])) :
    ∃ a a', project pol now rows functional slot target = some a ∧
      project pol now rows' functional slot target = some a' ∧
      a'.side (!opposing) = a.side (!opposing) ∧
      (a'.side opposing).2 ≤ (a.side opposing).2 ∧
      ((∃ h ∈ hitsOf c.keys (groupsSpec [] ((collect pol now rows target (rivalsOf functional slot target)).2.filter
          (onSide opposing))), c.conf ≤ h.2) → (a'.side opposing).1.le (a.side opposing).1) ∧
      (∀ h, hitsOf c.keys (groupsSpec [] ((collect pol now rows target (rivalsOf functional slot target)).2.filter
          (onSide opposing))) = [h] → c.conf ≤ h.2 → a'.side opposing = a.side opposing) := by
  obtain ⟨a, ha⟩ := project_total pol now rows functional slot target
  obtain ⟨a', b, ha', hb, same⟩ := project_perm pol now hperm functional slot target
  -- `a'` and `b` have the same sides
  have hsame : ∀ o, a'.side o = b.side o := by
    intro o; cases o
    · simp [Answer.side, same.support, same.supportGroups]
    · simp [Answer.side, same.opposition, same.oppositionGroups]
  refine ⟨a, a', ha, ha', ?_⟩
  rw [hsame, hsame]
  rw [project_eq] at ha hb
  obtain ⟨hp, _⟩ := collect_append_target pol now rows r target (rivalsOf functional slot target) hr
    (rivalsOf_not_mem functional slot target) hc
  obtain ⟨s, g, s', g', h1, h2, h3, h4, h5, h6, _⟩ :=
    aggregate_repetition pol.den _ c opposing hside hshare hp
  have e1 := projectCands_side ha opposing
  have e2 := projectCands_side hb opposing
  have e3 := projectCands_side ha (!opposing)
  have e4 := projectCands_side hb (!opposing)
  rw [h1] at e1; rw [h2] at e2; rw [h3, e3] at e4
  have e1' : a.side opposing = (s, g) := by simpa using e1.symm
  have e2' : b.side opposing = (s', g') := by simpa using e2.symm
  have e4' : b.side (!opposing) = a.side (!opposing) := by simpa using e4.symm
  rw [e1', e2']
  refine ⟨e4', h4, h5, ?_⟩
  intro h hone hle
  obtain ⟨hs, hg⟩ := h6 h hone hle
  rw [hs, hg]

end AndaVerif.Belief
