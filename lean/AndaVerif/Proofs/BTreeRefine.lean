import AndaVerif.Model.BTreeRef
import AndaVerif.Proofs.BTreeApi
import AndaVerif.Proofs.OMapScan
/-
Simulation between the API model (`Model/BTree`) and the structure-free reference (`Model/BTreeRef`).
-/
namespace AndaVerif
namespace BTree
namespace Ref

open OMap

/-- the pair set a map denotes -/
def Rel (m : OMap) (k : Int) (d : Nat) : Prop := ∃ p, m.lookup k = some p ∧ d ∈ p

structure MSim (m : OMap) (r : List (Int × Nat)) : Prop where
  wf : WF m
  nodup : r.Nodup
  rel : ∀ k d, (k, d) ∈ r ↔ Rel m k d

theorem rel_of_lookup {m : OMap} {k : Int} {p : List Nat} (h : m.lookup k = some p) (d : Nat) :
    Rel m k d ↔ d ∈ p := by
  constructor
  · rintro ⟨p', hp', hd⟩; rw [h] at hp'; cases hp'; exact hd
  · exact fun hd => ⟨p, h, hd⟩

theorem not_rel_of_none {m : OMap} {k : Int} (h : m.lookup k = none) (d : Nat) : ¬ Rel m k d := by
  rintro ⟨p, hp, _⟩; rw [h] at hp; cases hp

theorem has_iff {m : OMap} {r : List (Int × Nat)} (h : MSim m r) (k : Int) (d : Nat) :
    has r k d = true ↔ Rel m k d := by
  rw [← h.rel]; simp [has]

theorem occupied_iff {m : OMap} {r : List (Int × Nat)} (h : MSim m r) (k : Int) :
    occupied r k = true ↔ ∃ p, m.lookup k = some p := by
  simp only [occupied, List.any_eq_true, beq_iff_eq]
  constructor
  · rintro ⟨e, he, hk⟩
    have : (k, e.2) ∈ r := by rw [← hk]; exact he
    obtain ⟨p, hp, _⟩ := (h.rel k e.2).1 this
    exact ⟨p, hp⟩
  · rintro ⟨p, hp⟩
    have hne := (wf_lookup h.wf hp).1
    cases p with
    | nil => exact absurd rfl hne
    | cons d t =>
      exact ⟨(k, d), (h.rel k d).2 ⟨_, hp, by simp⟩, rfl⟩

theorem conflict_eq {m : OMap} {r : List (Int × Nat)} (h : MSim m r) (d : Nat) (k : Int) :
    conflict r d k = hasOther m d k := by
  unfold conflict hasOther
  cases hl : m.lookup k with
  | none =>
    have : occupied r k = false := by
      cases ho : occupied r k with
      | false => rfl
      | true => obtain ⟨p, hp⟩ := (occupied_iff h k).1 ho; rw [hl] at hp; cases hp
    simp [this]
  | some p =>
    have ho : occupied r k = true := (occupied_iff h k).2 ⟨p, hl⟩
    have hh : has r k d = p.contains d := by
      apply Bool.eq_iff_iff.2
      rw [has_iff h, rel_of_lookup hl]; simp
    simp [ho, hh]

theorem rel_ins (m : OMap) (hw : WF m) (k : Int) (d : Nat) (k' : Int) (d' : Nat) :
    Rel (m.ins k d) k' d' ↔ Rel m k' d' ∨ (k' = k ∧ d' = d) := by
  unfold Rel
  rw [lookup_ins k d m hw.1 k']
  by_cases e : k' = k
  · subst e
    simp only [if_true, Option.some.injEq, exists_eq_left', true_and]
    unfold insPosting
    cases hl : m.lookup k' with
    | none => simp
    | some p => simp [mem_pushUnique]
  · simp [e]

theorem msim_add {m : OMap} {r : List (Int × Nat)} (h : MSim m r) (k : Int) (d : Nat) (hn : ¬ Rel m k d) :
    MSim (m.ins k d) ((k, d) :: r) := by
  refine ⟨wf_ins k d m h.wf, ?_, ?_⟩
  · rw [List.nodup_cons]
    exact ⟨fun hm => hn ((h.rel k d).1 hm), h.nodup⟩
  · intro k' d'
    rw [rel_ins m h.wf, List.mem_cons, h.rel]
    constructor
    · rintro (e | h'); · cases e; exact Or.inr ⟨rfl, rfl⟩
      · exact Or.inl h'
    · rintro (h' | ⟨e1, e2⟩); · exact Or.inr h'
      · subst e1; subst e2; exact Or.inl rfl

theorem rel_del (m : OMap) (hw : WF m) (k : Int) (d : Nat) (k' : Int) (d' : Nat) :
    Rel (m.del k d) k' d' ↔ Rel m k' d' ∧ ¬ (k' = k ∧ d' = d) := by
  unfold Rel
  rw [lookup_del k d m hw.1 k']
  by_cases e : k' = k
  · subst e
    simp only [if_true, true_and]
    unfold delPosting
    cases hl : m.lookup k' with
    | none => simp
    | some p =>
      have hnd := (wf_lookup hw hl).2
      simp only [Option.some.injEq, exists_eq_left']
      by_cases hc : p.contains d = true
      · simp only [hc, if_true]
        by_cases he : (swapRemoveVal p d).isEmpty = true
        · simp only [he, if_true]
          have : swapRemoveVal p d = [] := by simpa using he
          constructor
          · rintro ⟨_, h', _⟩; cases h'
          · rintro ⟨hd', hne⟩
            have := (mem_swapRemoveVal p d d' hnd).2 ⟨hd', hne⟩
            rw [‹swapRemoveVal p d = []›] at this; cases this
        · simp only [he, Bool.false_eq_true, if_false, Option.some.injEq, exists_eq_left']
          exact mem_swapRemoveVal p d d' hnd
      · simp only [hc, Bool.false_eq_true, if_false, Option.some.injEq, exists_eq_left']
        have hd : d ∉ p := by simpa using hc
        constructor
        · intro hd'; exact ⟨hd', fun e => hd (e ▸ hd')⟩
        · exact fun h' => h'.1
  · simp [e]

theorem msim_drop {m : OMap} {r : List (Int × Nat)} (h : MSim m r) (k : Int) (d : Nat) :
    MSim (m.del k d) (drop r k d) := by
  refine ⟨wf_del k d m h.wf, List.Pairwise.filter _ h.nodup, ?_⟩
  intro k' d'
  rw [rel_del m h.wf, ← h.rel]
  simp only [drop, List.mem_filter, Bool.not_eq_true', beq_eq_false_iff_ne, ne_eq, Prod.mk.injEq]

-- loops --------------------------------------------------------------------------------------------

theorem hasOther_ins (m : OMap) (hw : WF m) (k : Int) (d : Nat) (k' : Int) (h : hasOther m d k' = false) :
    hasOther (m.ins k d) d k' = false := by
  unfold hasOther at h ⊢
  rw [lookup_ins k d m hw.1 k']
  by_cases e : k' = k
  · subst e
    simp only [if_true]
    unfold insPosting
    cases hl : m.lookup k' with
    | none => simp
    | some p => simp [mem_pushUnique]
  · simpa [e] using h

theorem sim_insertLoop (u : Bool) (d : Nat) : ∀ (ks : List Int) (m : OMap) (r : List (Int × Nat)) (n : Nat),
    MSim m r → (u = true → ∀ k ∈ ks, hasOther m d k = false) →
    MSim (insertLoop u d ks m n).1 (addMany d ks r n).1
      ∧ (insertLoop u d ks m n).2.1 = (addMany d ks r n).2
      ∧ (insertLoop u d ks m n).2.2 = false
  | [], m, r, n, h, _ => ⟨h, rfl, rfl⟩
  | k :: ks, m, r, n, h, hu => by
    simp only [insertLoop, addMany]
    have hrest : ∀ m', (∀ k', hasOther m d k' = false → hasOther m' d k' = false) →
        (u = true → ∀ k' ∈ ks, hasOther m' d k' = false) :=
      fun m' hm' hu' k' hk' => hm' k' (hu hu' k' (List.mem_cons_of_mem _ hk'))
    cases hl : m.lookup k with
    | none =>
      have hn : ¬ Rel m k d := not_rel_of_none hl d
      have hh : has r k d = false := by
        cases hc : has r k d with
        | false => rfl
        | true => exact absurd ((has_iff h k d).1 hc) hn
      simp only [hh, Bool.false_eq_true, if_false]
      exact sim_insertLoop u d ks _ _ _ (msim_add h k d hn) (hrest _ (fun k' => hasOther_ins m h.wf k d k'))
    | some p =>
      have hh : has r k d = p.contains d := by
        apply Bool.eq_iff_iff.2
        rw [has_iff h, rel_of_lookup hl]; simp
      by_cases hc : p.contains d = true
      · simp only [hh, hc, Bool.not_true, Bool.and_false, Bool.false_eq_true, if_false, if_true]
        exact sim_insertLoop u d ks m r n h (hrest m (fun _ h' => h'))
      · have hcf : p.contains d = false := by simpa using hc
        have hunot : u = false := by
          cases hu' : u with
          | false => rfl
          | true =>
            have hx := hu hu' k (by simp)
            have hnd : d ∉ p := by simpa using hcf
            simp [hasOther, hl] at hx
            exact absurd hx hnd
        have hn : ¬ Rel m k d := by rw [rel_of_lookup hl]; simpa using hcf
        simp only [hh, hcf, hunot, Bool.false_and, Bool.false_eq_true, if_false]
        exact sim_insertLoop false d ks _ _ _ (msim_add h k d hn) (fun hf => by cases hf)

theorem sim_removeLoop (d : Nat) : ∀ (ks : List Int) (m : OMap) (r : List (Int × Nat)) (n : Nat),
    MSim m r →
    MSim (removeLoop d ks m n).1 (dropMany d ks r n).1 ∧ (removeLoop d ks m n).2 = (dropMany d ks r n).2
  | [], m, r, n, h => ⟨h, rfl⟩
  | k :: ks, m, r, n, h => by
    simp only [removeLoop, dropMany]
    cases hl : m.lookup k with
    | none =>
      have hh : has r k d = false := by
        cases hc : has r k d with
        | false => rfl
        | true => exact absurd ((has_iff h k d).1 hc) (not_rel_of_none hl d)
      simp only [hh, Bool.false_eq_true, if_false]
      exact sim_removeLoop d ks m r n h
    | some p =>
      have hh : has r k d = p.contains d := by
        apply Bool.eq_iff_iff.2
        rw [has_iff h, rel_of_lookup hl]; simp
      simp only [hh]
      split
      · exact sim_removeLoop d ks _ _ _ (msim_drop h k d)
      · exact sim_removeLoop d ks m r n h

-- queries ------------------------------------------------------------------------------------------

theorem keysOf_eq {m : OMap} {r : List (Int × Nat)} (h : MSim m r) : keysOf r = m.keys := by
  apply ssorted_ext _ _ (ssorted_sortDedup _) h.wf.1
  intro k
  rw [mem_sortDedup]
  constructor
  · intro hk
    obtain ⟨e, he, hke⟩ := List.mem_map.1 hk
    have : (k, e.2) ∈ r := by rw [← hke]; exact he
    obtain ⟨p, hp, _⟩ := (h.rel k e.2).1 this
    exact mem_keys_of_lookup m k p hp
  · intro hk
    obtain ⟨p, hp⟩ := lookup_isSome_of_mem_keys m k hk
    have hne := (wf_lookup h.wf hp).1
    cases p with
    | nil => exact absurd rfl hne
    | cons d t => exact List.mem_map.2 ⟨(k, d), (h.rel k d).2 ⟨_, hp, by simp⟩, rfl⟩

theorem mem_idsOf (r : List (Int × Nat)) (k : Int) (d : Nat) : d ∈ idsOf r k ↔ (k, d) ∈ r := by
  simp only [idsOf, List.mem_map, List.mem_filter, beq_iff_eq]
  constructor
  · rintro ⟨e, ⟨he, hk⟩, hd⟩; rw [← hk, ← hd]; exact he
  · intro h; exact ⟨(k, d), ⟨h, rfl⟩, rfl⟩

theorem nodup_idsOf : ∀ (r : List (Int × Nat)) (k : Int), r.Nodup → (idsOf r k).Nodup
  | [], _, _ => by simp [idsOf]
  | e :: r, k, h => by
    rw [List.nodup_cons] at h
    have ih := nodup_idsOf r k h.2
    by_cases hk : e.1 = k
    · have : idsOf (e :: r) k = e.2 :: idsOf r k := by simp [idsOf, hk]
      rw [this, List.nodup_cons]
      refine ⟨fun hm => h.1 ?_, ih⟩
      have := (mem_idsOf r k e.2).1 hm
      rw [← hk] at this; exact this
    · have : idsOf (e :: r) k = idsOf r k := by simp [idsOf, hk]
      rw [this]; exact ih

theorem idsOf_perm {m : OMap} {r : List (Int × Nat)} (h : MSim m r) {k : Int} {p : List Nat}
    (hl : m.lookup k = some p) : p.Perm (idsOf r k) := by
  rw [List.perm_ext_iff_of_nodup (wf_lookup h.wf hl).2 (nodup_idsOf r k h.nodup)]
  intro d
  rw [mem_idsOf, h.rel, rel_of_lookup hl]

theorem groupsEquiv_of_entries {m : OMap} {r : List (Int × Nat)} (h : MSim m r) :
    ∀ l : List (Int × List Nat), (∀ e ∈ l, m.lookup e.1 = some e.2) →
      groupsEquiv l (l.map (fun e => (e.1, idsOf r e.1)))
  | [], _ => trivial
  | e :: l, hl => by
    show e.1 = e.1 ∧ e.2.Perm (idsOf r e.1) ∧ groupsEquiv l (l.map (fun e => (e.1, idsOf r e.1)))
    exact ⟨rfl, idsOf_perm h (hl e (by simp)), groupsEquiv_of_entries h l (fun e' he' => hl e' (List.mem_cons_of_mem _ he'))⟩

theorem groupsEquiv_length : ∀ (a b : List (Int × List Nat)), groupsEquiv a b → a.length = b.length
  | [], [], _ => rfl
  | [], _ :: _, h => by cases h
  | _ :: _, [], h => by cases h
  | _ :: a, _ :: b, h => by simp [groupsEquiv_length a b h.2.2]

theorem groupsEquiv_take : ∀ (n : Nat) (a b : List (Int × List Nat)), groupsEquiv a b → groupsEquiv (a.take n) (b.take n)
  | 0, _, _, _ => by simp [groupsEquiv]
  | _ + 1, [], [], _ => by simp [groupsEquiv]
  | _ + 1, [], _ :: _, h => by cases h
  | _ + 1, _ :: _, [], h => by cases h
  | n + 1, _ :: a, _ :: b, h => by
    simp only [List.take_succ_cons, groupsEquiv]
    exact ⟨h.1, h.2.1, groupsEquiv_take n a b h.2.2⟩

theorem groupsEquiv_drop : ∀ (n : Nat) (a b : List (Int × List Nat)), groupsEquiv a b → groupsEquiv (a.drop n) (b.drop n)
  | 0, _, _, h => by simpa using h
  | _ + 1, [], [], _ => by simp [groupsEquiv]
  | _ + 1, [], _ :: _, h => by cases h
  | _ + 1, _ :: _, [], h => by cases h
  | n + 1, _ :: a, _ :: b, h => by
    simp only [List.drop_succ_cons]
    exact groupsEquiv_drop n a b h.2.2

theorem groupsEquiv_cut (desc : Bool) (stop : Option Nat) (a b : List (Int × List Nat)) (h : groupsEquiv a b) :
    groupsEquiv (cut desc stop a) (cut desc stop b) := by
  unfold cut
  cases stop with
  | none => exact h
  | some n =>
    simp only
    split
    · rw [groupsEquiv_length a b h]; exact groupsEquiv_drop _ a b h
    · exact groupsEquiv_take _ a b h

/-- the model's range answer in closed form -/
theorem scan_closed (m : OMap) (hw : WF m) (q : RQ Int) (hq : q.depth ≤ RQ.maxDepth) (desc : Bool)
    (stop : Option Nat) (odd : EmitMode) :
    m.scan q desc (cbStop stop (emit odd)) 0
      = ((cut desc stop (matching m q)).map (fun g => emit odd g.1 g.2)).flatten := by
  have h := scan_both_directions_aux m hw q hq (emit odd)
  cases stop with
  | none => cases desc <;> simp [cut, h.2.2, matching]
  | some n =>
    cases desc
    · simp only [cut, Bool.false_eq_true, if_false, (h.1 n), matching, List.map_take]
    · simp only [cut, if_true, (h.2.1 n), matching, List.map_drop, List.length_map]
where
  scan_both_directions_aux {ρ : Type} (m : OMap) (h : WF m) (q : RQ Int) (hq : q.depth ≤ RQ.maxDepth)
      (g : Int → List Nat → List ρ) :
      (∀ n, m.scan q false (cbStop (some n) g) 0
          = (((m.filter (fun e => q.matches e.1)).map (fun e => g e.1 e.2)).take (max n 1)).flatten)
      ∧ (∀ n, m.scan q true (cbStop (some n) g) 0
          = (((m.filter (fun e => q.matches e.1)).map (fun e => g e.1 e.2)).drop
              (((m.filter (fun e => q.matches e.1)).map (fun e => g e.1 e.2)).length - max n 1)).flatten)
      ∧ (∀ d, m.scan q d (cbStop none g) 0
          = ((m.filter (fun e => q.matches e.1)).map (fun e => g e.1 e.2)).flatten) := by
    refine ⟨fun n => ?_, fun n => ?_, fun d => ?_⟩
    · simp only [scan_eq_walk m h q hq, scanSpec, matching, Bool.false_eq_true, if_false,
        walkEntries_cbStop_some, Nat.sub_zero, List.map_take]
    · simp only [scan_eq_walk m h q hq, scanSpec, matching, if_true, walkEntries_cbStop_some, Nat.sub_zero]
      rw [List.take_reverse, List.map_reverse, List.reverse_reverse, List.map_drop, List.length_map]
    · cases d
      · simp only [scan_eq_walk m h q hq, scanSpec, matching, Bool.false_eq_true, if_false, walkEntries_cbStop_none]
      · simp only [scan_eq_walk m h q hq, scanSpec, matching, if_true, walkEntries_cbStop_none]
        rw [List.map_reverse, List.reverse_reverse]

theorem groups_equiv {m : OMap} {r : List (Int × Nat)} (h : MSim m r) (q : RQ Int) :
    groupsEquiv (matching m q) (groups r q) := by
  have hk : (keysOf r).filter q.matches = (matching m q).map (·.1) := by
    rw [keysOf_eq h]; simp only [keys, matching, List.filter_map]; rfl
  have : groups r q = (matching m q).map (fun e => (e.1, idsOf r e.1)) := by
    simp only [groups, hk, List.map_map]; rfl
  rw [this]
  apply groupsEquiv_of_entries h
  intro e he
  exact lookup_of_mem m h.wf.1 e.1 e.2 (List.mem_filter.1 he).1

-- states -------------------------------------------------------------------------------------------

structure Sim (s : State) (r : RState) : Prop where
  ms : MSim s.map r.rel
  unique : r.unique = s.unique
  ic : r.insertCount = s.insertCount
  dc : r.deleteCount = s.deleteCount
  qc : r.queryCount = s.queryCount

theorem sim_init (u : Bool) : Sim (init u) (rinit u) :=
  ⟨⟨wf_nil, List.nodup_nil, fun k d => by simp [init, rinit, Rel, lookup]⟩, rfl, rfl, rfl, rfl⟩

theorem outEquiv_refl (o : Out) : OutEquiv o o := by
  cases o with
  | posting p => cases p <;> simp [OutEquiv]
  | pairs a =>
    refine ⟨.all, a.map (fun e => (e.1, [e.2])), a.map (fun e => (e.1, [e.2])), ?_, ?_, ?_⟩
    · induction a with
      | nil => trivial
      | cons e a ih => exact ⟨rfl, List.Perm.refl _, ih⟩
    · induction a with
      | nil => rfl
      | cons e a ih => simp only [List.map_cons, List.flatten_cons, ← ih]; simp [emit]
    · induction a with
      | nil => rfl
      | cons e a ih => simp only [List.map_cons, List.flatten_cons, ← ih]; simp [emit]
  | _ => simp [OutEquiv]

theorem sim_insertArray {s : State} {r : RState} (h : Sim s r) (d : Nat) (ks : List Int) :
    Sim (BTree.insertArray s d ks).1 (Ref.insertArray r d ks).1
      ∧ (BTree.insertArray s d ks).2 = (Ref.insertArray r d ks).2 := by
  unfold BTree.insertArray Ref.insertArray
  split
  · exact ⟨h, rfl⟩
  · have hany : ks.any (conflict r.rel d) = ks.any (hasOther s.map d) := by
      congr 1; funext k; exact conflict_eq h.ms d k
    rw [h.unique, hany]
    split
    · exact ⟨h, rfl⟩
    · rename_i hnc
      have hpre : s.unique = true → ∀ k ∈ ks, hasOther s.map d k = false := by
        intro hu k hk
        cases hc : hasOther s.map d k with
        | false => rfl
        | true =>
          exfalso; apply hnc
          simp only [hu, Bool.true_and, List.any_eq_true]
          exact ⟨k, hk, hc⟩
      have := sim_insertLoop s.unique d ks s.map r.rel 0 h.ms hpre
      simp only [this.2.2, Bool.false_eq_true, if_false]
      refine ⟨⟨this.1, rfl, ?_, h.dc, h.qc⟩, by rw [this.2.1]⟩
      simp only [h.ic, this.2.1]

theorem sim_removeArrayCore {s : State} {r : RState} (h : Sim s r) (d : Nat) (ks : List Int) :
    Sim (BTree.removeArrayCore s d ks).1 (Ref.removeArrayCore r d ks).1
      ∧ (BTree.removeArrayCore s d ks).2 = (Ref.removeArrayCore r d ks).2 := by
  unfold BTree.removeArrayCore Ref.removeArrayCore
  have := sim_removeLoop d ks s.map r.rel 0 h.ms
  refine ⟨⟨this.1, h.unique, h.ic, ?_, h.qc⟩, this.2⟩
  simp only [h.dc, this.2]

theorem sim_step {s : State} {r : RState} (h : Sim s r) (op : Op) (hd : depthOk op) :
    Sim (BTree.step s op).1 (Ref.step r op).1 ∧ OutEquiv (BTree.step s op).2 (Ref.step r op).2 := by
  cases op with
  | insert d k =>
    simp only [BTree.step, Ref.step, BTree.insert]
    rw [h.unique, conflict_eq h.ms d k]
    unfold hasOther
    cases hl : s.map.lookup k with
    | none =>
      have hn : ¬ Rel s.map k d := not_rel_of_none hl d
      have hh : has r.rel k d = false := by
        cases hc : has r.rel k d with
        | false => rfl
        | true => exact absurd ((has_iff h.ms k d).1 hc) hn
      simp only [Bool.and_false, Bool.false_eq_true, if_false, hh]
      exact ⟨⟨msim_add h.ms k d hn, rfl, by simp [h.ic], h.dc, h.qc⟩, outEquiv_refl _⟩
    | some p =>
      have hh : has r.rel k d = p.contains d := by
        apply Bool.eq_iff_iff.2
        rw [has_iff h.ms, rel_of_lookup hl]; simp
      simp only [hh]
      split
      · exact ⟨h, outEquiv_refl _⟩
      · split
        · exact ⟨h, outEquiv_refl _⟩
        · rename_i _ hc
          have hn : ¬ Rel s.map k d := by rw [rel_of_lookup hl]; simpa using hc
          exact ⟨⟨msim_add h.ms k d hn, rfl, by simp [h.ic], h.dc, h.qc⟩, outEquiv_refl _⟩
  | remove d k =>
    simp only [BTree.step, Ref.step, BTree.remove]
    cases hl : s.map.lookup k with
    | none =>
      have hh : has r.rel k d = false := by
        cases hc : has r.rel k d with
        | false => rfl
        | true => exact absurd ((has_iff h.ms k d).1 hc) (not_rel_of_none hl d)
      simp only [hh, Bool.false_eq_true, if_false]
      exact ⟨h, outEquiv_refl _⟩
    | some p =>
      have hh : has r.rel k d = p.contains d := by
        apply Bool.eq_iff_iff.2
        rw [has_iff h.ms, rel_of_lookup hl]; simp
      simp only [hh]
      split
      · exact ⟨⟨msim_drop h.ms k d, h.unique, h.ic, by simp [h.dc], h.qc⟩, outEquiv_refl _⟩
      · exact ⟨h, outEquiv_refl _⟩
  | insertArray d ks =>
    have := sim_insertArray h d ks
    simp only [BTree.step, Ref.step]
    exact ⟨this.1, by rw [this.2]; exact outEquiv_refl _⟩
  | removeArray d ks =>
    have := sim_removeArrayCore h d ks
    simp only [BTree.step, Ref.step, BTree.removeArray]
    exact ⟨this.1, by rw [this.2]; exact outEquiv_refl _⟩
  | batchUpdate d old new =>
    simp only [BTree.step, Ref.step, BTree.batchUpdate]
    generalize List.filter (fun k => !old.contains k) new.eraseDups = l
    generalize List.filter (fun k => !new.contains k) old.eraseDups = l'
    have h1 : Sim (if l.isEmpty = true then (s, Out.okN 0) else BTree.insertArray s d l).1
          (if l.isEmpty = true then (r, Out.okN 0) else Ref.insertArray r d l).1
        ∧ (if l.isEmpty = true then (s, Out.okN 0) else BTree.insertArray s d l).2
          = (if l.isEmpty = true then (r, Out.okN 0) else Ref.insertArray r d l).2 := by
      split
      · exact ⟨h, rfl⟩
      · exact sim_insertArray h d l
    generalize (if l.isEmpty = true then (s, Out.okN 0) else BTree.insertArray s d l) = a at h1
    generalize (if l.isEmpty = true then (r, Out.okN 0) else Ref.insertArray r d l) = b at h1
    obtain ⟨a1, a2⟩ := a
    obtain ⟨b1, b2⟩ := b
    simp only at h1
    obtain ⟨h1s, h1o⟩ := h1
    subst h1o
    cases a2 with
    | okN inserted =>
      simp only
      have h2 : Sim (if l'.isEmpty = true then (a1, 0) else BTree.removeArrayCore a1 d l').1
            (if l'.isEmpty = true then (b1, 0) else Ref.removeArrayCore b1 d l').1
          ∧ (if l'.isEmpty = true then (a1, 0) else BTree.removeArrayCore a1 d l').2
            = (if l'.isEmpty = true then (b1, 0) else Ref.removeArrayCore b1 d l').2 := by
        split
        · exact ⟨h1s, rfl⟩
        · exact sim_removeArrayCore h1s d l'
      exact ⟨h2.1, by rw [h2.2]; exact outEquiv_refl _⟩
    | _ => exact ⟨h1s, outEquiv_refl _⟩
  | get k =>
    simp only [BTree.step, Ref.step]
    refine ⟨⟨h.ms, h.unique, h.ic, h.dc, by simp [h.qc]⟩, ?_⟩
    cases hl : s.map.lookup k with
    | none =>
      have : occupied r.rel k = false := by
        cases ho : occupied r.rel k with
        | false => rfl
        | true => obtain ⟨p, hp⟩ := (occupied_iff h.ms k).1 ho; rw [hl] at hp; cases hp
      simp [this, OutEquiv]
    | some p =>
      have ho : occupied r.rel k = true := (occupied_iff h.ms k).2 ⟨p, hl⟩
      simp only [ho, if_true, OutEquiv]
      exact idsOf_perm h.ms hl
  | len =>
    simp only [BTree.step, Ref.step, keysOf_eq h.ms, keys, List.length_map]
    exact ⟨h, outEquiv_refl _⟩
  | keys c l =>
    simp only [BTree.step, Ref.step, keysOf_eq h.ms, keysFrom]
    exact ⟨h, outEquiv_refl _⟩
  | range desc stop odd q =>
    simp only [BTree.step, Ref.step]
    have hempty : r.rel.isEmpty = s.map.isEmpty := by
      have hk := keysOf_eq h.ms
      cases hm : s.map with
      | nil =>
        cases hr : r.rel with
        | nil => rfl
        | cons e t =>
          have : (e.1, e.2) ∈ r.rel := by rw [hr]; simp
          obtain ⟨p, hp, _⟩ := (h.ms.rel e.1 e.2).1 this
          rw [hm] at hp; cases hp
      | cons e t =>
        cases hr : r.rel with
        | nil => rw [hr, hm] at hk; simp [keysOf, sortDedup, keys] at hk
        | cons e' t' => rfl
    refine ⟨⟨h.ms, h.unique, h.ic, h.dc, ?_⟩, ?_⟩
    · simp [rangeCounts, hempty, h.qc]
    · rw [scan_closed s.map h.ms.wf q hd desc stop odd]
      exact ⟨odd, _, _, groupsEquiv_cut desc stop _ _ (groups_equiv h.ms q), rfl, rfl⟩
  | stats =>
    simp only [BTree.step, Ref.step, keysOf_eq h.ms, keys, List.length_map, h.ic, h.dc, h.qc]
    exact ⟨h, outEquiv_refl _⟩

theorem sim_run : ∀ (ops : List Op) (s : State) (r : RState), Sim s r → (∀ op ∈ ops, depthOk op) →
    Sim (BTree.run s ops).1 (Ref.run r ops).1 ∧ outsEquiv (BTree.run s ops).2 (Ref.run r ops).2
  | [], _, _, h, _ => ⟨h, trivial⟩
  | op :: ops, s, r, h, hd => by
    have h1 := sim_step h op (hd op (by simp))
    have h2 := sim_run ops _ _ h1.1 (fun op' h' => hd op' (List.mem_cons_of_mem _ h'))
    simp only [BTree.run, Ref.run, outsEquiv]
    exact ⟨h2.1, h1.2, h2.2⟩

end Ref
end BTree
end AndaVerif
