import AndaVerif.Model.ConcColl
namespace AndaVerif.ConcColl

def Thread.isAdd (th : Thread) : Bool := match th.op with | .add _ => true | _ => false

/-- Case analysis of one thread action: one goal per leaf of `stepThread`, with the successor
state substituted. -/
macro "step_cases" h:ident : tactic => `(tactic| (
  unfold stepThread at $h:ident
  split at $h:ident
  all_goals
    simp only [stepAdd, stepUpd, stepRm, stepGet, stepFlush, stepExt, addPhase, addPhaseU,
      flushAfterIdx, flushAfterIds] at $h:ident
    repeat' split at $h:ident
  all_goals try (simp only [Option.some.injEq, Prod.mk.injEq, reduceCtorEq] at $h:ident)
  all_goals try (rcases $h:ident with ⟨h1, h2⟩; subst h1; subst h2)))

theorem stepThread_op (sh : Shared) (t : Nat) (th : Thread) (sh' : Shared) (th' : Thread)
    (h : stepThread sh t th = some (sh', th')) : th'.op = th.op := by
  step_cases h
  all_goals simp_all [fin]

theorem stepThread_maxId (sh : Shared) (t : Nat) (th : Thread) (sh' : Shared) (th' : Thread)
    (h : stepThread sh t th = some (sh', th')) : sh.maxId ≤ sh'.maxId := by
  step_cases h
  all_goals simp [enter, leave, fin, unlockGate, unlockDoc, lockDoc, rmBitmap, rmIndexes, addRollback, updRollback]
  all_goals trace_state; sorry

end AndaVerif.ConcColl
