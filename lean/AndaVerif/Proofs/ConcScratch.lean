import AndaVerif.Model.ConcColl
namespace AndaVerif.ConcColl

def Thread.isMut (th : Thread) : Bool :=
  match th.op with | .add _ => true | .upd _ _ _ _ => true | .rm _ => true | .ext _ _ => true | _ => false
def Thread.isFlush (th : Thread) : Bool := match th.op with | .flush => true | _ => false

/-- Case analysis of one thread action: one goal per leaf of `stepThread`, with the successor
state substituted. -/
macro "step_cases" h:ident : tactic => `(tactic| (
  unfold stepThread at $h:ident
  split at $h:ident
  all_goals
    simp only [stepAdd, stepUpd, stepRm, stepGet, stepFlush, stepExt, addPhase, addPhaseU,
      flushAfterIdx, flushAfterIds] at $h:ident
    repeat' split at $h:ident
  all_goals try (simp only [Option.some.injEq, Prod.mk.injEq, reduceCtorEq] at $h:ident)
  all_goals try (rcases $h:ident with ⟨h1, h2⟩; subst h1; subst h2)))

theorem stepThread_gate (sh : Shared) (t : Nat) (th : Thread) (sh' : Shared) (th' : Thread)
    (h : stepThread sh t th = some (sh', th')) :
    th'.op = th.op ∧ th.pc ≠ .done ∧ th'.pc ≠ .idle ∧
    (th.isMut = true →
      sh'.writer = sh.writer ∧ (th.pc = .idle → sh.writer = none) ∧
      sh'.readers = (if th'.pc = .done then List.filter (· != t) else id)
        ((if th.pc = .idle then (t :: ·) else id) sh.readers)) ∧
    (th.isFlush = true →
      sh'.readers = sh.readers ∧ (th.pc = .idle → sh.writer = none ∧ sh.readers = []) ∧
      sh'.writer = (if th'.pc = .done then none else if th.pc = .idle then some t else sh.writer)) ∧
    (th.isMut = false → th.isFlush = false → sh'.readers = sh.readers ∧ sh'.writer = sh.writer) := by
  step_cases h
  all_goals simp_all [Thread.isMut, Thread.isFlush, enter, leave, fin, unlockGate, unlockDoc, lockDoc, rmBitmap, rmIndexes, addRollback, updRollback]
  all_goals trace_state; sorry

end AndaVerif.ConcColl
