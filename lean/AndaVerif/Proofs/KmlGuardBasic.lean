import AndaVerif.Model.KmlSafe
/-
C16 helper lemmas, part 1: sequencing, key checks, and the proof that `validate_clause` visits every
assignment / unset block that the specification `keyBlocks` lists.
-/
namespace AndaVerif.KmlGuard

open AndaVerif.Gen

deriving instance DecidableEq for Except

/-- the generated scans say `every` at every site, so `scanned` is the identity (kernel-checked on the
regenerated table: a guard that stops early in the source breaks exactly these facts) -/
theorem scanned_every {α : Type} (site : String) (h : scanOf site = "every") (xs : List α) : scanned site xs = xs := by
  simp [scanned, h]

@[simp] theorem scanned_keys {α : Type} (xs : List α) : scanned "validate_clause.keys" xs = xs := scanned_every _ (by decide) xs
@[simp] theorem scanned_facets {α : Type} (xs : List α) : scanned "validate_clause.facets" xs = xs := scanned_every _ (by decide) xs
@[simp] theorem scanned_unset_facets {α : Type} (xs : List α) : scanned "validate_clause.unset_facets" xs = xs := scanned_every _ (by decide) xs
@[simp] theorem scanned_update_actions {α : Type} (xs : List α) : scanned "validate_clause.update_actions" xs = xs := scanned_every _ (by decide) xs
@[simp] theorem scanned_guard_actions {α : Type} (xs : List α) : scanned "guard_update.actions" xs = xs := scanned_every _ (by decide) xs
@[simp] theorem scanned_guard_kinds {α : Type} (xs : List α) : scanned "guard_update.kinds" xs = xs := scanned_every _ (by decide) xs
@[simp] theorem scanned_guard_fields {α : Type} (xs : List α) : scanned "guard_update.fields" xs = xs := scanned_every _ (by decide) xs

theorem andThen_ok {a : Res} {b : Unit → Res} : andThen a b = .ok () ↔ a = .ok () ∧ b () = .ok () := by
  cases a with
  | error e => simp [andThen]
  | ok u => cases u; simp [andThen]

theorem isProtected_false {k : String} (h : isProtected k = false) : k ∉ KipGuardTables.protectedFields := by
  simpa [isProtected] using h

theorem checkKeys_ok : ∀ (ks seen : List String), checkKeys ks seen = .ok () →
    (∀ k ∈ ks, k ∉ KipGuardTables.protectedFields) ∧ ks.Nodup ∧ (∀ k ∈ ks, k ∉ seen) := by
  intro ks
  induction ks with
  | nil => intro seen _; simp
  | cons k ks ih =>
    intro seen h
    unfold checkKeys at h
    split at h
    · cases h
    · rename_i hp
      split at h
      · cases h
      · rename_i hs
        have := ih (k :: seen) h
        obtain ⟨h1, h2, h3⟩ := this
        have hp' : k ∉ KipGuardTables.protectedFields := isProtected_false (by simpa using hp)
        have hs' : k ∉ seen := by simpa using hs
        refine ⟨?_, ?_, ?_⟩
        · intro x hx
          rcases List.mem_cons.mp hx with rfl | hx
          · exact hp'
          · exact h1 x hx
        · refine List.nodup_cons.mpr ⟨?_, h2⟩
          intro hk
          exact (h3 k hk) (List.mem_cons_self)
        · intro x hx
          rcases List.mem_cons.mp hx with rfl | hx
          · exact hs'
          · intro hxs
            exact (h3 x hx) (List.mem_cons_of_mem _ hxs)

theorem checkUnset_ok {fs : List String} (h : checkUnset fs = .ok ()) : KeysSafe fs := by
  have := checkKeys_ok fs [] h
  exact ⟨this.1, this.2.1⟩

theorem checkAssignments_split {a : Assignments} (h : checkAssignments a = .ok ()) :
    checkKeys (a.map Prod.fst) [] = .ok () ∧ validateValues a = .ok () := by
  unfold checkAssignments at h
  split at h
  · cases h
  · rename_i u hk
    cases u
    exact ⟨hk, h⟩

theorem checkAssignments_keys {a : Assignments} (h : checkAssignments a = .ok ()) : KeysSafe (assignKeys a) := by
  have := checkKeys_ok _ [] (checkAssignments_split h).1
  exact ⟨this.1, this.2.1⟩

theorem checkOptAssignments_keys {o : Option Assignments} (h : checkOptAssignments o = .ok ()) :
    ∀ b ∈ optAssignKeys o, KeysSafe b := by
  cases o with
  | none => simp [optAssignKeys]
  | some a =>
    intro b hb
    simp [optAssignKeys] at hb
    subst hb
    exact checkAssignments_keys h

theorem checkFacets_keys : ∀ (fs : List FacetAssignment), checkFacets fs = .ok () → ∀ b ∈ facetKeys fs, KeysSafe b := by
  intro fs
  induction fs with
  | nil => intro _ b hb; simp [facetKeys] at hb
  | cons f fs ih =>
    intro h b hb
    unfold checkFacets at h
    split at h
    · cases h
    · rename_i u hf
      cases u
      simp [facetKeys] at hb
      rcases hb with rfl | ⟨g, hg, rfl⟩
      · exact checkAssignments_keys hf
      · exact ih h _ (by simp [facetKeys]; exact ⟨g, hg, rfl⟩)

theorem checkFacetUnsets_keys : ∀ (fs : List FacetUnset), checkFacetUnsets fs = .ok () → ∀ b ∈ facetUnsetKeys fs, KeysSafe b := by
  intro fs
  induction fs with
  | nil => intro _ b hb; simp [facetUnsetKeys] at hb
  | cons f fs ih =>
    intro h b hb
    unfold checkFacetUnsets at h
    split at h
    · cases h
    · rename_i u hf
      cases u
      simp [facetUnsetKeys] at hb
      rcases hb with rfl | ⟨g, hg, rfl⟩
      · exact checkUnset_ok hf
      · exact ih h _ (by simp [facetUnsetKeys]; exact ⟨g, hg, rfl⟩)

/-- one action accepted by the per-action match of the `Update` arm -/
def actionCheck (a : UpdateAction) : Res :=
  match a with
  | .setFields asg => checkAssignments asg
  | .setAttributes asg => checkAssignments asg
  | .setFacet f => checkAssignments f.values
  | .unsetAttributes fs => checkUnset fs
  | .unsetFacet f => checkUnset f.fields
  | .unsetStructural rs => if rs.isEmpty then .error .emptyUnsetStructural else validateRemovalValues rs
  | .setStructural es => validateStructuralEdges es

theorem validateActions_all : ∀ (as : List UpdateAction), validateActions as = .ok () → ∀ a ∈ as, actionCheck a = .ok () := by
  intro as
  induction as with
  | nil => intro _ a ha; cases ha
  | cons x xs ih =>
    intro h a ha
    unfold validateActions at h
    simp only at h
    split at h
    · cases h
    · rename_i u hx
      cases u
      rcases List.mem_cons.mp ha with rfl | ha
      · exact hx
      · exact ih h a ha

theorem actionCheck_keys {a : UpdateAction} (h : actionCheck a = .ok ()) : ∀ b ∈ a.keyBlocks, KeysSafe b := by
  intro b hb
  cases a <;> simp [UpdateAction.keyBlocks] at hb <;> subst hb <;> simp only [actionCheck] at h
  · exact checkAssignments_keys h
  · exact checkAssignments_keys h
  · exact checkAssignments_keys h
  · exact checkUnset_ok h
  · exact checkUnset_ok h

theorem validateActions_keys {as : List UpdateAction} (h : validateActions as = .ok ()) :
    ∀ b ∈ as.flatMap UpdateAction.keyBlocks, KeysSafe b := by
  intro b hb
  obtain ⟨a, ha, hb⟩ := List.mem_flatMap.mp hb
  exact actionCheck_keys (validateActions_all as h a ha) b hb

theorem validateRecordCreate_keys {c : RecordCreate} (h : validateRecordCreate c = .ok ()) :
    ∀ b ∈ optAssignKeys c.setFields ++ facetKeys c.setFacets, KeysSafe b := by
  simp only [validateRecordCreate, andThen_ok] at h
  intro b hb
  rcases List.mem_append.mp hb with hb | hb
  · exact checkOptAssignments_keys h.1 b hb
  · exact checkFacets_keys _ h.2.1 b hb

theorem validateUpsert_parts {c : ConceptUpsert} (h : validateUpsert c = .ok ()) :
    checkOptAssignments c.setFields = .ok () ∧ checkOptAssignments c.setAttributes = .ok () ∧
    checkFacets c.setFacets = .ok () ∧
    (match c.unsetAttributes with | none => (.ok () : Res) | some fs => checkUnset fs) = .ok () ∧
    checkFacetUnsets c.unsetFacets = .ok () ∧ checkOptEdges c.setStructural = .ok () := by
  simp only [validateUpsert, andThen_ok] at h
  exact ⟨h.1, h.2.1, h.2.2.1, h.2.2.2.1, h.2.2.2.2.1, h.2.2.2.2.2.1⟩

/-- `validate_clause` visits every block `keyBlocks` lists -/
theorem validateClauseBody_keys {c : MutationClause} (h : validateClauseBody c = .ok ()) :
    ∀ b ∈ keyBlocks c, KeysSafe b := by
  intro b hb
  cases c with
  | createConcept c =>
    simp only [validateClauseBody, andThen_ok] at h
    simp only [keyBlocks, List.mem_append] at hb
    rcases hb with (hb | hb) | hb
    · exact checkOptAssignments_keys h.1 b hb
    · exact checkOptAssignments_keys h.2.1 b hb
    · exact checkFacets_keys _ h.2.2.1 b hb
  | upsertConcept c =>
    simp only [validateClauseBody] at h
    have hp := validateUpsert_parts h
    simp only [keyBlocks, List.mem_append] at hb
    rcases hb with (((hb | hb) | hb) | hb) | hb
    · exact checkOptAssignments_keys hp.1 b hb
    · exact checkOptAssignments_keys hp.2.1 b hb
    · exact checkFacets_keys _ hp.2.2.1 b hb
    · have h4 := hp.2.2.2.1
      cases hu : c.unsetAttributes with
      | none => simp [hu, optUnsetKeys] at hb
      | some fs =>
        simp [hu, optUnsetKeys] at hb
        subst hb
        rw [hu] at h4
        exact checkUnset_ok h4
    · exact checkFacetUnsets_keys _ hp.2.2.2.2.1 b hb
  | createEvidence c => exact validateRecordCreate_keys (by simpa [validateClauseBody] using h) b (by simpa [keyBlocks] using hb)
  | createAssertion c => exact validateRecordCreate_keys (by simpa [validateClauseBody] using h) b (by simpa [keyBlocks] using hb)
  | createActivity c => exact validateRecordCreate_keys (by simpa [validateClauseBody] using h) b (by simpa [keyBlocks] using hb)
  | update c =>
    simp only [validateClauseBody, validateUpdate, andThen_ok] at h
    exact validateActions_keys h.1 b (by simpa [keyBlocks] using hb)
  | transitionActivity c =>
    simp only [validateClauseBody, andThen_ok] at h
    exact checkOptAssignments_keys h.1 b (by simpa [keyBlocks] using hb)
  | setRetention c =>
    simp only [validateClauseBody] at h
    simp [keyBlocks] at hb
    subst hb
    exact checkAssignments_keys h
  | ensureProposition c => simp [keyBlocks] at hb
  | retractAssertion c => simp [keyBlocks] at hb
  | supersedeAssertion c => simp [keyBlocks] at hb
  | correctEvidence c => simp [keyBlocks] at hb
  | archive c => simp [keyBlocks] at hb
  | tombstone c => simp [keyBlocks] at hb
  | purge c => simp [keyBlocks] at hb
  | mergeConcept c => simp [keyBlocks] at hb

theorem validateClause_split {c : MutationClause} (h : validateClause c = .ok ()) :
    validateOptWhere (clauseWhere c) = .ok () ∧ validateClauseBody c = .ok () := by
  simpa only [validateClause, andThen_ok] using h

theorem validateClauses_all : ∀ (cs : List MutationClause), validateClauses cs = .ok () → ∀ c ∈ cs, validateClause c = .ok () := by
  intro cs
  induction cs with
  | nil => intro _ c hc; cases hc
  | cons x xs ih =>
    intro h c hc
    unfold validateClauses at h
    split at h
    · cases h
    · rename_i u hx
      cases u
      rcases List.mem_cons.mp hc with rfl | hc
      · exact hx
      · exact ih h c hc

end AndaVerif.KmlGuard
