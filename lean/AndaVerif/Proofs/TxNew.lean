import AndaVerif.Proofs.TxStaged
/-
A row staged as *new* sits at an id this very transaction minted (a shell): `CREATE …` stages at
the id its handle was declared with in phase 1, UPSERT / ENSURE stage at the id they just minted.
-/
namespace AndaVerif.Tx

/-- the handle a clause declares in phase 1 (`clauses::declare_handles`) -/
def declares : Clause → Option Nat
  | .createConcept h .. => some h
  | .createRec _ h .. => some h
  | _ => none

theorem hGet_append_some {m : List (Nat × Id)} {h h' : Nat} {i i' : Id} (hg : hGet m h = some i) :
    hGet (m ++ [(h', i')]) h = some i := by
  induction m with
  | nil => cases hg
  | cons p r ih =>
      obtain ⟨k, j⟩ := p
      simp only [List.cons_append, hGet] at hg ⊢
      split
      · rename_i hk; simp only [hk, if_true] at hg; exact hg
      · rename_i hk; simp only [hk, if_false] at hg; exact ih hg

theorem hGet_append_none {m : List (Nat × Id)} {h : Nat} {i : Id} (hg : hGet m h = none) :
    hGet (m ++ [(h, i)]) h = some i := by
  induction m with
  | nil => simp [hGet]
  | cons p r ih =>
      obtain ⟨k, j⟩ := p
      simp only [List.cons_append, hGet] at hg ⊢
      split
      · rename_i hk; simp only [hk, if_true] at hg; cases hg
      · rename_i hk; simp only [hk, if_false] at hg; exact ih hg

/-- `E`: ids known to be shells of this transaction; `D`: names known to be declared -/
structure NInv (E : List Id) (D : List Nat) (p : PS) : Prop where
  newShell : ∀ q ∈ p.tx.staged, q.2.isNew = true → q.1 ∈ p.tx.shells
  known : ∀ i ∈ E, i ∈ p.tx.shells
  decl : ∀ h ∈ p.tx.declared, ∃ i, hGet p.tx.handles h = some i ∧ i ∈ p.tx.shells
  names : ∀ h ∈ D, h ∈ p.tx.declared

def NPres (E : List Id) (D : List Nat) (f : Store → Tx → PS) : Prop :=
  ∀ (s : Store) (tx : Tx) (e : Option Err), NInv E D { s := s, tx := tx, err := e } → NInv E D (f s tx)

theorem NInv.transfer {E : List Id} {D : List Nat} {s s' : Store} {tx tx' : Tx} {e e' : Option Err}
    (h : NInv E D { s := s, tx := tx, err := e })
    (hsh : ∀ i, i ∈ tx.shells → i ∈ tx'.shells)
    (hst : ∀ q ∈ tx'.staged, q.2.isNew = true → q ∈ tx.staged ∨ q.1 ∈ tx'.shells)
    (hh : ∀ n i, hGet tx.handles n = some i → hGet tx'.handles n = some i)
    (hd : tx'.declared = tx.declared) : NInv E D { s := s', tx := tx', err := e' } :=
  { newShell := by
      intro q hq hn
      rcases hst q hq hn with h1 | h1
      · exact hsh _ (h.newShell q h1 hn)
      · exact h1,
    known := fun i hi => hsh i (h.known i hi),
    decl := by
      intro n hn
      have hn' : n ∈ tx.declared := hd ▸ hn
      obtain ⟨i, h1, h2⟩ := h.decl n hn'
      exact ⟨i, hh n i h1, hsh i h2⟩,
    names := fun n hn => by show n ∈ tx'.declared; rw [hd]; exact h.names n hn }

theorem NInv.same {E : List Id} {D : List Nat} {s s' : Store} {tx : Tx} {e e' : Option Err}
    (h : NInv E D { s := s, tx := tx, err := e }) : NInv E D { s := s', tx := tx, err := e' } :=
  h.transfer (fun _ hi => hi) (fun q hq _ => .inl hq) (fun _ _ hg => hg) rfl

theorem NInv.weaken {E E' : List Id} {D : List Nat} {p : PS} (h : NInv E D p) (hE : ∀ i ∈ E', i ∈ E) : NInv E' D p :=
  { newShell := h.newShell, known := fun i hi => h.known i (hE i hi), decl := h.decl, names := h.names }

theorem NInv.andThen {E : List Id} {D : List Nat} {p : PS} (h : NInv E D p) {f : Store → Tx → PS}
    (hf : NPres E D f) : NInv E D (p.andThen f) := by
  unfold PS.andThen
  split
  · exact h
  · exact hf p.s p.tx p.err (by cases p; exact h)

theorem NPres.chain {E : List Id} {D : List Nat} {f g : Store → Tx → PS} (hf : NPres E D f) (hg : NPres E D g) :
    NPres E D (fun s tx => (f s tx).andThen g) :=
  fun s tx e h => (hf s tx e h).andThen hg

/-- a loaded row that is new was staged before -/
theorem load_new {s : Store} {tx tx' : Tx} {id : Id} {x : Staged} (hl : load s tx id = .ok (tx', x))
    (hn : x.isNew = true) : (id, x) ∈ tx.staged ∧ tx' = tx := by
  unfold load at hl
  split at hl
  · rename_i y hy; cases hl; exact ⟨stGet_mem hy, rfl⟩
  · split at hl
    · cases hl
    · cases hl; simp [Staged.ofElem] at hn

theorem load_ninv {E : List Id} {D : List Nat} {s : Store} {tx tx' : Tx} {id : Id} {x : Staged} {e : Option Err}
    (h : NInv E D { s := s, tx := tx, err := e }) (hl : load s tx id = .ok (tx', x)) :
    NInv E D { s := s, tx := tx', err := none } ∧ (x.isNew = true → id ∈ tx'.shells) := by
  constructor
  · unfold load at hl
    split at hl
    · cases hl; exact h.same
    · split at hl
      · cases hl
      · cases hl
        refine h.transfer (fun _ hi => hi) ?_ (fun _ _ hg => hg) rfl
        intro q hq hn
        rcases mem_stSet hq with h1 | h1
        · rw [h1] at hn; simp [Staged.ofElem] at hn
        · exact .inl h1
  · intro hn
    obtain ⟨hm, heq⟩ := load_new hl hn
    rw [heq]
    exact h.newShell _ hm hn

theorem npres_pFail (E : List Id) (D : List Nat) (e : Err) : NPres E D (fun s tx => PS.fail s tx e) := fun _ _ _ h => h.same
theorem npres_pGuard (E : List Id) (D : List Nat) (b : Bool) (e : Err) : NPres E D (pGuard b e) := by
  intro s tx e' h; unfold pGuard; split <;> exact h.same

theorem npres_pLoad (E : List Id) (D : List Nat) (id : Id) : NPres E D (pLoad id) := by
  intro s tx e h
  unfold pLoad
  split
  · exact h.same
  · rename_i hl; exact (load_ninv h hl).1

theorem npres_pExpect (E : List Id) (D : List Nat) (id : Id) (x : Option Nat) : NPres E D (pExpect id x) := by
  intro s tx e h
  unfold pExpect
  split
  · exact h.same
  · unfold expectVersion
    split
    · exact h.same
    · rename_i hl
      split at hl
      · cases hl
      · rename_i tx1 y hld
        split at hl
        · cases hl; exact (load_ninv h hld).1
        · cases hl

theorem npres_pBind (E : List Id) (D : List Nat) (hh : Option Nat) (id : Id) : NPres E D (pBind hh id) := by
  intro s tx e h
  unfold pBind
  split
  · exact h.same
  · unfold bindExisting
    split
    · exact h.same
    · rename_i hg
      exact h.transfer (fun _ hi => hi) (fun q hq _ => .inl hq) (fun _ _ hgn => hGet_append_some hgn) rfl

theorem npres_pStageNew (E : List Id) (D : List Nat) (id : Id) (row : Row) (hid : id ∈ E) : NPres E D (pStageNew id row) := by
  intro s tx e h
  refine h.transfer (tx' := stageNew tx id row) (fun _ hi => hi) ?_ (fun _ _ hg => hg) rfl
  intro q hq _
  rcases mem_stSet hq with h1 | h1
  · rw [h1]; exact .inr (h.known id hid)
  · exact .inl h1

theorem markChanged_ninv {E : List Id} {D : List Nat} {s : Store} {tx : Tx} {e : Option Err} {id : Id} {x y : Staged} {op : Op}
    (h : NInv E D { s := s, tx := tx, err := e }) (hx : x.isNew = true → id ∈ tx.shells) (hy : y.isNew = x.isNew) :
    NInv E D { s := s, tx := markChanged tx id y op, err := none } := by
  refine h.transfer (fun _ hi => hi) ?_ (fun _ _ hg => hg) rfl
  intro q hq hn
  rcases mem_stSet hq with h1 | h1
  · rw [h1] at hn ⊢
    simp only at hn
    exact .inr (hx (hy ▸ hn))
  · exact .inl h1

theorem npres_pAssign (E : List Id) (D : List Nat) (id : Id) (v : Option Nat) : NPres E D (pAssign id v) := by
  intro s tx e h
  unfold pAssign
  split
  · exact h.same
  · rename_i tx1 x hl
    obtain ⟨h1, hx⟩ := load_ninv h hl
    split
    · exact h1
    · split
      · exact h1
      · exact markChanged_ninv h1 hx rfl

theorem npres_pSetState (E : List Id) (D : List Nat) (id : Id) (to : St) (x : Option St) : NPres E D (pSetState id to x) := by
  intro s tx e h
  unfold pSetState
  split
  · exact h.same
  · rename_i tx1 y hl
    obtain ⟨h1, hy⟩ := load_ninv h hl
    repeat' split
    all_goals first
      | exact h1.same
      | exact h1
      | exact markChanged_ninv h1 hy rfl

theorem npres_pRetract (E : List Id) (D : List Nat) (id : Id) (x : Option Nat) : NPres E D (pRetract id x) := by
  intro s tx e h
  unfold pRetract
  split
  · exact h.same
  · rename_i tx1 y hl
    obtain ⟨h1, hy⟩ := load_ninv h hl
    repeat' split
    all_goals first
      | exact h1.same
      | exact h1
      | exact markChanged_ninv h1 hy rfl

theorem npres_pMergeInto (E : List Id) (D : List Nat) (a b : Id) : NPres E D (pMergeInto a b) := by
  intro s tx e h
  unfold pMergeInto
  split
  · exact h.same
  · rename_i tx1 y hl
    obtain ⟨h1, hy⟩ := load_ninv h hl
    repeat' split
    all_goals first
      | exact h1.same
      | exact h1
      | exact markChanged_ninv h1 hy rfl

theorem npres_pCheck2 (E : List Id) (D : List Nat) (a b : Id) (pred : Staged → Staged → Option Err) :
    NPres E D (pCheck2 a b pred) := by
  intro s tx e h
  unfold pCheck2
  split
  · exact h.same
  · rename_i tx1 x hl
    obtain ⟨h1, _⟩ := load_ninv h hl
    split
    · exact h1.same
    · rename_i tx2 y hl2
      obtain ⟨h2, _⟩ := load_ninv h1 hl2
      split <;> exact h2.same

theorem npres_pExpectStatus (E : List Id) (D : List Nat) (id : Id) (x : Option Nat) : NPres E D (pExpectStatus id x) := by
  intro s tx e h
  unfold pExpectStatus
  split
  · exact h.same
  · exact npres_pCheck2 _ _ _ _ _ _ _ _ h

theorem npres_pEdit (E : List Id) (D : List Nat) (id : Id) (k : Option Kind) (g : Staged → Option Err) (f : Row → Row)
    (al : Bool) (op : Op) : NPres E D (pEdit id k g f al op) := by
  intro s tx e h
  unfold pEdit
  split
  · exact h.same
  · rename_i tx1 y hl
    obtain ⟨h1, hy⟩ := load_ninv h hl
    repeat' split
    all_goals first
      | exact h1.same
      | exact h1
      | exact markChanged_ninv h1 hy rfl

theorem npres_pAct (E : List Id) (D : List Nat) (id : Id) (a : Act) : NPres E D (pAct id a) := by
  intro s tx e h
  unfold pAct
  split
  · exact h.same
  · rename_i tx1 x hl
    obtain ⟨h1, hx⟩ := load_ninv h hl
    split
    · exact h1
    · exact markChanged_ninv h1 hx rfl

theorem NInv.pActs {E : List Id} {D : List Nat} (id : Id) (acts : List Act) {p : PS} (h : NInv E D p) :
    NInv E D (pActs id acts p) := by
  unfold Tx.pActs
  induction acts generalizing p with
  | nil => exact h
  | cons a r ih => exact ih (h.andThen (npres_pAct E D id a))

theorem npres_pPurge (E : List Id) (D : List Nat) (id : Id) (b : Bool) : NPres E D (pPurge id b) := by
  intro s tx e h
  unfold pPurge
  split
  · exact h.same
  · rename_i tx1 y hl
    obtain ⟨h1, hy⟩ := load_ninv h hl
    repeat' split
    all_goals first
      | exact h1.same
      | exact h1
      | skip
    refine h1.transfer (fun _ hi => hi) ?_ (fun _ _ hg => hg) rfl
    intro q hq hn
    rcases mem_stSet hq with h2 | h2
    · rw [h2] at hn ⊢
      exact .inr (hy hn)
    · exact .inl h2

theorem NInv.mint {E : List Id} {D : List Nat} {s : Store} {tx : Tx} {e : Option Err}
    (h : NInv E D { s := s, tx := tx, err := e }) (k : Kind) :
    NInv ((mintShell s tx k).2.2 :: E) D { s := (mintShell s tx k).1, tx := (mintShell s tx k).2.1, err := none } := by
  have h' : NInv E D { s := (mintShell s tx k).1, tx := (mintShell s tx k).2.1, err := none } :=
    h.transfer (fun i hi => by simp [mintShell, hi]) (fun q hq _ => .inl hq) (fun _ _ hg => hg) rfl
  exact { newShell := h'.newShell, decl := h'.decl, names := h'.names,
          known := by
            intro i hi
            rcases List.mem_cons.mp hi with h1 | h1
            · rw [h1]; simp [mintShell]
            · exact h'.known i h1 }

theorem NPres.pMint {E : List Id} {D : List Nat} (k : Kind) {cont : Id → Store → Tx → PS}
    (hc : ∀ id, NPres (id :: E) D (cont id)) : NPres E D (pMint k cont) := by
  intro s tx e h
  unfold Tx.pMint
  exact (hc _ _ _ none (h.mint k)).weaken (fun i hi => List.mem_cons_of_mem _ hi)

macro "npres_chain" h:ident : tactic => `(tactic|
  repeat' (first
    | exact npres_pGuard _ _ _ _ _ _ _ $h
    | exact npres_pLoad _ _ _ _ _ _ $h
    | exact npres_pExpect _ _ _ _ _ _ _ $h
    | exact npres_pBind _ _ _ _ _ _ _ $h
    | exact npres_pSetState _ _ _ _ _ _ _ _ $h
    | exact npres_pRetract _ _ _ _ _ _ _ $h
    | exact npres_pPurge _ _ _ _ _ _ _ $h
    | exact npres_pAssign _ _ _ _ _ _ _ $h
    | exact npres_pEdit _ _ _ _ _ _ _ _ _ _ _ $h
    | exact npres_pMergeInto _ _ _ _ _ _ _ $h
    | exact npres_pCheck2 _ _ _ _ _ _ _ _ $h
    | exact npres_pExpectStatus _ _ _ _ _ _ _ $h
    | exact npres_pFail _ _ _ _ _ _ $h
    | exact npres_pGuard _ _ _ _
    | exact npres_pLoad _ _ _
    | exact npres_pExpect _ _ _ _
    | exact npres_pBind _ _ _ _
    | exact npres_pAssign _ _ _ _
    | exact npres_pEdit _ _ _ _ _ _ _ _
    | exact npres_pMergeInto _ _ _ _
    | exact npres_pCheck2 _ _ _ _ _
    | exact npres_pExpectStatus _ _ _ _
    | exact npres_pStageNew _ _ _ _ (by simp)
    | apply NInv.andThen
    | apply NPres.pMint
    | (intro _id; apply NPres.chain)
    | apply NPres.chain))

/-- a clause keeps the invariant, provided the handle it declared in phase 1 is known as declared -/
theorem applyClause_ninv (c : Clause) (D : List Nat) (hD : ∀ n, declares c = some n → n ∈ D) (s : Store) (tx : Tx)
    (e : Option Err) (h : NInv [] D { s := s, tx := tx, err := e }) : NInv [] D (applyClause c s tx) := by
  cases c with
  | createConcept hh ty key val bad =>
      simp only [applyClause]
      split
      · exact h.same
      · rename_i id hid
        obtain ⟨i, hi1, hi2⟩ := h.decl hh (h.names hh (hD hh rfl))
        have : id = i := by have := hid.symm.trans hi1; exact Option.some.inj this
        subst this
        have hE : NInv [id] D { s := s, tx := tx, err := e } :=
          { newShell := h.newShell, decl := h.decl, names := h.names,
            known := by intro j hj; simp at hj; rw [hj]; exact hi2 }
        refine NInv.weaken (E := [id]) ?_ (by intro j hj; cases hj)
        npres_chain hE
  | createRec k hh pay refs bad =>
      simp only [applyClause]
      split
      · exact h.same
      · rename_i id hid
        obtain ⟨i, hi1, hi2⟩ := h.decl hh (h.names hh (hD hh rfl))
        have : id = i := by have := hid.symm.trans hi1; exact Option.some.inj this
        subst this
        have hE : NInv [id] D { s := s, tx := tx, err := e } :=
          { newShell := h.newShell, decl := h.decl, names := h.names,
            known := by intro j hj; simp at hj; rw [hj]; exact hi2 }
        split
        · exact h.same
        · refine NInv.weaken (E := [id]) ?_ (by intro j hj; cases hj)
          npres_chain hE
  | upsert hh ty key val expect => simp only [applyClause]; (repeat' split) <;> npres_chain h
  | ensure hh sub p obj expect bad => simp only [applyClause]; (repeat' split) <;> npres_chain h
  | update t acts expect bad =>
      simp only [applyClause]
      split
      · npres_chain h
      · apply NInv.pActs
        npres_chain h
  | setState t to expect => simp only [applyClause]; (repeat' split) <;> npres_chain h
  | retract t expect => simp only [applyClause]; (repeat' split) <;> npres_chain h
  | purge t bad => simp only [applyClause]; (repeat' split) <;> npres_chain h
  | supersede t b expect => simp only [applyClause]; (repeat' split) <;> npres_chain h
  | correct t b => simp only [applyClause]; (repeat' split) <;> npres_chain h
  | transition t to expect => simp only [applyClause]; (repeat' split) <;> npres_chain h
  | setRetention t v expect => simp only [applyClause]; (repeat' split) <;> npres_chain h
  | merge a b expect => simp only [applyClause]; (repeat' split) <;> npres_chain h

theorem declare_ok {s : Store} {tx : Tx} {n : Nat} {k : Kind} (hg : hGet tx.handles n = none) :
    declare s tx n k =
      { s := (mintShell s tx k).1,
        tx := { tx with shells := tx.shells ++ [⟨k, s.next k⟩], handles := tx.handles ++ [(n, ⟨k, s.next k⟩)],
                        declared := n :: tx.declared },
        err := none } := by
  simp only [declare, hg]; rfl

theorem declare_fail {s : Store} {tx : Tx} {n : Nat} {k : Kind} {i : Id} (hg : hGet tx.handles n = some i) :
    declare s tx n k = PS.fail s tx .dupHandle := by
  simp only [declare, hg]

theorem declare_ninv {D : List Nat} {s : Store} {tx : Tx} {e : Option Err} (h : NInv [] D { s := s, tx := tx, err := e })
    (n : Nat) (k : Kind) : NInv [] D (declare s tx n k) := by
  cases hg : hGet tx.handles n with
  | some i => rw [declare_fail hg]; exact h.same
  | none =>
      rw [declare_ok hg]
      refine { newShell := ?_, known := (by intro i hi; cases hi), decl := ?_, names := ?_ }
      · intro q hq hn
        have := h.newShell q hq hn
        exact List.mem_append_left _ this
      · intro m hm
        rcases List.mem_cons.mp hm with hm | hm
        · subst hm
          exact ⟨⟨k, s.next k⟩, hGet_append_none hg, by simp⟩
        · obtain ⟨i, h1, h2⟩ := h.decl m hm
          exact ⟨i, hGet_append_some h1, List.mem_append_left _ h2⟩
      · intro m hm
        exact List.mem_cons_of_mem _ (h.names m hm)

theorem declareClause_ninv {D : List Nat} (c : Clause) {s : Store} {tx : Tx} {e : Option Err}
    (h : NInv [] D { s := s, tx := tx, err := e }) : NInv [] D (declareClause c s tx) := by
  unfold declareClause
  split
  · exact declare_ninv h _ _
  · exact declare_ninv h _ _
  · exact h.same

/-! ## Phase 1 declares every handle a `CREATE` clause will stage at -/

theorem andThen_err {p : PS} {f : Store → Tx → PS} (h : p.err ≠ none) : p.andThen f = p := by
  unfold PS.andThen
  split
  · rfl
  · rename_i hn; exact absurd hn h

theorem declareAll_err (cs : List Clause) {p : PS} (h : p.err ≠ none) : declareAll cs p = p := by
  unfold Tx.declareAll
  induction cs generalizing p with
  | nil => rfl
  | cons c r ih => simp only [List.foldl_cons]; rw [andThen_err h]; exact ih h

theorem applyPass_err (pass : Nat) (cs : List Clause) {p : PS} (h : p.err ≠ none) : applyPass pass cs p = p := by
  unfold Tx.applyPass
  induction cs generalizing p with
  | nil => rfl
  | cons c r ih =>
      simp only [List.foldl_cons]
      split
      · rw [andThen_err h]; exact ih h
      · exact ih h

theorem declare_declared (s : Store) (tx : Tx) (n : Nat) (k : Kind) :
    (∀ m ∈ tx.declared, m ∈ (declare s tx n k).tx.declared) ∧ ((declare s tx n k).err = none → n ∈ (declare s tx n k).tx.declared) := by
  cases hg : hGet tx.handles n with
  | some i => rw [declare_fail hg]; exact ⟨fun _ hm => hm, (by intro h; cases h)⟩
  | none =>
      rw [declare_ok hg]
      exact ⟨fun m hm => List.mem_cons_of_mem _ hm, fun _ => List.mem_cons_self⟩

theorem declareClause_declared (c : Clause) (s : Store) (tx : Tx) :
    (∀ m ∈ tx.declared, m ∈ (declareClause c s tx).tx.declared) ∧
    ((declareClause c s tx).err = none → ∀ n, declares c = some n → n ∈ (declareClause c s tx).tx.declared) := by
  cases c with
  | createConcept a b c' d e' =>
      have := declare_declared s tx a .concept
      exact ⟨this.1, fun he n hn => by simp only [declares, Option.some.injEq] at hn; subst hn; exact this.2 he⟩
  | createRec k a c' d e' =>
      have := declare_declared s tx a k
      exact ⟨this.1, fun he n hn => by simp only [declares, Option.some.injEq] at hn; subst hn; exact this.2 he⟩
  | upsert => exact ⟨fun _ hm => hm, fun _ n hn => by cases hn⟩
  | ensure => exact ⟨fun _ hm => hm, fun _ n hn => by cases hn⟩
  | update => exact ⟨fun _ hm => hm, fun _ n hn => by cases hn⟩
  | setState => exact ⟨fun _ hm => hm, fun _ n hn => by cases hn⟩
  | retract => exact ⟨fun _ hm => hm, fun _ n hn => by cases hn⟩
  | purge => exact ⟨fun _ hm => hm, fun _ n hn => by cases hn⟩
  | supersede => exact ⟨fun _ hm => hm, fun _ n hn => by cases hn⟩
  | correct => exact ⟨fun _ hm => hm, fun _ n hn => by cases hn⟩
  | transition => exact ⟨fun _ hm => hm, fun _ n hn => by cases hn⟩
  | setRetention => exact ⟨fun _ hm => hm, fun _ n hn => by cases hn⟩
  | merge => exact ⟨fun _ hm => hm, fun _ n hn => by cases hn⟩

theorem declareAll_mono (cs : List Clause) (p : PS) : ∀ m ∈ p.tx.declared, m ∈ (declareAll cs p).tx.declared := by
  unfold Tx.declareAll
  induction cs generalizing p with
  | nil => intro m hm; exact hm
  | cons c r ih =>
      intro m hm
      simp only [List.foldl_cons]
      apply ih
      unfold PS.andThen
      split
      · exact hm
      · exact (declareClause_declared c p.s p.tx).1 m hm

theorem declareAll_declared (cs : List Clause) (p : PS) (h : (declareAll cs p).err = none) :
    ∀ c ∈ cs, ∀ n, declares c = some n → n ∈ (declareAll cs p).tx.declared := by
  induction cs generalizing p with
  | nil => intro c hc; cases hc
  | cons c0 r ih =>
      intro c hc n hn
      have hstep : declareAll (c0 :: r) p = declareAll r (p.andThen (declareClause c0)) := by
        simp [Tx.declareAll]
      rw [hstep] at h ⊢
      have h1 : (p.andThen (declareClause c0)).err = none := by
        cases he : (p.andThen (declareClause c0)).err with
        | none => rfl
        | some e' =>
            have hne : (p.andThen (declareClause c0)).err ≠ none := by rw [he]; exact fun hh => by cases hh
            rw [declareAll_err r hne] at h
            rw [he] at h; cases h
      rcases List.mem_cons.mp hc with hc | hc
      · subst hc
        apply declareAll_mono
        have hp : p.err = none := by
          cases hpe : p.err with
          | none => rfl
          | some e' =>
              have : p.andThen (declareClause c) = p := andThen_err (by rw [hpe]; exact fun hh => by cases hh)
              rw [this] at h1; rw [hpe] at h1; cases h1
        have heq : p.andThen (declareClause c) = declareClause c p.s p.tx := by
          unfold PS.andThen; simp [hp]
        rw [heq] at h1 ⊢
        exact (declareClause_declared c p.s p.tx).2 h1 n hn
      · exact ih _ h c hc n hn

end AndaVerif.Tx
