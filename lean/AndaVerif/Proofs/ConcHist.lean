import AndaVerif.Proofs.ConcFlush
/-
Reads are whole: every document object the backend ever holds — hence everything a `get` can
return — is exactly a value some successful `add` / `update` call wrote (or an initial one).
`hist` is a ghost log of the values written.
-/
namespace AndaVerif.ConcColl

/-- call `th` returned successfully having written value `p.2` at document `p.1` -/
def Thread.Wrote (th : Thread) (p : Nat × Doc) : Prop :=
  (∃ d, th.op = .add d ∧ p = (th.id, d) ∧ th.res = some (.added th.id)) ∨
  (∃ id fk fu fv, th.op = .upd id fk fu fv ∧ p = (id, th.new) ∧ th.res = some (.doc th.new))

theorem stepThread_hist (sh : Shared) (t : Nat) (th : Thread) (sh' : Shared) (th' : Thread)
    (h : stepThread sh t th = some (sh', th')) :
    (∀ p, p ∈ sh'.hist → p ∈ sh.hist ∨ th'.Wrote p) ∧
    (∀ p, p ∈ sh.hist → p ∈ sh'.hist) ∧
    (∀ i d v, sh'.store i = some (d, v) → sh.store i = some (d, v) ∨ (i, d) ∈ sh'.hist) ∧
    (∀ id d, th.op = .get id → th'.res = some (.doc d) →
      th.res = some (.doc d) ∨ ∃ v, sh.store id = some (d, v)) := by
  step_cases h
  all_goals (try simp_all [Thread.Wrote])
  all_goals grind

structure HistInv (H0 : List (Nat × Doc)) (c : Cfg) : Prop where
  store : ∀ (i : Nat) (d : Doc) (v : Nat), c.sh.store i = some (d, v) → (i, d) ∈ c.sh.hist
  get : ∀ (x : Nat) (th : Thread) (id : Nat) (d : Doc), c.th[x]? = some th → th.op = .get id →
    th.res = some (.doc d) → (id, d) ∈ c.sh.hist
  writer : ∀ p, p ∈ c.sh.hist → p ∈ H0 ∨ ∃ (x : Nat) (th : Thread), c.th[x]? = some th ∧ th.Wrote p

theorem HistInv.init (c : Cfg) (hs : ∀ (i : Nat) (d : Doc) (v : Nat), c.sh.store i = some (d, v) → (i, d) ∈ c.sh.hist)
    (hidle : ∀ (x : Nat) (th : Thread), c.th[x]? = some th → th.res = none) : HistInv c.sh.hist c := by
  refine ⟨hs, ?_, fun p hp => Or.inl hp⟩
  intro x th id d hx _ hr; simp [hidle x th hx] at hr

theorem HistInv.step {H0 : List (Nat × Doc)} {M0 t : Nat} {c c' : Cfg} (inv : HistInv H0 c)
    (ids : IdsInv M0 c) (h : step t c = some c') : HistInv H0 c' := by
  obtain ⟨th, sh', th', hth, hst, rfl⟩ := step_elim h
  obtain ⟨hnew, hgrow, hstore, hget⟩ := stepThread_hist _ _ _ _ _ hst
  obtain ⟨hop, hnd, _, _, _, _, _⟩ := stepThread_gate _ _ _ _ _ hst
  have hself : (c.th.set t th')[t]? = some th' := getElem?_set_self' _ _ _ _ hth
  have hres0 : th.res = none := by
    by_cases hn : th.res = none
    · exact hn
    · exact absurd (ids.resdone t th hth hn) hnd
  refine ⟨?_, ?_, ?_⟩
  · intro i d v hs
    rcases hstore i d v hs with h1 | h1
    · exact hgrow _ (inv.store i d v h1)
    · exact h1
  · intro x thx id d hx hopx hr
    by_cases hxt : x = t
    · subst hxt
      rw [hself] at hx; cases hx
      rcases hget id d (hop ▸ hopx) hr with h1 | ⟨v, hv⟩
      · simp [hres0] at h1
      · exact hgrow _ (inv.store id d v hv)
    · rw [getElem?_set_ne' _ _ _ _ hxt] at hx
      exact hgrow _ (inv.get x thx id d hx hopx hr)
  · intro p hp
    rcases hnew p hp with h1 | h1
    · rcases inv.writer p h1 with h2 | ⟨x, thx, hx, hw⟩
      · exact Or.inl h2
      · right
        have hxt : x ≠ t := by
          intro hxt; subst hxt
          rw [hth] at hx; cases hx
          unfold Thread.Wrote at hw
          rcases hw with ⟨_, _, _, hr⟩ | ⟨_, _, _, _, _, _, hr⟩ <;> simp [hres0] at hr
        exact ⟨x, thx, by rw [getElem?_set_ne' _ _ _ _ hxt]; exact hx, hw⟩
    · exact Or.inr ⟨t, th', hself, h1⟩

end AndaVerif.ConcColl
