import AndaVerif.Model.BTree
import AndaVerif.Proofs.OMapOps
/-
Invariants of the API state machine (`Model/BTree.lean`): well-formedness and, on a unique index,
at most one id per key.
-/
namespace AndaVerif
namespace BTree

open OMap

/-- on a unique index every posting has exactly one id -/
def UniqInv (m : OMap) : Prop := ∀ k p, m.lookup k = some p → p.length ≤ 1

structure Inv (s : State) : Prop where
  wf : WF s.map
  uniq : s.unique = true → UniqInv s.map

theorem uniqInv_ins_fresh (m : OMap) (h : WF m) (hu : UniqInv m) (k : Int) (d : Nat)
    (hk : m.lookup k = none) : UniqInv (m.ins k d) := by
  intro k' p hl
  rw [lookup_ins k d m h.1 k'] at hl
  split at hl
  · simp only [insPosting, hk, Option.some.injEq] at hl
    subst hl; simp
  · exact hu k' p hl

theorem length_swapRemoveVal (p : List Nat) (d : Nat) (h : d ∈ p) : (swapRemoveVal p d).length + 1 = p.length := by
  have := (swapRemoveVal_perm p d h).length_eq
  simpa using this

theorem uniqInv_del (m : OMap) (h : WF m) (hu : UniqInv m) (k : Int) (d : Nat) : UniqInv (m.del k d) := by
  intro k' p hl
  rw [lookup_del k d m h.1 k'] at hl
  split at hl
  · unfold delPosting at hl
    split at hl
    · rename_i p₀ hp₀
      have hlen := hu k p₀ hp₀
      split at hl
      · rename_i hc
        split at hl
        · simp at hl
        · simp only [Option.some.injEq] at hl
          subst hl
          have := length_swapRemoveVal p₀ d (by simpa using hc)
          omega
      · simp only [Option.some.injEq] at hl; subst hl; exact hlen
    · simp at hl
  · exact hu k' p hl

-- single operations ------------------------------------------------------------------------------

theorem inv_insert (s : State) (h : Inv s) (d : Nat) (k : Int) : Inv (insert s d k).1 := by
  unfold insert
  split
  · rename_i p hp
    split
    · exact h
    · rename_i hnu
      split
      · exact h
      · rename_i hnc
        refine ⟨wf_ins k d s.map h.wf, ?_⟩
        intro hu
        simp only at hu
        have : p.contains d = true := by simpa [hu] using hnu
        exact absurd this hnc
  · rename_i hp
    exact ⟨wf_ins k d s.map h.wf, fun hu => uniqInv_ins_fresh s.map h.wf (h.uniq hu) k d hp⟩

theorem inv_remove (s : State) (h : Inv s) (d : Nat) (k : Int) : Inv (remove s d k).1 := by
  unfold remove
  split
  · split
    · exact ⟨wf_del k d s.map h.wf, fun hu => uniqInv_del s.map h.wf (h.uniq hu) k d⟩
    · exact h
  · exact h

theorem inv_insertLoop (u : Bool) (d : Nat) : ∀ (ks : List Int) (m : OMap) (n : Nat),
    WF m → (u = true → UniqInv m) →
    WF (insertLoop u d ks m n).1 ∧ (u = true → UniqInv (insertLoop u d ks m n).1)
  | [], m, n, hw, hu => by simpa [insertLoop] using ⟨hw, hu⟩
  | k :: ks, m, n, hw, hu => by
    simp only [insertLoop]
    split
    · rename_i p hp
      split
      · exact ⟨hw, hu⟩
      · rename_i hnu
        split
        · exact inv_insertLoop u d ks m n hw hu
        · rename_i hnc
          apply inv_insertLoop u d ks _ _ (wf_ins k d m hw)
          intro hu'
          have : p.contains d = true := by simpa [hu'] using hnu
          exact absurd this hnc
    · rename_i hp
      exact inv_insertLoop u d ks _ _ (wf_ins k d m hw) (fun hu' => uniqInv_ins_fresh m hw (hu hu') k d hp)

theorem inv_removeLoop (u : Bool) (d : Nat) : ∀ (ks : List Int) (m : OMap) (n : Nat),
    WF m → (u = true → UniqInv m) →
    WF (removeLoop d ks m n).1 ∧ (u = true → UniqInv (removeLoop d ks m n).1)
  | [], m, n, hw, hu => by simpa [removeLoop] using ⟨hw, hu⟩
  | k :: ks, m, n, hw, hu => by
    simp only [removeLoop]
    split
    · split
      · exact inv_removeLoop u d ks _ _ (wf_del k d m hw) (fun hu' => uniqInv_del m hw (hu hu') k d)
      · exact inv_removeLoop u d ks m n hw hu
    · exact inv_removeLoop u d ks m n hw hu

theorem inv_insertArray (s : State) (h : Inv s) (d : Nat) (ks : List Int) : Inv (insertArray s d ks).1 := by
  unfold insertArray
  split
  · exact h
  · split
    · exact h
    · have := inv_insertLoop s.unique d ks s.map 0 h.wf h.uniq
      simp only
      split <;> exact ⟨this.1, this.2⟩

theorem unique_insertArray (s : State) (d : Nat) (ks : List Int) : (insertArray s d ks).1.unique = s.unique := by
  unfold insertArray
  split
  · rfl
  · split
    · rfl
    · simp only
      split <;> rfl

theorem inv_removeArrayCore (s : State) (h : Inv s) (d : Nat) (ks : List Int) : Inv (removeArrayCore s d ks).1 := by
  unfold removeArrayCore
  have := inv_removeLoop s.unique d ks s.map 0 h.wf h.uniq
  exact ⟨this.1, this.2⟩

theorem unique_removeArrayCore (s : State) (d : Nat) (ks : List Int) : (removeArrayCore s d ks).1.unique = s.unique := rfl

theorem inv_batchUpdate (s : State) (h : Inv s) (d : Nat) (old new : List Int) : Inv (batchUpdate s d old new).1 := by
  unfold batchUpdate
  simp only
  generalize List.filter (fun k => !old.contains k) new.eraseDups = l
  generalize List.filter (fun k => !new.contains k) old.eraseDups = l'
  have h1 : Inv (if l.isEmpty = true then (s, Out.okN 0) else insertArray s d l).1 := by
    split
    · exact h
    · exact inv_insertArray s h d l
  generalize (if l.isEmpty = true then (s, Out.okN 0) else insertArray s d l) = r₁ at h1
  split
  · simp only
    split
    · exact h1
    · exact inv_removeArrayCore r₁.1 h1 d l'
  · exact h1

theorem unique_batchUpdate (s : State) (d : Nat) (old new : List Int) : (batchUpdate s d old new).1.unique = s.unique := by
  unfold batchUpdate
  simp only
  generalize List.filter (fun k => !old.contains k) new.eraseDups = l
  generalize List.filter (fun k => !new.contains k) old.eraseDups = l'
  have h1 : (if l.isEmpty = true then (s, Out.okN 0) else insertArray s d l).1.unique = s.unique := by
    split
    · rfl
    · exact unique_insertArray s d l
  generalize (if l.isEmpty = true then (s, Out.okN 0) else insertArray s d l) = r₁ at h1
  split
  · simp only
    split
    · exact h1
    · rw [unique_removeArrayCore]; exact h1
  · exact h1

theorem inv_step (s : State) (h : Inv s) (op : Op) : Inv (step s op).1 := by
  cases op with
  | insert d k => exact inv_insert s h d k
  | remove d k => exact inv_remove s h d k
  | insertArray d ks => exact inv_insertArray s h d ks
  | removeArray d ks => exact inv_removeArrayCore s h d ks
  | batchUpdate d old new => exact inv_batchUpdate s h d old new
  | get k => exact ⟨h.wf, h.uniq⟩
  | len => exact h
  | keys c l => exact h
  | range desc stop odd q => exact ⟨h.wf, h.uniq⟩
  | stats => exact h

theorem unique_step (s : State) (op : Op) : (step s op).1.unique = s.unique := by
  cases op with
  | insert d k =>
    simp only [step, insert]
    split
    · split
      · rfl
      · split <;> rfl
    · rfl
  | remove d k =>
    simp only [step, remove]
    split
    · split <;> rfl
    · rfl
  | insertArray d ks => exact unique_insertArray s d ks
  | removeArray d ks => rfl
  | batchUpdate d old new => exact unique_batchUpdate s d old new
  | get k => rfl
  | len => rfl
  | keys c l => rfl
  | range desc stop odd q => rfl
  | stats => rfl

theorem inv_init (u : Bool) : Inv (init u) :=
  ⟨wf_nil, fun _ k p h => by simp [init, lookup] at h⟩

theorem inv_run : ∀ (ops : List Op) (s : State), Inv s → Inv (run s ops).1
  | [], s, h => h
  | op :: ops, s, h => by
    simp only [run]
    exact inv_run ops _ (inv_step s h op)

theorem unique_run : ∀ (ops : List Op) (s : State), (run s ops).1.unique = s.unique
  | [], s => rfl
  | op :: ops, s => by
    simp only [run]
    rw [unique_run ops, unique_step]

end BTree
end AndaVerif
