import AndaVerif.Proofs.ObjStoreBasic
import Mathlib.Tactic.SplitIfs
/-
Read preconditions: the wrapper's `check_get_preconditions`, `object_store`'s
`GetOptions::check_preconditions` and an independent reading of RFC 9110 §13.2.2.
-/
namespace AndaVerif.ObjStore

/-- RFC 9110 §13.2.2 for GET/HEAD, as a decision over the evaluated conditions:
1. `If-Match` present: false ⇒ 412;  2. else `If-Unmodified-Since` present: false ⇒ 412;
3. `If-None-Match` present: false ⇒ 304;  4. else `If-Modified-Since` present: false ⇒ 304.
A date condition is ignored whenever the corresponding tag condition is present. -/
def rfcPrecond (o : GetOpts) (cur : Option Tok) (lm : Nat) : Option Err :=
  let failsMatch : Bool :=
    match o.ifMatch, o.ifUnmodifiedSince with
    | some m, _ => !tagMatches m cur
    | none, some d => decide (lm > d)
    | none, none => false
  let failsNone : Bool :=
    match o.ifNoneMatch, o.ifModifiedSince with
    | some m, _ => tagMatches m cur
    | none, some d => decide (lm ≤ d)
    | none, none => false
  if failsMatch then some .precond else if failsNone then some .notModified else none

theorem checkGet_eq (o : GetOpts) (cur : Option Tok) (lm : Nat) :
    checkGetPreconditions o cur (some lm) =
      match rfcPrecond o cur lm with
      | some e => .error e
      | none => .ok { range := o.range, head := o.head } := by
  obtain ⟨im, inm, ims, ius, rg, hd⟩ := o
  cases im <;> cases inm <;> cases ims <;> cases ius <;>
    simp [checkGetPreconditions, stageMatch, stageNone, rfcPrecond] <;>
    (try split_ifs) <;> simp_all

theorem checkRef_eq (o : GetOpts) (cur : Option Tok) (lm : Nat) :
    checkPreconditions o cur lm =
      match rfcPrecond o cur lm with
      | some e => .error e
      | none => .ok () := by
  obtain ⟨im, inm, ims, ius, rg, hd⟩ := o
  cases im <;> cases inm <;> cases ims <;> cases ius <;>
    simp [checkPreconditions, rfcPrecond] <;>
    (try split_ifs) <;> simp_all

/-- options without any condition pass `check_preconditions` whatever the object -/
theorem checkRef_stripped (rg : Option Range) (hd : Bool) (cur : Option Tok) (lm : Nat) :
    checkPreconditions { range := rg, head := hd } cur lm = .ok () := by
  simp [checkPreconditions]

end AndaVerif.ObjStore
