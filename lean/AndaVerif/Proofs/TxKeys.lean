import AndaVerif.Proofs.TxVersions
/-
A logical key identifies one Concept of a type (the pre-commit key-identity check), created rows
are fresh, and the immutable columns of an element agree in all its version rows.
-/
namespace AndaVerif.Tx
open AndaVerif.Gen.NexusOrder

/-! ## What a passed key-identity check says -/

/-- the staged rows the check looks at -/
def claims (i : Id) (x : Staged) : Prop := i.kind = .concept ∧ x.changed = true ∧ x.row.key ≠ 0

instance (i : Id) (x : Staged) : Decidable (claims i x) := by unfold claims; infer_instance

theorem find_some_unique {s : Store} {ty key : Nat} {r : Option Id} (hwf : WF s) (hk : key ≠ 0)
    (h : findConceptByKey s (some ty) key = .ok r) (j : Id) (e : Elem) (hj : j.kind = .concept)
    (hel : s.elems j = some e) (hkey : e.row.key = key) (hty : e.row.ty = ty) : r = some j := by
  unfold findConceptByKey at h
  simp only [hk, if_false] at h
  have hjn : j.n < s.next j.kind := by
    apply Nat.lt_of_not_le
    intro hle
    have := hwf j hle
    rw [hel] at this; cases this
  have hmem := idsOf_mem s j hjn
  rw [hj] at hmem
  have hp : conceptHasKey s (some ty) key j = true := by simp [conceptHasKey, hel, hkey, hty]
  have hin : j ∈ (idsOf s .concept).filter (conceptHasKey s (some ty) key) := List.mem_filter.mpr ⟨hmem, hp⟩
  split at h
  · rename_i hnil; rw [hnil] at hin; cases hin
  · rename_i i' hone
    rw [hone] at hin
    simp only [List.mem_singleton] at hin
    cases h; rw [hin]
  · cases h

structure KeysOK (s : Store) (m : List (Id × Staged)) (claimed : List (Nat × Nat)) : Prop where
  /-- no other stored Concept of the type carries the key -/
  store : ∀ p ∈ m, claims p.1 p.2 → ∀ j e, j.kind = .concept → s.elems j = some e → e.row.key = p.2.row.key →
      e.row.ty = p.2.row.ty → j = p.1
  /-- not claimed before -/
  fresh : ∀ p ∈ m, claims p.1 p.2 → (p.2.row.ty, p.2.row.key) ∉ claimed
  /-- two entries claiming one `(type, key)` are one entry -/
  pair : m.Pairwise (fun p r => claims p.1 p.2 → claims r.1 r.2 → (p.2.row.ty, p.2.row.key) ≠ (r.2.row.ty, r.2.row.key))

theorem checkKeys_ok {s : Store} (hwf : WF s) :
    ∀ (m : List (Id × Staged)) (claimed : List (Nat × Nat)) (u : Unit), checkKeys s m claimed = .ok u → KeysOK s m claimed := by
  intro m
  induction m with
  | nil =>
      intro claimed u _
      exact { store := (by intro p hp; cases hp), fresh := (by intro p hp; cases hp), pair := List.Pairwise.nil }
  | cons p r ih =>
      obtain ⟨i, x⟩ := p
      intro claimed u h
      simp only [checkKeys] at h
      by_cases hc : i.kind = .concept ∧ x.changed = true ∧ x.row.key ≠ 0
      · rw [if_pos hc] at h
        have hcl : claims i x := hc
        by_cases hct : claimed.contains (x.row.ty, x.row.key) = true
        · rw [if_pos hct] at h; cases h
        · rw [if_neg hct] at h
          have hnotin : (x.row.ty, x.row.key) ∉ claimed := by
            intro hm; apply hct; simpa using hm
          -- the lookup found nothing or the row itself
          have hrec : ∃ r', findConceptByKey s (some x.row.ty) x.row.key = .ok r' ∧ (r' = none ∨ r' = some i) ∧
              checkKeys s r ((x.row.ty, x.row.key) :: claimed) = .ok u := by
            cases hf : findConceptByKey s (some x.row.ty) x.row.key with
            | error e' => rw [hf] at h; cases h
            | ok r' =>
                rw [hf] at h
                cases r' with
                | none => exact ⟨none, rfl, .inl rfl, h⟩
                | some j =>
                    simp only at h
                    by_cases hji : j = i
                    · rw [if_pos hji] at h; exact ⟨some j, rfl, .inr (by rw [hji]), h⟩
                    · rw [if_neg hji] at h; cases h
          obtain ⟨r', hf, hr', hrest⟩ := hrec
          have ihr := ih _ u hrest
          refine { store := ?_, fresh := ?_, pair := ?_ }
          · intro p hp hpc j e hj hel hkey hty
            rcases List.mem_cons.mp hp with h1 | h1
            · subst h1
              have := find_some_unique hwf hc.2.2 hf j e hj hel hkey hty
              rcases hr' with h2 | h2
              · rw [h2] at this; cases this
              · rw [h2] at this; exact (Option.some.inj this).symm
            · exact ihr.store p h1 hpc j e hj hel hkey hty
          · intro p hp hpc
            rcases List.mem_cons.mp hp with h1 | h1
            · subst h1; exact hnotin
            · intro hm
              exact ihr.fresh p h1 hpc (List.mem_cons_of_mem _ hm)
          · refine List.Pairwise.cons ?_ ihr.pair
            intro p hp _ hpc heq
            exact ihr.fresh p hp hpc (by rw [← heq]; exact List.mem_cons_self)
      · rw [if_neg hc] at h
        have ihr := ih _ u h
        refine { store := ?_, fresh := ?_, pair := ?_ }
        · intro p hp hpc
          rcases List.mem_cons.mp hp with h1 | h1
          · subst h1; exact absurd hpc hc
          · exact ihr.store p h1 hpc
        · intro p hp hpc
          rcases List.mem_cons.mp hp with h1 | h1
          · subst h1; exact absurd hpc hc
          · exact ihr.fresh p h1 hpc
        · exact List.Pairwise.cons (fun p _ hcl => absurd hcl hc) ihr.pair

theorem pairwise_mem {α : Type} {R : α → α → Prop} (hsym : ∀ a b, R a b → R b a) {l : List α} (h : l.Pairwise R)
    {a b : α} (ha : a ∈ l) (hb : b ∈ l) (hne : a ≠ b) : R a b := by
  induction l with
  | nil => cases ha
  | cons x r ih =>
      rw [List.pairwise_cons] at h
      rcases List.mem_cons.mp ha with h1 | h1 <;> rcases List.mem_cons.mp hb with h2 | h2
      · exact absurd (h1.trans h2.symm) hne
      · rw [h1]; exact h.1 b h2
      · rw [h2]; exact hsym _ _ (h.1 a h1)
      · exact ih h.2 h1 h2

/-! ## Key identity along a history -/

def KeyInv (s : Store) : Prop :=
  ∀ (i j : Id) (ei ej : Elem), i.kind = .concept → j.kind = .concept → s.elems i = some ei → s.elems j = some ej →
    ei.row.key ≠ 0 → ei.row.key = ej.row.key → ei.row.ty = ej.row.ty → i = j

theorem init_KeyInv : KeyInv Store.init := by intro i j ei ej _ _ h; cases h

theorem KeyInv.of_raw {s s' : Store} (h : KeyInv s) (hraw : ∀ i, s'.elems i = s.elems i) : KeyInv s' := by
  intro i j ei ej hi hj h1 h2
  rw [hraw] at h1 h2
  exact h i j ei ej hi hj h1 h2

theorem exec_KeyInv {s : Store} (hwf : WF s) (ht : TInv s) (hk : KeyInv s) (st : Stmt) : KeyInv (exec s st).1 := by
  have hinv := planned_inv hwf st
  rcases exec_cases s st with ⟨e', he, hr⟩ | ⟨he, hc⟩
  · rw [hr]; exact hk.of_raw (fun i => hinv.discard_raw i)
  · cases hc with
    | dry hd hr => rw [hr]; exact hk.of_raw (fun i => hinv.discard_raw i)
    | check hd e' hkk hr => rw [hr]; exact hk.of_raw (fun i => hinv.discard_raw i)
    | write hd u hkk s' w e' hw hr => exact absurd (by rw [hr]) (exec_no_refusedWrite hwf ht st e' w)
    | done hd u hkk s' w hw hr =>
        have hp := planned_planinv hwf st he
        obtain ⟨w', extra, erased, sp⟩ := writeLoop_spec (planned s st).tx.seq (planned s st).tx.staged hp.s.keys (planned s st).s []
        rw [hw] at sp
        have hw' : w = w' := by have := sp.changes; simpa using this
        subst hw'
        have kok := checkKeys_ok hinv.wf (planned s st).tx.staged [] u hkk
        rw [hr]
        -- the rows of the final store: written by the loop, or rows the statement found
        have hrow : ∀ i e, (committedStore s' (planned s st).tx st.time w).elems i = some e →
            (∃ x, (i, x) ∈ (planned s st).tx.staged ∧ x.changed = true ∧ e.row = x.row) ∨
            ((∀ c ∈ w, c.id ≠ i) ∧ (planned s st).s.elems i = some e) := by
          intro i e hie
          rw [committedStore_elems] at hie
          split at hie
          · cases hie
          · by_cases hiw : ∃ c ∈ w, c.id = i
            · obtain ⟨c, hc, hci⟩ := hiw
              obtain ⟨x, hx, hch, _, hel, _⟩ := sp.written c hc
              rw [hci] at hel hx
              rw [hel] at hie
              cases hie
              exact .inl ⟨x, hx, hch, rfl⟩
            · have hni : ∀ c ∈ w, c.id ≠ i := fun c hc heq => hiw ⟨c, hc, heq⟩
              rw [sp.frame i hni] at hie
              exact .inr ⟨hni, hie⟩
        -- a row planning saw with a key is a row of `s`
        have hold : ∀ i e, (planned s st).s.elems i = some e → e.row.key ≠ 0 → s.elems i = some e := by
          intro i e hie hkey
          have := hinv.raw i
          rw [hie] at this
          split at this
          · cases this; simp [shellElem, stubRow] at hkey
          · exact this.symm
        intro i j ei ej hi hj h1 h2 hkey hkeq hteq
        rcases hrow i ei h1 with ⟨x, hx, hxc, hxr⟩ | ⟨hni, h1'⟩ <;> rcases hrow j ej h2 with ⟨y, hy, hyc, hyr⟩ | ⟨hnj, h2'⟩
        · -- both written: two claims of one (type, key)
          by_cases hne : (i, x) = (j, y)
          · exact (Prod.mk.inj hne).1
          · exfalso
            have hcx : claims i x := ⟨hi, hxc, by rw [← hxr]; exact hkey⟩
            have hcy : claims j y := ⟨hj, hyc, by rw [← hyr, ← hkeq]; exact hkey⟩
            have := pairwise_mem (R := fun p r => claims p.1 p.2 → claims r.1 r.2 →
                (p.2.row.ty, p.2.row.key) ≠ (r.2.row.ty, r.2.row.key))
              (fun a b hab hb ha heq => hab ha hb heq.symm) kok.pair hx hy hne hcx hcy
            apply this
            simp only [Prod.mk.injEq]
            exact ⟨by rw [← hxr, ← hyr]; exact hteq, by rw [← hxr, ← hyr]; exact hkeq⟩
        · have hcx : claims i x := ⟨hi, hxc, by rw [← hxr]; exact hkey⟩
          exact (kok.store (i, x) hx hcx j ej hj h2' (by rw [← hxr]; exact hkeq.symm) (by rw [← hxr]; exact hteq.symm)).symm
        · have hcy : claims j y := ⟨hj, hyc, by rw [← hyr, ← hkeq]; exact hkey⟩
          exact kok.store (j, y) hy hcy i ei hi h1' (by rw [← hyr]; exact hkeq) (by rw [← hyr]; exact hteq)
        · exact hk i j ei ej hi hj (hold i ei h1' hkey) (hold j ej h2' (by rw [← hkeq]; exact hkey)) hkey hkeq hteq

theorem run_KeyInv {s : Store} (hwf : WF s) (ht : TInv s) (hk : KeyInv s) (l : List Stmt) : KeyInv (run s l) := by
  induction l generalizing s with
  | nil => exact hk
  | cons st r ih => exact ih (exec_spec hwf st).wf (exec_TInv hwf ht st) (exec_KeyInv hwf ht hk st)

/-! ## Created rows are fresh; immutable columns agree across versions -/

/-- a change reported as `create` is at an id that held nothing before the statement -/
theorem exec_done_create_fresh {s : Store} (hwf : WF s) (st : Stmt) (q : Nat) (status : JStatus) (w : List Change)
    (h : (exec s st).2 = .done q status w) (c : Change) (hc : c ∈ w) (hop : c.op = .create) : s.elems c.id = none :=
  (((exec_done hwf st q status w h).versions c hc).1 hop).2

/-- every version row agrees, in the immutable columns, with the row its element has now — which is
not a shell -/
def LInv (s : Store) : Prop :=
  ∀ v ∈ s.vlog, ∃ e, s.elems v.id = some e ∧ e.state ≠ .pending ∧ e.row.pay = v.elem.row.pay ∧ e.row.tup = v.elem.row.tup ∧
    e.row.key = v.elem.row.key ∧ e.row.ty = v.elem.row.ty

theorem init_LInv : LInv Store.init := by intro v hv; cases hv

theorem LInv.of_raw {s s' : Store} (h : LInv s) (hraw : ∀ i, s'.elems i = s.elems i) (hv : s'.vlog = s.vlog) : LInv s' := by
  intro v hvm
  rw [hv] at hvm
  obtain ⟨e, he, rest⟩ := h v hvm
  exact ⟨e, by rw [hraw]; exact he, rest⟩

theorem exec_LInv {s : Store} (hwf : WF s) (ht : TInv s) (hl : LInv s) (st : Stmt) : LInv (exec s st).1 := by
  cases ho : (exec s st).2 with
  | refusedPlan e =>
      have := exec_refused hwf st e (.inl ho)
      exact hl.of_raw this.1 this.2.2.1
  | refusedCheck e =>
      have := exec_refused hwf st e (.inr ho)
      exact hl.of_raw this.1 this.2.2.1
  | refusedWrite e w => exact absurd ho (exec_no_refusedWrite hwf ht st e w)
  | dryRun cs =>
      have hinv := planned_inv hwf st
      rcases exec_cases s st with ⟨e', he, hr⟩ | ⟨he, hc⟩
      · rw [hr] at ho; cases ho
      · cases hc with
        | dry hd hr => rw [hr]; exact hl.of_raw (fun i => hinv.discard_raw i) hinv.vlog
        | check hd e' hkk hr => rw [hr] at ho; cases ho
        | write hd u hkk s' w' e' hw hr => rw [hr] at ho; cases ho
        | done hd u hkk s' w0 hw hr => rw [hr] at ho; cases ho
  | done q status w =>
      have ds := exec_done hwf st q status w ho
      obtain ⟨extra, hvl, hkeys, hcur⟩ := ds.vlog
      intro v hv
      rw [hvl] at hv
      rcases List.mem_append.mp hv with hv | hv
      · -- a row this commit appended carries the row it stored
        have hel := hcur v hv
        have h1 : v.key ∈ extra.map VEntry.key := List.mem_map.mpr ⟨v, hv, rfl⟩
        rw [hkeys] at h1
        obtain ⟨c, hc, hck⟩ := List.mem_map.mp (List.mem_reverse.mp h1)
        have hid : c.id = v.id := by
          have := congrArg Prod.fst hck
          simpa [Change.key, VEntry.key] using this
        obtain ⟨e1, he1, _, _, hst⟩ := ds.stamped c hc
        rw [hid, hel] at he1
        cases he1
        exact ⟨v.elem, hel, hst, rfl, rfl, rfl, rfl⟩
      · -- an older row survived: its element was not purged
        obtain ⟨hvold, hner⟩ := mem_eraseAll hv
        obtain ⟨e0, he0, hst0, i1, i2, i3, i4⟩ := hl v hvold
        by_cases hin : ∃ c ∈ w, c.id = v.id
        · obtain ⟨c, hc, hid⟩ := hin
          obtain ⟨e1, he1, _, _, hst⟩ := ds.stamped c hc
          rcases ds.immutable c hc e0 e1 (hid ▸ he0) he1 with ⟨j1, j2, j3, j4⟩ | hpur
          · exact ⟨e1, hid ▸ he1, hst, j1.trans i1, j2.trans i2, j3.trans i3, j4.trans i4⟩
          · exact absurd (hid ▸ hpur) hner
        · have hni : ∀ c ∈ w, c.id ≠ v.id := fun c hc heq => hin ⟨c, hc, heq⟩
          exact ⟨e0, by rw [ds.frame v.id hni]; exact he0, hst0, i1, i2, i3, i4⟩

theorem run_LInv {s : Store} (hwf : WF s) (ht : TInv s) (hl : LInv s) (l : List Stmt) : LInv (run s l) := by
  induction l generalizing s with
  | nil => exact hl
  | cons st r ih => exact ih (exec_spec hwf st).wf (exec_TInv hwf ht st) (exec_LInv hwf ht hl st)

/-! ## What a history destroys -/

/-- the elements whose recorded versions a history destroys: the purges its **committed** statements staged -/
def erasedRun : Store → List Stmt → List Id
  | _, [] => []
  | s, st :: r => erasedOf s st ++ erasedRun (exec s st).1 r

theorem run_vlog {s : Store} (hwf : WF s) (ht : TInv s) (l : List Stmt) :
    ∃ extra, (run s l).vlog = extra ++ eraseAll (erasedRun s l) s.vlog ∧ ∀ v ∈ extra, s.seq < v.seq := by
  induction l generalizing s with
  | nil => exact ⟨[], by simp [run, erasedRun, eraseAll_nil], by intro v hv; cases hv⟩
  | cons st r ih =>
      have sp := exec_spec hwf st
      obtain ⟨ex2, h4, h5⟩ := ih sp.wf (exec_TInv hwf ht st)
      obtain ⟨ex1, er1, h6, h7, h8⟩ := sp.vlog
      have her : er1 = erasedOf s st := h8 (fun e w => exec_no_refusedWrite hwf ht st e w)
      refine ⟨ex2 ++ eraseAll (erasedRun (exec s st).1 r) ex1, ?_, ?_⟩
      · simp only [run, erasedRun]
        rw [h4, h6, her, eraseAll_append, eraseAll_eraseAll]; simp
      · intro v hv
        rcases List.mem_append.mp hv with hv | hv
        · have := h5 v hv; rw [sp.seq] at this; omega
        · rw [h7 v (mem_eraseAll hv).1]; omega

end AndaVerif.Tx
