import AndaVerif.Proofs.ConcLinA
/-
Linearization, part B: every action of every call either leaves the ghost specification state and
the log alone, or appends one legal specification step to the log (its linearization point) —
given the facts the invariants supply about the acting call (`LinPre`).  Case analysis per call
kind and program counter.
-/
namespace AndaVerif.ConcColl

/-- the effect of one action on the ghost state: silent, or one legal logged step -/
def LinOut (sh : Shared) (t : Nat) (op : Op) (th : Thread) (sh' : Shared) (th' : Thread) : Prop :=
  IdxAbs sh' ∧
  ((sh'.glog = sh.glog ∧ gstate sh' = gstate sh ∧ th'.pred = th.pred) ∨
   (∃ r, sh'.glog = (t, r) :: sh.glog ∧ th'.pred = some r ∧ SpecF sh.conf op r (gstate sh) (gstate sh')))

theorem IdxAbs.congr {sh sh' : Shared} (h : IdxAbs sh) (hc : sh'.conf = sh.conf) (hk : sh'.idxK = sh.idxK)
    (hu : sh'.idxU = sh.idxU) (hg : sh'.gdocs = sh.gdocs) : IdxAbs sh' :=
  ⟨by rw [hc, hk, hg]; exact h.k, by rw [hc, hu, hg]; exact h.u⟩

theorem LinOut.silent {sh sh' : Shared} {t : Nat} {op : Op} {th th' : Thread} (hidx : IdxAbs sh)
    (hc : sh'.conf = sh.conf) (hk : sh'.idxK = sh.idxK) (hu : sh'.idxU = sh.idxU)
    (hg : sh'.gdocs = sh.gdocs) (he : sh'.ext = sh.ext) (hl : sh'.glog = sh.glog)
    (hp : th'.pred = th.pred) : LinOut sh t op th sh' th' :=
  ⟨hidx.congr hc hk hu hg, Or.inl ⟨hl, by simp [gstate, hg, he], hp⟩⟩

theorem LinOut.early {sh sh' : Shared} {t : Nat} {op : Op} {th th' : Thread} (hidx : IdxAbs sh)
    (hc : sh'.conf = sh.conf) (hk : sh'.idxK = sh.idxK) (hu : sh'.idxU = sh.idxU)
    (hg : sh'.gdocs = sh.gdocs) (he : sh'.ext = sh.ext) (r : Res) (hl : sh'.glog = (t, r) :: sh.glog)
    (hp : th'.pred = some r) (hs : SpecF sh.conf op r (gstate sh) (gstate sh)) : LinOut sh t op th sh' th' :=
  ⟨hidx.congr hc hk hu hg, Or.inr ⟨r, hl, hp, specF_congr hs (by simp [gstate, hg, he])⟩⟩

theorem LinOut.ofLinStep {sh sh1 sh' : Shared} {t : Nat} {op : Op} {th th' : Thread}
    (h : LinStep sh1 t op sh' th') (hc : sh1.conf = sh.conf) (hl : sh1.glog = sh.glog)
    (hs : gstate sh1 = gstate sh) : LinOut sh t op th sh' th' := by
  obtain ⟨hidx, r, hlog, hp, hspec⟩ := h
  refine ⟨hidx, Or.inr ⟨r, by rw [hlog, hl], hp, ?_⟩⟩
  rw [← hc, ← hs]; exact hspec

/-- a poisoned handle does not occur; this discharges the lifecycle branches -/
theorem stepAdd_lin (sh : Shared) (t : Nat) (th : Thread) (d : Doc) (sh' : Shared) (th' : Thread)
    (h : stepAdd sh t th d = some (sh', th')) (hidx : IdxAbs sh) (hclean : sh.poisoned = false)
    (hcoarse : sh.conf.fine = false) (hfresh0 : sh.gdocs (sh.maxId + 1) = none)
    (hfresh : th.pc = .wmWait ∨ th.pc = .wmPut → th.id ≠ 0 ∧ sh.gdocs th.id = none)
    (hfree : th.pc = .createWait → sh.store th.id = none) (hnoU : th.pc ≠ .idxU) :
    LinOut sh t (.add d) th sh' th' := by
  unfold stepAdd at h
  split at h
  · -- idle
    split at h
    · cases h
    · simp only [enter_poisoned, hclean, Bool.false_eq_true, if_false, Option.some.injEq] at h
      split at h
      · simp only [Option.some.injEq] at h
        refine LinOut.ofLinStep (addPhase_lin _ t _ d sh' th' ?_ ?_ ?_ ?_ h) rfl rfl rfl
        · exact hcoarse
        · exact hidx.congr rfl rfl rfl rfl
        · exact Nat.succ_ne_zero _
        · exact hfresh0
      · simp only [Option.some.injEq, Prod.mk.injEq] at h
        obtain ⟨rfl, rfl⟩ := h
        exact LinOut.silent hidx rfl rfl rfl rfl rfl rfl rfl
  · -- wmWait
    next hpc =>
    obtain ⟨hid, hg⟩ := hfresh (Or.inl hpc)
    split at h
    · cases h
    · split at h
      · simp only [Option.some.injEq] at h
        exact LinOut.ofLinStep (addPhase_lin _ t _ d sh' th' hcoarse hidx hid hg h) rfl rfl rfl
      · simp only [Option.some.injEq, Prod.mk.injEq] at h
        obtain ⟨rfl, rfl⟩ := h
        exact LinOut.silent hidx rfl rfl rfl rfl rfl rfl rfl
  · -- wmPut
    next hpc =>
    obtain ⟨hid, hg⟩ := hfresh (Or.inr hpc)
    simp only [Option.some.injEq] at h
    refine LinOut.ofLinStep (addPhase_lin _ t _ d sh' th' ?_ ?_ hid ?_ h) rfl rfl rfl
    · exact hcoarse
    · exact hidx.congr rfl rfl rfl rfl
    · exact hg
  · -- idxU: only at the fine granularity, where the closure was not atomic; the closure's second
    -- half is then a linearization of its own
    next hpc => exact absurd hpc hnoU
  · -- createWait
    next hpc =>
    rw [hfree hpc] at h
    simp only [Option.some.injEq, Prod.mk.injEq] at h
    obtain ⟨rfl, rfl⟩ := h
    exact LinOut.silent hidx rfl rfl rfl rfl rfl rfl rfl
  · cases h

theorem stepUpd_lin (sh : Shared) (t : Nat) (th : Thread) (id : Nat) (fk fu fv : Option Nat)
    (sh' : Shared) (th' : Thread) (h : stepUpd sh t th id fk fu fv = some (sh', th'))
    (hidx : IdxAbs sh) (hclean : sh.poisoned = false) (hcoarse : sh.conf.fine = false)
    (hne : ¬ (fk = none ∧ fu = none ∧ fv = none))
    (hmiss : sh.store id = none → sh.gdocs id = none)
    (hids : id ∉ sh.ids → sh.store id = none)
    (hread : th.pc = .intentWait ∨ th.pc = .putWait →
      ∃ d, th.old = some d ∧ sh.store id = some (d, th.ver) ∧ th.new = applyFields d fk fu fv)
    (hghost : th.pc = .intentWait → sh.gdocs id = th.old) (hnoU : th.pc ≠ .idxU) :
    LinOut sh t (.upd id fk fu fv) th sh' th' := by
  unfold stepUpd at h
  split at h
  · -- idle
    split at h
    · cases h
    · simp only [enter_poisoned, hclean, Bool.false_eq_true, if_false, enter_ids] at h
      split at h
      · next hni =>
        simp only [Option.some.injEq, Prod.mk.injEq] at h
        obtain ⟨rfl, rfl⟩ := h
        exact LinOut.early hidx rfl rfl rfl rfl rfl (.err .notFound) rfl rfl
          (SpecF.updMissing id fk fu fv _ (hmiss (hids hni)))
      · simp only [hne, if_false, Option.some.injEq, Prod.mk.injEq] at h
        obtain ⟨rfl, rfl⟩ := h
        exact LinOut.silent hidx rfl rfl rfl rfl rfl rfl rfl
  · -- lockWait
    split at h
    · cases h
    · simp only [Option.some.injEq, Prod.mk.injEq] at h
      obtain ⟨rfl, rfl⟩ := h
      exact LinOut.silent hidx rfl rfl rfl rfl rfl rfl rfl
  · -- getWait
    split at h
    · next hs =>
      simp only [Option.some.injEq, Prod.mk.injEq] at h
      obtain ⟨rfl, rfl⟩ := h
      exact LinOut.early hidx rfl rfl rfl rfl rfl (.err .notFound) rfl rfl
        (SpecF.updMissing id fk fu fv _ (hmiss hs))
    · simp only [Option.some.injEq, Prod.mk.injEq] at h
      obtain ⟨rfl, rfl⟩ := h
      exact LinOut.silent hidx rfl rfl rfl rfl rfl rfl rfl
  · -- intentWait
    next hpc =>
    obtain ⟨old, hold, _, hnew⟩ := hread (Or.inl hpc)
    have hg : sh.gdocs id = some old := by rw [hghost hpc, hold]
    simp only [hcoarse, Bool.false_eq_true, if_false, Option.some.injEq] at h
    refine LinOut.ofLinStep (updLin_lin _ t th id fk fu fv sh' th' ?_ old hold ?_ hnew hne h) rfl rfl rfl
    · exact hidx.congr rfl rfl rfl rfl
    · exact hg
  · next hpc => exact absurd hpc hnoU
  · -- putWait
    next hpc =>
    obtain ⟨old, _, hs, _⟩ := hread (Or.inr hpc)
    rw [hs] at h
    simp only [if_true, Option.some.injEq, Prod.mk.injEq] at h
    obtain ⟨rfl, rfl⟩ := h
    exact LinOut.silent hidx rfl rfl rfl rfl rfl rfl rfl
  · cases h

theorem stepRm_lin (sh : Shared) (t : Nat) (th : Thread) (id : Nat) (sh' : Shared) (th' : Thread)
    (h : stepRm sh t th id = some (sh', th')) (hidx : IdxAbs sh) (hclean : sh.poisoned = false)
    (hmiss : sh.store id = none → sh.gdocs id = none) (hids : id ∉ sh.ids → sh.store id = none)
    (hread : th.pc = .intentWait → ∃ d, th.old = some d ∧ sh.gdocs id = some d) :
    LinOut sh t (.rm id) th sh' th' := by
  unfold stepRm at h
  split at h
  · split at h
    · cases h
    · simp only [enter_poisoned, hclean, Bool.false_eq_true, if_false, enter_ids] at h
      split at h
      · next hni =>
        simp only [Option.some.injEq, Prod.mk.injEq] at h
        obtain ⟨rfl, rfl⟩ := h
        exact LinOut.early hidx rfl rfl rfl rfl rfl .noDoc rfl rfl (SpecF.rmMissing id _ (hmiss (hids hni)))
      · simp only [Option.some.injEq, Prod.mk.injEq] at h
        obtain ⟨rfl, rfl⟩ := h
        exact LinOut.silent hidx rfl rfl rfl rfl rfl rfl rfl
  · split at h
    · cases h
    · simp only [Option.some.injEq, Prod.mk.injEq] at h
      obtain ⟨rfl, rfl⟩ := h
      exact LinOut.silent hidx rfl rfl rfl rfl rfl rfl rfl
  · split at h
    · next hs =>
      simp only [Option.some.injEq, Prod.mk.injEq] at h
      obtain ⟨rfl, rfl⟩ := h
      exact LinOut.early hidx (by simp) (by simp) (by simp) (by simp) (by simp) .noDoc (by simp) rfl
        (SpecF.rmMissing id _ (hmiss hs))
    · simp only [Option.some.injEq, Prod.mk.injEq] at h
      obtain ⟨rfl, rfl⟩ := h
      exact LinOut.silent hidx rfl rfl rfl rfl rfl rfl rfl
  · next hpc =>
    obtain ⟨old, hold, hg⟩ := hread hpc
    simp only [Option.some.injEq] at h
    refine LinOut.ofLinStep (rmLin_lin _ t th id sh' th' ?_ old hold ?_ h) rfl rfl rfl
    · exact hidx.congr rfl rfl rfl rfl
    · exact hg
  · simp only [Option.some.injEq, Prod.mk.injEq] at h
    obtain ⟨rfl, rfl⟩ := h
    exact LinOut.silent hidx (by simp) (by simp) (by simp) (by simp) (by simp) (by simp) rfl
  · cases h

theorem stepGet_lin (sh : Shared) (t : Nat) (th : Thread) (id : Nat) (sh' : Shared) (th' : Thread)
    (h : stepGet sh th id = some (sh', th')) (hidx : IdxAbs sh) : LinOut sh t (.get id) th sh' th' := by
  unfold stepGet at h
  split at h
  · split at h <;>
    · simp only [Option.some.injEq, Prod.mk.injEq] at h
      obtain ⟨rfl, rfl⟩ := h
      exact LinOut.silent hidx rfl rfl rfl rfl rfl rfl rfl
  · split at h <;>
    · simp only [Option.some.injEq, Prod.mk.injEq] at h
      obtain ⟨rfl, rfl⟩ := h
      exact LinOut.silent hidx rfl rfl rfl rfl rfl rfl rfl
  · cases h

theorem stepExt_lin (sh : Shared) (t : Nat) (th : Thread) (key val : Nat) (sh' : Shared) (th' : Thread)
    (h : stepExt sh t th key val = some (sh', th')) (hidx : IdxAbs sh) (hclean : sh.poisoned = false) :
    LinOut sh t (.ext key val) th sh' th' := by
  unfold stepExt at h
  split at h
  · split at h
    · cases h
    · simp only [enter_poisoned, hclean, Bool.false_eq_true, if_false, Option.some.injEq, Prod.mk.injEq] at h
      obtain ⟨rfl, rfl⟩ := h
      refine ⟨hidx.congr rfl rfl rfl rfl, Or.inr ⟨.ok, rfl, rfl, ?_⟩⟩
      exact specF_congr (SpecF.ext key val (gstate sh)) (by simp [gstate])
  · split at h
    · cases h
    · simp only [Option.some.injEq, Prod.mk.injEq] at h
      obtain ⟨rfl, rfl⟩ := h
      exact LinOut.silent hidx rfl rfl rfl rfl rfl rfl rfl
  · split at h <;>
    · simp only [Option.some.injEq, Prod.mk.injEq] at h
      obtain ⟨rfl, rfl⟩ := h
      exact LinOut.silent hidx rfl rfl rfl rfl rfl rfl rfl
  · cases h

theorem specF_flush (conf : Config) (b : Bool) (p : Option (List Nat)) (a : SpecState)
    (h : ∀ l, p = some l → ∀ i, i ∈ l ↔ a.docs i ≠ none) : SpecF conf .flush (.flushed b p) a a := by
  cases p with
  | none => exact SpecF.flushNone b a
  | some l => exact SpecF.flushSome b l a (h l rfl)

theorem flushAfterIds_lin (sh sh1 : Shared) (t : Nat) (th th0 : Thread) (sh' : Shared) (th' : Thread)
    (h : flushAfterIds sh1 t th = (sh', th')) (hidx : IdxAbs sh) (hp : th.pred = th0.pred)
    (hc : sh1.conf = sh.conf) (hk : sh1.idxK = sh.idxK) (hu : sh1.idxU = sh.idxU)
    (hg : sh1.gdocs = sh.gdocs) (he : sh1.ext = sh.ext) (hl : sh1.glog = sh.glog)
    (hpids : ∀ l, th.pids = some l → ∀ i, i ∈ l ↔ sh.gdocs i ≠ none) :
    LinOut sh t .flush th0 sh' th' := by
  unfold flushAfterIds at h
  split at h
  · simp only [Prod.mk.injEq] at h
    obtain ⟨rfl, rfl⟩ := h
    exact LinOut.silent hidx hc hk hu hg he hl hp
  · simp only [Prod.mk.injEq] at h
    obtain ⟨rfl, rfl⟩ := h
    refine LinOut.early hidx hc hk hu hg he (flushResult th) ?_ rfl (specF_flush _ _ _ _ hpids)
    show (t, flushResult th) :: sh1.glog = _
    rw [hl]

theorem stepFlush_lin (sh : Shared) (t : Nat) (th : Thread) (sh' : Shared) (th' : Thread)
    (h : stepFlush sh t th = some (sh', th')) (hidx : IdxAbs sh) (hclean : sh.poisoned = false)
    (hver : th.pc = .fMeta → th.ver = sh.metaObjVer)
    (hpids : ∀ l, th.pids = some l → ∀ i, i ∈ l ↔ sh.gdocs i ≠ none) :
    LinOut sh t .flush th sh' th' := by
  unfold stepFlush at h
  split at h
  · -- idle
    split at h
    · cases h
    · simp only [hclean, Bool.false_eq_true, if_false] at h
      split at h
      · simp only [Option.some.injEq, Prod.mk.injEq] at h
        obtain ⟨rfl, rfl⟩ := h
        exact LinOut.early hidx rfl rfl rfl rfl rfl (.flushed false none) rfl rfl (SpecF.flushNone _ _)
      · split at h
        · simp only [Option.some.injEq, Prod.mk.injEq] at h
          obtain ⟨rfl, rfl⟩ := h
          exact LinOut.silent hidx rfl rfl rfl rfl rfl rfl rfl
        · simp only [Option.some.injEq] at h
          unfold flushAfterIdx at h
          split at h
          · exact flushAfterIds_lin sh _ t _ th sh' th' h hidx rfl rfl rfl rfl rfl rfl rfl hpids
          · simp only [Prod.mk.injEq] at h
            obtain ⟨rfl, rfl⟩ := h
            exact LinOut.silent hidx rfl rfl rfl rfl rfl rfl rfl
  · -- fIdx
    simp only [Option.some.injEq] at h
    unfold flushAfterIdx at h
    split at h
    · exact flushAfterIds_lin sh _ t _ th sh' th' h hidx rfl rfl rfl rfl rfl rfl rfl hpids
    · simp only [Prod.mk.injEq] at h
      obtain ⟨rfl, rfl⟩ := h
      exact LinOut.silent hidx rfl rfl rfl rfl rfl rfl rfl
  · -- fMeta
    next hpc =>
    simp only [hver hpc, if_true, Option.some.injEq, Prod.mk.injEq] at h
    obtain ⟨rfl, rfl⟩ := h
    exact LinOut.silent hidx rfl rfl rfl rfl rfl rfl rfl
  · -- fIds
    simp only [Option.some.injEq, Prod.mk.injEq] at h
    obtain ⟨rfl, rfl⟩ := h
    exact LinOut.silent hidx rfl rfl rfl rfl rfl rfl rfl
  · -- fSto
    simp only [Option.some.injEq] at h
    exact flushAfterIds_lin sh _ t _ th sh' th' h hidx rfl rfl rfl rfl rfl rfl rfl hpids
  · -- fClr
    dsimp only at h
    split at h
    · simp only [Option.some.injEq, Prod.mk.injEq] at h
      obtain ⟨rfl, rfl⟩ := h
      exact LinOut.early hidx rfl rfl rfl rfl rfl (flushResult th) rfl rfl (specF_flush _ _ _ _ hpids)
    · simp only [Option.some.injEq, Prod.mk.injEq] at h
      obtain ⟨rfl, rfl⟩ := h
      exact LinOut.silent hidx rfl rfl rfl rfl rfl rfl rfl
  · cases h

/-- what the invariants must supply about the acting call -/
structure LinPre (sh : Shared) (th : Thread) : Prop where
  idx : IdxAbs sh
  clean : sh.poisoned = false
  coarse : sh.conf.fine = false
  noU : th.pc ≠ .idxU
  addFresh0 : sh.gdocs (sh.maxId + 1) = none
  addFresh : th.isAdd = true → th.pc = .wmWait ∨ th.pc = .wmPut → th.id ≠ 0 ∧ sh.gdocs th.id = none
  addFree : th.isAdd = true → th.pc = .createWait → sh.store th.id = none
  noEmpty : ∀ id, th.op ≠ .upd id none none none
  miss : ∀ id, th.target = some id → sh.store id = none → sh.gdocs id = none
  ids : ∀ id, id ∉ sh.ids → sh.store id = none
  rs : th.RS sh
  updGhost : ∀ id fk fu fv, th.op = .upd id fk fu fv → th.pc = .intentWait → sh.gdocs id = th.old
  rmGhost : ∀ id, th.op = .rm id → th.pc = .intentWait → sh.gdocs id = th.old
  flushVer : th.isFlush = true → th.pc = .fMeta → th.ver = sh.metaObjVer
  flushIds : th.isFlush = true → ∀ l, th.pids = some l → ∀ i, i ∈ l ↔ sh.gdocs i ≠ none

/-- **Every action is silent or one legal logged specification step.** -/
theorem stepThread_lin (sh : Shared) (t : Nat) (th : Thread) (sh' : Shared) (th' : Thread)
    (h : stepThread sh t th = some (sh', th')) (pre : LinPre sh th) : LinOut sh t th.op th sh' th' := by
  unfold stepThread at h
  split at h
  · next d hop =>
    rw [hop]
    have hk : th.isAdd = true := by simp [Thread.isAdd, hop]
    exact stepAdd_lin sh t th d sh' th' h pre.idx pre.clean pre.coarse pre.addFresh0 (pre.addFresh hk)
      (pre.addFree hk) pre.noU
  · next id fk fu fv hop =>
    rw [hop]
    have hrs := pre.rs
    unfold Thread.RS at hrs
    simp only [hop] at hrs
    refine stepUpd_lin sh t th id fk fu fv sh' th' h pre.idx pre.clean pre.coarse ?_
      (pre.miss id (by simp [Thread.target, hop])) (pre.ids id) ?_ (pre.updGhost id fk fu fv hop) pre.noU
    · rintro ⟨rfl, rfl, rfl⟩; exact pre.noEmpty id hop
    · intro hpc
      apply hrs
      rcases hpc with hpc | hpc
      · exact Or.inl hpc
      · exact Or.inr (Or.inr hpc)
  · next id hop =>
    rw [hop]
    have hrs := pre.rs
    unfold Thread.RS at hrs
    simp only [hop] at hrs
    refine stepRm_lin sh t th id sh' th' h pre.idx pre.clean
      (pre.miss id (by simp [Thread.target, hop])) (pre.ids id) ?_
    intro hpc
    obtain ⟨d, v, ho, hs⟩ := hrs (Or.inl hpc)
    exact ⟨d, ho, by rw [pre.rmGhost id hop hpc, ho]⟩
  · next id hop => rw [hop]; exact stepGet_lin sh t th id sh' th' h pre.idx
  · next hop =>
    rw [hop]
    have hk : th.isFlush = true := by simp [Thread.isFlush, hop]
    exact stepFlush_lin sh t th sh' th' h pre.idx pre.clean (pre.flushVer hk) (pre.flushIds hk)
  · next key val hop => rw [hop]; exact stepExt_lin sh t th key val sh' th' h pre.idx pre.clean

end AndaVerif.ConcColl
