/-
C09: soundness of the decryption stream and of `get_ranges` relative to `ChunkSound`
("a chunk that opens is the true plaintext chunk of that index").
-/
import AndaVerif.Proofs.EncStream

namespace AndaVerif.Enc

/-- Every ciphertext that `openChunk` accepts for index `idx` decrypts to chunk `idx` of `P`. -/
def ChunkSound (A : AEAD) (m : Meta) (c : Nat) (P : Bytes) : Prop :=
  ∀ idx ct p, openChunk A m c idx ct = .ok p → idx * c < P.length ∧ p = slice P (idx * c) (idx * c + c)

/-- Invariant of the stream state for the request `[s, e)`. -/
structure SInv (P : Bytes) (cfg : SCfg) (s e : Nat) (st : SState) : Prop where
  rem_le : st.remaining ≤ e - s
  out_eq : st.out = slice P s (e - st.remaining)
  pos : (st.idx = cfg.startIdx ∧ st.remaining = e - s) ∨
        (cfg.startIdx < st.idx ∧ e - st.remaining = st.idx * cfg.c)

/-- What a (partial) stream outcome may be. -/
def ROk (P : Bytes) (cfg : SCfg) (s e : Nat) : SRes → Prop
  | .cont st => SInv P cfg s e st ∧ st.remaining > 0
  | .done out => out = slice P s e
  | .fail _ out => ∃ k, k ≤ e - s ∧ out = slice P s (s + k)

structure PlanOk (P : Bytes) (cfg : SCfg) (s e : Nat) : Prop where
  c_pos : 1 ≤ cfg.c
  lt : s < e
  le : e ≤ P.length
  idx : cfg.startIdx = s / cfg.c
  off : cfg.startOffset = s - s / cfg.c * cfg.c

/-- One verified chunk, trimmed: the next piece of the requested slice. -/
theorem trim_step {P : Bytes} {cfg : SCfg} {s e : Nat} (hp : PlanOk P cfg s e) {st : SState}
    (hi : SInv P cfg s e st) (_hr : st.remaining > 0) {p : Bytes}
    (_hlt : st.idx * cfg.c < P.length) (hpe : p = slice P (st.idx * cfg.c) (st.idx * cfg.c + cfg.c)) :
    let pos := e - st.remaining
    let B := st.idx * cfg.c + cfg.c
    st.idx * cfg.c ≤ pos ∧ pos < B ∧
    (if st.idx = cfg.startIdx ∧ cfg.startOffset > 0 then p.drop cfg.startOffset else p) = slice P pos B := by
  have hc := hp.c_pos
  have h1 := Nat.div_add_mod s cfg.c
  have h2 := Nat.mod_lt s (show cfg.c > 0 by omega)
  have e1 : s / cfg.c * cfg.c = cfg.c * (s / cfg.c) := Nat.mul_comm _ _
  have hrl := hi.rem_le
  have hlt' := hp.lt
  rcases hi.pos with ⟨hidx, hrem⟩ | ⟨hidx, hpos⟩
  · -- first chunk
    have hs : st.idx * cfg.c = s / cfg.c * cfg.c := by rw [hidx, hp.idx]
    have hposs : e - st.remaining = s := by omega
    simp only [hposs]
    refine ⟨by rw [hs, e1]; omega, by rw [hs, e1]; omega, ?_⟩
    by_cases ho : cfg.startOffset > 0
    · rw [if_pos ⟨hidx, ho⟩, hpe, slice_drop]
      congr 1
      rw [hs, hp.off, e1]; omega
    · rw [if_neg (fun h => ho h.2), hpe]; congr 1
      have : cfg.startOffset = 0 := by omega
      rw [hp.off] at this
      rw [hs, e1]; rw [e1] at this; omega
  · have hne : ¬ (st.idx = cfg.startIdx ∧ cfg.startOffset > 0) := by omega
    simp only [hne, if_false, hpos]
    exact ⟨Nat.le_refl _, by omega, hpe⟩

theorem drain_ok {A : AEAD} {P : Bytes} {cfg : SCfg} {s e : Nat} (hp : PlanOk P cfg s e)
    (hs : ChunkSound A cfg.m cfg.c P) :
    ∀ (f : Nat) (st : SState), SInv P cfg s e st → st.remaining > 0 → ROk P cfg s e (drain A cfg f st)
  | 0, st, hi, hr => ⟨hi, hr⟩
  | f + 1, st, hi, hr => by
    unfold drain
    by_cases hcond : st.remaining > 0 ∧ st.buf.length ≥ cfg.c
    · simp only [hcond, and_self, if_true]
      cases ho : openChunk A cfg.m cfg.c st.idx (st.buf.take cfg.c) with
      | error err =>
        exact ⟨e - st.remaining - s, by omega, by
          rw [hi.out_eq]; congr 1; have := hi.rem_le; have := hp.lt; omega⟩
      | ok p =>
        obtain ⟨hlt, hpe⟩ := hs _ _ _ ho
        obtain ⟨hlo, hhi, htrim⟩ := trim_step hp hi hr hlt hpe
        have hrl := hi.rem_le
        have hle := hp.le
        have hlt' := hp.lt
        -- the trimmed piece
        have hp2 : trimChunk cfg st.idx st.remaining p =
            slice P (e - st.remaining) (min (st.idx * cfg.c + cfg.c) e) := by
          unfold trimChunk
          simp only [htrim]
          by_cases hlen : (slice P (e - st.remaining) (st.idx * cfg.c + cfg.c)).length > st.remaining
          · simp only [hlen, if_true]
            rw [slice_take]; congr 1
            rw [slice_length] at hlen; omega
          · simp only [hlen, if_false]
            rw [slice_length] at hlen
            rw [slice_clip P _ (st.idx * cfg.c + cfg.c), slice_clip P _ (min (st.idx * cfg.c + cfg.c) e)]
            congr 1; omega
        have hlen2 : (trimChunk cfg st.idx st.remaining p).length =
            min (st.idx * cfg.c + cfg.c) e - (e - st.remaining) := by
          rw [hp2, slice_length]; omega
        have hout : st.out ++ trimChunk cfg st.idx st.remaining p =
            slice P s (min (st.idx * cfg.c + cfg.c) e) := by
          rw [hi.out_eq, hp2]
          apply slice_append <;> omega
        simp only
        by_cases hz : st.remaining - (trimChunk cfg st.idx st.remaining p).length = 0
        · simp only [hz, if_true]
          show _ = slice P s e
          rw [hout]; congr 1; omega
        · simp only [hz, if_false]
          apply drain_ok hp hs f
          · refine ⟨by simp only; omega, ?_, ?_⟩
            · simp only; rw [hout]; congr 1; omega
            · right
              simp only
              refine ⟨?_, ?_⟩
              · rcases hi.pos with ⟨h, _⟩ | ⟨h, _⟩ <;> omega
              · rw [Nat.add_mul]; omega
          · simp only; omega
    · simp only [hcond, if_false]
      exact ⟨hi, hr⟩

theorem finish_ok {A : AEAD} {P : Bytes} {cfg : SCfg} {s e : Nat} (hp : PlanOk P cfg s e)
    (hs : ChunkSound A cfg.m cfg.c P) (st : SState) (hi : SInv P cfg s e st) (hr : st.remaining > 0) :
    ROk P cfg s e (finish A cfg st) ∧ ∀ st', finish A cfg st ≠ .cont st' := by
  have hrl := hi.rem_le
  have hle := hp.le
  have hlt' := hp.lt
  have prefixOk : ∃ k, k ≤ e - s ∧ st.out = slice P s (s + k) :=
    ⟨e - st.remaining - s, by omega, by rw [hi.out_eq]; congr 1; omega⟩
  unfold finish
  split
  · split
    · exact ⟨prefixOk, fun _ h => by cases h⟩
    · rename_i p ho
      obtain ⟨hlt, hpe⟩ := hs _ _ _ ho
      obtain ⟨hlo, hhi, htrim⟩ := trim_step hp hi hr hlt hpe
      split
      · exact ⟨prefixOk, fun _ h => by cases h⟩
      · simp only [htrim]
        split
        · exact ⟨prefixOk, fun _ h => by cases h⟩
        · rename_i hlen
          rw [slice_length] at hlen
          refine ⟨?_, fun _ h => by cases h⟩
          show _ = slice P s e
          rw [hi.out_eq, slice_take]
          have : min (e - st.remaining + st.remaining) (st.idx * cfg.c + cfg.c) = e := by omega
          rw [this]
          apply slice_append <;> omega
  · first
      | exact ⟨prefixOk, fun _ h => by cases h⟩
      | (rw [if_pos hr]; exact ⟨prefixOk, fun _ h => by cases h⟩)

theorem runSegs_ok {A : AEAD} {P : Bytes} {cfg : SCfg} {s e : Nat} (hp : PlanOk P cfg s e)
    (hs : ChunkSound A cfg.m cfg.c P) :
    ∀ (segs : List Bytes) (st : SState), SInv P cfg s e st → st.remaining > 0 →
      ROk P cfg s e (runSegs A cfg segs st) ∧ ∀ st', runSegs A cfg segs st ≠ .cont st'
  | [], st, hi, hr => by simpa [runSegs] using finish_ok hp hs st hi hr
  | seg :: rest, st, hi, hr => by
    simp only [runSegs]
    have hi' : SInv P cfg s e { st with buf := st.buf ++ seg } := ⟨hi.rem_le, hi.out_eq, hi.pos⟩
    have := drain_ok hp hs (st.buf.length + seg.length + 1) { st with buf := st.buf ++ seg } hi' hr
    cases hd : drain A cfg (st.buf.length + seg.length + 1) { st with buf := st.buf ++ seg } with
    | cont st' =>
      rw [hd] at this
      exact runSegs_ok hp hs rest st' this.1 this.2
    | done out => rw [hd] at this; exact ⟨this, fun _ h => by cases h⟩
    | fail err out => rw [hd] at this; exact ⟨this, fun _ h => by cases h⟩

/-- The whole stream, for every backend stream `segs` whatsoever. -/
theorem decStream_ok {A : AEAD} {P : Bytes} {cfg : SCfg} {s e : Nat} (hp : PlanOk P cfg s e)
    (hs : ChunkSound A cfg.m cfg.c P) (segs : List Bytes) :
    ROk P cfg s e (decStream A cfg (e - s) segs) ∧ ∀ st', decStream A cfg (e - s) segs ≠ .cont st' := by
  have hlt := hp.lt
  unfold decStream
  have : ¬ e - s = 0 := by omega
  simp only [this, if_false]
  apply runSegs_ok hp hs
  · refine ⟨Nat.le_refl _, ?_, Or.inl ⟨rfl, rfl⟩⟩
    have : e - (e - s) = s := by omega
    simp only [this, slice_self]
  · simp only; omega

end AndaVerif.Enc
