import AndaVerif.Proofs.ObjStoreGc
/-
Whole-view crash atomicity of the single-key calls (C08, `StoreSpec`).

`CutsOK` (Proofs/ObjStoreCrash.lean) is per key: after a cut every key reads its old or its new
object. For a call that commits at ONE commit point (put in every mode, multipart, copy, delete — every
call except a rename between two different keys) the stronger statement holds: the whole cold view of
the store after the cut is the view before the call or the view after the completed call — the call
is ONE atomic mutation, which is how the other models (C01, C05, C10–C12) treat a store write.
-/
namespace AndaVerif.ObjStore
open Gen.SidecarOrder

/-- Every cut of `steps` run from `be` reads, for all keys at once, as before or as after. -/
def CutsWhole (now : Nat) (be : Backend) (steps : List Step) : Prop :=
  ∀ n, (∀ x, readCold (applyPrefix now be steps n) x = readCold be x) ∨
       (∀ x, readCold (applyPrefix now be steps n) x = readCold (applySteps now be steps) x)

theorem cutsWhole_nil (now : Nat) (be : Backend) : CutsWhole now be [] := by
  intro n
  left; intro x
  rw [applyPrefix_nil]

/-- "key `k` switches to `v` at step `m0`, nothing else changes" -/
theorem cutsWhole_of_formula {now : Nat} {be : Backend} {steps : List Step} (k : Path) (v : Option REnt)
    (m0 : Nat) (hm0 : m0 ≤ steps.length)
    (h : ∀ n x, readCold (applyPrefix now be steps n) x = if x = k ∧ m0 ≤ n then v else readCold be x) :
    CutsWhole now be steps := by
  intro n
  by_cases hn : m0 ≤ n
  · right; intro x
    rw [applySteps_eq_prefix, h n x, h steps.length x]
    simp [hn, hm0]
  · left; intro x
    rw [h n x]
    simp [hn]

theorem cutsWhole_write {w : W} (hw : WInv w) (order : List CommitPhase) (ho : order = [.payload, .pointer, .reclaim])
    (seeded : Bool) (now : Nat) (k : Path) (mode : PutMode) (data : Bytes) :
    CutsWhole now w.be (planWrite w order seeded now k mode data).steps := by
  rcases planWrite_steps w order seeded now k mode data with ⟨h0, _⟩ | ⟨d, hg, hs, _, _, hsteps, _, _⟩
  · rw [h0]; exact cutsWhole_nil now w.be
  · rw [hsteps, ho, commitSteps_std, curOf_doc]
    apply cutsWhole_of_formula k (some (committed d data now)) 2 (by simp)
    intro n
    exact (write_prefix hw.be now k ⟨now, w.nextId⟩ rfl data d hg hs n).2

theorem cutsWhole_copyCommit {w : W} (hw : WInv w) (cache : List (Path × Doc)) (now : Nat) (srck : Path) (src : Doc)
    (hsrc : docAt w.be srck = some src) (dst : Path) (create : Bool) :
    CutsWhole now w.be (planCopyCommit w cache now src (payloadPath srck src.gen) dst create).steps := by
  obtain ⟨b, bt, hb, hsz⟩ := hw.be.ptr srck src hsrc
  rcases planCopyCommit_steps w cache now src (payloadPath srck src.gen) dst create with
    ⟨h0, _⟩ | ⟨hsteps, _, _, _⟩
  · rw [h0]
    intro n
    exact Or.inl (copy_garbage_prefix hw.be now dst ⟨now, w.nextId⟩ rfl _ b bt hb n).2
  · rw [hsteps, gen_copy_order, commitSteps_std, curOf_doc]
    apply cutsWhole_of_formula dst (some (committed (copyDoc now w.nextId src) b now)) 2 (by simp)
    intro n
    exact (copy_prefix hw.be now dst ⟨now, w.nextId⟩ rfl _ b bt hb (copyDoc now w.nextId src) rfl
      (by simp [copyDoc, hsz]) n).2

theorem cutsWhole_delete (w : W) (cache : List (Path × Doc)) {be : Backend} {m : Nat} (h : BInv be m) (now : Nat) (k : Path) :
    CutsWhole now be (planDelete w cache be k).steps := by
  rw [planDelete_steps w cache h]
  cases hd : docAt be k with
  | none => exact cutsWhole_nil now be
  | some d =>
      simp only [deleteSteps]
      apply cutsWhole_of_formula k none 1 (by simp)
      intro n
      have := delete_prefix h now k n
      simp only [hd] at this
      exact this.2

/-- the calls with one commit point: everything except a rename between two different keys -/
def Call.singleKey : Call → Bool
  | .rename src dst _ => decide (src = dst)
  | _ => true

/-- **Whole-view atomicity**: every cut of the step list of every single-commit call. -/
theorem cutsWhole_stepsOf {w : W} (hw : WInv w) (now : Nat) (c : Call) (hc : c.singleKey = true) :
    CutsWhole now w.be (stepsOf w now c) := by
  have hnil := cutsWhole_nil now w.be
  cases c with
  | put k mode data => exact cutsWhole_write hw _ (gen_put_order _) _ now k mode data
  | mput k parts => exact cutsWhole_write hw _ (gen_complete_order _) _ now k .overwrite _
  | get k o => exact hnil
  | getRanges k rs => exact hnil
  | delete k => exact cutsWhole_delete w w.cache hw.be now k
  | copy src dst create =>
      simp only [stepsOf, copySteps]
      obtain ⟨w1, hr, hw1, hbe, hn, hf⟩ := resolveSource_spec hw src
      rw [hr]
      cases hd : docAt w.be src with
      | none => exact hnil
      | some d =>
          simp only []
          have := cutsWhole_copyCommit hw1 w1.cache now src d (by rw [hbe]; exact hd) dst create
          rw [hbe] at this
          exact this
  | rename src dst create =>
      have hsd : src = dst := by simpa [Call.singleKey] using hc
      subst hsd
      simp only [stepsOf, decide_true, Bool.and_true, gen_self_rename_guard, if_true]
      exact hnil
  | list pre off => exact hnil
  | listDelim pre => exact hnil

end AndaVerif.ObjStore
