import AndaVerif.Proofs.KmlGuardBasic
/-
C16 helper lemmas, part 2: `validate_exact_patterns` accepts only selections without a BELIEF
pattern and without an inexact tuple (raw predicate path, Literal subject) at any depth.
-/
namespace AndaVerif.KmlGuard

mutual
theorem MatchValue.exact_sound : ∀ v : MatchValue, v.validateExact = .ok () → v.anyTuple badTuple = false
  | .vari _, _ => by simp [MatchValue.anyTuple]
  | .param _, _ => by simp [MatchValue.anyTuple]
  | .literal _, _ => by simp [MatchValue.anyTuple]
  | .array items, h => by
    simp only [MatchValue.validateExact] at h
    simp only [MatchValue.anyTuple]
    exact MatchList.exact_sound items h
  | .mtch m, h => by
    simp only [MatchValue.validateExact] at h
    simp only [MatchValue.anyTuple]
    exact Matcher.exact_sound m h
  | .prop p, h => by
    simp only [MatchValue.validateExact] at h
    simp only [MatchValue.anyTuple]
    exact PropMatcher.exact_sound p h
theorem MatchList.exact_sound : ∀ l : MatchList, l.validateExact = .ok () → l.anyTuple badTuple = false
  | .nil, _ => by simp [MatchList.anyTuple]
  | .cons v t, h => by
    simp only [MatchList.validateExact] at h
    split at h
    · cases h
    · rename_i u hv
      cases u
      simp [MatchList.anyTuple, MatchValue.exact_sound v hv, MatchList.exact_sound t h]
theorem Matcher.exact_sound : ∀ m : Matcher, m.validateExact = .ok () → m.anyTuple badTuple = false
  | .nil, _ => by simp [Matcher.anyTuple]
  | .cons _ v t, h => by
    simp only [Matcher.validateExact] at h
    split at h
    · cases h
    · rename_i u hv
      cases u
      simp [Matcher.anyTuple, MatchValue.exact_sound v hv, Matcher.exact_sound t h]
theorem PropMatcher.exact_sound : ∀ p : PropMatcher, p.validateExact = .ok () → p.anyTuple badTuple = false
  | .id _, _ => by simp [PropMatcher.anyTuple]
  | .tuple s pr o, h => by
    simp only [PropMatcher.validateExact] at h
    cases pr with
    | path atoms => simp at h
    | atom a =>
      simp only at h
      cases s with
      | literal l => simp at h
      | vari n =>
        simp only [Term.validateExact] at h
        simp [PropMatcher.anyTuple, badTuple, isPath, isLiteral, Term.anyTuple, Term.exact_sound o h]
      | param n =>
        simp only [Term.validateExact] at h
        simp [PropMatcher.anyTuple, badTuple, isPath, isLiteral, Term.anyTuple, Term.exact_sound o h]
      | mtch m =>
        simp only at h
        split at h
        · cases h
        · rename_i u hs
          cases u
          simp [PropMatcher.anyTuple, badTuple, isPath, isLiteral, Term.exact_sound (.mtch m) hs, Term.exact_sound o h]
      | prop q =>
        simp only at h
        split at h
        · cases h
        · rename_i u hs
          cases u
          simp [PropMatcher.anyTuple, badTuple, isPath, isLiteral, Term.exact_sound (.prop q) hs, Term.exact_sound o h]
theorem Term.exact_sound : ∀ t : Term, t.validateExact = .ok () → t.anyTuple badTuple = false
  | .vari _, _ => by simp [Term.anyTuple]
  | .param _, _ => by simp [Term.anyTuple]
  | .literal _, _ => by simp [Term.anyTuple]
  | .mtch m, h => by
    simp only [Term.validateExact] at h
    simp only [Term.anyTuple]
    exact Matcher.exact_sound m h
  | .prop p, h => by
    simp only [Term.validateExact] at h
    simp only [Term.anyTuple]
    exact PropMatcher.exact_sound p h
end

mutual
theorem WhereClause.exact_sound : ∀ w : WhereClause, w.validateExact = .ok () →
    w.anyBelief = false ∧ w.anyTuple badTuple = false
  | .belief _ _, h => by simp [WhereClause.validateExact] at h
  | .beliefSlot _ _ _, h => by simp [WhereClause.validateExact] at h
  | .concept _ m, h => by
    simp only [WhereClause.validateExact] at h
    simp [WhereClause.anyBelief, WhereClause.anyTuple, Matcher.exact_sound m h]
  | .assertion _ m, h => by
    simp only [WhereClause.validateExact] at h
    simp [WhereClause.anyBelief, WhereClause.anyTuple, Matcher.exact_sound m h]
  | .evidence _ m, h => by
    simp only [WhereClause.validateExact] at h
    simp [WhereClause.anyBelief, WhereClause.anyTuple, Matcher.exact_sound m h]
  | .activity _ m, h => by
    simp only [WhereClause.validateExact] at h
    simp [WhereClause.anyBelief, WhereClause.anyTuple, Matcher.exact_sound m h]
  | .proposition _ pm, h => by
    simp only [WhereClause.validateExact] at h
    simp [WhereClause.anyBelief, WhereClause.anyTuple, PropMatcher.exact_sound pm h]
  | .structural _ s o, h => by
    simp only [WhereClause.validateExact] at h
    split at h
    · cases h
    · rename_i u hs
      cases u
      simp [WhereClause.anyBelief, WhereClause.anyTuple, Term.exact_sound s hs, Term.exact_sound o h]
  | .filter, _ => by simp [WhereClause.anyBelief, WhereClause.anyTuple]
  | .not ws, h => by
    simp only [WhereClause.validateExact] at h
    simpa [WhereClause.anyBelief, WhereClause.anyTuple] using WhereList.exact_sound ws h
  | .optional ws, h => by
    simp only [WhereClause.validateExact] at h
    simpa [WhereClause.anyBelief, WhereClause.anyTuple] using WhereList.exact_sound ws h
  | .union ws, h => by
    simp only [WhereClause.validateExact] at h
    simpa [WhereClause.anyBelief, WhereClause.anyTuple] using WhereList.exact_sound ws h
theorem WhereList.exact_sound : ∀ ws : WhereList, ws.validateExact = .ok () →
    ws.anyBelief = false ∧ ws.anyTuple badTuple = false
  | .nil, _ => by simp [WhereList.anyBelief, WhereList.anyTuple]
  | .cons w t, h => by
    simp only [WhereList.validateExact] at h
    split at h
    · cases h
    · rename_i u hw
      cases u
      have h1 := WhereClause.exact_sound w hw
      have h2 := WhereList.exact_sound t h
      simp [WhereList.anyBelief, WhereList.anyTuple, h1.1, h1.2, h2.1, h2.2]
end

theorem clauseWhere_eq_selectionOf (c : MutationClause) : clauseWhere c = selectionOf c := by
  cases c <;> rfl

theorem validateClause_selection {c : MutationClause} (h : validateClause c = .ok ()) :
    ∀ ws, selectionOf c = some ws → ws.anyBelief = false ∧ ws.anyTuple badTuple = false := by
  intro ws hws
  have h1 := (validateClause_split h).1
  rw [clauseWhere_eq_selectionOf, hws] at h1
  exact WhereList.exact_sound ws h1

end AndaVerif.KmlGuard
