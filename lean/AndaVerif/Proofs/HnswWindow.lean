import AndaVerif.Proofs.HnswReach
/-
C12: mutations inside a flush's write window.  `ExactCover` — every node of the in-memory map is
either persisted EXACTLY (its blob is the blob of the current node) or marked dirty — survives any
interleaving of inserts/removes into the window and the commit rule of `commit_flush_snapshot`
(clear the snapshot's marks only if the global version did not move); one further quiescent flush
then makes every blob equal its in-memory node.
-/
namespace AndaVerif.Hnsw

def ExactCover (D : Durable) (s : Index) : Prop :=
  ∀ i n, getNode s.nodes i = some n → getBlob D.blobs i = some (blobOf i n) ∨ i ∈ s.dirty

structure WInv (D : Durable) (s : Index) : Prop where
  cover : ExactCover D s
  synced : flushPending s = false → idsOf D = s.ids
  saved : s.savedVersion ≤ s.version

/-! ### what one mutation does to nodes and dirty marks -/

theorem keys_eq_map_fst (m : NodeMap) : keys m = m.map (·.1) := rfl

theorem insertAbs_cover (s : Index) (id : Nat) (node : Node) (edits : List (Nat × Node)) (pick : Nat × Nat) (valid : Bool) :
    (insertAbs s id node edits pick valid).1 = s ∨
    ((insertAbs s id node edits pick valid).1.version = s.version + 1 ∧
     (insertAbs s id node edits pick valid).1.savedVersion = s.savedVersion ∧
     (∀ y, y ∈ s.dirty → y ∈ (insertAbs s id node edits pick valid).1.dirty) ∧
     id ∈ (insertAbs s id node edits pick valid).1.dirty ∧
     (∀ i, getNode (insertAbs s id node edits pick valid).1.nodes i =
        if id = i then some node else (getNode s.nodes i).map (applyEdit edits i)) ∧
     (∀ i n', getNode edits i = some n' → (getNode s.nodes i).isSome = true →
        i ∈ (insertAbs s id node edits pick valid).1.dirty)) := by
  unfold insertAbs
  split
  · left; rfl
  · split
    · left; rfl
    · right
      split
      · rename_i hemp
        have hnil : s.nodes = [] := by simpa using hemp
        refine ⟨rfl, rfl, ?_, ?_, ?_, ?_⟩
        · intro y hy; exact mem_setInsert.mpr (Or.inr hy)
        · exact mem_setInsert.mpr (Or.inl rfl)
        · intro i
          simp only [getNode, hnil]
          split <;> simp
        · intro i n' _ hsome
          rw [hnil] at hsome
          simp [getNode] at hsome
      · refine ⟨rfl, rfl, ?_, ?_, ?_, ?_⟩
        · intro y hy; exact mem_foldl_setInsert.mpr (Or.inr hy)
        · exact mem_foldl_setInsert.mpr (Or.inl (List.mem_cons_self ..))
        · intro i
          simp only [getNode]
          split
          · rfl
          · exact getNode_mapVals s.nodes (applyEdit edits) i
        · intro i n' hed hsome
          apply mem_foldl_setInsert.mpr
          left
          apply List.mem_cons_of_mem
          simp only [List.mem_filter]
          exact ⟨getNode_some_mem_keys hed, hsome⟩

theorem pruneLists_unchanged (id : Nat) (relink : Nat → List Nat → List Nat) (top : Nat) :
    ∀ (ls : List (List Nat)) (L : Nat), (pruneLists id relink top L ls).2 = false →
      (pruneLists id relink top L ls).1 = ls := by
  intro ls
  induction ls with
  | nil => intro L _; simp [pruneLists]
  | cons l r ih =>
    intro L h
    by_cases hL : L ≤ top
    · cases hp : posOf id l with
      | none =>
        simp only [pruneLists, hL, if_true, hp] at h ⊢
        rw [ih (L + 1) h]
      | some p =>
        simp [pruneLists, hL, hp] at h
    · simp only [pruneLists, hL, if_false] at h ⊢
      rw [ih (L + 1) h]

theorem remove_getNode (s : Index) (id : Nat) (pick : Nat × Nat) (relink : Nat → Nat → List Nat → List Nat)
    (node : Node) (hnode : getNode s.nodes id = some node) (i : Nat) :
    getNode (remove s id pick relink).1.nodes i =
      (getNode (eraseKey s.nodes id) i).map (pruneNodeFn id relink (neighborIds id node) i) := by
  unfold remove
  rw [hnode]
  simp only
  have hmap : (pruneAll id relink (neighborIds id node) (eraseKey s.nodes id)).map (fun t => (t.1, t.2.1)) =
      (eraseKey s.nodes id).map (fun p => (p.1, pruneNodeFn id relink (neighborIds id node) p.1 p.2)) := by
    simp only [pruneAll, List.map_map]
    apply List.map_congr_left
    intro p _
    simp only [Function.comp, pruneNodeFn]
    split <;> rfl
  rw [hmap, getNode_mapVals _ (pruneNodeFn id relink (neighborIds id node))]

theorem remove_dirty_rewritten (s : Index) (id : Nat) (pick : Nat × Nat) (relink : Nat → Nat → List Nat → List Nat)
    (node : Node) (hnode : getNode s.nodes id = some node) (i : Nat) (n0 : Node)
    (hi : getNode (eraseKey s.nodes id) i = some n0) (hc : (neighborIds id node).contains i = true)
    (hflag : (pruneLists id (relink i) n0.layer 0 n0.nbrs).2 = true) : i ∈ (remove s id pick relink).1.dirty := by
  unfold remove
  rw [hnode]
  simp only
  apply mem_foldl_setInsert.mpr
  left
  simp only [List.mem_map, List.mem_filter]
  refine ⟨(i, { n0 with nbrs := (pruneLists id (relink i) n0.layer 0 n0.nbrs).1 }, true), ⟨?_, rfl⟩, rfl⟩
  simp only [pruneAll, List.mem_map]
  refine ⟨(i, n0), getNode_some_mem hi, ?_⟩
  simp only [hc, if_true, hflag]

theorem remove_cover {D : Durable} {s : Index} (h : ExactCover D s) (id : Nat) (pick : Nat × Nat)
    (relink : Nat → Nat → List Nat → List Nat) : ExactCover D (remove s id pick relink).1 := by
  rcases remove_fields s id pick relink with ⟨_, heq⟩ | ⟨htrue, _, _, _, _, hdirty⟩
  · rw [heq]; exact h
  · cases hnode : getNode s.nodes id with
    | none =>
      -- cannot happen: `remove` returned true
      exfalso
      unfold remove at htrue
      rw [hnode] at htrue
      simp at htrue
    | some node =>
      intro i n hg
      rw [remove_getNode s id pick relink node hnode] at hg
      cases hgi : getNode (eraseKey s.nodes id) i with
      | none => simp [hgi] at hg
      | some n0 =>
        simp only [hgi, Option.map_some, Option.some.injEq] at hg
        have hne : i ≠ id := by
          intro e
          rw [getNode_eraseKey] at hgi
          simp [e] at hgi
        have hn0 : getNode s.nodes i = some n0 := by
          rw [getNode_eraseKey] at hgi
          simpa [hne] using hgi
        have hold : getBlob D.blobs i = some (blobOf i n0) ∨ i ∈ (remove s id pick relink).1.dirty := by
          rcases h i n0 hn0 with hb | hd
          · exact Or.inl hb
          · exact Or.inr (hdirty i hd hne)
        unfold pruneNodeFn at hg
        split at hg
        · rename_i hc
          cases hflag : (pruneLists id (relink i) n0.layer 0 n0.nbrs).2 with
          | true => exact Or.inr (remove_dirty_rewritten s id pick relink node hnode i n0 hgi hc hflag)
          | false =>
            have := pruneLists_unchanged id (relink i) n0.layer n0.nbrs 0 hflag
            rw [this] at hg
            subst hg
            exact hold
        · subst hg; exact hold

theorem insert_cover {D : Durable} {s : Index} (h : ExactCover D s) (id : Nat) (node : Node)
    (edits : List (Nat × Node)) (pick : Nat × Nat) (valid : Bool) :
    ExactCover D (insertAbs s id node edits pick valid).1 := by
  rcases insertAbs_cover s id node edits pick valid with heq | ⟨_, _, hdold, hdnew, hget, hded⟩
  · rw [heq]; exact h
  · intro i n hg
    rw [hget] at hg
    split at hg
    · rename_i hid
      subst hid
      exact Or.inr hdnew
    · cases hgi : getNode s.nodes i with
      | none => simp [hgi] at hg
      | some n0 =>
        simp only [hgi, Option.map_some, Option.some.injEq, applyEdit] at hg
        cases hed : getNode edits i with
        | none =>
          simp only [hed] at hg
          subst hg
          rcases h i n0 hgi with hb | hd
          · exact Or.inl hb
          · exact Or.inr (hdold i hd)
        | some n' => exact Or.inr (hded i n' hed (by simp [hgi]))

theorem applyMut_cover {D : Durable} {s : Index} (h : ExactCover D s) (m : Mut) : ExactCover D (applyMut s m) := by
  cases m with
  | ins id node edits pick valid => exact insert_cover h id node edits pick valid
  | rem id pick relink => exact remove_cover h id pick relink

/-- a mutation is a no-op or bumps the version; the saved version never moves -/
theorem applyMut_version (s : Index) (m : Mut) :
    applyMut s m = s ∨ ((applyMut s m).version = s.version + 1 ∧ (applyMut s m).savedVersion = s.savedVersion) := by
  cases m with
  | ins id node edits pick valid =>
    rcases insertAbs_cover s id node edits pick valid with heq | ⟨hv, hsv, _⟩
    · exact Or.inl heq
    · exact Or.inr ⟨hv, hsv⟩
  | rem id pick relink =>
    rcases remove_fields s id pick relink with ⟨_, heq⟩ | ⟨_, _, hv, hsv, _⟩
    · exact Or.inl heq
    · exact Or.inr ⟨hv, hsv⟩

/-! ### the window -/

/-- every node write still to come concerns an id that is dirty or has no node at the moment -/
def SnapOk (s : Index) (rem : List Write) : Prop :=
  (∀ i b, Write.node i b ∈ rem → i ∈ s.dirty ∨ getNode s.nodes i = none) ∧ (∀ i, Write.del i ∉ rem)

theorem snapOk_mut {s : Index} {rem : List Write} (h : SnapOk s rem) (m : Mut) : SnapOk (applyMut s m) rem := by
  refine ⟨?_, h.2⟩
  intro i b hw
  cases m with
  | ins id node edits pick valid =>
    simp only [applyMut]
    rcases insertAbs_cover s id node edits pick valid with heq | ⟨_, _, hdold, hdnew, hget, _⟩
    · rw [heq]; exact h.1 i b hw
    · rcases h.1 i b hw with hd | hnone
      · exact Or.inl (hdold i hd)
      · by_cases hid : id = i
        · subst hid; exact Or.inl hdnew
        · right
          rw [hget]
          simp [hid, hnone]
  | rem id pick relink =>
    simp only [applyMut]
    rcases remove_fields s id pick relink with ⟨_, heq⟩ | ⟨_, _, _, _, _, hdirty⟩
    · rw [heq]; exact h.1 i b hw
    · have hsome := remove_getNode_isSome s id pick relink i
      rcases h.1 i b hw with hd | hnone
      · by_cases hid : i = id
        · right
          cases hg : getNode (remove s id pick relink).1.nodes i with
          | none => rfl
          | some n => rw [hg] at hsome; simp [hid] at hsome
        · exact Or.inl (hdirty i hd hid)
      · right
        cases hg : getNode (remove s id pick relink).1.nodes i with
        | none => rfl
        | some n => rw [hg, hnone] at hsome; simp at hsome

theorem cover_write {D : Durable} {s : Index} {w : Write} {rem : List Write} (hc : ExactCover D s)
    (hs : SnapOk s (w :: rem)) : ExactCover (applyWrite D w) s ∧ SnapOk s rem := by
  refine ⟨?_, fun i b hw => hs.1 i b (List.mem_cons_of_mem _ hw), fun i hw => hs.2 i (List.mem_cons_of_mem _ hw)⟩
  intro i n hg
  cases w with
  | node j b =>
    by_cases hji : j = i
    · subst hji
      rcases hs.1 j b (List.mem_cons_self ..) with hd | hnone
      · exact Or.inr hd
      · rw [hnone] at hg; simp at hg
    · rcases hc i n hg with hb | hd
      · left
        simp only [applyWrite, getBlob_put, hji, if_false]
        exact hb
      · exact Or.inr hd
  | ids l => exact hc i n hg
  | metaPut m => exact hc i n hg
  | del j => exact absurd (List.mem_cons_self ..) (hs.2 j)

theorem cover_writes {s : Index} : ∀ (rem : List Write) {D : Durable}, ExactCover D s → SnapOk s rem →
    ExactCover (applyWrites D rem) s := by
  intro rem
  induction rem with
  | nil => intro D hc _; exact hc
  | cons w r ih =>
    intro D hc hs
    simp only [applyWrites, List.foldl_cons]
    obtain ⟨h1, h2⟩ := cover_write hc hs
    exact ih h1 h2

theorem runWindow_cover : ∀ (steps : List WStep) (D : Durable) (s : Index) (rem : List Write),
    ExactCover D s → SnapOk s rem →
    ExactCover (runWindow steps D s rem).1 (runWindow steps D s rem).2.1 ∧
    SnapOk (runWindow steps D s rem).2.1 (runWindow steps D s rem).2.2 := by
  intro steps
  induction steps with
  | nil => intro D s rem hc hs; exact ⟨hc, hs⟩
  | cons st r ih =>
    intro D s rem hc hs
    cases st with
    | write =>
      cases rem with
      | nil => exact ih D s [] hc hs
      | cons w rem' =>
        obtain ⟨h1, h2⟩ := cover_write hc hs
        exact ih (applyWrite D w) s rem' h1 h2
    | mutate m => exact ih D (applyMut s m) rem (applyMut_cover hc m) (snapOk_mut hs m)

/-- all writes of the snapshot end up durable, in order, whatever the interleaving -/
theorem runWindow_durable : ∀ (steps : List WStep) (D : Durable) (s : Index) (rem : List Write),
    applyWrites (runWindow steps D s rem).1 (runWindow steps D s rem).2.2 = applyWrites D rem := by
  intro steps
  induction steps with
  | nil => intro D s rem; rfl
  | cons st r ih =>
    intro D s rem
    cases st with
    | write =>
      cases rem with
      | nil => exact ih D s []
      | cons w rem' =>
        simp only [runWindow]
        rw [ih (applyWrite D w) s rem']
        simp [applyWrites]
    | mutate m => exact ih D (applyMut s m) rem

/-- the index after the window: untouched, or its version moved past the snapshot's -/
theorem runWindow_version : ∀ (steps : List WStep) (D : Durable) (s : Index) (rem : List Write),
    (runWindow steps D s rem).2.1 = s ∨
    (s.version < (runWindow steps D s rem).2.1.version ∧ (runWindow steps D s rem).2.1.savedVersion = s.savedVersion) := by
  intro steps
  induction steps with
  | nil => intro D s rem; left; rfl
  | cons st r ih =>
    intro D s rem
    cases st with
    | write =>
      cases rem with
      | nil => exact ih D s []
      | cons w rem' => exact ih (applyWrite D w) s rem'
    | mutate m =>
      simp only [runWindow]
      rcases applyMut_version s m with heq | ⟨hv, hsv⟩
      · rw [heq]; exact ih D s rem
      · rcases ih D (applyMut s m) rem with h | ⟨h1, h2⟩
        · right; rw [h]; exact ⟨by omega, hsv⟩
        · right; exact ⟨by omega, by rw [h2, hsv]⟩

/-! ### writes that are consistent with the in-memory map make blobs exact -/

def WriteFor (s : Index) : Write → Prop
  | .node i b => ∃ n, getNode s.nodes i = some n ∧ b = blobOf i n
  | .del i => getNode s.nodes i = none
  | _ => True

theorem applyWrites_exact {s : Index} : ∀ (ws : List Write) (D : Durable), (∀ w ∈ ws, WriteFor s w) →
    ∀ i n, getNode s.nodes i = some n →
      (getBlob D.blobs i = some (blobOf i n) ∨ Write.node i (blobOf i n) ∈ ws) →
      getBlob (applyWrites D ws).blobs i = some (blobOf i n) := by
  intro ws
  induction ws with
  | nil =>
    intro D _ i n _ h
    rcases h with h | h
    · exact h
    · simp at h
  | cons w r ih =>
    intro D hw i n hg h
    simp only [applyWrites, List.foldl_cons]
    apply ih (applyWrite D w) (fun w' hw' => hw w' (List.mem_cons_of_mem _ hw')) i n hg
    have hwf := hw w (List.mem_cons_self ..)
    cases w with
    | node j b =>
      by_cases hji : j = i
      · left
        subst hji
        obtain ⟨n', hn', hb⟩ := hwf
        rw [hg] at hn'
        simp only [Option.some.injEq] at hn'
        subst hn'
        simp [applyWrite, getBlob_put, hb]
      · rcases h with h | h
        · left
          simp only [applyWrite, getBlob_put, hji, if_false]
          exact h
        · right
          rcases List.mem_cons.mp h with h | h
          · simp only [Write.node.injEq] at h
            exact absurd h.1.symm hji
          · exact h
    | ids l =>
      rcases h with h | h
      · exact Or.inl h
      · right
        rcases List.mem_cons.mp h with h | h
        · simp at h
        · exact h
    | metaPut m =>
      rcases h with h | h
      · exact Or.inl h
      · right
        rcases List.mem_cons.mp h with h | h
        · simp at h
        · exact h
    | del j =>
      have hji : j ≠ i := by
        intro e
        subst e
        simp only [WriteFor] at hwf
        rw [hwf] at hg
        simp at hg
      rcases h with h | h
      · left
        simp only [applyWrite, getBlob_filter, hji, if_false]
        exact h
      · right
        rcases List.mem_cons.mp h with h | h
        · simp at h
        · exact h

theorem wrapperWrites_for (s : Index) : ∀ w ∈ wrapperWrites s, WriteFor s w := by
  intro w hw
  simp only [wrapperWrites, List.mem_append, flushWrites_eq] at hw
  rcases hw with hw | hw
  · split at hw
    · simp only [List.mem_append, List.mem_cons, List.not_mem_nil, or_false] at hw
      rcases hw with hw | hw | hw
      · obtain ⟨i, n, _, hg, rfl⟩ := mem_nodeWrites hw
        exact ⟨n, hg, rfl⟩
      · subst hw; trivial
      · subst hw; trivial
    · simp at hw
  · simp only [purgeWrites, List.mem_map, List.mem_filter] at hw
    obtain ⟨i, ⟨_, hnone⟩, rfl⟩ := hw
    rw [purgeDeletes_eq] at hnone
    simp only [WriteFor]
    cases hg : getNode s.nodes i <;> simp_all

theorem flushWrites_for (s : Index) : ∀ w ∈ flushWrites s, WriteFor s w :=
  fun w hw => wrapperWrites_for s w (by simp only [wrapperWrites, List.mem_append]; exact Or.inl hw)

theorem mem_nodeWrites_of_dirty {s : Index} {i : Nat} {n : Node} (hd : i ∈ s.dirty) (hg : getNode s.nodes i = some n) :
    Write.node i (blobOf i n) ∈ nodeWrites s := by
  simp only [nodeWrites, List.mem_filterMap]
  exact ⟨i, hd, by simp [hg]⟩

/-- a complete, quiescent flush makes every blob exact -/
theorem quiescent_exact {D : Durable} {s : Index} (h : ExactCover D s) :
    ∀ i n, getNode (afterFlush s).nodes i = some n →
      getBlob (applyWrites D (wrapperWrites s)).blobs i = some (blobOf i n) := by
  intro i n hg
  have hn : (afterFlush s).nodes = s.nodes := by
    unfold afterFlush; split <;> rfl
  rw [hn] at hg
  apply applyWrites_exact (wrapperWrites s) D (wrapperWrites_for s) i n hg
  rcases h i n hg with hb | hd
  · exact Or.inl hb
  · by_cases hp : flushPending s = true
    · right
      simp only [wrapperWrites, flushWrites_eq, hp, if_true, List.mem_append]
      exact Or.inl (Or.inl (mem_nodeWrites_of_dirty hd hg))
    · have hpf : flushPending s = false := by simpa using hp
      have hdirty : s.dirty = [] := by
        simp only [flushPending, Bool.not_eq_false', Bool.and_eq_true, decide_eq_true_eq, List.isEmpty_iff] at hpf
        exact hpf.2
      rw [hdirty] at hd
      simp at hd

/-! ### ids object -/

def NoIdsWrite : Write → Prop
  | .ids _ => False
  | _ => True

theorem applyWrites_noIds : ∀ (ws : List Write) (D : Durable), (∀ w ∈ ws, NoIdsWrite w) →
    idsOf (applyWrites D ws) = idsOf D := by
  intro ws
  induction ws with
  | nil => intro D _; rfl
  | cons w r ih =>
    intro D hw
    simp only [applyWrites, List.foldl_cons]
    have := ih (applyWrite D w) (fun w' hw' => hw w' (List.mem_cons_of_mem _ hw'))
    simp only [applyWrites] at this
    rw [this]
    have h0 := hw w (List.mem_cons_self ..)
    cases w with
    | node j b => rfl
    | ids l => exact absurd h0 (by simp [NoIdsWrite])
    | metaPut m => rfl
    | del j => rfl

theorem nodeWrites_noIds (s : Index) : ∀ w ∈ nodeWrites s, NoIdsWrite w := by
  intro w hw
  obtain ⟨i, n, _, _, rfl⟩ := mem_nodeWrites hw
  trivial

theorem purgeWrites_noIds (s : Index) : ∀ w ∈ purgeWrites s, NoIdsWrite w := by
  intro w hw
  simp only [purgeWrites, List.mem_map] at hw
  obtain ⟨i, _, rfl⟩ := hw
  trivial

theorem flushWrites_ids (D : Durable) (s : Index) (hp : flushPending s = true) :
    idsOf (applyWrites D (flushWrites s)) = s.ids := by
  rw [flushWrites_eq, if_pos hp, applyWrites_append]
  have : applyWrites (applyWrites D (nodeWrites s)) [Write.ids s.ids, Write.metaPut (metaOf s)] =
      applyWrite (applyWrite (applyWrites D (nodeWrites s)) (Write.ids s.ids)) (Write.metaPut (metaOf s)) := by
    simp [applyWrites]
  rw [this]
  rfl

theorem wrapperWrites_ids (D : Durable) (s : Index) (hsync : flushPending s = false → idsOf D = s.ids) :
    idsOf (applyWrites D (wrapperWrites s)) = s.ids := by
  unfold wrapperWrites
  rw [applyWrites_append, applyWrites_noIds _ _ (purgeWrites_noIds s)]
  by_cases hp : flushPending s = true
  · exact flushWrites_ids D s hp
  · have hpf : flushPending s = false := by simpa using hp
    rw [flushWrites_eq]
    simp only [hpf, Bool.false_eq_true, if_false, applyWrites, List.foldl_nil]
    exact hsync hpf

/-! ### the windowed flush keeps the invariant -/

theorem commitClears_eq (s : Index) (sn : Snapshot) : commitClears s sn = decide (s.version = sn.version) := by
  simp [commitClears, Gen.HnswOrder.gen_commit_rule.2]


theorem snapOk_capture (s : Index) : SnapOk s (flushWrites s) := by
  constructor
  · intro i b hw
    rw [flushWrites_eq] at hw
    split at hw
    · simp only [List.mem_append, List.mem_cons, List.not_mem_nil, or_false] at hw
      rcases hw with hw | hw | hw
      · obtain ⟨j, n, hd, _, heq⟩ := mem_nodeWrites hw
        simp only [Write.node.injEq] at heq
        rw [heq.1]
        exact Or.inl hd
      · simp at hw
      · simp at hw
    · simp at hw
  · intro i hw
    have := flushWrites_for s _ hw
    rw [flushWrites_eq] at hw
    split at hw
    · simp only [List.mem_append, List.mem_cons, List.not_mem_nil, or_false] at hw
      rcases hw with hw | hw | hw
      · obtain ⟨j, n, _, _, heq⟩ := mem_nodeWrites hw
        simp at heq
      · simp at hw
      · simp at hw
    · simp at hw

theorem winv_window {D : Durable} {s : Index} (h : WInv D s) (steps : List WStep) :
    WInv (windowFlush D s steps).1 (windowFlush D s steps).2 := by
  unfold windowFlush capture
  by_cases hp : flushPending s = true
  · simp only [hp, if_true]
    have hso := snapOk_capture s
    obtain ⟨hc1, hs1⟩ := runWindow_cover steps D s (flushWrites s) h.cover hso
    have hcall := cover_writes _ hc1 hs1
    have hdur := runWindow_durable steps D s (flushWrites s)
    rcases runWindow_version steps D s (flushWrites s) with heq | ⟨hlt, hsv⟩
    · -- no effective mutation crossed the window: the snapshot's marks are cleared, everything was written
      refine ⟨?_, ?_, ?_⟩
      · intro i n hg
        left
        simp only [commit] at hg
        rw [heq] at hg
        rw [hdur]
        apply applyWrites_exact (flushWrites s) D (flushWrites_for s) i n hg
        rcases h.cover i n hg with hb | hd
        · exact Or.inl hb
        · right
          rw [flushWrites_eq, if_pos hp]
          exact List.mem_append.mpr (Or.inl (mem_nodeWrites_of_dirty hd hg))
      · intro _
        rw [hdur]
        simp only [commit]
        rw [heq]
        exact flushWrites_ids D s hp
      · simp only [commit]
        rw [heq]
        have := h.saved
        omega
    · -- a mutation crossed the window: no mark is cleared
      have hne : (runWindow steps D s (flushWrites s)).2.1.version ≠ s.version := by omega
      refine ⟨?_, ?_, ?_⟩
      · intro i n hg
        simp only [commit] at hg
        rcases hcall i n hg with hb | hd
        · exact Or.inl hb
        · right
          have hcl : commitClears (runWindow steps D s (flushWrites s)).2.1
              { version := s.version, dirtyIds := s.dirty, writes := flushWrites s } = false := by
            rw [commitClears_eq]
            simpa using hne
          simp only [commit, hcl, Bool.false_eq_true, if_false]
          exact hd
      · intro hpf
        exfalso
        have : flushPending (commit (runWindow steps D s (flushWrites s)).2.1
            { version := s.version, dirtyIds := s.dirty, writes := flushWrites s }) = true := by
          apply pending_of_version_gt
          simp only [commit]
          rw [hsv]
          have := h.saved
          omega
        rw [this] at hpf
        simp at hpf
      · simp only [commit]
        rw [hsv]
        have := h.saved
        omega
  · -- nothing pending: no callback runs; the mutations of the list still happen
    have hpf : flushPending s = false := by simpa using hp
    simp only [hpf, Bool.false_eq_true, if_false]
    have hso : SnapOk s [] := ⟨by intro i b hw; simp at hw, by intro i hw; simp at hw⟩
    obtain ⟨hc1, _⟩ := runWindow_cover steps D s [] h.cover hso
    have hD : ∀ (st : List WStep) (D : Durable) (s : Index), (runWindow st D s []).1 = D := by
      intro st
      induction st with
      | nil => intro D s; rfl
      | cons x r ih =>
        intro D s
        cases x with
        | write => exact ih D s
        | mutate m => exact ih D (applyMut s m)
    rw [hD] at hc1
    rcases runWindow_version steps D s [] with heq | ⟨hlt, hsv⟩
    · rw [heq]; exact h
    · refine ⟨hc1, ?_, by rw [hsv]; have := h.saved; omega⟩
      intro hpf'
      exfalso
      have : flushPending (runWindow steps D s []).2.1 = true := by
        apply pending_of_version_gt
        rw [hsv]
        have := h.saved
        omega
      rw [this] at hpf'
      simp at hpf'

/-! ### every successful load establishes the invariant -/

theorem prune_noop {miss : List Nat} {n : Node} (h : hasEdgeTo miss n = false) :
    n.nbrs.map (fun l => l.filter (fun x => !miss.contains x)) = n.nbrs := by
  unfold hasEdgeTo at h
  rw [List.any_eq_false] at h
  have : ∀ l ∈ n.nbrs, l.filter (fun x => !miss.contains x) = l := by
    intro l hl
    have hl' := h l hl
    rw [Bool.not_eq_true, List.any_eq_false] at hl'
    rw [List.filter_eq_self]
    intro x hx
    have := hl' x hx
    simpa using this
  calc n.nbrs.map (fun l => l.filter (fun x => !miss.contains x)) = n.nbrs.map id :=
        List.map_congr_left (fun l hl => this l hl)
    _ = n.nbrs := by simp

theorem blobOf_of_valid {ml i : Nat} {b : Blob} (hv : validBlob ml i b = true) :
    blobOf i { layer := b.layer, nbrs := b.nbrs } = b := by
  simp only [validBlob, Bool.and_eq_true, beq_iff_eq, decide_eq_true_eq] at hv
  obtain ⟨⟨⟨⟨h1, h2⟩, _⟩, _⟩, h5⟩ := hv
  cases b
  simp only [blobOf] at *
  simp [h1, h2, h5]

theorem load_winv {D : Durable} {pick : Nat × Nat} {s : Index} (h : load D pick = .ok s) : WInv D s := by
  obtain ⟨m, _, _, _, hsv⟩ := load_fields h
  unfold load at h
  split at h
  · rename_i m ids hm hi
    have hidsOf : idsOf D = ids := by simp [idsOf, hi]
    dsimp only at h
    split at h
    · simp only [Except.ok.injEq] at h
      subst h
      refine ⟨?_, fun _ => hidsOf, Nat.le_refl _⟩
      intro i n hg
      simp [getNode] at hg
    · split at h
      · simp at h
      · rename_i ns miss hl
        obtain ⟨_, _, hc⟩ := loadNodes_spec ids hl
        have hexact : ∀ i n0, getNode ns i = some n0 → getBlob D.blobs i = some (blobOf i n0) := by
          intro i n0 hg
          obtain ⟨b, hb, hv, hp⟩ := hc (i, n0) (getNode_some_mem hg)
          simp only at hp hb hv
          rw [hb, hp, blobOf_of_valid hv]
        split at h
        · simp only [Except.ok.injEq] at h
          subst h
          refine ⟨?_, ?_, by simp only; omega⟩
          · intro i n hg
            simp only at hg
            rw [pruneMissing_getNode] at hg
            cases hgi : getNode ns i with
            | none => simp [hgi] at hg
            | some n0 =>
              simp only [hgi, Option.map_some, Option.some.injEq] at hg
              cases he : hasEdgeTo miss n0 with
              | true =>
                right
                simp only [List.mem_map, List.mem_filter]
                exact ⟨(i, n0), ⟨getNode_some_mem hgi, he⟩, rfl⟩
              | false =>
                left
                rw [prune_noop he] at hg
                subst hg
                exact hexact i n0 hgi
          · intro hpf
            exfalso
            rw [pending_of_version_gt] at hpf
            · simp at hpf
            · simp only; omega
        · split at h
          · simp only [Except.ok.injEq] at h
            subst h
            exact ⟨fun i n hg => Or.inl (hexact i n hg), fun _ => hidsOf, by simp only; omega⟩
          · simp only [Except.ok.injEq] at h
            subst h
            exact ⟨fun i n hg => Or.inl (hexact i n hg), fun _ => hidsOf, Nat.le_refl _⟩
  · simp at h

/-! ### histories with windows -/

theorem winv_create (mls : Nat) : WInv (createD mls) (createS mls) := by
  refine ⟨?_, fun _ => rfl, Nat.le_refl _⟩
  intro i n hg
  simp [createS, getNode] at hg

theorem winv_mut {D : Durable} {s : Index} (h : WInv D s) (m : Mut) : WInv D (applyMut s m) := by
  rcases applyMut_version s m with heq | ⟨hv, hsv⟩
  · rw [heq]; exact h
  · refine ⟨applyMut_cover h.cover m, ?_, by rw [hv, hsv]; have := h.saved; omega⟩
    intro hpf
    exfalso
    have : flushPending (applyMut s m) = true := by
      apply pending_of_version_gt
      rw [hv, hsv]
      have := h.saved
      omega
    rw [this] at hpf
    simp at hpf

theorem winv_flush {D : Durable} {s : Index} (h : WInv D s) :
    WInv (applyWrites D (wrapperWrites s)) (afterFlush s) := by
  have hex := quiescent_exact h.cover
  have hids := wrapperWrites_ids D s h.synced
  have hi : (afterFlush s).ids = s.ids := by unfold afterFlush; split <;> rfl
  refine ⟨fun i n hg => Or.inl (hex i n hg), fun _ => by rw [hi]; exact hids, ?_⟩
  unfold afterFlush
  have := h.saved
  split
  · simp only; omega
  · simp only; omega

/-- histories in which flushes may have mutations inside their write window; `load` may start from
ANY durable state it accepts (so every crash cut of every flush, windowed or not, is included) -/
inductive ReachW : Durable → Index → Prop where
  | create (mls : Nat) : ReachW (createD mls) (createS mls)
  | mutate {D : Durable} {s : Index} (m : Mut) : ReachW D s → ReachW D (applyMut s m)
  | flush {D : Durable} {s : Index} : ReachW D s → ReachW (applyWrites D (wrapperWrites s)) (afterFlush s)
  | window {D : Durable} {s : Index} (steps : List WStep) : ReachW D s →
      ReachW (windowFlush D s steps).1 (windowFlush D s steps).2
  | load (D' : Durable) (pick : Nat × Nat) (s' : Index) : load D' pick = .ok s' → ReachW D' s'

theorem reachW_winv {D : Durable} {s : Index} (h : ReachW D s) : WInv D s := by
  induction h with
  | create mls => exact winv_create mls
  | mutate m _ ih => exact winv_mut ih m
  | flush _ ih => exact winv_flush ih
  | window steps _ ih => exact winv_window ih steps
  | load D' pick s' hl => exact load_winv hl

/-! ### purge after a torn flush never deletes a live blob -/

theorem applyWrites_dels_other (i : Nat) : ∀ (ws : List Write) (D : Durable),
    (∀ w ∈ ws, ∃ j, w = Write.del j ∧ j ≠ i) → getBlob (applyWrites D ws).blobs i = getBlob D.blobs i := by
  intro ws
  induction ws with
  | nil => intro D _; rfl
  | cons w r ih =>
    intro D hw
    simp only [applyWrites, List.foldl_cons]
    have := ih (applyWrite D w) (fun w' hw' => hw w' (List.mem_cons_of_mem _ hw'))
    simp only [applyWrites] at this
    rw [this]
    obtain ⟨j, rfl, hj⟩ := hw w (List.mem_cons_self ..)
    simp only [applyWrite, getBlob_filter, hj, if_false]

theorem purge_keeps_live_blob (D : Durable) (s : Index) (i : Nat) (n : Node) (hg : getNode s.nodes i = some n) :
    getBlob (applyWrites D (purgeWrites s)).blobs i = getBlob D.blobs i := by
  apply applyWrites_dels_other
  intro w hw
  simp only [purgeWrites, List.mem_map, List.mem_filter] at hw
  obtain ⟨j, ⟨_, hd⟩, rfl⟩ := hw
  rw [purgeDeletes_eq] at hd
  refine ⟨j, rfl, ?_⟩
  intro e
  subst e
  rw [hg] at hd
  simp at hd

theorem purge_skips_live_tombstone (s : Index) (i : Nat) (hl : (getNode s.nodes i).isSome = true) :
    Write.del i ∉ purgeWrites s := by
  intro hw
  simp only [purgeWrites, List.mem_map, List.mem_filter] at hw
  obtain ⟨j, ⟨_, hd⟩, hj⟩ := hw
  simp only [Write.del.injEq] at hj
  subst hj
  rw [purgeDeletes_eq] at hd
  cases hg : getNode s.nodes j <;> simp_all

end AndaVerif.Hnsw
