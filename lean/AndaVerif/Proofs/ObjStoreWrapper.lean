import AndaVerif.Proofs.ObjStoreCommit
/-
Wrapper-level invariant and the characterisation of every call's step list.
-/
namespace AndaVerif.ObjStore
open Gen.SidecarOrder

/-- Invariant of a wrapper instance: the backend invariant plus a metadata cache that only holds
documents that are the committed ones (coherence; the per-key critical section of the code). -/
structure WInv (w : W) : Prop where
  be : BInv w.be w.nextId
  cache : ∀ k d, aget w.cache k = some d → docAt w.be k = some d

theorem WInv.init (fl : Wrapper) : WInv { W.init with flavor := fl } :=
  ⟨BInv.init, by simp [W.init]⟩

theorem WInv.reopen {w : W} (h : WInv w) : WInv w.reopen :=
  ⟨h.be, by simp [W.reopen]⟩

/-- a fresh instance over any backend that satisfies the backend invariant (restart after a crash) -/
theorem WInv.cold {be : Backend} {n : Nat} (fl : Wrapper) (h : BInv be n) :
    WInv { flavor := fl, be := be, cache := [], inflight := [], nextId := n } :=
  ⟨h, by simp⟩

theorem curOf_of_inv {be : Backend} {n : Nat} (h : BInv be n) (k : Path) :
    curOf be k = match docAt be k with | some d => .present d | none => .absent := by
  unfold curOf docAt
  cases hk : aget be (.mt k) with
  | none => rfl
  | some e =>
      obtain ⟨d, hd⟩ := h.decodes k e hk
      obtain ⟨o, t⟩ := e
      simp only at hd
      subst hd
      rfl

theorem loadMeta_of_inv {be : Backend} {n : Nat} (h : BInv be n) (k : Path) :
    loadMeta be k = match docAt be k with | some d => .ok d | none => .error .notFound := by
  unfold loadMeta docAt
  cases hk : aget be (.mt k) with
  | none => rfl
  | some e =>
      obtain ⟨d, hd⟩ := h.decodes k e hk
      obtain ⟨o, t⟩ := e
      simp only at hd
      subst hd
      rfl

/-- `get_meta` answers the committed document (cache hit or miss alike) and keeps the invariant. -/
theorem getMeta_spec {w : W} (h : WInv w) (k : Path) :
    ∃ w', getMeta w k = ((match docAt w.be k with | some d => .ok d | none => .error .notFound), w') ∧
      WInv w' ∧ w'.be = w.be ∧ w'.nextId = w.nextId ∧ w'.flavor = w.flavor := by
  unfold getMeta
  cases hc : aget w.cache k with
  | some d =>
      refine ⟨w, ?_, h, rfl, rfl, rfl⟩
      simp [h.cache k d hc]
  | none =>
      simp only []
      rw [loadMeta_of_inv h.be]
      cases hd : docAt w.be k with
      | none => exact ⟨w, rfl, h, rfl, rfl, rfl⟩
      | some d =>
          refine ⟨{ w with cache := aset w.cache k d }, rfl, ⟨h.be, ?_⟩, rfl, rfl, rfl⟩
          intro k' d' hk'
          simp only at hk'
          rw [aget_aset] at hk'
          split at hk'
          · rename_i heq
            simp only [Option.some.injEq] at hk'
            subst heq; subst hk'; exact hd
          · exact h.cache k' d' hk'

/-- `copy_payload`'s source resolution: under the invariant the pointer is never stale. -/
theorem resolveSource_spec {w : W} (h : WInv w) (k : Path) :
    ∃ w', resolveSource w k =
        ((match docAt w.be k with | some d => .ok (d, payloadPath k d.gen) | none => .error .notFound), w') ∧
      WInv w' ∧ w'.be = w.be ∧ w'.nextId = w.nextId ∧ w'.flavor = w.flavor := by
  obtain ⟨w', hg, hw', hbe, hn, hf⟩ := getMeta_spec h k
  unfold resolveSource
  rw [hg]
  cases hd : docAt w.be k with
  | none => exact ⟨w', rfl, hw', hbe, hn, hf⟩
  | some d =>
      simp only []
      obtain ⟨b, bt, hb, _⟩ := h.be.ptr k d hd
      rw [hbe, hb]
      exact ⟨w', by simp, hw', hbe, hn, hf⟩

theorem rename_guard (fl : Wrapper) (src dst : Path) :
    ((selfRenameGuard fl && decide (src = dst)) = true) = (src = dst) := by
  simp [gen_self_rename_guard]

theorem rename_guard_self (fl : Wrapper) : ((selfRenameGuard fl && decide True) = true) = True := by
  simp [gen_self_rename_guard]

theorem rename_order_std (fl : Wrapper) : (renameOrder fl = [RenamePhase.copy, RenamePhase.deleteSource]) = True := by
  simp [gen_rename_order]

theorem applyPrefix_nil (now : Nat) (be : Backend) (n : Nat) : applyPrefix now be [] n = be := by
  simp [applyPrefix, applySteps]

theorem applySteps_eq_prefix (now : Nat) (be : Backend) (steps : List Step) :
    applySteps now be steps = applyPrefix now be steps steps.length := by
  simp [applyPrefix]

theorem applyPrefix_of_le (now : Nat) (be : Backend) (steps : List Step) (n : Nat) (h : steps.length ≤ n) :
    applyPrefix now be steps n = applySteps now be steps := by
  simp [applyPrefix, List.take_of_length_le h]

theorem applySteps_append (now : Nat) (be : Backend) (a b : List Step) :
    applySteps now be (a ++ b) = applySteps now (applySteps now be a) b := by
  simp [applySteps, List.foldl_append]

theorem applyPrefix_append (now : Nat) (be : Backend) (a b : List Step) (n : Nat) :
    applyPrefix now be (a ++ b) n =
      if n ≤ a.length then applyPrefix now be a n else applyPrefix now (applySteps now be a) b (n - a.length) := by
  unfold applyPrefix
  rw [List.take_append]
  by_cases h : n ≤ a.length
  · simp [h, Nat.sub_eq_zero_of_le h, applySteps]
  · simp only [h, if_false]
    rw [applySteps_append, List.take_of_length_le (by omega)]

/-- The shape of the plan of a write (put / multipart): refused without touching the backend, or the
three-phase commit in the generated order. -/
theorem planWrite_steps (w : W) (order : List CommitPhase) (seeded : Bool) (now : Nat) (k : Path) (mode : PutMode) (data : Bytes) :
    ((planWrite w order seeded now k mode data).steps = [] ∧ (planWrite w order seeded now k mode data).cache = w.cache ∧
      ∃ e, (planWrite w order seeded now k mode data).out = .err e) ∨
    ∃ d : Doc, d.gen = some ⟨now, w.nextId⟩ ∧ d.size = data.length ∧
      d.etag = some (mkPutTok seeded ⟨now, w.nextId⟩ data) ∧ d.time = some now ∧
      (planWrite w order seeded now k mode data).steps =
        commitSteps order [.putBlob (.gen k ⟨now, w.nextId⟩) data] (.putDoc k d)
          (reclaimOf ((curOf w.be k).doc?.map (fun c => payloadPath k c.gen)) k d) ∧
      (planWrite w order seeded now k mode data).out = .put d.etag ∧
      (planWrite w order seeded now k mode data).cache = aset w.cache k d := by
  unfold planWrite
  simp only []
  split
  · exact Or.inl ⟨rfl, rfl, _, rfl⟩
  · split
    · exact Or.inl ⟨rfl, rfl, _, rfl⟩
    · exact Or.inr ⟨_, rfl, rfl, rfl, rfl, rfl, rfl, rfl⟩

end AndaVerif.ObjStore
