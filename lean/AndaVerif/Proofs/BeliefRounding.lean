import AndaVerif.Proofs.BeliefClassify
import Mathlib.Algebra.Order.Field.Rat
import Mathlib.Algebra.Order.AbsoluteValue.Basic
import Mathlib.Tactic.Linarith
import Mathlib.Tactic.FieldSimp
/-
Floating point versus exact arithmetic. The code classifies with six comparisons of two scores with
two thresholds. Read over ℚ, the classification of the exact scores equals the classification of
any perturbed scores (and perturbed thresholds) as long as every exact score is at least the total
perturbation away from every threshold it is compared with.
-/
namespace AndaVerif.Belief

/-- `classify` over the rationals: `support ≥ accept ∧ opposition < material` → accepted,
`opposition ≥ accept ∧ support < material` → rejected, `support ≥ material ∧ opposition ≥ material`
→ contested, in that order, after the engagement test. -/
def classifyQ (sup opp acc mat : ℚ) (engaged : Bool) : Verdict :=
  if !engaged then .insufficient
  else if acc ≤ sup ∧ opp < mat then .accepted
  else if acc ≤ opp ∧ sup < mat then .rejected
  else if mat ≤ sup ∧ mat ≤ opp then .contested
  else .uncertain

/-- The value of an exact score. -/
def Frac.toRat (s : Frac) : ℚ := (s.num : ℚ) / (s.den : ℚ)

theorem Frac.ge_iff_toRat (s : Frac) (t : Int) (den : Nat) (hs : 0 < s.den) (hd : 0 < den) :
    s.ge t den = true ↔ (t : ℚ) / (den : ℚ) ≤ s.toRat := by
  rw [Frac.ge_iff, Frac.toRat]
  have h1 : (0 : ℚ) < (s.den : ℚ) := by exact_mod_cast hs
  have h2 : (0 : ℚ) < (den : ℚ) := by exact_mod_cast hd
  rw [div_le_div_iff₀ h2 h1]
  exact_mod_cast Iff.rfl

/-- The model's integer classification is the rational one. -/
theorem classify_eq_classifyQ {sup opp : Frac} (sg og : Nat) (u : List Nat) {pol : Policy}
    (hs : 0 < sup.den) (ho : 0 < opp.den) (hd : 0 < pol.den) :
    classify sup opp sg og u pol =
      classifyQ sup.toRat opp.toRat ((pol.accept : ℚ) / (pol.den : ℚ)) ((pol.material : ℚ) / (pol.den : ℚ))
        (decide (sg > 0) || decide (og > 0) || !u.isEmpty) := by
  have e1 : sup.ge pol.accept pol.den = decide ((pol.accept : ℚ) / (pol.den : ℚ) ≤ sup.toRat) := by
    rw [Bool.eq_iff_iff, decide_eq_true_eq]; exact Frac.ge_iff_toRat sup pol.accept pol.den hs hd
  have e2 : opp.ge pol.material pol.den = decide ((pol.material : ℚ) / (pol.den : ℚ) ≤ opp.toRat) := by
    rw [Bool.eq_iff_iff, decide_eq_true_eq]; exact Frac.ge_iff_toRat opp pol.material pol.den ho hd
  have e3 : opp.ge pol.accept pol.den = decide ((pol.accept : ℚ) / (pol.den : ℚ) ≤ opp.toRat) := by
    rw [Bool.eq_iff_iff, decide_eq_true_eq]; exact Frac.ge_iff_toRat opp pol.accept pol.den ho hd
  have e4 : sup.ge pol.material pol.den = decide ((pol.material : ℚ) / (pol.den : ℚ) ≤ sup.toRat) := by
    rw [Bool.eq_iff_iff, decide_eq_true_eq]; exact Frac.ge_iff_toRat sup pol.material pol.den hs hd
  unfold classify classifyQ
  simp only [Frac.lt, e1, e2, e3, e4, ← not_le]
  by_cases h1 : (pol.accept : ℚ) / (pol.den : ℚ) ≤ sup.toRat <;>
    by_cases h2 : (pol.material : ℚ) / (pol.den : ℚ) ≤ opp.toRat <;>
    by_cases h3 : (pol.accept : ℚ) / (pol.den : ℚ) ≤ opp.toRat <;>
    by_cases h4 : (pol.material : ℚ) / (pol.den : ℚ) ≤ sup.toRat <;>
    simp [h1, h2, h3, h4]

/-- One comparison is stable when the exact operands are further apart than the two errors. -/
theorem le_stable {x x' t t' e₁ e₂ : ℚ} (hx : |x' - x| < e₁) (ht : |t' - t| < e₂) (hband : e₁ + e₂ ≤ |x - t|) :
    (t' ≤ x' ↔ t ≤ x) := by
  rw [abs_lt] at hx ht
  rcases le_or_gt 0 (x - t) with h | h
  · rw [abs_of_nonneg h] at hband
    constructor <;> intro _ <;> linarith
  · rw [abs_of_neg h] at hband
    constructor <;> intro _ <;> linarith

/-- **The status is stable under rounding outside the threshold band.** If every perturbed quantity
(the two scores, the two thresholds) is within `δ` of its exact value and each exact score is at
least `2δ` away from each threshold, the perturbed classification is the exact one. -/
theorem classifyQ_stable {s o s' o' acc mat acc' mat' δ : ℚ}
    (hs : |s' - s| < δ) (ho : |o' - o| < δ) (ha : |acc' - acc| < δ) (hm : |mat' - mat| < δ)
    (b1 : δ + δ ≤ |s - acc|) (b2 : δ + δ ≤ |s - mat|) (b3 : δ + δ ≤ |o - acc|) (b4 : δ + δ ≤ |o - mat|)
    (engaged : Bool) :
    classifyQ s' o' acc' mat' engaged = classifyQ s o acc mat engaged := by
  unfold classifyQ
  simp only [← not_le]
  simp only [le_stable hs ha b1, le_stable ho hm b4, le_stable ho ha b3, le_stable hs hm b2]

end AndaVerif.Belief
