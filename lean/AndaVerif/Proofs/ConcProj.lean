import AndaVerif.Model.ConcColl
/-
Boilerplate (written by a script once, kept by hand): projection lemmas of the shared-state and
thread helpers of `Model/ConcColl`, so that proofs never unfold them into record literals.
-/
namespace AndaVerif.ConcColl

@[simp] theorem enter_conf (sh : Shared) (t : Nat) : (enter sh t).conf = sh.conf := by rfl
@[simp] theorem enter_writer (sh : Shared) (t : Nat) : (enter sh t).writer = sh.writer := by rfl
@[simp] theorem enter_lock (sh : Shared) (t : Nat) : (enter sh t).lock = sh.lock := by rfl
@[simp] theorem enter_wmLock (sh : Shared) (t : Nat) : (enter sh t).wmLock = sh.wmLock := by rfl
@[simp] theorem enter_extLock (sh : Shared) (t : Nat) : (enter sh t).extLock = sh.extLock := by rfl
@[simp] theorem enter_poisoned (sh : Shared) (t : Nat) : (enter sh t).poisoned = sh.poisoned := by rfl
@[simp] theorem enter_maxId (sh : Shared) (t : Nat) : (enter sh t).maxId = sh.maxId := by rfl
@[simp] theorem enter_watermark (sh : Shared) (t : Nat) : (enter sh t).watermark = sh.watermark := by rfl
@[simp] theorem enter_ids (sh : Shared) (t : Nat) : (enter sh t).ids = sh.ids := by rfl
@[simp] theorem enter_store (sh : Shared) (t : Nat) : (enter sh t).store = sh.store := by rfl
@[simp] theorem enter_nextVer (sh : Shared) (t : Nat) : (enter sh t).nextVer = sh.nextVer := by rfl
@[simp] theorem enter_idxK (sh : Shared) (t : Nat) : (enter sh t).idxK = sh.idxK := by rfl
@[simp] theorem enter_idxU (sh : Shared) (t : Nat) : (enter sh t).idxU = sh.idxU := by rfl
@[simp] theorem enter_idxDirty (sh : Shared) (t : Nat) : (enter sh t).idxDirty = sh.idxDirty := by rfl
@[simp] theorem enter_intents (sh : Shared) (t : Nat) : (enter sh t).intents = sh.intents := by rfl
@[simp] theorem enter_statVer (sh : Shared) (t : Nat) : (enter sh t).statVer = sh.statVer := by rfl
@[simp] theorem enter_savedVer (sh : Shared) (t : Nat) : (enter sh t).savedVer = sh.savedVer := by rfl
@[simp] theorem enter_inserts (sh : Shared) (t : Nat) : (enter sh t).inserts = sh.inserts := by rfl
@[simp] theorem enter_updates (sh : Shared) (t : Nat) : (enter sh t).updates = sh.updates := by rfl
@[simp] theorem enter_deletes (sh : Shared) (t : Nat) : (enter sh t).deletes = sh.deletes := by rfl
@[simp] theorem enter_ext (sh : Shared) (t : Nat) : (enter sh t).ext = sh.ext := by rfl
@[simp] theorem enter_metaObjVer (sh : Shared) (t : Nat) : (enter sh t).metaObjVer = sh.metaObjVer := by rfl
@[simp] theorem enter_metaKnownVer (sh : Shared) (t : Nat) : (enter sh t).metaKnownVer = sh.metaKnownVer := by rfl
@[simp] theorem enter_pMeta (sh : Shared) (t : Nat) : (enter sh t).pMeta = sh.pMeta := by rfl
@[simp] theorem enter_pIds (sh : Shared) (t : Nat) : (enter sh t).pIds = sh.pIds := by rfl
@[simp] theorem enter_hist (sh : Shared) (t : Nat) : (enter sh t).hist = sh.hist := by rfl
@[simp] theorem enter_gdocs (sh : Shared) (t : Nat) : (enter sh t).gdocs = sh.gdocs := by rfl
@[simp] theorem enter_glog (sh : Shared) (t : Nat) : (enter sh t).glog = sh.glog := by rfl
@[simp] theorem leave_conf (sh : Shared) (t : Nat) : (leave sh t).conf = sh.conf := by rfl
@[simp] theorem leave_writer (sh : Shared) (t : Nat) : (leave sh t).writer = sh.writer := by rfl
@[simp] theorem leave_lock (sh : Shared) (t : Nat) : (leave sh t).lock = sh.lock := by rfl
@[simp] theorem leave_wmLock (sh : Shared) (t : Nat) : (leave sh t).wmLock = sh.wmLock := by rfl
@[simp] theorem leave_extLock (sh : Shared) (t : Nat) : (leave sh t).extLock = sh.extLock := by rfl
@[simp] theorem leave_poisoned (sh : Shared) (t : Nat) : (leave sh t).poisoned = sh.poisoned := by rfl
@[simp] theorem leave_maxId (sh : Shared) (t : Nat) : (leave sh t).maxId = sh.maxId := by rfl
@[simp] theorem leave_watermark (sh : Shared) (t : Nat) : (leave sh t).watermark = sh.watermark := by rfl
@[simp] theorem leave_ids (sh : Shared) (t : Nat) : (leave sh t).ids = sh.ids := by rfl
@[simp] theorem leave_store (sh : Shared) (t : Nat) : (leave sh t).store = sh.store := by rfl
@[simp] theorem leave_nextVer (sh : Shared) (t : Nat) : (leave sh t).nextVer = sh.nextVer := by rfl
@[simp] theorem leave_idxK (sh : Shared) (t : Nat) : (leave sh t).idxK = sh.idxK := by rfl
@[simp] theorem leave_idxU (sh : Shared) (t : Nat) : (leave sh t).idxU = sh.idxU := by rfl
@[simp] theorem leave_idxDirty (sh : Shared) (t : Nat) : (leave sh t).idxDirty = sh.idxDirty := by rfl
@[simp] theorem leave_intents (sh : Shared) (t : Nat) : (leave sh t).intents = sh.intents := by rfl
@[simp] theorem leave_statVer (sh : Shared) (t : Nat) : (leave sh t).statVer = sh.statVer := by rfl
@[simp] theorem leave_savedVer (sh : Shared) (t : Nat) : (leave sh t).savedVer = sh.savedVer := by rfl
@[simp] theorem leave_inserts (sh : Shared) (t : Nat) : (leave sh t).inserts = sh.inserts := by rfl
@[simp] theorem leave_updates (sh : Shared) (t : Nat) : (leave sh t).updates = sh.updates := by rfl
@[simp] theorem leave_deletes (sh : Shared) (t : Nat) : (leave sh t).deletes = sh.deletes := by rfl
@[simp] theorem leave_ext (sh : Shared) (t : Nat) : (leave sh t).ext = sh.ext := by rfl
@[simp] theorem leave_metaObjVer (sh : Shared) (t : Nat) : (leave sh t).metaObjVer = sh.metaObjVer := by rfl
@[simp] theorem leave_metaKnownVer (sh : Shared) (t : Nat) : (leave sh t).metaKnownVer = sh.metaKnownVer := by rfl
@[simp] theorem leave_pMeta (sh : Shared) (t : Nat) : (leave sh t).pMeta = sh.pMeta := by rfl
@[simp] theorem leave_pIds (sh : Shared) (t : Nat) : (leave sh t).pIds = sh.pIds := by rfl
@[simp] theorem leave_hist (sh : Shared) (t : Nat) : (leave sh t).hist = sh.hist := by rfl
@[simp] theorem leave_gdocs (sh : Shared) (t : Nat) : (leave sh t).gdocs = sh.gdocs := by rfl
@[simp] theorem leave_glog (sh : Shared) (t : Nat) : (leave sh t).glog = sh.glog := by rfl
@[simp] theorem lockDoc_conf (sh : Shared) (id t : Nat) : (lockDoc sh id t).conf = sh.conf := by rfl
@[simp] theorem lockDoc_readers (sh : Shared) (id t : Nat) : (lockDoc sh id t).readers = sh.readers := by rfl
@[simp] theorem lockDoc_writer (sh : Shared) (id t : Nat) : (lockDoc sh id t).writer = sh.writer := by rfl
@[simp] theorem lockDoc_wmLock (sh : Shared) (id t : Nat) : (lockDoc sh id t).wmLock = sh.wmLock := by rfl
@[simp] theorem lockDoc_extLock (sh : Shared) (id t : Nat) : (lockDoc sh id t).extLock = sh.extLock := by rfl
@[simp] theorem lockDoc_poisoned (sh : Shared) (id t : Nat) : (lockDoc sh id t).poisoned = sh.poisoned := by rfl
@[simp] theorem lockDoc_maxId (sh : Shared) (id t : Nat) : (lockDoc sh id t).maxId = sh.maxId := by rfl
@[simp] theorem lockDoc_watermark (sh : Shared) (id t : Nat) : (lockDoc sh id t).watermark = sh.watermark := by rfl
@[simp] theorem lockDoc_ids (sh : Shared) (id t : Nat) : (lockDoc sh id t).ids = sh.ids := by rfl
@[simp] theorem lockDoc_store (sh : Shared) (id t : Nat) : (lockDoc sh id t).store = sh.store := by rfl
@[simp] theorem lockDoc_nextVer (sh : Shared) (id t : Nat) : (lockDoc sh id t).nextVer = sh.nextVer := by rfl
@[simp] theorem lockDoc_idxK (sh : Shared) (id t : Nat) : (lockDoc sh id t).idxK = sh.idxK := by rfl
@[simp] theorem lockDoc_idxU (sh : Shared) (id t : Nat) : (lockDoc sh id t).idxU = sh.idxU := by rfl
@[simp] theorem lockDoc_idxDirty (sh : Shared) (id t : Nat) : (lockDoc sh id t).idxDirty = sh.idxDirty := by rfl
@[simp] theorem lockDoc_intents (sh : Shared) (id t : Nat) : (lockDoc sh id t).intents = sh.intents := by rfl
@[simp] theorem lockDoc_statVer (sh : Shared) (id t : Nat) : (lockDoc sh id t).statVer = sh.statVer := by rfl
@[simp] theorem lockDoc_savedVer (sh : Shared) (id t : Nat) : (lockDoc sh id t).savedVer = sh.savedVer := by rfl
@[simp] theorem lockDoc_inserts (sh : Shared) (id t : Nat) : (lockDoc sh id t).inserts = sh.inserts := by rfl
@[simp] theorem lockDoc_updates (sh : Shared) (id t : Nat) : (lockDoc sh id t).updates = sh.updates := by rfl
@[simp] theorem lockDoc_deletes (sh : Shared) (id t : Nat) : (lockDoc sh id t).deletes = sh.deletes := by rfl
@[simp] theorem lockDoc_ext (sh : Shared) (id t : Nat) : (lockDoc sh id t).ext = sh.ext := by rfl
@[simp] theorem lockDoc_metaObjVer (sh : Shared) (id t : Nat) : (lockDoc sh id t).metaObjVer = sh.metaObjVer := by rfl
@[simp] theorem lockDoc_metaKnownVer (sh : Shared) (id t : Nat) : (lockDoc sh id t).metaKnownVer = sh.metaKnownVer := by rfl
@[simp] theorem lockDoc_pMeta (sh : Shared) (id t : Nat) : (lockDoc sh id t).pMeta = sh.pMeta := by rfl
@[simp] theorem lockDoc_pIds (sh : Shared) (id t : Nat) : (lockDoc sh id t).pIds = sh.pIds := by rfl
@[simp] theorem lockDoc_hist (sh : Shared) (id t : Nat) : (lockDoc sh id t).hist = sh.hist := by rfl
@[simp] theorem lockDoc_gdocs (sh : Shared) (id t : Nat) : (lockDoc sh id t).gdocs = sh.gdocs := by rfl
@[simp] theorem lockDoc_glog (sh : Shared) (id t : Nat) : (lockDoc sh id t).glog = sh.glog := by rfl
@[simp] theorem unlockDoc_conf (sh : Shared) (id : Nat) : (unlockDoc sh id).conf = sh.conf := by rfl
@[simp] theorem unlockDoc_readers (sh : Shared) (id : Nat) : (unlockDoc sh id).readers = sh.readers := by rfl
@[simp] theorem unlockDoc_writer (sh : Shared) (id : Nat) : (unlockDoc sh id).writer = sh.writer := by rfl
@[simp] theorem unlockDoc_wmLock (sh : Shared) (id : Nat) : (unlockDoc sh id).wmLock = sh.wmLock := by rfl
@[simp] theorem unlockDoc_extLock (sh : Shared) (id : Nat) : (unlockDoc sh id).extLock = sh.extLock := by rfl
@[simp] theorem unlockDoc_poisoned (sh : Shared) (id : Nat) : (unlockDoc sh id).poisoned = sh.poisoned := by rfl
@[simp] theorem unlockDoc_maxId (sh : Shared) (id : Nat) : (unlockDoc sh id).maxId = sh.maxId := by rfl
@[simp] theorem unlockDoc_watermark (sh : Shared) (id : Nat) : (unlockDoc sh id).watermark = sh.watermark := by rfl
@[simp] theorem unlockDoc_ids (sh : Shared) (id : Nat) : (unlockDoc sh id).ids = sh.ids := by rfl
@[simp] theorem unlockDoc_store (sh : Shared) (id : Nat) : (unlockDoc sh id).store = sh.store := by rfl
@[simp] theorem unlockDoc_nextVer (sh : Shared) (id : Nat) : (unlockDoc sh id).nextVer = sh.nextVer := by rfl
@[simp] theorem unlockDoc_idxK (sh : Shared) (id : Nat) : (unlockDoc sh id).idxK = sh.idxK := by rfl
@[simp] theorem unlockDoc_idxU (sh : Shared) (id : Nat) : (unlockDoc sh id).idxU = sh.idxU := by rfl
@[simp] theorem unlockDoc_idxDirty (sh : Shared) (id : Nat) : (unlockDoc sh id).idxDirty = sh.idxDirty := by rfl
@[simp] theorem unlockDoc_intents (sh : Shared) (id : Nat) : (unlockDoc sh id).intents = sh.intents := by rfl
@[simp] theorem unlockDoc_statVer (sh : Shared) (id : Nat) : (unlockDoc sh id).statVer = sh.statVer := by rfl
@[simp] theorem unlockDoc_savedVer (sh : Shared) (id : Nat) : (unlockDoc sh id).savedVer = sh.savedVer := by rfl
@[simp] theorem unlockDoc_inserts (sh : Shared) (id : Nat) : (unlockDoc sh id).inserts = sh.inserts := by rfl
@[simp] theorem unlockDoc_updates (sh : Shared) (id : Nat) : (unlockDoc sh id).updates = sh.updates := by rfl
@[simp] theorem unlockDoc_deletes (sh : Shared) (id : Nat) : (unlockDoc sh id).deletes = sh.deletes := by rfl
@[simp] theorem unlockDoc_ext (sh : Shared) (id : Nat) : (unlockDoc sh id).ext = sh.ext := by rfl
@[simp] theorem unlockDoc_metaObjVer (sh : Shared) (id : Nat) : (unlockDoc sh id).metaObjVer = sh.metaObjVer := by rfl
@[simp] theorem unlockDoc_metaKnownVer (sh : Shared) (id : Nat) : (unlockDoc sh id).metaKnownVer = sh.metaKnownVer := by rfl
@[simp] theorem unlockDoc_pMeta (sh : Shared) (id : Nat) : (unlockDoc sh id).pMeta = sh.pMeta := by rfl
@[simp] theorem unlockDoc_pIds (sh : Shared) (id : Nat) : (unlockDoc sh id).pIds = sh.pIds := by rfl
@[simp] theorem unlockDoc_hist (sh : Shared) (id : Nat) : (unlockDoc sh id).hist = sh.hist := by rfl
@[simp] theorem unlockDoc_gdocs (sh : Shared) (id : Nat) : (unlockDoc sh id).gdocs = sh.gdocs := by rfl
@[simp] theorem unlockDoc_glog (sh : Shared) (id : Nat) : (unlockDoc sh id).glog = sh.glog := by rfl
@[simp] theorem rmBitmap_conf (sh : Shared) (id : Nat) : (rmBitmap sh id).conf = sh.conf := by unfold rmBitmap; split <;> rfl
@[simp] theorem rmBitmap_readers (sh : Shared) (id : Nat) : (rmBitmap sh id).readers = sh.readers := by unfold rmBitmap; split <;> rfl
@[simp] theorem rmBitmap_writer (sh : Shared) (id : Nat) : (rmBitmap sh id).writer = sh.writer := by unfold rmBitmap; split <;> rfl
@[simp] theorem rmBitmap_lock (sh : Shared) (id : Nat) : (rmBitmap sh id).lock = sh.lock := by unfold rmBitmap; split <;> rfl
@[simp] theorem rmBitmap_wmLock (sh : Shared) (id : Nat) : (rmBitmap sh id).wmLock = sh.wmLock := by unfold rmBitmap; split <;> rfl
@[simp] theorem rmBitmap_extLock (sh : Shared) (id : Nat) : (rmBitmap sh id).extLock = sh.extLock := by unfold rmBitmap; split <;> rfl
@[simp] theorem rmBitmap_poisoned (sh : Shared) (id : Nat) : (rmBitmap sh id).poisoned = sh.poisoned := by unfold rmBitmap; split <;> rfl
@[simp] theorem rmBitmap_maxId (sh : Shared) (id : Nat) : (rmBitmap sh id).maxId = sh.maxId := by unfold rmBitmap; split <;> rfl
@[simp] theorem rmBitmap_watermark (sh : Shared) (id : Nat) : (rmBitmap sh id).watermark = sh.watermark := by unfold rmBitmap; split <;> rfl
@[simp] theorem rmBitmap_store (sh : Shared) (id : Nat) : (rmBitmap sh id).store = sh.store := by unfold rmBitmap; split <;> rfl
@[simp] theorem rmBitmap_nextVer (sh : Shared) (id : Nat) : (rmBitmap sh id).nextVer = sh.nextVer := by unfold rmBitmap; split <;> rfl
@[simp] theorem rmBitmap_idxK (sh : Shared) (id : Nat) : (rmBitmap sh id).idxK = sh.idxK := by unfold rmBitmap; split <;> rfl
@[simp] theorem rmBitmap_idxU (sh : Shared) (id : Nat) : (rmBitmap sh id).idxU = sh.idxU := by unfold rmBitmap; split <;> rfl
@[simp] theorem rmBitmap_idxDirty (sh : Shared) (id : Nat) : (rmBitmap sh id).idxDirty = sh.idxDirty := by unfold rmBitmap; split <;> rfl
@[simp] theorem rmBitmap_intents (sh : Shared) (id : Nat) : (rmBitmap sh id).intents = sh.intents := by unfold rmBitmap; split <;> rfl
@[simp] theorem rmBitmap_savedVer (sh : Shared) (id : Nat) : (rmBitmap sh id).savedVer = sh.savedVer := by unfold rmBitmap; split <;> rfl
@[simp] theorem rmBitmap_inserts (sh : Shared) (id : Nat) : (rmBitmap sh id).inserts = sh.inserts := by unfold rmBitmap; split <;> rfl
@[simp] theorem rmBitmap_updates (sh : Shared) (id : Nat) : (rmBitmap sh id).updates = sh.updates := by unfold rmBitmap; split <;> rfl
@[simp] theorem rmBitmap_ext (sh : Shared) (id : Nat) : (rmBitmap sh id).ext = sh.ext := by unfold rmBitmap; split <;> rfl
@[simp] theorem rmBitmap_metaObjVer (sh : Shared) (id : Nat) : (rmBitmap sh id).metaObjVer = sh.metaObjVer := by unfold rmBitmap; split <;> rfl
@[simp] theorem rmBitmap_metaKnownVer (sh : Shared) (id : Nat) : (rmBitmap sh id).metaKnownVer = sh.metaKnownVer := by unfold rmBitmap; split <;> rfl
@[simp] theorem rmBitmap_pMeta (sh : Shared) (id : Nat) : (rmBitmap sh id).pMeta = sh.pMeta := by unfold rmBitmap; split <;> rfl
@[simp] theorem rmBitmap_pIds (sh : Shared) (id : Nat) : (rmBitmap sh id).pIds = sh.pIds := by unfold rmBitmap; split <;> rfl
@[simp] theorem rmBitmap_hist (sh : Shared) (id : Nat) : (rmBitmap sh id).hist = sh.hist := by unfold rmBitmap; split <;> rfl
@[simp] theorem rmBitmap_gdocs (sh : Shared) (id : Nat) : (rmBitmap sh id).gdocs = sh.gdocs := by unfold rmBitmap; split <;> rfl
@[simp] theorem rmBitmap_glog (sh : Shared) (id : Nat) : (rmBitmap sh id).glog = sh.glog := by unfold rmBitmap; split <;> rfl
@[simp] theorem rmIndexes_conf (sh : Shared) (id : Nat) (d : Doc) : (rmIndexes sh id d).conf = sh.conf := by rfl
@[simp] theorem rmIndexes_readers (sh : Shared) (id : Nat) (d : Doc) : (rmIndexes sh id d).readers = sh.readers := by rfl
@[simp] theorem rmIndexes_writer (sh : Shared) (id : Nat) (d : Doc) : (rmIndexes sh id d).writer = sh.writer := by rfl
@[simp] theorem rmIndexes_lock (sh : Shared) (id : Nat) (d : Doc) : (rmIndexes sh id d).lock = sh.lock := by rfl
@[simp] theorem rmIndexes_wmLock (sh : Shared) (id : Nat) (d : Doc) : (rmIndexes sh id d).wmLock = sh.wmLock := by rfl
@[simp] theorem rmIndexes_extLock (sh : Shared) (id : Nat) (d : Doc) : (rmIndexes sh id d).extLock = sh.extLock := by rfl
@[simp] theorem rmIndexes_poisoned (sh : Shared) (id : Nat) (d : Doc) : (rmIndexes sh id d).poisoned = sh.poisoned := by rfl
@[simp] theorem rmIndexes_maxId (sh : Shared) (id : Nat) (d : Doc) : (rmIndexes sh id d).maxId = sh.maxId := by rfl
@[simp] theorem rmIndexes_watermark (sh : Shared) (id : Nat) (d : Doc) : (rmIndexes sh id d).watermark = sh.watermark := by rfl
@[simp] theorem rmIndexes_ids (sh : Shared) (id : Nat) (d : Doc) : (rmIndexes sh id d).ids = sh.ids := by rfl
@[simp] theorem rmIndexes_store (sh : Shared) (id : Nat) (d : Doc) : (rmIndexes sh id d).store = sh.store := by rfl
@[simp] theorem rmIndexes_nextVer (sh : Shared) (id : Nat) (d : Doc) : (rmIndexes sh id d).nextVer = sh.nextVer := by rfl
@[simp] theorem rmIndexes_intents (sh : Shared) (id : Nat) (d : Doc) : (rmIndexes sh id d).intents = sh.intents := by rfl
@[simp] theorem rmIndexes_statVer (sh : Shared) (id : Nat) (d : Doc) : (rmIndexes sh id d).statVer = sh.statVer := by rfl
@[simp] theorem rmIndexes_savedVer (sh : Shared) (id : Nat) (d : Doc) : (rmIndexes sh id d).savedVer = sh.savedVer := by rfl
@[simp] theorem rmIndexes_inserts (sh : Shared) (id : Nat) (d : Doc) : (rmIndexes sh id d).inserts = sh.inserts := by rfl
@[simp] theorem rmIndexes_updates (sh : Shared) (id : Nat) (d : Doc) : (rmIndexes sh id d).updates = sh.updates := by rfl
@[simp] theorem rmIndexes_deletes (sh : Shared) (id : Nat) (d : Doc) : (rmIndexes sh id d).deletes = sh.deletes := by rfl
@[simp] theorem rmIndexes_ext (sh : Shared) (id : Nat) (d : Doc) : (rmIndexes sh id d).ext = sh.ext := by rfl
@[simp] theorem rmIndexes_metaObjVer (sh : Shared) (id : Nat) (d : Doc) : (rmIndexes sh id d).metaObjVer = sh.metaObjVer := by rfl
@[simp] theorem rmIndexes_metaKnownVer (sh : Shared) (id : Nat) (d : Doc) : (rmIndexes sh id d).metaKnownVer = sh.metaKnownVer := by rfl
@[simp] theorem rmIndexes_pMeta (sh : Shared) (id : Nat) (d : Doc) : (rmIndexes sh id d).pMeta = sh.pMeta := by rfl
@[simp] theorem rmIndexes_pIds (sh : Shared) (id : Nat) (d : Doc) : (rmIndexes sh id d).pIds = sh.pIds := by rfl
@[simp] theorem rmIndexes_hist (sh : Shared) (id : Nat) (d : Doc) : (rmIndexes sh id d).hist = sh.hist := by rfl
@[simp] theorem rmIndexes_gdocs (sh : Shared) (id : Nat) (d : Doc) : (rmIndexes sh id d).gdocs = sh.gdocs := by rfl
@[simp] theorem rmIndexes_glog (sh : Shared) (id : Nat) (d : Doc) : (rmIndexes sh id d).glog = sh.glog := by rfl
@[simp] theorem addRollback_conf (sh : Shared) (id : Nat) (d : Doc) : (addRollback sh id d).conf = sh.conf := by rfl
@[simp] theorem addRollback_readers (sh : Shared) (id : Nat) (d : Doc) : (addRollback sh id d).readers = sh.readers := by rfl
@[simp] theorem addRollback_writer (sh : Shared) (id : Nat) (d : Doc) : (addRollback sh id d).writer = sh.writer := by rfl
@[simp] theorem addRollback_lock (sh : Shared) (id : Nat) (d : Doc) : (addRollback sh id d).lock = sh.lock := by rfl
@[simp] theorem addRollback_wmLock (sh : Shared) (id : Nat) (d : Doc) : (addRollback sh id d).wmLock = sh.wmLock := by rfl
@[simp] theorem addRollback_extLock (sh : Shared) (id : Nat) (d : Doc) : (addRollback sh id d).extLock = sh.extLock := by rfl
@[simp] theorem addRollback_poisoned (sh : Shared) (id : Nat) (d : Doc) : (addRollback sh id d).poisoned = sh.poisoned := by rfl
@[simp] theorem addRollback_maxId (sh : Shared) (id : Nat) (d : Doc) : (addRollback sh id d).maxId = sh.maxId := by rfl
@[simp] theorem addRollback_watermark (sh : Shared) (id : Nat) (d : Doc) : (addRollback sh id d).watermark = sh.watermark := by rfl
@[simp] theorem addRollback_ids (sh : Shared) (id : Nat) (d : Doc) : (addRollback sh id d).ids = sh.ids := by rfl
@[simp] theorem addRollback_store (sh : Shared) (id : Nat) (d : Doc) : (addRollback sh id d).store = sh.store := by rfl
@[simp] theorem addRollback_nextVer (sh : Shared) (id : Nat) (d : Doc) : (addRollback sh id d).nextVer = sh.nextVer := by rfl
@[simp] theorem addRollback_idxDirty (sh : Shared) (id : Nat) (d : Doc) : (addRollback sh id d).idxDirty = sh.idxDirty := by rfl
@[simp] theorem addRollback_intents (sh : Shared) (id : Nat) (d : Doc) : (addRollback sh id d).intents = sh.intents := by rfl
@[simp] theorem addRollback_statVer (sh : Shared) (id : Nat) (d : Doc) : (addRollback sh id d).statVer = sh.statVer := by rfl
@[simp] theorem addRollback_savedVer (sh : Shared) (id : Nat) (d : Doc) : (addRollback sh id d).savedVer = sh.savedVer := by rfl
@[simp] theorem addRollback_inserts (sh : Shared) (id : Nat) (d : Doc) : (addRollback sh id d).inserts = sh.inserts := by rfl
@[simp] theorem addRollback_updates (sh : Shared) (id : Nat) (d : Doc) : (addRollback sh id d).updates = sh.updates := by rfl
@[simp] theorem addRollback_deletes (sh : Shared) (id : Nat) (d : Doc) : (addRollback sh id d).deletes = sh.deletes := by rfl
@[simp] theorem addRollback_ext (sh : Shared) (id : Nat) (d : Doc) : (addRollback sh id d).ext = sh.ext := by rfl
@[simp] theorem addRollback_metaObjVer (sh : Shared) (id : Nat) (d : Doc) : (addRollback sh id d).metaObjVer = sh.metaObjVer := by rfl
@[simp] theorem addRollback_metaKnownVer (sh : Shared) (id : Nat) (d : Doc) : (addRollback sh id d).metaKnownVer = sh.metaKnownVer := by rfl
@[simp] theorem addRollback_pMeta (sh : Shared) (id : Nat) (d : Doc) : (addRollback sh id d).pMeta = sh.pMeta := by rfl
@[simp] theorem addRollback_pIds (sh : Shared) (id : Nat) (d : Doc) : (addRollback sh id d).pIds = sh.pIds := by rfl
@[simp] theorem addRollback_hist (sh : Shared) (id : Nat) (d : Doc) : (addRollback sh id d).hist = sh.hist := by rfl
@[simp] theorem addRollback_gdocs (sh : Shared) (id : Nat) (d : Doc) : (addRollback sh id d).gdocs = sh.gdocs := by rfl
@[simp] theorem addRollback_glog (sh : Shared) (id : Nat) (d : Doc) : (addRollback sh id d).glog = sh.glog := by rfl
@[simp] theorem updRollback_conf (sh : Shared) (id : Nat) (old new : Doc) (fk fu : Bool) : (updRollback sh id old new fk fu).conf = sh.conf := by rfl
@[simp] theorem updRollback_readers (sh : Shared) (id : Nat) (old new : Doc) (fk fu : Bool) : (updRollback sh id old new fk fu).readers = sh.readers := by rfl
@[simp] theorem updRollback_writer (sh : Shared) (id : Nat) (old new : Doc) (fk fu : Bool) : (updRollback sh id old new fk fu).writer = sh.writer := by rfl
@[simp] theorem updRollback_lock (sh : Shared) (id : Nat) (old new : Doc) (fk fu : Bool) : (updRollback sh id old new fk fu).lock = sh.lock := by rfl
@[simp] theorem updRollback_wmLock (sh : Shared) (id : Nat) (old new : Doc) (fk fu : Bool) : (updRollback sh id old new fk fu).wmLock = sh.wmLock := by rfl
@[simp] theorem updRollback_extLock (sh : Shared) (id : Nat) (old new : Doc) (fk fu : Bool) : (updRollback sh id old new fk fu).extLock = sh.extLock := by rfl
@[simp] theorem updRollback_poisoned (sh : Shared) (id : Nat) (old new : Doc) (fk fu : Bool) : (updRollback sh id old new fk fu).poisoned = sh.poisoned := by rfl
@[simp] theorem updRollback_maxId (sh : Shared) (id : Nat) (old new : Doc) (fk fu : Bool) : (updRollback sh id old new fk fu).maxId = sh.maxId := by rfl
@[simp] theorem updRollback_watermark (sh : Shared) (id : Nat) (old new : Doc) (fk fu : Bool) : (updRollback sh id old new fk fu).watermark = sh.watermark := by rfl
@[simp] theorem updRollback_ids (sh : Shared) (id : Nat) (old new : Doc) (fk fu : Bool) : (updRollback sh id old new fk fu).ids = sh.ids := by rfl
@[simp] theorem updRollback_store (sh : Shared) (id : Nat) (old new : Doc) (fk fu : Bool) : (updRollback sh id old new fk fu).store = sh.store := by rfl
@[simp] theorem updRollback_nextVer (sh : Shared) (id : Nat) (old new : Doc) (fk fu : Bool) : (updRollback sh id old new fk fu).nextVer = sh.nextVer := by rfl
@[simp] theorem updRollback_idxDirty (sh : Shared) (id : Nat) (old new : Doc) (fk fu : Bool) : (updRollback sh id old new fk fu).idxDirty = sh.idxDirty := by rfl
@[simp] theorem updRollback_intents (sh : Shared) (id : Nat) (old new : Doc) (fk fu : Bool) : (updRollback sh id old new fk fu).intents = sh.intents := by rfl
@[simp] theorem updRollback_statVer (sh : Shared) (id : Nat) (old new : Doc) (fk fu : Bool) : (updRollback sh id old new fk fu).statVer = sh.statVer := by rfl
@[simp] theorem updRollback_savedVer (sh : Shared) (id : Nat) (old new : Doc) (fk fu : Bool) : (updRollback sh id old new fk fu).savedVer = sh.savedVer := by rfl
@[simp] theorem updRollback_inserts (sh : Shared) (id : Nat) (old new : Doc) (fk fu : Bool) : (updRollback sh id old new fk fu).inserts = sh.inserts := by rfl
@[simp] theorem updRollback_updates (sh : Shared) (id : Nat) (old new : Doc) (fk fu : Bool) : (updRollback sh id old new fk fu).updates = sh.updates := by rfl
@[simp] theorem updRollback_deletes (sh : Shared) (id : Nat) (old new : Doc) (fk fu : Bool) : (updRollback sh id old new fk fu).deletes = sh.deletes := by rfl
@[simp] theorem updRollback_ext (sh : Shared) (id : Nat) (old new : Doc) (fk fu : Bool) : (updRollback sh id old new fk fu).ext = sh.ext := by rfl
@[simp] theorem updRollback_metaObjVer (sh : Shared) (id : Nat) (old new : Doc) (fk fu : Bool) : (updRollback sh id old new fk fu).metaObjVer = sh.metaObjVer := by rfl
@[simp] theorem updRollback_metaKnownVer (sh : Shared) (id : Nat) (old new : Doc) (fk fu : Bool) : (updRollback sh id old new fk fu).metaKnownVer = sh.metaKnownVer := by rfl
@[simp] theorem updRollback_pMeta (sh : Shared) (id : Nat) (old new : Doc) (fk fu : Bool) : (updRollback sh id old new fk fu).pMeta = sh.pMeta := by rfl
@[simp] theorem updRollback_pIds (sh : Shared) (id : Nat) (old new : Doc) (fk fu : Bool) : (updRollback sh id old new fk fu).pIds = sh.pIds := by rfl
@[simp] theorem updRollback_hist (sh : Shared) (id : Nat) (old new : Doc) (fk fu : Bool) : (updRollback sh id old new fk fu).hist = sh.hist := by rfl
@[simp] theorem updRollback_gdocs (sh : Shared) (id : Nat) (old new : Doc) (fk fu : Bool) : (updRollback sh id old new fk fu).gdocs = sh.gdocs := by rfl
@[simp] theorem updRollback_glog (sh : Shared) (id : Nat) (old new : Doc) (fk fu : Bool) : (updRollback sh id old new fk fu).glog = sh.glog := by rfl
@[simp] theorem unlockGate_conf (sh : Shared) : (unlockGate sh ).conf = sh.conf := by rfl
@[simp] theorem unlockGate_readers (sh : Shared) : (unlockGate sh ).readers = sh.readers := by rfl
@[simp] theorem unlockGate_lock (sh : Shared) : (unlockGate sh ).lock = sh.lock := by rfl
@[simp] theorem unlockGate_wmLock (sh : Shared) : (unlockGate sh ).wmLock = sh.wmLock := by rfl
@[simp] theorem unlockGate_extLock (sh : Shared) : (unlockGate sh ).extLock = sh.extLock := by rfl
@[simp] theorem unlockGate_poisoned (sh : Shared) : (unlockGate sh ).poisoned = sh.poisoned := by rfl
@[simp] theorem unlockGate_maxId (sh : Shared) : (unlockGate sh ).maxId = sh.maxId := by rfl
@[simp] theorem unlockGate_watermark (sh : Shared) : (unlockGate sh ).watermark = sh.watermark := by rfl
@[simp] theorem unlockGate_ids (sh : Shared) : (unlockGate sh ).ids = sh.ids := by rfl
@[simp] theorem unlockGate_store (sh : Shared) : (unlockGate sh ).store = sh.store := by rfl
@[simp] theorem unlockGate_nextVer (sh : Shared) : (unlockGate sh ).nextVer = sh.nextVer := by rfl
@[simp] theorem unlockGate_idxK (sh : Shared) : (unlockGate sh ).idxK = sh.idxK := by rfl
@[simp] theorem unlockGate_idxU (sh : Shared) : (unlockGate sh ).idxU = sh.idxU := by rfl
@[simp] theorem unlockGate_idxDirty (sh : Shared) : (unlockGate sh ).idxDirty = sh.idxDirty := by rfl
@[simp] theorem unlockGate_intents (sh : Shared) : (unlockGate sh ).intents = sh.intents := by rfl
@[simp] theorem unlockGate_statVer (sh : Shared) : (unlockGate sh ).statVer = sh.statVer := by rfl
@[simp] theorem unlockGate_savedVer (sh : Shared) : (unlockGate sh ).savedVer = sh.savedVer := by rfl
@[simp] theorem unlockGate_inserts (sh : Shared) : (unlockGate sh ).inserts = sh.inserts := by rfl
@[simp] theorem unlockGate_updates (sh : Shared) : (unlockGate sh ).updates = sh.updates := by rfl
@[simp] theorem unlockGate_deletes (sh : Shared) : (unlockGate sh ).deletes = sh.deletes := by rfl
@[simp] theorem unlockGate_ext (sh : Shared) : (unlockGate sh ).ext = sh.ext := by rfl
@[simp] theorem unlockGate_metaObjVer (sh : Shared) : (unlockGate sh ).metaObjVer = sh.metaObjVer := by rfl
@[simp] theorem unlockGate_metaKnownVer (sh : Shared) : (unlockGate sh ).metaKnownVer = sh.metaKnownVer := by rfl
@[simp] theorem unlockGate_pMeta (sh : Shared) : (unlockGate sh ).pMeta = sh.pMeta := by rfl
@[simp] theorem unlockGate_pIds (sh : Shared) : (unlockGate sh ).pIds = sh.pIds := by rfl
@[simp] theorem unlockGate_hist (sh : Shared) : (unlockGate sh ).hist = sh.hist := by rfl
@[simp] theorem unlockGate_gdocs (sh : Shared) : (unlockGate sh ).gdocs = sh.gdocs := by rfl
@[simp] theorem unlockGate_glog (sh : Shared) : (unlockGate sh ).glog = sh.glog := by rfl
@[simp] theorem linS_conf (sh : Shared) (t : Nat) (r : Res) : (linS sh t r).conf = sh.conf := by rfl
@[simp] theorem linS_readers (sh : Shared) (t : Nat) (r : Res) : (linS sh t r).readers = sh.readers := by rfl
@[simp] theorem linS_writer (sh : Shared) (t : Nat) (r : Res) : (linS sh t r).writer = sh.writer := by rfl
@[simp] theorem linS_lock (sh : Shared) (t : Nat) (r : Res) : (linS sh t r).lock = sh.lock := by rfl
@[simp] theorem linS_wmLock (sh : Shared) (t : Nat) (r : Res) : (linS sh t r).wmLock = sh.wmLock := by rfl
@[simp] theorem linS_extLock (sh : Shared) (t : Nat) (r : Res) : (linS sh t r).extLock = sh.extLock := by rfl
@[simp] theorem linS_poisoned (sh : Shared) (t : Nat) (r : Res) : (linS sh t r).poisoned = sh.poisoned := by rfl
@[simp] theorem linS_maxId (sh : Shared) (t : Nat) (r : Res) : (linS sh t r).maxId = sh.maxId := by rfl
@[simp] theorem linS_watermark (sh : Shared) (t : Nat) (r : Res) : (linS sh t r).watermark = sh.watermark := by rfl
@[simp] theorem linS_ids (sh : Shared) (t : Nat) (r : Res) : (linS sh t r).ids = sh.ids := by rfl
@[simp] theorem linS_store (sh : Shared) (t : Nat) (r : Res) : (linS sh t r).store = sh.store := by rfl
@[simp] theorem linS_nextVer (sh : Shared) (t : Nat) (r : Res) : (linS sh t r).nextVer = sh.nextVer := by rfl
@[simp] theorem linS_idxK (sh : Shared) (t : Nat) (r : Res) : (linS sh t r).idxK = sh.idxK := by rfl
@[simp] theorem linS_idxU (sh : Shared) (t : Nat) (r : Res) : (linS sh t r).idxU = sh.idxU := by rfl
@[simp] theorem linS_idxDirty (sh : Shared) (t : Nat) (r : Res) : (linS sh t r).idxDirty = sh.idxDirty := by rfl
@[simp] theorem linS_intents (sh : Shared) (t : Nat) (r : Res) : (linS sh t r).intents = sh.intents := by rfl
@[simp] theorem linS_statVer (sh : Shared) (t : Nat) (r : Res) : (linS sh t r).statVer = sh.statVer := by rfl
@[simp] theorem linS_savedVer (sh : Shared) (t : Nat) (r : Res) : (linS sh t r).savedVer = sh.savedVer := by rfl
@[simp] theorem linS_inserts (sh : Shared) (t : Nat) (r : Res) : (linS sh t r).inserts = sh.inserts := by rfl
@[simp] theorem linS_updates (sh : Shared) (t : Nat) (r : Res) : (linS sh t r).updates = sh.updates := by rfl
@[simp] theorem linS_deletes (sh : Shared) (t : Nat) (r : Res) : (linS sh t r).deletes = sh.deletes := by rfl
@[simp] theorem linS_ext (sh : Shared) (t : Nat) (r : Res) : (linS sh t r).ext = sh.ext := by rfl
@[simp] theorem linS_metaObjVer (sh : Shared) (t : Nat) (r : Res) : (linS sh t r).metaObjVer = sh.metaObjVer := by rfl
@[simp] theorem linS_metaKnownVer (sh : Shared) (t : Nat) (r : Res) : (linS sh t r).metaKnownVer = sh.metaKnownVer := by rfl
@[simp] theorem linS_pMeta (sh : Shared) (t : Nat) (r : Res) : (linS sh t r).pMeta = sh.pMeta := by rfl
@[simp] theorem linS_pIds (sh : Shared) (t : Nat) (r : Res) : (linS sh t r).pIds = sh.pIds := by rfl
@[simp] theorem linS_hist (sh : Shared) (t : Nat) (r : Res) : (linS sh t r).hist = sh.hist := by rfl
@[simp] theorem linS_gdocs (sh : Shared) (t : Nat) (r : Res) : (linS sh t r).gdocs = sh.gdocs := by rfl
@[simp] theorem fin_op (th : Thread) (r : Res) : (fin th r).op = th.op := rfl
@[simp] theorem fin_id (th : Thread) (r : Res) : (fin th r).id = th.id := rfl
@[simp] theorem fin_old (th : Thread) (r : Res) : (fin th r).old = th.old := rfl
@[simp] theorem fin_ver (th : Thread) (r : Res) : (fin th r).ver = th.ver := rfl
@[simp] theorem fin_new (th : Thread) (r : Res) : (fin th r).new = th.new := rfl
@[simp] theorem fin_f1 (th : Thread) (r : Res) : (fin th r).f1 = th.f1 := rfl
@[simp] theorem fin_f2 (th : Thread) (r : Res) : (fin th r).f2 = th.f2 := rfl
@[simp] theorem fin_f3 (th : Thread) (r : Res) : (fin th r).f3 = th.f3 := rfl
@[simp] theorem fin_snap (th : Thread) (r : Res) : (fin th r).snap = th.snap := rfl
@[simp] theorem fin_pids (th : Thread) (r : Res) : (fin th r).pids = th.pids := rfl
@[simp] theorem fin_pred (th : Thread) (r : Res) : (fin th r).pred = th.pred := rfl
@[simp] theorem finL_op (th : Thread) (r : Res) : (finL th r).op = th.op := rfl
@[simp] theorem finL_id (th : Thread) (r : Res) : (finL th r).id = th.id := rfl
@[simp] theorem finL_old (th : Thread) (r : Res) : (finL th r).old = th.old := rfl
@[simp] theorem finL_ver (th : Thread) (r : Res) : (finL th r).ver = th.ver := rfl
@[simp] theorem finL_new (th : Thread) (r : Res) : (finL th r).new = th.new := rfl
@[simp] theorem finL_f1 (th : Thread) (r : Res) : (finL th r).f1 = th.f1 := rfl
@[simp] theorem finL_f2 (th : Thread) (r : Res) : (finL th r).f2 = th.f2 := rfl
@[simp] theorem finL_f3 (th : Thread) (r : Res) : (finL th r).f3 = th.f3 := rfl
@[simp] theorem finL_snap (th : Thread) (r : Res) : (finL th r).snap = th.snap := rfl
@[simp] theorem finL_pids (th : Thread) (r : Res) : (finL th r).pids = th.pids := rfl

@[simp] theorem enter_readers (sh : Shared) (t : Nat) : (enter sh t).readers = t :: sh.readers := rfl
@[simp] theorem leave_readers (sh : Shared) (t : Nat) : (leave sh t).readers = sh.readers.filter (· != t) := rfl
@[simp] theorem lockDoc_lock (sh : Shared) (id t : Nat) :
    (lockDoc sh id t).lock = fun s => if s = stripe sh id then some t else sh.lock s := rfl
@[simp] theorem unlockDoc_lock (sh : Shared) (id : Nat) :
    (unlockDoc sh id).lock = fun s => if s = stripe sh id then none else sh.lock s := rfl
@[simp] theorem unlockGate_writer (sh : Shared) : (unlockGate sh).writer = none := rfl
@[simp] theorem linS_glog (sh : Shared) (t : Nat) (r : Res) : (linS sh t r).glog = (t, r) :: sh.glog := rfl
@[simp] theorem fin_pc (th : Thread) (r : Res) : (fin th r).pc = .done := rfl
@[simp] theorem fin_res (th : Thread) (r : Res) : (fin th r).res = some r := rfl
@[simp] theorem finL_pc (th : Thread) (r : Res) : (finL th r).pc = .done := rfl
@[simp] theorem finL_res (th : Thread) (r : Res) : (finL th r).res = some r := rfl
@[simp] theorem finL_pred (th : Thread) (r : Res) : (finL th r).pred = some r := rfl
@[simp] theorem stripe_enter (sh : Shared) (t id : Nat) : stripe (enter sh t) id = stripe sh id := rfl
@[simp] theorem stripe_leave (sh : Shared) (t id : Nat) : stripe (leave sh t) id = stripe sh id := rfl
@[simp] theorem stripe_linS (sh : Shared) (t id : Nat) (r : Res) : stripe (linS sh t r) id = stripe sh id := rfl

@[simp] theorem rmBitmap_ids (sh : Shared) (id : Nat) : (rmBitmap sh id).ids = sh.ids.filter (· != id) := by
  unfold rmBitmap
  split
  · rfl
  · next h =>
    symm
    apply List.filter_eq_self.mpr
    intro a ha
    simp only [bne_iff_ne, ne_eq]
    intro hh
    exact h (hh ▸ ha)

end AndaVerif.ConcColl
