import AndaVerif.Model.Collection
/-
Posting-relation level facts about the B-tree operations of `Model/Collection.lean`:
what exactly is in the relation after `insert` / `remove` / `insert_array` / `remove_array` /
`batch_update` / the wrapper's `update`, when they fail, and what a success implies.
-/
namespace AndaVerif.Collection

theorem conflict_iff (r : List (Key × Nat)) (id : Nat) (k : Key) :
    conflict r id k = true ↔ ∃ j, (k, j) ∈ r ∧ j ≠ id := by
  unfold conflict
  simp only [List.any_eq_true, Bool.and_eq_true, beq_iff_eq, bne_iff_ne, ne_eq]
  constructor
  · rintro ⟨⟨k', j⟩, hm, hk, hj⟩
    simp only at hk hj
    subst hk
    exact ⟨j, hm, hj⟩
  · rintro ⟨j, hm, hj⟩
    exact ⟨(k, j), hm, rfl, hj⟩

theorem conflict_false_iff (r : List (Key × Nat)) (id : Nat) (k : Key) :
    conflict r id k = false ↔ ∀ j, (k, j) ∈ r → j = id := by
  rw [← Bool.not_eq_true, conflict_iff]
  constructor
  · intro h j hj
    exact Classical.byContradiction fun hne => h ⟨j, hj, hne⟩
  · rintro h ⟨j, hj, hne⟩
    exact hne (h j hj)

theorem mem_addPair (r : List (Key × Nat)) (id : Nat) (k : Key) (p : Key × Nat) :
    p ∈ addPair r id k ↔ p ∈ r ∨ p = (k, id) := by
  unfold addPair
  split
  · rename_i h
    have : (k, id) ∈ r := by simpa using h
    constructor
    · exact Or.inl
    · rintro (h | h)
      · exact h
      · subst h; exact this
  · simp

theorem mem_foldl_addPair (ks : List Key) (r : List (Key × Nat)) (id : Nat) (p : Key × Nat) :
    p ∈ ks.foldl (fun r k => addPair r id k) r ↔ p ∈ r ∨ (p.2 = id ∧ p.1 ∈ ks) := by
  induction ks generalizing r with
  | nil => simp
  | cons k ks ih =>
    simp only [List.foldl_cons, ih, mem_addPair, List.mem_cons]
    constructor
    · rintro ((h | h) | h)
      · exact Or.inl h
      · subst h; exact Or.inr ⟨rfl, Or.inl rfl⟩
      · exact Or.inr ⟨h.1, Or.inr h.2⟩
    · rintro (h | ⟨h1, h2 | h2⟩)
      · exact Or.inl (Or.inl h)
      · refine Or.inl (Or.inr ?_)
        cases p; simp_all
      · exact Or.inr ⟨h1, h2⟩

theorem mem_relRemove (r : List (Key × Nat)) (id : Nat) (k : Key) (p : Key × Nat) :
    p ∈ relRemove r id k ↔ p ∈ r ∧ ¬(p.2 = id ∧ p.1 = k) := by
  unfold relRemove
  simp only [List.mem_filter, Bool.not_eq_eq_eq_not, Bool.not_true, Bool.and_eq_false_imp, beq_iff_eq, beq_eq_false_iff_ne, ne_eq]
  constructor
  · rintro ⟨h, h2⟩
    exact ⟨h, fun ⟨a, b⟩ => h2 b a⟩
  · rintro ⟨h, h2⟩
    exact ⟨h, fun b a => h2 ⟨a, b⟩⟩

theorem mem_relRemoveArray (r : List (Key × Nat)) (id : Nat) (ks : List Key) (p : Key × Nat) :
    p ∈ relRemoveArray r id ks ↔ p ∈ r ∧ ¬(p.2 = id ∧ p.1 ∈ ks) := by
  unfold relRemoveArray
  simp only [List.mem_filter, Bool.not_eq_eq_eq_not, Bool.not_true, Bool.and_eq_false_imp, beq_iff_eq, List.contains_eq_mem,
    decide_eq_false_iff_not]
  constructor
  · rintro ⟨h, h2⟩
    exact ⟨h, fun ⟨a, b⟩ => h2 a b⟩
  · rintro ⟨h, h2⟩
    exact ⟨h, fun a b => h2 ⟨a, b⟩⟩

/-- `insert`: success adds exactly the pair; failure only on a unique index when another id owns the key -/
theorem relInsert_ok (u : Bool) (r r' : List (Key × Nat)) (id : Nat) (k : Key)
    (h : relInsert u r id k = .ok r') :
    (∀ p, p ∈ r' ↔ p ∈ r ∨ p = (k, id)) ∧ (u = true → conflict r id k = false) := by
  unfold relInsert at h
  split at h
  · cases h
  · rename_i hc
    simp only [Except.ok.injEq] at h
    subst h
    refine ⟨fun p => mem_addPair r id k p, fun hu => ?_⟩
    simpa [hu] using hc

theorem relInsert_err (u : Bool) (r : List (Key × Nat)) (id : Nat) (k : Key) (e : Err)
    (h : relInsert u r id k = .error e) : e = .exists ∧ u = true ∧ conflict r id k = true := by
  unfold relInsert at h
  split at h
  · rename_i hc
    simp only [Bool.and_eq_true] at hc
    cases h
    exact ⟨rfl, hc.1, hc.2⟩
  · cases h

theorem relInsertArray_ok (u : Bool) (r r' : List (Key × Nat)) (id : Nat) (ks : List Key)
    (h : relInsertArray u r id ks = .ok r') :
    (∀ p, p ∈ r' ↔ p ∈ r ∨ (p.2 = id ∧ p.1 ∈ ks)) ∧ (u = true → ∀ k ∈ ks, conflict r id k = false) := by
  unfold relInsertArray at h
  split at h
  · cases h
  · rename_i hc
    simp only [Except.ok.injEq] at h
    subst h
    refine ⟨fun p => mem_foldl_addPair ks r id p, fun hu k hk => ?_⟩
    simp only [hu, Bool.true_and, Bool.not_eq_true, List.any_eq_false] at hc
    simpa using hc k hk

theorem relInsertArray_err (u : Bool) (r : List (Key × Nat)) (id : Nat) (ks : List Key) (e : Err)
    (h : relInsertArray u r id ks = .error e) : e = .exists ∧ u = true ∧ ∃ k ∈ ks, conflict r id k = true := by
  unfold relInsertArray at h
  split at h
  · rename_i hc
    simp only [Bool.and_eq_true, List.any_eq_true] at hc
    cases h
    exact ⟨rfl, hc.1, hc.2⟩
  · cases h

theorem btInsert_ok (u : Bool) (r r' : List (Key × Nat)) (id : Nat) (v : IVal)
    (h : btInsert u r id v = .ok r') :
    (∀ p, p ∈ r' ↔ p ∈ r ∨ (p.2 = id ∧ p.1 ∈ v.keys)) ∧ (u = true → ∀ k ∈ v.keys, conflict r id k = false) := by
  cases v with
  | null =>
    simp only [btInsert, Except.ok.injEq] at h
    subst h
    simp [IVal.keys]
  | one k =>
    simp only [btInsert] at h
    have := relInsert_ok u r r' id k h
    refine ⟨fun p => ?_, fun hu k' hk' => ?_⟩
    · rw [this.1 p]
      simp only [IVal.keys, List.mem_cons, List.not_mem_nil, or_false]
      constructor
      · rintro (h | h)
        · exact Or.inl h
        · subst h; exact Or.inr ⟨rfl, rfl⟩
      · rintro (h | ⟨h1, h2⟩)
        · exact Or.inl h
        · refine Or.inr ?_
          cases p; simp_all
    · simp only [IVal.keys, List.mem_cons, List.not_mem_nil, or_false] at hk'
      subst hk'
      exact this.2 hu
  | many ks =>
    simp only [btInsert] at h
    split at h
    · rename_i he
      simp only [Except.ok.injEq] at h
      subst h
      have : ks = [] := by simpa using he
      subst this
      simp [IVal.keys]
    · exact relInsertArray_ok u r r' id ks h

theorem btInsert_err (u : Bool) (r : List (Key × Nat)) (id : Nat) (v : IVal) (e : Err)
    (h : btInsert u r id v = .error e) : e = .exists ∧ u = true ∧ ∃ k ∈ v.keys, conflict r id k = true := by
  cases v with
  | null => simp [btInsert] at h
  | one k =>
    simp only [btInsert] at h
    have := relInsert_err u r id k e h
    exact ⟨this.1, this.2.1, k, by simp [IVal.keys], this.2.2⟩
  | many ks =>
    simp only [btInsert] at h
    split at h
    · cases h
    · exact relInsertArray_err u r id ks e h

theorem mem_btRemove (r : List (Key × Nat)) (id : Nat) (v : IVal) (p : Key × Nat) :
    p ∈ btRemove r id v ↔ p ∈ r ∧ ¬(p.2 = id ∧ p.1 ∈ v.keys) := by
  cases v with
  | null => simp [btRemove, IVal.keys]
  | one k => simp [btRemove, IVal.keys, mem_relRemove]
  | many ks => simp [btRemove, IVal.keys, mem_relRemoveArray]

/-- `one`/`many` never meet in one index: a field has one declared type -/
def Compat : IVal → IVal → Prop
  | .one _, .many _ => False
  | .many _, .one _ => False
  | _, _ => True

theorem mem_filter_not_contains (a b : List Key) (k : Key) :
    k ∈ a.filter (fun k => !b.contains k) ↔ k ∈ a ∧ k ∉ b := by
  simp [List.mem_filter]

theorem relBatchUpdate_ok (u : Bool) (r r' : List (Key × Nat)) (id : Nat) (o n : List Key)
    (h : relBatchUpdate u r id o n = .ok r') :
    (∀ p, p ∈ r' ↔ (p ∈ r ∨ (p.2 = id ∧ p.1 ∈ n ∧ p.1 ∉ o)) ∧ ¬(p.2 = id ∧ p.1 ∈ o ∧ p.1 ∉ n)) ∧
    (u = true → ∀ k ∈ n, k ∉ o → conflict r id k = false) := by
  unfold relBatchUpdate at h
  simp only at h
  split at h
  · cases h
  · rename_i r1 h1
    simp only [Except.ok.injEq] at h
    have hr1 : (∀ p, p ∈ r1 ↔ p ∈ r ∨ (p.2 = id ∧ p.1 ∈ n ∧ p.1 ∉ o)) ∧
        (u = true → ∀ k ∈ n, k ∉ o → conflict r id k = false) := by
      split at h1
      · rename_i he
        simp only [Except.ok.injEq] at h1
        subst h1
        have hemp : ∀ k, k ∈ n → k ∈ o := by
          intro k hk
          have hnil : n.filter (fun k => !o.contains k) = [] := List.isEmpty_iff.mp he
          have : k ∉ n.filter (fun k => !o.contains k) := by rw [hnil]; exact List.not_mem_nil
          rw [mem_filter_not_contains] at this
          exact Classical.byContradiction fun hno => this ⟨hk, hno⟩
        refine ⟨fun p => ⟨Or.inl, ?_⟩, fun _ k hk hko => absurd (hemp k hk) hko⟩
        rintro (h | ⟨_, h2, h3⟩)
        · exact h
        · exact absurd (hemp _ h2) h3
      · have := relInsertArray_ok u r r1 id _ h1
        refine ⟨fun p => ?_, fun hu k hk hko => this.2 hu k ((mem_filter_not_contains n o k).2 ⟨hk, hko⟩)⟩
        rw [this.1 p, mem_filter_not_contains]
    subst h
    refine ⟨fun p => ?_, hr1.2⟩
    split
    · rename_i he
      have hemp : ∀ k, k ∈ o → k ∈ n := by
        intro k hk
        have hnil : o.filter (fun k => !n.contains k) = [] := List.isEmpty_iff.mp he
        have : k ∉ o.filter (fun k => !n.contains k) := by rw [hnil]; exact List.not_mem_nil
        rw [mem_filter_not_contains] at this
        exact Classical.byContradiction fun hno => this ⟨hk, hno⟩
      rw [hr1.1 p]
      constructor
      · intro h
        exact ⟨h, fun ⟨_, h2, h3⟩ => h3 (hemp _ h2)⟩
      · exact fun h => h.1
    · rw [mem_relRemoveArray, hr1.1 p, mem_filter_not_contains]

theorem relBatchUpdate_err (u : Bool) (r : List (Key × Nat)) (id : Nat) (o n : List Key) (e : Err)
    (h : relBatchUpdate u r id o n = .error e) :
    e = .exists ∧ u = true ∧ ∃ k ∈ n, k ∉ o ∧ conflict r id k = true := by
  unfold relBatchUpdate at h
  simp only at h
  split at h
  · rename_i e' h1
    cases h
    split at h1
    · cases h1
    · have := relInsertArray_err u r id _ e h1
      obtain ⟨he, hu, k, hk, hc⟩ := this
      rw [mem_filter_not_contains] at hk
      exact ⟨he, hu, k, hk.1, hk.2, hc⟩
  · cases h

theorem btInsert_eq_update (u : Bool) (r : List (Key × Nat)) (id : Nat) (v : IVal) :
    btInsert u r id v = btUpdate u r id .null v := by
  unfold btUpdate
  split
  · rename_i h
    subst h
    rfl
  · cases v <;> simp_all

theorem btRemove_eq_update (u : Bool) (r : List (Key × Nat)) (id : Nat) (v : IVal) :
    Except.ok (btRemove r id v) = btUpdate u r id v .null := by
  unfold btUpdate
  split
  · rename_i h
    subst h
    rfl
  · cases v <;> simp_all

theorem btUpdate_to_null (u : Bool) (r : List (Key × Nat)) (id : Nat) (o : IVal) :
    btUpdate u r id o .null = .ok (btRemove r id o) := (btRemove_eq_update u r id o).symm

theorem btUpdate_many (u : Bool) (r : List (Key × Nat)) (id : Nat) (o n : List Key) (hne : o ≠ n) :
    btUpdate u r id (.many o) (.many n) = relBatchUpdate u r id o n := by
  unfold btUpdate
  have : (IVal.many o = IVal.many n) = False := by simp [hne]
  simp [this]

theorem btUpdate_one (u : Bool) (r : List (Key × Nat)) (id : Nat) (a b : Key) (hne : a ≠ b) :
    btUpdate u r id (.one a) (.one b) =
      match btInsert u r id (.one b) with
      | .error e => .error e
      | .ok r' => .ok (btRemove r' id (.one a)) := by
  unfold btUpdate
  rw [if_neg (by simpa using hne)]
  rfl

/-- The wrapper's `update(old, new)` on a relation that holds exactly `old`'s keys for `id`:
on success `id` holds exactly `new`'s keys and nobody else's postings moved; no newly taken key was
owned by another id (unique index). -/
theorem btUpdate_ok (u : Bool) (r r' : List (Key × Nat)) (id : Nat) (o n : IVal)
    (hold : ∀ k, (k, id) ∈ r ↔ k ∈ o.keys) (hc : Compat o n)
    (h : btUpdate u r id o n = .ok r') :
    (∀ k, (k, id) ∈ r' ↔ k ∈ n.keys) ∧ (∀ k i, i ≠ id → ((k, i) ∈ r' ↔ (k, i) ∈ r)) ∧
    (u = true → ∀ k ∈ n.keys, k ∉ o.keys → conflict r id k = false) := by
  by_cases heq : o = n
  · subst heq
    have : btUpdate u r id o o = .ok r := by simp [btUpdate]
    rw [this] at h
    simp only [Except.ok.injEq] at h
    subst h
    exact ⟨hold, fun _ _ _ => Iff.rfl, fun _ k hk hko => absurd hk hko⟩
  · have to_null : ∀ o', o = o' → n = .null → btUpdate u r id o' .null = .ok r' →
        (∀ k, (k, id) ∈ r' ↔ k ∈ IVal.null.keys) ∧ (∀ k i, i ≠ id → ((k, i) ∈ r' ↔ (k, i) ∈ r)) ∧
        (u = true → ∀ k ∈ IVal.null.keys, k ∉ o'.keys → conflict r id k = false) := by
      intro o' ho _ h2
      subst ho
      rw [btUpdate_to_null] at h2
      simp only [Except.ok.injEq] at h2
      subst h2
      refine ⟨fun k => ?_, fun k i hi => ?_, fun _ k hk _ => by simp [IVal.keys] at hk⟩
      · rw [mem_btRemove]
        simp only [IVal.keys, List.not_mem_nil, iff_false, not_and, Classical.not_not, true_and]
        intro hm
        exact (hold k).1 hm
      · rw [mem_btRemove]
        simp [hi]
    cases o with
    | null =>
      rw [← btInsert_eq_update] at h
      have := btInsert_ok u r r' id _ h
      refine ⟨fun k => ?_, fun k i hi => ?_, fun hu k hk _ => this.2 hu k hk⟩
      · rw [this.1 (k, id)]
        have : (k, id) ∉ r := by rw [hold k]; simp [IVal.keys]
        simp [this]
      · rw [this.1 (k, i)]
        simp [hi]
    | one a =>
      cases n with
      | null => exact to_null _ rfl rfl h
      | many _ => exact absurd hc (by simp [Compat])
      | one b =>
        have hab : a ≠ b := fun h => heq (by rw [h])
        rw [btUpdate_one u r id a b hab] at h
        split at h
        · cases h
        · rename_i r1 h1
          simp only [Except.ok.injEq] at h
          subst h
          have hi := btInsert_ok u r r1 id _ h1
          simp only [IVal.keys, List.mem_cons, List.not_mem_nil, or_false] at hold hi ⊢
          refine ⟨fun k => ?_, fun k i hii => ?_, fun hu k hk _ => hi.2 hu k hk⟩
          · rw [mem_btRemove, hi.1 (k, id), hold k]
            simp only [IVal.keys, List.mem_cons, List.not_mem_nil, or_false, true_and]
            constructor
            · rintro ⟨h1 | h1, h2⟩
              · exact absurd h1 h2
              · exact h1
            · intro hk
              subst hk
              exact ⟨Or.inr rfl, fun h => hab h.symm⟩
          · rw [mem_btRemove, hi.1 (k, i)]
            simp [hii]
    | many ol =>
      cases n with
      | null => exact to_null _ rfl rfl h
      | one _ => exact absurd hc (by simp [Compat])
      | many nl =>
        have hne : ol ≠ nl := fun h => heq (by rw [h])
        rw [btUpdate_many u r id ol nl hne] at h
        have := relBatchUpdate_ok u r r' id ol nl h
        simp only [IVal.keys] at hold ⊢
        refine ⟨fun k => ?_, fun k i hi => ?_, this.2⟩
        · rw [this.1 (k, id), hold k]
          simp only [true_and]
          constructor
          · rintro ⟨h1 | ⟨h1, _⟩, h2⟩
            · exact Classical.byContradiction fun hn => h2 ⟨h1, hn⟩
            · exact h1
          · intro hk
            refine ⟨?_, fun ⟨_, h⟩ => h hk⟩
            by_cases ho : k ∈ ol
            · exact Or.inl ho
            · exact Or.inr ⟨hk, ho⟩
        · rw [this.1 (k, i)]
          simp [hi]

theorem btUpdate_err (u : Bool) (r : List (Key × Nat)) (id : Nat) (o n : IVal) (e : Err) (hc : Compat o n)
    (h : btUpdate u r id o n = .error e) :
    e = .exists ∧ u = true ∧ ∃ k ∈ n.keys, conflict r id k = true := by
  by_cases heq : o = n
  · subst heq
    simp [btUpdate] at h
  · cases o with
    | null =>
      rw [← btInsert_eq_update] at h
      exact btInsert_err u r id _ e h
    | one a =>
      cases n with
      | null => rw [btUpdate_to_null] at h; cases h
      | many _ => exact absurd hc (by simp [Compat])
      | one b =>
        have hab : a ≠ b := fun h => heq (by rw [h])
        rw [btUpdate_one u r id a b hab] at h
        split at h
        · rename_i e' h1
          cases h
          exact btInsert_err u r id _ e h1
        · cases h
    | many ol =>
      cases n with
      | null => rw [btUpdate_to_null] at h; cases h
      | one _ => exact absurd hc (by simp [Compat])
      | many nl =>
        have hne : ol ≠ nl := fun h => heq (by rw [h])
        rw [btUpdate_many u r id ol nl hne] at h
        obtain ⟨he, hu, k, hk, _, hcf⟩ := relBatchUpdate_err u r id ol nl e h
        exact ⟨he, hu, k, hk, hcf⟩

end AndaVerif.Collection
