/-
C09: `get_ranges` on an arbitrary payload, relative to `ChunkSound`.
-/
import AndaVerif.Proofs.EncTamper

namespace AndaVerif.Enc

theorem openSpan_ok {A : AEAD} {m : Meta} {c : Nat} {P : Bytes} (hs : ChunkSound A m c P) :
    ∀ (chs : List Bytes) (k : Nat) (plain : Bytes), openSpan A m c k chs = .ok plain →
      plain = slice P (k * c) (k * c + chs.length * c)
  | [], k, plain, h => by
    simp only [openSpan] at h
    injection h with h
    simp [← h, slice_self]
  | ch :: rest, k, plain, h => by
    simp only [openSpan] at h
    cases ho : openChunk A m c k ch with
    | error e => simp [ho] at h
    | ok p =>
      simp only [ho] at h
      cases hr : openSpan A m c (k + 1) rest with
      | error e => simp [hr] at h
      | ok ps =>
        simp only [hr] at h
        injection h with h
        obtain ⟨_, hp⟩ := hs _ _ _ ho
        have ih := openSpan_ok hs rest (k + 1) ps hr
        have e1 : (k + 1) * c = k * c + c := by rw [Nat.add_mul]; simp
        have e2 : k * c + (rest.length + 1) * c = k * c + c + rest.length * c := by
          rw [Nat.add_mul]; simp; omega
        rw [← h, hp, ih, e1, List.length_cons, e2]
        exact slice_append P (by omega) (by omega)

theorem chunksAux_length (c : Nat) (hc : 1 ≤ c) : ∀ (fuel : Nat) (d : Bytes), d.length ≤ fuel →
    d.length ≤ (chunksAux c fuel d).length * c ∧ (chunksAux c fuel d).length * c < d.length + c
  | 0, d, h => by
    have : d = [] := List.eq_nil_of_length_eq_zero (by omega)
    subst this; simp [chunksAux]; omega
  | fuel + 1, [], _ => by simp [chunksAux]; omega
  | fuel + 1, b :: d, hl => by
    have hdl : ((b :: d).drop c).length ≤ fuel := by
      simp only [List.length_drop, List.length_cons] at *; omega
    obtain ⟨h1, h2⟩ := chunksAux_length c hc fuel ((b :: d).drop c) hdl
    have hnil : ∀ f, (chunksAux c f []).length = 0 := by intro f; cases f <;> simp [chunksAux]
    simp only [chunksAux, List.length_cons]
    rw [Nat.add_mul]
    by_cases hz : (b :: d).drop c = []
    · rw [hz, hnil]
      have : (b :: d).length ≤ c := by
        have := congrArg List.length hz
        simp only [List.length_drop, List.length_nil] at this; omega
      simp only [List.length_cons] at this ⊢
      omega
    · have hpos : 0 < ((b :: d).drop c).length := List.length_pos_iff.mpr hz
      simp only [List.length_drop, List.length_cons] at h1 h2 hpos ⊢
      omega

/-- Invariant of the span cache. -/
def CacheOk (P : Bytes) (cache : SpanCache) : Prop := cache.data = slice P cache.cs cache.ce

theorem getRangesLoop_ok {A : AEAD} {m : Meta} {c : Nat} {P : Bytes} (hc : 1 ≤ c)
    (hs : ChunkSound A m c P) (hsize : m.size = P.length) (hsz : P.length < U64) (payload : Bytes) :
    ∀ (ranges : List (Nat × Nat)) (cache : SpanCache) (fetched : List (Nat × Nat))
      (outs : List Bytes) (f : List (Nat × Nat)),
      validateRanges P.length ranges = true → CacheOk P cache →
      getRangesLoop A m c payload ranges cache fetched = .ok (outs, f) →
      outs = ranges.map (fun r => slice P r.1 r.2)
  | [], cache, fetched, outs, f, _, _, h => by
    simp only [getRangesLoop] at h
    injection h with h
    simp only [Prod.mk.injEq] at h
    simp [← h.1]
  | (s, e) :: rest, cache, fetched, outs, f, hv, hcache, h => by
    simp only [validateRanges, Bool.and_eq_true, Bool.not_eq_true', decide_eq_false_iff_not] at hv
    obtain ⟨⟨⟨v1, v2⟩, v3⟩, v4⟩ := hv
    have hse : s < e := by omega
    have hel : e ≤ P.length := by omega
    -- the step shared by both branches
    have step : ∀ (cache' : SpanCache) (fetched' : List (Nat × Nat)), CacheOk P cache' →
        cache'.cs ≤ s → e ≤ cache'.ce →
        (match getRangesLoop A m c payload rest cache' fetched' with
          | .error err => (.error err : Except RErr (List Bytes × List (Nat × Nat)))
          | .ok (outs, f) => .ok (slice cache'.data (s - cache'.cs) (e - cache'.cs) :: outs, f)) = .ok (outs, f) →
        outs = ((s, e) :: rest).map (fun r => slice P r.1 r.2) := by
      intro cache' fetched' hc' h1 h2 hm
      cases hr : getRangesLoop A m c payload rest cache' fetched' with
      | error err => simp [hr] at hm
      | ok of' =>
        obtain ⟨outs', f'⟩ := of'
        simp only [hr] at hm
        injection hm with hm
        simp only [Prod.mk.injEq] at hm
        have ih := getRangesLoop_ok hc hs hsize hsz payload rest cache' fetched' outs' f' v4 hc' hr
        rw [← hm.1, ih, List.map_cons]
        congr 1
        rw [hc']
        unfold slice
        rw [List.drop_take, List.drop_drop, List.take_take]
        have : cache'.cs + (s - cache'.cs) = s := by omega
        rw [this]
        congr 1
        omega
    simp only [getRangesLoop] at h
    by_cases hfetch : s < cache.cs ∨ e > cache.ce
    · simp only [hfetch, if_true] at h
      rw [hsize, spanOf_eq hc hsz] at h
      simp only at h
      have cov := cover_of (size := P.length) hc hse hel
      cases hb : backendRange payload (s / c * c) (min (((e - 1) / c + 1) * c) P.length) with
      | error err => simp [hb] at h
      | ok data =>
        simp only [hb] at h
        split at h
        · cases h
        · rename_i hlen
          cases ho : openSpan A m c (s / c) (chunks c data) with
          | error err => simp [ho] at h
          | ok plain =>
            simp only [ho] at h
            have hplain := openSpan_ok hs _ _ _ ho
            obtain ⟨l1, l2⟩ := chunksAux_length c hc data.length data (Nat.le_refl _)
            have hdl : data.length = min (((e - 1) / c + 1) * c) P.length - s / c * c := by
              simpa using hlen
            -- the decrypted span is exactly the cover
            have hspan : plain = slice P (s / c * c) (min (((e - 1) / c + 1) * c) P.length) := by
              rw [hplain]
              change slice P (s / c * c) (s / c * c + (chunks c data).length * c) = _
              have hbl := cov.below
              have hab := cov.above
              rcases cov.endAligned with hal | hend
              · -- aligned end: the number of chunks is exact
                have hd : c ∣ data.length := by
                  rw [hdl]
                  exact (Nat.dvd_sub (Nat.dvd_of_mod_eq_zero hal) (Nat.dvd_of_mod_eq_zero cov.aligned))
                obtain ⟨q, hq⟩ := hd
                have hq' : data.length = q * c := by rw [hq, Nat.mul_comm]
                unfold chunks
                generalize (chunksAux c data.length data).length = n at l1 l2 ⊢
                have a1 : q * c ≤ n * c := by omega
                have a2 : n * c < (q + 1) * c := by rw [Nat.add_mul]; omega
                have hn : n = q := by
                  have := Nat.le_of_mul_le_mul_right a1 (by omega)
                  have := Nat.lt_of_mul_lt_mul_right a2
                  omega
                rw [hn]
                congr 1
                omega
              · rw [slice_clip P _ (s / c * c + (chunks c data).length * c), slice_clip P _ (min _ _)]
                congr 1
                unfold chunks
                rw [hend] at hdl ⊢
                omega
            exact step ⟨s / c * c, min (((e - 1) / c + 1) * c) P.length, plain⟩ _ hspan cov.below cov.above h
    · simp only [hfetch, if_false] at h
      exact step cache fetched hcache (by omega) (by omega) h

theorem getRangesWith_ok {A : AEAD} {H : List SealRec} {commits : List Commit}
    (hI : Ideal A H) (hN : NonceRespecting H) (hH : Honest H commits)
    (strict : Bool) (storeChunk : Nat) (B : Backend)
    (x : Bytes) (ranges : List (Nat × Nat)) (doc : Except RErr Meta)
    (hfit : ∀ m, doc = .ok m → m.fits x = true)
    (hmode : strict = true ∨ ∀ m, doc = .ok m → ¬ legacyShaped m)
    {outs : List Bytes} {f : List (Nat × Nat)}
    (h : getRangesWith A strict storeChunk B x ranges doc = .ok (outs, f)) :
    (ranges = [] ∧ outs = []) ∨
    ∃ k ∈ commits, k.loc = x ∧ outs = ranges.map (fun r => slice k.plain r.1 r.2) := by
  unfold getRangesWith at h
  by_cases he : ranges.isEmpty = true
  · simp only [he, if_true] at h
    injection h with h
    simp only [Prod.mk.injEq] at h
    exact Or.inl ⟨List.isEmpty_iff.mp he, h.1.symm⟩
  · simp only [he, Bool.false_eq_true, if_false] at h
    right
    cases hm : doc with
    | error e => simp [hm] at h
    | ok m =>
      simp only [hm] at h
      cases hv : verifyMetadata A strict x m with
      | error e => simp [hv] at h
      | ok a =>
        simp only [hv] at h
        have hmode' : strict = true ∨ ¬ legacyShaped m := hmode.imp id (fun h => h m hm)
        obtain ⟨_, n, t, p, _, _, hd⟩ := verify_authenticated hv hmode'
        obtain ⟨k, hk, hloc, hun⟩ := authenticated_is_commit hI hH (hfit m hm) hd
        obtain ⟨hrc, hcs⟩ := chunkSound_of_commit hI hN hH hk hun storeChunk
        have hsize : m.size = k.plain.length := by
          rw [(unsealed_fields hun).1, hH.size k hk]
        have hc1 := (hH.chunk k hk).2.1
        have hsz : k.plain.length < U64 := by
          have := hH.fits k hk
          simp only [Meta.fits, Bool.and_eq_true, decide_eq_true_eq] at this
          rw [← hH.size k hk]; exact this.1.1.1.1.1.1.1.1.1.2
        split at h
        · cases h
        · rename_i hval
          cases hp : B.payload x m.generation with
          | none => simp [hp] at h
          | some payload =>
            simp only [hp] at h
            rw [hrc] at h
            rw [hsize] at hval
            simp only [Bool.not_eq_true, Bool.not_eq_false'] at hval
            exact ⟨k, hk, hloc, getRangesLoop_ok hc1 hcs hsize hsz payload ranges ⟨0, 0, []⟩ [] outs f
              (by simpa using hval) (by simp [CacheOk, slice_self]) h⟩

theorem getRanges_ok {A : AEAD} {H : List SealRec} {commits : List Commit}
    (hI : Ideal A H) (hN : NonceRespecting H) (hH : Honest H commits)
    (strict : Bool) (storeChunk : Nat) (B : Backend)
    (hB : ∀ loc m, B.metaDoc loc = .ok m → m.fits loc = true)
    (x : Bytes) (ranges : List (Nat × Nat))
    (hmode : strict = true ∨ ∀ m, B.metaDoc x = .ok m → ¬ legacyShaped m)
    {outs : List Bytes} {f : List (Nat × Nat)}
    (h : getRanges A strict storeChunk B x ranges = .ok (outs, f)) :
    (ranges = [] ∧ outs = []) ∨
    ∃ k ∈ commits, k.loc = x ∧ outs = ranges.map (fun r => slice k.plain r.1 r.2) :=
  getRangesWith_ok hI hN hH strict storeChunk B x ranges (B.metaDoc x) (hB x) hmode h

theorem getRangesWarm_ok {A : AEAD} {H : List SealRec} {commits : List Commit}
    (hI : Ideal A H) (hN : NonceRespecting H) (hH : Honest H commits)
    (strict : Bool) (storeChunk : Nat) (B : Backend)
    (hB : ∀ loc m, B.metaDoc loc = .ok m → m.fits loc = true)
    (x : Bytes) (ranges : List (Nat × Nat))
    (cached : Option Meta) (hcfit : ∀ m, cached = some m → m.fits x = true)
    (hmode : strict = true ∨
      ((∀ m, B.metaDoc x = .ok m → ¬ legacyShaped m) ∧ ∀ m, cached = some m → ¬ legacyShaped m))
    {outs : List Bytes} {f : List (Nat × Nat)}
    (h : getRangesWarm A strict storeChunk B x ranges cached = .ok (outs, f)) :
    (ranges = [] ∧ outs = []) ∨
    ∃ k ∈ commits, k.loc = x ∧ outs = ranges.map (fun r => slice k.plain r.1 r.2) := by
  have hcold := fun h => getRanges_ok hI hN hH strict storeChunk B hB x ranges (hmode.imp id (·.1))
    (outs := outs) (f := f) h
  unfold getRangesWarm at h
  cases cached with
  | none => exact hcold h
  | some m0 =>
    simp only at h
    have hwith := fun h => getRangesWith_ok hI hN hH strict storeChunk B x ranges (.ok m0)
      (fun m hm => by injection hm with hm; exact hcfit m (by rw [hm]))
      (hmode.imp id (fun h' m hm => by injection hm with hm; exact h'.2 m (by rw [hm])))
      (outs := outs) (f := f) h
    split at h
    · exact hcold h
    · rename_i r hne
      exact hwith h

theorem headObjectWarm_ok {A : AEAD} {H : List SealRec} {commits : List Commit}
    (hI : Ideal A H) (hH : Honest H commits) (strict : Bool) (B : Backend)
    (hB : ∀ loc m, B.metaDoc loc = .ok m → m.fits loc = true) (x : Bytes)
    (cached : Option Meta) (hcfit : ∀ m, cached = some m → m.fits x = true)
    (hmode : strict = true ∨
      ((∀ m, B.metaDoc x = .ok m → ¬ legacyShaped m) ∧ ∀ m, cached = some m → ¬ legacyShaped m))
    {size : Nat} {etag : Option Bytes} {ts : Option Nat}
    (h : headObjectWarm A strict B x cached = .ok (size, etag, ts)) :
    ∃ k ∈ commits, k.loc = x ∧ size = k.plain.length ∧ etag = k.doc.eTag ∧ ts = k.doc.committedAtMs := by
  have hcold := fun h => headObject_ok hI hH strict B hB x (hmode.imp id (·.1)) (size := size) (etag := etag) (ts := ts) h
  unfold headObjectWarm at h
  cases cached with
  | none => exact hcold h
  | some m0 =>
    simp only at h
    split at h
    · exact hcold h
    · -- the cached document answered: it is a backend whose document for `x` is `m0`
      rename_i r hne
      let B' : Backend := { metaDoc := fun l => if l = x then .ok m0 else B.metaDoc l, payload := B.payload }
      have hB' : ∀ loc m, B'.metaDoc loc = .ok m → m.fits loc = true := by
        intro loc m hm
        simp only [B'] at hm
        split at hm
        · rename_i hl; injection hm with hm; rw [hl]; exact hcfit m (by rw [hm])
        · exact hB loc m hm
      have hm' : strict = true ∨ ∀ m, B'.metaDoc x = .ok m → ¬ legacyShaped m :=
        hmode.imp id (fun h' m hm => by
          simp only [B', if_true] at hm; injection hm with hm; exact h'.2 m (by rw [hm]))
      have e : headObject A strict B' x = headWith A strict B x (.ok m0) := by
        simp [headObject, headWith, B']
      exact headObject_ok hI hH strict B' hB' x hm' (e ▸ h)

end AndaVerif.Enc
