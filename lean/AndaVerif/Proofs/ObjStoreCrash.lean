import AndaVerif.Proofs.ObjStoreWrapper
/-
Crash atomicity: every cut of every call's step list.
-/
namespace AndaVerif.ObjStore
open Gen.SidecarOrder

/-- Every cut of `steps` run from `be` keeps the backend invariant (bound `m`) and every key reads
its before- or its after-value, whole. -/
def CutsOK (now : Nat) (be : Backend) (steps : List Step) (m : Nat) : Prop :=
  ∀ n, BInv (applyPrefix now be steps n) m ∧
    ∀ x, readCold (applyPrefix now be steps n) x = readCold be x ∨
         readCold (applyPrefix now be steps n) x = readCold (applySteps now be steps) x

theorem cutsOK_nil {now : Nat} {be : Backend} {m : Nat} (h : BInv be m) : CutsOK now be [] m := by
  intro n
  rw [applyPrefix_nil]
  exact ⟨h, fun x => Or.inl rfl⟩

/-- a run whose cold reads follow "key `k` switches to `v` at step `m0`, nothing else changes" -/
theorem cutsOK_of_formula {now : Nat} {be : Backend} {steps : List Step} {m : Nat} (k : Path) (v : Option REnt)
    (m0 : Nat) (hm0 : m0 ≤ steps.length)
    (h : ∀ n, BInv (applyPrefix now be steps n) m ∧
      ∀ x, readCold (applyPrefix now be steps n) x = if x = k ∧ m0 ≤ n then v else readCold be x) :
    CutsOK now be steps m := by
  intro n
  refine ⟨(h n).1, fun x => ?_⟩
  rw [applySteps_eq_prefix, (h n).2 x, (h steps.length).2 x]
  by_cases hx : x = k ∧ m0 ≤ n
  · right; simp [hx, hm0]
  · left; simp [hx]

theorem cutsOK_write {w : W} (hw : WInv w) (order : List CommitPhase) (ho : order = [.payload, .pointer, .reclaim]) (seeded : Bool)
    (now : Nat) (k : Path) (mode : PutMode) (data : Bytes) :
    CutsOK now w.be (planWrite w order seeded now k mode data).steps (w.nextId + 1) := by
  rcases planWrite_steps w order seeded now k mode data with ⟨h0, _⟩ | ⟨d, hg, hs, _, _, hsteps, _, _⟩
  · rw [h0]; exact cutsOK_nil (hw.be.mono (Nat.le_succ _))
  · rw [hsteps, ho, commitSteps_std, curOf_doc]
    apply cutsOK_of_formula k (some (committed d data now)) 2 (by simp)
    intro n
    exact write_prefix hw.be now k ⟨now, w.nextId⟩ rfl data d hg hs n

/-- the commit point a copy publishes -/
def copyDoc (now nid : Nat) (src : Doc) : Doc :=
  { size := src.size, etag := some (mkCopyTok ⟨now, nid⟩ src.etag), gen := some ⟨now, nid⟩, time := some now }

/-- shape of the commit plan of a copy, given the resolved source -/
theorem planCopyCommit_steps (w : W) (cache : List (Path × Doc)) (now : Nat) (src : Doc) (srcPath : BPath) (dst : Path)
    (create : Bool) :
    ((planCopyCommit w cache now src srcPath dst create).steps = [.copyBlob srcPath (.gen dst ⟨now, w.nextId⟩)] ∧
      (planCopyCommit w cache now src srcPath dst create).out = .err .exists ∧
      (planCopyCommit w cache now src srcPath dst create).cache = cache ∧
      create = true ∧ ∃ c, curOf w.be dst = .present c) ∨
    ((planCopyCommit w cache now src srcPath dst create).steps =
        commitSteps (copyOrder w.flavor) [.copyBlob srcPath (.gen dst ⟨now, w.nextId⟩)] (.putDoc dst (copyDoc now w.nextId src))
          (reclaimOf ((curOf w.be dst).doc?.map (fun c => payloadPath dst c.gen)) dst (copyDoc now w.nextId src)) ∧
      (planCopyCommit w cache now src srcPath dst create).out = .unit ∧
      (planCopyCommit w cache now src srcPath dst create).cache = aset cache dst (copyDoc now w.nextId src) ∧
      (create = true → ∀ c, curOf w.be dst ≠ .present c)) := by
  cases hcur : curOf w.be dst with
  | present c =>
      cases create with
      | true => left; simp [planCopyCommit, hcur]
      | false => right; simp [planCopyCommit, hcur, copyDoc]
  | absent => right; simp [planCopyCommit, hcur, copyDoc]
  | corrupt => right; simp [planCopyCommit, hcur, copyDoc]

theorem cutsOK_copyCommit {w : W} (hw : WInv w) (cache : List (Path × Doc)) (now : Nat) (srck : Path) (src : Doc)
    (hsrc : docAt w.be srck = some src) (dst : Path) (create : Bool) :
    CutsOK now w.be (planCopyCommit w cache now src (payloadPath srck src.gen) dst create).steps (w.nextId + 1) := by
  obtain ⟨b, bt, hb, hsz⟩ := hw.be.ptr srck src hsrc
  rcases planCopyCommit_steps w cache now src (payloadPath srck src.gen) dst create with
    ⟨h0, _⟩ | ⟨hsteps, _, _, _⟩
  · rw [h0]
    intro n
    have := copy_garbage_prefix hw.be now dst ⟨now, w.nextId⟩ rfl _ b bt hb n
    refine ⟨this.1, fun x => Or.inl (this.2 x)⟩
  · rw [hsteps, gen_copy_order, commitSteps_std, curOf_doc]
    apply cutsOK_of_formula dst (some (committed (copyDoc now w.nextId src) b now)) 2 (by simp)
    intro n
    exact copy_prefix hw.be now dst ⟨now, w.nextId⟩ rfl _ b bt hb (copyDoc now w.nextId src) rfl (by simp [copyDoc, hsz]) n

theorem planDelete_steps (w : W) (cache : List (Path × Doc)) {be : Backend} {m : Nat} (h : BInv be m) (k : Path) :
    (planDelete w cache be k).steps = deleteSteps k (docAt be k) := by
  unfold planDelete
  simp only []
  rw [curOf_of_inv h]
  cases hd : docAt be k with
  | none => rfl
  | some d =>
      simp only [gen_delete_order, Cur.doc?]
      rfl

theorem cutsOK_delete (w : W) (cache : List (Path × Doc)) {be : Backend} {m : Nat} (h : BInv be m) (now : Nat) (k : Path) :
    CutsOK now be (planDelete w cache be k).steps m := by
  rw [planDelete_steps w cache h]
  cases hd : docAt be k with
  | none => exact cutsOK_nil h
  | some d =>
      simp only [deleteSteps]
      apply cutsOK_of_formula k none 1 (by simp)
      intro n
      have := delete_prefix h now k n
      simp only [hd] at this
      exact this

end AndaVerif.ObjStore

namespace AndaVerif.ObjStore
open Gen.SidecarOrder

theorem CutsOK.mono {now : Nat} {be : Backend} {steps : List Step} {m m' : Nat} (h : CutsOK now be steps m)
    (hm : m ≤ m') : CutsOK now be steps m' :=
  fun n => ⟨(h n).1.mono hm, (h n).2⟩

theorem docAt_of_readCold {be : Backend} {x : Path} {e : REnt} (h : readCold be x = some e) :
    ∃ d, docAt be x = some d := by
  unfold readCold at h
  unfold docAt
  cases hk : aget be (.mt x) with
  | none => simp [hk] at h
  | some ent =>
      obtain ⟨o, t⟩ := ent
      cases o with
      | doc d => exact ⟨d, rfl⟩
      | blob b => simp [hk] at h
      | junk => simp [hk] at h

theorem readCold_of_docAt {be : Backend} {n : Nat} (h : BInv be n) {x : Path} {d : Doc} (hd : docAt be x = some d) :
    ∃ b bt, aget be (payloadPath x d.gen) = some ⟨.blob b, bt⟩ ∧ d.size = b.length ∧
      readCold be x = some (committed d b bt) := by
  obtain ⟨b, bt, hb, hs⟩ := h.ptr x d hd
  obtain ⟨t, ht⟩ := docAt_eq_some hd
  exact ⟨b, bt, hb, hs, by rw [readCold_of_doc ht hb]; rfl⟩

theorem readCold_none_of_docAt_none {be : Backend} {x : Path} (hd : docAt be x = none) : readCold be x = none := by
  cases h : readCold be x with
  | none => rfl
  | some e =>
      obtain ⟨d, hd'⟩ := docAt_of_readCold h
      rw [hd] at hd'; cases hd'

/-- **rename** = copy commit to `dst`, then delete of `src` (`src ≠ dst`): every cut. -/
theorem cutsOK_rename {w : W} (hw : WInv w) (cache : List (Path × Doc)) (now : Nat) (srck : Path) (src : Doc)
    (hsrc : docAt w.be srck = some src) (dst : Path) (hne : srck ≠ dst) (create : Bool)
    (hok : (planCopyCommit w cache now src (payloadPath srck src.gen) dst create).out = .unit) (cache2 : List (Path × Doc)) :
    let a := (planCopyCommit w cache now src (payloadPath srck src.gen) dst create).steps
    CutsOK now w.be (a ++ (planDelete w cache2 (applySteps now w.be a) srck).steps) (w.nextId + 1) := by
  intro a
  obtain ⟨b, bt, hb, hsz⟩ := hw.be.ptr srck src hsrc
  rcases planCopyCommit_steps w cache now src (payloadPath srck src.gen) dst create with
    ⟨_, h1, _⟩ | ⟨hsteps, _, _, _⟩
  · rw [hok] at h1; cases h1
  · -- the copy phase
    have hA : ∀ n, BInv (applyPrefix now w.be a n) (w.nextId + 1) ∧
        ∀ x, readCold (applyPrefix now w.be a n) x =
          if x = dst ∧ 2 ≤ n then some (committed (copyDoc now w.nextId src) b now) else readCold w.be x := by
      intro n
      have := copy_prefix hw.be now dst ⟨now, w.nextId⟩ rfl _ b bt hb (copyDoc now w.nextId src) rfl
        (by simp [copyDoc, hsz]) n
      simp only [a, hsteps, gen_copy_order, commitSteps_std, curOf_doc]
      exact this
    have hlenA : 2 ≤ a.length := by
      simp only [a, hsteps, gen_copy_order, commitSteps_std]; simp
    -- the state between the two phases
    have hbe2 : BInv (applySteps now w.be a) (w.nextId + 1) := by
      rw [applySteps_eq_prefix]; exact (hA a.length).1
    have r2 : ∀ x, readCold (applySteps now w.be a) x =
        if x = dst then some (committed (copyDoc now w.nextId src) b now) else readCold w.be x := by
      intro x
      rw [applySteps_eq_prefix, (hA a.length).2 x]
      by_cases hx : x = dst <;> simp [hx, hlenA]
    obtain ⟨bs, bts, _, _, hrs⟩ := readCold_of_docAt hw.be hsrc
    have hsrc2 : ∃ d2, docAt (applySteps now w.be a) srck = some d2 := by
      apply docAt_of_readCold (e := committed src bs bts)
      rw [r2 srck]; simp [hne, hrs]
    obtain ⟨d2, hd2⟩ := hsrc2
    have hB := fun n => delete_prefix hbe2 now srck n
    simp only [hd2] at hB
    rw [planDelete_steps w cache2 hbe2, hd2]
    simp only [deleteSteps]
    intro n
    rw [applyPrefix_append]
    have hfinal : ∀ x, readCold (applySteps now w.be (a ++ [Step.del (.mt srck), Step.del (payloadPath srck d2.gen)])) x =
        if x = srck then none else if x = dst then some (committed (copyDoc now w.nextId src) b now) else readCold w.be x := by
      intro x
      rw [applySteps_append, applySteps_eq_prefix now (applySteps now w.be a), (hB _).2 x, r2 x]
      by_cases hx : x = srck <;> simp [hx]
    by_cases hn : n ≤ a.length
    · simp only [hn, if_true]
      refine ⟨(hA n).1, fun x => ?_⟩
      rw [(hA n).2 x, hfinal x]
      by_cases hx : x = dst ∧ 2 ≤ n
      · right
        have hds : ¬ dst = srck := fun h => hne h.symm
        obtain ⟨hx1, hx2⟩ := hx
        subst hx1
        simp [hx2, hds]
      · left; simp [hx]
    · simp only [hn, if_false]
      refine ⟨(hB _).1, fun x => ?_⟩
      rw [(hB _).2 x, hfinal x, r2 x]
      by_cases hx : x = srck
      · right
        have : 1 ≤ n - a.length := by omega
        simp [hx, this]
      · by_cases hx2 : x = dst
        · right
          have hds : ¬ dst = srck := fun h => hne h.symm
          subst hx2
          simp [hds]
        · left; simp [hx, hx2]

/-- Every cut of the step list of every call. -/
theorem cutsOK_stepsOf {w : W} (hw : WInv w) (now : Nat) (c : Call) :
    CutsOK now w.be (stepsOf w now c) (w.nextId + 1) := by
  have hnil : CutsOK now w.be [] (w.nextId + 1) := cutsOK_nil (hw.be.mono (Nat.le_succ _))
  cases c with
  | put k mode data => exact cutsOK_write hw _ (gen_put_order _) _ now k mode data
  | mput k parts => exact cutsOK_write hw _ (gen_complete_order _) _ now k .overwrite _
  | get k o => exact hnil
  | getRanges k rs => exact hnil
  | delete k => exact (cutsOK_delete w w.cache hw.be now k).mono (Nat.le_succ _)
  | copy src dst create =>
      simp only [stepsOf, copySteps]
      obtain ⟨w1, hr, hw1, hbe, hn, hf⟩ := resolveSource_spec hw src
      rw [hr]
      cases hd : docAt w.be src with
      | none => exact hnil
      | some d =>
          simp only []
          have := cutsOK_copyCommit hw1 w1.cache now src d (by rw [hbe]; exact hd) dst create
          rw [hbe, hn] at this
          exact this
  | rename src dst create =>
      simp only [stepsOf, rename_guard, rename_order_std, if_true]
      by_cases hsd : src = dst
      · simp only [hsd, if_true]; exact hnil
      · simp only [hsd, if_false]
        obtain ⟨w1, hr, hw1, hbe, hn, hf⟩ := resolveSource_spec hw src
        rw [hr]
        cases hd : docAt w.be src with
        | none => exact hnil
        | some d =>
            simp only []
            have hd1 : docAt w1.be src = some d := by rw [hbe]; exact hd
            cases hout : (planCopyCommit w1 w1.cache now d (payloadPath src d.gen) dst create).out with
            | err e =>
                have := cutsOK_copyCommit hw1 w1.cache now src d hd1 dst create
                rw [hbe, hn] at this
                exact this
            | unit =>
                have := cutsOK_rename hw1 w1.cache now src d hd1 dst hsd create hout
                  (planCopyCommit w1 w1.cache now d (payloadPath src d.gen) dst create).cache
                rw [hbe, hn] at this
                simp only [hbe] at this ⊢
                exact this
            | _ =>
                rcases planCopyCommit_steps w1 w1.cache now d (payloadPath src d.gen) dst create with
                  ⟨_, h1, _⟩ | ⟨_, h1, _⟩ <;> rw [hout] at h1 <;> cases h1
  | list pre off => exact hnil
  | listDelim pre => exact hnil

end AndaVerif.ObjStore
