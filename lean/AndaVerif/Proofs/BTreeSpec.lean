import AndaVerif.Proofs.BTreeApi
/-
Every mutating API call is a sequence of the two ordered-multimap calls `OMap.ins` / `OMap.del`.
-/
namespace AndaVerif
namespace BTree
open OMap

/-- a sequence of multimap calls: `(true, k, d)` = `ins k d`, `(false, k, d)` = `del k d` -/
def applyCalls : List (Bool × Int × Nat) → OMap → OMap
  | [], m => m
  | (true, k, d) :: r, m => applyCalls r (m.ins k d)
  | (false, k, d) :: r, m => applyCalls r (m.del k d)

theorem applyCalls_append (a b : List (Bool × Int × Nat)) (m : OMap) :
    applyCalls (a ++ b) m = applyCalls b (applyCalls a m) := by
  induction a generalizing m with
  | nil => rfl
  | cons e a ih =>
    obtain ⟨t, k, d⟩ := e
    cases t <;> simp [applyCalls, ih]

theorem insertLoop_calls (u : Bool) (d : Nat) : ∀ (ks : List Int) (m : OMap) (n : Nat),
    ∃ l : List (Bool × Int × Nat), (insertLoop u d ks m n).1 = applyCalls l m ∧
      ∀ e ∈ l, e.1 = true ∧ e.2.2 = d ∧ e.2.1 ∈ ks
  | [], m, n => ⟨[], rfl, by simp⟩
  | k :: ks, m, n => by
    simp only [insertLoop]
    have lift : ∀ m' n', (∃ l : List (Bool × Int × Nat), (insertLoop u d ks m' n').1 = applyCalls l m' ∧
        ∀ e ∈ l, e.1 = true ∧ e.2.2 = d ∧ e.2.1 ∈ ks) := fun m' n' => insertLoop_calls u d ks m' n'
    have skip : ∃ l : List (Bool × Int × Nat), (insertLoop u d ks m n).1 = applyCalls l m ∧
        ∀ e ∈ l, e.1 = true ∧ e.2.2 = d ∧ e.2.1 ∈ k :: ks := by
      obtain ⟨l, h1, h2⟩ := lift m n
      exact ⟨l, h1, fun e he => ⟨(h2 e he).1, (h2 e he).2.1, List.mem_cons_of_mem _ (h2 e he).2.2⟩⟩
    have add : ∃ l : List (Bool × Int × Nat), (insertLoop u d ks (m.ins k d) (n + 1)).1 = applyCalls l m ∧
        ∀ e ∈ l, e.1 = true ∧ e.2.2 = d ∧ e.2.1 ∈ k :: ks := by
      obtain ⟨l, h1, h2⟩ := lift (m.ins k d) (n + 1)
      refine ⟨(true, k, d) :: l, by simpa [applyCalls] using h1, ?_⟩
      intro e he
      rcases List.mem_cons.1 he with e' | he'
      · subst e'; exact ⟨rfl, rfl, by simp⟩
      · exact ⟨(h2 e he').1, (h2 e he').2.1, List.mem_cons_of_mem _ (h2 e he').2.2⟩
    split
    · split
      · exact ⟨[], rfl, by simp⟩
      · split
        · exact skip
        · exact add
    · exact add

theorem removeLoop_calls (d : Nat) : ∀ (ks : List Int) (m : OMap) (n : Nat),
    ∃ l : List (Bool × Int × Nat), (removeLoop d ks m n).1 = applyCalls l m ∧
      ∀ e ∈ l, e.1 = false ∧ e.2.2 = d ∧ e.2.1 ∈ ks
  | [], m, n => ⟨[], rfl, by simp⟩
  | k :: ks, m, n => by
    simp only [removeLoop]
    have skip : ∃ l : List (Bool × Int × Nat), (removeLoop d ks m n).1 = applyCalls l m ∧
        ∀ e ∈ l, e.1 = false ∧ e.2.2 = d ∧ e.2.1 ∈ k :: ks := by
      obtain ⟨l, h1, h2⟩ := removeLoop_calls d ks m n
      exact ⟨l, h1, fun e he => ⟨(h2 e he).1, (h2 e he).2.1, List.mem_cons_of_mem _ (h2 e he).2.2⟩⟩
    split
    · split
      · obtain ⟨l, h1, h2⟩ := removeLoop_calls d ks (m.del k d) (n + 1)
        refine ⟨(false, k, d) :: l, by simpa [applyCalls] using h1, ?_⟩
        intro e he
        rcases List.mem_cons.1 he with e' | he'
        · subst e'; exact ⟨rfl, rfl, by simp⟩
        · exact ⟨(h2 e he').1, (h2 e he').2.1, List.mem_cons_of_mem _ (h2 e he').2.2⟩
      · exact skip
    · exact skip

/-- every API step changes the contents by a sequence of `ins` / `del` calls (queries by none) -/
theorem step_calls (s : State) (op : Op) : ∃ l, (step s op).1.map = applyCalls l s.map := by
  cases op with
  | insert d k =>
    simp only [step, BTree.insert]
    split
    · split
      · exact ⟨[], rfl⟩
      · split
        · exact ⟨[], rfl⟩
        · exact ⟨[(true, k, d)], rfl⟩
    · exact ⟨[(true, k, d)], rfl⟩
  | remove d k =>
    simp only [step, BTree.remove]
    split
    · split
      · exact ⟨[(false, k, d)], rfl⟩
      · exact ⟨[], rfl⟩
    · exact ⟨[], rfl⟩
  | insertArray d ks =>
    simp only [step, insertArray]
    split
    · exact ⟨[], rfl⟩
    · split
      · exact ⟨[], rfl⟩
      · obtain ⟨l, h, _⟩ := insertLoop_calls s.unique d ks s.map 0
        split <;> exact ⟨l, h⟩
  | removeArray d ks =>
    obtain ⟨l, h, _⟩ := removeLoop_calls d ks s.map 0
    exact ⟨l, h⟩
  | batchUpdate d old new =>
    simp only [step, batchUpdate]
    generalize List.filter (fun k => !old.contains k) new.eraseDups = li
    generalize List.filter (fun k => !new.contains k) old.eraseDups = lr
    have h1 : ∃ l, (if li.isEmpty = true then (s, Out.okN 0) else insertArray s d li).1.map = applyCalls l s.map := by
      split
      · exact ⟨[], rfl⟩
      · unfold insertArray
        split
        · exact ⟨[], rfl⟩
        · split
          · exact ⟨[], rfl⟩
          · obtain ⟨l, h, _⟩ := insertLoop_calls s.unique d li s.map 0
            simp only
            split <;> exact ⟨l, h⟩
    generalize (if li.isEmpty = true then (s, Out.okN 0) else insertArray s d li) = r₁ at h1
    obtain ⟨l1, hl1⟩ := h1
    split
    · simp only
      split
      · exact ⟨l1, hl1⟩
      · obtain ⟨l2, hl2, _⟩ := removeLoop_calls d lr r₁.1.map 0
        refine ⟨l1 ++ l2, ?_⟩
        rw [applyCalls_append, ← hl1]
        exact hl2
    · exact ⟨l1, hl1⟩
  | get k => exact ⟨[], rfl⟩
  | len => exact ⟨[], rfl⟩
  | keys c l => exact ⟨[], rfl⟩
  | range desc stop mode q => exact ⟨[], rfl⟩
  | stats => exact ⟨[], rfl⟩

end BTree
end AndaVerif
