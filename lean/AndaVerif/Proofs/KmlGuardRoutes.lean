import AndaVerif.Model.KmlSafe
/-
C16 helper lemmas, part 7: the two entry routes.
-/
namespace AndaVerif.KmlGuard

open AndaVerif.Gen

/-- what comes out of `parse_kip` went through `validate_command` (by the generated step order) -/
theorem parseKip_validated {ι : Type} (grammar : ι → Option Command) (input : ι) (cmd : Command)
    (h : parseKip grammar input = .ok cmd) : grammar input = some cmd ∧ validateCommand cmd = .ok () := by
  simp only [parseKip, runRoute, KipGuardTables.parseKipOrder, List.foldl, routeStep] at h
  cases hg : grammar input with
  | none => simp [hg] at h
  | some c =>
    cases hv : validateCommand c with
    | error e => simp [hg, hv] at h
    | ok u =>
      cases u
      simp [hg, hv] at h
      subst h
      exact ⟨rfl, hv⟩

theorem parseKml_validated {ι : Type} (grammar : ι → Option Plan) (input : ι) (cmd : Command)
    (h : parseKml grammar input = .ok cmd) : ∃ st, grammar input = some st ∧ cmd = .kml st ∧ validatePlan st = .ok () := by
  simp only [parseKml, runRoute, KipGuardTables.parseKmlOrder, List.foldl, routeStep] at h
  cases hg : grammar input with
  | none => simp [hg] at h
  | some st =>
    cases hv : validatePlan st with
    | error e => simp [hg, validateCommand, hv] at h
    | ok u =>
      cases u
      simp [hg, validateCommand, hv] at h
      exact ⟨st, rfl, h.symm, hv⟩

theorem operationParse_validated {ι : Type} (grammar : ι → Option Command) (op : OperationSrc ι) (cmd : Command)
    (h : operationParse grammar op = .ok cmd) : validateCommand cmd = .ok () := by
  cases op with
  | command text => exact (parseKip_validated grammar text cmd h).2
  | ast c =>
    simp only [operationParse, runRouteFrom, KipGuardTables.operationAstOrder, List.foldl, routeStep] at h
    cases hv : validateCommand c with
    | error e => simp [hv] at h
    | ok u =>
      cases u
      simp [hv] at h
      subst h
      exact hv

end AndaVerif.KmlGuard
