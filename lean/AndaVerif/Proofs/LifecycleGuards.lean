import AndaVerif.Model.Lifecycle
/-
C06 — what the guard automaton accepts, for every marker list (not only the generated ones).
-/
namespace AndaVerif.Lifecycle
open AndaVerif.Gen.CollectionGuards

theorem auto4 (l : List Mk) (h : guardAuto 4 l = true) : (strip l).all (· == .poison) = true := by
  induction l with
  | nil => simp [strip]
  | cons m r ih =>
    cases m <;> simp_all [guardAuto, strip]

theorem auto3 (l : List Mk) (h : guardAuto 3 l = true) :
    ∃ body ps, strip l = body ++ .disarm :: ps ∧ body.all isBodyMk = true ∧ ps.all (· == .poison) = true := by
  induction l with
  | nil => simp [guardAuto] at h
  | cons m r ih =>
    cases m
    case disarm =>
      refine ⟨[], strip r, ?_, by simp, ?_⟩
      · simp [strip]
      · exact auto4 r (by simpa [guardAuto] using h)
    case lcLoad =>
      obtain ⟨b, p, h1, h2, h3⟩ := ih (by simpa [guardAuto] using h)
      exact ⟨b, p, by simpa [strip] using h1, h2, h3⟩
    case «mut» =>
      obtain ⟨b, p, h1, h2, h3⟩ := ih (by simpa [guardAuto] using h)
      refine ⟨.mut :: b, p, ?_, ?_, h3⟩
      · simp [strip] at h1 ⊢; exact h1
      · simp [isBodyMk, h2]
    case awaitPt =>
      obtain ⟨b, p, h1, h2, h3⟩ := ih (by simpa [guardAuto] using h)
      refine ⟨.awaitPt :: b, p, ?_, ?_, h3⟩
      · simp [strip] at h1 ⊢; exact h1
      · simp [isBodyMk, h2]
    case poison =>
      obtain ⟨b, p, h1, h2, h3⟩ := ih (by simpa [guardAuto] using h)
      refine ⟨.poison :: b, p, ?_, ?_, h3⟩
      · simp [strip] at h1 ⊢; exact h1
      · simp [isBodyMk, h2]
    case call c =>
      obtain ⟨b, p, h1, h2, h3⟩ := ih (by simpa [guardAuto] using h)
      refine ⟨.call c :: b, p, ?_, ?_, h3⟩
      · simp [strip] at h1 ⊢; exact h1
      · simp [isBodyMk, h2]
    all_goals (simp [guardAuto] at h)

/-- What `GuardOK` means, for every marker list (not only the generated ones): up to `lcLoad`s the skeleton is
`gate :: ensure_mutable? :: cancel_guard :: body ++ disarm :: poison*` with a body of mutations / awaits / poison calls. -/
theorem guardOK_shape (l : List Mk) (h : GuardOK l = true) :
    ∃ g body ps, strip l = g :: .ensureMutable :: .cancelGuard :: body ++ .disarm :: ps ∧
      (g = .gateRead ∨ g = .gateWrite) ∧ body.all isBodyMk = true ∧ ps.all (· == .poison) = true := by
  unfold GuardOK at h
  have h2 : ∀ l, guardAuto 2 l = true → ∃ body ps, strip l = .cancelGuard :: body ++ .disarm :: ps ∧
      body.all isBodyMk = true ∧ ps.all (· == .poison) = true := by
    intro l
    induction l with
    | nil => intro h; simp [guardAuto] at h
    | cons m r ih =>
      intro h
      cases m
      case cancelGuard =>
        obtain ⟨b, p, h1, hb, hp⟩ := auto3 r (by simpa [guardAuto] using h)
        exact ⟨b, p, by simp [strip] at h1 ⊢; exact h1, hb, hp⟩
      case lcLoad =>
        obtain ⟨b, p, h1, hb, hp⟩ := ih (by simpa [guardAuto] using h)
        exact ⟨b, p, by simpa [strip] using h1, hb, hp⟩
      all_goals (simp [guardAuto] at h)
  have h1 : ∀ l, guardAuto 1 l = true → ∃ body ps, strip l = .ensureMutable :: .cancelGuard :: body ++ .disarm :: ps ∧
      body.all isBodyMk = true ∧ ps.all (· == .poison) = true := by
    intro l
    induction l with
    | nil => intro h; simp [guardAuto] at h
    | cons m r ih =>
      intro h
      cases m
      case ensureMutable =>
        obtain ⟨b, p, h1, hb, hp⟩ := h2 r (by simpa [guardAuto] using h)
        exact ⟨b, p, by simp [strip] at h1 ⊢; exact h1, hb, hp⟩
      case lcLoad =>
        obtain ⟨b, p, h1, hb, hp⟩ := ih (by simpa [guardAuto] using h)
        exact ⟨b, p, by simpa [strip] using h1, hb, hp⟩
      all_goals (simp [guardAuto] at h)
  induction l with
  | nil => simp [guardAuto] at h
  | cons m r ih =>
    cases m
    case gateRead =>
      obtain ⟨b, p, h1', hb, hp⟩ := h1 r (by simpa [guardAuto] using h)
      exact ⟨.gateRead, b, p, by simp [strip] at h1' ⊢; exact h1', .inl rfl, hb, hp⟩
    case gateWrite =>
      obtain ⟨b, p, h1', hb, hp⟩ := h1 r (by simpa [guardAuto] using h)
      exact ⟨.gateWrite, b, p, by simp [strip] at h1' ⊢; exact h1', .inr rfl, hb, hp⟩
    case lcLoad =>
      obtain ⟨g, b, p, h1', hg, hb, hp⟩ := ih (by simpa [guardAuto] using h)
      exact ⟨g, b, p, by simpa [strip] using h1', hg, hb, hp⟩
    all_goals (simp [guardAuto] at h)

end AndaVerif.Lifecycle
