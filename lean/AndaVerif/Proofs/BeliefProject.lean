import AndaVerif.Proofs.BeliefOrder
/-
`project` is total, and permuting the stored rows permutes candidates and ledger and leaves the
aggregates and the status unchanged.
-/
namespace AndaVerif.Belief

theorem aggregate_total (den : Nat) (cands : List Cand) (opposing : Bool) :
    ∃ s g, aggregate den cands opposing = some (s, g) := by
  rw [aggregate_eq]; split <;> exact ⟨_, _, rfl⟩

theorem projectCands_total (pol : Policy) (now : Nat) (ledger : Ledger) (cands : List Cand) :
    ∃ a, projectCands pol now ledger cands = some a := by
  obtain ⟨s, g, h1⟩ := aggregate_total pol.den cands false
  obtain ⟨o, k, h2⟩ := aggregate_total pol.den cands true
  unfold projectCands; rw [h1, h2]; exact ⟨_, rfl⟩

/-- **The projection never fails** (the merge loop's indexing is always in range). -/
theorem project_total (pol : Policy) (now : Nat) (rows : List Row) (functional : Bool) (slot : List Nat)
    (target : Nat) : ∃ a, project pol now rows functional slot target = some a := by
  rw [project_eq]; exact projectCands_total ..

theorem rowsAbout_perm {r₁ r₂ : List Row} (h : r₁.Perm r₂) (p : Nat) :
    (rowsAbout r₁ p).Perm (rowsAbout r₂ p) := h.filter _

theorem allRivalCands_perm (pol : Policy) (now : Nat) {r₁ r₂ : List Row} (h : r₁.Perm r₂) (rivals : List Nat) :
    (allRivalCands pol now r₁ rivals).Perm (allRivalCands pol now r₂ rivals) := by
  unfold allRivalCands
  apply List.Perm.flatMap_left
  intro p _
  unfold rivalCands
  exact (rowsAbout_perm h p).filterMap _

/-- Permuting the rows permutes the candidates and every ledger list. -/
theorem collect_perm (pol : Policy) (now : Nat) {r₁ r₂ : List Row} (h : r₁.Perm r₂) (target : Nat)
    (rivals : List Nat) :
    let c₁ := collect pol now r₁ target rivals
    let c₂ := collect pol now r₂ target rivals
    c₁.2.Perm c₂.2 ∧ c₁.1.supporting.Perm c₂.1.supporting ∧ c₁.1.opposing.Perm c₂.1.opposing ∧
      c₁.1.uncertain.Perm c₂.1.uncertain ∧ c₁.1.excluded.Perm c₂.1.excluded := by
  simp only [collect_eq]
  have ht : (targetCands pol now (rowsAbout r₁ target)).Perm (targetCands pol now (rowsAbout r₂ target)) :=
    (rowsAbout_perm h target).filterMap _
  have hr : (if pol.expand then allRivalCands pol now r₁ rivals else []).Perm
      (if pol.expand then allRivalCands pol now r₂ rivals else []) := by
    split
    · exact allRivalCands_perm pol now h rivals
    · exact List.Perm.refl _
  have hids : ∀ st, (idsWith pol now st (rowsAbout r₁ target)).Perm (idsWith pol now st (rowsAbout r₂ target)) :=
    fun st => ht.filterMap _
  exact ⟨ht.append hr, hids _, (hids _).append (hr.map _), hids _, (rowsAbout_perm h target).filterMap _⟩

/-- What a caller can observe of an answer apart from the order inside the ledger lists. -/
structure SameAnswer (a b : Answer) : Prop where
  status : a.status = b.status
  support : a.support = b.support
  supportGroups : a.supportGroups = b.supportGroups
  opposition : a.opposition = b.opposition
  oppositionGroups : a.oppositionGroups = b.oppositionGroups
  supporting : a.ledger.supporting.Perm b.ledger.supporting
  opposing : a.ledger.opposing.Perm b.ledger.opposing
  uncertain : a.ledger.uncertain.Perm b.ledger.uncertain
  excluded : a.ledger.excluded.Perm b.ledger.excluded
  policy : a.policyId = b.policyId ∧ a.policyVersion = b.policyVersion ∧ a.validAt = b.validAt

theorem projectCands_perm (pol : Policy) (now : Nat) {l₁ l₂ : Ledger} {c₁ c₂ : List Cand}
    (hc : c₁.Perm c₂) (hs : l₁.supporting.Perm l₂.supporting) (ho : l₁.opposing.Perm l₂.opposing)
    (hu : l₁.uncertain.Perm l₂.uncertain) (hx : l₁.excluded.Perm l₂.excluded) :
    ∃ a b, projectCands pol now l₁ c₁ = some a ∧ projectCands pol now l₂ c₂ = some b ∧ SameAnswer a b := by
  obtain ⟨s, g, h1⟩ := aggregate_total pol.den c₁ false
  obtain ⟨o, k, h2⟩ := aggregate_total pol.den c₁ true
  have h1' := h1; have h2' := h2
  rw [aggregate_perm pol.den hc] at h1' h2'
  unfold projectCands
  rw [h1, h2, h1', h2']
  refine ⟨_, _, rfl, rfl, ⟨?_, rfl, rfl, rfl, rfl, hs, ho, hu, hx, rfl, rfl, rfl⟩⟩
  -- `classify` reads the uncertain list only through its emptiness
  have : l₁.uncertain.isEmpty = l₂.uncertain.isEmpty := by
    rw [Bool.eq_iff_iff, List.isEmpty_iff, List.isEmpty_iff]
    constructor <;> intro h0
    · exact List.Perm.eq_nil (h0 ▸ hu.symm)
    · exact List.Perm.eq_nil (h0 ▸ hu)
  simp only [classify, this]

theorem project_perm (pol : Policy) (now : Nat) {r₁ r₂ : List Row} (h : r₁.Perm r₂) (functional : Bool)
    (slot : List Nat) (target : Nat) :
    ∃ a b, project pol now r₁ functional slot target = some a ∧
      project pol now r₂ functional slot target = some b ∧ SameAnswer a b := by
  rw [project_eq, project_eq]
  obtain ⟨hc, hs, ho, hu, hx⟩ := collect_perm pol now h target (rivalsOf functional slot target)
  exact projectCands_perm pol now hc hs ho hu hx

end AndaVerif.Belief
