import AndaVerif.Proofs.BTreeConcAct
/-
The invariants of the concurrent B-tree model and their preservation by every action.
-/
namespace AndaVerif
namespace BTreeConc

structure Inv (c : Cfg) : Prop where
  /-- no lost key: a posting's key is in the btree, or its creator is about to add it -/
  keyed : ∀ k p, pget c.sh.post k = some p → k ∈ c.sh.btree ∨ Any c (willKey · k)
  /-- no phantom key: a btree key has a posting, or the remover of its posting is about to drop it -/
  posted : ∀ k, k ∈ c.sh.btree → (∃ p, pget c.sh.post k = some p) ∨ Any c (willUnkey · k)
  /-- an empty posting only exists while the remove that emptied it is before its `remove_if` -/
  nonempty : ∀ k p, pget c.sh.post k = some p → p.ids = [] → Any c (willErase · k)
  /-- every non-empty posting is listed by the bucket that owns it, or an insert is about to list it
  there — except in the middle of a compaction's rebuild -/
  listedI : Any c (fun th => th.pc = .cmp2) ∨
    ∀ k p, pget c.sh.post k = some p → p.ids ≠ [] → (p.bucket, k) ∈ c.sh.listed ∨ Any c (willList · k p.bucket)
  /-- the gate: while a compaction is inside, every other thread is between operations -/
  excl : ∀ (i : Nat) (th : Thread), c.threads[i]? = some th → th.pc.isCmp = true →
    ∀ (j : Nat) (th' : Thread), c.threads[j]? = some th' → j ≠ i → th'.pc = PC.idle
  nodup : ∀ k p, pget c.sh.post k = some p → p.ids.Nodup
  uniq : c.sh.unique = true → ∀ k p, pget c.sh.post k = some p → p.ids.length ≤ 1

/-- the configuration after an action -/
abbrev after (c : Cfg) (t : Nat) (sh' : Shared) (th' : Thread) (evs : List Ev) : Cfg :=
  { sh := sh', threads := c.threads.set t th', hist := evs ++ c.hist }

theorem any_after {W : Thread → Prop} (c : Cfg) (t : Nat) (sh' : Shared) (th th' : Thread) (evs : List Ev)
    (hth : c.threads[t]? = some th) :
    Any (after c t sh' th' evs) W ↔ (W th' ∨ ∃ (i : Nat) (x : Thread), i ≠ t ∧ c.threads[i]? = some x ∧ W x) :=
  ex_set c.threads t th' th hth

theorem any_split {W : Thread → Prop} (c : Cfg) (t : Nat) (th : Thread) (hth : c.threads[t]? = some th) :
    Any c W ↔ (W th ∨ ∃ (i : Nat) (x : Thread), i ≠ t ∧ c.threads[i]? = some x ∧ W x) :=
  ex_split c.threads t th hth

/-- an obligation survives an action of thread `t` if `t`'s own share of it does -/
theorem any_keep {W : Thread → Prop} (c : Cfg) (t : Nat) (sh' : Shared) (th th' : Thread) (evs : List Ev)
    (hth : c.threads[t]? = some th) (h : Any c W) (hself : W th → W th') : Any (after c t sh' th' evs) W := by
  rw [any_after c t sh' th th' evs hth]
  rcases (any_split c t th hth).1 h with h | h
  · exact Or.inl (hself h)
  · exact Or.inr h

-- the gate ---------------------------------------------------------------------------------------------

theorem noCompactor_false (c : Cfg) (i : Nat) (th : Thread) (h : c.threads[i]? = some th) (hc : th.pc.isCmp = true) :
    noCompactor c = false := by
  cases hn : noCompactor c with
  | false => rfl
  | true =>
    have := List.all_eq_true.1 hn th (List.mem_of_getElem? h)
    simp [hc] at this

theorem allIdle_false (c : Cfg) (i : Nat) (th : Thread) (h : c.threads[i]? = some th) (hc : th.pc.isIdle = false) :
    allIdle c = false := by
  cases hn : allIdle c with
  | false => rfl
  | true =>
    have := List.all_eq_true.1 hn th (List.mem_of_getElem? h)
    simp [hc] at this

theorem allIdle_get (c : Cfg) (h : allIdle c = true) (i : Nat) (th : Thread) (hi : c.threads[i]? = some th) :
    th.pc = .idle := by
  have := List.all_eq_true.1 h th (List.mem_of_getElem? hi)
  cases hp : th.pc <;> simp [PC.isIdle, hp] at this
  rfl

/-- while another thread is inside a compaction, thread `t` has no enabled action -/
theorem no_act_beside_compactor (c : Cfg) (hinv : Inv c) (t : Nat) (th : Thread) (hth : c.threads[t]? = some th)
    (i : Nat) (thi : Thread) (hi : c.threads[i]? = some thi) (hne : i ≠ t) (hc : thi.pc.isCmp = true)
    {sh' : Shared} {th' : Thread} {evs : List Ev} (hact : Act c t th sh' th' evs) : False := by
  have hidle : th.pc = .idle := hinv.excl i thi hi hc t th hth (fun e => hne e.symm)
  have hnc := noCompactor_false c i thi hi hc
  have hni : allIdle c = false := allIdle_false c i thi hi (by cases h : thi.pc <;> simp [PC.isCmp, PC.isIdle, h] at hc ⊢)
  cases hact <;> simp_all

theorem excl_act (c : Cfg) (h : Inv c) (t : Nat) (th : Thread) (hth : c.threads[t]? = some th)
    {sh' : Shared} {th' : Thread} {evs : List Ev} (hact : Act c t th sh' th' evs) :
    ∀ (i : Nat) (x : Thread), (after c t sh' th' evs).threads[i]? = some x → x.pc.isCmp = true →
      ∀ (j : Nat) (y : Thread), (after c t sh' th' evs).threads[j]? = some y → j ≠ i → y.pc = PC.idle := by
  intro i x hi hc j y hj hne
  by_cases e : i = t
  · subst e
    rw [th_set_self c.threads i th' th hth] at hi
    cases hi
    rw [th_set_ne c.threads i j th' hne] at hj
    -- the acting thread is (still / now) a compactor
    cases hact <;> simp_all [PC.isCmp, finish]
    all_goals first
      | exact allIdle_get c (by assumption) j y hj
      | exact h.excl i th hth (by simp [PC.isCmp, *]) j y hj hne
  · rw [th_set_ne c.threads t i th' e] at hi
    exact (no_act_beside_compactor c h t th hth i x hi e hc hact).elim

theorem nodup_act (c : Cfg) (h : Inv c) (t : Nat) (th : Thread)
    {sh' : Shared} {th' : Thread} {evs : List Ev} (hact : Act c t th sh' th' evs) :
    ∀ k p, pget sh'.post k = some p → p.ids.Nodup := by
  cases hact <;> first | exact h.nodup | skip
  case insApp d k sp rest p hpc hprog hg hp hu hd =>
    intro k₁ p₁ h₁
    simp only [pget_pset] at h₁
    split at h₁
    · cases h₁
      have := h.nodup k p hp
      simp only [List.nodup_append, this, List.nodup_cons, List.not_mem_nil, not_false_eq_true, List.nodup_nil,
        and_self, List.mem_cons, or_false, true_and]
      intro a ha b hb; subst hb; intro e; subst e; exact hd ha
    · exact h.nodup k₁ p₁ h₁
  case insNew d k sp rest hpc hprog hg hp =>
    intro k₁ p₁ h₁
    simp only [pget_pset] at h₁
    split at h₁
    · cases h₁; simp
    · exact h.nodup k₁ p₁ h₁
  case ins2SpillSome target d k rest p hpc hprog hp =>
    intro k₁ p₁ h₁
    simp only [pget_pset] at h₁
    split at h₁
    · cases h₁; exact h.nodup k p hp
    · exact h.nodup k₁ p₁ h₁
  case remHit d k rest p hpc hprog hg hp hd =>
    intro k₁ p₁ h₁
    simp only [pget_pset] at h₁
    split at h₁
    · cases h₁; exact List.Pairwise.filter _ (h.nodup k p hp)
    · exact h.nodup k₁ p₁ h₁
  case rem1Erase b d k rest p hpc hprog hp he =>
    intro k₁ p₁ h₁
    simp only [pget_perase] at h₁
    split at h₁
    · cases h₁
    · exact h.nodup k₁ p₁ h₁
  case cmp2 skip assign rest hpc hprog =>
    intro k₁ p₁ h₁
    simp only [pget_rebucket] at h₁
    cases hq : pget c.sh.post k₁ with
    | none => simp [hq] at h₁
    | some q =>
      simp only [hq, Option.map_some, Option.some.injEq] at h₁
      subst h₁
      exact h.nodup k₁ q hq

theorem uniq_act (c : Cfg) (h : Inv c) (t : Nat) (th : Thread)
    {sh' : Shared} {th' : Thread} {evs : List Ev} (hact : Act c t th sh' th' evs) :
    sh'.unique = true → ∀ k p, pget sh'.post k = some p → p.ids.length ≤ 1 := by
  cases hact <;> first | exact h.uniq | skip
  case insApp d k sp rest p hpc hprog hg hp hu hd =>
    intro hu'; simp only at hu'; rw [hu] at hu'; cases hu'
  case insNew d k sp rest hpc hprog hg hp =>
    intro hu k₁ p₁ h₁
    simp only [pget_pset] at h₁
    split at h₁
    · cases h₁; simp
    · exact h.uniq hu k₁ p₁ h₁
  case ins2SpillSome target d k rest p hpc hprog hp =>
    intro hu k₁ p₁ h₁
    simp only [pget_pset] at h₁
    split at h₁
    · cases h₁; exact h.uniq hu k p hp
    · exact h.uniq hu k₁ p₁ h₁
  case remHit d k rest p hpc hprog hg hp hd =>
    intro hu k₁ p₁ h₁
    simp only [pget_pset] at h₁
    split at h₁
    · cases h₁
      exact Nat.le_trans (List.length_filter_le _ _) (h.uniq hu k p hp)
    · exact h.uniq hu k₁ p₁ h₁
  case rem1Erase b d k rest p hpc hprog hp he =>
    intro hu k₁ p₁ h₁
    simp only [pget_perase] at h₁
    split at h₁
    · cases h₁
    · exact h.uniq hu k₁ p₁ h₁
  case cmp2 skip assign rest hpc hprog =>
    intro hu k₁ p₁ h₁
    simp only [pget_rebucket] at h₁
    cases hq : pget c.sh.post k₁ with
    | none => simp [hq] at h₁
    | some q =>
      simp only [hq, Option.map_some, Option.some.injEq] at h₁
      subst h₁
      exact h.uniq hu k₁ q hq

/-- an obligation about key `k₁` is not the acting thread's if that thread works on another key -/
theorem any_other_key {W : Thread → Int → Prop} (hW : ∀ x k, W x k → curKey x = some k)
    (c : Cfg) (t : Nat) (sh' : Shared) (th th' : Thread) (evs : List Ev) (hth : c.threads[t]? = some th)
    (k k₁ : Int) (hk : curKey th = some k) (hne : k₁ ≠ k) (h : Any c (W · k₁)) :
    Any (after c t sh' th' evs) (W · k₁) := by
  rw [any_after c t sh' th th' evs hth]
  rcases (any_split c t th hth).1 h with h | h
  · have := hW th k₁ h
    rw [hk] at this
    cases this; exact absurd rfl hne
  · exact Or.inr h

theorem willErase_key (x : Thread) (k : Int) (h : willErase x k) : curKey x = some k := h.1
theorem willKey_key (x : Thread) (k : Int) (h : willKey x k) : curKey x = some k := h.1
theorem willUnkey_key (x : Thread) (k : Int) (h : willUnkey x k) : curKey x = some k := h.1

theorem curKey_insert (th : Thread) (d k sp rest) (h : th.prog = .insert d k sp :: rest) : curKey th = some k := by
  simp [curKey, h]
theorem curKey_remove (th : Thread) (d k rest) (h : th.prog = .remove d k :: rest) : curKey th = some k := by
  simp [curKey, h]

theorem nonempty_act (c : Cfg) (h : Inv c) (t : Nat) (th : Thread) (hth : c.threads[t]? = some th)
    {sh' : Shared} {th' : Thread} {evs : List Ev} (hact : Act c t th sh' th' evs) :
    ∀ k p, pget sh'.post k = some p → p.ids = [] → Any (after c t sh' th' evs) (willErase · k) := by
  have keep : sh'.post = c.sh.post → (∀ k, willErase th k → willErase th' k) →
      ∀ k p, pget sh'.post k = some p → p.ids = [] → Any (after c t sh' th' evs) (willErase · k) := by
    intro hpost hself k p hp he
    rw [hpost] at hp
    exact any_keep c t sh' th th' evs hth (h.nonempty k p hp he) (hself k)
  have other := fun (k k₁ : Int) (hk : curKey th = some k) (hne : k₁ ≠ k) (p₁ : Posting)
      (hp : pget c.sh.post k₁ = some p₁) (he : p₁.ids = []) =>
    any_other_key willErase_key c t sh' th th' evs hth k k₁ hk hne (h.nonempty k₁ p₁ hp he)
  cases hact <;> first
    | (apply keep rfl; intro k hw; simp_all [willErase, curKey, finish]; done)
    | skip
  case insApp d k sp rest p hpc hprog hg hp hu hd =>
    intro k₁ p₁ h₁ he
    simp only [pget_pset] at h₁
    split at h₁
    · cases h₁; simp at he
    · rename_i hne
      exact other k k₁ (curKey_insert th d k sp rest hprog) (fun e => hne e.symm) p₁ h₁ he
  case insNew d k sp rest hpc hprog hg hp =>
    intro k₁ p₁ h₁ he
    simp only [pget_pset] at h₁
    split at h₁
    · cases h₁; simp at he
    · rename_i hne
      exact other k k₁ (curKey_insert th d k sp rest hprog) (fun e => hne e.symm) p₁ h₁ he
  case ins2SpillSome target d k rest p hpc hprog hp =>
    intro k₁ p₁ h₁ he
    simp only [pget_pset] at h₁
    split at h₁
    · rename_i e
      subst e
      cases h₁
      -- same ids as before: the old obligor stays (the acting thread is an insert, not that obligor)
      have := h.nonempty k p hp he
      exact any_keep c t _ th _ _ hth this (fun hw => by simp [willErase, hpc] at hw)
    · rename_i hne
      exact other k k₁ (curKey_insert th d k true rest hprog) (fun e => hne e.symm) p₁ h₁ he
  case remHit d k rest p hpc hprog hg hp hd =>
    intro k₁ p₁ h₁ he
    simp only [pget_pset] at h₁
    split at h₁
    · rename_i e
      subst e
      cases h₁
      rw [any_after c t _ th _ _ hth]
      left
      refine ⟨by simp [curKey, hprog], p.bucket, ?_⟩
      simp only at he
      simp [he]
    · rename_i hne
      exact other k k₁ (curKey_remove th d k rest hprog) (fun e => hne e.symm) p₁ h₁ he
  case rem1Erase b d k rest p hpc hprog hp he0 =>
    intro k₁ p₁ h₁ he
    simp only [pget_perase] at h₁
    split at h₁
    · cases h₁
    · rename_i hne
      exact other k k₁ (curKey_remove th d k rest hprog) (fun e => hne e.symm) p₁ h₁ he
  case rem1Keep b d k rest hpc hprog hp =>
    intro k₁ p₁ h₁ he
    by_cases e : k₁ = k
    · subst e
      rcases hp with hp | ⟨q, hq, hne⟩
      · rw [hp] at h₁; cases h₁
      · rw [hq] at h₁; cases h₁; exact absurd he hne
    · exact other k k₁ (curKey_remove th d k rest hprog) e p₁ h₁ he
  case cmp2 skip assign rest hpc hprog =>
    intro k₁ p₁ h₁ he
    simp only [pget_rebucket] at h₁
    cases hq : pget c.sh.post k₁ with
    | none => simp [hq] at h₁
    | some q =>
      simp only [hq, Option.map_some, Option.some.injEq] at h₁
      subst h₁
      exact any_keep c t _ th _ _ hth (h.nonempty k₁ q hq he) (fun hw => by simp [willErase, hpc] at hw)

theorem keyed_act (c : Cfg) (h : Inv c) (t : Nat) (th : Thread) (hth : c.threads[t]? = some th)
    {sh' : Shared} {th' : Thread} {evs : List Ev} (hact : Act c t th sh' th' evs) :
    ∀ k p, pget sh'.post k = some p → k ∈ sh'.btree ∨ Any (after c t sh' th' evs) (willKey · k) := by
  have keep : sh'.post = c.sh.post → (∀ k, k ∈ c.sh.btree → k ∈ sh'.btree) → (∀ k, willKey th k → willKey th' k) →
      ∀ k p, pget sh'.post k = some p → k ∈ sh'.btree ∨ Any (after c t sh' th' evs) (willKey · k) := by
    intro hpost hbt hself k p hp
    rw [hpost] at hp
    rcases h.keyed k p hp with hb | hw
    · exact Or.inl (hbt k hb)
    · exact Or.inr (any_keep c t sh' th th' evs hth hw (hself k))
  -- a posting of another key than the acting thread's: unchanged justification
  have other := fun (k k₁ : Int) (hk : curKey th = some k) (hne : k₁ ≠ k) (p₁ : Posting)
      (hp : pget c.sh.post k₁ = some p₁) (hbt : k₁ ∈ c.sh.btree → k₁ ∈ sh'.btree) =>
    (h.keyed k₁ p₁ hp).elim (fun hb => Or.inl (hbt hb))
      (fun hw => Or.inr (any_other_key willKey_key c t sh' th th' evs hth k k₁ hk hne hw))
  cases hact <;> first
    | (apply keep rfl (fun _ hb => hb); intro k hw; simp_all [willKey, curKey, finish]; done)
    | skip
  case insApp d k sp rest p hpc hprog hg hp hu hd =>
    intro k₁ p₁ h₁
    simp only [pget_pset] at h₁
    split at h₁
    · rename_i e; subst e
      exact (h.keyed k p hp).elim Or.inl
        (fun hw => Or.inr (any_keep c t _ th _ _ hth hw (fun hw' => by simp [willKey, hpc] at hw')))
    · rename_i hne
      exact other k k₁ (curKey_insert th d k sp rest hprog) (fun e => hne e.symm) p₁ h₁ (fun hb => hb)
  case insNew d k sp rest hpc hprog hg hp =>
    intro k₁ p₁ h₁
    simp only [pget_pset] at h₁
    split at h₁
    · rename_i e; subst e
      right
      rw [any_after c t _ th _ _ hth]
      exact Or.inl ⟨by simp [curKey, hprog], true, c.sh.maxBucket, rfl⟩
    · rename_i hne
      exact other k k₁ (curKey_insert th d k sp rest hprog) (fun e => hne e.symm) p₁ h₁ (fun hb => hb)
  case ins1Add isNew size target d k sp rest p hpc hprog hn hp =>
    intro k₁ p₁ h₁
    by_cases e : k₁ = k
    · subst e; exact Or.inl (by simp)
    · exact other k k₁ (curKey_insert th d k sp rest hprog) e p₁ h₁ (fun hb => List.mem_cons_of_mem _ hb)
  case ins1Skip isNew size target d k sp rest hpc hprog hc =>
    intro k₁ p₁ h₁
    by_cases e : k₁ = k
    · subst e
      rcases hc with hc | hc | hc
      · subst hc
        exact (h.keyed k₁ p₁ h₁).elim Or.inl
          (fun hw => Or.inr (any_keep c t _ th _ _ hth hw (fun hw' => by simp [willKey, hpc] at hw')))
      · rw [hc] at h₁; cases h₁
      · exact Or.inl hc
    · exact other k k₁ (curKey_insert th d k sp rest hprog) e p₁ h₁ (fun hb => hb)
  case ins2SpillSome target d k rest p hpc hprog hp =>
    intro k₁ p₁ h₁
    simp only [pget_pset] at h₁
    split at h₁
    · rename_i e; subst e
      exact (h.keyed k p hp).elim Or.inl
        (fun hw => Or.inr (any_keep c t _ th _ _ hth hw (fun hw' => by simp [willKey, hpc] at hw')))
    · rename_i hne
      exact other k k₁ (curKey_insert th d k true rest hprog) (fun e => hne e.symm) p₁ h₁ (fun hb => hb)
  case remHit d k rest p hpc hprog hg hp hd =>
    intro k₁ p₁ h₁
    simp only [pget_pset] at h₁
    split at h₁
    · rename_i e; subst e
      exact (h.keyed k p hp).elim Or.inl
        (fun hw => Or.inr (any_keep c t _ th _ _ hth hw (fun hw' => by simp [willKey, hpc] at hw')))
    · rename_i hne
      exact other k k₁ (curKey_remove th d k rest hprog) (fun e => hne e.symm) p₁ h₁ (fun hb => hb)
  case rem1Erase b d k rest p hpc hprog hp he0 =>
    intro k₁ p₁ h₁
    simp only [pget_perase] at h₁
    split at h₁
    · cases h₁
    · rename_i hne
      exact other k k₁ (curKey_remove th d k rest hprog) (fun e => hne e.symm) p₁ h₁ (fun hb => hb)
  case rem2Drop b d k rest hpc hprog hp =>
    intro k₁ p₁ h₁
    by_cases e : k₁ = k
    · subst e; simp only at h₁; rw [hp] at h₁; cases h₁
    · exact other k k₁ (curKey_remove th d k rest hprog) e p₁ h₁
        (fun hb => List.mem_filter.2 ⟨hb, by simpa using e⟩)
  case cmp2 skip assign rest hpc hprog =>
    intro k₁ p₁ h₁
    simp only [pget_rebucket] at h₁
    cases hq : pget c.sh.post k₁ with
    | none => simp [hq] at h₁
    | some q =>
      exact (h.keyed k₁ q hq).elim Or.inl
        (fun hw => Or.inr (any_keep c t _ th _ _ hth hw (fun hw' => by simp [willKey, hpc] at hw')))

theorem posted_act (c : Cfg) (h : Inv c) (t : Nat) (th : Thread) (hth : c.threads[t]? = some th)
    {sh' : Shared} {th' : Thread} {evs : List Ev} (hact : Act c t th sh' th' evs) :
    ∀ k, k ∈ sh'.btree → (∃ p, pget sh'.post k = some p) ∨ Any (after c t sh' th' evs) (willUnkey · k) := by
  have keep : (∀ k, k ∈ sh'.btree → k ∈ c.sh.btree) → (∀ k p, pget c.sh.post k = some p → ∃ p', pget sh'.post k = some p') →
      (∀ k, willUnkey th k → willUnkey th' k) →
      ∀ k, k ∈ sh'.btree → (∃ p, pget sh'.post k = some p) ∨ Any (after c t sh' th' evs) (willUnkey · k) := by
    intro hbt hpost hself k hk
    rcases h.posted k (hbt k hk) with ⟨p, hp⟩ | hw
    · exact Or.inl (hpost k p hp)
    · exact Or.inr (any_keep c t sh' th th' evs hth hw (hself k))
  have other := fun (k k₁ : Int) (hk : curKey th = some k) (hne : k₁ ≠ k) (hb : k₁ ∈ c.sh.btree)
      (hpost : ∀ p, pget c.sh.post k₁ = some p → ∃ p', pget sh'.post k₁ = some p') =>
    (h.posted k₁ hb).elim (fun ⟨p, hp⟩ => Or.inl (hpost p hp))
      (fun hw => Or.inr (any_other_key willUnkey_key c t sh' th th' evs hth k k₁ hk hne hw))
  cases hact <;> first
    | (apply keep (fun _ hb => hb) (fun k p hp => ⟨p, hp⟩); intro k hw; simp_all [willUnkey, curKey, finish]; done)
    | skip
  -- postings only grow or keep their keys: monotone cases
  case insApp d k sp rest p hpc hprog hg hp hu hd =>
    apply keep (fun _ hb => hb)
    · intro k₁ p₁ h₁
      simp only [pget_pset]
      split
      · exact ⟨_, rfl⟩
      · exact ⟨p₁, h₁⟩
    · intro k₁ hw; simp [willUnkey, hpc] at hw
  case insNew d k sp rest hpc hprog hg hp =>
    apply keep (fun _ hb => hb)
    · intro k₁ p₁ h₁
      simp only [pget_pset]
      split
      · exact ⟨_, rfl⟩
      · exact ⟨p₁, h₁⟩
    · intro k₁ hw; simp [willUnkey, hpc] at hw
  case ins1Add isNew size target d k sp rest p hpc hprog hn hp =>
    intro k₁ hk₁
    simp only [List.mem_cons] at hk₁
    rcases hk₁ with e | hk₁
    · subst e; exact Or.inl ⟨p, hp⟩
    · rcases h.posted k₁ hk₁ with hp' | hw
      · exact Or.inl hp'
      · exact Or.inr (any_keep c t _ th _ _ hth hw (fun hw' => by simp [willUnkey, hpc] at hw'))
  case ins2SpillSome target d k rest p hpc hprog hp =>
    apply keep (fun _ hb => hb)
    · intro k₁ p₁ h₁
      simp only [pget_pset]
      split
      · exact ⟨_, rfl⟩
      · exact ⟨p₁, h₁⟩
    · intro k₁ hw; simp [willUnkey, hpc] at hw
  case remHit d k rest p hpc hprog hg hp hd =>
    apply keep (fun _ hb => hb)
    · intro k₁ p₁ h₁
      simp only [pget_pset]
      split
      · exact ⟨_, rfl⟩
      · exact ⟨p₁, h₁⟩
    · intro k₁ hw; simp [willUnkey, hpc] at hw
  case rem1Erase b d k rest p hpc hprog hp he0 =>
    intro k₁ hk₁
    by_cases e : k₁ = k
    · subst e
      right
      rw [any_after c t _ th _ _ hth]
      exact Or.inl ⟨by simp [curKey, hprog], b, rfl⟩
    · refine other k k₁ (curKey_remove th d k rest hprog) e hk₁ ?_
      intro p₁ h₁
      simp only [pget_perase]
      have : ¬ k = k₁ := fun e' => e e'.symm
      simp [this, h₁]
  case rem2Drop b d k rest hpc hprog hp =>
    intro k₁ hk₁
    have hk := List.mem_filter.1 hk₁
    have hne : k₁ ≠ k := by simpa using hk.2
    exact other k k₁ (curKey_remove th d k rest hprog) hne hk.1 (fun p₁ h₁ => ⟨p₁, h₁⟩)
  case rem2Keep er b d k rest hpc hprog hc =>
    intro k₁ hk₁
    by_cases e : k₁ = k
    · subst e
      rcases hc with hc | hc
      · subst hc
        rcases h.posted k₁ hk₁ with hp' | hw
        · exact Or.inl hp'
        · exact Or.inr (any_keep c t _ th _ _ hth hw (fun hw' => by simp [willUnkey, hpc] at hw'))
      · exact Or.inl (Option.isSome_iff_exists.1 hc)
    · exact other k k₁ (curKey_remove th d k rest hprog) e hk₁ (fun p₁ h₁ => ⟨p₁, h₁⟩)
  case cmp2 skip assign rest hpc hprog =>
    apply keep (fun _ hb => hb)
    · intro k₁ p₁ h₁
      simp only [pget_rebucket, h₁, Option.map_some]
      exact ⟨_, rfl⟩
    · intro k₁ hw; simp [willUnkey, hpc] at hw

/-- the right-hand side of `Inv.listedI` -/
def ListedOK (sh : Shared) (A : (Thread → Prop) → Prop) : Prop :=
  ∀ k p, pget sh.post k = some p → p.ids ≠ [] → (p.bucket, k) ∈ sh.listed ∨ A (willList · k p.bucket)

theorem willList_key (b : Nat) (x : Thread) (k : Int) (h : willList x k b) : curKey x = some k := h.1

theorem listed_act_R (c : Cfg) (h : Inv c) (t : Nat) (th : Thread) (hth : c.threads[t]? = some th)
    (hR : ListedOK c.sh (Any c))
    {sh' : Shared} {th' : Thread} {evs : List Ev} (hact : Act c t th sh' th' evs) :
    Any (after c t sh' th' evs) (fun x => x.pc = PC.cmp2) ∨ ListedOK sh' (Any (after c t sh' th' evs)) := by
  have keep : sh'.post = c.sh.post → (∀ e, e ∈ c.sh.listed → e ∈ sh'.listed) →
      (∀ k b, willList th k b → willList th' k b ∨ (b, k) ∈ sh'.listed) →
      ListedOK sh' (Any (after c t sh' th' evs)) := by
    intro hpost hl hself k p hp hne
    rw [hpost] at hp
    rcases hR k p hp hne with hin | hw
    · exact Or.inl (hl _ hin)
    · rcases (any_split c t th hth).1 hw with hw | hw
      · rcases hself k p.bucket hw with h' | h'
        · exact Or.inr ((any_after c t sh' th th' evs hth).2 (Or.inl h'))
        · exact Or.inl h'
      · exact Or.inr ((any_after c t sh' th th' evs hth).2 (Or.inr hw))
  -- a posting of another key than the acting thread's
  have other := fun (k k₁ : Int) (hk : curKey th = some k) (hne : k₁ ≠ k) (p₁ : Posting)
      (hp : pget c.sh.post k₁ = some p₁) (hids : p₁.ids ≠ [])
      (hl : (p₁.bucket, k₁) ∈ c.sh.listed → (p₁.bucket, k₁) ∈ sh'.listed) =>
    (hR k₁ p₁ hp hids).elim (fun hin => Or.inl (hl hin))
      (fun hw => Or.inr (any_other_key (W := fun x k => willList x k p₁.bucket) (willList_key p₁.bucket)
        c t sh' th th' evs hth k k₁ hk hne hw))
  cases hact <;> first
    | (right; apply keep rfl (fun _ hb => hb); intro k b hw; left; simp_all [willList, curKey, finish]; done)
    | skip
  case insApp d k sp rest p hpc hprog hg hp hu hd =>
    right
    intro k₁ p₁ h₁ hids
    simp only [pget_pset] at h₁
    split at h₁
    · rename_i e; subst e; cases h₁
      right
      rw [any_after c t _ th _ _ hth]
      exact Or.inl ⟨by simp [curKey, hprog], Or.inl ⟨false, rfl⟩⟩
    · rename_i hne
      exact other k k₁ (curKey_insert th d k sp rest hprog) (fun e => hne e.symm) p₁ h₁ hids (fun hb => hb)
  case insNew d k sp rest hpc hprog hg hp =>
    right
    intro k₁ p₁ h₁ hids
    simp only [pget_pset] at h₁
    split at h₁
    · rename_i e; subst e; cases h₁
      right
      rw [any_after c t _ th _ _ hth]
      exact Or.inl ⟨by simp [curKey, hprog], Or.inl ⟨true, rfl⟩⟩
    · rename_i hne
      exact other k k₁ (curKey_insert th d k sp rest hprog) (fun e => hne e.symm) p₁ h₁ hids (fun hb => hb)
  case ins2List target d k rest hpc hprog =>
    right
    apply keep rfl (fun _ hb => List.mem_cons_of_mem _ hb)
    intro k₁ b hw
    right
    obtain ⟨hk, hw⟩ := hw
    rw [curKey_insert th d k false rest hprog] at hk
    cases hk
    simp only [hpc] at hw
    rcases hw with ⟨n, hn⟩ | hn | ⟨s, hs⟩
    · cases hn
    · cases hn; simp
    · cases hs
  case ins2SpillSome target d k rest p hpc hprog hp =>
    right
    intro k₁ p₁ h₁ hids
    simp only [pget_pset] at h₁
    split at h₁
    · rename_i e; subst e; cases h₁
      right
      rw [any_after c t _ th _ _ hth]
      exact Or.inl ⟨by simp [curKey, hprog], Or.inr (Or.inr ⟨true, rfl⟩)⟩
    · rename_i hne
      refine other k k₁ (curKey_insert th d k true rest hprog) (fun e => hne e.symm) p₁ h₁ hids ?_
      intro hb
      exact (mem_unlist _ _ _ _).2 ⟨hb, fun ⟨_, e⟩ => hne e.symm⟩
  case ins2SpillNone target d k rest hpc hprog hp =>
    right
    intro k₁ p₁ h₁ hids
    have hne : k₁ ≠ k := fun e => by subst e; simp only at h₁; rw [hp] at h₁; cases h₁
    refine other k k₁ (curKey_insert th d k true rest hprog) hne p₁ h₁ hids ?_
    intro hb
    exact (mem_unlist _ _ _ _).2 ⟨hb, fun ⟨_, e⟩ => hne e⟩
  case ins3Some size n d k sp rest hpc hprog =>
    right
    apply keep rfl (fun _ hb => List.mem_cons_of_mem _ hb)
    intro k₁ b hw
    right
    obtain ⟨hk, hw⟩ := hw
    rw [curKey_insert th d k sp rest hprog] at hk
    cases hk
    simp only [hpc] at hw
    rcases hw with ⟨m, hm⟩ | hm | ⟨s, hs⟩
    · cases hm
    · cases hm
    · cases hs; simp
  case remHit d k rest p hpc hprog hg hp hd =>
    right
    intro k₁ p₁ h₁ hids
    simp only [pget_pset] at h₁
    split at h₁
    · rename_i e; subst e; cases h₁
      have hpne : p.ids ≠ [] := fun e => by simp [e] at hd
      rcases hR k p hp hpne with hin | hw
      · exact Or.inl hin
      · exact Or.inr (any_keep c t _ th _ _ hth hw (fun hw' => by simp [willList, hpc] at hw'))
    · rename_i hne
      exact other k k₁ (curKey_remove th d k rest hprog) (fun e => hne e.symm) p₁ h₁ hids (fun hb => hb)
  case rem1Erase b d k rest p hpc hprog hp he0 =>
    right
    intro k₁ p₁ h₁ hids
    simp only [pget_perase] at h₁
    split at h₁
    · cases h₁
    · rename_i hne
      exact other k k₁ (curKey_remove th d k rest hprog) (fun e => hne e.symm) p₁ h₁ hids (fun hb => hb)
  case rem3Drop b d k rest hpc hprog hc =>
    right
    intro k₁ p₁ h₁ hids
    simp only at h₁
    rcases hR k₁ p₁ h₁ hids with hin | hw
    · left
      refine (mem_unlist _ _ _ _).2 ⟨hin, ?_⟩
      rintro ⟨e1, e2⟩
      simp only at e1 e2
      subst e2
      rcases hc with hc | ⟨q, hq, hqb⟩
      · rw [hc] at h₁; cases h₁
      · rw [hq] at h₁; cases h₁; exact hqb e1
    · exact Or.inr (any_keep c t _ th _ _ hth hw (fun hw' => by simp [willList, hpc] at hw'))
  case cmp1Empty skip assign rest hpc hprog he =>
    right
    intro k₁ p₁ h₁ _
    simp only at h₁
    rw [pget_none_of_isEmpty _ he] at h₁; cases h₁
  case cmp1Clear skip assign rest hpc hprog =>
    left
    rw [any_after c t _ th _ _ hth]
    exact Or.inl rfl
  case cmp2 skip assign rest hpc hprog =>
    right
    intro k₁ p₁ h₁ _
    simp only [pget_rebucket] at h₁
    cases hq : pget c.sh.post k₁ with
    | none => simp [hq] at h₁
    | some q =>
      simp only [hq, Option.map_some, Option.some.injEq] at h₁
      subst h₁
      exact Or.inl (mem_rebuild assign k₁ _ q hq)

theorem listed_act (c : Cfg) (h : Inv c) (t : Nat) (th : Thread) (hth : c.threads[t]? = some th)
    {sh' : Shared} {th' : Thread} {evs : List Ev} (hact : Act c t th sh' th' evs) :
    Any (after c t sh' th' evs) (fun x => x.pc = PC.cmp2) ∨ ListedOK sh' (Any (after c t sh' th' evs)) := by
  rcases h.listedI with ⟨i, x, hi, hx⟩ | hR
  · by_cases e : i = t
    · subst e
      rw [hth] at hi; cases hi
      -- the acting thread is the compactor in the middle of its rebuild: only `cmp2` applies
      cases hact <;> first | (exfalso; simp_all; done) | skip
      case cmp2 skip assign rest hpc hprog =>
        right
        intro k₁ p₁ h₁ _
        simp only [pget_rebucket] at h₁
        cases hq : pget c.sh.post k₁ with
        | none => simp [hq] at h₁
        | some q =>
          simp only [hq, Option.map_some, Option.some.injEq] at h₁
          subst h₁
          exact Or.inl (mem_rebuild assign k₁ _ q hq)
    · exact (no_act_beside_compactor c h t th hth i x hi e (by simp [PC.isCmp, hx]) hact).elim
  · exact listed_act_R c h t th hth hR hact

theorem inv_act (c : Cfg) (h : Inv c) (t : Nat) (th : Thread) (hth : c.threads[t]? = some th)
    {sh' : Shared} {th' : Thread} {evs : List Ev} (hact : Act c t th sh' th' evs) :
    Inv (after c t sh' th' evs) :=
  { keyed := keyed_act c h t th hth hact
    posted := posted_act c h t th hth hact
    nonempty := nonempty_act c h t th hth hact
    listedI := listed_act c h t th hth hact
    excl := excl_act c h t th hth hact
    nodup := nodup_act c h t th hact
    uniq := uniq_act c h t th hact }

theorem inv_step (t : Nat) (c c' : Cfg) (h : Inv c) (hs : step t c = some c') : Inv c' := by
  obtain ⟨th, sh', th', evs, hth, hact, rfl⟩ := step_act t c c' hs
  exact inv_act c h t th hth hact

end BTreeConc
end AndaVerif
