import AndaVerif.Proofs.BeliefCollect
/-
The merge loop of `aggregate` (`scan` / `addCand`) never indexes out of range and equals a closed
form `addSpec`: the first overlapping group absorbs the candidate and every later overlapping
group, in order; the groups that do not overlap keep their relative order; without any overlap the
candidate becomes a new last group.
-/
namespace AndaVerif.Belief

/-- Does group `g` share a key with `keys`? (the loop's test, on the candidate's own keys) -/
def hit (keys : List Key) (g : Group) : Bool := overlaps g.1 keys

def hitsOf (keys : List Key) (gs : List Group) : List Group := gs.filter (hit keys)
def missesOf (keys : List Key) (gs : List Group) : List Group := gs.filter (fun g => !hit keys g)

/-- Keys of a list of groups, concatenated. -/
def flatKeys (gs : List Group) : List Key := gs.flatMap (·.1)

/-- Running maximum of the groups' confidences. -/
def maxConf (c : Int) (gs : List Group) : Int := gs.foldl (fun m h => max m h.2) c

/-- Closed form of one iteration of `for candidate in side`. -/
def addSpec (keys : List Key) (conf : Int) : List Group → List Group
  | [] => [(keys, conf)]
  | g :: gs =>
    if hit keys g then
      (g.1 ++ keys ++ flatKeys (hitsOf keys gs), maxConf (max g.2 conf) (hitsOf keys gs)) :: missesOf keys gs
    else g :: addSpec keys conf gs

theorem scan_merged (keys : List Key) (conf : Int) (todo : List Group) :
    ∀ (done : List Group) (t : Nat) (tg : Group), done[t]? = some tg →
      scan keys conf done todo (some t) =
        some (done.set t (tg.1 ++ flatKeys (hitsOf keys todo), maxConf tg.2 (hitsOf keys todo)) ++ missesOf keys todo,
              some t) := by
  induction todo with
  | nil =>
    intro done t tg h
    obtain ⟨hlt, hget⟩ := List.getElem?_eq_some_iff.mp h
    simp [scan, hitsOf, missesOf, flatKeys, maxConf, ← hget]
  | cons g todo ih =>
    intro done t tg h
    obtain ⟨hlt, hget⟩ := List.getElem?_eq_some_iff.mp h
    unfold scan
    by_cases hg : overlaps g.1 keys = true
    · have hnot : ¬ t > done.length := by omega
      simp only [hg, if_true, hnot, if_false, h]
      rw [ih (done.set t (tg.1 ++ g.1, max tg.2 g.2)) t (tg.1 ++ g.1, max tg.2 g.2)
        (by simp [hlt])]
      have hh : hit keys g = true := hg
      simp [hitsOf, missesOf, flatKeys, maxConf, hh, List.set_set, List.append_assoc]
    · have hh : hit keys g = false := by simpa [hit] using hg
      rw [if_neg hg]
      rw [ih (done ++ [g]) t tg (by rw [List.getElem?_append_left hlt]; exact h)]
      simp [hitsOf, missesOf, hh, List.set_append_left _ _ hlt]

/-- The result of the loop body (scan, then push when nothing merged), started after `done`. -/
def finish (keys : List Key) (conf : Int) : Option (List Group × Option Nat) → Option (List Group)
  | none => none
  | some (gs, some _) => some gs
  | some (gs, none) => some (gs ++ [(keys, conf)])

theorem scan_fresh (keys : List Key) (conf : Int) (todo : List Group) :
    ∀ done : List Group,
      finish keys conf (scan keys conf done todo none) = some (done ++ addSpec keys conf todo) := by
  induction todo with
  | nil => intro done; simp [scan, finish, addSpec]
  | cons g todo ih =>
    intro done
    unfold scan
    by_cases hg : overlaps g.1 keys = true
    · have hh : hit keys g = true := hg
      simp only [hg, if_true]
      rw [scan_merged keys conf todo (done ++ [(g.1 ++ keys, max g.2 conf)]) done.length
        (g.1 ++ keys, max g.2 conf) (by simp)]
      simp [finish, addSpec, hh, List.set_append_right]
    · have hh : hit keys g = false := by simpa [hit] using hg
      rw [if_neg hg]
      rw [ih (done ++ [g])]
      simp [addSpec, hh]

/-- **The merge loop never panics and equals its closed form.** -/
theorem addCand_eq (groups : List Group) (keys : List Key) (conf : Int) :
    addCand groups keys conf = some (addSpec keys conf groups) := by
  have := scan_fresh keys conf groups []
  unfold addCand
  unfold finish at this
  split <;> simp_all

/-- The grouping loop in closed form. -/
def groupsSpec (gs : List Group) (cands : List Cand) : List Group :=
  cands.foldl (fun gs c => addSpec c.keys c.conf gs) gs

theorem groupsOf_eq (gs : List Group) (cands : List Cand) :
    groupsOf gs cands = some (groupsSpec gs cands) := by
  induction cands generalizing gs with
  | nil => rfl
  | cons c rest ih =>
    unfold groupsOf
    rw [addCand_eq]
    simp only [ih]
    rfl

/-- `aggregate` never fails. -/
theorem aggregate_eq (den : Nat) (cands : List Cand) (opposing : Bool) :
    aggregate den cands opposing =
      if (cands.filter (onSide opposing)).isEmpty then some ({ num := 0, den := 1 }, 0)
      else some (scoreOf den (groupsSpec [] (cands.filter (onSide opposing))),
                 (groupsSpec [] (cands.filter (onSide opposing))).length) := by
  unfold aggregate
  simp only [groupsOf_eq]

/-- Number of groups after one candidate: the groups it does not touch, plus one. -/
theorem addSpec_length (keys : List Key) (conf : Int) (gs : List Group) :
    (addSpec keys conf gs).length = (missesOf keys gs).length + 1 := by
  induction gs with
  | nil => simp [addSpec, missesOf]
  | cons g gs ih =>
    unfold addSpec
    by_cases hh : hit keys g = true
    · simp [hh, missesOf]
    · have hf : hit keys g = false := by simpa using hh
      simp [hf, missesOf, ih]

theorem missesOf_length_le (keys : List Key) (gs : List Group) : (missesOf keys gs).length ≤ gs.length :=
  List.length_filter_le _ _

theorem hits_misses_length (keys : List Key) (gs : List Group) :
    (hitsOf keys gs).length + (missesOf keys gs).length = gs.length := by
  induction gs with
  | nil => rfl
  | cons g gs ih =>
    by_cases hh : hit keys g = true
    · simp [hitsOf, missesOf, hh] at ih ⊢; omega
    · have hf : hit keys g = false := by simpa using hh
      simp [hitsOf, missesOf, hf] at ih ⊢; omega

end AndaVerif.Belief
