import AndaVerif.Proofs.ConcLinRT
/-
Corollaries of the linearization for particular call sets: several removes of one document.
-/
namespace AndaVerif.ConcColl

/-- a legal sequential history of removes of one live document: the oldest one returns it, every
other one returns `None` -/
theorem explains_removes (conf : Config) (ops : List Op) (id : Nat) (d : Doc)
    (hops : ∀ (x : Nat) (op : Op), ops[x]? = some op → op = .rm id)
    (log : List (Nat × Res)) (a0 a' : SpecState) (h : Explains conf ops log a0 a')
    (h0 : a0.docs id = some d) :
    (log = [] ∧ a'.docs id = some d) ∨
    (a'.docs id = none ∧ ∃ x, (x, Res.doc d) ∈ log ∧
      ∀ (p : Nat × Res), p ∈ log → p = (x, Res.doc d) ∨ p.2 = .noDoc) := by
  induction h with
  | nil a => exact Or.inl ⟨rfl, h0⟩
  | cons log t r op a a1 a2 _ hop hspec ih =>
    have hrm := hops t op hop
    subst hrm
    right
    rcases ih h0 with ⟨rfl, hd⟩ | ⟨hn, x, hx, hall⟩
    · -- the first remove: it finds the document
      cases hspec with
      | rmMissing _ _ hm => rw [hd] at hm; cases hm
      | rmOk _ d' _ hd' =>
        rw [hd] at hd'; cases hd'
        refine ⟨by simp [setDoc], t, List.mem_cons_self, ?_⟩
        intro p hp
        simp only [List.mem_cons, List.not_mem_nil, or_false] at hp
        exact Or.inl hp
    · -- a later one: the document is gone
      cases hspec with
      | rmMissing _ _ hm =>
        refine ⟨hn, x, List.mem_cons_of_mem _ hx, ?_⟩
        intro p hp
        rcases List.mem_cons.mp hp with rfl | hp'
        · exact Or.inr rfl
        · exact hall p hp'
      | rmOk _ d' _ hd' => rw [hn] at hd'; cases hd'

end AndaVerif.ConcColl
