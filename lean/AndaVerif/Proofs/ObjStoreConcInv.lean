import AndaVerif.Proofs.ObjStoreGc
import AndaVerif.Model.ObjStoreConc
/-
Invariant of the interleaving model (`Model/ObjStoreConc.lean`).
-/
namespace AndaVerif.ObjStore.Conc
open AndaVerif.ObjStore Gen.SidecarOrder

/-- the writer may still commit generation `g` -/
def Pending (t : Wr) (g : Gen) : Prop :=
  t.g = some g ∧ t.committed = false ∧ t.aborted = false ∧ t.del = false

/-- the payload path the writer's commit point will reference -/
def newPath (t : Wr) : Option BPath := if t.del then none else t.g.map (fun g => .gen t.k g)

def gcCands : GcPc → List BPath
  | .idle => []
  | .sweeping cs => cs
  | .cand p _ rest => p :: rest

structure CInv (c : Cfg) : Prop where
  be : BInv c.be c.nextId
  ids : ∀ (i : Nat) (t : Wr) (g : Gen), c.ws[i]? = some t → t.g = some g → g.id < c.nextId
  distinct : ∀ (i j : Nat) (t u : Wr) (g g' : Gen), c.ws[i]? = some t → c.ws[j]? = some u → i ≠ j → t.g = some g → u.g = some g' → g.id ≠ g'.id
  /-- a pending writer that has not written its payload: the path is free -/
  unwritten : ∀ (i : Nat) (t : Wr) (g : Gen), c.ws[i]? = some t → Pending t g → t.wbytes = none → aget c.be (.gen t.k g) = none
  /-- a pending writer that has written its payload: the payload is there and the registration is live -/
  written : ∀ (i : Nat) (t : Wr) (g : Gen) (b : Bytes), c.ws[i]? = some t → Pending t g → t.wbytes = some b →
    (∃ bt, aget c.be (.gen t.k g) = some ⟨.blob b, bt⟩) ∧ t.tracked = true ∧ t.untracked = false
  registered : ∀ (i : Nat) (t : Wr) (g : Gen), c.ws[i]? = some t → t.g = some g → t.tracked = true → t.untracked = false → (t.k, g) ∈ c.inflight
  /-- the generation of a pending writer is referenced by nobody ... -/
  virginDoc : ∀ (i : Nat) (t : Wr) (g : Gen), c.ws[i]? = some t → Pending t g → Unreferenced c.be (.gen t.k g)
  /-- ... is nobody's replaced payload ... -/
  virginRepl : ∀ (i : Nat) (t : Wr) (g : Gen) (j : Nat) (u : Wr), c.ws[i]? = some t → Pending t g → c.ws[j]? = some u → u.replaced ≠ some (.gen t.k g)
  /-- ... and is not the candidate the collector has armed (past its in-flight check) -/
  virginGc : ∀ (i : Nat) (t : Wr) (g : Gen) (p : BPath) (stage : Nat) (rest : List BPath), c.ws[i]? = some t → Pending t g → c.gc = .cand p stage rest → 1 ≤ stage → p ≠ .gen t.k g
  cands : ∀ (p : BPath), p ∈ gcCands c.gc → isPayloadPath p = true ∧ (∀ (k : Path) (g : Gen), p = .gen k g → g.id < c.nextId) ∧
    (∀ (i : Nat) (t : Wr) (g : Gen), c.ws[i]? = some t → Pending t g → t.wbytes = none → p ≠ .gen t.k g)
  /-- past the re-read of the commit point: nothing references the candidate -/
  armed : ∀ (p : BPath) (stage : Nat) (rest : List BPath), c.gc = .cand p stage rest → 2 ≤ stage → Unreferenced c.be p
  /-- a committed writer's pending reclaim targets an unreferenced payload -/
  reclaim : ∀ (i : Nat) (t : Wr) (old : BPath), c.ws[i]? = some t → t.committed = true → t.reclaimed = false → t.replaced = some old →
    some old ≠ newPath t → Unreferenced c.be old
  /-- program-order facts about one writer's flags -/
  flags : ∀ (i : Nat) (t : Wr), c.ws[i]? = some t →
    (t.g = none → t.wbytes = none ∧ t.tracked = false) ∧ (t.tracked = false → t.untracked = false) ∧
    (t.committed = true → t.del = false → t.wbytes ≠ none) ∧ (t.untracked = true → t.committed = true ∨ t.aborted = true)
  replShape : ∀ (i : Nat) (t : Wr) (old : BPath), c.ws[i]? = some t → t.replaced = some old →
    isPayloadPath old = true ∧ (∀ (k : Path) (g : Gen), old = .gen k g → g.id < c.nextId) ∧ ∃ go, old = payloadPath t.k go

theorem getElem?_set_cases {α : Type} (l : List α) (i j : Nat) (a x : α) (h : (l.set i a)[j]? = some x) :
    (j = i ∧ x = a) ∨ (j ≠ i ∧ l[j]? = some x) := by
  rw [List.getElem?_set] at h
  by_cases hij : i = j
  · subst hij
    simp only [if_true] at h
    split at h
    · simp only [Option.some.injEq] at h; exact Or.inl ⟨rfl, h.symm⟩
    · simp at h
  · simp only [hij, if_false] at h
    exact Or.inr ⟨fun h' => hij h'.symm, h⟩

theorem unreferenced_aset_mt {be : Backend} {p : BPath} (h : Unreferenced be p) (k : Path) (d : Doc) (t : Nat)
    (hne : payloadPath k d.gen ≠ p) : Unreferenced (aset be (.mt k) ⟨.doc d, t⟩) p := by
  intro x d' hd heq
  rw [docAt_aset_mt] at hd
  by_cases hx : x = k
  · subst hx
    simp only [if_true, Option.some.injEq] at hd
    subst hd
    exact hne heq
  · simp only [hx, if_false] at hd
    exact h x d' hd heq

theorem unreferenced_of_docAt_eq {be be' : Backend} {p : BPath} (h : Unreferenced be p)
    (hd : ∀ x, docAt be' x = docAt be x) : Unreferenced be' p := by
  intro x d hx
  rw [hd x] at hx
  exact h x d hx

theorem unreferenced_adel_mt {be : Backend} {p : BPath} (h : Unreferenced be p) (k : Path) :
    Unreferenced (adel be (.mt k)) p := by
  intro x d hd heq
  rw [docAt_adel_mt] at hd
  by_cases hx : x = k
  · simp [hx] at hd
  · simp only [hx, if_false] at hd
    exact h x d hd heq

theorem isPayloadPath_ne_mt {p : BPath} (h : isPayloadPath p = true) : ∀ x, p ≠ .mt x := by
  intro x hx
  subst hx
  simp [isPayloadPath] at h

theorem isPayloadPath_payloadPath (k : Path) (g : Option Gen) : isPayloadPath (payloadPath k g) = true := by
  cases g <;> rfl

end AndaVerif.ObjStore.Conc

namespace AndaVerif.ObjStore.Conc
open AndaVerif.ObjStore Gen.SidecarOrder

theorem inv_tick {c : Cfg} (h : CInv c) : CInv { c with clock := c.clock + 1 } :=
  ⟨h.be, h.ids, h.distinct, h.unwritten, h.written, h.registered, h.virginDoc, h.virginRepl, h.virginGc, h.cands,
   h.armed, h.reclaim, h.flags, h.replShape⟩

/-- changing only the collector's program counter -/
theorem inv_gc_pc {c : Cfg} (h : CInv c) (pc : GcPc)
    (hvg : ∀ (i : Nat) (t : Wr) (g : Gen) (p : BPath) (stage : Nat) (rest : List BPath), c.ws[i]? = some t → Pending t g →
      pc = .cand p stage rest → 1 ≤ stage → p ≠ .gen t.k g)
    (hc : ∀ (p : BPath), p ∈ gcCands pc → isPayloadPath p = true ∧ (∀ (k : Path) (g : Gen), p = .gen k g → g.id < c.nextId) ∧
      (∀ (i : Nat) (t : Wr) (g : Gen), c.ws[i]? = some t → Pending t g → t.wbytes = none → p ≠ .gen t.k g))
    (ha : ∀ (p : BPath) (stage : Nat) (rest : List BPath), pc = .cand p stage rest → 2 ≤ stage → Unreferenced c.be p) :
    CInv { c with gc := pc } :=
  ⟨h.be, h.ids, h.distinct, h.unwritten, h.written, h.registered, h.virginDoc, h.virginRepl, hvg, hc, ha, h.reclaim,
   h.flags, h.replShape⟩

theorem inv_memo {c : Cfg} (h : CInv c) (m : List (Path × Option PayloadRef)) : CInv { c with gcMemo := m } :=
  ⟨h.be, h.ids, h.distinct, h.unwritten, h.written, h.registered, h.virginDoc, h.virginRepl, h.virginGc, h.cands,
   h.armed, h.reclaim, h.flags, h.replShape⟩

/-- readers and the ghost history are invisible to the writer / collector invariant -/
theorem inv_ghost {c : Cfg} (h : CInv c) (rs : List Rd) (hist : List (Path × Doc × Bytes)) :
    CInv { c with rs := rs, hist := hist } :=
  ⟨h.be, h.ids, h.distinct, h.unwritten, h.written, h.registered, h.virginDoc, h.virginRepl, h.virginGc, h.cands,
   h.armed, h.reclaim, h.flags, h.replShape⟩

theorem inv_gcList {c : Cfg} (h : CInv c) (cands : List BPath) : CInv (step c (.gcList cands)) := by
  simp only [step]
  by_cases hall : (cands.all (fun p => isPayloadPath p && (aget c.be p).isSome)) = true
  · simp only [hall, if_true]
    -- what the guard says about a freshly listed candidate
    have hnew : ∀ p, p ∈ cands → isPayloadPath p = true ∧ (∀ (k : Path) (g : Gen), p = .gen k g → g.id < c.nextId) ∧
        (∀ (i : Nat) (t : Wr) (g : Gen), c.ws[i]? = some t → Pending t g → t.wbytes = none → p ≠ .gen t.k g) := by
      intro p hp
      have := List.all_eq_true.1 hall p hp
      simp only [Bool.and_eq_true] at this
      refine ⟨this.1, ?_, ?_⟩
      · intro k g hpg
        subst hpg
        exact h.be.fresh k g this.2
      · intro i t g hi hpend hw hpg
        subst hpg
        have := h.unwritten i t g hi hpend hw
        simp [this] at *
    cases hgc : c.gc with
    | cand p s r => exact h
    | idle =>
        simp only []
        have h1 : CInv { c with gc := .sweeping cands } := by
          apply inv_gc_pc h
          · intro i t g p stage rest _ _ hpc; cases hpc
          · intro p hp; exact hnew p hp
          · intro p stage rest hpc; cases hpc
        exact inv_memo h1 []
    | sweeping cs =>
        simp only []
        apply inv_gc_pc h
        · intro i t g p stage rest _ _ hpc; cases hpc
        · intro p hp
          simp only [gcCands, List.mem_append] at hp
          rcases hp with hp | hp
          · exact h.cands p (by rw [hgc]; exact hp)
          · exact hnew p hp
        · intro p stage rest hpc; cases hpc
  · simp only [hall]; exact h

/-- the per-candidate program in the order read from the source -/
theorem gcCheck_std (c : Cfg) (p : BPath) (stage : Nat) (rest : List BPath) :
    gcCheck c p stage rest =
      match stage with
      | 0 => if isInFlight c.inflight p then { c with gc := .sweeping rest } else { c with gc := .cand p 1 rest }
      | 1 => if isReferenced c.be p then { c with gc := .sweeping rest } else { c with gc := .cand p 2 rest }
      | 2 => { c with be := adel c.be p, gc := .sweeping rest }
      | _ => { c with gc := .sweeping rest } := by
  unfold gcCheck gcRecheck
  rw [gen_gc_candidate_order]
  match stage with
  | 0 => rfl
  | 1 => simp [gen_gc_recheck_per_candidate]
  | 2 => rfl
  | n + 3 => simp

end AndaVerif.ObjStore.Conc

namespace AndaVerif.ObjStore.Conc
open AndaVerif.ObjStore Gen.SidecarOrder

/-- deleting an unreferenced payload object that is not the written payload of a pending writer -/
theorem inv_del_payload {c : Cfg} (h : CInv c) (p : BPath) (hp : isPayloadPath p = true) (hu : Unreferenced c.be p)
    (hw : ∀ (i : Nat) (t : Wr) (g : Gen) (b : Bytes), c.ws[i]? = some t → Pending t g → t.wbytes = some b → p ≠ .gen t.k g) :
    CInv { c with be := adel c.be p } := by
  have hne := isPayloadPath_ne_mt hp
  have hdoc : ∀ x, docAt (adel c.be p) x = docAt c.be x := docAt_adel_payload c.be p hne
  refine ⟨h.be.delUnref p hne hu, h.ids, h.distinct, ?_, ?_, h.registered, ?_, h.virginRepl, h.virginGc, h.cands, ?_, ?_,
    h.flags, h.replShape⟩
  · intro i t g hi hpend hwb
    simp only
    rw [aget_adel]
    split
    · rfl
    · exact h.unwritten i t g hi hpend hwb
  · intro i t g b hi hpend hwb
    obtain ⟨⟨bt, hb⟩, h2, h3⟩ := h.written i t g b hi hpend hwb
    refine ⟨⟨bt, ?_⟩, h2, h3⟩
    simp only
    rw [aget_adel_ne _ _ _ (fun heq => hw i t g b hi hpend hwb heq.symm)]
    exact hb
  · intro i t g hi hpend
    exact unreferenced_of_docAt_eq (h.virginDoc i t g hi hpend) hdoc
  · intro q stage rest hgc hs
    exact unreferenced_of_docAt_eq (h.armed q stage rest hgc hs) hdoc
  · intro i t old hi hc hr hrep hne'
    exact unreferenced_of_docAt_eq (h.reclaim i t old hi hc hr hrep hne') hdoc

theorem inv_gcStep {c : Cfg} (h : CInv c) : CInv (step c .gcStep) := by
  simp only [step]
  cases hgc : c.gc with
  | idle => exact h
  | sweeping cs =>
      cases cs with
      | nil =>
          apply inv_gc_pc h
          · intro i t g p stage rest _ _ hpc; cases hpc
          · intro p hp; simp [gcCands] at hp
          · intro p stage rest hpc; cases hpc
      | cons p rest =>
          apply inv_gc_pc h
          · intro i t g q stage rest' _ _ hpc hs
            simp only [GcPc.cand.injEq] at hpc
            omega
          · intro q hq
            exact h.cands q (by rw [hgc]; exact hq)
          · intro q stage rest' hpc hs
            simp only [GcPc.cand.injEq] at hpc
            omega
  | cand p stage rest =>
      simp only []
      rw [gcCheck_std]
      have hcand : ∀ q, q ∈ rest → q ∈ gcCands c.gc := by
        intro q hq; rw [hgc]; simp [gcCands, hq]
      have hpc : p ∈ gcCands c.gc := by rw [hgc]; simp [gcCands]
      have toRest : CInv { c with gc := .sweeping rest } := by
        apply inv_gc_pc h
        · intro i t g q st r _ _ hpc'; cases hpc'
        · intro q hq; exact h.cands q (hcand q hq)
        · intro q st r hpc'; cases hpc'
      match stage with
      | 0 =>
          simp only []
          by_cases hif : isInFlight c.inflight p
          · simp only [hif, if_true]; exact toRest
          · simp only [hif]
            apply inv_gc_pc h
            · intro i t g q st r hi hpend hpc' _
              simp only [GcPc.cand.injEq] at hpc'
              obtain ⟨hq, _, _⟩ := hpc'
              subst hq
              intro heq
              cases hwb : t.wbytes with
              | none => exact (h.cands p hpc).2.2 i t g hi hpend hwb heq
              | some b =>
                  obtain ⟨_, htr, hun⟩ := h.written i t g b hi hpend hwb
                  have := h.registered i t g hi hpend.1 htr hun
                  subst heq
                  simp [isInFlight, this] at hif
            · intro q hq
              exact h.cands q (by rw [hgc]; exact hq)
            · intro q st r hpc' hs
              simp only [GcPc.cand.injEq] at hpc'
              omega
      | 1 =>
          simp only []
          by_cases hir : isReferenced c.be p
          · simp only [hir, if_true]; exact toRest
          · simp only [hir]
            apply inv_gc_pc h
            · intro i t g q st r hi hpend hpc' _
              simp only [GcPc.cand.injEq] at hpc'
              obtain ⟨hq, _, _⟩ := hpc'
              subst hq
              exact h.virginGc i t g p 1 rest hi hpend hgc (Nat.le_refl 1)
            · intro q hq
              exact h.cands q (by rw [hgc]; exact hq)
            · intro q st r hpc' _
              simp only [GcPc.cand.injEq] at hpc'
              obtain ⟨hq, _, _⟩ := hpc'
              subst hq
              exact (unreferenced_of_not_isReferenced (by simpa using hir)).2
      | 2 =>
          simp only []
          have hdel := inv_del_payload h p (h.cands p hpc).1 (h.armed p 2 rest hgc (Nat.le_refl 2))
            (fun i t g b hi hpend _ => h.virginGc i t g p 2 rest hi hpend hgc (by omega))
          have := inv_gc_pc hdel (.sweeping rest)
            (by intro i t g q st r _ _ hpc'; cases hpc')
            (by
              intro q hq
              simp only [gcCands] at hq
              exact hdel.cands q (by simp only []; rw [hgc]; simp [gcCands, hq]))
            (by intro q st r hpc'; cases hpc')
          exact this
      | n + 3 => simp only []; exact toRest

end AndaVerif.ObjStore.Conc

namespace AndaVerif.ObjStore.Conc
open AndaVerif.ObjStore Gen.SidecarOrder

theorem pending_k_g {t t' : Wr} {g : Gen} (hk : t'.k = t.k) (h : Pending t' g → Pending t g) (hp : Pending t' g) :
    (BPath.gen t'.k g) = .gen t.k g ∧ Pending t g := ⟨by rw [hk], h hp⟩

/-- a writer changes only flags that no shared-state clause depends on (abort, reclaim bookkeeping);
the lock set may change -/
theorem inv_local {c : Cfg} (h : CInv c) (idx : Nat) (t t' : Wr) (hi : c.ws[idx]? = some t) (locks : List Path)
    (hk : t'.k = t.k) (hg : t'.g = t.g) (hpend : ∀ g, Pending t' g → Pending t g)
    (hwb : t'.wbytes = t.wbytes)
    (hwr : ∀ (g : Gen) (b : Bytes), Pending t' g → t'.wbytes = some b → t'.tracked = true ∧ t'.untracked = false)
    (hreg : ∀ (g : Gen), t'.g = some g → t'.tracked = true → t'.untracked = false → (t.k, g) ∈ c.inflight)
    (hvr : ∀ (i : Nat) (x : Wr) (g : Gen), c.ws[i]? = some x → Pending x g → t'.replaced ≠ some (.gen x.k g))
    (hshape : ∀ old, t'.replaced = some old →
      isPayloadPath old = true ∧ (∀ (k : Path) (g : Gen), old = .gen k g → g.id < c.nextId) ∧ ∃ go, old = payloadPath t.k go)
    (hrec : ∀ old, t'.committed = true → t'.reclaimed = false → t'.replaced = some old → some old ≠ newPath t' →
      Unreferenced c.be old)
    (hfl : (t'.g = none → t'.wbytes = none ∧ t'.tracked = false) ∧ (t'.tracked = false → t'.untracked = false) ∧
      (t'.committed = true → t'.del = false → t'.wbytes ≠ none) ∧ (t'.untracked = true → t'.committed = true ∨ t'.aborted = true)) :
    CInv { c with locks := locks, ws := c.ws.set idx t' } := by
  refine ⟨h.be, ?_, ?_, ?_, ?_, ?_, ?_, ?_, ?_, ?_, h.armed, ?_, ?_, ?_⟩
  · intro i x g hx hxg
    rcases getElem?_set_cases _ _ _ _ _ hx with ⟨rfl, rfl⟩ | ⟨_, hx'⟩
    · exact h.ids i t g hi (by rw [← hg]; exact hxg)
    · exact h.ids i x g hx' hxg
  · intro i j x y g g' hx hy hij hxg hyg
    rcases getElem?_set_cases _ _ _ _ _ hx with ⟨rfl, rfl⟩ | ⟨hne, hx'⟩
    · rcases getElem?_set_cases _ _ _ _ _ hy with ⟨rfl, rfl⟩ | ⟨_, hy'⟩
      · exact absurd rfl hij
      · exact h.distinct i j t y g g' hi hy' hij (by rw [← hg]; exact hxg) hyg
    · rcases getElem?_set_cases _ _ _ _ _ hy with ⟨rfl, rfl⟩ | ⟨_, hy'⟩
      · exact h.distinct i j x t g g' hx' hi hij hxg (by rw [← hg]; exact hyg)
      · exact h.distinct i j x y g g' hx' hy' hij hxg hyg
  · intro i x g hx hp hw
    rcases getElem?_set_cases _ _ _ _ _ hx with ⟨rfl, rfl⟩ | ⟨_, hx'⟩
    · rw [hk]; exact h.unwritten i t g hi (hpend g hp) (by rw [← hwb]; exact hw)
    · exact h.unwritten i x g hx' hp hw
  · intro i x g b hx hp hw
    rcases getElem?_set_cases _ _ _ _ _ hx with ⟨rfl, rfl⟩ | ⟨_, hx'⟩
    · rw [hk]
      exact ⟨(h.written i t g b hi (hpend g hp) (by rw [← hwb]; exact hw)).1, hwr g b hp hw⟩
    · exact h.written i x g b hx' hp hw
  · intro i x g hx hxg htr' hun'
    rcases getElem?_set_cases _ _ _ _ _ hx with ⟨rfl, rfl⟩ | ⟨_, hx'⟩
    · rw [hk]; exact hreg g hxg htr' hun'
    · exact h.registered i x g hx' hxg htr' hun'
  · intro i x g hx hp
    rcases getElem?_set_cases _ _ _ _ _ hx with ⟨rfl, rfl⟩ | ⟨_, hx'⟩
    · rw [hk]; exact h.virginDoc i t g hi (hpend g hp)
    · exact h.virginDoc i x g hx' hp
  · intro i x g j u hx hp hu
    -- the pending writer, as a writer of the old configuration
    have hx0 : ∃ x0, c.ws[i]? = some x0 ∧ Pending x0 g ∧ x0.k = x.k := by
      rcases getElem?_set_cases _ _ _ _ _ hx with ⟨rfl, rfl⟩ | ⟨_, hx'⟩
      · exact ⟨t, hi, hpend g hp, hk.symm⟩
      · exact ⟨x, hx', hp, rfl⟩
    obtain ⟨x0, hx0, hp0, hk0⟩ := hx0
    rw [← hk0]
    rcases getElem?_set_cases _ _ _ _ _ hu with ⟨rfl, rfl⟩ | ⟨_, hu'⟩
    · exact hvr i x0 g hx0 hp0
    · exact h.virginRepl i x0 g j u hx0 hp0 hu'
  · intro i x g p stage rest hx hp hgc hs
    rcases getElem?_set_cases _ _ _ _ _ hx with ⟨rfl, rfl⟩ | ⟨_, hx'⟩
    · rw [hk]; exact h.virginGc i t g p stage rest hi (hpend g hp) hgc hs
    · exact h.virginGc i x g p stage rest hx' hp hgc hs
  · intro p hp
    obtain ⟨h1, h2, h3⟩ := h.cands p hp
    refine ⟨h1, h2, ?_⟩
    intro i x g hx hpx hw
    rcases getElem?_set_cases _ _ _ _ _ hx with ⟨rfl, rfl⟩ | ⟨_, hx'⟩
    · rw [hk]; exact h3 i t g hi (hpend g hpx) (by rw [← hwb]; exact hw)
    · exact h3 i x g hx' hpx hw
  · intro i x old hx hc hr hrep hne
    rcases getElem?_set_cases _ _ _ _ _ hx with ⟨rfl, rfl⟩ | ⟨_, hx'⟩
    · exact hrec old hc hr hrep hne
    · exact h.reclaim i x old hx' hc hr hrep hne
  · intro i x hx
    rcases getElem?_set_cases _ _ _ _ _ hx with ⟨rfl, rfl⟩ | ⟨_, hx'⟩
    · exact hfl
    · exact h.flags i x hx'
  · intro i x old hx hrep
    rcases getElem?_set_cases _ _ _ _ _ hx with ⟨rfl, rfl⟩ | ⟨_, hx'⟩
    · rw [hk]; exact hshape old hrep
    · exact h.replShape i x old hx' hrep

end AndaVerif.ObjStore.Conc

namespace AndaVerif.ObjStore.Conc
open AndaVerif.ObjStore Gen.SidecarOrder

/-- the hypotheses of `inv_local` about `replaced` when it does not change -/
theorem repl_same {c : Cfg} (h : CInv c) (idx : Nat) (t t' : Wr) (hi : c.ws[idx]? = some t)
    (hrepl : t'.replaced = t.replaced) :
    (∀ (i : Nat) (x : Wr) (g : Gen), c.ws[i]? = some x → Pending x g → t'.replaced ≠ some (.gen x.k g)) ∧
    (∀ old, t'.replaced = some old →
      isPayloadPath old = true ∧ (∀ (k : Path) (g : Gen), old = .gen k g → g.id < c.nextId) ∧ ∃ go, old = payloadPath t.k go) :=
  ⟨fun i x g hx hp => by rw [hrepl]; exact h.virginRepl i x g idx t hx hp hi,
   fun old ho => h.replShape idx t old hi (by rw [← hrepl]; exact ho)⟩

/-- the hypotheses of `inv_local` about the registration when `g`, `tracked`, `untracked` do not change -/
theorem reg_same {c : Cfg} (h : CInv c) (idx : Nat) (t t' : Wr) (hi : c.ws[idx]? = some t)
    (hg : t'.g = t.g) (hwb : t'.wbytes = t.wbytes) (htr : t'.tracked = t.tracked) (hun : t'.untracked = t.untracked)
    (hpend : ∀ g, Pending t' g → Pending t g) :
    (∀ (g : Gen) (b : Bytes), Pending t' g → t'.wbytes = some b → t'.tracked = true ∧ t'.untracked = false) ∧
    (∀ (g : Gen), t'.g = some g → t'.tracked = true → t'.untracked = false → (t.k, g) ∈ c.inflight) :=
  ⟨fun g b hp hw => by rw [htr, hun]; exact (h.written idx t g b hi (hpend g hp) (by rw [← hwb]; exact hw)).2,
   fun g hgg ht hu => h.registered idx t g hi (by rw [← hg]; exact hgg) (by rw [← htr]; exact ht) (by rw [← hun]; exact hu)⟩

theorem inv_abort {c : Cfg} (h : CInv c) (idx : Nat) (t : Wr) (hi : c.ws[idx]? = some t) (hc : t.committed = false)
    (locks : List Path) : CInv { c with locks := locks, ws := c.ws.set idx { t with aborted := true } } := by
  obtain ⟨h1, h2⟩ := repl_same h idx t { t with aborted := true } hi rfl
  obtain ⟨f1, f2, f3, f4⟩ := h.flags idx t hi
  obtain ⟨r1, r2⟩ := reg_same h idx t { t with aborted := true } hi rfl rfl rfl rfl (fun g hp => by simp [Pending] at hp)
  apply inv_local h idx t { t with aborted := true } hi locks rfl rfl (fun g hp => by simp [Pending] at hp) rfl r1 r2 h1 h2
  · intro old hc'; simp [hc] at hc'
  · exact ⟨f1, f2, f3, fun _ => Or.inr rfl⟩

theorem inv_reclaim_flag {c : Cfg} (h : CInv c) (idx : Nat) (t : Wr) (hi : c.ws[idx]? = some t) :
    CInv { c with ws := c.ws.set idx { t with reclaimed := true } } := by
  obtain ⟨h1, h2⟩ := repl_same h idx t { t with reclaimed := true } hi rfl
  obtain ⟨r1, r2⟩ := reg_same h idx t { t with reclaimed := true } hi rfl rfl rfl rfl (fun g hp => hp)
  have := inv_local h idx t { t with reclaimed := true } hi c.locks rfl rfl (fun g hp => hp) rfl r1 r2 h1 h2
    (by intro old _ hr; simp at hr) (h.flags idx t hi)
  exact this

theorem inv_reclaim_del {c : Cfg} (h : CInv c) (idx : Nat) (t : Wr) (hi : c.ws[idx]? = some t) (old : BPath)
    (hc : t.committed = true) (hr : t.reclaimed = false) (hrep : t.replaced = some old) (hne : some old ≠ newPath t) :
    CInv { c with be := adel c.be old, ws := c.ws.set idx { t with reclaimed := true } } := by
  obtain ⟨hp, _, _⟩ := h.replShape idx t old hi hrep
  have hdel := inv_del_payload h old hp (h.reclaim idx t old hi hc hr hrep hne)
    (fun i x g b hx hpx _ heq => h.virginRepl i x g idx t hx hpx hi (by rw [hrep, heq]))
  exact inv_reclaim_flag hdel idx t hi

/-- the writer after `enter`: inside the critical section, the replaced payload path read -/
def enterWr (c : Cfg) (t : Wr) : Wr :=
  { t with entered := true, replaced := (docAt c.be t.k).map (fun d => payloadPath t.k d.gen) }

theorem inv_enter {c : Cfg} (h : CInv c) (idx : Nat) (t : Wr) (hi : c.ws[idx]? = some t) (hc : t.committed = false)
    (locks : List Path) : CInv { c with locks := locks, ws := c.ws.set idx (enterWr c t) } := by
  obtain ⟨r1, r2⟩ := reg_same h idx t (enterWr c t) hi rfl rfl rfl rfl (fun g hp => hp)
  apply inv_local h idx t (enterWr c t) hi locks rfl rfl (fun g hp => hp) rfl r1 r2
  · intro i x g hx hp heq
    simp only [enterWr] at heq
    cases hd : docAt c.be t.k with
    | none => simp [hd] at heq
    | some d =>
        simp only [hd, Option.map_some, Option.some.injEq] at heq
        exact h.virginDoc i x g hx hp t.k d hd heq
  · intro old ho
    simp only [enterWr] at ho
    cases hd : docAt c.be t.k with
    | none => simp [hd] at ho
    | some d =>
        simp only [hd, Option.map_some, Option.some.injEq] at ho
        subst ho
        refine ⟨isPayloadPath_payloadPath _ _, ?_, d.gen, rfl⟩
        intro k g hkg
        obtain ⟨b, bt, hb, _⟩ := h.be.ptr t.k d hd
        rw [hkg] at hb
        exact h.be.fresh k g (by simp [hb])
  · intro old hc'; simp [enterWr, hc] at hc'
  · exact h.flags idx t hi

end AndaVerif.ObjStore.Conc

namespace AndaVerif.ObjStore.Conc
open AndaVerif.ObjStore Gen.SidecarOrder

/-- changing only the in-flight registry -/
theorem inv_inflight {c : Cfg} (h : CInv c) (fl : List (Path × Gen))
    (hreg : ∀ (i : Nat) (t : Wr) (g : Gen), c.ws[i]? = some t → t.g = some g → t.tracked = true → t.untracked = false →
      (t.k, g) ∈ fl) : CInv { c with inflight := fl } :=
  ⟨h.be, h.ids, h.distinct, h.unwritten, h.written, hreg, h.virginDoc, h.virginRepl, h.virginGc, h.cands, h.armed,
   h.reclaim, h.flags, h.replShape⟩

theorem inv_track {c : Cfg} (h : CInv c) (idx : Nat) (t : Wr) (g : Gen) (hi : c.ws[idx]? = some t) (hg : t.g = some g)
    (htr : t.tracked = false) :
    CInv { c with inflight := (t.k, g) :: c.inflight, ws := c.ws.set idx { t with tracked := true } } := by
  have h1 : CInv { c with inflight := (t.k, g) :: c.inflight } :=
    inv_inflight h _ (fun i x gx hx hxg ht hu => List.mem_cons_of_mem _ (h.registered i x gx hx hxg ht hu))
  obtain ⟨f1, f2, f3, f4⟩ := h.flags idx t hi
  obtain ⟨s1, s2⟩ := repl_same h1 idx t { t with tracked := true } hi rfl
  have := inv_local h1 idx t { t with tracked := true } hi c.locks rfl rfl (fun g hp => hp) rfl
    (fun g' b _ _ => ⟨rfl, f2 htr⟩)
    (fun g' hg' _ _ => by
      simp only at hg'
      rw [hg] at hg'
      simp only [Option.some.injEq] at hg'
      subst hg'
      exact List.mem_cons_self)
    s1 s2
    (fun old hc hr hrep hne => h.reclaim idx t old hi hc hr hrep hne)
    ⟨fun hn => (by simp only at hn; rw [hg] at hn; cases hn), fun hf => (by simp at hf), f3, f4⟩
  exact this

theorem inv_untrack {c : Cfg} (h : CInv c) (idx : Nat) (t : Wr) (g : Gen) (hi : c.ws[idx]? = some t) (hg : t.g = some g)
    (htr : t.tracked = true) (hdone : t.committed = true ∨ t.aborted = true) :
    CInv { c with inflight := removeOne c.inflight (t.k, g), ws := c.ws.set idx { t with untracked := true } } := by
  have hnp : ∀ g', ¬ Pending ({ t with untracked := true } : Wr) g' := by
    intro g' hp
    rcases hdone with hd | hd
    · have := hp.2.1; simp [hd] at this
    · have := hp.2.2.1; simp [hd] at this
  obtain ⟨f1, f2, f3, f4⟩ := h.flags idx t hi
  obtain ⟨s1, s2⟩ := repl_same h idx t { t with untracked := true } hi rfl
  have h1 : CInv { c with ws := c.ws.set idx { t with untracked := true } } :=
    inv_local h idx t { t with untracked := true } hi c.locks rfl rfl (fun g' hp => absurd hp (hnp g')) rfl
      (fun g' b hp _ => absurd hp (hnp g'))
      (fun g' _ _ hu => by simp at hu)
      s1 s2
      (fun old hc hr hrep hne => h.reclaim idx t old hi hc hr hrep hne)
      ⟨f1, fun hf => (by simp only at hf; rw [htr] at hf; cases hf), f3, fun _ => hdone⟩
  have := inv_inflight h1 (removeOne c.inflight (t.k, g)) (by
    intro i x gx hx hxg ht hu
    simp only at hx
    rcases getElem?_set_cases _ _ _ _ _ hx with ⟨rfl, rfl⟩ | ⟨hne, hx'⟩
    · simp at hu
    · have hmem := h.registered i x gx hx' hxg ht hu
      have hid := h.distinct i idx x t gx g hx' hi hne hxg hg
      unfold removeOne
      rw [List.mem_erase_of_ne]
      · exact hmem
      · intro heq
        simp only [Prod.mk.injEq] at heq
        exact hid (by rw [heq.2]))
  exact this

end AndaVerif.ObjStore.Conc

namespace AndaVerif.ObjStore.Conc
open AndaVerif.ObjStore Gen.SidecarOrder

theorem inv_mint {c : Cfg} (h : CInv c) (idx : Nat) (t : Wr) (hi : c.ws[idx]? = some t) (hg : t.g = none)
    (hdel : t.del = false) :
    CInv { c with nextId := c.nextId + 1, ws := c.ws.set idx { t with g := some ⟨c.clock, c.nextId⟩ } } := by
  obtain ⟨f1, f2, f3, f4⟩ := h.flags idx t hi
  obtain ⟨hwb0, htr0⟩ := f1 hg
  have lt_of_cand : ∀ p, p ∈ gcCands c.gc → ∀ k, p ≠ .gen k ⟨c.clock, c.nextId⟩ := by
    intro p hp k heq
    have := (h.cands p hp).2.1 k _ heq
    simp at this
  have lt_of_repl : ∀ (j : Nat) (u : Wr), c.ws[j]? = some u → ∀ (k : Path), u.replaced ≠ some (BPath.gen k ⟨c.clock, c.nextId⟩) := by
    intro j u hu k heq
    have := (h.replShape j u _ hu heq).2.1 k _ rfl
    simp at this
  refine ⟨h.be.mono (Nat.le_succ _), ?_, ?_, ?_, ?_, ?_, ?_, ?_, ?_, ?_, h.armed, ?_, ?_, ?_⟩
  · intro i x g hx hxg
    rcases getElem?_set_cases _ _ _ _ _ hx with ⟨rfl, rfl⟩ | ⟨_, hx'⟩
    · simp only [Option.some.injEq] at hxg; subst hxg; exact Nat.lt_succ_self _
    · exact Nat.lt_succ_of_lt (h.ids i x g hx' hxg)
  · intro i j x y g g' hx hy hij hxg hyg
    rcases getElem?_set_cases _ _ _ _ _ hx with ⟨rfl, rfl⟩ | ⟨hne, hx'⟩
    · rcases getElem?_set_cases _ _ _ _ _ hy with ⟨rfl, rfl⟩ | ⟨_, hy'⟩
      · exact absurd rfl hij
      · simp only [Option.some.injEq] at hxg; subst hxg
        have := h.ids j y g' hy' hyg
        simp only; omega
    · rcases getElem?_set_cases _ _ _ _ _ hy with ⟨rfl, rfl⟩ | ⟨_, hy'⟩
      · simp only [Option.some.injEq] at hyg; subst hyg
        have := h.ids i x g hx' hxg
        simp only; omega
      · exact h.distinct i j x y g g' hx' hy' hij hxg hyg
  · intro i x g hx hp hw
    rcases getElem?_set_cases _ _ _ _ _ hx with ⟨rfl, rfl⟩ | ⟨_, hx'⟩
    · have hgg := hp.1
      simp only [Option.some.injEq] at hgg
      subst hgg
      cases hget : aget c.be (.gen t.k ⟨c.clock, c.nextId⟩) with
      | none => rfl
      | some e =>
          have := h.be.fresh t.k ⟨c.clock, c.nextId⟩ (by simp [hget])
          simp at this
    · exact h.unwritten i x g hx' hp hw
  · intro i x g b hx hp hw
    rcases getElem?_set_cases _ _ _ _ _ hx with ⟨rfl, rfl⟩ | ⟨_, hx'⟩
    · simp only at hw; rw [hwb0] at hw; cases hw
    · exact h.written i x g b hx' hp hw
  · intro i x g hx hxg ht hu
    rcases getElem?_set_cases _ _ _ _ _ hx with ⟨rfl, rfl⟩ | ⟨_, hx'⟩
    · simp only at ht; rw [htr0] at ht; cases ht
    · exact h.registered i x g hx' hxg ht hu
  · intro i x g hx hp
    rcases getElem?_set_cases _ _ _ _ _ hx with ⟨rfl, rfl⟩ | ⟨_, hx'⟩
    · have hgg := hp.1
      simp only [Option.some.injEq] at hgg
      subst hgg
      exact unreferenced_of_fresh h.be t.k _ (Nat.le_refl _)
    · exact h.virginDoc i x g hx' hp
  · intro i x g j u hx hp hu
    have hu0 : ∃ u0, c.ws[j]? = some u0 ∧ u.replaced = u0.replaced := by
      rcases getElem?_set_cases _ _ _ _ _ hu with ⟨rfl, rfl⟩ | ⟨_, hu'⟩
      · exact ⟨t, hi, rfl⟩
      · exact ⟨u, hu', rfl⟩
    obtain ⟨u0, hu0, hr0⟩ := hu0
    rw [hr0]
    rcases getElem?_set_cases _ _ _ _ _ hx with ⟨rfl, rfl⟩ | ⟨_, hx'⟩
    · have hgg := hp.1
      simp only [Option.some.injEq] at hgg
      subst hgg
      exact lt_of_repl j u0 hu0 t.k
    · exact h.virginRepl i x g j u0 hx' hp hu0
  · intro i x g p stage rest hx hp hgc hs
    rcases getElem?_set_cases _ _ _ _ _ hx with ⟨rfl, rfl⟩ | ⟨_, hx'⟩
    · have hgg := hp.1
      simp only [Option.some.injEq] at hgg
      subst hgg
      exact lt_of_cand p (by simp only at hgc; rw [hgc]; simp [gcCands]) t.k
    · exact h.virginGc i x g p stage rest hx' hp hgc hs
  · intro p hp
    obtain ⟨h1, h2, h3⟩ := h.cands p hp
    refine ⟨h1, fun k g hpg => Nat.lt_succ_of_lt (h2 k g hpg), ?_⟩
    intro i x g hx hpx hw
    rcases getElem?_set_cases _ _ _ _ _ hx with ⟨rfl, rfl⟩ | ⟨_, hx'⟩
    · have hgg := hpx.1
      simp only [Option.some.injEq] at hgg
      subst hgg
      exact lt_of_cand p hp t.k
    · exact h3 i x g hx' hpx hw
  · intro i x old hx hc hr hrep hne
    rcases getElem?_set_cases _ _ _ _ _ hx with ⟨rfl, rfl⟩ | ⟨_, hx'⟩
    · exact h.reclaim i t old hi hc hr hrep (by simp [newPath, hg, hdel])
    · exact h.reclaim i x old hx' hc hr hrep hne
  · intro i x hx
    rcases getElem?_set_cases _ _ _ _ _ hx with ⟨rfl, rfl⟩ | ⟨_, hx'⟩
    · exact ⟨fun hn => by simp at hn, f2, f3, f4⟩
    · exact h.flags i x hx'
  · intro i x old hx hrep
    have : ∃ x0, c.ws[i]? = some x0 ∧ x.replaced = x0.replaced ∧ x.k = x0.k := by
      rcases getElem?_set_cases _ _ _ _ _ hx with ⟨rfl, rfl⟩ | ⟨_, hx'⟩
      · exact ⟨t, hi, rfl, rfl⟩
      · exact ⟨x, hx', rfl, rfl⟩
    obtain ⟨x0, hx0, hr0, hk0⟩ := this
    obtain ⟨s1, s2, s3⟩ := h.replShape i x0 old hx0 (by rw [← hr0]; exact hrep)
    exact ⟨s1, fun k g hkg => Nat.lt_succ_of_lt (s2 k g hkg), by rw [hk0]; exact s3⟩

end AndaVerif.ObjStore.Conc

namespace AndaVerif.ObjStore.Conc
open AndaVerif.ObjStore Gen.SidecarOrder

theorem gen_path_ne_of_id {k k' : Path} {g g' : Gen} (h : g.id ≠ g'.id) : BPath.gen k g ≠ .gen k' g' := by
  intro heq
  simp only [BPath.gen.injEq] at heq
  exact h (by rw [heq.2])

theorem inv_payload {c : Cfg} (h : CInv c) (idx : Nat) (t : Wr) (g : Gen) (b : Bytes) (hi : c.ws[idx]? = some t)
    (hg : t.g = some g) (hdel : t.del = false) (hwb : t.wbytes = none) (hab : t.aborted = false) (htr : t.tracked = true) :
    CInv { c with be := aset c.be (.gen t.k g) ⟨.blob b, c.clock⟩, ws := c.ws.set idx { t with wbytes := some b } } := by
  obtain ⟨f1, f2, f3, f4⟩ := h.flags idx t hi
  have hcm : t.committed = false := by
    cases hc : t.committed with
    | false => rfl
    | true => exact absurd hwb (f3 hc hdel)
  have hpend : Pending t g := ⟨hg, hcm, hab, hdel⟩
  have hun : t.untracked = false := by
    cases hu : t.untracked with
    | false => rfl
    | true => rcases f4 hu with h1 | h1 <;> simp_all
  have hdoc : ∀ x, docAt (aset c.be (.gen t.k g) ⟨.blob b, c.clock⟩) x = docAt c.be x :=
    fun x => docAt_aset_payload c.be t.k (some g) _ x
  have hbe : BInv (aset c.be (.gen t.k g) ⟨.blob b, c.clock⟩) c.nextId := by
    have := h.be.putBlob t.k g b c.clock (h.virginDoc idx t g hi hpend)
    have hlt := h.ids idx t g hi hg
    rwa [Nat.max_eq_left (by omega)] at this
  -- other writers' generation paths are different objects
  have hother : ∀ (i : Nat) (x : Wr) (gx : Gen), i ≠ idx → c.ws[i]? = some x → x.g = some gx →
      aget (aset c.be (.gen t.k g) ⟨.blob b, c.clock⟩) (.gen x.k gx) = aget c.be (.gen x.k gx) := by
    intro i x gx hne hx hxg
    exact aget_aset_ne _ _ _ _ (gen_path_ne_of_id (h.distinct i idx x t gx g hx hi hne hxg hg))
  refine ⟨hbe, ?_, ?_, ?_, ?_, ?_, ?_, ?_, ?_, ?_, ?_, ?_, ?_, ?_⟩
  · intro i x gx hx hxg
    rcases getElem?_set_cases _ _ _ _ _ hx with ⟨rfl, rfl⟩ | ⟨_, hx'⟩
    · exact h.ids i t gx hi hxg
    · exact h.ids i x gx hx' hxg
  · intro i j x y gx gy hx hy hij hxg hyg
    have hx0 : ∃ x0, c.ws[i]? = some x0 ∧ x0.g = x.g := by
      rcases getElem?_set_cases _ _ _ _ _ hx with ⟨rfl, rfl⟩ | ⟨_, hx'⟩
      · exact ⟨t, hi, rfl⟩
      · exact ⟨x, hx', rfl⟩
    have hy0 : ∃ y0, c.ws[j]? = some y0 ∧ y0.g = y.g := by
      rcases getElem?_set_cases _ _ _ _ _ hy with ⟨rfl, rfl⟩ | ⟨_, hy'⟩
      · exact ⟨t, hi, rfl⟩
      · exact ⟨y, hy', rfl⟩
    obtain ⟨x0, hx0, hgx0⟩ := hx0
    obtain ⟨y0, hy0, hgy0⟩ := hy0
    exact h.distinct i j x0 y0 gx gy hx0 hy0 hij (by rw [hgx0]; exact hxg) (by rw [hgy0]; exact hyg)
  · intro i x gx hx hp hw
    rcases getElem?_set_cases _ _ _ _ _ hx with ⟨rfl, rfl⟩ | ⟨hne, hx'⟩
    · simp at hw
    · simp only
      rw [hother i x gx hne hx' hp.1]
      exact h.unwritten i x gx hx' hp hw
  · intro i x gx bx hx hp hw
    rcases getElem?_set_cases _ _ _ _ _ hx with ⟨rfl, rfl⟩ | ⟨hne, hx'⟩
    · have hgg := hp.1
      simp only at hgg hw
      rw [hg] at hgg
      simp only [Option.some.injEq] at hgg hw
      subst hgg; subst hw
      exact ⟨⟨c.clock, aget_aset_eq _ _ _⟩, htr, hun⟩
    · obtain ⟨⟨bt, hb⟩, h2, h3⟩ := h.written i x gx bx hx' hp hw
      exact ⟨⟨bt, by simp only; rw [hother i x gx hne hx' hp.1]; exact hb⟩, h2, h3⟩
  · intro i x gx hx hxg ht hu
    rcases getElem?_set_cases _ _ _ _ _ hx with ⟨rfl, rfl⟩ | ⟨_, hx'⟩
    · exact h.registered i t gx hi hxg ht hu
    · exact h.registered i x gx hx' hxg ht hu
  · intro i x gx hx hp
    rcases getElem?_set_cases _ _ _ _ _ hx with ⟨rfl, rfl⟩ | ⟨_, hx'⟩
    · exact unreferenced_of_docAt_eq (h.virginDoc i t gx hi ⟨hp.1, hp.2.1, hp.2.2.1, hp.2.2.2⟩) hdoc
    · exact unreferenced_of_docAt_eq (h.virginDoc i x gx hx' hp) hdoc
  · intro i x gx j u hx hp hu
    have hu0 : ∃ u0, c.ws[j]? = some u0 ∧ u.replaced = u0.replaced := by
      rcases getElem?_set_cases _ _ _ _ _ hu with ⟨rfl, rfl⟩ | ⟨_, hu'⟩
      · exact ⟨t, hi, rfl⟩
      · exact ⟨u, hu', rfl⟩
    obtain ⟨u0, hu0, hr0⟩ := hu0
    rw [hr0]
    rcases getElem?_set_cases _ _ _ _ _ hx with ⟨rfl, rfl⟩ | ⟨_, hx'⟩
    · exact h.virginRepl i t gx j u0 hi ⟨hp.1, hp.2.1, hp.2.2.1, hp.2.2.2⟩ hu0
    · exact h.virginRepl i x gx j u0 hx' hp hu0
  · intro i x gx p stage rest hx hp hgc hs
    rcases getElem?_set_cases _ _ _ _ _ hx with ⟨rfl, rfl⟩ | ⟨_, hx'⟩
    · exact h.virginGc i t gx p stage rest hi ⟨hp.1, hp.2.1, hp.2.2.1, hp.2.2.2⟩ hgc hs
    · exact h.virginGc i x gx p stage rest hx' hp hgc hs
  · intro p hp
    obtain ⟨h1, h2, h3⟩ := h.cands p hp
    refine ⟨h1, h2, ?_⟩
    intro i x gx hx hpx hw
    rcases getElem?_set_cases _ _ _ _ _ hx with ⟨rfl, rfl⟩ | ⟨_, hx'⟩
    · simp at hw
    · exact h3 i x gx hx' hpx hw
  · intro p stage rest hgc hs
    exact unreferenced_of_docAt_eq (h.armed p stage rest hgc hs) hdoc
  · intro i x old hx hc hr hrep hne
    rcases getElem?_set_cases _ _ _ _ _ hx with ⟨rfl, rfl⟩ | ⟨_, hx'⟩
    · simp only at hc; rw [hcm] at hc; cases hc
    · exact unreferenced_of_docAt_eq (h.reclaim i x old hx' hc hr hrep hne) hdoc
  · intro i x hx
    rcases getElem?_set_cases _ _ _ _ _ hx with ⟨rfl, rfl⟩ | ⟨_, hx'⟩
    · exact ⟨fun hn => (by simp only at hn; rw [hg] at hn; cases hn), f2, fun _ _ => (by simp), f4⟩
    · exact h.flags i x hx'
  · intro i x old hx hrep
    rcases getElem?_set_cases _ _ _ _ _ hx with ⟨rfl, rfl⟩ | ⟨_, hx'⟩
    · exact h.replShape i t old hi hrep
    · exact h.replShape i x old hx' hrep

end AndaVerif.ObjStore.Conc

namespace AndaVerif.ObjStore.Conc
open AndaVerif.ObjStore Gen.SidecarOrder

/-- the pointer switch (or the commit-point delete) of writer `idx`, abstractly -/
theorem inv_commit_gen {c : Cfg} (h : CInv c) (idx : Nat) (t : Wr) (hi : c.ws[idx]? = some t) (be' : Backend)
    (locks : List Path) (hcm : t.committed = false)
    (hbe : BInv be' c.nextId)
    (haget : ∀ (k : Path) (g : Gen), aget be' (.gen k g) = aget c.be (.gen k g))
    (hunref : ∀ p, Unreferenced c.be p → (∀ g, Pending t g → p ≠ .gen t.k g) → Unreferenced be' p)
    (hself : ∀ old go, old = payloadPath t.k go → some old ≠ newPath t → Unreferenced be' old)
    (hfl3 : t.del = false → t.wbytes ≠ none) :
    CInv { c with be := be', locks := locks, ws := c.ws.set idx { t with committed := true } } := by
  obtain ⟨f1, f2, f3, f4⟩ := h.flags idx t hi
  have hnp : ∀ g', ¬ Pending ({ t with committed := true } : Wr) g' := by
    intro g' hp; have := hp.2.1; simp at this
  -- a pending writer other than `idx` has a different generation path
  have hdiff : ∀ (i : Nat) (x : Wr) (gx : Gen), i ≠ idx → c.ws[i]? = some x → x.g = some gx →
      ∀ g, Pending t g → BPath.gen x.k gx ≠ .gen t.k g := by
    intro i x gx hne hx hxg g hp
    exact gen_path_ne_of_id (h.distinct i idx x t gx g hx hi hne hxg hp.1)
  refine ⟨hbe, ?_, ?_, ?_, ?_, ?_, ?_, ?_, ?_, ?_, ?_, ?_, ?_, ?_⟩
  · intro i x gx hx hxg
    rcases getElem?_set_cases _ _ _ _ _ hx with ⟨rfl, rfl⟩ | ⟨_, hx'⟩
    · exact h.ids i t gx hi hxg
    · exact h.ids i x gx hx' hxg
  · intro i j x y gx gy hx hy hij hxg hyg
    have hx0 : ∃ x0, c.ws[i]? = some x0 ∧ x0.g = x.g := by
      rcases getElem?_set_cases _ _ _ _ _ hx with ⟨rfl, rfl⟩ | ⟨_, hx'⟩
      · exact ⟨t, hi, rfl⟩
      · exact ⟨x, hx', rfl⟩
    have hy0 : ∃ y0, c.ws[j]? = some y0 ∧ y0.g = y.g := by
      rcases getElem?_set_cases _ _ _ _ _ hy with ⟨rfl, rfl⟩ | ⟨_, hy'⟩
      · exact ⟨t, hi, rfl⟩
      · exact ⟨y, hy', rfl⟩
    obtain ⟨x0, hx0, hgx0⟩ := hx0
    obtain ⟨y0, hy0, hgy0⟩ := hy0
    exact h.distinct i j x0 y0 gx gy hx0 hy0 hij (by rw [hgx0]; exact hxg) (by rw [hgy0]; exact hyg)
  · intro i x gx hx hp hw
    rcases getElem?_set_cases _ _ _ _ _ hx with ⟨rfl, rfl⟩ | ⟨_, hx'⟩
    · exact absurd hp (hnp gx)
    · simp only; rw [haget]; exact h.unwritten i x gx hx' hp hw
  · intro i x gx bx hx hp hw
    rcases getElem?_set_cases _ _ _ _ _ hx with ⟨rfl, rfl⟩ | ⟨_, hx'⟩
    · exact absurd hp (hnp gx)
    · obtain ⟨⟨bt, hb⟩, h2, h3⟩ := h.written i x gx bx hx' hp hw
      exact ⟨⟨bt, by simp only; rw [haget]; exact hb⟩, h2, h3⟩
  · intro i x gx hx hxg ht hu
    rcases getElem?_set_cases _ _ _ _ _ hx with ⟨rfl, rfl⟩ | ⟨_, hx'⟩
    · exact h.registered i t gx hi hxg ht hu
    · exact h.registered i x gx hx' hxg ht hu
  · intro i x gx hx hp
    rcases getElem?_set_cases _ _ _ _ _ hx with ⟨rfl, rfl⟩ | ⟨hne, hx'⟩
    · exact absurd hp (hnp gx)
    · exact hunref _ (h.virginDoc i x gx hx' hp) (hdiff i x gx hne hx' hp.1)
  · intro i x gx j u hx hp hu
    have hu0 : ∃ u0, c.ws[j]? = some u0 ∧ u.replaced = u0.replaced := by
      rcases getElem?_set_cases _ _ _ _ _ hu with ⟨rfl, rfl⟩ | ⟨_, hu'⟩
      · exact ⟨t, hi, rfl⟩
      · exact ⟨u, hu', rfl⟩
    obtain ⟨u0, hu0, hr0⟩ := hu0
    rw [hr0]
    rcases getElem?_set_cases _ _ _ _ _ hx with ⟨rfl, rfl⟩ | ⟨_, hx'⟩
    · exact absurd hp (hnp gx)
    · exact h.virginRepl i x gx j u0 hx' hp hu0
  · intro i x gx p stage rest hx hp hgc hs
    rcases getElem?_set_cases _ _ _ _ _ hx with ⟨rfl, rfl⟩ | ⟨_, hx'⟩
    · exact absurd hp (hnp gx)
    · exact h.virginGc i x gx p stage rest hx' hp hgc hs
  · intro p hp
    obtain ⟨h1, h2, h3⟩ := h.cands p hp
    refine ⟨h1, h2, ?_⟩
    intro i x gx hx hpx hw
    rcases getElem?_set_cases _ _ _ _ _ hx with ⟨rfl, rfl⟩ | ⟨_, hx'⟩
    · exact absurd hpx (hnp gx)
    · exact h3 i x gx hx' hpx hw
  · intro p stage rest hgc hs
    exact hunref p (h.armed p stage rest hgc hs)
      (fun g hp => h.virginGc idx t g p stage rest hi hp hgc (by omega))
  · intro i x old hx hc hr hrep hne
    rcases getElem?_set_cases _ _ _ _ _ hx with ⟨rfl, rfl⟩ | ⟨_, hx'⟩
    · obtain ⟨_, _, go, hgo⟩ := h.replShape i t old hi hrep
      exact hself old go hgo hne
    · exact hunref old (h.reclaim i x old hx' hc hr hrep hne)
        (fun g hp heq => h.virginRepl idx t g i x hi hp hx' (by rw [hrep, heq]))
  · intro i x hx
    rcases getElem?_set_cases _ _ _ _ _ hx with ⟨rfl, rfl⟩ | ⟨_, hx'⟩
    · exact ⟨f1, f2, fun _ hd => hfl3 hd, fun _ => Or.inl rfl⟩
    · exact h.flags i x hx'
  · intro i x old hx hrep
    rcases getElem?_set_cases _ _ _ _ _ hx with ⟨rfl, rfl⟩ | ⟨_, hx'⟩
    · exact h.replShape i t old hi hrep
    · exact h.replShape i x old hx' hrep

theorem inv_commit_put {c : Cfg} (h : CInv c) (idx : Nat) (t : Wr) (g : Gen) (b : Bytes) (hi : c.ws[idx]? = some t)
    (locks : List Path) (hcm : t.committed = false) (hab : t.aborted = false) (hdel : t.del = false)
    (hg : t.g = some g) (hwb : t.wbytes = some b) (tok : Option Tok) :
    CInv { c with be := aset c.be (.mt t.k) ⟨.doc { size := b.length, etag := tok, gen := some g, time := some c.clock }, c.clock⟩,
                  locks := locks, ws := c.ws.set idx { t with committed := true } } := by
  have hpend : Pending t g := ⟨hg, hcm, hab, hdel⟩
  obtain ⟨⟨bt, hb⟩, _, _⟩ := h.written idx t g b hi hpend hwb
  apply inv_commit_gen h idx t hi _ locks hcm
  · exact h.be.putDoc t.k _ c.clock b bt (by simpa [payloadPath] using hb) rfl
  · intro k g'; exact aget_aset_ne _ _ _ _ (by simp)
  · intro p hp hne
    exact unreferenced_aset_mt hp t.k _ c.clock (by
      simp only [payloadPath]
      exact fun heq => hne g hpend heq.symm)
  · intro old go hgo hne
    subst hgo
    apply unreferenced_after_putDoc
    simp only [payloadPath]
    intro heq
    apply hne
    simp [newPath, hdel, hg, heq, payloadPath]
  · intro _; rw [hwb]; simp

theorem inv_commit_del {c : Cfg} (h : CInv c) (idx : Nat) (t : Wr) (hi : c.ws[idx]? = some t)
    (locks : List Path) (hcm : t.committed = false) (hdel : t.del = true) :
    CInv { c with be := adel c.be (.mt t.k), locks := locks, ws := c.ws.set idx { t with committed := true } } := by
  apply inv_commit_gen h idx t hi _ locks hcm
  · exact h.be.delDoc t.k
  · intro k g'; exact aget_adel_ne _ _ _ (by simp)
  · intro p hp _; exact unreferenced_adel_mt hp t.k
  · intro old go hgo _
    subst hgo
    exact unreferenced_after_delDoc c.be t.k go
  · intro hd; rw [hdel] at hd; cases hd

end AndaVerif.ObjStore.Conc

namespace AndaVerif.ObjStore.Conc
open AndaVerif.ObjStore Gen.SidecarOrder

theorem docAt_eq_match (be : Backend) (k : Path) :
    (match aget be (.mt k) with
     | some ⟨.doc d, _⟩ => some d
     | _ => none) = docAt be k := by
  unfold docAt
  rfl

theorem inv_wr {c : Cfg} (h : CInv c) (i : Nat) (a : WAct) : CInv (step c (.w i a)) := by
  simp only [step]
  cases hi : c.ws[i]? with
  | none => exact h
  | some t =>
      simp only []
      cases a with
      | mint =>
          simp only [wrStep]
          by_cases hgd : (t.del || t.g.isSome || t.aborted) = true
          · simp only [hgd, if_true]; exact h
          · simp only [hgd]
            simp only [Bool.or_eq_true, not_or, Bool.not_eq_true, Option.isSome_eq_false_iff, Option.isNone_iff_eq_none] at hgd
            have key := inv_mint h i t hi hgd.1.2 hgd.1.1
            simp only [Bool.false_eq_true, if_false] at key ⊢
            exact key
      | track =>
          simp only [wrStep]
          cases hg : t.g with
          | none => exact h
          | some g =>
              simp only [gen_track_before_payload, Bool.not_true, Bool.false_and]
              by_cases hgd : (t.tracked || t.aborted) = true
              · simp only [hgd, if_true]; exact h
              · simp only [hgd]
                simp only [Bool.or_eq_true, not_or, Bool.not_eq_true] at hgd
                have key := inv_track h i t g hi hg hgd.1
                simp only [hg, Bool.false_eq_true, if_false] at key ⊢
                exact key
      | enter =>
          simp only [wrStep]
          by_cases hgd : (t.entered || t.aborted || t.committed || c.locks.contains t.k) = true
          · simp only [hgd, if_true]; exact h
          · simp only [hgd]
            simp only [Bool.or_eq_true, not_or, Bool.not_eq_true] at hgd
            have key := inv_enter h i t hi hgd.1.2 (t.k :: c.locks)
            simp only [enterWr, ← docAt_eq_match, Bool.false_eq_true, if_false] at key ⊢
            exact key
      | payload =>
          simp only [wrStep]
          cases hg : t.g with
          | none => exact h
          | some g =>
              simp only [gen_track_before_payload, Bool.true_and]
              by_cases hgd : (t.del || t.wbytes.isSome || t.aborted) = true
              · simp only [hgd, if_true]; exact h
              · simp only [hgd]
                simp only [Bool.or_eq_true, not_or, Bool.not_eq_true, Option.isSome_eq_false_iff, Option.isNone_iff_eq_none] at hgd
                by_cases htr : t.tracked = true
                · simp only [htr, Bool.not_true]
                  cases hsrc : t.src with
                  | none =>
                      have key := inv_payload h i t g t.data hi hg hgd.1.1 hgd.1.2 hgd.2 htr
                      simp only [hg, hsrc, htr, Bool.false_eq_true, if_false] at key ⊢
                      exact key
                  | some p =>
                      simp only []
                      cases hsp : aget c.be p with
                      | none => simp only [Bool.false_eq_true, if_false]; exact h
                      | some e =>
                          obtain ⟨o, et⟩ := e
                          cases o with
                          | blob b =>
                              have key := inv_payload h i t g b hi hg hgd.1.1 hgd.1.2 hgd.2 htr
                              simp only [hg, hsrc, htr, Bool.false_eq_true, if_false] at key ⊢
                              exact key
                          | doc d => simp only [Bool.false_eq_true, if_false]; exact h
                          | junk => simp only [Bool.false_eq_true, if_false]; exact h
                · simp only [htr]; exact h
      | commit =>
          simp only [wrStep]
          by_cases hgd : (t.committed || t.aborted || !t.entered) = true
          · simp only [hgd, if_true]; exact h
          · simp only [hgd]
            simp only [Bool.or_eq_true, not_or, Bool.not_eq_true, Bool.not_eq_true'] at hgd
            by_cases hdel : t.del = true
            · have key := inv_commit_del h i t hi (c.locks.erase t.k) hgd.1.1 hdel
              simp only [hdel, if_true, Bool.false_eq_true, if_false] at key ⊢
              exact key
            · have hdel' : t.del = false := by simpa using hdel
              simp only [hdel', Bool.false_eq_true, if_false]
              cases hg : t.g with
              | none => exact h
              | some g =>
                  cases hwb : t.wbytes with
                  | none => exact h
                  | some b =>
                      have key := inv_commit_put h i t g b hi (c.locks.erase t.k) hgd.1.1 hgd.1.2 hdel' hg hwb
                        (some (.put (g.id + 1) b))
                      simp only [hg, hwb, hdel'] at key ⊢
                      exact inv_ghost key c.rs _
      | reclaim =>
          simp only [wrStep]
          by_cases hgd : (!t.committed || t.reclaimed) = true
          · simp only [hgd, if_true]; exact h
          · simp only [hgd]
            simp only [Bool.or_eq_true, not_or, Bool.not_eq_true, Bool.not_eq_true'] at hgd
            cases hrep : t.replaced with
            | none =>
                have key := inv_reclaim_flag h i t hi
                simp only [hrep, Bool.false_eq_true, if_false] at key ⊢
                exact key
            | some old =>
                simp only []
                by_cases hne : some old ≠ (if t.del = true then none else t.g.map (fun g => BPath.gen t.k g))
                · have key := inv_reclaim_del h i t hi old (by simpa using hgd.1) hgd.2 hrep (by simpa [newPath] using hne)
                  simp only [hrep, Bool.false_eq_true, if_false] at key ⊢
                  rw [if_pos hne]
                  exact key
                · have key := inv_reclaim_flag h i t hi
                  simp only [hrep, Bool.false_eq_true, if_false] at key ⊢
                  rw [if_neg hne]
                  exact key
      | untrack =>
          simp only [wrStep]
          cases hg : t.g with
          | none => exact h
          | some g =>
              simp only [gen_guard_held, Bool.true_and]
              by_cases hgd : (!t.tracked || t.untracked) = true
              · simp only [hgd, if_true]; exact h
              · simp only [hgd]
                simp only [Bool.or_eq_true, not_or, Bool.not_eq_true, Bool.not_eq_true'] at hgd
                by_cases hdone : (t.committed || t.aborted) = true
                · have key := inv_untrack h i t g hi hg (by simpa using hgd.1) (by simpa using hdone)
                  simp only [hdone, Bool.not_true, hg, Bool.false_eq_true, if_false] at key ⊢
                  exact key
                · simp only [hdone]; exact h
      | abort =>
          simp only [wrStep]
          by_cases hgd : (t.committed || t.aborted) = true
          · simp only [hgd, if_true]; exact h
          · simp only [hgd]
            simp only [Bool.or_eq_true, not_or, Bool.not_eq_true] at hgd
            have key := inv_abort h i t hi hgd.1 (if t.entered = true then c.locks.erase t.k else c.locks)
            simp only [Bool.false_eq_true, if_false] at key ⊢
            exact key

theorem inv_step {c : Cfg} (h : CInv c) (ch : Choice) : CInv (step c ch) := by
  cases ch with
  | w i a => exact inv_wr h i a
  | gcList cands => exact inv_gcList h cands
  | gcStep => exact inv_gcStep h
  | r i =>
      simp only [step]
      cases c.rs[i]? with
      | none => exact h
      | some t => exact inv_ghost h _ c.hist
  | tick => exact inv_tick h

theorem inv_run {c : Cfg} (h : CInv c) (s : List Choice) : CInv (runSchedule c s) := by
  induction s generalizing c with
  | nil => exact h
  | cons ch s ih => exact ih (inv_step h ch)

/-- a wrapper at rest (any backend satisfying the invariant), any number of calls about to start,
the collector idle -/
def Cfg.start (fl : Wrapper) (be : Backend) (n : Nat) (calls : List Wr) : Cfg :=
  { flavor := fl, be := be, nextId := n, ws := calls }

/-- a call that has not started: no generation yet, no flag set -/
def Wr.Fresh (t : Wr) : Prop :=
  t.g = none ∧ t.tracked = false ∧ t.entered = false ∧ t.wbytes = none ∧ t.committed = false ∧
  t.reclaimed = false ∧ t.untracked = false ∧ t.aborted = false ∧ t.replaced = none

theorem CInv.start (fl : Wrapper) {be : Backend} {n : Nat} (hbe : BInv be n) (calls : List Wr)
    (hf : ∀ t ∈ calls, t.Fresh) : CInv (Cfg.start fl be n calls) := by
  have fr : ∀ (i : Nat) (t : Wr), (Cfg.start fl be n calls).ws[i]? = some t → t.Fresh := by
    intro i t hi
    exact hf t (List.mem_of_getElem? hi)
  refine ⟨hbe, ?_, ?_, ?_, ?_, ?_, ?_, ?_, ?_, ?_, ?_, ?_, ?_, ?_⟩
  · intro i t g hi hg; rw [(fr i t hi).1] at hg; cases hg
  · intro i j t u g g' hi _ _ hg; rw [(fr i t hi).1] at hg; cases hg
  · intro i t g hi hp; have := hp.1; rw [(fr i t hi).1] at this; cases this
  · intro i t g b hi hp; have := hp.1; rw [(fr i t hi).1] at this; cases this
  · intro i t g hi hg; rw [(fr i t hi).1] at hg; cases hg
  · intro i t g hi hp; have := hp.1; rw [(fr i t hi).1] at this; cases this
  · intro i t g j u hi hp; have := hp.1; rw [(fr i t hi).1] at this; cases this
  · intro i t g p stage rest hi hp; have := hp.1; rw [(fr i t hi).1] at this; cases this
  · intro p hp; simp [Cfg.start, gcCands] at hp
  · intro p stage rest hgc; simp [Cfg.start] at hgc
  · intro i t old hi hc; rw [(fr i t hi).2.2.2.2.1] at hc; cases hc
  · intro i t hi
    obtain ⟨h1, h2, h3, h4, h5, h6, h7, h8, h9⟩ := fr i t hi
    exact ⟨fun _ => ⟨h4, h2⟩, fun _ => h7, fun hc => (by rw [h5] at hc; cases hc), fun hu => (by rw [h7] at hu; cases hu)⟩
  · intro i t old hi hr; rw [(fr i t hi).2.2.2.2.2.2.2.2] at hr; cases hr

end AndaVerif.ObjStore.Conc
