import AndaVerif.Proofs.BeliefTable
import Mathlib.Tactic.Linarith
import Mathlib.Tactic.Ring
import Mathlib.Tactic.Positivity
/-
Arithmetic of the score `1 − Π (1 − clamp c)` over exact fractions, and of `classify`.
-/
namespace AndaVerif.Belief

theorem clampConf_nonneg (den : Nat) (c : Int) : 0 ≤ clampConf den c := by
  unfold clampConf; split
  · omega
  · split <;> omega

theorem clampConf_le (den : Nat) (c : Int) : clampConf den c ≤ den := by
  unfold clampConf; split
  · omega
  · split <;> omega

theorem clampConf_mono (den : Nat) {c c' : Int} (h : c ≤ c') : clampConf den c ≤ clampConf den c' := by
  unfold clampConf
  split <;> split <;> (try split) <;> (try split) <;> omega

theorem clampConf_max (den : Nat) (a b : Int) :
    clampConf den (max a b) = max (clampConf den a) (clampConf den b) := by
  rcases le_total a b with h | h
  · rw [max_eq_right h, max_eq_right (clampConf_mono den h)]
  · rw [max_eq_left h, max_eq_left (clampConf_mono den h)]

/-- The factor one group contributes to the complement product: `den − clamp c ∈ [0, den]`. -/
def factor (den : Nat) (c : Int) : Int := (den : Int) - clampConf den c

theorem factor_nonneg (den : Nat) (c : Int) : 0 ≤ factor den c := by
  have := clampConf_le den c; unfold factor; omega

theorem factor_le (den : Nat) (c : Int) : factor den c ≤ den := by
  have := clampConf_nonneg den c; unfold factor; omega

theorem factor_anti (den : Nat) {c c' : Int} (h : c ≤ c') : factor den c' ≤ factor den c := by
  have := clampConf_mono den h; unfold factor; omega

theorem compProd_cons (den : Nat) (g : Group) (gs : List Group) :
    compProd den (g :: gs) = factor den g.2 * compProd den gs := rfl

theorem compProd_nonneg (den : Nat) (gs : List Group) : 0 ≤ compProd den gs := by
  induction gs with
  | nil => simp [compProd]
  | cons g gs ih => rw [compProd_cons]; exact mul_nonneg (factor_nonneg den g.2) ih

theorem compProd_le (den : Nat) (gs : List Group) :
    compProd den gs ≤ ((den ^ gs.length : Nat) : Int) := by
  induction gs with
  | nil => simp [compProd]
  | cons g gs ih =>
    rw [compProd_cons]
    have h1 := factor_nonneg den g.2
    have h2 := factor_le den g.2
    have h3 := compProd_nonneg den gs
    have : ((den ^ (g :: gs).length : Nat) : Int) = (den : Int) * ((den ^ gs.length : Nat) : Int) := by
      simp [pow_succ]; ring
    rw [this]
    exact mul_le_mul h2 ih h3 (by positivity)

/-- `compProd` only depends on the confidences, as a product. -/
theorem compProd_eq_prod (den : Nat) (gs : List Group) :
    compProd den gs = ((gs.map (fun g => factor den g.2)).foldr (· * ·) 1) := by
  induction gs with
  | nil => rfl
  | cons g gs ih => simp [compProd_cons, ih]

theorem scoreOf_num_nonneg (den : Nat) (gs : List Group) : 0 ≤ (scoreOf den gs).num := by
  have := compProd_le den gs; simp only [scoreOf]; omega

theorem scoreOf_num_le (den : Nat) (gs : List Group) : (scoreOf den gs).num ≤ (scoreOf den gs).den := by
  have := compProd_nonneg den gs; simp only [scoreOf]; omega

theorem scoreOf_den_pos {den : Nat} (h : 0 < den) (gs : List Group) : 0 < (scoreOf den gs).den := by
  simp only [scoreOf]; positivity

end AndaVerif.Belief
