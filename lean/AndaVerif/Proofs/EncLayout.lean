/-
C09: byte layout of the backend writes; named tamper classes as corollaries.
-/
import AndaVerif.Model.EncLayout
import AndaVerif.Proofs.EncWriter

namespace AndaVerif.Enc
open AndaVerif.Gen.EncAad

/-- `put_opts` writes exactly what `assemble` computes from the plaintext length, the AEAD outputs of
the chunks and the fresh values. -/
theorem putWrites_factor' (A : AEAD) (c : Nat) (loc plain : Bytes) (f : Fresh) :
    putWrites A c loc plain f =
      assemble A c loc plain.length (sealChunks A f.baseNonce c 0 (chunks c plain)) f := rfl

/-- The backend keys do not depend on the plaintext at all. -/
theorem putWrites_paths (A : AEAD) (c : Nat) (loc plain : Bytes) (f : Fresh) :
    (putWrites A c loc plain f).map (·.path) = [payloadPath loc (some f.generation), metaPath loc] := rfl

/-! ## named tamper classes -/

/-- *Stripping authentication fields*: a document without `auth_nonce`/`auth_tag` that still carries a
chunk-AAD version or a generation pointer is rejected — for every AEAD, strict or not. -/
theorem strip_auth_rejected' (A : AEAD) (strict : Bool) (loc : Bytes) (m : Meta)
    (hn : m.authNonce = none) (ht : m.authTag = none)
    (hs : m.chunkAadVersion.isSome = true ∨ m.generation.isSome = true) :
    verifyMetadata A strict loc m = .error .stripped := by
  unfold verifyMetadata
  rw [hn, ht, gen_strippedGuard]
  rcases hs with h | h <;> simp [fieldPresent, h]

/-- Half-stripped documents are rejected too. -/
theorem half_stripped_rejected' (A : AEAD) (strict : Bool) (loc : Bytes) (m : Meta) :
    (m.authNonce = none → m.authTag.isSome = true → verifyMetadata A strict loc m = .error .missingNonce) ∧
    (m.authNonce.isSome = true → m.authTag = none → verifyMetadata A strict loc m = .error .missingTag) := by
  constructor
  · intro hn ht
    cases h : m.authTag with
    | none => simp [h] at ht
    | some t => unfold verifyMetadata; simp [hn, h]
  · intro hn ht
    cases h : m.authNonce with
    | none => simp [h] at hn
    | some n => unfold verifyMetadata; simp [h, ht]

/-- *Exchanging documents between keys, re-pointing a key at another generation, changing any sealed
field*: if the seal `(an, at)` of document `m` was produced for `(y, d)` (the only seal call under nonce
`an`), then `m` verifies under key `x` only if `x = y` and every sealed field of `m` equals `d`'s. -/
theorem modified_document_rejected' {A : AEAD} {H : List SealRec} (hI : Ideal A H) (hN : NonceRespecting H)
    {strict : Bool} {x y an at_ : Bytes} {m d : Meta}
    (hm : m.authNonce = some an ∧ m.authTag = some at_)
    (hfit : m.fits x = true) (hfit' : d.fits y = true)
    {r : SealRec} (hr : r ∈ H) (hrn : r.nonce = an) (hra : r.aad = metaAad y d)
    (hdiff : x ≠ y ∨ m.unsealed ≠ d.unsealed) :
    verifyMetadata A strict x m = .error .authFailed := by
  unfold verifyMetadata
  rw [hm.1, hm.2]
  simp only
  cases hd : A.dec an (metaAad x m) [] at_ with
  | none => rfl
  | some p =>
    exfalso
    have hr' := hI _ _ _ _ _ hd
    have := hN r hr _ hr' (by rw [hrn])
    have haad : metaAad y d = metaAad x m := by rw [← hra, this]
    obtain ⟨e1, e2⟩ := metaAad_inj hfit' hfit haad
    rcases hdiff with h | h
    · exact h e1.symm
    · exact h e2.symm

end AndaVerif.Enc
