import AndaVerif.Proofs.ObjStoreConcReads
/-
Conditional reads under interleavings: whatever a `get_opts` call returns is the serving of ONE commit
of the key that passed the caller's preconditions (from that commit's own bytes), or the precondition
error of a commit of the key, or NotFound.
-/
namespace AndaVerif.ObjStore.Conc
open AndaVerif.ObjStore Gen.SidecarOrder

/-- what one enabled writer action does to backend and history -/
inductive Eff (c c' : Cfg) (t t' : Wr) : Prop where
  | same (hbe : c'.be = c.be) (hh : c'.hist = c.hist)
  | payload (g : Gen) (b : Bytes) (hg : t.g = some g) (hdel : t.del = false) (hab : t.aborted = false)
      (hwb : t.wbytes = none) (hbe : c'.be = aset c.be (.gen t.k g) ⟨.blob b, c.clock⟩) (hh : c'.hist = c.hist)
  | commit (g : Gen) (b : Bytes) (d : Doc) (hp : Pending t g) (hwb : t.wbytes = some b) (hdg : d.gen = some g)
      (hc' : t'.committed = true)
      (hbe : c'.be = aset c.be (.mt t.k) ⟨.doc d, c.clock⟩) (hh : c'.hist = (t.k, d, b) :: c.hist)
  | delMeta (hbe : c'.be = adel c.be (.mt t.k)) (hh : c'.hist = c.hist)
  | delPayload (p : BPath) (hr : t.replaced = some p) (hbe : c'.be = adel c.be p) (hh : c'.hist = c.hist)

theorem wrStep_eff {c c' : Cfg} {t t' : Wr} {a : WAct} (h : wrStep c t a = some (c', t')) :
    t'.k = t.k ∧ c'.ws = c.ws ∧ c'.rs = c.rs ∧ c'.flavor = c.flavor ∧ c.nextId ≤ c'.nextId ∧
    (∀ g, Pending t' g → Pending t g ∨ (g.id = c.nextId ∧ c'.nextId = c.nextId + 1)) ∧ Eff c c' t t' := by
  cases a with
  | mint =>
      simp only [wrStep] at h
      split at h
      · cases h
      · cases h
        refine ⟨rfl, rfl, rfl, rfl, Nat.le_succ _, ?_, .same rfl rfl⟩
        intro g hp
        right
        have := hp.1
        simp only [Option.some.injEq] at this
        subst this
        exact ⟨rfl, rfl⟩
  | track =>
      simp only [wrStep] at h
      split at h
      · split at h
        · cases h
        · split at h
          · cases h
          · cases h
            exact ⟨rfl, rfl, rfl, rfl, Nat.le_refl _, fun g hp => Or.inl hp, .same rfl rfl⟩
      · cases h
  | enter =>
      simp only [wrStep] at h
      split at h
      · cases h
      · cases h
        exact ⟨rfl, rfl, rfl, rfl, Nat.le_refl _, fun g hp => Or.inl hp, .same rfl rfl⟩
  | payload =>
      simp only [wrStep] at h
      split at h
      · rename_i g hg
        split at h
        · cases h
        · rename_i hgd
          simp only [Bool.or_eq_true, not_or, Bool.not_eq_true, Option.isSome_eq_false_iff, Option.isNone_iff_eq_none] at hgd
          split at h
          · cases h
          · split at h
            · cases h
              exact ⟨rfl, rfl, rfl, rfl, Nat.le_refl _, fun g' hp => Or.inl hp,
                .payload g t.data hg hgd.1.1 hgd.2 hgd.1.2 rfl rfl⟩
            · split at h
              · rename_i b et _
                cases h
                exact ⟨rfl, rfl, rfl, rfl, Nat.le_refl _, fun g' hp => Or.inl hp,
                  .payload g b hg hgd.1.1 hgd.2 hgd.1.2 rfl rfl⟩
              · cases h
      · cases h
  | commit =>
      simp only [wrStep] at h
      split at h
      · cases h
      · rename_i hgd
        simp only [Bool.or_eq_true, not_or, Bool.not_eq_true, Bool.not_eq_true'] at hgd
        split at h
        · cases h
          exact ⟨rfl, rfl, rfl, rfl, Nat.le_refl _, fun g hp => absurd hp.2.1 (by simp), .delMeta rfl rfl⟩
        · rename_i hdel
          split at h
          · rename_i g b hg hwb
            cases h
            exact ⟨rfl, rfl, rfl, rfl, Nat.le_refl _, fun g' hp => absurd hp.2.1 (by simp),
              .commit g b _ ⟨hg, hgd.1.1, hgd.1.2, by simpa using hdel⟩ hwb rfl rfl rfl rfl⟩
          · cases h
  | reclaim =>
      simp only [wrStep] at h
      split at h
      · cases h
      · split at h
        · rename_i old hold
          by_cases hne : some old ≠ (if t.del = true then none else Option.map (fun g => BPath.gen t.k g) t.g)
          · rw [if_pos hne] at h
            cases h
            exact ⟨rfl, rfl, rfl, rfl, Nat.le_refl _, fun g hp => Or.inl hp, .delPayload old hold rfl rfl⟩
          · rw [if_neg hne] at h
            cases h
            exact ⟨rfl, rfl, rfl, rfl, Nat.le_refl _, fun g hp => Or.inl hp, .same rfl rfl⟩
        · cases h
          exact ⟨rfl, rfl, rfl, rfl, Nat.le_refl _, fun g hp => Or.inl hp, .same rfl rfl⟩
  | untrack =>
      simp only [wrStep] at h
      split at h
      · split at h
        · cases h
        · split at h
          · cases h
          · cases h
            exact ⟨rfl, rfl, rfl, rfl, Nat.le_refl _, fun g hp => Or.inl hp, .same rfl rfl⟩
      · cases h
  | abort =>
      simp only [wrStep] at h
      split at h
      · cases h
      · cases h
        exact ⟨rfl, rfl, rfl, rfl, Nat.le_refl _, fun g hp => absurd hp.2.2.1 (by simp), .same rfl rfl⟩


/-- the ghost history is faithful: it contains every current commit, the bytes it records for a commit
are the bytes its payload object holds for as long as that object exists, and its generations are
used ones (never a pending writer's) -/
structure HInv (c : Cfg) : Prop where
  cur : ∀ (k : Path) (d : Doc), docAt c.be k = some d → ∃ b, (k, d, b) ∈ c.hist
  content : ∀ (k : Path) (d : Doc) (b : Bytes), (k, d, b) ∈ c.hist →
    ∀ (b' : Bytes) (bt : Nat), aget c.be (payloadPath k d.gen) = some ⟨.blob b', bt⟩ → b' = b
  notPending : ∀ (k : Path) (d : Doc) (b : Bytes), (k, d, b) ∈ c.hist →
    ∀ (i : Nat) (t : Wr) (g : Gen), c.ws[i]? = some t → Pending t g → payloadPath k d.gen ≠ .gen t.k g
  ids : ∀ (k : Path) (d : Doc) (b : Bytes) (g : Gen), (k, d, b) ∈ c.hist → d.gen = some g → g.id < c.nextId
  /-- payload paths hold payloads -/
  blobs : ∀ (p : BPath) (e : BEnt), isPayloadPath p = true → aget c.be p = some e → ∃ b, e.obj = .blob b

theorem blobs_adel {be : Backend} (h : ∀ (p : BPath) (e : BEnt), isPayloadPath p = true → aget be p = some e → ∃ b, e.obj = .blob b)
    (q : BPath) : ∀ (p : BPath) (e : BEnt), isPayloadPath p = true → aget (adel be q) p = some e → ∃ b, e.obj = .blob b := by
  intro p e hp he
  rw [aget_adel] at he
  split at he
  · cases he
  · exact h p e hp he

theorem blobs_aset {be : Backend} (h : ∀ (p : BPath) (e : BEnt), isPayloadPath p = true → aget be p = some e → ∃ b, e.obj = .blob b)
    (q : BPath) (e0 : BEnt) (hq : isPayloadPath q = true → ∃ b, e0.obj = .blob b) :
    ∀ (p : BPath) (e : BEnt), isPayloadPath p = true → aget (aset be q e0) p = some e → ∃ b, e.obj = .blob b := by
  intro p e hp he
  rw [aget_aset] at he
  split at he
  · rename_i heq
    simp only [Option.some.injEq] at he
    subst he; subst heq
    exact hq hp
  · exact h p e hp he

/-- only fields the history invariant does not look at changed -/
theorem HInv.frame {c c' : Cfg} (h : HInv c) (hbe : c'.be = c.be) (hh : c'.hist = c.hist) (hws : c'.ws = c.ws)
    (hn : c'.nextId = c.nextId) : HInv c' :=
  ⟨by rw [hbe, hh]; exact h.cur, by rw [hbe, hh]; exact h.content, by rw [hh, hws]; exact h.notPending,
   by rw [hh, hn]; exact h.ids, by rw [hbe]; exact h.blobs⟩

/-- a payload object was deleted -/
theorem HInv.adelPayload {c c' : Cfg} (h : HInv c) (p : BPath) (hp : isPayloadPath p = true) (hbe : c'.be = adel c.be p)
    (hh : c'.hist = c.hist) (hws : c'.ws = c.ws) (hn : c'.nextId = c.nextId) : HInv c' := by
  refine ⟨?_, ?_, by rw [hh, hws]; exact h.notPending, by rw [hh, hn]; exact h.ids, by rw [hbe]; exact blobs_adel h.blobs p⟩
  · intro k d hd
    rw [hbe, docAt_adel_payload _ _ (isPayloadPath_ne_mt hp)] at hd
    rw [hh]; exact h.cur k d hd
  · intro k d b hm b' bt hb
    rw [hh] at hm
    rw [hbe, aget_adel] at hb
    split at hb
    · cases hb
    · exact h.content k d b hm b' bt hb

theorem hinv_gc {c : Cfg} (hc : CInv c) (h : HInv c) : HInv (step c .gcStep) := by
  simp only [step]
  cases hgc : c.gc with
  | idle => exact h
  | sweeping cs => cases cs <;> exact h.frame rfl rfl rfl rfl
  | cand p stage rest =>
      simp only []
      rw [gcCheck_std]
      match stage with
      | 0 => simp only []; split <;> exact h.frame rfl rfl rfl rfl
      | 1 => simp only []; split <;> exact h.frame rfl rfl rfl rfl
      | 2 =>
          exact h.adelPayload p (hc.cands p (by rw [hgc]; simp [gcCands])).1 rfl rfl rfl rfl
      | n + 3 => exact h.frame rfl rfl rfl rfl

theorem hinv_wr {c : Cfg} (hc : CInv c) (h : HInv c) (i : Nat) (a : WAct) : HInv (step c (.w i a)) := by
  simp only [step]
  cases hi : c.ws[i]? with
  | none => exact h
  | some t =>
      simp only []
      cases hs : wrStep c t a with
      | none => exact h
      | some r =>
          obtain ⟨c', t'⟩ := r
          obtain ⟨hk, hws, _, _, hn, hpend, heff⟩ := wrStep_eff hs
          simp only []
          obtain ⟨f1, f2, f3, f4⟩ := hc.flags i t hi
          -- pending writers of the new configuration, seen from the old one
          have pend_old : ∀ (j : Nat) (x : Wr) (g : Gen), (c'.ws.set i t')[j]? = some x → Pending x g →
              (∃ x0, c.ws[j]? = some x0 ∧ x0.k = x.k ∧ Pending x0 g) ∨ (x.k = t.k ∧ g.id = c.nextId) := by
            intro j x g hx hp
            rw [hws] at hx
            rcases getElem?_set_cases _ _ _ _ _ hx with ⟨rfl, rfl⟩ | ⟨_, hx'⟩
            · rcases hpend g hp with h1 | ⟨h1, _⟩
              · exact Or.inl ⟨t, hi, hk.symm, h1⟩
              · exact Or.inr ⟨hk, h1⟩
            · exact Or.inl ⟨x, hx', rfl, hp⟩
          -- entries of the old history are not the path of a pending writer of the new configuration
          have np_old : ∀ (k : Path) (d : Doc) (b : Bytes), (k, d, b) ∈ c.hist → ∀ (j : Nat) (x : Wr) (g : Gen),
              (c'.ws.set i t')[j]? = some x → Pending x g → payloadPath k d.gen ≠ .gen x.k g := by
            intro k d b hm j x g hx hp
            rcases pend_old j x g hx hp with ⟨x0, hx0, hk0, hp0⟩ | ⟨hk0, hid⟩
            · rw [← hk0]; exact h.notPending k d b hm j x0 g hx0 hp0
            · intro heq
              cases hdg : d.gen with
              | none => rw [hdg] at heq; simp [payloadPath] at heq
              | some g' =>
                  rw [hdg] at heq
                  simp only [payloadPath, BPath.gen.injEq] at heq
                  have := h.ids k d b g' hm hdg
                  rw [heq.2] at this
                  omega
          have ids_old : ∀ (k : Path) (d : Doc) (b : Bytes) (g : Gen), (k, d, b) ∈ c.hist → d.gen = some g → g.id < c'.nextId :=
            fun k d b g hm hdg => Nat.lt_of_lt_of_le (h.ids k d b g hm hdg) hn
          cases heff with
          | same hbe hh =>
              exact ⟨by rw [hbe, hh]; exact h.cur, by rw [hbe, hh]; exact h.content,
                by rw [hh]; exact np_old, by rw [hh]; exact ids_old, by rw [hbe]; exact h.blobs⟩
          | payload g b hg hdel hab hwb hbe hh =>
              have hcm : t.committed = false := by
                cases hcm : t.committed with
                | false => rfl
                | true => exact absurd hwb (f3 hcm hdel)
              have hp : Pending t g := ⟨hg, hcm, hab, hdel⟩
              refine ⟨?_, ?_, by rw [hh]; exact np_old, by rw [hh]; exact ids_old,
                by rw [hbe]; exact blobs_aset h.blobs _ _ (fun _ => ⟨b, rfl⟩)⟩
              · intro k d hd
                rw [hbe] at hd
                have := docAt_aset_payload c.be t.k (some g) ⟨.blob b, c.clock⟩ k
                simp only [payloadPath] at this
                rw [this] at hd
                rw [hh]; exact h.cur k d hd
              · intro k d b0 hm b' bt hb
                rw [hh] at hm
                rw [hbe, aget_aset_ne _ _ _ _ (h.notPending k d b0 hm i t g hi hp)] at hb
                exact h.content k d b0 hm b' bt hb
          | commit g b d hp hwb hdg hc' hbe hh =>
              obtain ⟨⟨bt0, hb0⟩, _, _⟩ := hc.written i t g b hi hp hwb
              refine ⟨?_, ?_, ?_, ?_, by rw [hbe]; exact blobs_aset h.blobs _ _ (fun hq => by simp [isPayloadPath] at hq)⟩
              · intro k d0 hd
                rw [hbe, docAt_aset_mt] at hd
                rw [hh]
                by_cases hkk : k = t.k
                · simp only [hkk, if_true, Option.some.injEq] at hd
                  subst hd; subst hkk
                  exact ⟨b, List.mem_cons_self⟩
                · simp only [hkk, if_false] at hd
                  obtain ⟨b1, hb1⟩ := h.cur k d0 hd
                  exact ⟨b1, List.mem_cons_of_mem _ hb1⟩
              · intro k d0 b1 hm b' bt hb
                rw [hbe, aget_aset_ne _ _ _ _ (by simp)] at hb
                rw [hh, List.mem_cons] at hm
                rcases hm with hm | hm
                · simp only [Prod.mk.injEq] at hm
                  obtain ⟨h1, h2, h3⟩ := hm
                  subst h1; subst h2; subst h3
                  rw [hdg] at hb
                  simp only [payloadPath] at hb
                  rw [hb0] at hb
                  simp only [Option.some.injEq, BEnt.mk.injEq, Obj.blob.injEq] at hb
                  exact hb.1.symm
                · exact h.content k d0 b1 hm b' bt hb
              · intro k d0 b1 hm j x gx hx hpx
                rw [hh, List.mem_cons] at hm
                rcases hm with hm | hm
                · simp only [Prod.mk.injEq] at hm
                  obtain ⟨h1, h2, h3⟩ := hm
                  subst h1; subst h2; subst h3
                  rw [hdg]
                  simp only [payloadPath]
                  rw [hws] at hx
                  rcases getElem?_set_cases _ _ _ _ _ hx with ⟨rfl, rfl⟩ | ⟨hne, hx'⟩
                  · have := hpx.2.1
                    rw [hc'] at this; cases this
                  · exact (gen_path_ne_of_id (hc.distinct j i x t gx g hx' hi hne hpx.1 hp.1)).symm
                · exact np_old k d0 b1 hm j x gx hx hpx
              · intro k d0 b1 g0 hm hd0
                rw [hh, List.mem_cons] at hm
                rcases hm with hm | hm
                · simp only [Prod.mk.injEq] at hm
                  obtain ⟨h1, h2, h3⟩ := hm
                  subst h1; subst h2; subst h3
                  rw [hdg] at hd0
                  simp only [Option.some.injEq] at hd0
                  subst hd0
                  exact Nat.lt_of_lt_of_le (hc.ids i t g hi hp.1) hn
                · exact ids_old k d0 b1 g0 hm hd0
          | delMeta hbe hh =>
              refine ⟨?_, ?_, by rw [hh]; exact np_old, by rw [hh]; exact ids_old, by rw [hbe]; exact blobs_adel h.blobs _⟩
              · intro k d hd
                rw [hbe, docAt_adel_mt] at hd
                rw [hh]
                by_cases hkk : k = t.k
                · simp [hkk] at hd
                · simp only [hkk, if_false] at hd; exact h.cur k d hd
              · intro k d b0 hm b' bt hb
                rw [hh] at hm
                rw [hbe, aget_adel_ne _ _ _ (by simp)] at hb
                exact h.content k d b0 hm b' bt hb
          | delPayload p hr hbe hh =>
              have hp := (hc.replShape i t p hi hr).1
              refine ⟨?_, ?_, by rw [hh]; exact np_old, by rw [hh]; exact ids_old, by rw [hbe]; exact blobs_adel h.blobs _⟩
              · intro k d hd
                rw [hbe, docAt_adel_payload _ _ (isPayloadPath_ne_mt hp)] at hd
                rw [hh]; exact h.cur k d hd
              · intro k d b0 hm b' bt hb
                rw [hh] at hm
                rw [hbe, aget_adel] at hb
                split at hb
                · cases hb
                · exact h.content k d b0 hm b' bt hb

theorem hinv_step {c : Cfg} (hc : CInv c) (h : HInv c) (ch : Choice) : HInv (step c ch) := by
  cases ch with
  | w i a => exact hinv_wr hc h i a
  | gcList cands =>
      simp only [step]
      split
      · cases c.gc <;> exact h.frame rfl rfl rfl rfl
      · exact h
  | gcStep => exact hinv_gc hc h
  | r i =>
      simp only [step]
      cases c.rs[i]? <;> exact h.frame rfl rfl rfl rfl
  | tick => exact h.frame rfl rfl rfl rfl


/-! ### readers -/

/-- a finished read is sound: NotFound, or the precondition error of a commit of the key, or the serving
(metadata from the commit point, bytes from the commit's own payload) of a commit of the key that
passed `check_get_preconditions` -/
def SoundOut (hist : List (Path × Doc × Bytes)) (t : Rd) (r : Out) : Prop :=
  r = .err .notFound ∨
  ∃ d b, (t.k, d, b) ∈ hist ∧
    ((∃ e, checkGetPreconditions t.o d.etag (logicalLM d) = .error e ∧ r = .err e) ∨
     (∃ o' bt, checkGetPreconditions t.o d.etag (logicalLM d) = .ok o' ∧ r = outOf (servedOut t.k d o' b bt)) ∨
     -- EncryptedStore: the caller's range is invalid for the size that commit records
     (∃ o', checkGetPreconditions t.o d.etag (logicalLM d) = .ok o' ∧ rangeFails o'.range d.size = true ∧ r = .err .generic))

def RdOK (hist : List (Path × Doc × Bytes)) (t : Rd) : Prop :=
  match t.pc with
  | .init => ∀ d, t.cached = some d → ∃ b, (t.k, d, b) ∈ hist
  | .resolved d => ∃ b, (t.k, d, b) ∈ hist
  | .checked d o' => (∃ b, (t.k, d, b) ∈ hist) ∧ checkGetPreconditions t.o d.etag (logicalLM d) = .ok o'
  | .retry _ => True
  | .resolved2 d _ => ∃ b, (t.k, d, b) ∈ hist
  | .checked2 d o' => (∃ b, (t.k, d, b) ∈ hist) ∧ checkGetPreconditions t.o d.etag (logicalLM d) = .ok o'
  | .done r => SoundOut hist t r

def RInv (c : Cfg) : Prop := ∀ (i : Nat) (t : Rd), c.rs[i]? = some t → RdOK c.hist t

theorem RdOK.mono {h h' : List (Path × Doc × Bytes)} (hsub : ∀ x, x ∈ h → x ∈ h') {t : Rd} (ht : RdOK h t) : RdOK h' t := by
  unfold RdOK at ht ⊢
  cases hpc : t.pc with
  | init => rw [hpc] at ht; intro d hd; obtain ⟨b, hb⟩ := ht d hd; exact ⟨b, hsub _ hb⟩
  | resolved d => rw [hpc] at ht; obtain ⟨b, hb⟩ := ht; exact ⟨b, hsub _ hb⟩
  | checked d o' => rw [hpc] at ht; obtain ⟨⟨b, hb⟩, h2⟩ := ht; exact ⟨⟨b, hsub _ hb⟩, h2⟩
  | retry o1 => trivial
  | resolved2 d o1 => rw [hpc] at ht; obtain ⟨b, hb⟩ := ht; exact ⟨b, hsub _ hb⟩
  | checked2 d o' => rw [hpc] at ht; obtain ⟨⟨b, hb⟩, h2⟩ := ht; exact ⟨⟨b, hsub _ hb⟩, h2⟩
  | done r =>
      rw [hpc] at ht
      rcases ht with h0 | ⟨d, b, hm, h1⟩
      · exact Or.inl h0
      · exact Or.inr ⟨d, b, hsub _ hm, h1⟩

theorem docNow_eq (be : Backend) (k : Path) : docNow be k = docAt be k := rfl

/-- the payload fetch of a reader that holds a commit of the key which passed the check -/
theorem fetch_sound {c : Cfg} (h : HInv c) (t : Rd) (d : Doc) (o' : GetOpts) (b : Bytes) (hm : (t.k, d, b) ∈ c.hist)
    (hp : checkGetPreconditions t.o d.etag (logicalLM d) = .ok o') (r : Except Err Out)
    (enc : Bool) (hf : getFetch enc c.be t.k d o' = .done r) : SoundOut c.hist t (outOf r) := by
  unfold getFetch at hf
  by_cases hrf : (enc && rangeFails o'.range d.size) = true
  · simp only [hrf, if_true, Attempt.done.injEq] at hf
    rw [← hf]
    simp only [Bool.and_eq_true] at hrf
    exact Or.inr ⟨d, b, hm, Or.inr (Or.inr ⟨o', hp, hrf.2, rfl⟩)⟩
  · simp only [hrf, Bool.false_eq_true, if_false] at hf
    cases hg : aget c.be (payloadPath t.k d.gen) with
    | none => simp [hg] at hf
    | some e =>
        obtain ⟨b', hb'⟩ := h.blobs _ e (isPayloadPath_payloadPath _ _) hg
        obtain ⟨o, bt⟩ := e
        simp only at hb'
        subst hb'
        simp only [hg, Attempt.done.injEq] at hf
        have := h.content t.k d b hm b' bt hg
        subst this
        rw [← hf]
        exact Or.inr ⟨d, b', hm, Or.inr (Or.inl ⟨o', bt, hp, rfl⟩)⟩

theorem rdStep_ok {c : Cfg} (h : HInv c) (t : Rd) (ht : RdOK c.hist t) : RdOK c.hist (rdStep c t) := by
  have check_ok : ∀ (d : Doc) (next : Doc → GetOpts → RdPc), (∃ b, (t.k, d, b) ∈ c.hist) →
      (∀ o', checkGetPreconditions t.o d.etag (logicalLM d) = .ok o' → RdOK c.hist { t with pc := next d o' }) →
      RdOK c.hist { t with pc := rdCheck t d next } := by
    intro d next hd hn
    unfold rdCheck
    cases hc : checkGetPreconditions t.o d.etag (logicalLM d) with
    | error e =>
        obtain ⟨b, hb⟩ := hd
        exact Or.inr ⟨d, b, hb, Or.inl ⟨e, hc, rfl⟩⟩
    | ok o' => exact hn o' hc
  unfold rdStep
  unfold RdOK at ht
  cases hpc : t.pc with
  | init =>
      rw [hpc] at ht
      simp only []
      cases hcd : t.cached with
      | some d => exact ht d hcd
      | none =>
          simp only []
          rw [docNow_eq]
          cases hd : docAt c.be t.k with
          | none => exact Or.inl rfl
          | some d => exact h.cur t.k d hd
  | resolved d =>
      rw [hpc] at ht
      exact check_ok d .checked ht (fun o' ho => ⟨ht, ho⟩)
  | checked d o' =>
      rw [hpc] at ht
      obtain ⟨⟨b, hb⟩, hp⟩ := ht
      simp only []
      cases hf : getFetch (decide (c.flavor = .encrypted)) c.be t.k d o' with
      | stale => trivial
      | done r => exact fetch_sound h t d o' b hb hp r _ hf
  | retry o1 =>
      simp only []
      rw [docNow_eq]
      cases hd : docAt c.be t.k with
      | none => exact Or.inl rfl
      | some d => exact h.cur t.k d hd
  | resolved2 d o1 =>
      rw [hpc] at ht
      simp only [gen_get_recheck_in_retry, if_true]
      exact check_ok d .checked2 ht (fun o' ho => ⟨ht, ho⟩)
  | checked2 d o' =>
      rw [hpc] at ht
      obtain ⟨⟨b, hb⟩, hp⟩ := ht
      simp only []
      cases hf : getFetch (decide (c.flavor = .encrypted)) c.be t.k d o' with
      | stale => exact Or.inl rfl
      | done r => exact fetch_sound h t d o' b hb hp r _ hf
  | done r =>
      rw [hpc] at ht
      simp only []
      unfold RdOK
      rw [hpc]
      exact ht

/-- the history only grows -/
theorem step_hist_mono (c : Cfg) (ch : Choice) : ∀ x, x ∈ c.hist → x ∈ (step c ch).hist := by
  intro x hx
  cases ch with
  | tick => exact hx
  | r i => simp only [step]; cases c.rs[i]? <;> exact hx
  | gcList cands =>
      simp only [step]
      split
      · cases c.gc <;> exact hx
      · exact hx
  | gcStep =>
      simp only [step]
      cases c.gc with
      | idle => exact hx
      | sweeping cs => cases cs <;> exact hx
      | cand p stage rest =>
          simp only [gcCheck]
          split
          · exact hx
          · split <;> exact hx
          · split <;> exact hx
          · exact hx
  | w i a =>
      simp only [step]
      cases hi : c.ws[i]? with
      | none => exact hx
      | some t =>
          simp only []
          cases hs : wrStep c t a with
          | none => exact hx
          | some r =>
              obtain ⟨c', t'⟩ := r
              obtain ⟨_, _, _, _, _, _, heff⟩ := wrStep_eff hs
              simp only []
              cases heff with
              | same _ hh => rw [hh]; exact hx
              | payload _ _ _ _ _ _ _ hh => rw [hh]; exact hx
              | commit _ _ _ _ _ _ _ _ hh => rw [hh]; exact List.mem_cons_of_mem _ hx
              | delMeta _ hh => rw [hh]; exact hx
              | delPayload _ _ _ hh => rw [hh]; exact hx

/-- readers are only moved by their own steps -/
theorem step_rs (c : Cfg) (ch : Choice) :
    (step c ch).rs = c.rs ∨ ∃ i t, ch = .r i ∧ c.rs[i]? = some t ∧ (step c ch).rs = c.rs.set i (rdStep c t) ∧ (step c ch).hist = c.hist := by
  cases ch with
  | tick => exact Or.inl rfl
  | r i =>
      simp only [step]
      cases hi : c.rs[i]? with
      | none => exact Or.inl rfl
      | some t => exact Or.inr ⟨i, t, rfl, hi, rfl, rfl⟩
  | gcList cands =>
      left
      simp only [step]
      split
      · cases c.gc <;> rfl
      · rfl
  | gcStep =>
      left
      simp only [step]
      cases c.gc with
      | idle => rfl
      | sweeping cs => cases cs <;> rfl
      | cand p stage rest =>
          simp only [gcCheck]
          split
          · rfl
          · split <;> rfl
          · split <;> rfl
          · rfl
  | w i a =>
      left
      simp only [step]
      cases hi : c.ws[i]? with
      | none => rfl
      | some t =>
          simp only []
          cases hs : wrStep c t a with
          | none => rfl
          | some r =>
              obtain ⟨c', t'⟩ := r
              exact (wrStep_eff hs).2.2.1

theorem rinv_step {c : Cfg} (hh : HInv c) (hr : RInv c) (ch : Choice) : RInv (step c ch) := by
  intro j x hx
  rcases step_rs c ch with hsame | ⟨i, t, _, hi, hset, hhist⟩
  · rw [hsame] at hx
    exact (hr j x hx).mono (step_hist_mono c ch)
  · rw [hset] at hx
    rw [hhist]
    rcases getElem?_set_cases _ _ _ _ _ hx with ⟨_, rfl⟩ | ⟨_, hx'⟩
    · exact rdStep_ok hh t (hr i t hi)
    · exact hr j x hx'

/-- all three invariants along any schedule -/
theorem run_read_inv {c : Cfg} (hc : CInv c) (hh : HInv c) (hr : RInv c) (s : List Choice) :
    CInv (runSchedule c s) ∧ HInv (runSchedule c s) ∧ RInv (runSchedule c s) := by
  induction s generalizing c with
  | nil => exact ⟨hc, hh, hr⟩
  | cons ch s ih => exact ih (inv_step hc ch) (hinv_step hc hh ch) (rinv_step hh hr ch)


/-! ### a start configuration -/

/-- the commits readable in `be` -/
def histOf (be : Backend) : List (Path × Doc × Bytes) :=
  be.filterMap (fun pe =>
    match pe.1, pe.2.obj with
    | .mt k, .doc d =>
        match aget be (payloadPath k d.gen) with
        | some ⟨.blob b, _⟩ => some (k, d, b)
        | _ => none
    | _, _ => none)

theorem mem_histOf {be : Backend} {k : Path} {d : Doc} {b : Bytes} (h : (k, d, b) ∈ histOf be) :
    (∃ t, (BPath.mt k, (⟨.doc d, t⟩ : BEnt)) ∈ be) ∧ ∃ bt, aget be (payloadPath k d.gen) = some ⟨.blob b, bt⟩ := by
  unfold histOf at h
  rw [List.mem_filterMap] at h
  obtain ⟨⟨p, e⟩, hmem, hf⟩ := h
  obtain ⟨o, t⟩ := e
  cases p with
  | mt k' =>
      cases o with
      | doc d' =>
          simp only at hf
          cases hg : aget be (payloadPath k' d'.gen) with
          | none => simp [hg] at hf
          | some e2 =>
              obtain ⟨o2, bt⟩ := e2
              cases o2 with
              | blob b' =>
                  simp only [hg, Option.some.injEq, Prod.mk.injEq] at hf
                  obtain ⟨h1, h2, h3⟩ := hf
                  subst h1; subst h2; subst h3
                  exact ⟨⟨t, hmem⟩, bt, hg⟩
              | doc _ => simp [hg] at hf
              | junk => simp [hg] at hf
      | blob _ => simp at hf
      | junk => simp at hf
  | gen _ _ => simp at hf
  | data _ => simp at hf

theorem histOf_mem {be : Backend} {k : Path} {d : Doc} {b : Bytes} {t bt : Nat}
    (hm : (BPath.mt k, (⟨.doc d, t⟩ : BEnt)) ∈ be) (hb : aget be (payloadPath k d.gen) = some ⟨.blob b, bt⟩) :
    (k, d, b) ∈ histOf be := by
  unfold histOf
  rw [List.mem_filterMap]
  exact ⟨(.mt k, ⟨.doc d, t⟩), hm, by simp [hb]⟩

/-- a wrapper at rest, calls about to start: writers, and readers whose cache entry (if any) is the
current commit point -/
def Cfg.startRW (fl : Wrapper) (be : Backend) (n : Nat) (calls : List Wr) (readers : List Rd) : Cfg :=
  { flavor := fl, be := be, nextId := n, ws := calls, rs := readers, hist := histOf be }

theorem startRW_inv (fl : Wrapper) {be : Backend} {n : Nat} (hbe : BInv be n)
    (hblobs : ∀ (p : BPath) (e : BEnt), isPayloadPath p = true → aget be p = some e → ∃ b, e.obj = .blob b)
    (calls : List Wr) (hf : ∀ t ∈ calls, t.Fresh) (readers : List Rd)
    (hrd : ∀ t ∈ readers, t.pc = .init ∧ ∀ d, t.cached = some d → docAt be t.k = some d) :
    CInv (Cfg.startRW fl be n calls readers) ∧ HInv (Cfg.startRW fl be n calls readers) ∧
    RInv (Cfg.startRW fl be n calls readers) := by
  have hcur : ∀ (k : Path) (d : Doc), docAt be k = some d → ∃ b, (k, d, b) ∈ histOf be := by
    intro k d hd
    obtain ⟨b, bt, hb, _⟩ := hbe.ptr k d hd
    obtain ⟨t, ht⟩ := docAt_eq_some hd
    exact ⟨b, histOf_mem ((mem_iff_aget be hbe.nodup _ _).2 ht) hb⟩
  refine ⟨inv_ghost (CInv.start fl hbe calls hf) readers (histOf be), ⟨hcur, ?_, ?_, ?_, hblobs⟩, ?_⟩
  · intro k d b hm b' bt hb
    obtain ⟨_, bt2, hb2⟩ := mem_histOf hm
    simp only [Cfg.startRW] at hb
    rw [hb2] at hb
    simp only [Option.some.injEq, BEnt.mk.injEq, Obj.blob.injEq] at hb
    exact hb.1.symm
  · intro k d b _ i t g hi hp
    have h0 := (hf t (List.mem_of_getElem? hi)).1
    have h1 := hp.1
    rw [h0] at h1
    cases h1
  · intro k d b g hm hdg
    obtain ⟨_, bt, hb⟩ := mem_histOf hm
    rw [hdg] at hb
    exact hbe.fresh k g (by simp [payloadPath] at hb; simp [hb])
  · intro i t hi
    obtain ⟨hpc, hc⟩ := hrd t (List.mem_of_getElem? hi)
    unfold RdOK
    rw [hpc]
    intro d hd
    exact hcur t.k d (hc d hd)

end AndaVerif.ObjStore.Conc
