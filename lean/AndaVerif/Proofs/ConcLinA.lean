import AndaVerif.Proofs.ConcAll
import AndaVerif.Proofs.ConcIdx
/-
Linearization, part A: the three linearization points that touch the unique indexes — the index
closures of `add`, `update` and `remove` at the granularity of a single-threaded executor — are
legal steps of the sequential specification on the ghost documents, and keep the indexes in
agreement with the ghost documents.
-/
namespace AndaVerif.ConcColl

/-- the unique indexes agree with the ghost documents -/
structure IdxAbs (sh : Shared) : Prop where
  k : sh.conf.idxK = true → IdxRel (·.k) sh.idxK sh.gdocs
  u : sh.conf.idxU = true → IdxRel (·.u) sh.idxU sh.gdocs

def gstate (sh : Shared) : SpecState := { docs := sh.gdocs, ext := sh.ext }

/-- what a linearizing action establishes -/
structure LinStep (sh : Shared) (t : Nat) (op : Op) (sh' : Shared) (th' : Thread) : Prop where
  idx : IdxAbs sh'
  spec : ∃ r, sh'.glog = (t, r) :: sh.glog ∧ th'.pred = some r ∧ SpecF sh.conf op r (gstate sh) (gstate sh')

theorem specF_congr {conf : Config} {op : Op} {r : Res} {a b b' : SpecState}
    (h : SpecF conf op r a b) (hb : b = b') : SpecF conf op r a b' := hb ▸ h

theorem conflict_of_k (conf : Config) (docs : Nat → Option Doc) (me : Option Nat) (d : Doc) (cu : Bool)
    (hk : conf.idxK = true) (j : Nat) (dj : Doc) (hj : some j ≠ me) (hd : docs j = some dj) (he : dj.k = d.k) :
    ConflictF conf docs me d true cu := ⟨j, dj, hj, hd, Or.inl ⟨hk, rfl, he⟩⟩

theorem conflict_of_u (conf : Config) (docs : Nat → Option Doc) (me : Option Nat) (d : Doc) (ck : Bool)
    (hu : conf.idxU = true) (j : Nat) (dj : Doc) (hj : some j ≠ me) (hd : docs j = some dj) (he : dj.u = d.u) :
    ConflictF conf docs me d ck true := ⟨j, dj, hj, hd, Or.inr ⟨hu, rfl, he⟩⟩

/-- `add`'s index closure (coarse granularity) is a legal `add` of the specification. -/
theorem addPhase_lin (sh : Shared) (t : Nat) (th : Thread) (d : Doc) (sh' : Shared) (th' : Thread)
    (hcoarse : sh.conf.fine = false) (habs : IdxAbs sh) (hid : th.id ≠ 0) (hfree : sh.gdocs th.id = none)
    (h : addPhase sh t th d = (sh', th')) : LinStep sh t (.add d) sh' th' := by
  unfold addPhase at h
  unfold addIdxK at h
  by_cases hK : sh.conf.idxK = true
  · simp only [hK, if_true] at h
    rcases hins : idxInsert sh.idxK d.k th.id with _ | ik
    · -- the k index refuses
      simp only [hins, Prod.mk.injEq] at h
      obtain ⟨rfl, rfl⟩ := h
      obtain ⟨j, dj, _, hdj, hkj⟩ := (habs.k hK).insert_none d.k th.id hins
      refine ⟨⟨by simpa using habs.k, by simpa using habs.u⟩, .err .exists, by simp, by simp, ?_⟩
      exact specF_congr (SpecF.addDup d _ (conflict_of_k _ _ _ _ _ hK j dj (by simp) hdj hkj)) (by simp [gstate])
    · simp only [hins, hcoarse, Bool.false_eq_true, if_false] at h
      unfold addPhaseU addIdxU at h
      have hnoK := (habs.k hK).insert_some d.k th.id hins
      by_cases hU : sh.conf.idxU = true
      · simp only [hU, if_true] at h
        rcases hinsU : idxInsert sh.idxU d.u th.id with _ | iu
        · -- the u index refuses: the k entry is rolled back
          simp only [hinsU, Prod.mk.injEq] at h
          obtain ⟨rfl, rfl⟩ := h
          obtain ⟨j, dj, _, hdj, huj⟩ := (habs.u hU).insert_none d.u th.id hinsU
          refine ⟨⟨?_, ?_⟩, .err .exists, by simp, by simp, ?_⟩
          · intro _
            simp only [leave_idxK, linS_idxK, leave_gdocs, linS_gdocs, addRollback, hK, if_true]
            exact (habs.k hK).insert_remove d.k th.id hfree hins
          · intro _
            simp only [leave_idxU, linS_idxU, leave_gdocs, linS_gdocs, addRollback, hU, if_true]
            exact (habs.u hU).remove_absent d.u th.id hfree
          · exact specF_congr (SpecF.addDup d _ (conflict_of_u _ _ _ _ _ hU j dj (by simp) hdj huj)) (by simp [gstate])
        · -- both accept
          simp only [hinsU, Prod.mk.injEq] at h
          obtain ⟨rfl, rfl⟩ := h
          have hnoU := (habs.u hU).insert_some d.u th.id hinsU
          refine ⟨⟨fun _ => ?_, fun _ => ?_⟩, .added th.id, rfl, rfl, ?_⟩
          · exact (habs.k hK).insert d th.id hfree hins
          · exact (habs.u hU).insert d th.id hfree hinsU
          · refine specF_congr (SpecF.addOk d th.id (gstate sh) hid hfree ?_) (by simp [gstate] <;> rfl)
            rintro ⟨j, dj, hj, hdj, hc⟩
            have hji : j ≠ th.id := by
              intro he; rw [he] at hdj; simp [gstate, hfree] at hdj
            rcases hc with ⟨_, _, he⟩ | ⟨_, _, he⟩
            · exact hnoK ⟨j, dj, hji, hdj, he⟩
            · exact hnoU ⟨j, dj, hji, hdj, he⟩
      · -- no u index
        have hU' : sh.conf.idxU = false := by simpa using hU
        simp only [hU', Bool.false_eq_true, if_false, Prod.mk.injEq] at h
        obtain ⟨rfl, rfl⟩ := h
        refine ⟨⟨fun _ => ?_, fun hh => by simp [hU'] at hh⟩, .added th.id, rfl, rfl, ?_⟩
        · exact (habs.k hK).insert d th.id hfree hins
        · refine specF_congr (SpecF.addOk d th.id (gstate sh) hid hfree ?_) (by simp [gstate] <;> rfl)
          rintro ⟨j, dj, hj, hdj, hc⟩
          have hji : j ≠ th.id := by
            intro he; rw [he] at hdj; simp [gstate, hfree] at hdj
          rcases hc with ⟨_, _, he⟩ | ⟨hu, _, _⟩
          · exact hnoK ⟨j, dj, hji, hdj, he⟩
          · rw [hU'] at hu; cases hu
  · -- no k index
    have hK' : sh.conf.idxK = false := by simpa using hK
    simp only [hK', Bool.false_eq_true, if_false, hcoarse] at h
    unfold addPhaseU addIdxU at h
    by_cases hU : sh.conf.idxU = true
    · simp only [hU, if_true] at h
      rcases hinsU : idxInsert sh.idxU d.u th.id with _ | iu
      · simp only [hinsU, Prod.mk.injEq] at h
        obtain ⟨rfl, rfl⟩ := h
        obtain ⟨j, dj, _, hdj, huj⟩ := (habs.u hU).insert_none d.u th.id hinsU
        refine ⟨⟨fun hh => by simp [hK'] at hh, ?_⟩, .err .exists, by simp, by simp, ?_⟩
        · intro _
          simp only [leave_idxU, linS_idxU, leave_gdocs, linS_gdocs, addRollback, hU, if_true]
          exact (habs.u hU).remove_absent d.u th.id hfree
        · exact specF_congr (SpecF.addDup d _ (conflict_of_u _ _ _ _ _ hU j dj (by simp) hdj huj)) (by simp [gstate])
      · simp only [hinsU, Prod.mk.injEq] at h
        obtain ⟨rfl, rfl⟩ := h
        have hnoU := (habs.u hU).insert_some d.u th.id hinsU
        refine ⟨⟨fun hh => by simp [hK'] at hh, fun _ => ?_⟩, .added th.id, rfl, rfl, ?_⟩
        · exact (habs.u hU).insert d th.id hfree hinsU
        · refine specF_congr (SpecF.addOk d th.id (gstate sh) hid hfree ?_) (by simp [gstate] <;> rfl)
          rintro ⟨j, dj, hj, hdj, hc⟩
          have hji : j ≠ th.id := by
            intro he; rw [he] at hdj; simp [gstate, hfree] at hdj
          rcases hc with ⟨hk, _, _⟩ | ⟨_, _, he⟩
          · rw [hK'] at hk; cases hk
          · exact hnoU ⟨j, dj, hji, hdj, he⟩
    · have hU' : sh.conf.idxU = false := by simpa using hU
      simp only [hU', Bool.false_eq_true, if_false, Prod.mk.injEq] at h
      obtain ⟨rfl, rfl⟩ := h
      refine ⟨⟨fun hh => by simp [hK'] at hh, fun hh => by simp [hU'] at hh⟩, .added th.id, rfl, rfl, ?_⟩
      refine specF_congr (SpecF.addOk d th.id (gstate sh) hid hfree ?_) (by simp [gstate] <;> rfl)
      rintro ⟨j, dj, hj, hdj, hc⟩
      rcases hc with ⟨hk, _, _⟩ | ⟨hu, _, _⟩
      · rw [hK'] at hk; cases hk
      · rw [hU'] at hu; cases hu

theorem applyFields_k_none (d : Doc) (fu fv : Option Nat) : (applyFields d none fu fv).k = d.k := rfl
theorem applyFields_u_none (d : Doc) (fk fv : Option Nat) : (applyFields d fk none fv).u = d.u := rfl

/-- `update`'s index closure (coarse granularity) is a legal `update` of the specification. -/
theorem updLin_lin (sh : Shared) (t : Nat) (th : Thread) (id : Nat) (fk fu fv : Option Nat)
    (sh' : Shared) (th' : Thread) (habs : IdxAbs sh) (old : Doc) (hold : th.old = some old)
    (hg : sh.gdocs id = some old) (hnew : th.new = applyFields old fk fu fv)
    (hne : ¬ (fk = none ∧ fu = none ∧ fv = none))
    (h : updLin sh t th id fk fu = (sh', th')) : LinStep sh t (.upd id fk fu fv) sh' th' := by
  unfold updLin at h
  simp only [hold, Option.getD_some] at h
  -- the two index updates
  have hKnone : ∀ (hK : sh.conf.idxK = true) (hf : fk.isSome = true), idxUpdate sh.idxK old.k th.new.k id = none →
      ConflictF sh.conf sh.gdocs (some id) th.new (fk.isSome && old.k != th.new.k) (fu.isSome && old.u != th.new.u) := by
    intro hK hf hn
    obtain ⟨hne2, j, dj, hj, hdj, hkj⟩ := (habs.k hK).update_none old.k th.new.k id hn
    exact ⟨j, dj, by simpa using hj, hdj, Or.inl ⟨hK, by simp [hf, hne2], hkj⟩⟩
  have hUnone : ∀ (hU : sh.conf.idxU = true) (hf : fu.isSome = true), idxUpdate sh.idxU old.u th.new.u id = none →
      ConflictF sh.conf sh.gdocs (some id) th.new (fk.isSome && old.k != th.new.k) (fu.isSome && old.u != th.new.u) := by
    intro hU hf hn
    obtain ⟨hne2, j, dj, hj, hdj, hkj⟩ := (habs.u hU).update_none old.u th.new.u id hn
    exact ⟨j, dj, by simpa using hj, hdj, Or.inr ⟨hU, by simp [hf, hne2], hkj⟩⟩
  have dup : ∀ b : Bool, ConflictF sh.conf sh.gdocs (some id) th.new (fk.isSome && old.k != th.new.k) (fu.isSome && old.u != th.new.u) →
      LinStep sh t (.upd id fk fu fv)
        (leave (unlockDoc (linS { sh with idxDirty := sh.idxDirty || b } t (.err .exists)) id) t)
        (finL th (.err .exists)) := by
    intro b hc
    refine ⟨⟨by simpa using habs.k, by simpa using habs.u⟩, .err .exists, by simp, by simp, ?_⟩
    refine specF_congr (SpecF.updDup id fk fu fv old (gstate sh) hg hne ?_) (by simp [gstate])
    rw [← hnew]; exact hc
  unfold updIndexes at h
  -- k
  rcases hik : (if (sh.conf.idxK && fk.isSome) = true then idxUpdate sh.idxK old.k th.new.k id else some sh.idxK) with _ | ik
  · simp only [hik, Prod.mk.injEq] at h
    obtain ⟨rfl, rfl⟩ := h
    split at hik
    · next hc =>
      simp only [Bool.and_eq_true] at hc
      exact dup _ (hKnone hc.1 hc.2 hik)
    · cases hik
  · simp only [hik] at h
    rcases hiu : (if (sh.conf.idxU && fu.isSome) = true then idxUpdate sh.idxU old.u th.new.u id else some sh.idxU) with _ | iu
    · simp only [hiu, Prod.mk.injEq] at h
      obtain ⟨rfl, rfl⟩ := h
      split at hiu
      · next hc =>
        simp only [Bool.and_eq_true] at hc
        exact dup _ (hUnone hc.1 hc.2 hiu)
      · cases hiu
    · simp only [hiu, Prod.mk.injEq] at h
      obtain ⟨rfl, rfl⟩ := h
      refine ⟨⟨fun hK => ?_, fun hU => ?_⟩, .doc th.new, rfl, rfl, ?_⟩
      · -- k index agrees
        have hK : sh.conf.idxK = true := hK
        show IdxRel (·.k) ik (fun i => if i = id then some th.new else sh.gdocs i)
        split at hik
        · exact (habs.k hK).update old th.new id hg hik
        · next hc =>
          cases hik
          have hfk : fk = none := by
            cases fk with
            | none => rfl
            | some x => simp at hc; exact absurd (hK.symm.trans hc) (by decide)
          exact (habs.k hK).same_key old th.new id hg (by rw [hnew, hfk]; rfl)
      · have hU : sh.conf.idxU = true := hU
        show IdxRel (·.u) iu (fun i => if i = id then some th.new else sh.gdocs i)
        split at hiu
        · exact (habs.u hU).update old th.new id hg hiu
        · next hc =>
          cases hiu
          have hfu : fu = none := by
            cases fu with
            | none => rfl
            | some x => simp at hc; exact absurd (hU.symm.trans hc) (by decide)
          exact (habs.u hU).same_key old th.new id hg (by rw [hnew, hfu]; rfl)
      · rw [hnew]
        refine specF_congr (SpecF.updOk id fk fu fv old (gstate sh) hg hne ?_) (by simp [gstate] <;> rfl)
        rw [← hnew]
        rintro ⟨j, dj, hj, hdj, hc⟩
        have hji : j ≠ id := by simpa using hj
        rcases hc with ⟨hK, hchk, he⟩ | ⟨hU, hchk, he⟩
        · simp only [Bool.and_eq_true, bne_iff_ne, ne_eq] at hchk
          have hcond : (sh.conf.idxK && fk.isSome) = true := by simp [hK, hchk.1]
          simp only [hcond, if_true] at hik
          exact (habs.k hK).update_some old.k th.new.k id hik hchk.2 ⟨j, dj, hji, hdj, he⟩
        · simp only [Bool.and_eq_true, bne_iff_ne, ne_eq] at hchk
          have hcond : (sh.conf.idxU && fu.isSome) = true := by simp [hU, hchk.1]
          simp only [hcond, if_true] at hiu
          exact (habs.u hU).update_some old.u th.new.u id hiu hchk.2 ⟨j, dj, hji, hdj, he⟩

/-- `remove`'s index phase is a legal `remove` of the specification. -/
theorem rmLin_lin (sh : Shared) (t : Nat) (th : Thread) (id : Nat) (sh' : Shared) (th' : Thread)
    (habs : IdxAbs sh) (old : Doc) (hold : th.old = some old) (hg : sh.gdocs id = some old)
    (h : rmLin sh t th id = (sh', th')) : LinStep sh t (.rm id) sh' th' := by
  unfold rmLin at h
  simp only [hold, Option.getD_some, Prod.mk.injEq] at h
  obtain ⟨rfl, rfl⟩ := h
  refine ⟨⟨fun hK => ?_, fun hU => ?_⟩, .doc old, by simp, rfl, ?_⟩
  · have hK' : sh.conf.idxK = true := by simpa using hK
    simp only [rmIndexes, hK', if_true]
    exact (habs.k hK').remove old id hg
  · have hU' : sh.conf.idxU = true := by simpa using hU
    simp only [rmIndexes, hU', if_true]
    exact (habs.u hU').remove old id hg
  · exact specF_congr (SpecF.rmOk id old (gstate sh) hg) (by simp [gstate] <;> rfl)

end AndaVerif.ConcColl
