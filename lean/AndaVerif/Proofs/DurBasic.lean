import AndaVerif.Model.Durability
/-
C01 helper lemmas, part 1: what a backend mutation attempt can do to the durable state, whatever
the fault schedule says — it either lands or it does not, and a reported success means it landed.
-/
namespace AndaVerif.Durability

theorem attempt_cases (w : World) (e : Ev) (f : Durable → Durable) :
    ((w.attempt e f).2 = true ∧ (w.attempt e f).1.D = f w.D) ∨
    ((w.attempt e f).2 = false ∧ ((w.attempt e f).1.D = w.D ∨ (w.attempt e f).1.D = f w.D)) := by
  unfold World.attempt
  split
  · simp
  · split <;> simp

theorem reject_D (w : World) : w.reject.D = w.D := by
  unfold World.reject
  split
  · rfl
  · split <;> rfl

theorem attempt_clk (w : World) (e : Ev) (f : Durable → Durable) : (w.attempt e f).1.clk = w.clk := by
  unfold World.attempt
  split
  · rfl
  · split <;> rfl

/-- every reachable outcome of a sequence of dependent attempts satisfies a predicate that holds
at the start and is preserved by each of the mutations -/
theorem attemptAll_inv (P : Durable → Prop) :
    ∀ (fs : List (Ev × (Durable → Durable))) (w : World),
      (∀ ef ∈ fs, ∀ D, P D → P (ef.2 D)) → P w.D → P (w.attemptAll fs).1.D := by
  intro fs
  induction fs with
  | nil => intro w _ h; simpa [World.attemptAll] using h
  | cons ef r ih =>
    intro w hs h
    obtain ⟨e, f⟩ := ef
    simp only [World.attemptAll]
    have hf : P (f w.D) := hs (e, f) (by simp) w.D h
    have hstep : P (w.attempt e f).1.D := by
      rcases attempt_cases w e f with ⟨_, hD⟩ | ⟨_, hD | hD⟩ <;> rw [hD] <;> assumption
    split
    · exact ih _ (fun ef hm => hs ef (by simp [hm])) hstep
    · exact hstep

/-- a sequence of attempts that reported success throughout applied every mutation, in order -/
theorem attemptAll_ok :
    ∀ (fs : List (Ev × (Durable → Durable))) (w : World),
      (w.attemptAll fs).2 = true → (w.attemptAll fs).1.D = fs.foldl (fun D ef => ef.2 D) w.D := by
  intro fs
  induction fs with
  | nil => intro w _; simp [World.attemptAll]
  | cons ef r ih =>
    intro w h
    obtain ⟨e, f⟩ := ef
    simp only [World.attemptAll] at h ⊢
    split at h
    · rename_i hok
      simp only [hok, if_true]
      rw [ih _ h]
      rcases attempt_cases w e f with ⟨_, hD⟩ | ⟨hno, _⟩
      · simp [hD]
      · simp [hno] at hok
    · simp at h

end AndaVerif.Durability
