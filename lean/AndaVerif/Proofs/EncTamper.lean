/-
C09: from an ideal, nonce-respecting AEAD to `ChunkSound`, and the read paths on an arbitrary backend.
The AEAD properties are *hypotheses* (`Ideal`, `NonceRespecting`, `Honest`), never axioms.
-/
import AndaVerif.Proofs.EncAad
import AndaVerif.Proofs.EncSound

namespace AndaVerif.Enc
open AndaVerif.Gen.EncAad

/-- One `encrypt_inout_detached` call under the store's key. -/
structure SealRec where
  nonce : Bytes
  aad : Bytes
  pt : Bytes
  ct : Bytes
  tag : Bytes
  deriving DecidableEq, Repr

/-- INT-CTXT relative to the history of seal calls: whatever opens was sealed, with that plaintext. -/
def Ideal (A : AEAD) (H : List SealRec) : Prop :=
  ∀ n a ct t p, A.dec n a ct t = some p → (⟨n, a, p, ct, t⟩ : SealRec) ∈ H

/-- No nonce was used for two seal calls (within an object this is `deriveNonce_injective`; across
objects and against the metadata seals it is the randomness of the 96-bit nonces — an assumption). -/
def NonceRespecting (H : List SealRec) : Prop :=
  ∀ r₁ ∈ H, ∀ r₂ ∈ H, r₁.nonce = r₂.nonce → r₁ = r₂

/-- A commit of a key: the plaintext, the chunk size it was written with, the sealed document. -/
structure Commit where
  loc : Bytes
  plain : Bytes
  c : Nat
  doc : Meta

/-- What the writer guarantees about the history (`put_opts`, multipart `complete`, `copy_opts`):
 * every seal call is a metadata seal of some commit, or a chunk seal (domain-separated AAD);
 * the document of a commit describes its plaintext: size, chunk size, bound chunk AAD, one tag per
   chunk, and the seal call under nonce `derive(base, i)` sealed chunk `i` of that plaintext. -/
structure Honest (H : List SealRec) (commits : List Commit) : Prop where
  classify : ∀ r ∈ H, (∃ k ∈ commits, r.aad = metaAad k.loc k.doc) ∨ (∃ c i, r.aad = chunkAad c i)
  fits : ∀ k ∈ commits, k.doc.fits k.loc = true
  size : ∀ k ∈ commits, k.doc.size = k.plain.length
  chunk : ∀ k ∈ commits, k.doc.chunkSize = some k.c ∧ 1 ≤ k.c ∧ k.c ≤ U64MAX
  bound : ∀ k ∈ commits, k.doc.chunkAadVersion = some chunkAadBound
  ntags : ∀ k ∈ commits, k.doc.aesTags.length = (chunks k.c k.plain).length
  sealed : ∀ k ∈ commits, ∀ i ch, (chunks k.c k.plain)[i]? = some ch →
    ∃ r ∈ H, r.nonce = deriveNonceBytes k.doc.aesNonce i ∧ r.pt = ch

/-! ## domain separation -/

theorem chunkAad_eq (c i : Nat) :
    chunkAad c i = [97, 110, 100, 97, 95, 111, 98, 106, 101, 99, 116, 95, 115, 116, 111, 114, 101, 46, 101,
      110, 99, 114, 121, 112, 116, 101, 100, 46, 99, 104, 117, 110, 107, 46, 118, 49] ++ (le64 c ++ le64 i) := by
  unfold chunkAad
  rw [gen_chunkAadLayout]
  simp [encChunkItem]

/-- A metadata AAD is never a chunk AAD (the two magic strings differ at byte 28). -/
theorem metaAad_ne_chunkAad (loc : Bytes) (m : Meta) (c i : Nat) : metaAad loc m ≠ chunkAad c i := by
  rw [metaAad_eq, chunkAad_eq]
  intro h
  simp at h

/-! ## chunks -/

theorem chunksAux_getElem? (c : Nat) (hc : 1 ≤ c) : ∀ (fuel : Nat) (d : Bytes), d.length ≤ fuel →
    ∀ i ch, (chunksAux c fuel d)[i]? = some ch → i * c < d.length ∧ ch = slice d (i * c) (i * c + c)
  | 0, d, _, i, ch, h => by simp [chunksAux] at h
  | fuel + 1, [], _, i, ch, h => by simp [chunksAux] at h
  | fuel + 1, b :: d, hl, 0, ch, h => by
    simp only [chunksAux, List.getElem?_cons_zero, Option.some.injEq] at h
    refine ⟨by simp, ?_⟩
    rw [← h]; simp [slice]
  | fuel + 1, b :: d, hl, i + 1, ch, h => by
    simp only [chunksAux, List.getElem?_cons_succ] at h
    have hdl : ((b :: d).drop c).length ≤ fuel := by
      simp only [List.length_drop, List.length_cons] at *; omega
    obtain ⟨h1, h2⟩ := chunksAux_getElem? c hc fuel ((b :: d).drop c) hdl i ch h
    simp only [List.length_drop] at h1
    have hm : (i + 1) * c = i * c + c := by rw [Nat.add_mul]; simp
    refine ⟨by rw [hm]; omega, ?_⟩
    rw [h2, hm]
    have e : ∀ (l : Bytes) (a w : Nat), slice (l.drop c) a (a + w) = slice l (a + c) (a + c + w) := by
      intro l a w
      unfold slice
      rw [List.drop_drop]
      have h1 : a + w - a = w := by omega
      have h2 : a + c + w - (a + c) = w := by omega
      have h3 : c + a = a + c := by omega
      rw [h1, h2, h3]
    exact e _ _ _

theorem chunks_getElem? (c : Nat) (hc : 1 ≤ c) (P : Bytes) (i : Nat) (ch : Bytes)
    (h : (chunks c P)[i]? = some ch) : i * c < P.length ∧ ch = slice P (i * c) (i * c + c) :=
  chunksAux_getElem? c hc P.length P (Nat.le_refl _) i ch h

/-! ## the metadata seal -/

/-- A document without seal, chunk-AAD version and generation: what `verify_metadata` takes for a
pre-authentication ("legacy") document. -/
def legacyShaped (m : Meta) : Prop :=
  m.authNonce = none ∧ m.authTag = none ∧ m.chunkAadVersion = none ∧ m.generation = none

theorem verify_authenticated {A : AEAD} {strict : Bool} {loc : Bytes} {m : Meta} {a : Auth}
    (h : verifyMetadata A strict loc m = .ok a) (hmode : strict = true ∨ ¬ legacyShaped m) :
    a = .authenticated ∧ ∃ n t p, m.authNonce = some n ∧ m.authTag = some t ∧
      A.dec n (metaAad loc m) [] t = some p := by
  unfold verifyMetadata at h
  cases hn : m.authNonce <;> cases ht : m.authTag <;> simp only [hn, ht] at h
  · -- (None, None): rejected unless legacy shaped and not strict
    exfalso
    rw [gen_strippedGuard] at h
    by_cases hav : m.chunkAadVersion.isSome = true
    · simp [fieldPresent, hav] at h
    · by_cases hg : m.generation.isSome = true
      · simp [fieldPresent, hg] at h
      · rcases hmode with hs | hl
        · simp [fieldPresent, hav, hg, hs] at h
        · apply hl
          refine ⟨hn, ht, ?_, ?_⟩
          · cases h' : m.chunkAadVersion <;> simp_all
          · cases h' : m.generation <;> simp_all
  · cases h
  · cases h
  · rename_i n t
    cases hd : A.dec n (metaAad loc m) [] t with
    | none => simp [hd] at h
    | some p =>
      simp only [hd] at h
      cases hv : chunkAadVersion m with
      | error e => simp [hv] at h
      | ok v =>
        simp only [hv] at h
        injection h with h
        exact ⟨h.symm, n, t, p, rfl, rfl, hd⟩

/-- An authenticated document of key `x` is, field by field, the document of a commit of `x`. -/
theorem authenticated_is_commit {A : AEAD} {H : List SealRec} {commits : List Commit}
    (hI : Ideal A H) (hH : Honest H commits) {x : Bytes} {m : Meta} (hfit : m.fits x = true)
    {n t p : Bytes} (hd : A.dec n (metaAad x m) [] t = some p) :
    ∃ k ∈ commits, k.loc = x ∧ m.unsealed = k.doc.unsealed := by
  have hr := hI _ _ _ _ _ hd
  rcases hH.classify _ hr with ⟨k, hk, haad⟩ | ⟨c, i, haad⟩
  · simp only at haad
    obtain ⟨e1, e2⟩ := metaAad_inj hfit (hH.fits k hk) haad
    exact ⟨k, hk, e1.symm, e2⟩
  · exact absurd haad (metaAad_ne_chunkAad _ _ _ _)

theorem unsealed_fields {m m' : Meta} (h : m.unsealed = m'.unsealed) :
    m.size = m'.size ∧ m.eTag = m'.eTag ∧ m.aesNonce = m'.aesNonce ∧ m.aesTags = m'.aesTags ∧
    m.chunkSize = m'.chunkSize ∧ m.chunkAadVersion = m'.chunkAadVersion ∧
    m.generation = m'.generation ∧ m.committedAtMs = m'.committedAtMs := by
  cases m; cases m'
  simp only [Meta.unsealed, Meta.mk.injEq] at h
  simp_all

/-! ## chunks under an authenticated document -/

theorem chunkSound_of_commit {A : AEAD} {H : List SealRec} {commits : List Commit}
    (hI : Ideal A H) (hN : NonceRespecting H) (hH : Honest H commits)
    {k : Commit} (hk : k ∈ commits) {m : Meta} (hm : m.unsealed = k.doc.unsealed) (storeChunk : Nat) :
    readChunkSize storeChunk m = k.c ∧ ChunkSound A m k.c k.plain := by
  obtain ⟨_, _, hnonce, htags, hcs, hav, _, _⟩ := unsealed_fields hm
  obtain ⟨hc1, hc2, hc3⟩ := hH.chunk k hk
  have hrc : readChunkSize storeChunk m = k.c := by
    unfold readChunkSize normalizeChunkSize
    rw [hcs, hc1]
    simp only
    rw [if_pos (by omega)]
    omega
  refine ⟨hrc, ?_⟩
  intro idx ct p ho
  unfold openChunk at ho
  cases htag : m.aesTags[idx]? with
  | none => simp [htag] at ho
  | some tag =>
    simp only [htag] at ho
    have hv : chunkAadForMeta m k.c idx = .ok (chunkAad k.c idx) := by
      unfold chunkAadForMeta chunkAadVersion
      rw [hav, hH.bound k hk]
      simp [gen_chunkAadVersions.1, gen_chunkAadVersions.2]
    simp only [hv] at ho
    cases hd : A.dec (deriveNonceBytes m.aesNonce idx) (chunkAad k.c idx) ct tag with
    | none => simp [hd] at ho
    | some p' =>
      simp only [hd] at ho
      injection ho with ho
      subst ho
      -- idx is a chunk index of the commit
      have hidx : idx < (chunks k.c k.plain).length := by
        rw [← hH.ntags k hk, ← htags]
        exact (List.getElem?_eq_some_iff.mp htag).1
      obtain ⟨ch, hch⟩ : ∃ ch, (chunks k.c k.plain)[idx]? = some ch :=
        ⟨_, List.getElem?_eq_getElem hidx⟩
      obtain ⟨r, hr, hrn, hrp⟩ := hH.sealed k hk idx ch hch
      have hr' := hI _ _ _ _ _ hd
      have : r = ⟨deriveNonceBytes m.aesNonce idx, chunkAad k.c idx, p', ct, tag⟩ :=
        hN r hr _ hr' (by rw [hrn, hnonce])
      have hp : p' = ch := by rw [← hrp, this]
      obtain ⟨h1, h2⟩ := chunks_getElem? k.c hc2 k.plain idx ch hch
      exact ⟨h1, by rw [hp, h2]⟩

end AndaVerif.Enc

namespace AndaVerif.Enc
open AndaVerif.Gen.EncAad

/-- What a finished `get_opts` may have produced, relative to the commits of key `x`. -/
def GetOk (commits : List Commit) (x : Bytes) (plan : Except RErr GetPlan) : SRes → Prop
  | .done out => ∃ k ∈ commits, k.loc = x ∧ ∃ p, plan = .ok p ∧ p.rStart ≤ p.rEnd ∧ p.rEnd ≤ k.plain.length ∧
      out = slice k.plain p.rStart p.rEnd
  | .fail _ out => out = [] ∨ ∃ k ∈ commits, k.loc = x ∧ ∃ p j, plan = .ok p ∧ j ≤ p.rEnd - p.rStart ∧
      out = slice k.plain p.rStart (p.rStart + j)
  | .cont _ => False

theorem getWith_ok {A : AEAD} {H : List SealRec} {commits : List Commit}
    (hI : Ideal A H) (hN : NonceRespecting H) (hH : Honest H commits)
    (strict : Bool) (storeChunk : Nat) (B : Backend)
    (x : Bytes) (range : Option GetRange) (head : Bool) (reseg : Bytes → List Bytes)
    (doc : Except RErr Meta)
    (hfit : ∀ m, doc = .ok m → m.fits x = true)
    (hmode : strict = true ∨ ∀ m, doc = .ok m → ¬ legacyShaped m) :
    GetOk commits x (getWith A strict storeChunk B x range head reseg doc).1
      (getWith A strict storeChunk B x range head reseg doc).2 := by
  unfold getWith
  cases hm : doc with
  | error e => exact Or.inl rfl
  | ok m =>
    simp only
    cases hv : verifyMetadata A strict x m with
    | error e => exact Or.inl rfl
    | ok a =>
      simp only
      have hmode' : strict = true ∨ ¬ legacyShaped m := hmode.imp id (fun h => h m hm)
      obtain ⟨_, n, t, p, _, _, hd⟩ := verify_authenticated hv hmode'
      obtain ⟨k, hk, hloc, hun⟩ := authenticated_is_commit hI hH (hfit m hm) hd
      obtain ⟨hrc, hcs⟩ := chunkSound_of_commit hI hN hH hk hun storeChunk
      have hsize : m.size = k.plain.length := by
        rw [(unsealed_fields hun).1, hH.size k hk]
      have hc1 := (hH.chunk k hk).2.1
      cases hp : getPlan m.size (readChunkSize storeChunk m) range head with
      | error e => exact Or.inl rfl
      | ok plan =>
        simp only
        cases B.payload x m.generation with
        | none => exact Or.inl rfl
        | some payload =>
          simp only
          cases backendGet payload plan.rr with
          | error e => exact Or.inl rfl
          | ok bytes =>
            simp only
            rw [hrc] at hp ⊢
            obtain ⟨g1, g2, g3, g4⟩ := getPlan_ok hc1 hp
            rw [hsize] at g2
            by_cases hse : plan.rStart = plan.rEnd
            · have hl : plan.len = 0 := by omega
              simp only [decStream, hl, if_true]
              exact ⟨k, hk, hloc, plan, rfl, g1, g2, by rw [hse, slice_self]⟩
            · have hlt : plan.rStart < plan.rEnd := by omega
              obtain ⟨g5, g6⟩ := g4 hlt
              have hpo : PlanOk k.plain ⟨m, k.c, plan.startIdx, plan.startOffset⟩ plan.rStart plan.rEnd :=
                ⟨hc1, hlt, g2, g5, g6⟩
              have := decStream_ok hpo hcs (reseg bytes)
              rw [g3]
              cases hr : decStream A ⟨m, k.c, plan.startIdx, plan.startOffset⟩ (plan.rEnd - plan.rStart) (reseg bytes) with
              | cont st => exact absurd hr (this.2 st)
              | done out =>
                rw [hr] at this
                exact ⟨k, hk, hloc, plan, rfl, g1, g2, this.1⟩
              | fail e out =>
                rw [hr] at this
                obtain ⟨j, hj, ho⟩ := this.1
                exact Or.inr ⟨k, hk, hloc, plan, j, rfl, hj, ho⟩

theorem getObject_ok {A : AEAD} {H : List SealRec} {commits : List Commit}
    (hI : Ideal A H) (hN : NonceRespecting H) (hH : Honest H commits)
    (strict : Bool) (storeChunk : Nat) (B : Backend)
    (hB : ∀ loc m, B.metaDoc loc = .ok m → m.fits loc = true)
    (x : Bytes) (range : Option GetRange) (head : Bool) (reseg : Bytes → List Bytes)
    (hmode : strict = true ∨ ∀ m, B.metaDoc x = .ok m → ¬ legacyShaped m) :
    GetOk commits x (getObject A strict storeChunk B x range head reseg).1
      (getObject A strict storeChunk B x range head reseg).2 :=
  getWith_ok hI hN hH strict storeChunk B x range head reseg (B.metaDoc x) (hB x) hmode

/-- Warm instance: whatever document the cache holds, and whatever the re-resolve after NotFound reads,
the outcome obeys the same bound — because `verify_metadata` runs in every iteration. -/
theorem getObjectWarm_ok {A : AEAD} {H : List SealRec} {commits : List Commit}
    (hI : Ideal A H) (hN : NonceRespecting H) (hH : Honest H commits)
    (strict : Bool) (storeChunk : Nat) (B : Backend)
    (hB : ∀ loc m, B.metaDoc loc = .ok m → m.fits loc = true)
    (x : Bytes) (range : Option GetRange) (head : Bool) (reseg : Bytes → List Bytes)
    (cached : Option Meta) (hcfit : ∀ m, cached = some m → m.fits x = true)
    (hmode : strict = true ∨
      ((∀ m, B.metaDoc x = .ok m → ¬ legacyShaped m) ∧ ∀ m, cached = some m → ¬ legacyShaped m)) :
    GetOk commits x (getObjectWarm A strict storeChunk B x range head reseg cached).1
      (getObjectWarm A strict storeChunk B x range head reseg cached).2 := by
  have hcold := getObject_ok hI hN hH strict storeChunk B hB x range head reseg (hmode.imp id (·.1))
  unfold getObjectWarm
  cases cached with
  | none => exact hcold
  | some m0 =>
    simp only
    split
    · exact hcold
    · exact getWith_ok hI hN hH strict storeChunk B x range head reseg (.ok m0)
        (fun m h => by injection h with h; exact hcfit m (by rw [h]))
        (hmode.imp id (fun h m hm => by injection hm with hm; exact h.2 m (by rw [hm])))

/-- When the payload the cached document points at is gone, a warm read *is* a cold read. -/
theorem getObjectWarm_retry_eq_cold' (A : AEAD) (strict : Bool) (storeChunk : Nat) (B : Backend) (x : Bytes)
    (range : Option GetRange) (head : Bool) (reseg : Bytes → List Bytes) (m0 : Meta)
    (h : (getWith A strict storeChunk B x range head reseg (.ok m0)).2 = .fail .notFound []) :
    getObjectWarm A strict storeChunk B x range head reseg (some m0) =
      getObject A strict storeChunk B x range head reseg := by
  unfold getObjectWarm
  simp only [h, if_true]

theorem listEntry_ok {A : AEAD} {H : List SealRec} {commits : List Commit}
    (hI : Ideal A H) (hH : Honest H commits) (strict : Bool) (B : Backend)
    (hB : ∀ loc m, B.metaDoc loc = .ok m → m.fits loc = true) (x : Bytes)
    (hmode : strict = true ∨ ∀ m, B.metaDoc x = .ok m → ¬ legacyShaped m)
    {size : Nat} {etag : Option Bytes} {ts : Option Nat}
    (h : listEntry A strict B x = .ok (size, etag, ts)) :
    ∃ k ∈ commits, k.loc = x ∧ size = k.plain.length ∧ etag = k.doc.eTag ∧ ts = k.doc.committedAtMs := by
  unfold listEntry at h
  cases hm : B.metaDoc x with
  | error e => simp [hm] at h
  | ok m =>
    simp only [hm] at h
    cases hv : verifyMetadata A strict x m with
    | error e => simp [hv] at h
    | ok a =>
      simp only [hv] at h
      injection h with h
      have hmode' : strict = true ∨ ¬ legacyShaped m := hmode.imp id (fun h => h m hm)
      obtain ⟨_, n, t, p, _, _, hd⟩ := verify_authenticated hv hmode'
      obtain ⟨k, hk, hloc, hun⟩ := authenticated_is_commit hI hH (hB x m hm) hd
      obtain ⟨f1, f2, _, _, _, _, _, f8⟩ := unsealed_fields hun
      simp only [Prod.mk.injEq] at h
      refine ⟨k, hk, hloc, ?_, ?_, ?_⟩
      · rw [← h.1, f1, hH.size k hk]
      · rw [← h.2.1, f2]
      · rw [← h.2.2, f8]

/-- `head` succeeds only with what the listing entry would say. -/
theorem headObject_listEntry {A : AEAD} {strict : Bool} {B : Backend} {x : Bytes}
    {r : Nat × Option Bytes × Option Nat} (h : headObject A strict B x = .ok r) :
    listEntry A strict B x = .ok r := by
  unfold headObject headWith at h
  unfold listEntry
  cases hm : B.metaDoc x with
  | error e => simp [hm] at h
  | ok m =>
    simp only [hm] at h ⊢
    cases hv : verifyMetadata A strict x m with
    | error e => simp [hv] at h
    | ok a =>
      simp only [hv] at h ⊢
      cases hp : B.payload x m.generation with
      | none => simp [hp] at h
      | some _ => simpa [hp] using h

theorem headObject_ok {A : AEAD} {H : List SealRec} {commits : List Commit}
    (hI : Ideal A H) (hH : Honest H commits) (strict : Bool) (B : Backend)
    (hB : ∀ loc m, B.metaDoc loc = .ok m → m.fits loc = true) (x : Bytes)
    (hmode : strict = true ∨ ∀ m, B.metaDoc x = .ok m → ¬ legacyShaped m)
    {size : Nat} {etag : Option Bytes} {ts : Option Nat}
    (h : headObject A strict B x = .ok (size, etag, ts)) :
    ∃ k ∈ commits, k.loc = x ∧ size = k.plain.length ∧ etag = k.doc.eTag ∧ ts = k.doc.committedAtMs :=
  listEntry_ok hI hH strict B hB x hmode (headObject_listEntry h)

/-! ## The ideal hypothesis is satisfiable: a table-driven AEAD -/

/-- An AEAD that answers from a table of seal records (and refuses everything else). -/
def histAEAD (tbl : List SealRec) : AEAD where
  enc n a p := match tbl.find? (fun r => r.nonce = n ∧ r.aad = a ∧ r.pt = p) with
    | some r => (r.ct, r.tag)
    | none => (p, [])
  dec n a ct t := (tbl.find? (fun r => r.nonce = n ∧ r.aad = a ∧ r.ct = ct ∧ r.tag = t)).map (·.pt)

theorem histAEAD_ideal' (tbl : List SealRec) : Ideal (histAEAD tbl) tbl := by
  intro n a ct t p h
  simp only [histAEAD, Option.map_eq_some_iff] at h
  obtain ⟨r, hr, hp⟩ := h
  have hmem := List.mem_of_find?_eq_some hr
  have hprop := List.find?_some hr
  simp only [decide_eq_true_eq] at hprop
  obtain ⟨h1, h2, h3, h4⟩ := hprop
  cases r
  simp_all

end AndaVerif.Enc

namespace AndaVerif.Enc

/-- The plan's reported range is the `as_range` resolution of the caller's range (no head request). -/
theorem getPlan_asRange {size c : Nat} {range : Option GetRange} {p : GetPlan}
    (h : getPlan size c range false = .ok p) :
    (match range with | some r => asRange size r | none => .ok (0, size)) = .ok (p.rStart, p.rEnd) := by
  cases range with
  | none =>
    simp only [getPlan, Bool.false_eq_true, if_false] at h
    split at h <;> (injection h with h; subst h; rfl)
  | some r =>
    simp only [getPlan] at h
    cases hr : asRange size r with
    | error e => simp [hr] at h
    | ok se =>
      obtain ⟨s0, e0⟩ := se
      simp only [hr, Bool.false_eq_true, if_false] at h
      split at h <;> (injection h with h; subst h; exact hr)

/-- A completed `get_opts` (any iteration document) together with the plan it was served under. -/
theorem getWith_done {A : AEAD} {H : List SealRec} {commits : List Commit}
    (hI : Ideal A H) (hN : NonceRespecting H) (hH : Honest H commits)
    (strict : Bool) (storeChunk : Nat) (B : Backend)
    (x : Bytes) (range : Option GetRange) (head : Bool) (reseg : Bytes → List Bytes)
    (doc : Except RErr Meta)
    (hfit : ∀ m, doc = .ok m → m.fits x = true)
    (hmode : strict = true ∨ ∀ m, doc = .ok m → ¬ legacyShaped m)
    {out : Bytes} (hdone : (getWith A strict storeChunk B x range head reseg doc).2 = .done out) :
    ∃ k ∈ commits, k.loc = x ∧ ∃ p, getPlan k.plain.length k.c range head = .ok p ∧
      (getWith A strict storeChunk B x range head reseg doc).1 = .ok p ∧
      out = slice k.plain p.rStart p.rEnd := by
  have hok := getWith_ok hI hN hH strict storeChunk B x range head reseg doc hfit hmode
  unfold getWith at hdone hok ⊢
  cases hm : doc with
  | error e => simp [hm] at hdone
  | ok m =>
    simp only [hm] at hdone hok ⊢
    cases hv : verifyMetadata A strict x m with
    | error e => simp [hv] at hdone
    | ok a =>
      simp only [hv] at hdone hok ⊢
      have hmode' : strict = true ∨ ¬ legacyShaped m := hmode.imp id (fun h => h m hm)
      obtain ⟨_, n, t, p, _, _, hd⟩ := verify_authenticated hv hmode'
      obtain ⟨k, hk, hloc, hun⟩ := authenticated_is_commit hI hH (hfit m hm) hd
      obtain ⟨hrc, hcs⟩ := chunkSound_of_commit hI hN hH hk hun storeChunk
      have hsize : m.size = k.plain.length := by rw [(unsealed_fields hun).1, hH.size k hk]
      have hc1 := (hH.chunk k hk).2.1
      cases hp : getPlan m.size (readChunkSize storeChunk m) range head with
      | error e => simp [hp] at hdone
      | ok plan =>
        simp only [hp] at hdone hok ⊢
        cases hpl : B.payload x m.generation with
        | none => simp [hpl] at hdone
        | some payload =>
          simp only [hpl] at hdone hok ⊢
          cases hb : backendGet payload plan.rr with
          | error e => simp [hb] at hdone
          | ok bytes =>
            simp only [hb] at hdone hok ⊢
            rw [hdone] at hok
            obtain ⟨k', hk', hloc', p', hp', _, _, hout⟩ := hok
            injection hp' with hp'
            subst hp'
            -- the slice is taken from the commit the document authenticates as
            rw [hrc, hsize] at hp
            obtain ⟨g1, g2, g3, g4⟩ := getPlan_ok hc1 hp
            refine ⟨k, hk, hloc, plan, hp, rfl, ?_⟩
            by_cases hse : plan.rStart = plan.rEnd
            · have hl : plan.len = 0 := by omega
              simp only [hrc, decStream, hl, if_true] at hdone
              injection hdone with hdone
              rw [← hdone, hse, slice_self]
            · have hlt : plan.rStart < plan.rEnd := by omega
              obtain ⟨g5, g6⟩ := g4 hlt
              have hpo : PlanOk k.plain ⟨m, k.c, plan.startIdx, plan.startOffset⟩ plan.rStart plan.rEnd :=
                ⟨hc1, hlt, g2, g5, g6⟩
              have := (decStream_ok hpo hcs (reseg bytes)).1
              rw [hrc, g3] at hdone
              rw [hdone] at this
              exact this

end AndaVerif.Enc
