import AndaVerif.Model.ConcSpec
/-
Unique B-tree index (finite relation key ↦ id) versus the documents of the specification:
membership lemmas for `idxInsert` / `idxRemove` / `idxUpdate` and what a success / an
`AlreadyExists` of them says about the documents when the index agrees with them.
-/
namespace AndaVerif.ConcColl

theorem mem_idxRemove (ix : List (Nat × Nat)) (k i : Nat) (p : Nat × Nat) :
    p ∈ idxRemove ix k i ↔ p ∈ ix ∧ p ≠ (k, i) := by
  unfold idxRemove
  simp only [List.mem_filter, Bool.not_eq_true', ne_eq]
  constructor
  · rintro ⟨h1, h2⟩
    refine ⟨h1, fun h => ?_⟩
    subst h; simp at h2
  · rintro ⟨h1, h2⟩
    refine ⟨h1, ?_⟩
    rcases p with ⟨a, b⟩
    simp only [Prod.mk.injEq, not_and] at h2
    by_cases ha : a = k
    · subst ha; simp [h2 rfl]
    · simp [ha]

theorem idxInsert_none (ix : List (Nat × Nat)) (k i : Nat) :
    idxInsert ix k i = none ↔ ∃ j, j ≠ i ∧ (k, j) ∈ ix := by
  unfold idxInsert
  split
  · next h =>
    simp only [true_iff]
    simp only [List.any_eq_true, Bool.and_eq_true, beq_iff_eq, bne_iff_ne, ne_eq] at h
    obtain ⟨⟨a, b⟩, hm, ha, hb⟩ := h
    simp only at ha hb
    subst ha
    exact ⟨b, hb, hm⟩
  · next h =>
    have hno : ¬ ∃ j, j ≠ i ∧ (k, j) ∈ ix := by
      rintro ⟨j, hj, hm⟩
      apply h
      simp only [List.any_eq_true, Bool.and_eq_true, beq_iff_eq, bne_iff_ne, ne_eq]
      exact ⟨(k, j), hm, rfl, hj⟩
    split <;> simp [hno]

theorem mem_idxInsert (ix ix' : List (Nat × Nat)) (k i : Nat) (h : idxInsert ix k i = some ix')
    (p : Nat × Nat) : p ∈ ix' ↔ p ∈ ix ∨ p = (k, i) := by
  unfold idxInsert at h
  split at h
  · cases h
  · split at h
    · next hin =>
      cases h
      simp only [List.any_eq_true, Bool.and_eq_true, beq_iff_eq] at hin
      obtain ⟨⟨a, b⟩, hm, ha, hb⟩ := hin
      simp only at ha hb
      subst ha; subst hb
      constructor
      · exact Or.inl
      · rintro (h | h)
        · exact h
        · rw [h]; exact hm
    · cases h
      simp only [List.mem_cons]
      exact or_comm

/-- the index on `key` lists exactly the live documents' keys -/
def IdxRel (key : Doc → Nat) (ix : List (Nat × Nat)) (docs : Nat → Option Doc) : Prop :=
  ∀ k i, (k, i) ∈ ix ↔ ∃ d, docs i = some d ∧ key d = k

/-- `AlreadyExists` means another live document has the key. -/
theorem IdxRel.insert_none {key : Doc → Nat} {ix : List (Nat × Nat)} {docs : Nat → Option Doc}
    (h : IdxRel key ix docs) (k i : Nat) (hn : idxInsert ix k i = none) :
    ∃ j dj, j ≠ i ∧ docs j = some dj ∧ key dj = k := by
  obtain ⟨j, hj, hm⟩ := (idxInsert_none ix k i).mp hn
  obtain ⟨d, hd, hk⟩ := (h k j).mp hm
  exact ⟨j, d, hj, hd, hk⟩

/-- a successful insert means no other live document has the key -/
theorem IdxRel.insert_some {key : Doc → Nat} {ix ix' : List (Nat × Nat)} {docs : Nat → Option Doc}
    (h : IdxRel key ix docs) (k i : Nat) (hs : idxInsert ix k i = some ix') :
    ¬ ∃ j dj, j ≠ i ∧ docs j = some dj ∧ key dj = k := by
  rintro ⟨j, dj, hj, hd, hk⟩
  have : idxInsert ix k i = none := (idxInsert_none ix k i).mpr ⟨j, hj, (h k j).mpr ⟨dj, hd, hk⟩⟩
  rw [this] at hs; cases hs

/-- a new document enters the index -/
theorem IdxRel.insert {key : Doc → Nat} {ix ix' : List (Nat × Nat)} {docs : Nat → Option Doc}
    (h : IdxRel key ix docs) (d : Doc) (i : Nat) (hfree : docs i = none)
    (hs : idxInsert ix (key d) i = some ix') : IdxRel key ix' (setDoc docs i (some d)) := by
  intro k j
  rw [mem_idxInsert ix ix' (key d) i hs]
  unfold setDoc
  by_cases hj : j = i
  · subst hj
    simp only [if_true, Option.some.injEq, exists_eq_left', Prod.mk.injEq, and_true]
    constructor
    · rintro (hm | hk)
      · obtain ⟨d', hd', _⟩ := (h k j).mp hm
        rw [hfree] at hd'; cases hd'
      · exact hk.symm
    · intro hk; exact Or.inr hk.symm
  · simp only [hj, if_false, Prod.mk.injEq, and_false, or_false]
    exact h k j

/-- inserting and removing the same fresh pair leaves the relation as it was (the rollback of a
failed `add`) -/
theorem IdxRel.insert_remove {key : Doc → Nat} {ix ix' : List (Nat × Nat)} {docs : Nat → Option Doc}
    (h : IdxRel key ix docs) (k i : Nat) (hfree : docs i = none)
    (hs : idxInsert ix k i = some ix') : IdxRel key (idxRemove ix' k i) docs := by
  intro k' j
  rw [mem_idxRemove, mem_idxInsert ix ix' k i hs, ← h k' j]
  constructor
  · rintro ⟨hm | he, hne⟩
    · exact hm
    · exact absurd he hne
  · intro hm
    refine ⟨Or.inl hm, fun he => ?_⟩
    simp only [Prod.mk.injEq] at he
    obtain ⟨d', hd', _⟩ := (h k' j).mp hm
    rw [he.2, hfree] at hd'; cases hd'

/-- removing a pair that is not there changes nothing (the rollback on the index that refused) -/
theorem IdxRel.remove_absent {key : Doc → Nat} {ix : List (Nat × Nat)} {docs : Nat → Option Doc}
    (h : IdxRel key ix docs) (k i : Nat) (hfree : docs i = none) : IdxRel key (idxRemove ix k i) docs := by
  intro k' j
  rw [mem_idxRemove, ← h k' j]
  constructor
  · exact fun hh => hh.1
  · intro hm
    refine ⟨hm, fun he => ?_⟩
    simp only [Prod.mk.injEq] at he
    obtain ⟨d', hd', _⟩ := (h k' j).mp hm
    rw [he.2, hfree] at hd'; cases hd'

/-- a document leaves the index -/
theorem IdxRel.remove {key : Doc → Nat} {ix : List (Nat × Nat)} {docs : Nat → Option Doc}
    (h : IdxRel key ix docs) (d : Doc) (i : Nat) (hd : docs i = some d) :
    IdxRel key (idxRemove ix (key d) i) (setDoc docs i none) := by
  intro k j
  rw [mem_idxRemove, h k j]
  unfold setDoc
  by_cases hj : j = i
  · subst hj
    simp only [if_true, reduceCtorEq, false_and, exists_false, iff_false, not_and, ne_eq, Prod.mk.injEq, and_true,
      Decidable.not_not]
    rintro ⟨d', hd', hk⟩
    rw [hd] at hd'; cases hd'; exact hk.symm
  · simp only [hj, if_false, ne_eq, Prod.mk.injEq, and_false, not_false_eq_true, and_true]

/-- `BTree::update` success: the document's key moves -/
theorem IdxRel.update {key : Doc → Nat} {ix ix' : List (Nat × Nat)} {docs : Nat → Option Doc}
    (h : IdxRel key ix docs) (old new : Doc) (i : Nat) (hd : docs i = some old)
    (hs : idxUpdate ix (key old) (key new) i = some ix') : IdxRel key ix' (setDoc docs i (some new)) := by
  unfold idxUpdate at hs
  split at hs
  · next heq =>
    cases hs
    intro k j
    rw [h k j]
    unfold setDoc
    by_cases hj : j = i
    · subst hj
      simp only [if_true, Option.some.injEq, exists_eq_left', hd, heq]
    · simp only [hj, if_false]
  · next hne =>
    split at hs
    · cases hs
    · next ix1 hins =>
      cases hs
      intro k j
      rw [mem_idxRemove, mem_idxInsert ix ix1 (key new) i hins, h k j]
      unfold setDoc
      by_cases hj : j = i
      · subst hj
        simp only [if_true, Option.some.injEq, exists_eq_left', hd, Prod.mk.injEq, and_true, ne_eq]
        constructor
        · rintro ⟨hk | hk, hne2⟩
          · exact absurd hk.symm hne2
          · exact hk.symm
        · intro hk
          exact ⟨Or.inr hk.symm, fun he => hne (by rw [← he, hk])⟩
      · simp only [hj, if_false, Prod.mk.injEq, and_false, or_false, ne_eq, not_false_eq_true, and_true]

/-- `BTree::update` refusal: another live document has the new key (and the key changes) -/
theorem IdxRel.update_none {key : Doc → Nat} {ix : List (Nat × Nat)} {docs : Nat → Option Doc}
    (h : IdxRel key ix docs) (old new i : Nat) (hn : idxUpdate ix old new i = none) :
    old ≠ new ∧ ∃ j dj, j ≠ i ∧ docs j = some dj ∧ key dj = new := by
  unfold idxUpdate at hn
  split at hn
  · cases hn
  · next hne =>
    split at hn
    · next hins => exact ⟨hne, h.insert_none new i hins⟩
    · cases hn

/-- `BTree::update` success: no other live document has the new key (when the key changes) -/
theorem IdxRel.update_some {key : Doc → Nat} {ix ix' : List (Nat × Nat)} {docs : Nat → Option Doc}
    (h : IdxRel key ix docs) (old new i : Nat) (hs : idxUpdate ix old new i = some ix') (hne : old ≠ new) :
    ¬ ∃ j dj, j ≠ i ∧ docs j = some dj ∧ key dj = new := by
  unfold idxUpdate at hs
  split at hs
  · next heq => exact absurd heq hne
  · split at hs
    · cases hs
    · next ix1 hins => exact h.insert_some new i hins

/-- an index that is not touched still agrees when the key does not change -/
theorem IdxRel.same_key {key : Doc → Nat} {ix : List (Nat × Nat)} {docs : Nat → Option Doc}
    (h : IdxRel key ix docs) (old new : Doc) (i : Nat) (hd : docs i = some old) (hk : key new = key old) :
    IdxRel key ix (setDoc docs i (some new)) := by
  intro k j
  rw [h k j]
  unfold setDoc
  by_cases hj : j = i
  · subst hj
    simp only [if_true, Option.some.injEq, exists_eq_left', hd, hk]
  · simp only [hj, if_false]

end AndaVerif.ConcColl
