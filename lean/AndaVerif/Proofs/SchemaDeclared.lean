import AndaVerif.Proofs.SchemaRoundtrip
import AndaVerif.Proofs.SchemaSound
set_option linter.unusedSimpArgs false
/-
What `set_field` / `try_from_doc` keep after `normalize` + `validate` is in the declared variant at
every position where the type declares one — at every nesting depth.
-/
namespace AndaVerif.Schema

theorem bf16Bits_of_all (vs : List FieldValue) (h : vs.all isBf16Bits = true) :
    ∃ bs, bf16Bits? vs = some bs := by
  induction vs with
  | nil => exact ⟨[], by simp [bf16Bits?]⟩
  | cons v vs ih =>
    simp only [List.all_cons, Bool.and_eq_true] at h
    obtain ⟨bs, hbs⟩ := ih h.2
    obtain ⟨n, rfl, hn⟩ := (isBf16Bits_iff v).1 h.1
    exact ⟨n :: bs, by simp [bf16Bits?, hn, hbs]⟩

theorem zipAll_zipApply (c c' : FieldType → FieldValue → Bool) (f : FieldType → FieldValue → FieldValue)
    (ts : List FieldType) (vs : List FieldValue)
    (himp : ∀ t ∈ ts, ∀ x, c t (f t x) = true → c' t (f t x) = true)
    (h : zipAll (ts.map c) (zipApply (ts.map f) vs) = true) :
    zipAll (ts.map c') (zipApply (ts.map f) vs) = true := by
  induction ts generalizing vs with
  | nil => cases vs <;> simp [zipApply, zipAll] at h ⊢
  | cons t ts ih =>
    cases vs with
    | nil => simp [zipApply, zipAll] at h
    | cons v vs =>
      simp only [List.map_cons, zipApply, zipAll, Bool.and_eq_true] at h ⊢
      exact ⟨himp t (by simp) v h.1, ih vs (fun t' ht' => himp t' (by simp [ht'])) h.2⟩

theorem keysDistinct_iff {α : Type} (kts : List (FieldKey × α)) :
    keysDistinct kts = true ↔ kts.Pairwise (fun a b => a.1 ≠ b.1) := by
  induction kts with
  | nil => simp [keysDistinct]
  | cons kt kts ih =>
    obtain ⟨k, t⟩ := kt
    simp only [keysDistinct, Bool.and_eq_true, Bool.not_eq_true', List.any_eq_false, beq_iff_eq, ih,
      List.pairwise_cons]
    constructor
    · rintro ⟨h1, h2⟩; exact ⟨fun x hx e => h1 x hx e.symm, h2⟩
    · rintro ⟨h1, h2⟩; exact ⟨fun x hx e => h1 x hx e.symm, h2⟩

theorem FieldType.WFL_iff (ts : List FieldType) : FieldType.WFL ts = true ↔ ∀ t ∈ ts, t.WF = true := by
  induction ts with
  | nil => simp [FieldType.WFL]
  | cons t ts ih => simp [FieldType.WFL, ih]

theorem FieldType.WFM_iff (kts : List (FieldKey × FieldType)) :
    FieldType.WFM kts = true ↔ ∀ kt ∈ kts, kt.2.WF = true := by
  induction kts with
  | nil => simp [FieldType.WFM]
  | cons kt kts ih => obtain ⟨k, t⟩ := kt; simp [FieldType.WFM, ih]

theorem lookup_mapKeyed (fs : List (FieldKey × (FieldValue → FieldValue))) (kvs : List (FieldKey × FieldValue))
    (k : FieldKey) :
    (mapKeyed fs kvs).lookup k =
      (kvs.lookup k).map (fun x => match fs.lookup k with | some f => f x | none => x) := by
  induction kvs with
  | nil => simp [mapKeyed]
  | cons kv kvs ih =>
    obtain ⟨k', x⟩ := kv
    simp only [mapKeyed, List.map_cons] at ih ⊢
    cases hk : (k == k') with
    | true =>
      have : k = k' := by simpa using hk
      subst this
      cases hf : fs.lookup k <;> simp [List.lookup_cons, hf]
    | false =>
      cases hf : fs.lookup k' <;> simp [List.lookup_cons, hk, ih]

theorem validate_null_declared (fm : FloatModel) (t : FieldType) (h : validateInner fm t .null = true) :
    canonical fm false t .null = true := by
  cases t <;> simp [validateInner, canonical] at *

/-- accepted after normalisation ⇒ in the declared variant, at every depth -/
def DV (fm : FloatModel) (ft : FieldType) : Prop :=
  ∀ w, validateInner fm ft (normalize fm ft w) = true → canonical fm false ft (normalize fm ft w) = true

theorem dv_array (fm : FloatModel) (ts : List FieldType) (ih : ∀ t ∈ ts, DV fm t) : DV fm (.array ts) := by
  intro w h
  match ts, ih, h with
  | [], _, h => cases w <;> simp [normalize, validateInner, canonical] at h ⊢
  | [t], ih, h =>
    cases w <;> simp only [normalize, validateInner, canonical] at h ⊢ <;> try (simp at h; done)
    simp only [List.all_eq_true, List.mem_map, forall_exists_index, and_imp, forall_apply_eq_imp_iff₂] at h ⊢
    exact fun x hx => ih t (by simp) x (h x hx)
  | t₁ :: t₂ :: ts, ih, h =>
    cases w <;> simp only [normalize, validateInner, canonical] at h ⊢ <;> try (simp at h; done)
    simp only [validators_eq, normalizers_eq, canonicals_eq] at h ⊢
    exact zipAll_zipApply (validateInner fm) (canonical fm false) (normalize fm) _ _
      (fun t ht x hx => ih t ht x hx) h

theorem dv_map (fm : FloatModel) (kts : List (FieldKey × FieldType)) (hd : keysDistinct kts = true)
    (ih : ∀ kt ∈ kts, DV fm kt.2) : DV fm (.map kts) := by
  intro w h
  cases w <;> simp only [normalize, validateInner, canonical] at h ⊢ <;> try (simp at h; done)
  rename_i kvs
  simp only [keyNormalizers_eq, keyValidators_eq, keyCanonicals_eq, asWildcard_map] at h ⊢
  by_cases hemp : kts = []
  · subst hemp; simp [asWildcard, canonical]
  · have hne : ∀ {β : Type} (f : FieldKey × FieldType → FieldKey × β), (kts.map f).isEmpty = false := by
      intro β f
      cases kts with
      | nil => exact absurd rfl hemp
      | cons _ _ => simp
    cases hw : asWildcard kts with
    | some wt =>
      obtain ⟨w, t⟩ := wt
      obtain ⟨rfl, _⟩ := asWildcard_some hw
      simp only [hw, Option.map_some, validateInner, validateMap, keyValidators_eq, hne, Bool.false_eq_true,
        if_false, asWildcard_map, canonical, keyCanonicals_eq, mapValues, List.all_eq_true, List.mem_map,
        Bool.and_eq_true, forall_exists_index, and_imp, forall_apply_eq_imp_iff₂] at h ⊢
      exact fun kv hkv => ⟨(h kv hkv).1, ih (w, t) (by simp) kv.2 (h kv hkv).2⟩
    | none =>
      simp only [hw, Option.map_none, validateInner, validateMap, keyValidators_eq, hne, Bool.false_eq_true,
        if_false, asWildcard_map, canonical, keyCanonicals_eq, canonicalMap, Bool.and_eq_true,
        List.all_eq_true] at h ⊢
      obtain ⟨hkeys, hvals⟩ := h
      refine ⟨?_, ?_⟩
      · intro kv hkv
        have := hkeys kv hkv
        simpa [List.any_map] using this
      · intro c hc
        obtain ⟨kt, hkt, rfl⟩ := List.mem_map.1 hc
        have hv := hvals (kt.1, validateInner fm kt.2) (List.mem_map.2 ⟨kt, hkt, rfl⟩)
        simp only [lookup_mapKeyed] at hv ⊢
        have hlk : kts.lookup kt.1 = some kt.2 := lookup_of_mem kts ((keysDistinct_iff kts).1 hd) kt hkt
        cases hl : kvs.lookup kt.1 with
        | none =>
          simp only [hl, Option.map_none] at hv ⊢
          exact validate_null_declared fm kt.2 hv
        | some x =>
          simp only [hl, Option.map_some, lookup_map_snd, hlk] at hv ⊢
          exact ih kt hkt x hv

theorem dv_all (fm : FloatModel) : ∀ ft, ft.WF = true → DV fm ft := by
  intro ft
  induction ft using FieldType.ind with
  | hbool => intro _ w h; cases w <;> simp [normalize, validateInner, canonical] at h ⊢
  | hi64 =>
    intro _ w h
    cases w <;> simp only [normalize, validateInner, canonical] at h ⊢ <;> try (simp at h; done)
    rename_i n
    by_cases hn : (n : Int) ≤ i64Max
    · simp [hn]
    · simp [hn, validateInner] at h
  | hu64 => intro _ w h; cases w <;> simp [normalize, validateInner, canonical] at h ⊢
  | hf64 => intro _ w h; cases w <;> simp [normalize, validateInner, canonical] at h ⊢; exact h
  | hf32 =>
    intro _ w h
    cases w <;> simp only [normalize, validateInner, canonical] at h ⊢ <;> try (simp at h; done)
    · rename_i d
      by_cases hr : isF32ReadBack fm d = true
      · simp only [hr, if_true, validateInner] at h ⊢; exact h
      · simp [hr, validateInner] at h
    · exact h
  | hbytes => intro _ w h; cases w <;> simp [normalize, validateInner, canonical] at h ⊢
  | htext => intro _ w h; cases w <;> simp [normalize, validateInner, canonical] at h ⊢
  | hjson => intro _ w _; cases hn : normalize fm .json w <;> simp [canonical]
  | hvector =>
    intro _ w h
    cases w <;> simp only [normalize, validateInner, canonical] at h ⊢ <;> try (simp at h; done)
    rename_i vs
    cases hb : bf16Bits? vs with
    | some bs => simp
    | none =>
      simp only [hb, validateInner] at h
      obtain ⟨bs, hbs⟩ := bf16Bits_of_all vs h
      rw [hbs] at hb; cases hb
  | harray ts ih =>
    intro hwf
    simp only [FieldType.WF, FieldType.WFL_iff] at hwf
    exact dv_array fm ts (fun t ht => ih t ht (hwf t ht))
  | hmap kts ih =>
    intro hwf
    simp only [FieldType.WF, Bool.and_eq_true, FieldType.WFM_iff] at hwf
    exact dv_map fm kts hwf.1 (fun kt hkt => ih kt hkt (hwf.2 kt hkt))
  | hopt t ih =>
    intro hwf w h
    simp only [FieldType.WF] at hwf
    by_cases hn : w = .null
    · subst hn; simp [normalize, canonical]
    · rw [normalize_option fm t w hn] at h ⊢
      by_cases hn' : normalize fm t w = .null
      · rw [hn']; simp [canonical]
      · rw [validateInner_option fm t _ hn'] at h
        have := ih hwf w h
        revert hn' this
        cases normalize fm t w <;> simp [canonical]

end AndaVerif.Schema

namespace AndaVerif.Schema

theorem FieldType.fullyDeclaredL_iff (ts : List FieldType) :
    FieldType.fullyDeclaredL ts = true ↔ ∀ t ∈ ts, t.fullyDeclared = true := by
  induction ts with
  | nil => simp [FieldType.fullyDeclaredL]
  | cons t ts ih => simp [FieldType.fullyDeclaredL, ih]

theorem FieldType.fullyDeclaredM_iff (kts : List (FieldKey × FieldType)) :
    FieldType.fullyDeclaredM kts = true ↔ ∀ kt ∈ kts, kt.2.fullyDeclared = true := by
  induction kts with
  | nil => simp [FieldType.fullyDeclaredM]
  | cons kt kts ih => obtain ⟨k, t⟩ := kt; simp [FieldType.fullyDeclaredM, ih]

/-- a fully declared type never holds a `Json` value -/
theorem canonical_json_false (fm : FloatModel) (s : Bool) (j : Json) :
    ∀ ft, ft.fullyDeclared = true → canonical fm s ft (.json j) = false := by
  intro ft
  induction ft using FieldType.ind with
  | hjson => intro h; simp [FieldType.fullyDeclared] at h
  | hopt t ih =>
    intro h
    simp only [FieldType.fullyDeclared] at h
    simp [canonical, ih h]
  | _ => intro _; simp [canonical]

/-- on fully declared types the two readings of "canonical" coincide -/
theorem canonical_strict_eq (fm : FloatModel) :
    ∀ ft, ft.fullyDeclared = true → canonical fm false ft = canonical fm true ft := by
  intro ft
  induction ft using FieldType.ind with
  | hjson => intro h; simp [FieldType.fullyDeclared] at h
  | harray ts ih =>
    intro h
    simp only [FieldType.fullyDeclared, Bool.and_eq_true, Bool.not_eq_true', FieldType.fullyDeclaredL_iff] at h
    have hl : canonicals fm false ts = canonicals fm true ts := by
      rw [canonicals_eq, canonicals_eq]
      exact List.map_congr_left (fun t ht => ih t ht (h.2 t ht))
    funext v
    match ts, h, ih, hl with
    | [], h, _, _ => simp at h
    | [t], h, ih, _ =>
      cases v <;> simp only [canonical]
      rw [ih t (by simp) (h.2 t (by simp))]
    | t₁ :: t₂ :: ts, _, _, hl =>
      cases v <;> simp only [canonical]
      rw [hl]
  | hmap kts ih =>
    intro h
    simp only [FieldType.fullyDeclared, Bool.and_eq_true, Bool.not_eq_true', FieldType.fullyDeclaredM_iff] at h
    have hl : keyCanonicals fm false kts = keyCanonicals fm true kts := by
      rw [keyCanonicals_eq, keyCanonicals_eq]
      apply List.map_congr_left
      intro kt hkt
      rw [ih kt hkt (h.2 kt hkt)]
    have hne : (keyCanonicals fm true kts).isEmpty = false := by
      rw [keyCanonicals_eq]
      cases kts with
      | nil => simp at h
      | cons _ _ => simp
    funext v
    cases v <;> simp only [canonical]
    rw [hl, hne]
    simp
  | hopt t ih =>
    intro h
    simp only [FieldType.fullyDeclared] at h
    funext v
    cases v <;> simp only [canonical, ih h, FieldValue.isJsonNull] <;> simp
    rename_i j
    cases j <;> simp
    exact canonical_json_false fm true .null t h
  | _ => intro _; funext v; cases v <;> simp [canonical]

end AndaVerif.Schema
