import AndaVerif.Proofs.SchemaDocProofs
import AndaVerif.Model.SchemaJson
/-
The human-readable (JSON) branch: rendering a well-formed value without NaN / non-finite floats /
f32 leaves with `toJ` and reading it back with `fromJ` yields exactly `generic v`, so the read path
restores the stored value as it does for CBOR.
-/
namespace AndaVerif.Schema

/-- what the opaque string codec must satisfy (real prefixes / Base64 / decimal in the driver) -/
structure TextModel.Lawful (tm : TextModel) : Prop where
  plain : ∀ s, tm.needsEscape s = false → tm.classify s = .plain
  esc : ∀ s, tm.classify (tm.esc s) = .txt s
  b64 : ∀ b, tm.classify (tm.b64 b) = .b64 (some b)
  i64 : ∀ i, tm.classify (tm.i64s i) = .i64 (some i)

mutual
/-- no NaN, no non-finite float, no f32 leaf (an f32 is rendered through its shortest decimal) -/
def jsonSafe (fm : FloatModel) : FieldValue → Bool
  | .f64 d => fm.isFinite64 d && !fm.isNaN64 d
  | .f32 _ => false
  | .array vs => jsonSafeL fm vs
  | .map kvs => jsonSafeM fm kvs
  | _ => true
def jsonSafeL (fm : FloatModel) : List FieldValue → Bool
  | [] => true
  | v :: vs => jsonSafe fm v && jsonSafeL fm vs
def jsonSafeM (fm : FloatModel) : List (FieldKey × FieldValue) → Bool
  | [] => true
  | (_, v) :: vs => jsonSafe fm v && jsonSafeM fm vs
end

theorem jsonSafeL_iff (fm : FloatModel) (vs : List FieldValue) :
    jsonSafeL fm vs = true ↔ ∀ v ∈ vs, jsonSafe fm v = true := by
  induction vs with
  | nil => simp [jsonSafeL]
  | cons v vs ih => simp [jsonSafeL, ih]

theorem jsonSafeM_iff (fm : FloatModel) (kvs : List (FieldKey × FieldValue)) :
    jsonSafeM fm kvs = true ↔ ∀ kv ∈ kvs, jsonSafe fm kv.2 = true := by
  induction kvs with
  | nil => simp [jsonSafeM]
  | cons kv kvs ih => obtain ⟨k, v⟩ := kv; simp [jsonSafeM, ih]

theorem fromJ_encText (tm : TextModel) (htm : tm.Lawful) (s : String) :
    fromJ tm (.str (tm.encText s)) = some (.text s) := by
  unfold TextModel.encText
  by_cases h : tm.needsEscape s = true
  · simp [h, fromJ, htm.esc]
  · have h' : tm.needsEscape s = false := by simpa using h
    simp [h', fromJ, htm.plain s h']

theorem keyFromJ_keyToJ (tm : TextModel) (htm : tm.Lawful) (k : FieldKey) (h : k.WF = true) :
    keyFromJ tm (keyToJ tm k) = some k := by
  cases k with
  | text s =>
    simp only [keyToJ, TextModel.encText]
    by_cases hn : tm.needsEscape s = true
    · simp [hn, keyFromJ, htm.esc]
    · have h' : tm.needsEscape s = false := by simpa using hn
      simp [h', keyFromJ, htm.plain s h']
  | i64 i =>
    simp only [FieldKey.WF, Bool.and_eq_true, decide_eq_true_eq] at h
    simp [keyToJ, keyFromJ, htm.i64, h.1, h.2]
  | bytes b => simp [keyToJ, keyFromJ, htm.b64]

theorem keyFromJ_text (tm : TextModel) (htm : tm.Lawful) (s : String) :
    keyFromJ tm (tm.encText s) = some (.text s) :=
  keyFromJ_keyToJ tm htm (.text s) rfl

theorem jescapeL_eq (tm : TextModel) (xs : List Json) : jescapeL tm xs = xs.map (jescape tm) := by
  induction xs with
  | nil => simp [jescapeL]
  | cons x xs ih => simp [jescapeL, ih]

theorem jescapeO_eq (tm : TextModel) (kvs : List (String × Json)) :
    jescapeO tm kvs = kvs.map (fun kv => (tm.encText kv.1, jescape tm kv.2)) := by
  induction kvs with
  | nil => simp [jescapeO]
  | cons kv kvs ih => obtain ⟨k, v⟩ := kv; simp [jescapeO, ih]

theorem fromJL_map (tm : TextModel) {α : Type} (f : α → Json) (g : α → FieldValue) (xs : List α)
    (h : ∀ x ∈ xs, fromJ tm (f x) = some (g x)) : fromJL tm (xs.map f) = some (xs.map g) := by
  induction xs with
  | nil => simp [fromJL]
  | cons x xs ih => simp [fromJL, h x (by simp), ih (fun y hy => h y (by simp [hy]))]

/-- keyed sequences: decoded keys are the original, distinct, keys -/
theorem fromJO_map (tm : TextModel) {α : Type} (kf : α → String) (f : α → Json)
    (kg : α → FieldKey) (g : α → FieldValue) (xs : List α)
    (hd : xs.Pairwise (fun a b => kg a ≠ kg b))
    (hk : ∀ x ∈ xs, keyFromJ tm (kf x) = some (kg x))
    (h : ∀ x ∈ xs, fromJ tm (f x) = some (g x)) :
    fromJO tm (xs.map (fun x => (kf x, f x))) = some (xs.map (fun x => (kg x, g x))) := by
  induction xs with
  | nil => simp [fromJO]
  | cons x xs ih =>
    rw [List.pairwise_cons] at hd
    have h4 := ih hd.2 (fun y hy => hk y (by simp [hy])) (fun y hy => h y (by simp [hy]))
    have hno : (xs.map (fun x => (kg x, g x))).any (fun kv => kv.1 == kg x) = false := by
      rw [List.any_eq_false]
      intro y hy
      obtain ⟨z, hz, rfl⟩ := List.mem_map.1 hy
      simpa using fun e => hd.1 z hz e.symm
    simp [fromJO, hk x (by simp), h x (by simp), h4, hno]

theorem fromJ_jescape (tm : TextModel) (htm : tm.Lawful) (fm : FloatModel) : ∀ j : Json, j.WF fm = true →
    fromJ tm (jescape tm j) = some (jshape j) := by
  intro j
  induction j using Json.ind with
  | hnull => intro _; simp [jescape, fromJ, jshape]
  | hbool b => intro _; simp [jescape, fromJ, jshape]
  | huint n =>
    intro h
    simp only [Json.WF, decide_eq_true_eq] at h
    simp [jescape, fromJ, jshape, h]
  | hnint i =>
    intro h
    simp only [Json.WF, Bool.and_eq_true, decide_eq_true_eq] at h
    simp [jescape, fromJ, jshape, h.1]
  | hfloat d => intro _; simp [jescape, fromJ, jshape]
  | hstr s => intro _; simp [jescape, jshape, fromJ_encText tm htm]
  | harr xs ih =>
    intro h
    simp only [Json.WF, Json.WFL_iff] at h
    have := fromJL_map tm (jescape tm) jshape xs (fun x hx => ih x hx (h x hx))
    simp [jescape, fromJ, jshape, jescapeL_eq, jshapeL_eq, this]
  | hobj kvs ih =>
    intro h
    simp only [Json.WF, Json.WFO_iff] at h
    have := fromJO_map tm (fun kv => tm.encText kv.1) (fun kv => jescape tm kv.2)
      (fun kv => FieldKey.text kv.1) (fun kv => jshape kv.2) kvs
      (h.2.imp (fun hab e => hab (by simpa using e)))
      (fun kv _ => keyFromJ_text tm htm kv.1) (fun kv hkv => ih kv hkv (h.1 kv hkv))
    simp [jescape, fromJ, jshape, jescapeO_eq, jshapeO_eq, this]

theorem toJL_some (fm : FloatModel) (tm : TextModel) (jw : Nat → Nat) (vs : List FieldValue)
    (h : ∀ v ∈ vs, ∃ j, toJ fm tm jw v = some j ∧ fromJ tm j = some (generic fm v)) :
    ∃ xs, toJL fm tm jw vs = some xs ∧ fromJL tm xs = some (vs.map (generic fm)) := by
  induction vs with
  | nil => exact ⟨[], by simp [toJL], by simp [fromJL]⟩
  | cons v vs ih =>
    obtain ⟨j, h1, h2⟩ := h v (by simp)
    obtain ⟨xs, h3, h4⟩ := ih (fun x hx => h x (by simp [hx]))
    exact ⟨j :: xs, by simp [toJL, h1, h3], by simp [fromJL, h2, h4]⟩

theorem toJM_some (fm : FloatModel) (tm : TextModel) (htm : tm.Lawful) (jw : Nat → Nat)
    (kvs : List (FieldKey × FieldValue))
    (hk : ∀ kv ∈ kvs, kv.1.WF = true) (hd : kvs.Pairwise (fun a b => a.1 ≠ b.1))
    (h : ∀ kv ∈ kvs, ∃ j, toJ fm tm jw kv.2 = some j ∧ fromJ tm j = some (generic fm kv.2)) :
    ∃ xs, toJM fm tm jw kvs = some xs ∧
      fromJO tm xs = some (kvs.map (fun kv => (kv.1, generic fm kv.2))) := by
  induction kvs with
  | nil => exact ⟨[], by simp [toJM], by simp [fromJO]⟩
  | cons kv kvs ih =>
    obtain ⟨k, v⟩ := kv
    obtain ⟨j, h1, h2⟩ := h (k, v) (by simp)
    rw [List.pairwise_cons] at hd
    obtain ⟨xs, h3, h4⟩ := ih (fun x hx => hk x (by simp [hx])) hd.2 (fun x hx => h x (by simp [hx]))
    refine ⟨(keyToJ tm k, j) :: xs, by simp [toJM, h1, h3], ?_⟩
    have hkey := keyFromJ_keyToJ tm htm k (hk (k, v) (by simp))
    have hno : (kvs.map (fun kv => (kv.1, generic fm kv.2))).any (fun kv => kv.1 == k) = false := by
      rw [List.any_eq_false]
      intro y hy
      obtain ⟨z, hz, rfl⟩ := List.mem_map.1 hy
      simpa using fun e => hd.1 z hz e.symm
    simp only at h2
    simp [fromJO, hkey, h2, h4, hno]

theorem json_codec (fm : FloatModel) (tm : TextModel) (htm : tm.Lawful) (jw : Nat → Nat) :
    ∀ v : FieldValue, v.WF fm = true → jsonSafe fm v = true →
      ∃ j, toJ fm tm jw v = some j ∧ fromJ tm j = some (generic fm v) := by
  intro v
  induction v using FieldValue.ind with
  | hbool b => intro _ _; exact ⟨.bool b, by simp [toJ], by simp [fromJ, generic]⟩
  | hi64 i =>
    intro h _
    simp only [FieldValue.WF, Bool.and_eq_true, decide_eq_true_eq] at h
    obtain ⟨hlo, hhi⟩ := h
    by_cases h0 : 0 ≤ i
    · have : i.toNat ≤ u64Max := by unfold i64Max at hhi; unfold u64Max; omega
      exact ⟨.uint i.toNat, by simp [toJ, h0], by simp [fromJ, generic, h0, this]⟩
    · exact ⟨.nint i, by simp [toJ, h0], by simp [fromJ, generic, h0, hlo]⟩
  | hu64 n =>
    intro h _
    simp only [FieldValue.WF, decide_eq_true_eq] at h
    exact ⟨.uint n, by simp [toJ], by simp [fromJ, generic, h]⟩
  | hf64 d =>
    intro _ h
    simp only [jsonSafe, Bool.and_eq_true, Bool.not_eq_true'] at h
    exact ⟨.float d, by simp [toJ, h.1, h.2], by simp [fromJ, generic]⟩
  | hf32 x => intro _ h; simp [jsonSafe] at h
  | hbytes b => intro _ _; exact ⟨.str (tm.b64 b), by simp [toJ], by simp [fromJ, generic, htm.b64]⟩
  | htext s => intro _ _; exact ⟨.str (tm.encText s), by simp [toJ], by simp [generic, fromJ_encText tm htm]⟩
  | hjson j =>
    intro h _
    simp only [FieldValue.WF] at h
    exact ⟨jescape tm j, by simp [toJ], by simp [generic, fromJ_jescape tm htm fm j h]⟩
  | hvector bs =>
    intro h _
    simp only [FieldValue.WF, List.all_eq_true, decide_eq_true_eq] at h
    refine ⟨.arr (bs.map Json.uint), by simp [toJ], ?_⟩
    have := fromJL_map tm Json.uint FieldValue.u64 bs (fun b hb => by
      have : b ≤ u64Max := Nat.le_trans (h b hb) (by decide)
      simp [fromJ, this])
    simp [fromJ, generic, this]
  | harray vs ih =>
    intro h hs
    simp only [FieldValue.WF, WFL_iff] at h
    simp only [jsonSafe, jsonSafeL_iff] at hs
    obtain ⟨xs, h1, h2⟩ := toJL_some fm tm jw vs (fun v hv => ih v hv (h v hv) (hs v hv))
    exact ⟨.arr xs, by simp [toJ, h1], by simp [fromJ, generic, genericL_eq, h2]⟩
  | hmap kvs ih =>
    intro h hs
    simp only [FieldValue.WF, WFM_iff] at h
    simp only [jsonSafe, jsonSafeM_iff] at hs
    obtain ⟨xs, h1, h2⟩ := toJM_some fm tm htm jw kvs h.1 h.2.2
      (fun kv hkv => ih kv hkv (h.2.1 kv hkv) (hs kv hkv))
    exact ⟨.obj xs, by simp [toJ, h1], by simp [fromJ, generic, genericM_eq, h2]⟩
  | hnull => intro _ _; exact ⟨.null, by simp [toJ], by simp [fromJ, generic]⟩

/-- **JSON round trip** -/
theorem jsonLoad_canonical (fm : FloatModel) (hfm : fm.Lawful) (tm : TextModel) (htm : tm.Lawful)
    (jw : Nat → Nat) (ft : FieldType) (v : FieldValue)
    (hwf : v.WF fm = true) (hs : jsonSafe fm v = true) (hc : canonical fm true ft v = true)
    (hb : complexityOk Budget.default v = true) : jsonLoad fm tm jw ft v = some v := by
  obtain ⟨h1, h2, _, _⟩ := rt_all fm hfm ft v hwf hc
  obtain ⟨j, h5, h6⟩ := json_codec fm tm htm jw v hwf hs
  have hval := fieldValidate_of_ok fm hfm ft v hwf hc hb
  simp [jsonLoad, h5, h6, readPath, h1, h2, hval]

end AndaVerif.Schema
