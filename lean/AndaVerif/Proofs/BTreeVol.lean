import AndaVerif.Model.BTreeVol
import AndaVerif.Proofs.BTreeFlush
/-
The write sequence the flush model assembles (in the source-derived order) has the shape the crash
theorem needs.
-/
namespace AndaVerif
namespace BTreeFlush

theorem dropWhile_append_of_all {α : Type} (p : α → Bool) : ∀ (a b : List α), a.all p = true →
    (a ++ b).dropWhile p = b.dropWhile p
  | [], _, _ => rfl
  | x :: a, b, h => by
    simp only [List.all_cons, Bool.and_eq_true] at h
    simp only [List.cons_append, List.dropWhile_cons, h.1, if_true]
    exact dropWhile_append_of_all p a b h.2

theorem takeWhile_append_of_all {α : Type} (p : α → Bool) : ∀ (a b : List α), a.all p = true →
    (a ++ b).takeWhile p = a ++ b.takeWhile p
  | [], _, _ => rfl
  | x :: a, b, h => by
    simp only [List.all_cons, Bool.and_eq_true] at h
    simp only [List.cons_append, List.takeWhile_cons, h.1, if_true]
    rw [takeWhile_append_of_all p a b h.2]

/-- the durable writes of `flush_owned_with`, in the order extracted from the source -/
theorem flushOrder_writes (V : Vol) :
    Gen.BTreeOrder.flushOrder.flatMap V.stepWrites
      = (V.buckets.filter (·.dirty)).map (fun b => Write.putObj (b.id, V.generation) b.payload)
        ++ [Write.putMeta V.newMeta] := by
  simp [Gen.BTreeOrder.flushOrder, List.flatMap, Vol.stepWrites]

theorem flushWrites_shape (D : Durable) (V : Vol)
    (hne : (V.hasDirty || V.pending) = true)
    (hgen : ∀ m, D.md = some m → ∀ o ∈ referenced m, o.2 < V.generation)
    (hcov : V.newManifest = [] → V.committed = []) :
    flushShape D V.flushWrites = true
      ∧ commitIdx D V.flushWrites = (V.buckets.filter (·.dirty)).length := by
  have hno : (!V.hasDirty && !V.pending) = false := by
    cases h1 : V.hasDirty <;> cases h2 : V.pending <;> simp [h1, h2] at hne ⊢
  unfold Vol.flushWrites
  rw [hno]
  simp only [Bool.false_eq_true, if_false]
  rw [flushOrder_writes, List.append_assoc]
  have hfresh : ((V.buckets.filter (·.dirty)).map
      (fun b => Write.putObj (b.id, V.generation) b.payload)).all (isFreshPut D.md) = true := by
    rw [List.all_eq_true]
    intro w hw
    obtain ⟨b, _, rfl⟩ := List.mem_map.1 hw
    unfold isFreshPut
    cases hmd : D.md with
    | none => rfl
    | some m =>
      simp only [Bool.not_eq_true', List.contains_eq_mem, decide_eq_false_iff_not]
      intro hmem
      have := hgen m hmd _ hmem
      simp at this
  have hsafe : (V.obsolete.map Write.delObj).all (isSafeDel V.newMeta) = true := by
    rw [List.all_eq_true]
    intro w hw
    obtain ⟨o, ho, rfl⟩ := List.mem_map.1 hw
    simp only [isSafeDel, Bool.not_eq_true', List.contains_eq_mem, decide_eq_false_iff_not]
    have hf := List.mem_filter.1 ho
    unfold referenced
    split
    · rename_i hemp
      have : V.newManifest = [] := by simpa [Vol.newMeta] using hemp
      have hc := hcov this
      rw [hc] at hf; simp at hf
    · have : ¬ o ∈ V.newManifest := by simpa using hf.2
      simpa [Vol.newMeta] using this
  constructor
  · unfold flushShape
    rw [dropWhile_append_of_all _ _ _ hfresh]
    simp only [List.singleton_append, List.dropWhile_cons, isFreshPut, Bool.false_eq_true, if_false]
    exact hsafe
  · unfold commitIdx
    rw [takeWhile_append_of_all _ _ _ hfresh]
    simp [isFreshPut]

/-- the natural invariant behind `hcov`: some committed bucket id is still a bucket of the index
(buckets only disappear in `compact_buckets`, which marks every new bucket dirty) -/
theorem cover_of_buckets (V : Vol)
    (h : V.committed = [] ∨ V.hasDirty = true ∨ ∃ o ∈ V.committed, ∃ b ∈ V.buckets, b.id = o.1) :
    V.newManifest = [] → V.committed = [] := by
  intro hnil
  rcases h with h | h | ⟨o, ho, b, hb, hbo⟩
  · exact h
  · exfalso
    obtain ⟨b, hb, hd⟩ := List.any_eq_true.1 h
    have : (b.id, V.generation) ∈ V.newManifest := by
      unfold Vol.newManifest
      rw [List.mem_filterMap]
      exact ⟨b, hb, by simp [hd]⟩
    rw [hnil] at this; cases this
  · exfalso
    cases hd : b.dirty with
    | true =>
      have : (b.id, V.generation) ∈ V.newManifest := by
        unfold Vol.newManifest
        rw [List.mem_filterMap]
        exact ⟨b, hb, by simp [hd]⟩
      rw [hnil] at this; cases this
    | false =>
      have hsome : (V.committed.find? (fun o' => o'.1 == b.id)).isSome = true := by
        rw [List.find?_isSome]
        exact ⟨o, ho, by simp [hbo]⟩
      obtain ⟨o', ho'⟩ := Option.isSome_iff_exists.1 hsome
      have : o' ∈ V.newManifest := by
        unfold Vol.newManifest
        rw [List.mem_filterMap]
        exact ⟨b, hb, by simp [hd, ho']⟩
      rw [hnil] at this; cases this

end BTreeFlush
end AndaVerif
