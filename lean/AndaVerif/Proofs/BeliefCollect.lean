import AndaVerif.Proofs.BeliefClassify
/-
`collect_candidates` in closed form: which candidates and which ledger entries a list of rows
produces, independent of the ineligible rows among them.
-/
namespace AndaVerif.Belief

/-- The candidate of an eligible row. -/
def candOf (pol : Policy) (now : Nat) (r : Row) : Option Cand :=
  match eligible pol now r with
  | .ok c => some c
  | .error _ => none

/-- The exclusion of an ineligible row. -/
def exclOf (pol : Policy) (now : Nat) (r : Row) : Option (Nat × Reason) :=
  match eligible pol now r with
  | .ok _ => none
  | .error reason => some (r.id, reason)

def isEligible (pol : Policy) (now : Nat) (r : Row) : Bool := (candOf pol now r).isSome

theorem eligible_id {pol : Policy} {now : Nat} {r : Row} {c : Cand} (h : eligible pol now r = .ok c) :
    c.id = r.id ∧ c.stance = r.stance ∧ c.opposes = false ∧ c.evidence = r.evidence := by
  rw [eligible_eq_spec] at h
  unfold eligibleSpec at h
  repeat' split at h
  all_goals cases h
  all_goals simp

/-- Candidates the target loop produces. -/
def targetCands (pol : Policy) (now : Nat) (rs : List Row) : List Cand := rs.filterMap (candOf pol now)

/-- Candidates the rival loop produces for one rival's rows. -/
def rivalCands (pol : Policy) (now : Nat) (rs : List Row) : List Cand :=
  rs.filterMap (fun r => match candOf pol now r with
    | some c => if c.stance = .support then some { c with opposes := true } else none
    | none => none)

def idsWith (pol : Policy) (now : Nat) (st : Stance) (rs : List Row) : List Nat :=
  (targetCands pol now rs).filterMap (fun c => if c.stance = st then some c.id else none)

theorem foldl_stepTarget (pol : Policy) (now : Nat) (rs : List Row) (acc : Ledger × List Cand) :
    rs.foldl (stepTarget pol now) acc =
      ({ supporting := acc.1.supporting ++ idsWith pol now .support rs
         opposing := acc.1.opposing ++ idsWith pol now .reject rs
         uncertain := acc.1.uncertain ++ idsWith pol now .uncertain rs
         excluded := acc.1.excluded ++ rs.filterMap (exclOf pol now) },
       acc.2 ++ targetCands pol now rs) := by
  induction rs generalizing acc with
  | nil => simp [idsWith, targetCands]
  | cons r rs ih =>
    rw [List.foldl_cons, ih]
    unfold stepTarget
    cases h : eligible pol now r with
    | error reason =>
      simp [idsWith, targetCands, candOf, exclOf, h]
    | ok c =>
      cases hs : c.stance <;>
        simp [idsWith, targetCands, candOf, exclOf, h, hs]

theorem foldl_stepRival (pol : Policy) (now : Nat) (rs : List Row) (acc : Ledger × List Cand) :
    rs.foldl (stepRival pol now) acc =
      ({ acc.1 with opposing := acc.1.opposing ++ (rivalCands pol now rs).map (·.id) },
       acc.2 ++ rivalCands pol now rs) := by
  induction rs generalizing acc with
  | nil => simp [rivalCands]
  | cons r rs ih =>
    rw [List.foldl_cons, ih]
    unfold stepRival
    cases h : eligible pol now r with
    | error reason => simp [rivalCands, candOf, h]
    | ok c =>
      by_cases hs : c.stance = .support
      · simp [rivalCands, candOf, h, hs]
      · simp [rivalCands, candOf, h, hs]

/-- All rival candidates, rival by rival. -/
def allRivalCands (pol : Policy) (now : Nat) (rows : List Row) (rivals : List Nat) : List Cand :=
  rivals.flatMap (fun p => rivalCands pol now (rowsAbout rows p))

theorem foldl_rivals (pol : Policy) (now : Nat) (rows : List Row) (rivals : List Nat) (acc : Ledger × List Cand) :
    rivals.foldl (fun acc rival => (rowsAbout rows rival).foldl (stepRival pol now) acc) acc =
      ({ acc.1 with opposing := acc.1.opposing ++ (allRivalCands pol now rows rivals).map (·.id) },
       acc.2 ++ allRivalCands pol now rows rivals) := by
  induction rivals generalizing acc with
  | nil => simp [allRivalCands]
  | cons p ps ih =>
    rw [List.foldl_cons, ih, foldl_stepRival]
    simp [allRivalCands, List.flatMap_cons]

/-- `collect_candidates` in closed form. -/
theorem collect_eq (pol : Policy) (now : Nat) (rows : List Row) (target : Nat) (rivals : List Nat) :
    collect pol now rows target rivals =
      let tr := rowsAbout rows target
      let rc := if pol.expand then allRivalCands pol now rows rivals else []
      ({ supporting := idsWith pol now .support tr
         opposing := idsWith pol now .reject tr ++ rc.map (·.id)
         uncertain := idsWith pol now .uncertain tr
         excluded := tr.filterMap (exclOf pol now) },
       targetCands pol now tr ++ rc) := by
  unfold collect
  simp only [foldl_stepTarget, foldl_rivals]
  split <;> simp

-- ------------------------------------------------------------------------------------------
-- dropping the ineligible rows
-- ------------------------------------------------------------------------------------------

theorem rowsAbout_filter (rows : List Row) (p : Nat) (f : Row → Bool) :
    rowsAbout (rows.filter f) p = (rowsAbout rows p).filter f := by
  unfold rowsAbout
  rw [List.filter_filter, List.filter_filter]
  congr 1; funext r; exact Bool.and_comm _ _

theorem targetCands_filter (pol : Policy) (now : Nat) (rs : List Row) :
    targetCands pol now (rs.filter (isEligible pol now)) = targetCands pol now rs := by
  induction rs with
  | nil => rfl
  | cons r rs ih =>
    unfold targetCands at *
    by_cases h : isEligible pol now r
    · rw [List.filter_cons_of_pos h]
      simp only [List.filterMap_cons]; rw [ih]
    · rw [List.filter_cons_of_neg h]
      have : candOf pol now r = none := by
        unfold isEligible at h; simpa using h
      simp only [List.filterMap_cons, this]; exact ih

theorem rivalCands_filter (pol : Policy) (now : Nat) (rs : List Row) :
    rivalCands pol now (rs.filter (isEligible pol now)) = rivalCands pol now rs := by
  induction rs with
  | nil => rfl
  | cons r rs ih =>
    unfold rivalCands at *
    by_cases h : isEligible pol now r
    · rw [List.filter_cons_of_pos h]
      simp only [List.filterMap_cons]; rw [ih]
    · rw [List.filter_cons_of_neg h]
      have : candOf pol now r = none := by
        unfold isEligible at h; simpa using h
      simp only [List.filterMap_cons, this]; exact ih

theorem exclOf_filter (pol : Policy) (now : Nat) (rs : List Row) :
    (rs.filter (isEligible pol now)).filterMap (exclOf pol now) = [] := by
  induction rs with
  | nil => rfl
  | cons r rs ih =>
    by_cases h : isEligible pol now r
    · rw [List.filter_cons_of_pos h]
      have : exclOf pol now r = none := by
        unfold isEligible candOf at h; unfold exclOf
        cases he : eligible pol now r <;> simp_all
      simp only [List.filterMap_cons, this]; exact ih
    · rw [List.filter_cons_of_neg h]; exact ih

theorem allRivalCands_filter (pol : Policy) (now : Nat) (rows : List Row) (rivals : List Nat) :
    allRivalCands pol now (rows.filter (isEligible pol now)) rivals = allRivalCands pol now rows rivals := by
  unfold allRivalCands
  congr 1; funext p
  rw [rowsAbout_filter, rivalCands_filter]

/-- The candidates, and every ledger list except `excluded`, do not depend on the ineligible rows. -/
theorem collect_filter (pol : Policy) (now : Nat) (rows : List Row) (target : Nat) (rivals : List Nat) :
    collect pol now (rows.filter (isEligible pol now)) target rivals =
      ({ (collect pol now rows target rivals).1 with excluded := [] },
       (collect pol now rows target rivals).2) := by
  rw [collect_eq, collect_eq]
  simp only [rowsAbout_filter, allRivalCands_filter, idsWith, targetCands_filter, exclOf_filter]

/-- Every ineligible row about the target is listed as excluded, with its reason, in id order. -/
theorem collect_excluded (pol : Policy) (now : Nat) (rows : List Row) (target : Nat) (rivals : List Nat) :
    (collect pol now rows target rivals).1.excluded = (rowsAbout rows target).filterMap (exclOf pol now) := by
  rw [collect_eq]

/-- Nothing eligible on record: no candidate, nobody uncertain. -/
theorem collect_silent {pol : Policy} {now : Nat} {rows : List Row} {target : Nat} {rivals : List Nat}
    (h : ∀ r ∈ rows, (r.prop = target ∨ r.prop ∈ rivals) → isEligible pol now r = false) :
    (collect pol now rows target rivals).2 = [] ∧ (collect pol now rows target rivals).1.uncertain = [] := by
  have none_of : ∀ p, (p = target ∨ p ∈ rivals) → ∀ r ∈ rowsAbout rows p, candOf pol now r = none := by
    intro p hp r hr
    unfold rowsAbout at hr
    rw [List.mem_filter] at hr
    have hrp : r.prop = p := by simpa using hr.2
    have := h r hr.1 (by rw [hrp]; exact hp)
    unfold isEligible at this; simpa using this
  have ht : targetCands pol now (rowsAbout rows target) = [] := by
    unfold targetCands
    rw [List.filterMap_eq_nil_iff]
    exact none_of target (Or.inl rfl)
  have hr : allRivalCands pol now rows rivals = [] := by
    unfold allRivalCands
    rw [List.flatMap_eq_nil_iff]
    intro p hp
    unfold rivalCands
    rw [List.filterMap_eq_nil_iff]
    intro r hr
    rw [none_of p (Or.inr hp) r hr]
  rw [collect_eq]
  simp only [idsWith, ht, hr]
  split <;> simp

end AndaVerif.Belief
